//! C20 correspondence: the REAL derive-macro expansions (js-macro) and the hand-written Shade/Tint impls of lymui,
//! compiled against an in-memory stand-in for the few `napi` items they name, run on the same write / read /
//! missing-key scenarios as the Lean model generated from the js MIR (`lean/LymuiVerif/Gen/JsWitness.lean`).
//! The library sources are included verbatim (`include!` of lymui/src/lib.rs with `--cfg feature="js"`).
#![allow(dead_code, unused_imports, unexpected_cfgs, clippy::all)]

extern crate self as napi;

pub mod bindgen_prelude {
    use std::cell::RefCell;
    use std::collections::BTreeMap;
    use std::rc::Rc;

    #[derive(Debug, Clone, Copy, PartialEq, Eq)]
    pub enum Status { Ok, InvalidArg, NumberExpected, StringExpected, ObjectExpected, GenericFailure }

    #[derive(Debug, Clone)]
    pub struct Error { pub status: Status, pub reason: String }
    impl Error { pub fn from_status(status: Status) -> Self { Error { status, reason: String::new() } } }
    pub type Result<T> = std::result::Result<T, Error>;

    #[derive(Debug, Clone)]
    pub enum Value { Num(f64), Str(String), Arr(Vec<Object>) }
    pub trait ToNapiValue { fn to_value(self) -> Value; }
    pub trait FromNapiValue: Sized { fn from_value(v: &Value) -> Result<Self>; }
    impl ToNapiValue for u8 { fn to_value(self) -> Value { Value::Num(self as f64) } }
    impl ToNapiValue for f64 { fn to_value(self) -> Value { Value::Num(self) } }
    impl ToNapiValue for String { fn to_value(self) -> Value { Value::Str(self) } }
    impl ToNapiValue for Vec<Object> { fn to_value(self) -> Value { Value::Arr(self) } }
    impl FromNapiValue for u8 { fn from_value(v: &Value) -> Result<Self> { match v { Value::Num(n) => Ok(*n as u8), _ => Err(Error::from_status(Status::NumberExpected)) } } }
    impl FromNapiValue for f64 { fn from_value(v: &Value) -> Result<Self> { match v { Value::Num(n) => Ok(*n), _ => Err(Error::from_status(Status::NumberExpected)) } } }
    impl FromNapiValue for String { fn from_value(v: &Value) -> Result<Self> { match v { Value::Str(s) => Ok(s.clone()), _ => Err(Error::from_status(Status::StringExpected)) } } }
    impl FromNapiValue for Vec<Object> { fn from_value(v: &Value) -> Result<Self> { match v { Value::Arr(a) => Ok(a.clone()), _ => Err(Error::from_status(Status::ObjectExpected)) } } }

    /// a JavaScript object: shared, mutable, string-keyed
    #[derive(Debug, Clone, Default)]
    pub struct Object(pub Rc<RefCell<BTreeMap<String, Value>>>);
    impl Object {
        pub fn get<K: AsRef<str>, V: FromNapiValue>(&self, field: K) -> Result<Option<V>> {
            match self.0.borrow().get(field.as_ref()) { None => Ok(None), Some(v) => V::from_value(v).map(Some) }
        }
        pub fn set<K: AsRef<str>, V: ToNapiValue>(&mut self, field: K, val: V) -> Result<()> {
            self.0.borrow_mut().insert(field.as_ref().to_string(), val.to_value()); Ok(())
        }
        pub fn keys(&self) -> Vec<String> { self.0.borrow().keys().cloned().collect() }
        pub fn without(&self, field: &str) -> Object { let mut m = self.0.borrow().clone(); m.remove(field); Object(Rc::new(RefCell::new(m))) }
        pub fn raw(&self, field: &str) -> Option<Value> { self.0.borrow().get(field).cloned() }
        pub fn single(field: &str, v: Value) -> Object { let mut m = BTreeMap::new(); m.insert(field.to_string(), v); Object(Rc::new(RefCell::new(m))) }
    }
    #[derive(Debug, Clone, Copy)]
    pub struct Env;
    impl Env { pub fn create_object(&self) -> Result<Object> { Ok(Object::default()) } }
}
pub use bindgen_prelude::Error;

// the real library sources (module files are looked up next to lymui/src/lib.rs)
include!(concat!(env!("VERIF_REPO_DIR"), "/lymui/src/lib.rs"));

mod scenarios;

fn main() { scenarios::run(); }
