import LymuiVerif.Core.Flt
/-!
# Association-list model of the N-API object interface (property C20)

Assumed, not verified (DESIGN §7 C20): `Object::get/set` and `Env::create_object` behave like a
finite map from property names to values and do not fail for the value kinds the crate uses.
`get` of an absent property is `Ok(None)`; of a property of another kind an error.
-/

inductive NapiStatus where
  | InvalidArg | NumberExpected | StringExpected | ObjectExpected | GenericFailure
deriving DecidableEq, Repr

structure NapiError where
  status : NapiStatus
deriving DecidableEq, Repr

def NapiError.from_status (s : NapiStatus) : NapiError := ⟨s⟩

structure NapiEnv where
  id : Nat := 0

/-- JavaScript values the crate stores: numbers (`f64`), bytes (`u8`, also JS numbers), strings,
arrays of objects.  An object is an association list, newest binding first. -/
inductive JsVal (α : Type) where
  | num (x : α)
  | byte (n : Nat)
  | str (s : Str)
  | objs (l : List (List (Str × JsVal α)))

abbrev JsObject (α : Type) := List (Str × JsVal α)

namespace Js
variable {α : Type}

def lookup (o : JsObject α) (k : Str) : Option (JsVal α) :=
  match o with
  | [] => none
  | (k', v) :: rest => if k' = k then some v else lookup rest k

/-- `obj.set(key, value)`: the new binding shadows any older one -/
def put (o : JsObject α) (k : Str) (v : JsVal α) : JsObject α := (k, v) :: o

def create_object (_ : NapiEnv) : Except NapiError (JsObject α) := .ok []

def getNum (o : JsObject α) (k : Str) : Except NapiError (Option α) :=
  match lookup o k with
  | none => .ok none
  | some (.num x) => .ok (some x)
  | some _ => .error ⟨.NumberExpected⟩
def getByte (o : JsObject α) (k : Str) : Except NapiError (Option Nat) :=
  match lookup o k with
  | none => .ok none
  | some (.byte x) => .ok (some x)
  | some _ => .error ⟨.NumberExpected⟩
def getStr (o : JsObject α) (k : Str) : Except NapiError (Option Str) :=
  match lookup o k with
  | none => .ok none
  | some (.str x) => .ok (some x)
  | some _ => .error ⟨.StringExpected⟩
def getObjs (o : JsObject α) (k : Str) : Except NapiError (Option (List (JsObject α))) :=
  match lookup o k with
  | none => .ok none
  | some (.objs x) => .ok (some x)
  | some _ => .error ⟨.ObjectExpected⟩

def setNum (o : JsObject α) (k : Str) (x : α) : JsObject α := put o k (.num x)
def setByte (o : JsObject α) (k : Str) (x : Nat) : JsObject α := put o k (.byte x)
def setStr (o : JsObject α) (k : Str) (x : Str) : JsObject α := put o k (.str x)
def setObjs (o : JsObject α) (k : Str) (x : List (JsObject α)) : JsObject α := put o k (.objs x)

@[simp] theorem lookup_put_same (o : JsObject α) (k : Str) (v : JsVal α) : lookup (put o k v) k = some v := by
  simp [put, lookup]

@[simp] theorem lookup_put_ne (o : JsObject α) (k k' : Str) (v : JsVal α) (h : k ≠ k') :
    lookup (put o k v) k' = lookup o k' := by
  simp [put, lookup, h]

@[simp] theorem lookup_nil (k : Str) : lookup ([] : JsObject α) k = none := rfl
end Js

