import LymuiVerif.Core.StrShims
/-!
# Hand-written reference model of `lymui/src/hex.rs` (`Gen.HexHand`)

Since the translator now generates `Gen.Hex.*` / `Gen.Rgb.try_from_Hex` from MIR, this file is no longer the
model the checks run; it is the readable reference the C15 theorems were first proved against.
`Props/C15_bridge.lean` proves that the generated functions agree with it (on success values and on
success/failure), which transfers every C15 theorem to the generated code.
-/
namespace Gen.HexHand
open Gen

/-- `strip_prefix('#').unwrap_or(&self.0)` -/
def Hex.strip (s : Str) : Str :=
  match s with
  | 35 :: rest => rest
  | _ => s

/-- strip, then double every character -/
def Hex.unshorten (s : Str) : Str :=
  (Hex.strip s).flatMap fun c => [c, c]

def hexDigitVal (c : Nat) : Option Nat :=
  if 48 ≤ c ∧ c ≤ 57 then some (c - 48)
  else if 97 ≤ c ∧ c ≤ 102 then some (c - 87)
  else if 65 ≤ c ∧ c ≤ 70 then some (c - 55)
  else none

def parseHexDigits : Str → Nat → Option Nat
  | [], acc => some acc
  | c :: cs, acc =>
    match hexDigitVal c with
    | none => none
    | some d => if acc * 16 + d ≤ 255 then parseHexDigits cs (acc * 16 + d) else none

/-- the closure `parse` of `get_u8_parts`: every character an ASCII hex digit, then
`u8::from_str_radix(part, 16)` (which fails on the empty string and on overflow) -/
def Hex.parsePart (s : Str) : Option Nat :=
  if s.all (fun c => (hexDigitVal c).isSome) then
    (match s with
     | [] => none
     | _ => parseHexDigits s 0)
  else none

def Hex.errMsg : Str :=
  [83,111,109,101,32,99,111,108,111,114,32,99,111,117,108,100,32,110,111,116,32,98,101,32,112,97,114,115,101,100]

/-- `get_u8_parts` (error payloads are not modelled beyond the variant) -/
def Hex.get_u8_parts (s0 : Str) : Except LError (Nat × Nat × Nat) :=
  let s := Hex.strip s0
  match Str.getRange s 0 2, Str.getRange s 2 4, Str.getRange s 4 6 with
  | some r, some g, some b =>
    (match Hex.parsePart r, Hex.parsePart g, Hex.parsePart b with
     | some r, some g, some b => .ok (r, g, b)
     | _, _, _ => .error (LError.Hex []))
  | _, _, _ => .error (LError.Hex Hex.errMsg)

/-- `impl TryFrom<Hex> for Rgb` -/
def Rgb.try_from_Hex (h : Hex) : Except LError Rgb :=
  let s := if Str.byteLen h._0 ≤ 4 then Hex.unshorten h._0 else h._0
  match Hex.get_u8_parts s with
  | .ok (r, g, b) => .ok { r := r, g := g, b := b }
  | .error e => .error e

def hexDigitChar (d : Nat) : Nat := if d < 10 then 48 + d else 87 + d

/-- `format!("{:x}")` padded to two digits -/
def hex2 (v : Nat) : Str := [hexDigitChar (v / 16), hexDigitChar (v % 16)]

/-- `impl From<Rgb> for Hex` -/
def Hex.from_Rgb (c : Rgb) : Hex := { _0 := 35 :: (hex2 c.r ++ hex2 c.g ++ hex2 c.b) }


end Gen.HexHand
