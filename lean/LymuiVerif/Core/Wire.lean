import LymuiVerif.Core.Flt
/-! Line protocol of the correspondence check: whitespace-separated tokens.
`f64` = `x` + 16 hex digits of the bit pattern; integers decimal; `Vec` = length then elements;
`Option` = `0` | `1 v`; `Result` = `ok v` | `err kind`; `Res` = `ok v` | `panic` | `diverge`. -/

def Reader (α : Type) := List String → Option (α × List String)

namespace Reader
def fail {α} : Reader α := fun _ => none
def tok : Reader String := fun ts => match ts with | [] => none | t :: r => some (t, r)
instance : Monad Reader where
  pure a := fun ts => some (a, ts)
  bind x f := fun ts => match x ts with | none => none | some (a, r) => f a r
end Reader

class Wire (τ : Type) where
  rd : Reader τ
  wr : τ → List String

namespace Wire

def hexVal (c : Char) : Option Nat :=
  if '0' ≤ c ∧ c ≤ '9' then some (c.toNat - 48)
  else if 'a' ≤ c ∧ c ≤ 'f' then some (c.toNat - 87)
  else if 'A' ≤ c ∧ c ≤ 'F' then some (c.toNat - 55) else none

def parseHex (s : List Char) : Option Nat :=
  s.foldl (fun acc c => match acc, hexVal c with | some a, some d => some (a * 16 + d) | _, _ => none) (some 0)

def hexDigit (d : Nat) : Char := if d < 10 then Char.ofNat (48 + d) else Char.ofNat (55 + d)

def toHex16 (n : Nat) : String :=
  String.ofList ((List.range 16).map fun i => hexDigit ((n >>> (4 * (15 - i))) % 16))

instance : Wire Float where
  rd := do
    let t ← Reader.tok
    match t.toList with
    | 'x' :: rest => match parseHex rest with
      | some n => pure (Float.ofBits (UInt64.ofNat n))
      | none => Reader.fail
    | _ => Reader.fail
  wr v := ["x" ++ toHex16 v.toBits.toNat]

/-- exact value of the binary64 with bit pattern `n` (finite) -/
def ratOfBits (n : Nat) : Rat :=
  let neg : Bool := n / 2 ^ 63 % 2 == 1
  let ef : Nat := n / 2 ^ 52 % 2048
  let mf : Nat := n % 2 ^ 52
  let mag : Rat :=
    if ef == 0 then ((mf : Nat) : Rat) / (((2 : Nat) ^ 1074 : Nat) : Rat)
    else
      let m : Nat := 2 ^ 52 + mf
      if 1075 ≤ ef then ((m * 2 ^ (ef - 1075) : Nat) : Rat) else ((m : Nat) : Rat) / (((2 : Nat) ^ (1075 - ef) : Nat) : Rat)
  if neg then -mag else mag

/-- a rational as a decimal with ~34 significant digits, `d<int>e<exp>` (parsed by the harness as f64) -/
def ratToSci (r : Rat) : String :=
  if r == 0 then "d0e0" else
  let n := r.num.natAbs
  let d := r.den
  let lg : Int := ((n.log2 : Int) - (d.log2 : Int)) * 30103 / 100000
  let k : Int := 34 - lg
  let m : Nat := if 0 ≤ k then n * 10 ^ k.toNat / d else n / (d * 10 ^ (-k).toNat)
  (if r < 0 then "d-" else "d") ++ toString m ++ "e" ++ toString (-k)

instance : Wire Rat where
  rd := do
    let t ← Reader.tok
    match t.toList with
    | 'x' :: rest => match parseHex rest with
      | some n => pure (ratOfBits n)
      | none => Reader.fail
    | _ => Reader.fail
  wr v := [ratToSci v]

instance : Wire Nat where
  rd := do
    let t ← Reader.tok
    match t.toNat? with | some n => pure n | none => Reader.fail
  wr v := [toString v]

instance : Wire Int where
  rd := do
    let t ← Reader.tok
    match t.toInt? with | some n => pure n | none => Reader.fail
  wr v := [toString v]

instance : Wire Bool where
  rd := do
    let t ← Reader.tok
    if t == "1" then pure true else if t == "0" then pure false else Reader.fail
  wr v := [if v then "1" else "0"]

instance : Wire Unit where
  rd := pure ()
  wr _ := []

def rdList {τ} [Wire τ] : Nat → Reader (List τ)
  | 0 => pure []
  | n + 1 => do
    let x ← Wire.rd
    let xs ← rdList n
    pure (x :: xs)

instance {τ} [Wire τ] : Wire (List τ) where
  rd := do
    let n : Nat ← Wire.rd
    rdList n
  wr v := toString v.length :: v.flatMap Wire.wr

instance {τ} [Wire τ] : Wire (Option τ) where
  rd := do
    let k : Nat ← Wire.rd
    if k == 0 then pure none else do
      let x ← Wire.rd
      pure (some x)
  wr v := match v with | none => ["0"] | some x => "1" :: Wire.wr x

instance {σ τ} [Wire σ] [Wire τ] : Wire (σ × τ) where
  rd := do
    let a ← Wire.rd
    let b ← Wire.rd
    pure (a, b)
  wr v := Wire.wr v.1 ++ Wire.wr v.2

instance {ε τ} [Wire ε] [Wire τ] : Wire (Except ε τ) where
  rd := Reader.fail
  wr v := match v with | .ok x => "ok" :: Wire.wr x | .error e => "err" :: Wire.wr e

instance {τ} [Wire τ] : Wire (Res τ) where
  rd := Reader.fail
  wr v := match v with | .ok x => "ok" :: Wire.wr x | .panic => ["panic"] | .diverge => ["diverge"]

end Wire
