/-!
# Core vocabulary of the generated model

One generated definition per Rust function, polymorphic in the number carrier `α` that stands
for `f64`.  This file is hand-written and import-free (core Lean only) so that the `Float`
instance and the driver link as a `lean_exe`.
-/

/-- Rust `String`/`&str`/`char`: Unicode scalar values (kernel-friendly: plain `Nat`s). -/
abbrev Str := List Nat

/-- The operations of `f64` the library uses.  `lit bits num den` is a literal: the exact
binary64 bit pattern (for the `Float` instance) and the shortest round-trip decimal `num/den`
that the programmer wrote (for the exact instances). -/
class Flt (α : Type) extends Add α, Sub α, Mul α, Div α, Neg α where
  ofNat  : Nat → α
  ofInt  : Int → α
  lit    : (bits : UInt64) → (num : Nat) → (den : Nat) → α
  le     : α → α → Bool
  lt     : α → α → Bool
  beq    : α → α → Bool
  rem    : α → α → α
  pow    : α → α → α
  powi   : α → Int → α
  cbrt   : α → α
  sqrt   : α → α
  abs    : α → α
  round  : α → α
  floor  : α → α
  max    : α → α → α
  min    : α → α → α
  atan2  : α → α → α
  sin    : α → α
  cos    : α → α
  pi     : α
  /-- Rust `as u8`: truncate toward zero, saturate, NaN ↦ 0 -/
  toU8   : α → Nat
  /-- Rust `as i64` -/
  toI64  : α → Int

/-- Result of running a Rust function: a value, a panic, or fuel exhaustion of a loop. -/
inductive Res (α : Type) where
  | ok (a : α)
  | panic
  | diverge
deriving Repr, DecidableEq

namespace Res
@[inline] def bind {α β} (x : Res α) (f : α → Res β) : Res β :=
  match x with
  | ok a => f a
  | panic => panic
  | diverge => diverge
instance : Monad Res where
  pure := ok
  bind := bind
def ofOption {α} : Option α → Res α
  | some a => ok a
  | none => panic
def isOk {α} : Res α → Bool
  | ok _ => true
  | _ => false
@[simp] theorem pure_eq {α} (a : α) : (pure a : Res α) = ok a := rfl
@[simp] theorem bind_ok {α β} (a : α) (f : α → Res β) : (ok a >>= f) = f a := rfl
@[simp] theorem bind_panic {α β} (f : α → Res β) : ((panic : Res α) >>= f) = panic := rfl
@[simp] theorem bind_diverge {α β} (f : α → Res β) : ((diverge : Res α) >>= f) = diverge := rfl
end Res

/- Checked / wrapping machine-integer operations exactly as MIR spells them.
`xxOU w a b = (wrapped result, overflow flag)` for unsigned width `w`. -/
namespace Chk
def addOU (w a b : Nat) : Nat × Bool := ((a + b) % 2 ^ w, decide (2 ^ w ≤ a + b))
def subOU (w a b : Nat) : Nat × Bool := ((a + 2 ^ w - b) % 2 ^ w, decide (a < b))
def mulOU (w a b : Nat) : Nat × Bool := ((a * b) % 2 ^ w, decide (2 ^ w ≤ a * b))
def addOI (w : Nat) (a b : Int) : Int × Bool :=
  let r := a + b; (r, decide (r < -(2 ^ (w - 1)) ∨ 2 ^ (w - 1) ≤ r))
def subOI (w : Nat) (a b : Int) : Int × Bool :=
  let r := a - b; (r, decide (r < -(2 ^ (w - 1)) ∨ 2 ^ (w - 1) ≤ r))
def mulOI (w : Nat) (a b : Int) : Int × Bool :=
  let r := a * b; (r, decide (r < -(2 ^ (w - 1)) ∨ 2 ^ (w - 1) ≤ r))
def addW (w a b : Nat) : Nat := (a + b) % 2 ^ w
def subW (w a b : Nat) : Nat := (a + 2 ^ w - b) % 2 ^ w
def mulW (w a b : Nat) : Nat := (a * b) % 2 ^ w
/-- `a << b` on width `w` (the shift amount is range-checked by a separate MIR assert) -/
def shl (w a b : Nat) : Nat := (a * 2 ^ b) % 2 ^ w
end Chk

structure RangeInclusive (α : Type) where
  lo : α
  hi : α

/-- `(lo..=hi).contains(&x)`: `lo <= x && x <= hi` with IEEE comparisons -/
def RangeInclusive.contains {α} [Flt α] (r : RangeInclusive α) (x : α) : Bool :=
  Flt.le r.lo x && Flt.le x r.hi

/-- `Vec::push` as a pure function of the vector -/
def Vec.push {τ} (v : List τ) (x : τ) : List τ := v ++ [x]

/-- `?` on `Result`: `Try::branch` / `FromResidual::from_residual` -/
inductive ControlFlow (β γ : Type) where
  | Continue (c : γ)
  | Break (b : β)

def Try.branch {ε τ : Type} : Except ε τ → ControlFlow ε τ
  | .ok v => .Continue v
  | .error e => .Break e

def Try.from_residual {ε τ : Type} (e : ε) : Except ε τ := .error e

def Option.okOr {ε τ : Type} : Option τ → ε → Except ε τ
  | some v, _ => .ok v
  | none, e => .error e

def Except.andThen {ε σ τ : Type} (r : Except ε σ) (f : σ → Except ε τ) : Except ε τ :=
  match r with
  | .ok v => f v
  | .error e => .error e
