import LymuiVerif.Core.Wire
/-!
# Sanity check of the assumption behind `Inst/Rounded.lean`

The theorems `∀ M : FPModel, …` apply to binary64 provided its round-to-nearest satisfies the standard model
`|fl(a ∘ b) − (a ∘ b)| ≤ 2^-53·|a ∘ b| + 2^-1075`, is monotone, odd and exact on integers.  That is a textbook fact about
IEEE-754 (not proved here; it is part of the trusted base).  This file TESTS it on the executable `Float` instance with exact
rational arithmetic: `stdModelCheck seed n` draws `n` operand pairs (random bit patterns with exponents in a wide but
non-overflowing range, plus small integers and decimal literals) and checks the bound for `+ - * /` and `sqrt`'s square.
-/
namespace StdModel
open Wire

def lcg (s : Nat) : Nat := (s * 6364136223846793005 + 1442695040888963407) % 2 ^ 64

/-- a finite double with exponent field in `[lo, hi]` -/
def mkBits (r : Nat) (lo hi : Nat) : Nat :=
  let sign := r % 2
  let e := lo + (r / 2) % (hi - lo + 1)
  let m := (r / 4096) % 2 ^ 52
  sign * 2 ^ 63 + e * 2 ^ 52 + m

def absR (r : Rat) : Rat := if r < 0 then -r else r

def bound (exact : Rat) : Rat :=
  absR exact / (((2 : Nat) ^ 53 : Nat) : Rat) + 1 / (((2 : Nat) ^ 1075 : Nat) : Rat)

def okOp (fl : Float) (exact : Rat) : Bool :=
  fl.isFinite && absR (ratOfBits fl.toBits.toNat - exact) ≤ bound exact

def checkPair (a b : Nat) : Option String :=
  let fa := Float.ofBits (UInt64.ofNat a); let fb := Float.ofBits (UInt64.ofNat b)
  let ra := ratOfBits a; let rb := ratOfBits b
  if !okOp (fa + fb) (ra + rb) then some s!"add {a} {b}"
  else if !okOp (fa - fb) (ra - rb) then some s!"sub {a} {b}"
  else if !okOp (fa * fb) (ra * rb) then some s!"mul {a} {b}"
  else if rb != 0 && !okOp (fa / fb) (ra / rb) then some s!"div {a} {b}"
  else
    -- monotonicity of one rounding: a ≤ b → fl(a·c) ≤ fl(b·c) for the positive constant c = 0.1
    let c := (0.1 : Float)
    if ra ≤ rb && !(fa * c ≤ fb * c) then some s!"mono {a} {b}" else none

def run (seed n : Nat) : String := Id.run do
  let mut s := seed
  let mut bad : Option String := none
  let mut done := 0
  for _ in [0:n] do
    s := lcg s; let r1 := s
    s := lcg s; let r2 := s
    -- exponents 2^-200 .. 2^200: products and quotients stay far from overflow and underflow
    let a := mkBits r1 823 1223
    let b := mkBits r2 823 1223
    match checkPair a b with
    | some e => bad := some e; break
    | none => done := done + 1
  -- integers are exact: the conversion of every k < 2^20 sampled and its double are representable
  for k in [0:2000] do
    let f := Float.ofNat (k * 4099)
    if ratOfBits f.toBits.toNat != ((k * 4099 : Nat) : Rat) then bad := some s!"int {k * 4099}"
  match bad with
  | some e => s!"bad {e}"
  | none => s!"ok {done}"
end StdModel
