import LymuiVerif.Gen.Types
/-!
# Hand-written shims for the `std` string functions that `hex.rs` calls

`hex.rs` itself is translated from MIR (control flow, ranges, thresholds, closures, format templates);
what is written by hand here is the meaning of the standard-library calls it makes.  Strings are
lists of Unicode scalar values; lengths and ranges are in UTF-8 bytes as in Rust.  Validated on
every run by the correspondence check on shaped and random strings (not verified).
-/
namespace Gen

/-- number of UTF-8 bytes of a scalar value -/
def utf8Len (c : Nat) : Nat :=
  if c < 0x80 then 1 else if c < 0x800 then 2 else if c < 0x10000 then 3 else 4

/-- `String::len` -/
def Str.byteLen : Str → Nat
  | [] => 0
  | c :: cs => utf8Len c + Str.byteLen cs

/-- is byte offset `k` a character boundary of `s` (whose first byte is at offset `off`)? -/
def Str.isBoundary (k : Nat) : Nat → Str → Bool
  | off, [] => off == k
  | off, c :: cs => off == k || (off < k && Str.isBoundary k (off + utf8Len c) cs)

/-- the characters whose first byte lies in `[a, b)` -/
def Str.charsIn (a b : Nat) : Nat → Str → Str
  | _, [] => []
  | off, c :: cs =>
    if a ≤ off ∧ off < b then c :: Str.charsIn a b (off + utf8Len c) cs
    else Str.charsIn a b (off + utf8Len c) cs

/-- `str::get(a..b)`: `none` when `a > b`, or `a` or `b` is not a character boundary
(which includes being past the end) -/
def Str.getRange (s : Str) (a b : Nat) : Option Str :=
  if a ≤ b ∧ Str.isBoundary a 0 s ∧ Str.isBoundary b 0 s then some (Str.charsIn a b 0 s) else none


/-- `s.strip_prefix(c)` -/
def Str.stripPrefixChar (s : Str) (c : Nat) : Option Str :=
  match s with
  | x :: rest => if x == c then some rest else none
  | [] => none

/-- `str::get(a..b)` with the range as a pair -/
def Str.getRangeR (s : Str) (r : Nat × Nat) : Option Str := Str.getRange s r.1 r.2

/-- `String::push` -/
def Str.push (s : Str) (c : Nat) : Str := s ++ [c]

/-- `char::is_ascii_hexdigit` -/
def Char.isAsciiHexDigit (c : Nat) : Bool :=
  (48 ≤ c && c ≤ 57) || (65 ≤ c && c ≤ 70) || (97 ≤ c && c ≤ 102)

/-- `core::num::ParseIntError` (only its kind) -/
inductive ParseIntError where
  | Empty | InvalidDigit | PosOverflow
deriving DecidableEq, Repr

def digitValRadix (radix c : Nat) : Option Nat :=
  let v := if 48 ≤ c ∧ c ≤ 57 then some (c - 48)
           else if 97 ≤ c ∧ c ≤ 122 then some (c - 87)
           else if 65 ≤ c ∧ c ≤ 90 then some (c - 55) else none
  match v with
  | some d => if d < radix then some d else none
  | none => none

def parseDigitsRadix (radix : Nat) : Str → Nat → Except ParseIntError Nat
  | [], acc => .ok acc
  | c :: cs, acc =>
    match digitValRadix radix c with
    | none => .error .InvalidDigit
    | some d => if acc * radix + d ≤ 255 then parseDigitsRadix radix cs (acc * radix + d) else .error .PosOverflow

/-- `u8::from_str_radix(s, radix)`: empty ⇒ `Empty`; a lone sign ⇒ `InvalidDigit`; an optional leading `+`
(a `-` is not stripped for unsigned types and is an invalid digit); overflow past 255 ⇒ `PosOverflow` -/
def U8.fromStrRadix (s : Str) (radix : Nat) : Except ParseIntError Nat :=
  match s with
  | [] => .error .Empty
  | [43] => .error .InvalidDigit
  | [45] => .error .InvalidDigit
  | 43 :: rest => parseDigitsRadix radix rest 0
  | _ => parseDigitsRadix radix s 0

def Except.mapError {ε ε' τ : Type} (f : ε → ε') : Except ε τ → Except ε' τ
  | .ok v => .ok v
  | .error e => .error (f e)

/-- an already rendered `fmt::Argument` -/
abbrev FmtArg := Str
def lowerHexDigits : Nat → Nat → Str
  | 0, _ => []
  | fuel + 1, n => if n < 16 then [if n < 10 then 48 + n else 87 + n]
                   else lowerHexDigits fuel (n / 16) ++ [if n % 16 < 10 then 48 + n % 16 else 87 + n % 16]
/-- `{:x}` of an unsigned integer: lower case, no padding -/
def FmtArg.lowerHex (n : Nat) : FmtArg := lowerHexDigits 20 n
/-- `{}` of a string -/
def FmtArg.display (s : Str) : FmtArg := s

/-- `fmt::Arguments::new(template, args)` followed by `format`: the compact template encoding of rustc 1.95
(`n < 0x80`: a literal of `n` bytes follows; `0xC0`: the next argument, default spec; `0x00`: end).
Literal bytes are taken as code points (the templates of this crate are ASCII). -/
def Fmt.render : Nat → List Nat → List FmtArg → Str
  | 0, _, _ => []
  | _, [], _ => []
  | fuel + 1, b :: rest, args =>
    if b == 0 then []
    else if b == 192 then (match args with | a :: as => a ++ Fmt.render fuel rest as | [] => Fmt.render fuel rest [])
    else if b < 128 then rest.take b ++ Fmt.render fuel (rest.drop b) args
    else Fmt.render fuel rest args
def Fmt.format (tmpl : List Nat) (args : List FmtArg) : Str := Fmt.render (tmpl.length + 1) tmpl args

/-- `[String]::join(sep)` -/
def Str.join : List Str → Str → Str
  | [], _ => []
  | [s], _ => s
  | s :: rest, sep => s ++ sep ++ Str.join rest sep

end Gen
