import LymuiVerif.Core.StdModelCheck
/-!
# Executable binary64 round-to-nearest-even on exact rationals

`rneQ x` is the binary64 rounding (round to nearest, ties to even, gradual underflow, NO overflow:
the grid is unbounded above) of the rational `x`, computed with integer arithmetic only.  It is the
same algorithm as the real-number definition `B64.rne` in `Inst/Binary64.lean` (the bridge
`rneQ_eq` in `Inst/Binary64Q.lean` proves that), and `StdModel.checkRne` checks it BIT FOR BIT against the
hardware `+ - * /` of the executable `Float` type.

This file imports only Lean core (through `Core/StdModelCheck.lean` and `Core/Wire.lean`), so it can be linked
into the compiled driver.
-/
namespace RneQ

/-- `⌊log₂ (a / d)⌋` for positive naturals `a`, `d`: the difference of the bit lengths, corrected by one. -/
def ilog2 (a d : Nat) : Int :=
  let e0 : Int := (a.log2 : Int) - (d.log2 : Int)
  -- `2^e0 ≤ a/d`  ⇔  `d·2^e0 ≤ a` (e0 ≥ 0)  ⇔  `d ≤ a·2^(-e0)` (e0 < 0)
  if d * 2 ^ e0.toNat ≤ a * 2 ^ (-e0).toNat then e0 else e0 - 1

/-- round-half-even of the quotient `num / den` (`den > 0`), by integer division -/
def rheDiv (num den : Nat) : Nat :=
  let fl := num / den
  let r := num % den
  if 2 * r < den then fl
  else if den < 2 * r then fl + 1
  else if fl % 2 = 0 then fl else fl + 1

/-- `2^s` as a rational -/
def pow2 (s : Int) : Rat :=
  if 0 ≤ s then (((2 : Nat) ^ s.toNat : Nat) : Rat) else 1 / (((2 : Nat) ^ (-s).toNat : Nat) : Rat)

/-- the binade exponent used for rounding: `max ⌊log₂ |x|⌋ (-1022)` -/
def expo (x : Rat) : Int :=
  let lg := ilog2 x.num.natAbs x.den
  if lg < -1022 then -1022 else lg

/-- the significand `|x| / 2^(e-52)` rounded half-even to a natural number -/
def mant (x : Rat) : Nat :=
  let s := expo x - 52
  rheDiv (x.num.natAbs * 2 ^ (-s).toNat) (x.den * 2 ^ s.toNat)

end RneQ

/-- binary64 round-to-nearest-even of a rational (no overflow, gradual underflow) -/
def rneQ (x : Rat) : Rat :=
  if x.num = 0 then 0
  else
    let v : Rat := ((RneQ.mant x : Nat) : Rat) * RneQ.pow2 (RneQ.expo x - 52)
    if x.num < 0 then -v else v

namespace StdModel
open Wire

/-- is the exact result in the range where binary64 does not overflow (we stay a binade below) -/
def inRange (r : Rat) : Bool := absR r < (((2 : Nat) ^ 1023 : Nat) : Rat)

/-- the hardware result `fl` has exactly the value `rneQ exact` (results of magnitude `≥ 2^1023` are skipped) -/
def eqBits (fl : Float) (exact : Rat) : Bool :=
  !inRange exact || (fl.isFinite && ratOfBits fl.toBits.toNat == rneQ exact)

def checkRnePair (a b : Nat) : Option String :=
  let fa := Float.ofBits (UInt64.ofNat a); let fb := Float.ofBits (UInt64.ofNat b)
  let ra := ratOfBits a; let rb := ratOfBits b
  -- every finite double is a fixed point of the rounding
  if rneQ ra != ra then some s!"fix {a} {a}"
  else if rneQ rb != rb then some s!"fix {b} {b}"
  else if !eqBits (fa + fb) (ra + rb) then some s!"add {a} {b}"
  else if !eqBits (fa - fb) (ra - rb) then some s!"sub {a} {b}"
  else if !eqBits (fa * fb) (ra * rb) then some s!"mul {a} {b}"
  else if rb != 0 && !eqBits (fa / fb) (ra / rb) then some s!"div {a} {b}"
  else none

/-- bit pattern of the double nearest to a small dyadic `k / 2` (`k < 2^20`), exact -/
def halfBits (k : Nat) : Nat := (Float.ofNat k / 2).toBits.toNat

/-- `n` rounds of operand pairs; each round draws one pair of each kind:
* wide exponent range (results normal),
* same binade (sums and differences with cancellation, exact ties in the sum),
* small integers plus halves (ties in `+`, `-`, `×`, `÷`),
* factors near `2^-540`, `2^-530` (products subnormal or in the lowest binades, many ties),
* subnormal and lowest-normal operands (sums and differences in the subnormal range),
* a large and a tiny number (quotients near the underflow threshold). -/
def checkRne (seed n : Nat) : String := Id.run do
  let mut s := seed
  let mut bad : Option String := none
  let mut done := 0
  for _ in [0:n] do
    let mut pairs : Array (Nat × Nat) := #[]
    s := lcg s; let r1 := s
    s := lcg s; let r2 := s
    pairs := pairs.push (mkBits r1 523 1523, mkBits r2 523 1523)
    s := lcg s; let r3 := s
    s := lcg s; let r4 := s
    pairs := pairs.push (mkBits r3 1023 1025, mkBits r4 1023 1025)
    s := lcg s; let r5 := s
    s := lcg s; let r6 := s
    pairs := pairs.push (halfBits (r5 / 8 % 4096), halfBits (r6 / 8 % 64 + 1))
    -- a 53-bit odd integer plus a half-integer: the sum needs one more bit, exact tie
    pairs := pairs.push ((Float.ofNat (2 ^ 52 + r5 / 8 % 2 ^ 52)).toBits.toNat, halfBits (2 * (r6 / 8 % 64) + 1))
    s := lcg s; let r7 := s
    s := lcg s; let r8 := s
    pairs := pairs.push (mkBits r7 480 490, mkBits r8 485 500)
    -- few significant bits: products are exactly representable or exact ties in the subnormal range
    pairs := pairs.push ((mkBits r7 480 490) / 2 ^ 40 * 2 ^ 40, (mkBits r8 485 500) / 2 ^ 44 * 2 ^ 44)
    s := lcg s; let r9 := s
    s := lcg s; let r10 := s
    pairs := pairs.push (mkBits r9 0 2, mkBits r10 0 2)
    s := lcg s; let r11 := s
    s := lcg s; let r12 := s
    pairs := pairs.push (mkBits r11 1 60, mkBits r12 1000 1100)
    for (a, b) in pairs do
      match checkRnePair a b with
      | some e => if bad.isNone then bad := some e
      | none => done := done + 1
    if bad.isSome then break
  match bad with
  | some e => s!"bad {e}"
  | none => s!"ok {done}"
end StdModel
