import LymuiVerif.Lemmas.FpOverflow
/-!
# No overflow in the rounded model (C04 "no infinity"): conversions taking an 8-bit `Rgb`

`x_bridge`: the `PRFo M` run of the conversion of an 8-bit colour is the lift of the `RF M` run.  Besides the sign/zero
facts of `Lemmas/FpDefinedRgb.lean`, every produced number has magnitude `≤ FP.omega`; the divisors that are COMPUTED
differences are bounded away from zero quantitatively, in every model:

* CMYK `1 - K = 1 - (1 - max/255)`: `≥ 1/1000` when `max ≥ 1` (`mk_lower`; the true value is `≥ 1/255`);
* HSL `(2 - max') - min'` under the white guard and `max' + min'` under the black guard: `≥ 1/1000`
  (`den_A_lower`, `den_B_lower`; true value `≥ 1/255`);
* hue `max - min` (bytes, exact): `≥ 1`;  HSV `max` (a byte): `≥ 1`.

Unlike in `FpDefinedRgb`, `yuv/srgb/argb/xyz` need the 8-bit hypothesis: the model's `u8` is an unbounded `Nat`, and a
channel `10^400` would overflow.
-/
set_option linter.unusedSimpArgs false
set_option linter.unusedVariables false
namespace Lemmas.FpOverflow
open Gen Lemmas.FpDefined Props.C09 FpErr
variable {M : FPModel}

/-! ## quantitative lower bounds of the computed denominators -/

theorem mk_lower (m : ℕ) (hm : m ≤ 255) (h1 : 1 ≤ m) :
    1 / 1000 ≤ M.rnd (1 - M.rnd (1 - M.rnd ((m:ℝ) / 255))) := by
  obtain ⟨k0, k1, k2⟩ := FpGrey.k_bounds M m hm
  have kle := k2 h1
  have e16 : FP.eps = 1.2e-16 := rfl
  have hy : |1 - M.rnd (1 - M.rnd ((m:ℝ) / 255))| ≤ 1 := by rw [abs_le]; constructor <;> linarith
  have r2 := abs_le.mp (rnd_abs M hy (by norm_num))
  rw [e16] at *; norm_num at *; linarith [r2.1]

theorem den_B_lower (n m : ℕ) (hnm : n ≤ m) (hm : m ≤ 255) (hm1 : 1 ≤ m) :
    1 / 1000 ≤ M.rnd (M.rnd ((m : ℝ) / 255) + M.rnd ((n : ℝ) / 255)) := by
  obtain ⟨a0, a1, ae⟩ := FpHexcone.unit_close M n (le_trans hnm hm)
  obtain ⟨c0, c1, ce⟩ := FpHexcone.unit_close M m hm
  have hm1' : (1 : ℝ) ≤ m := by exact_mod_cast hm1
  have h1 : (1 : ℝ) / 255 ≤ m / 255 := by apply div_le_div_of_nonneg_right hm1'; norm_num
  have e16 : FP.eps = 1.2e-16 := rfl
  have hx : |M.rnd ((m : ℝ) / 255) + M.rnd ((n : ℝ) / 255)| ≤ 2 := by
    rw [abs_of_nonneg (by linarith)]; linarith
  have r := abs_le.mp (rnd_abs M hx (by norm_num))
  have := (abs_le.mp ce).1
  rw [e16] at *
  norm_num at *
  linarith [r.1]

theorem den_A_lower (n m : ℕ) (hm : m ≤ 255) (hn : n ≤ 254) :
    1 / 1000 ≤ M.rnd (M.rnd (2 - M.rnd ((m : ℝ) / 255)) - M.rnd ((n : ℝ) / 255)) := by
  obtain ⟨a0, a1, ae⟩ := FpHexcone.unit_close M n (by omega)
  obtain ⟨c0, c1, ce⟩ := FpHexcone.unit_close M m hm
  have hn' : (n : ℝ) ≤ 254 := by exact_mod_cast hn
  have h1 : (n : ℝ) / 255 ≤ 254 / 255 := by apply div_le_div_of_nonneg_right hn'; norm_num
  have e16 : FP.eps = 1.2e-16 := rfl
  have one_le : 1 ≤ M.rnd (2 - M.rnd ((m : ℝ) / 255)) := by
    have := nat_le_rnd M 1 (by norm_num) (x := 2 - M.rnd ((m : ℝ) / 255)) (by push_cast; linarith)
    simpa using this
  have le_two : M.rnd (2 - M.rnd ((m : ℝ) / 255)) ≤ 2 := by
    have := rnd_le_nat M 2 (by norm_num) (x := 2 - M.rnd ((m : ℝ) / 255)) (by push_cast; linarith)
    simpa using this
  have hx : |M.rnd (2 - M.rnd ((m : ℝ) / 255)) - M.rnd ((n : ℝ) / 255)| ≤ 2 := by
    rw [abs_le]; constructor <;> linarith
  have r := abs_le.mp (rnd_abs M hx (by norm_num))
  have := (abs_le.mp ae).2
  rw [e16] at *
  norm_num at *
  linarith [r.1]

/-! ## bridges -/

theorem minmax_bridge (c : Rgb) : (Rgb.get_min_max c : PRFo M × PRFo M) =
    (RF.liftO (Rgb.get_min_max (α := RF M) c).1, RF.liftO (Rgb.get_min_max (α := RF M) c).2) := by
  simp only [Rgb.get_min_max, Rgb.as_f64, ho_ofNat, ho_min, ho_max]

theorem nat_bd (m : ℕ) (hm : m ≤ 255) : |(⟨(m : ℝ)⟩ : RF M).val| ≤ 255 := by
  show |(m : ℝ)| ≤ 255
  rw [abs_of_nonneg (Nat.cast_nonneg m)]; exact_mod_cast hm

theorem yuv_bridge (c : Rgb) (hr : c.r ≤ 255) (hg : c.g ≤ 255) (hb : c.b ≤ 255) :
    (Yuv.from_Rgb c : Yuv (PRFo M)) = liftYuv (Yuv.from_Rgb c) := by
  simp (disch := o_side) only [Yuv.from_Rgb, Rgb.as_f64, liftYuv, ho_lit, ho_ofNat, ho_add, ho_sub, ho_mul, ho_div]

theorem cymk_bridge (c : Rgb) (hr : c.r ≤ 255) (hg : c.g ≤ 255) (hb : c.b ≤ 255) :
    (Cymk.from_Rgb c : Cymk (PRFo M)) = liftCymk (Cymk.from_Rgb c) := by
  obtain ⟨n, m, hnm, hm, e, -⟩ := minmax_nat (M := M) c hr hg hb
  have hmB := nat_bd (M := M) m hm
  unfold Cymk.from_Rgb
  rw [minmax_bridge, e]
  simp (disch := o_side) only [Rgb.as_f64, Cymk.default, ho_lit, ho_ofNat, ho_div, ho_sub, ho_beq]
  refine ite_not_map liftCymk (fun h => ?_) (fun h => rfl)
  have hk : (Flt.lit 0x3FF0000000000000 1 1 - (⟨(m : ℝ)⟩ : RF M) / Flt.lit 0x406FE00000000000 255 1 : RF M).val =
      M.rnd (1 - M.rnd ((m : ℝ) / 255)) := by
    rw [FltRF.sub_val, unit_val, lit_int_val _ 1 (by norm_num)]; norm_num
  have hmkL : (1 / 1000 : ℝ) ≤ (Flt.lit 0x3FF0000000000000 1 1 -
      (Flt.lit 0x3FF0000000000000 1 1 - (⟨(m : ℝ)⟩ : RF M) / Flt.lit 0x406FE00000000000 255 1) : RF M).val := by
    rw [FltRF.sub_val, hk, lit_int_val _ 1 (by norm_num)]
    rcases Nat.eq_zero_or_pos m with h0 | h1
    · exfalso
      simp only [FltRF.beq_eq, decide_eq_false_iff_not, hk, lit_int_val _ 1 (by norm_num : 1 ≤ 2 ^ 53)] at h
      apply h; subst h0; simp [FpErr.rnd_zero, FpErr.rnd_one]
    · have := mk_lower (M := M) m hm h1
      push_cast; exact this
  have hmk : (Flt.lit 0x3FF0000000000000 1 1 -
      (Flt.lit 0x3FF0000000000000 1 1 - (⟨(m : ℝ)⟩ : RF M) / Flt.lit 0x406FE00000000000 255 1) : RF M).val ≠ 0 :=
    (lt_of_lt_of_le (by norm_num) hmkL).ne'
  simp (disch := first | assumption | obound) only [ho_div, liftCymk]

theorem hue_bridge (c : Rgb) (hr : c.r ≤ 255) (hg : c.g ≤ 255) (hb : c.b ≤ 255) :
    (F64.from_Rgb c : PRFo M) = RF.liftO (F64.from_Rgb c) := by
  obtain ⟨n, m, hnm, hm, e, -⟩ := minmax_nat (M := M) c hr hg hb
  have hmB := nat_bd (M := M) m hm
  have hnB := nat_bd (M := M) n (le_trans hnm hm)
  unfold F64.from_Rgb
  rw [minmax_bridge, e]
  simp only [ho_beq]
  have z : (Flt.lit 0x0000000000000000 0 1 : PRFo M) = RF.liftO (Flt.lit 0x0000000000000000 0 1) := by
    apply ho_lit; obound
  rw [z]
  refine iteo_bridge (fun h => rfl) (fun h => ?_)
  simp only [FltRF.beq_eq, decide_eq_false_iff_not] at h
  have hdv : ((⟨(m : ℝ)⟩ : RF M) - ⟨(n : ℝ)⟩).val = (m : ℝ) - n := by
    rw [FltRF.sub_val, FpHexcone.rnd_natsub M m n hm (le_trans hnm hm)]
  have hdL : (1 : ℝ) ≤ ((⟨(m : ℝ)⟩ : RF M) - ⟨(n : ℝ)⟩).val := by
    rw [hdv]
    have hne : n ≠ m := fun hc => h (by rw [hc])
    have : n + 1 ≤ m := by omega
    have : ((n + 1 : ℕ) : ℝ) ≤ m := by exact_mod_cast this
    push_cast at this; linarith
  have hd : ((⟨(m : ℝ)⟩ : RF M) - ⟨(n : ℝ)⟩).val ≠ 0 := (lt_of_lt_of_le (by norm_num) hdL).ne'
  have h360 : (Flt.lit 0x4076800000000000 360 1 : RF M).val ≠ 0 := by lit_side
  simp (disch := first | assumption | obound) only [Rgb.as_f64, ho_ofNat, ho_lit, ho_beq, ho_lt, ho_sub, ho_div, ho_mul,
    ho_add, ho_round, ho_rem, ho_ite]
  rfl

/-- `Hsl::compute_saturation` on `min/255`, `max/255`: under the code's guards the COMPUTED denominators are `≥ 1/1000` -/
theorem sat_bridge (n m : ℕ) (hnm : n ≤ m) (hm : m ≤ 255) (a' b' l : RF M)
    (ha' : a'.val = M.rnd ((n : ℝ) / 255)) (hb' : b'.val = M.rnd ((m : ℝ) / 255)) :
    Hsl.compute_saturation (RF.liftO a') (RF.liftO b') (RF.liftO l) = RF.liftO (Hsl.compute_saturation a' b' l) := by
  have one : (Flt.lit 0x3FF0000000000000 1 1 : RF M).val = 1 := by rw [lit_int_val _ 1 (by norm_num)]; norm_num
  have two : (Flt.lit 0x4000000000000000 2 1 : RF M).val = 2 := by rw [lit_int_val _ 2 (by norm_num)]; norm_num
  have r0 : M.rnd ((0 : ℝ) / 255) = 0 := by rw [zero_div, FpErr.rnd_zero]
  have r1 : M.rnd ((255 : ℝ) / 255) = 1 := by rw [div_self (by norm_num), FpErr.rnd_one]
  have haB : |a'.val| ≤ 1 := by
    obtain ⟨a0, a1, -⟩ := FpHexcone.unit_close M n (le_trans hnm hm)
    rw [ha', abs_of_nonneg a0]; exact a1
  have hbB : |b'.val| ≤ 1 := by
    obtain ⟨a0, a1, -⟩ := FpHexcone.unit_close M m hm
    rw [hb', abs_of_nonneg a0]; exact a1
  have A : (b'.val ≠ 1 ∨ a'.val ≠ 1) →
      (1 / 1000 : ℝ) ≤ ((Flt.lit 0x4000000000000000 2 1 - b') - a' : RF M).val := by
    intro h
    have hn : n ≤ 254 := by
      by_contra hc
      have e1 : n = 255 := by omega
      have e2 : m = 255 := by omega
      subst e1 e2
      rcases h with h | h
      · apply h; rw [hb']; exact_mod_cast r1
      · apply h; rw [ha']; exact_mod_cast r1
    have := den_A_lower (M := M) n m hm hn
    rw [FltRF.sub_val, FltRF.sub_val, two, ha', hb']; exact this
  have B : (b'.val ≠ 0 ∨ a'.val ≠ 0) → (1 / 1000 : ℝ) ≤ (b' + a' : RF M).val := by
    intro h
    have hm1 : 1 ≤ m := by
      by_contra hc
      have e2 : m = 0 := by omega
      have e1 : n = 0 := by omega
      subst e1 e2
      rcases h with h | h
      · apply h; rw [hb']; exact_mod_cast r0
      · apply h; rw [ha']; exact_mod_cast r0
    have := den_B_lower (M := M) n m hnm hm hm1
    rw [FltRF.add_val, ha', hb']; exact this
  unfold Hsl.compute_saturation
  have hsub : RF.liftO b' - RF.liftO a' = RF.liftO (b' - a') := ho_sub _ _ (by obound)
  have hadd : RF.liftO b' + RF.liftO a' = RF.liftO (b' + a') := ho_add _ _ (by obound)
  simp (disch := obound) only [ho_lit, ho_lt, ho_beq, ho_sub, ho_add]
  have dA : (b'.val ≠ 1 ∨ a'.val ≠ 1) →
      RF.liftO (b' - a') / RF.liftO ((Flt.lit 0x4000000000000000 2 1 - b') - a') =
        RF.liftO ((b' - a') / ((Flt.lit 0x4000000000000000 2 1 - b') - a')) := fun h => by
    have hL := A h
    exact ho_div _ _ (lt_of_lt_of_le (by norm_num) hL).ne' (by obound)
  have dB : (b'.val ≠ 0 ∨ a'.val ≠ 0) → RF.liftO (b' - a') / RF.liftO (b' + a') = RF.liftO ((b' - a') / (b' + a')) :=
    fun h => by
    have hL := B h
    exact ho_div _ _ (lt_of_lt_of_le (by norm_num) hL).ne' (by obound)
  have z : (Flt.lit 0x0000000000000000 0 1 : RF M).val = 0 := lit_zero _
  have tail : (if Flt.beq b' (Flt.lit 0x0000000000000000 0 1) = true then
        if Flt.beq a' (Flt.lit 0x0000000000000000 0 1) = true then RF.liftO (Flt.lit 0x0000000000000000 0 1)
        else RF.liftO (b' - a') / RF.liftO (b' + a')
      else RF.liftO (b' - a') / RF.liftO (b' + a')) =
      RF.liftO (if Flt.beq b' (Flt.lit 0x0000000000000000 0 1) = true then
        if Flt.beq a' (Flt.lit 0x0000000000000000 0 1) = true then Flt.lit 0x0000000000000000 0 1
        else (b' - a') / (b' + a')
      else (b' - a') / (b' + a')) := by
    refine iteo_bridge (fun h1 => iteo_bridge (fun _ => rfl) (fun h2 => ?_)) (fun h1 => ?_)
    · simp only [FltRF.beq_eq, decide_eq_false_iff_not, z] at h2; exact dB (Or.inr h2)
    · simp only [FltRF.beq_eq, decide_eq_false_iff_not, z] at h1; exact dB (Or.inl h1)
  refine iteo_bridge (fun _ => ?_) (fun _ => tail)
  refine ite_not_map RF.liftO (fun h1 => ?_) (fun _ => ?_)
  · simp only [FltRF.beq_eq, decide_eq_false_iff_not, one] at h1; exact dA (Or.inl h1)
  · refine ite_not_map RF.liftO (fun h2 => ?_) (fun _ => tail)
    simp only [FltRF.beq_eq, decide_eq_false_iff_not, one] at h2; exact dA (Or.inr h2)

/-- crude magnitude of the saturation -/
theorem sat_bd (n m : ℕ) (hnm : n ≤ m) (hm : m ≤ 255) (a' b' l : RF M)
    (ha' : a'.val = M.rnd ((n : ℝ) / 255)) (hb' : b'.val = M.rnd ((m : ℝ) / 255)) :
    |(Hsl.compute_saturation a' b' l).val| ≤ 10 ^ 4 := by
  have r0 : M.rnd ((0 : ℝ) / 255) = 0 := by rw [zero_div, FpErr.rnd_zero]
  have r1 : M.rnd ((255 : ℝ) / 255) = 1 := by rw [div_self (by norm_num), FpErr.rnd_one]
  have haB : |a'.val| ≤ 1 := by
    obtain ⟨a0, a1, -⟩ := FpHexcone.unit_close M n (le_trans hnm hm)
    rw [ha', abs_of_nonneg a0]; exact a1
  have hbB : |b'.val| ≤ 1 := by
    obtain ⟨a0, a1, -⟩ := FpHexcone.unit_close M m hm
    rw [hb', abs_of_nonneg a0]; exact a1
  -- every quotient of the function is `(b' - a') / d`; whatever `d` is, `|rnd (x / d)|` is bounded when `d = 0`
  -- (totalised `x / 0 = 0`) or `|d| ≥ 1/1000`; here we only need SOME bound of the `RF` value, so we use the
  -- dichotomy on `m`, `n` directly
  have two : (Flt.lit 0x4000000000000000 2 1 : RF M).val = 2 := by rw [lit_int_val _ 2 (by norm_num)]; norm_num
  have qA : |((b' - a') / ((Flt.lit 0x4000000000000000 2 1 - b') - a') : RF M).val| ≤ 10 ^ 4 := by
    by_cases hn : n ≤ 254
    · have hL : (1 / 1000 : ℝ) ≤ ((Flt.lit 0x4000000000000000 2 1 - b') - a' : RF M).val := by
        have := den_A_lower (M := M) n m hm hn
        rw [FltRF.sub_val, FltRF.sub_val, two, ha', hb']; exact this
      nbound
    · have e1 : n = 255 := by omega
      have e2 : m = 255 := by omega
      subst e1 e2
      have hz : (b' - a' : RF M).val = 0 := by
        rw [FltRF.sub_val, ha', hb', sub_self, FpErr.rnd_zero]
      rw [FltRF.div_val, hz, zero_div, FpErr.rnd_zero]; norm_num
  have qB : |((b' - a') / (b' + a') : RF M).val| ≤ 10 ^ 4 := by
    by_cases hm1 : 1 ≤ m
    · have hL : (1 / 1000 : ℝ) ≤ (b' + a' : RF M).val := by
        have := den_B_lower (M := M) n m hnm hm hm1
        rw [FltRF.add_val, ha', hb']; exact this
      nbound
    · have e2 : m = 0 := by omega
      have e1 : n = 0 := by omega
      subst e1 e2
      have hz : (b' - a' : RF M).val = 0 := by
        rw [FltRF.sub_val, ha', hb', sub_self, FpErr.rnd_zero]
      rw [FltRF.div_val, hz, zero_div, FpErr.rnd_zero]; norm_num
  have q0 : |(Flt.lit 0x0000000000000000 0 1 : RF M).val| ≤ 10 ^ 4 := by rw [lit_zero]; norm_num
  unfold Hsl.compute_saturation
  split_ifs <;> assumption

theorem hsl_bridge (c : Rgb) (hr : c.r ≤ 255) (hg : c.g ≤ 255) (hb : c.b ≤ 255) :
    (Hsl.from_Rgb c : Hsl (PRFo M)) = liftHsl (Hsl.from_Rgb c) := by
  obtain ⟨n, m, hnm, hm, e, -⟩ := minmax_nat (M := M) c hr hg hb
  have hmB := nat_bd (M := M) m hm
  have hnB := nat_bd (M := M) n (le_trans hnm hm)
  unfold Hsl.from_Rgb
  rw [minmax_bridge, hue_bridge c hr hg hb, e]
  simp (disch := o_side) only [ho_lit, ho_div, ho_add]
  rw [sat_bridge n m hnm hm _ _ _ (unit_val n) (unit_val m)]
  have hs := sat_bd (M := M) n m hnm hm _ _
    ((((⟨(n : ℝ)⟩ : RF M) / Flt.lit 0x406FE00000000000 255 1) + ((⟨(m : ℝ)⟩ : RF M) / Flt.lit 0x406FE00000000000 255 1)) /
      Flt.lit 0x4000000000000000 2 1) (unit_val n) (unit_val m)
  simp (disch := o_side) only [ho_mul, liftHsl]

theorem hsv_bridge (c : Rgb) (hr : c.r ≤ 255) (hg : c.g ≤ 255) (hb : c.b ≤ 255) :
    (Hsv.from_Rgb c : Hsv (PRFo M)) = liftHsv (Hsv.from_Rgb c) := by
  obtain ⟨n, m, hnm, hm, e, -⟩ := minmax_nat (M := M) c hr hg hb
  have hmB := nat_bd (M := M) m hm
  have hnB := nat_bd (M := M) n (le_trans hnm hm)
  unfold Hsv.from_Rgb
  rw [minmax_bridge, hue_bridge c hr hg hb, e]
  simp (disch := o_side) only [ho_lit, ho_lt, ho_sub]
  refine ite_map liftHsv (fun h => ?_) (fun h => ?_)
  · simp only [FltRF.lt_eq, decide_eq_true_eq, lit_zero] at h
    have h0 : (0 : ℝ) < m := h
    have hmL : (1 : ℝ) ≤ (⟨(m : ℝ)⟩ : RF M).val := by
      show (1 : ℝ) ≤ (m : ℝ)
      have : 0 < m := by exact_mod_cast h0
      exact_mod_cast this
    have : (⟨(m : ℝ)⟩ : RF M).val ≠ 0 := h.ne'
    simp (disch := o_side) only [ho_div, ho_mul, liftHsv]
  · simp (disch := o_side) only [ho_div, ho_mul, liftHsv]

theorem hwb_bridge (c : Rgb) (hr : c.r ≤ 255) (hg : c.g ≤ 255) (hb : c.b ≤ 255) :
    (Hwb.from_Rgb c : Hwb (PRFo M)) = liftHwb (Hwb.from_Rgb c) := by
  obtain ⟨-, ⟨s0, s1, -⟩, ⟨v0, v1, -⟩⟩ := FpHexcone.hsv_fields M c hr hg hb
  have hs : |(Hsv.from_Rgb (α := RF M) c).s.val| ≤ 100 := by rw [abs_of_nonneg s0]; exact s1
  have hv : |(Hsv.from_Rgb (α := RF M) c).v.val| ≤ 100 := by rw [abs_of_nonneg v0]; exact v1
  unfold Hwb.from_Rgb
  rw [hsv_bridge c hr hg hb]
  generalize Hsv.from_Rgb (α := RF M) c = q at hs hv
  simp (disch := o_side) only [liftHsv, liftHwb, ho_lit, ho_div, ho_sub, ho_mul]

theorem unit_bd {n : ℕ} (h : n ≤ 255) : |(Flt.ofNat n / Flt.lit 0x406FE00000000000 255 1 : RF M).val| ≤ 4 := by
  nbound

theorem srgb_bridge (c : Rgb) (hr : c.r ≤ 255) (hg : c.g ≤ 255) (hb : c.b ≤ 255) :
    (Srgb.from_Rgb c : Srgb (PRFo M)) = liftSrgb (Srgb.from_Rgb c) := by
  simp (disch := o_side) only [Srgb.from_Rgb, Rgb.as_f64, liftSrgb, ho_lit, ho_ofNat, ho_div, srgb_expand]

theorem srgb_rgb_bd (c : Rgb) (hr : c.r ≤ 255) (hg : c.g ≤ 255) (hb : c.b ≤ 255) :
    |(Srgb.from_Rgb (α := RF M) c).r.val| ≤ 10 ^ 10 ∧ |(Srgb.from_Rgb (α := RF M) c).g.val| ≤ 10 ^ 10 ∧
    |(Srgb.from_Rgb (α := RF M) c).b.val| ≤ 10 ^ 10 := by
  simp only [Srgb.from_Rgb, Rgb.as_f64]
  exact ⟨srgb_expand_bd _ (unit_bd hr), srgb_expand_bd _ (unit_bd hg), srgb_expand_bd _ (unit_bd hb)⟩

theorem argb_bridge (c : Rgb) (hr : c.r ≤ 255) (hg : c.g ≤ 255) (hb : c.b ≤ 255) :
    (Argb.from_Rgb c : Argb (PRFo M)) = liftArgb (Argb.from_Rgb c) := by
  simp (disch := o_side) only [Argb.from_Rgb, Rgb.as_f64, liftArgb, ho_lit, ho_ofNat, ho_div, argb_gamma]

theorem argb_rgb_bd (c : Rgb) (hr : c.r ≤ 255) (hg : c.g ≤ 255) (hb : c.b ≤ 255) :
    |(Argb.from_Rgb (α := RF M) c).r.val| ≤ 10 ^ 10 ∧ |(Argb.from_Rgb (α := RF M) c).g.val| ≤ 10 ^ 10 ∧
    |(Argb.from_Rgb (α := RF M) c).b.val| ≤ 10 ^ 10 := by
  simp only [Argb.from_Rgb, Rgb.as_f64]
  exact ⟨argb_gamma_bd _ (unit_bd hr), argb_gamma_bd _ (unit_bd hg), argb_gamma_bd _ (unit_bd hb)⟩

/-- XYZ of an 8-bit colour under all three profiles -/
theorem xyz_bridge (c : Rgb) (k : XyzKind) (hr : c.r ≤ 255) (hg : c.g ≤ 255) (hb : c.b ≤ 255) :
    (Xyz.from_rgb c k : Xyz (PRFo M)) = liftXyz (Xyz.from_rgb c k) := by
  obtain ⟨s1, s2, s3⟩ := srgb_rgb_bd (M := M) c hr hg hb
  obtain ⟨a1, a2, a3⟩ := argb_rgb_bd (M := M) c hr hg hb
  cases k <;>
  simp only [Xyz.from_rgb, srgb_bridge c hr hg hb, argb_bridge c hr hg hb] <;>
  [generalize Srgb.from_Rgb (α := RF M) c = p at s1 s2 s3; generalize Srgb.from_Rgb (α := RF M) c = p at s1 s2 s3;
   generalize Argb.from_Rgb (α := RF M) c = p at a1 a2 a3] <;>
  simp (disch := o_side) only [Xyz.compute_xyz_from_matrix, liftXyz, liftSrgb, liftArgb,
    Srgb.as_f64, Argb.as_f64, C.X50, C.Y50, C.Z50, C.X65, C.Y65, C.Z65, C.AX, C.AY, C.AZ, ho_lit, ho_mul, ho_add]

/-- the computed XYZ of an 8-bit colour has components of magnitude `≤ 4` (true values `≤ 1.1`) -/
theorem xyz_bd (c : Rgb) (k : XyzKind) (hr : c.r ≤ 255) (hg : c.g ≤ 255) (hb : c.b ≤ 255) :
    |(Xyz.from_rgb (α := RF M) c k).x.val| ≤ 4 ∧ |(Xyz.from_rgb (α := RF M) c k).y.val| ≤ 4 ∧
    |(Xyz.from_rgb (α := RF M) c k).z.val| ≤ 4 := by
  rw [Lemmas.FpXyz.from_rgb_eq_fp']
  obtain ⟨f1, f2, f3⟩ := Lemmas.FpXyz.xyz_fp_close M k c hr hg hb
  have b1 := Lemmas.FpXyz.xyz_range k c hr hg hb 0
  have b2 := Lemmas.FpXyz.xyz_range k c hr hg hb 1
  have b3 := Lemmas.FpXyz.xyz_range k c hr hg hb 2
  simp only [Lemmas.Matrix.V3.get] at b1 b2 b3
  have key : ∀ a x : ℝ, |a - x| ≤ 2e-13 → |x| ≤ 3 → |a| ≤ 4 := fun a x h1 h2 => by
    have := abs_sub_abs_le_abs_sub a x; norm_num at *; linarith
  exact ⟨key _ _ f1 b1, key _ _ f2 b2, key _ _ f3 b3⟩

end Lemmas.FpOverflow
