import LymuiVerif.Lemmas.DefinedRev
/-!
# Definedness (C04): round trips through the polar spaces LCh(uv) and HCL

`Xyz.from_Lchuv` / `Xyz.from_Hcl` go through `Xyz.from_Luv`, whose denominators are nonzero on forward
images only.  So the round trip needs the exact-real identity "polar → cartesian undoes cartesian →
polar": `Luv.from_Lchuv (Lchuv.from_Xyz p) = Luv.from_Xyz p` (`lchuv_back`, `hcl_back`), proved from
`‖z‖ cos (arg z) = re z`, `‖z‖ sin (arg z) = im z` and the 2π-periodicity (the `±360°` wraps).
-/
set_option linter.unusedSimpArgs false
set_option linter.unusedVariables false
namespace Lemmas.Defined
open Gen


theorem norm_mk (u v : ℝ) : ‖(⟨u, v⟩ : ℂ)‖ = Real.sqrt (u ^ (2:ℤ) + v ^ (2:ℤ)) := by
  rw [Complex.norm_def, Complex.normSq_mk]
  congr 1; norm_cast; ring

/-- polar → cartesian undoes cartesian → polar (exact reals), also after a shift by a multiple of 360° -/
theorem polar_back (u v : ℝ) (n : ℤ) :
    Real.sqrt (u ^ (2:ℤ) + v ^ (2:ℤ)) * Real.cos ((180 * Complex.arg ⟨u, v⟩ / Real.pi + 360 * n) * Real.pi / 180) = u ∧
    Real.sqrt (u ^ (2:ℤ) + v ^ (2:ℤ)) * Real.sin ((180 * Complex.arg ⟨u, v⟩ / Real.pi + 360 * n) * Real.pi / 180) = v := by
  have hpi := Real.pi_ne_zero
  rw [← norm_mk]
  have e : (180 * Complex.arg ⟨u, v⟩ / Real.pi + 360 * n) * Real.pi / 180 = Complex.arg ⟨u, v⟩ + n * (2 * Real.pi) := by
    field_simp; ring
  rw [e, Real.cos_add_int_mul_two_pi, Real.sin_add_int_mul_two_pi]
  exact ⟨Complex.norm_mul_cos_arg _, Complex.norm_mul_sin_arg _⟩

theorem polar_gen (u v : ℝ) :
    (Flt.sqrt (Flt.powi u 2 + Flt.powi v 2) * Flt.cos (F64.get_radian_from_degree (F64.get_degree_from_radian (Flt.atan2 v u))) = u ∧
     Flt.sqrt (Flt.powi u 2 + Flt.powi v 2) * Flt.sin (F64.get_radian_from_degree (F64.get_degree_from_radian (Flt.atan2 v u))) = v) ∧
    (Flt.sqrt (Flt.powi u 2 + Flt.powi v 2) * Flt.cos (F64.get_radian_from_degree (F64.get_degree_from_radian (Flt.atan2 v u) + Flt.lit 0x4076800000000000 360 1)) = u ∧
     Flt.sqrt (Flt.powi u 2 + Flt.powi v 2) * Flt.sin (F64.get_radian_from_degree (F64.get_degree_from_radian (Flt.atan2 v u) + Flt.lit 0x4076800000000000 360 1)) = v) ∧
    (Flt.sqrt (Flt.powi u 2 + Flt.powi v 2) * Flt.cos (F64.get_radian_from_degree (F64.get_degree_from_radian (Flt.atan2 v u) - Flt.lit 0x4076800000000000 360 1)) = u ∧
     Flt.sqrt (Flt.powi u 2 + Flt.powi v 2) * Flt.sin (F64.get_radian_from_degree (F64.get_degree_from_radian (Flt.atan2 v u) - Flt.lit 0x4076800000000000 360 1)) = v) := by
  have a := polar_back u v 0
  have b := polar_back u v 1
  have c := polar_back u v (-1)
  simp only [F64.get_radian_from_degree, F64.get_degree_from_radian, FltReal.lit_eq, FltReal.sqrt_eq, FltReal.powi_eq, FltReal.cos_eq,
    FltReal.sin_eq, FltReal.atan2_eq, FltReal.pi_eq, Nat.cast_ofNat, Nat.cast_one, div_one]
  simp only [Int.cast_zero, mul_zero, add_zero, Int.cast_one, mul_one, Int.cast_neg, mul_neg, ← sub_eq_add_neg] at a b c
  exact ⟨a, b, c⟩

theorem lchuv_back (p : Xyz ℝ) : Luv.from_Lchuv (Lchuv.from_Xyz p) = Luv.from_Xyz p := by
  unfold Luv.from_Lchuv Lchuv.from_Xyz
  generalize Luv.from_Xyz p = q
  obtain ⟨l, u, v⟩ := q
  obtain ⟨⟨a1, a2⟩, ⟨b1, b2⟩, _⟩ := polar_gen u v
  simp only []
  split_ifs
  · simp only [a1, a2]
  · simp only [b1, b2]

theorem hcl_back (p : Xyz ℝ) : Luv.from_Hcl (Hcl.from_Xyz p) = Luv.from_Xyz p := by
  unfold Luv.from_Hcl Hcl.from_Xyz Hcl.from_Luv F64.from_Luv
  generalize Luv.from_Xyz p = q
  obtain ⟨l, u, v⟩ := q
  obtain ⟨⟨a1, a2⟩, ⟨b1, b2⟩, ⟨c1, c2⟩⟩ := polar_gen u v
  have e : u * u + v * v = Flt.powi u 2 + Flt.powi v 2 := by
    simp only [FltReal.powi_eq, zpow_two]
  simp only [e]
  split_ifs
  · simp only [c1, c2]
  · simp only [b1, b2]
  · simp only [a1, a2]

theorem xyz_from_lchuv_image (p : Xyz ℝ) (hx : 0 ≤ p.x) (hy : 0 ≤ p.y) (hz : 0 ≤ p.z)
    (h : (0 < p.x ∧ 0 < p.y ∧ 0 < p.z) ∨ (p.x = 0 ∧ p.y = 0 ∧ p.z = 0)) :
    Xyz.from_Lchuv (Lchuv.from_Xyz (liftXyz p)) = liftXyz (Xyz.from_Lchuv (Lchuv.from_Xyz p)) := by
  obtain ⟨l0, l1, l2⟩ := luv_image_facts p h
  unfold Xyz.from_Lchuv
  rw [lchuv_from_xyz p hx hy hz, luv_from_lchuv, lchuv_back]
  exact xyz_from_luv _ l0 l2

theorem xyz_from_hcl_image (p : Xyz ℝ) (hx : 0 ≤ p.x) (hy : 0 ≤ p.y) (hz : 0 ≤ p.z)
    (h : (0 < p.x ∧ 0 < p.y ∧ 0 < p.z) ∨ (p.x = 0 ∧ p.y = 0 ∧ p.z = 0)) :
    Xyz.from_Hcl (Hcl.from_Xyz (liftXyz p)) = liftXyz (Xyz.from_Hcl (Hcl.from_Xyz p)) := by
  obtain ⟨l0, l1, l2⟩ := luv_image_facts p h
  unfold Xyz.from_Hcl
  rw [hcl_from_xyz p hx hy hz, luv_from_hcl, hcl_back]
  exact xyz_from_luv _ l0 l2

end Lemmas.Defined
