import LymuiVerif.Props.C08
import LymuiVerif.Lemmas.Rpow
/-!
# BT.2020 curve pair of the code: tight bound inside the sliver `[0.018, 0.0181)`

The code's decoder switches at 0.081 while its encoder switches at `L = 0.0181` (encoded 0.08145), so
for `L ∈ [0.018, 0.0181)` the value is encoded linearly and decoded by the power branch.
`Props.C08.rec2020_dec_enc_sliver` bounds the resulting error by the width of the sliver (1.01e-4);
the two branches nearly agree there (slopes 4.5 vs 4.4927, offset 6e-7), so the true error is
`≈ 6e-7`.  Here: `≤ 1e-6`, by Bernoulli's inequality from both ends of the sliver.
-/
namespace Lemmas.Rec2020F1a
open Gen Lemmas.CurvesD2 Props.C08

private theorem e119 : (1 : ℝ) / 0.45 - 1 = ((11 : ℕ) : ℝ) / ((9 : ℕ) : ℝ) := by norm_num

/-- slope anchor: `a0^(11/9) ≥ 0.1097`, `a0 = (0.081 + 0.0993)/1.0993` -/
theorem fact_slope : (0.1097 : ℝ) ≤ ((0.081 + 0.0993) / 1.0993 : ℝ) ^ ((1 : ℝ) / 0.45 - 1) := by
  rw [e119]
  exact le_rpow_div 11 9 (by norm_num) (by norm_num) (by norm_num) (by norm_num)

theorem fact_lo : (0.0180006 : ℝ) ≤ ((0.081 + 0.0993) / 1.0993 : ℝ) ^ ((1 : ℝ) / 0.45) := by
  rw [e045i]
  exact le_rpow_div 20 9 (by norm_num) (by norm_num) (by norm_num) (by norm_num)

theorem fact_hi : ((0.08145 + 0.0993) / 1.0993 : ℝ) ^ ((1 : ℝ) / 0.45) ≤ (0.0181007 : ℝ) := by
  rw [e045i]
  exact rpow_div_le 20 9 (by norm_num) (by norm_num) (by norm_num) (by norm_num)

/-- **tight sliver bound**: for `L ∈ [0.018, 0.0181)` decode(encode L) is within `1e-6` of `L`
(and strictly above `L`: the round trip is NOT exact there). -/
theorem rec2020_dec_enc_sliver_tight (L : ℝ) (h1 : 0.018 ≤ L) (h2 : L < 0.0181) :
    |F64.compute_rec2020_gamma_expanded (F64.compute_rec2020_gamma_correction L) - L| ≤ 1e-6 ∧
    L < F64.compute_rec2020_gamma_expanded (F64.compute_rec2020_gamma_correction L) := by
  rw [(rec2020_dec_enc_sliver L h1 h2).1]
  unfold α2020
  set a0 : ℝ := (0.081 + 0.0993) / 1.0993 with ha0
  set a1 : ℝ := (0.08145 + 0.0993) / 1.0993 with ha1
  set a : ℝ := (4.5 * L + (1.0993 - 1)) / 1.0993 with ha
  have ha0pos : 0 < a0 := by rw [ha0]; norm_num
  have h0a : a0 ≤ a := by rw [ha0, ha]; apply div_le_div_of_nonneg_right _ (by norm_num); linarith
  have ha1' : a ≤ a1 := by rw [ha1, ha]; apply div_le_div_of_nonneg_right _ (by norm_num); linarith
  have d0 : a - a0 = 4.5 * (L - 0.018) / 1.0993 := by rw [ha0, ha]; ring
  have d1 : a1 - a = 4.5 * (0.0181 - L) / 1.0993 := by rw [ha1, ha]; ring
  have s1 := Lemmas.Rpow.rpow_step_lb (p := (1 : ℝ) / 0.45) ha0pos le_rfl h0a (by norm_num) fact_slope
  have s2 := Lemmas.Rpow.rpow_step_lb (p := (1 : ℝ) / 0.45) ha0pos h0a ha1' (by norm_num) fact_slope
  rw [d0] at s1; rw [d1] at s2
  have f1 := fact_lo
  have f2 := fact_hi
  rw [← ha0] at f1; rw [← ha1] at f2
  have e1 : (1 : ℝ) / 0.45 * (4.5 * (L - 0.018) / 1.0993) * 0.1097 = (L - 0.018) * (10970 / 10993) := by
    ring
  have e2 : (1 : ℝ) / 0.45 * (4.5 * (0.0181 - L) / 1.0993) * 0.1097 = (0.0181 - L) * (10970 / 10993) := by
    ring
  rw [e1] at s1; rw [e2] at s2
  constructor
  · rw [abs_le]; constructor <;> nlinarith
  · nlinarith

end Lemmas.Rec2020F1a
