import LymuiVerif.Lemmas.FpErr
/-!
# Linear forms in the rounded-arithmetic reading: a compositional error calculus

`FpLin.Near a x e B` bundles the three facts one carries along a chain of rounded operations:
the computed value `a` is within `e` of the exact value `x`, the exact value has magnitude at most
`B`, and `1 ≤ B` (so that every rounding of a value of magnitude `≤ B` costs at most `FP.eps·B`; a
magnitude bound can always be relaxed to `1`).  One combinator per operation of `Flt (RF M)`
(`Near.add`, `Near.sub`, `Near.mul`, `Near.neg`, `Near.div_nat`, `Near.div`, `Near.lit`, …) builds the
`Near` fact of a compound expression *in the evaluation order of the code*; the error and magnitude
come out as closed rational expressions in `FP.eps` that `norm_num [FP.eps]` evaluates.
`Near.finish` turns the result into the `|computed − spec| ≤ tol` statement.

Packaged results for the frequent shape (row of a 3×3 matrix, weighted sum of three channels):
`dot3`, `dot3'` (coefficient on the left / on the right) with computed coefficients, `dot3_close`,
`dot3_close'`, `dot3_lit_close`, `dot3_lit_close'` with the explicit bound
`(3 + 9·eps)·(el·X + e·L + el·e) + 9·eps·L·X`.

All lemmas hold for an arbitrary `M : FPModel`.

Usage pattern (see `Props/C10_fp.lean`):

    simp only [Yuv.from_Rgb, Rgb.as_f64, FltRF.lit_val, FltRF.ofNat_val, FltRF.add_val, FltRF.mul_val, …]
    rw [FpErr.lit_int M 255 (by norm_num)]                       -- whole-number literals are exact
    have R : Near (c.r : ℝ) c.r 0 255 := Near.nat (by exact_mod_cast hr) (by norm_num)
    have h := ((Near.lit M 299 1000 (B := 1) (by norm_num) le_rfl).mul M R).add M …   -- mirror the code
    exact h.finish (by push_cast; ring) (by norm_num [FP.eps])   -- real output:  |computed - spec| ≤ tol
    exact h.pert Real.toU8 (by push_cast; ring) (by norm_num [FP.eps])   -- byte output: ∃ d, |d| ≤ tol ∧ …

The computed expression is matched syntactically against the unfolded generated code, so a changed
constant, operator or evaluation order makes the proof fail.
-/
namespace FpLin
open FpErr

/-- `a` (computed) approximates `x` (exact) within `e`; `|x| ≤ B`; `1 ≤ B`. -/
structure Near (a x e B : ℝ) : Prop where
  err : |a - x| ≤ e
  mag : |x| ≤ B
  one : 1 ≤ B

namespace Near
variable (M : FPModel)

theorem e_nonneg {a x e B : ℝ} (h : Near a x e B) : 0 ≤ e := le_trans (abs_nonneg _) h.err
theorem B_pos {a x e B : ℝ} (h : Near a x e B) : 0 < B := lt_of_lt_of_le one_pos h.one
theorem B_big {a x e B : ℝ} (h : Near a x e B) : (1e-200 : ℝ) ≤ B := le_trans (by norm_num) h.one

/-- an exactly known value -/
theorem exact {x B : ℝ} (hx : |x| ≤ B) (hB : 1 ≤ B) : Near x x 0 B :=
  ⟨by simp, hx, hB⟩

/-- an exactly known non-negative value -/
theorem exact_nonneg {x B : ℝ} (h0 : 0 ≤ x) (hx : x ≤ B) (hB : 1 ≤ B) : Near x x 0 B :=
  exact (by rwa [abs_of_nonneg h0]) hB

/-- a natural number (a byte converted to `f64`) -/
theorem nat {n : ℕ} {B : ℝ} (hx : (n : ℝ) ≤ B) (hB : 1 ≤ B) : Near (n : ℝ) (n : ℝ) 0 B :=
  exact_nonneg (Nat.cast_nonneg _) hx hB

/-- weaken the error and the magnitude bound -/
theorem mono {a x e B e' B' : ℝ} (h : Near a x e B) (he : e ≤ e') (hB : B ≤ B') : Near a x e' B' :=
  ⟨h.err.trans he, h.mag.trans hB, h.one.trans hB⟩

/-- replace the magnitude bound by any other valid one -/
theorem remag {a x e B B' : ℝ} (h : Near a x e B) (hx : |x| ≤ B') (hB : 1 ≤ B') : Near a x e B' :=
  ⟨h.err, hx, hB⟩

/-- rewrite the exact value -/
theorem retarget {a x x' e B : ℝ} (h : Near a x e B) (hx : x = x') : Near a x' e B := hx ▸ h

/-- conclude: the computed value is within `tol` of the specification `x'` -/
theorem finish {a x x' e B tol : ℝ} (h : Near a x e B) (hx : x = x') (he : e ≤ tol) : |a - x'| ≤ tol :=
  hx ▸ h.err.trans he

/-- conclude for a quantised output: the quantiser `f` (e.g. `Real.toU8`, `Real.toU8 ∘ Real.roundHA`)
applied to the computed value equals `f` applied to the specification perturbed by some `|d| ≤ tol` -/
theorem pert {β : Sort*} (f : ℝ → β) {a x x' e B tol : ℝ} (h : Near a x e B) (hx : x = x') (he : e ≤ tol) :
    ∃ d : ℝ, |d| ≤ tol ∧ f a = f (x' + d) :=
  ⟨a - x', h.finish hx he, by rw [add_sub_cancel]⟩

/-- a literal `n/d` after its one rounding -/
theorem lit (n d : ℕ) {B : ℝ} (h : (n : ℝ) / d ≤ B) (hB : 1 ≤ B) :
    Near (M.rnd ((n : ℝ) / d)) ((n : ℝ) / d) (FP.eps * B) B :=
  ⟨lit_close M n d h (le_trans (by norm_num) hB), by rwa [abs_of_nonneg (by positivity)], hB⟩

/-- one more rounding of a computed value -/
theorem rnd {a x e B : ℝ} (h : Near a x e B) : Near (M.rnd a) x (e + FP.eps * (B + e)) B :=
  ⟨rnd_close M h.err h.mag h.B_big, h.mag, h.one⟩

theorem neg {a x e B : ℝ} (h : Near a x e B) : Near (-a) (-x) e B :=
  ⟨by rw [show -a - -x = -(a - x) by ring, abs_neg]; exact h.err, by rw [abs_neg]; exact h.mag, h.one⟩

/-- exact (unrounded) sum -/
theorem add_exact {a b x y ea eb Bx By : ℝ} (ha : Near a x ea Bx) (hb : Near b y eb By) :
    Near (a + b) (x + y) (ea + eb) (Bx + By) :=
  ⟨by
      calc |a + b - (x + y)| = |(a - x) + (b - y)| := by ring_nf
        _ ≤ |a - x| + |b - y| := abs_add_le _ _
        _ ≤ ea + eb := add_le_add ha.err hb.err,
    (abs_add_le _ _).trans (add_le_add ha.mag hb.mag), by linarith [ha.one, hb.one]⟩

/-- exact (unrounded) product -/
theorem mul_exact {a b x y ea eb Bx By : ℝ} (ha : Near a x ea Bx) (hb : Near b y eb By) :
    Near (a * b) (x * y) (ea * By + eb * Bx + ea * eb) (Bx * By) :=
  ⟨mul_exact_close ha.err hb.err ha.mag hb.mag,
    by rw [abs_mul]; exact mul_le_mul ha.mag hb.mag (abs_nonneg _) ha.B_pos.le,
    by nlinarith [ha.one, hb.one]⟩

/-- rounded sum `a + b` -/
theorem add {a b x y ea eb Bx By : ℝ} (ha : Near a x ea Bx) (hb : Near b y eb By) :
    Near (M.rnd (a + b)) (x + y) ((ea + eb) + FP.eps * ((Bx + By) + (ea + eb))) (Bx + By) :=
  (add_exact ha hb).rnd M

/-- rounded difference `a - b` -/
theorem sub {a b x y ea eb Bx By : ℝ} (ha : Near a x ea Bx) (hb : Near b y eb By) :
    Near (M.rnd (a - b)) (x - y) ((ea + eb) + FP.eps * ((Bx + By) + (ea + eb))) (Bx + By) := by
  have := (add_exact ha hb.neg).rnd M
  simpa only [← sub_eq_add_neg] using this

/-- rounded product `a * b` -/
theorem mul {a b x y ea eb Bx By : ℝ} (ha : Near a x ea Bx) (hb : Near b y eb By) :
    Near (M.rnd (a * b)) (x * y)
      ((ea * By + eb * Bx + ea * eb) + FP.eps * (Bx * By + (ea * By + eb * Bx + ea * eb))) (Bx * By) :=
  (mul_exact ha hb).rnd M

/-- rounded quotient by an exactly represented positive constant `c` (e.g. `/ 255.0`); the caller
supplies a magnitude bound `B' ≥ 1` of the quotient -/
theorem div_const {a x e B c B' : ℝ} (ha : Near a x e B) (hc : 0 < c) (hB' : B / c ≤ B') (h1 : 1 ≤ B') :
    Near (M.rnd (a / c)) (x / c) (e / c + FP.eps * (B' + e / c)) B' := by
  have hm : |x / c| ≤ B' := by
    rw [abs_div, abs_of_pos hc]
    exact le_trans (div_le_div_of_nonneg_right ha.mag hc.le) hB'
  have he : |a / c - x / c| ≤ e / c := by
    rw [← sub_div, abs_div, abs_of_pos hc]
    exact div_le_div_of_nonneg_right ha.err hc.le
  exact (Near.rnd M ⟨he, hm, h1⟩)

/-- rounded quotient `a / b` of two computed values, the exact divisor bounded away from zero by `m`
(and its error smaller than `m`); the caller supplies a magnitude bound `Bq ≥ 1` of the exact quotient -/
theorem div {a b x y ea eb Bx By m Bq : ℝ} (ha : Near a x ea Bx) (hb : Near b y eb By)
    (hy : m ≤ |y|) (hm : eb < m) (hq : |x / y| ≤ Bq) (h1 : 1 ≤ Bq) :
    Near (M.rnd (a / b)) (x / y)
      ((ea * m + eb * Bx) / (m * (m - eb)) + FP.eps * (Bq + (ea * m + eb * Bx) / (m * (m - eb)))) Bq :=
  ⟨div_close M ha.err hb.err ha.mag hy hm hq (le_trans (by norm_num) h1), hq, h1⟩

end Near

/-! ## three-term dot products -/
section dot3
variable (M : FPModel)

/-- **three-term dot product**, coefficient on the left, in the evaluation order
`((c₁*a₁ + c₂*a₂) + c₃*a₃)` with every product and every sum rounded.  The coefficients `cᵢ` are
computed values (typically rounded literals, possibly negated) approximating `kᵢ` within `el`,
`|kᵢ| ≤ L`; the inputs `aᵢ` approximate `xᵢ` within `e`, `|xᵢ| ≤ X`. -/
theorem dot3 {c1 c2 c3 k1 k2 k3 a1 a2 a3 x1 x2 x3 el L e X : ℝ}
    (hc1 : Near c1 k1 el L) (hc2 : Near c2 k2 el L) (hc3 : Near c3 k3 el L)
    (ha1 : Near a1 x1 e X) (ha2 : Near a2 x2 e X) (ha3 : Near a3 x3 e X) :
    Near (M.rnd (M.rnd (M.rnd (c1 * a1) + M.rnd (c2 * a2)) + M.rnd (c3 * a3)))
      (k1 * x1 + k2 * x2 + k3 * x3)
      ((3 + 9 * FP.eps) * (el * X + e * L + el * e) + 9 * FP.eps * (L * X)) (3 * (L * X)) := by
  have h := ((hc1.mul M ha1).add M (hc2.mul M ha2)).add M (hc3.mul M ha3)
  have hel := hc1.e_nonneg
  have he := ha1.e_nonneg
  have hL := hc1.B_pos
  have hX := ha1.B_pos
  refine h.mono ?_ (by linarith)
  have hE : 0 ≤ el * X + e * L + el * e := by positivity
  have hP : 0 ≤ L * X := by positivity
  generalize el * X + e * L + el * e = E at *
  generalize L * X = P at *
  unfold FP.eps
  nlinarith [hE, hP]

/-- the same with the coefficient on the right: `((a₁*c₁ + a₂*c₂) + a₃*c₃)` -/
theorem dot3' {c1 c2 c3 k1 k2 k3 a1 a2 a3 x1 x2 x3 el L e X : ℝ}
    (hc1 : Near c1 k1 el L) (hc2 : Near c2 k2 el L) (hc3 : Near c3 k3 el L)
    (ha1 : Near a1 x1 e X) (ha2 : Near a2 x2 e X) (ha3 : Near a3 x3 e X) :
    Near (M.rnd (M.rnd (M.rnd (a1 * c1) + M.rnd (a2 * c2)) + M.rnd (a3 * c3)))
      (k1 * x1 + k2 * x2 + k3 * x3)
      ((3 + 9 * FP.eps) * (el * X + e * L + el * e) + 9 * FP.eps * (L * X)) (3 * (L * X)) := by
  rw [mul_comm a1, mul_comm a2, mul_comm a3]
  exact dot3 M hc1 hc2 hc3 ha1 ha2 ha3

/-- `dot3` as a plain inequality -/
theorem dot3_close {c1 c2 c3 k1 k2 k3 a1 a2 a3 x1 x2 x3 el L e X : ℝ}
    (hc1 : |c1 - k1| ≤ el) (hc2 : |c2 - k2| ≤ el) (hc3 : |c3 - k3| ≤ el)
    (hk1 : |k1| ≤ L) (hk2 : |k2| ≤ L) (hk3 : |k3| ≤ L) (hL : 1 ≤ L)
    (ha1 : |a1 - x1| ≤ e) (ha2 : |a2 - x2| ≤ e) (ha3 : |a3 - x3| ≤ e)
    (hx1 : |x1| ≤ X) (hx2 : |x2| ≤ X) (hx3 : |x3| ≤ X) (hX : 1 ≤ X) :
    |M.rnd (M.rnd (M.rnd (c1 * a1) + M.rnd (c2 * a2)) + M.rnd (c3 * a3)) - (k1 * x1 + k2 * x2 + k3 * x3)|
      ≤ (3 + 9 * FP.eps) * (el * X + e * L + el * e) + 9 * FP.eps * (L * X) :=
  (dot3 M ⟨hc1, hk1, hL⟩ ⟨hc2, hk2, hL⟩ ⟨hc3, hk3, hL⟩ ⟨ha1, hx1, hX⟩ ⟨ha2, hx2, hX⟩ ⟨ha3, hx3, hX⟩).err

/-- `dot3'` as a plain inequality -/
theorem dot3_close' {c1 c2 c3 k1 k2 k3 a1 a2 a3 x1 x2 x3 el L e X : ℝ}
    (hc1 : |c1 - k1| ≤ el) (hc2 : |c2 - k2| ≤ el) (hc3 : |c3 - k3| ≤ el)
    (hk1 : |k1| ≤ L) (hk2 : |k2| ≤ L) (hk3 : |k3| ≤ L) (hL : 1 ≤ L)
    (ha1 : |a1 - x1| ≤ e) (ha2 : |a2 - x2| ≤ e) (ha3 : |a3 - x3| ≤ e)
    (hx1 : |x1| ≤ X) (hx2 : |x2| ≤ X) (hx3 : |x3| ≤ X) (hX : 1 ≤ X) :
    |M.rnd (M.rnd (M.rnd (a1 * c1) + M.rnd (a2 * c2)) + M.rnd (a3 * c3)) - (k1 * x1 + k2 * x2 + k3 * x3)|
      ≤ (3 + 9 * FP.eps) * (el * X + e * L + el * e) + 9 * FP.eps * (L * X) :=
  (dot3' M ⟨hc1, hk1, hL⟩ ⟨hc2, hk2, hL⟩ ⟨hc3, hk3, hL⟩ ⟨ha1, hx1, hX⟩ ⟨ha2, hx2, hX⟩ ⟨ha3, hx3, hX⟩).err

/-- **three-term dot product with literal coefficients** `nᵢ/dᵢ ≤ L` (each literal rounded once),
coefficient on the left: the computed `l₁*a₁ + l₂*a₂ + l₃*a₃` is within
`(3 + 9 eps)(eps·L·X + e·L + eps·L·e) + 9 eps·L·X` of the exact sum. -/
theorem dot3_lit_close (n1 d1 n2 d2 n3 d3 : ℕ) {a1 a2 a3 x1 x2 x3 L e X : ℝ}
    (hl1 : (n1 : ℝ) / d1 ≤ L) (hl2 : (n2 : ℝ) / d2 ≤ L) (hl3 : (n3 : ℝ) / d3 ≤ L) (hL : 1 ≤ L)
    (ha1 : |a1 - x1| ≤ e) (ha2 : |a2 - x2| ≤ e) (ha3 : |a3 - x3| ≤ e)
    (hx1 : |x1| ≤ X) (hx2 : |x2| ≤ X) (hx3 : |x3| ≤ X) (hX : 1 ≤ X) :
    |M.rnd (M.rnd (M.rnd (M.rnd ((n1 : ℝ) / d1) * a1) + M.rnd (M.rnd ((n2 : ℝ) / d2) * a2))
        + M.rnd (M.rnd ((n3 : ℝ) / d3) * a3))
      - ((n1 : ℝ) / d1 * x1 + (n2 : ℝ) / d2 * x2 + (n3 : ℝ) / d3 * x3)|
      ≤ (3 + 9 * FP.eps) * (FP.eps * L * X + e * L + FP.eps * L * e) + 9 * FP.eps * (L * X) :=
  (dot3 M (Near.lit M n1 d1 hl1 hL) (Near.lit M n2 d2 hl2 hL) (Near.lit M n3 d3 hl3 hL)
    ⟨ha1, hx1, hX⟩ ⟨ha2, hx2, hX⟩ ⟨ha3, hx3, hX⟩).err

/-- the same with the literal on the right: `a₁*l₁ + a₂*l₂ + a₃*l₃` -/
theorem dot3_lit_close' (n1 d1 n2 d2 n3 d3 : ℕ) {a1 a2 a3 x1 x2 x3 L e X : ℝ}
    (hl1 : (n1 : ℝ) / d1 ≤ L) (hl2 : (n2 : ℝ) / d2 ≤ L) (hl3 : (n3 : ℝ) / d3 ≤ L) (hL : 1 ≤ L)
    (ha1 : |a1 - x1| ≤ e) (ha2 : |a2 - x2| ≤ e) (ha3 : |a3 - x3| ≤ e)
    (hx1 : |x1| ≤ X) (hx2 : |x2| ≤ X) (hx3 : |x3| ≤ X) (hX : 1 ≤ X) :
    |M.rnd (M.rnd (M.rnd (a1 * M.rnd ((n1 : ℝ) / d1)) + M.rnd (a2 * M.rnd ((n2 : ℝ) / d2)))
        + M.rnd (a3 * M.rnd ((n3 : ℝ) / d3)))
      - ((n1 : ℝ) / d1 * x1 + (n2 : ℝ) / d2 * x2 + (n3 : ℝ) / d3 * x3)|
      ≤ (3 + 9 * FP.eps) * (FP.eps * L * X + e * L + FP.eps * L * e) + 9 * FP.eps * (L * X) :=
  (dot3' M (Near.lit M n1 d1 hl1 hL) (Near.lit M n2 d2 hl2 hL) (Near.lit M n3 d3 hl3 hL)
    ⟨ha1, hx1, hX⟩ ⟨ha2, hx2, hX⟩ ⟨ha3, hx3, hX⟩).err

end dot3
end FpLin
