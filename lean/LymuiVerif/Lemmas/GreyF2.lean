import LymuiVerif.Lemmas.DerivedF2
import LymuiVerif.Props.C11_cie
/-!
# Lemmas for the XYZ-derived clauses of C11 (greys): equal encoded channels, OkLab a/b

A grey `(v,v,v)` has XYZ `= (0.95047, 1.0000001, 1.08883)·t`, `t = decSrgb(v/255)` (`Props.C11_cie.grey_xyz`).
The linear components handed to an encoder are `σᵢ·t` with `σ` the row sums of (reverse matrix)·(forward
matrix); they are equal only up to the rounding of the tables (sRGB/Rec.709: 2.5e-7, Rec.2020: 3e-4,
Adobe: 3.4e-4).  Each encoder is monotone on each of its branches, and no 8-bit grey straddles a branch
point, so the three encoded channels are sandwiched between the images of the smallest and the largest
component.
-/
namespace Lemmas.GreyF2
open Gen Lemmas.CurvesD2 Props.C08

/-- "equal R = G = B within `2e-3` relative": every pairwise difference is at most `2e-3` times the
largest magnitude (the reading of the test oracle) -/
def Eq3 (a b c : ℝ) : Prop :=
  |a - b| ≤ 2e-3 * max |a| (max |b| |c|) ∧ |a - c| ≤ 2e-3 * max |a| (max |b| |c|) ∧
    |b - c| ≤ 2e-3 * max |a| (max |b| |c|)

/-- three numbers in `[lo, hi]` with `0 ≤ lo` and `hi − lo ≤ 2e-3·lo` are equal in the sense of `Eq3` -/
theorem eq3_of_sandwich {a b c lo hi : ℝ} (_h0 : 0 ≤ lo) (ha : lo ≤ a ∧ a ≤ hi) (hb : lo ≤ b ∧ b ≤ hi)
    (hc : lo ≤ c ∧ c ≤ hi) (h : hi - lo ≤ 2e-3 * lo) : Eq3 a b c := by
  have hm : lo ≤ max |a| (max |b| |c|) :=
    le_trans ha.1 (le_trans (le_abs_self a) (le_max_left _ _))
  have hb' : hi - lo ≤ 2e-3 * max |a| (max |b| |c|) := by
    refine le_trans h ?_
    exact mul_le_mul_of_nonneg_left hm (by norm_num)
  refine ⟨?_, ?_, ?_⟩ <;> (refine le_trans ?_ hb'; rw [abs_le]; constructor <;> linarith [ha.1, ha.2, hb.1, hb.2, hc.1, hc.2])

theorem eq3_zero : Eq3 0 0 0 := by
  unfold Eq3; simp

/-! ## branches -/

/-- linear branch `k·x` -/
theorem lin_branch {k u x w ε : ℝ} (hk : 0 ≤ k) (hu : 0 ≤ u) (hux : u ≤ x) (hxw : x ≤ w)
    (hrel : w - u ≤ ε * u) :
    (k * u ≤ k * x ∧ k * x ≤ k * w) ∧ k * w - k * u ≤ ε * (k * u) ∧ 0 ≤ k * u := by
  refine ⟨⟨mul_le_mul_of_nonneg_left hux hk, mul_le_mul_of_nonneg_left hxw hk⟩, ?_, mul_nonneg hk hu⟩
  have := mul_le_mul_of_nonneg_left hrel hk
  nlinarith

/-- power branch `A·x^p − B` (`0 ≤ p ≤ 1`) with a positive lower bound `c0` of its value at `u` -/
theorem pow_branch {A B p c0 u x w ε : ℝ} (hA : 0 < A) (hB : 0 ≤ B) (hp0 : 0 ≤ p) (hp1 : p ≤ 1)
    (hu : 0 < u) (hux : u ≤ x) (hxw : x ≤ w) (hε : 0 ≤ ε) (hrel : w - u ≤ ε * u) (hc0 : 0 < c0)
    (hlow : c0 ≤ A * u ^ p - B) :
    (A * u ^ p - B ≤ A * x ^ p - B ∧ A * x ^ p - B ≤ A * w ^ p - B) ∧
    (A * w ^ p - B) - (A * u ^ p - B) ≤ ε * (1 + B / c0) * (A * u ^ p - B) ∧ 0 ≤ A * u ^ p - B := by
  have h1 : u ^ p ≤ x ^ p := Real.rpow_le_rpow hu.le hux hp0
  have h2 : x ^ p ≤ w ^ p := Real.rpow_le_rpow (hu.le.trans hux) hxw hp0
  have hw : 0 < w := lt_of_lt_of_le hu (hux.trans hxw)
  have habs : |w - u| ≤ ε * u := by rw [abs_of_nonneg (by linarith)]; exact hrel
  have h3 := rpow_rel_perturb hp0 hp1 hu hw habs
  have h3' : w ^ p - u ^ p ≤ ε * u ^ p := le_trans (le_abs_self _) h3
  have hup : 0 ≤ u ^ p := Real.rpow_nonneg hu.le p
  refine ⟨⟨by nlinarith, by nlinarith⟩, ?_, by linarith⟩
  -- A ε u^p = ε (f u + B) ≤ ε (1 + B/c0) f u
  have hf : 0 < A * u ^ p - B := lt_of_lt_of_le hc0 hlow
  have hBc : B ≤ B / c0 * (A * u ^ p - B) := by
    have : B / c0 * c0 = B := by field_simp
    calc B = B / c0 * c0 := this.symm
      _ ≤ B / c0 * (A * u ^ p - B) := mul_le_mul_of_nonneg_left hlow (div_nonneg hB hc0.le)
  have h4 : A * (w ^ p - u ^ p) ≤ A * (ε * u ^ p) := mul_le_mul_of_nonneg_left h3' hA.le
  have h5 : A * (ε * u ^ p) = ε * ((A * u ^ p - B) + B) := by ring
  have h6 : ε * ((A * u ^ p - B) + B) ≤ ε * ((A * u ^ p - B) + B / c0 * (A * u ^ p - B)) :=
    mul_le_mul_of_nonneg_left (by linarith) hε
  have h7 : ε * ((A * u ^ p - B) + B / c0 * (A * u ^ p - B)) = ε * (1 + B / c0) * (A * u ^ p - B) := by ring
  have h8 : (A * w ^ p - B) - (A * u ^ p - B) = A * (w ^ p - u ^ p) := by ring
  linarith


/-! ## a two-branch encoder applied to three nearly equal arguments -/

/-- `f` is `k·y` up to `θ₁` and `A·y^p − B` from `θ₂` on; three arguments `a, b, c ∈ [u, w]` with
`w − u ≤ ε·u`, all on one branch, have images equal in the sense of `Eq3`. -/
theorem eq3_encoder (f : ℝ → ℝ) {k A B p c0 ε θ1 θ2 : ℝ} (hk : 0 ≤ k) (hA : 0 < A) (hB : 0 ≤ B)
    (hp0 : 0 ≤ p) (hp1 : p ≤ 1) (hε : 0 ≤ ε) (hc0 : 0 < c0) (hεs : ε * (1 + B / c0) ≤ 2e-3)
    (hθ2 : 0 < θ2)
    (hlo : ∀ y, y ≤ θ1 → f y = k * y) (hhi : ∀ y, θ2 ≤ y → f y = A * y ^ p - B)
    (hlow : ∀ y, θ2 ≤ y → c0 ≤ A * y ^ p - B)
    {u w a b c : ℝ} (hu : 0 ≤ u) (hrel : w - u ≤ ε * u)
    (ha : u ≤ a ∧ a ≤ w) (hb : u ≤ b ∧ b ≤ w) (hc : u ≤ c ∧ c ≤ w) (hside : w ≤ θ1 ∨ θ2 ≤ u) :
    Eq3 (f a) (f b) (f c) := by
  have hε' : ε ≤ 2e-3 := by
    have : 0 ≤ ε * (B / c0) := mul_nonneg hε (div_nonneg hB hc0.le)
    have : ε * (1 + B / c0) = ε + ε * (B / c0) := by ring
    linarith
  rcases hside with hs | hs
  · -- linear branch
    obtain ⟨⟨a1, a2⟩, d, n⟩ := lin_branch hk hu ha.1 ha.2 hrel
    obtain ⟨⟨b1, b2⟩, _, _⟩ := lin_branch hk hu hb.1 hb.2 hrel
    obtain ⟨⟨c1, c2⟩, _, _⟩ := lin_branch hk hu hc.1 hc.2 hrel
    rw [hlo a (ha.2.trans hs), hlo b (hb.2.trans hs), hlo c (hc.2.trans hs)]
    refine eq3_of_sandwich n ⟨a1, a2⟩ ⟨b1, b2⟩ ⟨c1, c2⟩ (d.trans ?_)
    exact mul_le_mul_of_nonneg_right hε' n
  · -- power branch
    have hu' : 0 < u := lt_of_lt_of_le hθ2 hs
    obtain ⟨⟨a1, a2⟩, d, n⟩ := pow_branch hA hB hp0 hp1 hu' ha.1 ha.2 hε hrel hc0 (hlow u hs)
    obtain ⟨⟨b1, b2⟩, _, _⟩ := pow_branch hA hB hp0 hp1 hu' hb.1 hb.2 hε hrel hc0 (hlow u hs)
    obtain ⟨⟨c1, c2⟩, _, _⟩ := pow_branch hA hB hp0 hp1 hu' hc.1 hc.2 hε hrel hc0 (hlow u hs)
    rw [hhi a (hs.trans ha.1), hhi b (hs.trans hb.1), hhi c (hs.trans hc.1)]
    refine eq3_of_sandwich n ⟨a1, a2⟩ ⟨b1, b2⟩ ⟨c1, c2⟩ (d.trans ?_)
    exact mul_le_mul_of_nonneg_right hεs n

/-! ## the decoded 8-bit levels avoid the branch points of the encoders -/

/-- levels ≤ 10 decode below `0.00304`, levels ≥ 11 above `0.00334` (sRGB encoder threshold 0.0031308) -/
theorem dec_avoids_srgb_threshold (k : ℕ) :
    (k ≤ 10 → decSrgb ((k : ℝ) / 255) ≤ 0.00304) ∧ (11 ≤ k → 0.00334 ≤ decSrgb ((k : ℝ) / 255)) := by
  have e : (2.4 : ℝ) = ((12:ℕ):ℝ) / ((5:ℕ):ℝ) := by norm_num
  constructor
  · intro hk
    have hk' : (k:ℝ) ≤ 10 := by exact_mod_cast hk
    unfold decSrgb
    rw [if_pos (by rw [div_le_iff₀ (by norm_num)]; linarith)]
    rw [div_le_iff₀ (by norm_num), div_le_iff₀ (by norm_num)]; linarith
  · intro hk
    have hk' : (11:ℝ) ≤ k := by exact_mod_cast hk
    have hv : (11:ℝ) / 255 ≤ (k:ℝ) / 255 := by gcongr
    unfold decSrgb
    rw [if_neg (by rw [not_le]; exact lt_of_lt_of_le (by norm_num) hv)]
    have hb : ((11:ℝ) / 255 + 0.055) / 1.055 ≤ ((k:ℝ) / 255 + 0.055) / 1.055 := by gcongr
    have hb0 : (0:ℝ) ≤ ((k:ℝ) / 255 + 0.055) / 1.055 := by positivity
    rw [e]
    exact le_rpow_div 12 5 (by norm_num) hb0 (by norm_num)
      (le_trans (by norm_num) (pow_le_pow_left₀ (by norm_num) hb 12))

/-! ## the arguments of the encoders for a grey of linear level `t` -/

/-- sRGB / Rec.709 rows: `σ = (0.99999990550, 1.00000015206, 0.99999997651)` -/
theorem grey_args_srgb (t : ℝ) (h0 : 0 ≤ t) :
    dot C.RX65 (95047 / 100000 * t) (10000001 / 10000000 * t) (108883 / 100000 * t)
      ≤ dot C.RZ65 (95047 / 100000 * t) (10000001 / 10000000 * t) (108883 / 100000 * t) ∧
    dot C.RZ65 (95047 / 100000 * t) (10000001 / 10000000 * t) (108883 / 100000 * t)
      ≤ dot C.RY65 (95047 / 100000 * t) (10000001 / 10000000 * t) (108883 / 100000 * t) ∧
    dot C.RY65 (95047 / 100000 * t) (10000001 / 10000000 * t) (108883 / 100000 * t)
      - dot C.RX65 (95047 / 100000 * t) (10000001 / 10000000 * t) (108883 / 100000 * t)
      ≤ 3e-7 * dot C.RX65 (95047 / 100000 * t) (10000001 / 10000000 * t) (108883 / 100000 * t) ∧
    9999999 / 10000000 * t ≤ dot C.RX65 (95047 / 100000 * t) (10000001 / 10000000 * t) (108883 / 100000 * t) ∧
    dot C.RY65 (95047 / 100000 * t) (10000001 / 10000000 * t) (108883 / 100000 * t) ≤ 10000002 / 10000000 * t := by
  simp only [dot, C.RX65, C.RY65, C.RZ65, FltReal.lit_eq]
  norm_num
  refine ⟨?_, ?_, ?_, ?_, ?_⟩ <;> linarith

/-- Rec.2020 rows: `σ = (1.0000818, 0.9999872, 0.9997857)` -/
theorem grey_args_2020 (t : ℝ) (h0 : 0 ≤ t) :
    dot C.XB (95047 / 100000 * t) (10000001 / 10000000 * t) (108883 / 100000 * t)
      ≤ dot C.XG (95047 / 100000 * t) (10000001 / 10000000 * t) (108883 / 100000 * t) ∧
    dot C.XG (95047 / 100000 * t) (10000001 / 10000000 * t) (108883 / 100000 * t)
      ≤ dot C.rec2020_XR (95047 / 100000 * t) (10000001 / 10000000 * t) (108883 / 100000 * t) ∧
    dot C.rec2020_XR (95047 / 100000 * t) (10000001 / 10000000 * t) (108883 / 100000 * t)
      - dot C.XB (95047 / 100000 * t) (10000001 / 10000000 * t) (108883 / 100000 * t)
      ≤ 3e-4 * dot C.XB (95047 / 100000 * t) (10000001 / 10000000 * t) (108883 / 100000 * t) ∧
    9997 / 10000 * t ≤ dot C.XB (95047 / 100000 * t) (10000001 / 10000000 * t) (108883 / 100000 * t) ∧
    dot C.rec2020_XR (95047 / 100000 * t) (10000001 / 10000000 * t) (108883 / 100000 * t) ≤ 10001 / 10000 * t := by
  simp only [dot, C.rec2020_XR, C.XG, C.XB, FltReal.lit_eq]
  norm_num
  refine ⟨?_, ?_, ?_, ?_, ?_⟩ <;> linarith

/-- Adobe rows applied to the Adobe-profile grey `(0.9504701, 1.0000001, 1.08883)·t`:
`σ = (1.0001078, 0.9999771, 0.9997691)` -/
theorem grey_args_adobe (t : ℝ) (h0 : 0 ≤ t) :
    dot C.ZB (dot C.AX t t t) (dot C.AY t t t) (dot C.AZ t t t)
      ≤ dot C.YG (dot C.AX t t t) (dot C.AY t t t) (dot C.AZ t t t) ∧
    dot C.YG (dot C.AX t t t) (dot C.AY t t t) (dot C.AZ t t t)
      ≤ dot C.argb_XR (dot C.AX t t t) (dot C.AY t t t) (dot C.AZ t t t) ∧
    dot C.argb_XR (dot C.AX t t t) (dot C.AY t t t) (dot C.AZ t t t)
      - dot C.ZB (dot C.AX t t t) (dot C.AY t t t) (dot C.AZ t t t)
      ≤ 4e-4 * dot C.ZB (dot C.AX t t t) (dot C.AY t t t) (dot C.AZ t t t) ∧
    9997 / 10000 * t ≤ dot C.ZB (dot C.AX t t t) (dot C.AY t t t) (dot C.AZ t t t) := by
  simp only [dot, C.argb_XR, C.YG, C.ZB, C.AX, C.AY, C.AZ, FltReal.lit_eq]
  norm_num
  refine ⟨?_, ?_, ?_, ?_⟩ <;> linarith

/-! ## equal channels for the 8-bit greys -/

theorem grey_level (v : ℕ) (hv : v ≤ 255) :
    (Xyz.from_rgb ⟨v, v, v⟩ XyzKind.D65 : Xyz ℝ) = Props.C11_cie.greyXyz (decSrgb ((v : ℝ) / 255)) ∧
    0 ≤ decSrgb ((v : ℝ) / 255) ∧ decSrgb ((v : ℝ) / 255) ≤ 1 := by
  have := Props.C11_cie.grey_xyz v hv
  rwa [srgb_decode_is_iec] at this

/-- sRGB channels of a grey -/
theorem srgb_grey (v : ℕ) (hv : v ≤ 255) :
    Eq3 (Srgb.from_Xyz (Xyz.from_rgb ⟨v, v, v⟩ XyzKind.D65 : Xyz ℝ)).r
      (Srgb.from_Xyz (Xyz.from_rgb ⟨v, v, v⟩ XyzKind.D65 : Xyz ℝ)).g
      (Srgb.from_Xyz (Xyz.from_rgb ⟨v, v, v⟩ XyzKind.D65 : Xyz ℝ)).b := by
  obtain ⟨e, t0, t1⟩ := grey_level v hv
  obtain ⟨lo, hi⟩ := dec_avoids_srgb_threshold v
  rw [e, srgb_from_xyz_def]
  generalize decSrgb ((v : ℝ) / 255) = t at *
  simp only [Props.C11_cie.greyXyz]
  obtain ⟨o1, o2, rel, lb, ub⟩ := grey_args_srgb t t0
  refine eq3_encoder encSrgb (k := 12.92) (A := 1.055) (B := 0.055) (p := 1 / 2.4) (c0 := 0.04)
    (ε := 3e-7) (θ1 := 0.0031308) (θ2 := 0.00313081) (by norm_num) (by norm_num) (by norm_num)
    (by norm_num) (by norm_num) (by norm_num) (by norm_num) (by norm_num) (by norm_num)
    ?_ ?_ ?_ (by linarith) rel ⟨le_rfl, o1.trans o2⟩ ⟨o1.trans o2, le_rfl⟩ ⟨o1, o2⟩ ?_
  · intro y hy; unfold encSrgb; rw [if_pos hy]
  · intro y hy; unfold encSrgb; rw [if_neg (by linarith)]
  · intro y hy
    have h0 : (0:ℝ) ≤ y := by linarith
    have : (0.0904 : ℝ) ≤ y ^ ((1:ℝ) / 2.4) := by
      rw [e24]
      exact le_rpow_div 5 12 (by norm_num) h0 (by norm_num)
        (le_trans (by norm_num) (pow_le_pow_left₀ (by norm_num) hy 5))
    linarith
  · rcases Nat.lt_or_ge v 11 with h | h
    · left; have := lo (Nat.lt_succ_iff.mp h); linarith
    · right; have := hi h; linarith

/-- Rec.709 channels of a grey -/
theorem rec709_grey (v : ℕ) (hv : v ≤ 255) :
    Eq3 (Rec709.from_Xyz (Xyz.from_rgb ⟨v, v, v⟩ XyzKind.D65 : Xyz ℝ)).r
      (Rec709.from_Xyz (Xyz.from_rgb ⟨v, v, v⟩ XyzKind.D65 : Xyz ℝ)).g
      (Rec709.from_Xyz (Xyz.from_rgb ⟨v, v, v⟩ XyzKind.D65 : Xyz ℝ)).b := by
  obtain ⟨e, t0, t1⟩ := grey_level v hv
  obtain ⟨lo, hi⟩ := decSrgb_8bit_avoids_bt709_threshold v
  rw [e, rec709_from_xyz_def]
  generalize decSrgb ((v : ℝ) / 255) = t at *
  simp only [Props.C11_cie.greyXyz]
  obtain ⟨o1, o2, rel, lb, ub⟩ := grey_args_srgb t t0
  refine eq3_encoder oetf709 (k := 4.5) (A := 1.099) (B := 0.099) (p := 0.45) (c0 := 0.08)
    (ε := 3e-7) (θ1 := 0.0179) (θ2 := 0.018) (by norm_num) (by norm_num) (by norm_num)
    (by norm_num) (by norm_num) (by norm_num) (by norm_num) (by norm_num) (by norm_num)
    ?_ ?_ ?_ (by linarith) rel ⟨le_rfl, o1.trans o2⟩ ⟨o1.trans o2, le_rfl⟩ ⟨o1, o2⟩ ?_
  · intro y hy; unfold oetf709; rw [if_pos (by linarith)]
  · intro y hy; unfold oetf709; rw [if_neg (by linarith)]
  · intro y hy
    have h0 : (0:ℝ) ≤ y := by linarith
    have : (0.164 : ℝ) ≤ y ^ (0.45 : ℝ) := by
      rw [e045]
      exact le_rpow_div 9 20 (by norm_num) h0 (by norm_num)
        (le_trans (by norm_num) (pow_le_pow_left₀ (by norm_num) hy 9))
    linarith
  · rcases Nat.lt_or_ge v 37 with h | h
    · left; have := lo (Nat.lt_succ_iff.mp h); linarith
    · right; have := hi h; linarith

/-- Rec.2020 channels of a grey -/
theorem rec2020_grey (v : ℕ) (hv : v ≤ 255) :
    Eq3 (Rec2020.from_Xyz (Xyz.from_rgb ⟨v, v, v⟩ XyzKind.D65 : Xyz ℝ)).r
      (Rec2020.from_Xyz (Xyz.from_rgb ⟨v, v, v⟩ XyzKind.D65 : Xyz ℝ)).g
      (Rec2020.from_Xyz (Xyz.from_rgb ⟨v, v, v⟩ XyzKind.D65 : Xyz ℝ)).b := by
  obtain ⟨e, t0, t1⟩ := grey_level v hv
  obtain ⟨lo, hi⟩ := decSrgb_8bit_avoids_bt709_threshold v
  rw [e, rec2020_from_xyz_def]
  generalize decSrgb ((v : ℝ) / 255) = t at *
  simp only [Props.C11_cie.greyXyz]
  obtain ⟨o1, o2, rel, lb, ub⟩ := grey_args_2020 t t0
  refine eq3_encoder oetf2020 (k := 4.5) (A := 1.0993) (B := 0.0993) (p := 0.45) (c0 := 0.08)
    (ε := 3e-4) (θ1 := 0.018) (θ2 := 0.0181) (by norm_num) (by norm_num) (by norm_num)
    (by norm_num) (by norm_num) (by norm_num) (by norm_num) (by norm_num) (by norm_num)
    ?_ ?_ ?_ (by linarith) rel ⟨o1.trans o2, le_rfl⟩ ⟨o1, o2⟩ ⟨le_rfl, o1.trans o2⟩ ?_
  · intro y hy; unfold oetf2020 α2020 β2020; rw [if_pos (by linarith)]
  · intro y hy; unfold oetf2020 α2020 β2020; rw [if_neg (by linarith)]; ring
  · intro y hy
    have h0 : (0:ℝ) ≤ y := by linarith
    have : (0.164 : ℝ) ≤ y ^ (0.45 : ℝ) := by
      rw [e045]
      exact le_rpow_div 9 20 (by norm_num) h0 (by norm_num)
        (le_trans (by norm_num) (pow_le_pow_left₀ (by norm_num) hy 9))
    linarith
  · rcases Nat.lt_or_ge v 37 with h | h
    · left; have := lo (Nat.lt_succ_iff.mp h); linarith
    · right; have := hi h; linarith

/-- Adobe RGB channels of a grey (XYZ under the Adobe profile) -/
theorem argb_grey (v : ℕ) (hv : v ≤ 255) :
    Eq3 (Argb.from_Xyz (Xyz.from_rgb ⟨v, v, v⟩ XyzKind.Adobe : Xyz ℝ)).r
      (Argb.from_Xyz (Xyz.from_rgb ⟨v, v, v⟩ XyzKind.Adobe : Xyz ℝ)).g
      (Argb.from_Xyz (Xyz.from_rgb ⟨v, v, v⟩ XyzKind.Adobe : Xyz ℝ)).b := by
  obtain ⟨t0, _⟩ := Lemmas.DerivedF2.decA_unit v hv
  rw [argb_from_xyz_def, xyz_from_rgb_adobe_def]
  dsimp only
  generalize decAdobe ((v : ℝ) / 255) = t at *
  obtain ⟨o1, o2, rel, lb⟩ := grey_args_adobe t t0
  rcases t0.eq_or_lt with rfl | tpos
  · have z : ∀ m : ℝ × ℝ × ℝ, dot m (dot C.AX 0 0 0) (dot C.AY 0 0 0) (dot C.AZ 0 0 0) = 0 := by
      intro m; simp [dot]
    have z' : encAdobe (max 0 0) = 0 := by
      unfold encAdobe adobeGamma; rw [max_self, Real.zero_rpow (by norm_num)]
    rw [z, z, z, z']
    exact eq3_zero
  · set u := dot C.ZB (dot C.AX t t t) (dot C.AY t t t) (dot C.AZ t t t) with hu
    have upos : 0 < u := by linarith
    have hup : 0 < u ^ (1 / adobeGamma) := Real.rpow_pos_of_pos upos _
    refine eq3_encoder (fun y => encAdobe (max y 0)) (k := 0) (A := 1) (B := 0) (p := 1 / adobeGamma)
      (c0 := u ^ (1 / adobeGamma)) (ε := 4e-4) (θ1 := -1) (θ2 := u) le_rfl (by norm_num) le_rfl
      (by unfold adobeGamma; norm_num) (by unfold adobeGamma; norm_num) (by norm_num) hup
      (by rw [zero_div]; norm_num) upos
      ?_ ?_ ?_ upos.le rel ⟨o1.trans o2, le_rfl⟩ ⟨o1, o2⟩ ⟨le_rfl, o1.trans o2⟩ (Or.inr le_rfl)
    · intro y hy
      have : max y 0 = 0 := max_eq_right (by linarith)
      simp only [this, zero_mul]
      unfold encAdobe adobeGamma; rw [Real.zero_rpow (by norm_num)]
    · intro y hy
      have : max y 0 = y := max_eq_left (by linarith)
      simp only [this]
      unfold encAdobe; ring
    · intro y hy
      have : u ^ (1 / adobeGamma) ≤ y ^ (1 / adobeGamma) :=
        Real.rpow_le_rpow upos.le hy (by unfold adobeGamma; norm_num)
      linarith

/-! ## OkLab of a grey -/
open Lemmas.OkLabF2 in
/-- order and relative spread of the three sRGB channels of a grey: `0 ≤ r ≤ b ≤ g ≤ (1 + 7.2e-7)·r` -/
theorem srgb_grey_order (v : ℕ) (hv : v ≤ 255) :
    0 ≤ (Srgb.from_Xyz (Xyz.from_rgb ⟨v, v, v⟩ XyzKind.D65 : Xyz ℝ)).r ∧
    (Srgb.from_Xyz (Xyz.from_rgb ⟨v, v, v⟩ XyzKind.D65 : Xyz ℝ)).r
      ≤ (Srgb.from_Xyz (Xyz.from_rgb ⟨v, v, v⟩ XyzKind.D65 : Xyz ℝ)).b ∧
    (Srgb.from_Xyz (Xyz.from_rgb ⟨v, v, v⟩ XyzKind.D65 : Xyz ℝ)).b
      ≤ (Srgb.from_Xyz (Xyz.from_rgb ⟨v, v, v⟩ XyzKind.D65 : Xyz ℝ)).g ∧
    (Srgb.from_Xyz (Xyz.from_rgb ⟨v, v, v⟩ XyzKind.D65 : Xyz ℝ)).g
      ≤ (1 + 72 / 10 ^ 8) * (Srgb.from_Xyz (Xyz.from_rgb ⟨v, v, v⟩ XyzKind.D65 : Xyz ℝ)).r := by
  obtain ⟨e, t0, t1⟩ := grey_level v hv
  obtain ⟨lo, hi⟩ := dec_avoids_srgb_threshold v
  rw [e, srgb_from_xyz_def]
  generalize decSrgb ((v : ℝ) / 255) = t at *
  simp only [Props.C11_cie.greyXyz]
  obtain ⟨o1, o2, rel, lb, ub⟩ := grey_args_srgb t t0
  set xr := dot C.RX65 (95047 / 100000 * t) (10000001 / 10000000 * t) (108883 / 100000 * t)
  set xg := dot C.RY65 (95047 / 100000 * t) (10000001 / 10000000 * t) (108883 / 100000 * t)
  set xb := dot C.RZ65 (95047 / 100000 * t) (10000001 / 10000000 * t) (108883 / 100000 * t)
  have hxr : 0 ≤ xr := by linarith
  rcases Nat.lt_or_ge v 11 with h | h
  · have hs : xg ≤ 0.0031308 := by have := lo (Nat.lt_succ_iff.mp h); linarith
    have el : ∀ y, y ≤ 0.0031308 → encSrgb y = 12.92 * y := by
      intro y hy; unfold encSrgb; rw [if_pos hy]
    rw [el xr (by linarith), el xg hs, el xb (by linarith)]
    refine ⟨by positivity, by linarith, by linarith, ?_⟩
    nlinarith
  · have hs : 0.00313081 ≤ xr := by have := hi h; linarith
    have eh : ∀ y, 0.00313081 ≤ y → encSrgb y = 1.055 * y ^ ((1:ℝ) / 2.4) - 0.055 := by
      intro y hy; unfold encSrgb; rw [if_neg (by linarith)]
    have hl : (0.04 : ℝ) ≤ 1.055 * xr ^ ((1:ℝ) / 2.4) - 0.055 := by
      have : (0.0904 : ℝ) ≤ xr ^ ((1:ℝ) / 2.4) := by
        rw [e24]
        exact le_rpow_div 5 12 (by norm_num) hxr (by norm_num)
          (le_trans (by norm_num) (pow_le_pow_left₀ (by norm_num) hs 5))
      linarith
    obtain ⟨⟨b1, b2⟩, d, n⟩ := pow_branch (A := 1.055) (B := 0.055) (p := 1 / 2.4) (c0 := 0.04) (ε := 3e-7)
      (by norm_num) (by norm_num) (by norm_num) (by norm_num) (by linarith : 0 < xr) o1 o2 (by norm_num)
      rel (by norm_num) hl
    rw [eh xr hs, eh xg (by linarith), eh xb (by linarith)]
    refine ⟨n, b1, b2, ?_⟩
    have : (3e-7 : ℝ) * (1 + 0.055 / 0.04) ≤ 72 / 10 ^ 8 := by norm_num
    nlinarith

open Lemmas.OkLabF2 in
/-- **OkLab of an 8-bit grey**: `|a| ≤ 4e-7`, `|b| ≤ 3e-7` -/
theorem oklab_grey (v : ℕ) (hv : v ≤ 255) :
    |(OkLab.from_Xyz (Xyz.from_rgb ⟨v, v, v⟩ XyzKind.D65 : Xyz ℝ)).a| ≤ 4e-7 ∧
    |(OkLab.from_Xyz (Xyz.from_rgb ⟨v, v, v⟩ XyzKind.D65 : Xyz ℝ)).b| ≤ 3e-7 := by
  obtain ⟨r0, rb, bg, gr⟩ := srgb_grey_order v hv
  obtain ⟨s1, _, _⟩ := forward_srgb_tight ⟨v, v, v⟩ hv hv hv
  have hv1 : (v : ℝ) / 255 ≤ 1 := by
    have : (v : ℝ) ≤ 255 := by exact_mod_cast hv
    rw [div_le_one (by norm_num)]; exact this
  have u1 := (abs_le.mp s1).2
  have e : OkLab.from_Xyz (Xyz.from_rgb ⟨v, v, v⟩ XyzKind.D65 : Xyz ℝ)
      = OkLab.from_Srgb (Srgb.from_Xyz (Xyz.from_rgb ⟨v, v, v⟩ XyzKind.D65 : Xyz ℝ)) := rfl
  rw [e, (oklab_ab_eq _).1, (oklab_ab_eq _).2]
  exact ok_ab_grey (p22_nonneg _) (p22_mono rb) (p22_mono bg) (p22_rel r0 gr)
    (Lemmas.DerivedF2.p22_le (by dsimp only at u1; norm_num at u1 ⊢; linarith))

/-! ## Rec.2100: the code's forward PQ curve on nearly equal arguments -/

theorem em2 : (1 : ℝ) / m2 = ((32 : ℕ) : ℝ) / ((2523 : ℕ) : ℝ) := by unfold m2; norm_num

set_option exponentiation.threshold 3000 in
/-- `E^(1/m2) ≥ 0.9` for `E ≥ 3e-4` (so `E^(1/m2) − c1 ≥ 0.064 > 0`: the `max(·, 0)` of the curve is inactive) -/
theorem pq_s_lb {E : ℝ} (hE : 3e-4 ≤ E) : (9 / 10 : ℝ) ≤ E ^ (1 / m2) := by
  rw [em2]
  refine le_rpow_div 32 2523 (by norm_num) (by linarith) (by norm_num) ?_
  calc ((9:ℝ) / 10) ^ 2523 ≤ (3e-4 : ℝ) ^ 32 := by norm_num
    _ ≤ E ^ 32 := pow_le_pow_left₀ (by norm_num) hE 32

/-- the rational part of the code's forward PQ curve -/
noncomputable def pqH (s : ℝ) : ℝ := (s - c1) / ((c2 - c3) * s)

theorem pq_closed {E : ℝ} (hE : 3e-4 ≤ E) : F64.pq_eotf E = 10000 * (pqH (E ^ (1 / m2))) ^ (1 / m1) := by
  have hs := pq_s_lb hE
  have hk : (c2 - c3 : ℝ) = 21 / 128 := by unfold c2 c3; norm_num
  have hc1 : (c1 : ℝ) = 107 / 128 := by unfold c1; norm_num
  rw [pq_forward_characterisation E (by linarith), if_neg (by rw [hk]; positivity),
    max_eq_left (by rw [hc1]; linarith)]
  rfl

/-- `pqH` is increasing on `s ≥ 0.9`, and a relative rise of `3.9e-6` of `s` raises it by at most `6e-5` relative -/
theorem pqH_mono {s1 s2 : ℝ} (h1 : 9 / 10 ≤ s1) (h12 : s1 ≤ s2) (hrel : s2 ≤ (1 + 39 / 10 ^ 7) * s1) :
    0 < pqH s1 ∧ pqH s1 ≤ pqH s2 ∧ pqH s2 ≤ (1 + 6 / 10 ^ 5) * pqH s1 := by
  have hk : (c2 - c3 : ℝ) = 21 / 128 := by unfold c2 c3; norm_num
  have hc1 : (c1 : ℝ) = 107 / 128 := by unfold c1; norm_num
  unfold pqH
  rw [hk, hc1]
  have p1 : (0:ℝ) < 21 / 128 * s1 := by positivity
  have p2 : (0:ℝ) < 21 / 128 * s2 := by have : 0 < s2 := by linarith
                                        positivity
  refine ⟨div_pos (by linarith) p1, ?_, ?_⟩
  · rw [div_le_div_iff₀ p1 p2]; nlinarith
  · rw [← mul_div_assoc, div_le_div_iff₀ p2 p1]
    have hn : s2 - 107 / 128 ≤ (1 + 6 / 10 ^ 5) * (s1 - 107 / 128) := by linarith
    have hpos : 0 ≤ (1 + 6 / 10 ^ 5) * (s1 - 107 / 128) := by
      have : (0:ℝ) ≤ s1 - 107 / 128 := by linarith
      positivity
    calc (s2 - 107 / 128) * (21 / 128 * s1)
        ≤ ((1 + 6 / 10 ^ 5) * (s1 - 107 / 128)) * (21 / 128 * s1) :=
          mul_le_mul_of_nonneg_right hn p1.le
      _ ≤ ((1 + 6 / 10 ^ 5) * (s1 - 107 / 128)) * (21 / 128 * s2) :=
          mul_le_mul_of_nonneg_left (by linarith) hpos

/-- the code's forward PQ curve on `3e-4 ≤ u ≤ x ≤ w`, `w ≤ (1 + 3e-4)·u`: increasing, spread ≤ 4.3e-4 relative -/
theorem pq_sandwich {u x w : ℝ} (hu : 3e-4 ≤ u) (hux : u ≤ x) (hxw : x ≤ w) (hrel : w ≤ (1 + 3e-4) * u) :
    (F64.pq_eotf u ≤ F64.pq_eotf x ∧ F64.pq_eotf x ≤ F64.pq_eotf w) ∧
    F64.pq_eotf w - F64.pq_eotf u ≤ 2e-3 * F64.pq_eotf u ∧ 0 ≤ F64.pq_eotf u := by
  have hp0 : (0:ℝ) ≤ 1 / m2 := by unfold m2; norm_num
  have hp1 : (1:ℝ) / m2 ≤ 1 := by unfold m2; norm_num
  have hq0 : (0:ℝ) ≤ 1 / m1 := by unfold m1; norm_num
  have hu0 : (0:ℝ) < u := by linarith
  have hx0 : (0:ℝ) < x := by linarith
  -- s = E^(1/m2)
  have su := pq_s_lb hu
  have s_ux : u ^ (1 / m2) ≤ x ^ (1 / m2) := Real.rpow_le_rpow hu0.le hux hp0
  have s_xw : x ^ (1 / m2) ≤ w ^ (1 / m2) := Real.rpow_le_rpow hx0.le hxw hp0
  have s_rel : ∀ y, u ≤ y → y ≤ w → y ^ (1 / m2) ≤ (1 + 39 / 10 ^ 7) * u ^ (1 / m2) := by
    intro y _ hyw
    have h1 : y ^ (1 / m2) ≤ ((1 + 3e-4) * u) ^ (1 / m2) :=
      Real.rpow_le_rpow (by linarith) (hyw.trans hrel) hp0
    rw [Real.mul_rpow (by norm_num) hu0.le] at h1
    have h2 : ((1:ℝ) + 3e-4) ^ (1 / m2) ≤ 1 + 1 / m2 * 3e-4 :=
      rpow_one_add_le_one_add_mul_self (by norm_num) hp0 hp1
    have h3 : (1:ℝ) + 1 / m2 * 3e-4 ≤ 1 + 39 / 10 ^ 7 := by unfold m2; norm_num
    have h4 : 0 ≤ u ^ (1 / m2) := by linarith
    calc y ^ (1 / m2) ≤ ((1:ℝ) + 3e-4) ^ (1 / m2) * u ^ (1 / m2) := h1
      _ ≤ (1 + 39 / 10 ^ 7) * u ^ (1 / m2) := mul_le_mul_of_nonneg_right (h2.trans h3) h4
  obtain ⟨hpos, hx1, hx2⟩ := pqH_mono su s_ux (s_rel x hux hxw)
  obtain ⟨_, hw1, hw2⟩ := pqH_mono su (s_ux.trans s_xw) (s_rel w (hux.trans hxw) le_rfl)
  obtain ⟨_, hxw1, _⟩ := pqH_mono (su.trans s_ux) s_xw
    ((s_rel w (hux.trans hxw) le_rfl).trans (mul_le_mul_of_nonneg_left s_ux (by norm_num)))
  rw [pq_closed hu, pq_closed (hu.trans hux), pq_closed (hu.trans (hux.trans hxw))]
  set a := pqH (u ^ (1 / m2)) with ha
  set b := pqH (x ^ (1 / m2)) with hb
  set c := pqH (w ^ (1 / m2)) with hc
  have pa : 0 ≤ a ^ (1 / m1) := Real.rpow_nonneg hpos.le _
  have ab : a ^ (1 / m1) ≤ b ^ (1 / m1) := Real.rpow_le_rpow hpos.le hx1 hq0
  have bc : b ^ (1 / m1) ≤ c ^ (1 / m1) := Real.rpow_le_rpow (hpos.le.trans hx1) hxw1 hq0
  have ca : c ^ (1 / m1) ≤ (1 + 43 / 10 ^ 5) * a ^ (1 / m1) := by
    have h1 : c ^ (1 / m1) ≤ ((1 + 6 / 10 ^ 5) * a) ^ (1 / m1) :=
      Real.rpow_le_rpow (hpos.le.trans hw1) hw2 hq0
    rw [Real.mul_rpow (by norm_num) hpos.le] at h1
    have h2 : ((1:ℝ) + 6 / 10 ^ 5) ^ (1 / m1) ≤ ((1:ℝ) + 6 / 10 ^ 5) ^ ((7 : ℕ) : ℝ) :=
      Real.rpow_le_rpow_of_exponent_le (by norm_num) (by unfold m1; norm_num)
    rw [Real.rpow_natCast] at h2
    have h3 : ((1:ℝ) + 6 / 10 ^ 5) ^ 7 ≤ 1 + 43 / 10 ^ 5 := by norm_num
    calc c ^ (1 / m1) ≤ ((1:ℝ) + 6 / 10 ^ 5) ^ (1 / m1) * a ^ (1 / m1) := h1
      _ ≤ (1 + 43 / 10 ^ 5) * a ^ (1 / m1) := mul_le_mul_of_nonneg_right (h2.trans h3) pa
  refine ⟨⟨by linarith, by linarith⟩, ?_, by positivity⟩
  have h5 : c ^ (1 / m1) - a ^ (1 / m1) ≤ 43 / 10 ^ 5 * a ^ (1 / m1) := by linarith
  have h6 : (43 / 10 ^ 5 : ℝ) * a ^ (1 / m1) ≤ 2e-3 * a ^ (1 / m1) :=
    mul_le_mul_of_nonneg_right (by norm_num) pa
  linarith

/-- Rec.2100 channels of a grey -/
theorem rec2100_grey (v : ℕ) (hv : v ≤ 255) :
    Eq3 (Rec2100.from_Xyz (Xyz.from_rgb ⟨v, v, v⟩ XyzKind.D65 : Xyz ℝ)).r
      (Rec2100.from_Xyz (Xyz.from_rgb ⟨v, v, v⟩ XyzKind.D65 : Xyz ℝ)).g
      (Rec2100.from_Xyz (Xyz.from_rgb ⟨v, v, v⟩ XyzKind.D65 : Xyz ℝ)).b := by
  obtain ⟨e, t0, t1⟩ := grey_level v hv
  rw [e, rec2100_from_xyz_def]
  rcases Nat.eq_zero_or_pos v with rfl | hpos
  · have z : decSrgb (((0 : ℕ) : ℝ) / 255) = 0 := by unfold decSrgb; norm_num
    have h0 : F64.pq_eotf (0 : ℝ) = 0 := by
      rw [pq_forward_characterisation 0 le_rfl, if_pos]
      rw [Real.zero_rpow (by unfold m2; norm_num)]; ring
    rw [z]
    simp only [Props.C11_cie.greyXyz, dot, mul_zero, zero_mul, add_zero, h0]
    exact eq3_zero
  · have hgap := Lemmas.LightnessF2.srgb_dec_level_gap hpos
    rw [srgb_decode_is_iec, srgb_decode_is_iec] at hgap
    have z : decSrgb (((0 : ℕ) : ℝ) / 255) = 0 := by unfold decSrgb; norm_num
    rw [z] at hgap
    generalize decSrgb ((v : ℝ) / 255) = t at *
    simp only [Props.C11_cie.greyXyz]
    obtain ⟨o1, o2, rel, lb, ub⟩ := grey_args_2020 t t0
    have hu : (3e-4 : ℝ) ≤ dot C.XB (95047 / 100000 * t) (10000001 / 10000000 * t) (108883 / 100000 * t) := by
      norm_num at hgap ⊢; linarith
    have hrel' : dot C.rec2020_XR (95047 / 100000 * t) (10000001 / 10000000 * t) (108883 / 100000 * t)
        ≤ (1 + 3e-4) * dot C.XB (95047 / 100000 * t) (10000001 / 10000000 * t) (108883 / 100000 * t) := by
      linarith
    obtain ⟨⟨a1, a2⟩, d, n⟩ := pq_sandwich hu (o1.trans o2) le_rfl hrel'
    obtain ⟨⟨b1, b2⟩, _, _⟩ := pq_sandwich hu o1 o2 hrel'
    obtain ⟨⟨c1', c2'⟩, _, _⟩ := pq_sandwich hu le_rfl (o1.trans o2) hrel'
    exact eq3_of_sandwich n ⟨a1, a2⟩ ⟨b1, b2⟩ ⟨c1', c2'⟩ (by linarith)

end Lemmas.GreyF2
