import LymuiVerif.Lemmas.FpDefinedLuv
import LymuiVerif.Props.C14_fp
/-!
# Definedness in the rounded model (C04 in floating point): back to XYZ through LCh(uv) and HCL

The polar detour recomputes `u'' = c·cos h`, `v'' = c·sin h` from the computed chroma and hue.  By `Props.C14` (`*_fp`
theorems: chroma within `6e-16` relative, hue within `1e-12` up to whole turns, reverse within `1.1e-14·c`) `v''` is
within `4e-14·chroma` of the CIELUV `v`, far inside the tolerance `13·l·1e-10` of `xyz_from_luv_near`.  For black the
chroma is exactly `0`, hence `u'' = 0` and the guard `u == 0 && l == 0` of `Xyz::from(Luv)` fires.
-/
set_option linter.unusedSimpArgs false
set_option linter.unusedVariables false
namespace Lemmas.FpDefined
open Gen Props.C14
variable {M : FPModel}

theorem chroma_le (u v : ℝ) : chroma u v ≤ |u| + |v| := by
  unfold chroma
  rw [show |u| + |v| = Real.sqrt ((|u| + |v|) ^ 2) by rw [Real.sqrt_sq (by positivity)]]
  apply Real.sqrt_le_sqrt
  have : (|u| + |v|) ^ 2 = u ^ 2 + v ^ 2 + 2 * (|u| * |v|) := by
    rw [add_sq, sq_abs, sq_abs]; ring
  rw [this]; nlinarith [abs_nonneg u, abs_nonneg v, mul_nonneg (abs_nonneg u) (abs_nonneg v)]

/-- the recomputed `v''` of a polar detour -/
theorem polar_back {u v c h w : ℝ} (k : ℤ) (hc0 : 0 ≤ c)
    (hc : |c - chroma u v| ≤ 6e-16 * chroma u v + 1e-100)
    (hh : |h - (hueDeg u v + 360 * k)| ≤ 1e-12)
    (hw : |w - c * Real.sin (h * Real.pi / 180)| ≤ 1.1e-14 * c + 1e-240) :
    |w - v| ≤ 4e-14 * chroma u v + 3e-100 := by
  have hC0 : 0 ≤ chroma u v := Real.sqrt_nonneg _
  have ev : chroma u v * Real.sin ((hueDeg u v + 360 * k) * Real.pi / 180) = v := by
    unfold chroma hueDeg; exact (Lemmas.Polar.cos_sin_polar u v k).2
  set Cc := chroma u v with hCc
  set α := h * Real.pi / 180
  set β := (hueDeg u v + 360 * k) * Real.pi / 180
  have hab : |α - β| ≤ 2.3e-14 := by
    have e : α - β = (h - (hueDeg u v + 360 * k)) * (Real.pi / 180) := by simp only [α, β]; ring
    rw [e, abs_mul, abs_of_pos (by positivity : (0 : ℝ) < Real.pi / 180)]
    have hp : Real.pi / 180 ≤ 4 / 180 := by
      apply div_le_div_of_nonneg_right Real.pi_le_four (by norm_num)
    calc |h - (hueDeg u v + 360 * k)| * (Real.pi / 180) ≤ 1e-12 * (4 / 180) :=
          mul_le_mul hh hp (by positivity) (by norm_num)
      _ ≤ 2.3e-14 := by norm_num
  have hs := Real.abs_sin_sub_sin_le α β
  have h1 : |c * Real.sin α - Cc * Real.sin β| ≤ |c - Cc| + Cc * |α - β| := by
    have e : c * Real.sin α - Cc * Real.sin β = (c - Cc) * Real.sin α + Cc * (Real.sin α - Real.sin β) := by ring
    rw [e]
    refine le_trans (abs_add_le _ _) ?_
    rw [abs_mul, abs_mul, abs_of_nonneg hC0]
    have := Real.abs_sin_le_one α
    have a1 : |c - Cc| * |Real.sin α| ≤ |c - Cc| * 1 := mul_le_mul_of_nonneg_left this (abs_nonneg _)
    have a2 : Cc * |Real.sin α - Real.sin β| ≤ Cc * |α - β| := mul_le_mul_of_nonneg_left hs hC0
    linarith
  have hcu : c ≤ 1.001 * Cc + 1e-100 := by
    have := (abs_le.mp hc).2; norm_num at this ⊢; linarith
  have h2 : Cc * |α - β| ≤ Cc * 2.3e-14 := mul_le_mul_of_nonneg_left hab hC0
  rw [← ev]
  have tri := abs_sub_le w (c * Real.sin α) (Cc * Real.sin β)
  norm_num at *
  linarith

/-- bounds on the CIELUV of a non-black colour in terms of `t = 13·l` computed -/
theorem luv_uv_bound (p : Xyz (RF M)) (h : Cone p) :
    3 / 10 ^ 3 ≤ (Flt.lit 0x402A000000000000 13 1 * (Luv.from_Xyz p).l : RF M).val ∧
    |(Luv.from_Xyz p).u.val| ≤ 3 * (Flt.lit 0x402A000000000000 13 1 * (Luv.from_Xyz p).l : RF M).val ∧
    |(Luv.from_Xyz p).v.val| ≤ 3 * (Flt.lit 0x402A000000000000 13 1 * (Luv.from_Xyz p).l : RF M).val := by
  have hL := luv_l_lower p h
  have e16 : FP.eps = 1.2e-16 := rfl
  have ht : 3 / 10 ^ 3 ≤ (Flt.lit 0x402A000000000000 13 1 * (Luv.from_Xyz p).l : RF M).val := by
    rw [FltRF.mul_val, lit_int_val _ 13 (by norm_num)]
    have := rnd_half (M := M) (x := ((13 : ℕ) : ℝ) * (Luv.from_Xyz p).l.val) (by push_cast; norm_num at hL ⊢; linarith)
    push_cast at this ⊢; norm_num at hL ⊢; linarith
  obtain ⟨⟨a1, a2⟩, ⟨c1, c2⟩⟩ := compounds_range p.x p.y p.z h.x0 (le_trans (by norm_num) h.y0) h.z0 h.xy h.zy
  obtain ⟨⟨b1, b2⟩, ⟨w1, w2⟩⟩ := compounds_white_range (M := M)
  obtain ⟨eu, ev⟩ := luv_form p
  have bound : ∀ (a b : RF M), 0 ≤ a.val → a.val ≤ 1 → 0 ≤ b.val → b.val ≤ 1 →
      |((Flt.lit 0x402A000000000000 13 1 * (Luv.from_Xyz p).l) * (a - b) : RF M).val| ≤
        3 * (Flt.lit 0x402A000000000000 13 1 * (Luv.from_Xyz p).l : RF M).val := by
    intro a b ha0 ha1 hb0 hb1
    rw [FltRF.mul_val, FltRF.sub_val]
    generalize (Flt.lit 0x402A000000000000 13 1 * (Luv.from_Xyz p).l : RF M).val = t at *
    have ht0 : 0 ≤ t := le_trans (by norm_num) ht
    have hab : |a.val - b.val| ≤ 1 := by rw [abs_le]; constructor <;> linarith
    have r1 := abs_le.mp (FpErr.rnd_abs M hab (by norm_num))
    rw [e16] at r1
    have hd : |M.rnd (a.val - b.val)| ≤ 2 := by
      obtain ⟨h1, h2⟩ := abs_le.mp hab
      rw [abs_le]; constructor <;> norm_num at * <;> linarith
    have hprod : |t * M.rnd (a.val - b.val)| ≤ 2 * t := by
      rw [abs_mul, abs_of_nonneg ht0]; nlinarith [abs_nonneg (M.rnd (a.val - b.val))]
    have r2 := abs_le.mp (FpErr.rnd_abs M hprod (by norm_num at ht ⊢; linarith))
    rw [e16] at r2
    obtain ⟨h1, h2⟩ := abs_le.mp hprod
    rw [abs_le]; constructor <;> norm_num at * <;> linarith
  refine ⟨ht, ?_, ?_⟩
  · rw [eu]; exact bound _ _ a1 a2 b1 b2
  · rw [ev]; exact bound _ _ (le_trans (by norm_num) c1) c2 (le_trans (by norm_num) w1) w2

/-- chroma of `u = v = 0` is exactly `0` (both spellings) -/
theorem chroma_powi_zero (a b : RF M) (ha : a.val = 0) (hb : b.val = 0) :
    (Flt.sqrt (Flt.powi a 2 + Flt.powi b 2) : RF M).val = 0 := by
  simp only [FltRF.sqrt_val, FltRF.add_val, FltRF.powi_val, FpPolar.powi_two, ha, hb, mul_zero, FpErr.rnd_zero,
    add_zero, Real.sqrt_zero]
theorem chroma_mul_zero (a b : RF M) (ha : a.val = 0) (hb : b.val = 0) :
    (Flt.sqrt (a * a + b * b) : RF M).val = 0 := by
  simp only [FltRF.sqrt_val, FltRF.add_val, FltRF.mul_val, ha, hb, mul_zero, FpErr.rnd_zero,
    add_zero, Real.sqrt_zero]

theorem lchuv_c (p : Xyz (RF M)) :
    (Lchuv.from_Xyz p).c = Flt.sqrt (Flt.powi (Luv.from_Xyz p).u 2 + Flt.powi (Luv.from_Xyz p).v 2) := by
  unfold Lchuv.from_Xyz; dsimp only; split_ifs <;> rfl

/-- **XYZ → LCh(uv) → XYZ** -/
theorem xyz_from_lchuv_image (p : Xyz (RF M)) (hp : (p.x.val = 0 ∧ p.y.val = 0 ∧ p.z.val = 0) ∨ Cone p) :
    Xyz.from_Lchuv (liftLchuv (Lchuv.from_Xyz p)) = liftXyz (Xyz.from_Lchuv (Lchuv.from_Xyz p)) := by
  unfold Xyz.from_Lchuv
  rw [luv_from_lchuv]
  obtain ⟨el, hcs⟩ := lchuv_chroma_sharp_fp M p
  have hc0 : 0 ≤ (Lchuv.from_Xyz p).c.val := by
    rw [lchuv_c, FltRF.sqrt_val]; exact FpErr.rnd_nonneg M (Real.sqrt_nonneg _)
  obtain ⟨hh0, hh1⟩ := lchuv_hue_range_fp M p
  obtain ⟨rl, ru, rv⟩ := lchuv_reverse_sharp_fp M (Lchuv.from_Xyz p) hc0 hh0 hh1
  refine xyz_from_luv_near p _ (rl.trans el) hp (fun hz => ?_) (fun hcone => ?_)
  · -- black: chroma 0, so u'' = rnd (0 * cos) = 0
    obtain ⟨u0, v0⟩ := FpGrey.luv_black_fp M hz.2.1
    have c0 : (Lchuv.from_Xyz p).c.val = 0 := by rw [lchuv_c]; exact chroma_powi_zero _ _ u0 v0
    simp only [Luv.from_Lchuv, FltRF.mul_val, c0, zero_mul, FpErr.rnd_zero]
  · obtain ⟨ht, bu, bv⟩ := luv_uv_bound p hcone
    obtain ⟨k, -, hk⟩ := lchuv_hue_mod_fp M p
    have hk' : ∃ k' : ℤ, |(Lchuv.from_Xyz p).h.val -
        (hueDeg (Luv.from_Xyz p).u.val (Luv.from_Xyz p).v.val + 360 * k')| ≤ 1e-12 := by
      split_ifs at hk
      · exact ⟨k, hk⟩
      · refine ⟨k + 1, ?_⟩
        have e : hueDeg (Luv.from_Xyz p).u.val (Luv.from_Xyz p).v.val + 360 * ((k + 1 : ℤ) : ℝ) =
            hueDeg (Luv.from_Xyz p).u.val (Luv.from_Xyz p).v.val + 360 + 360 * (k : ℝ) := by push_cast; ring
        rw [e]; exact hk
    obtain ⟨k', hk'⟩ := hk'
    have pb := polar_back k' hc0 hcs hk' rv
    have cl := chroma_le (Luv.from_Xyz p).u.val (Luv.from_Xyz p).v.val
    generalize (Flt.lit 0x402A000000000000 13 1 * (Luv.from_Xyz p).l : RF M).val = t at *
    refine le_trans pb ?_
    norm_num at *; linarith

/-- **XYZ → HCL → XYZ** -/
theorem xyz_from_hcl_image (p : Xyz (RF M)) (hp : (p.x.val = 0 ∧ p.y.val = 0 ∧ p.z.val = 0) ∨ Cone p) :
    Xyz.from_Hcl (liftHcl (Hcl.from_Xyz p)) = liftXyz (Xyz.from_Hcl (Hcl.from_Xyz p)) := by
  unfold Xyz.from_Hcl
  rw [luv_from_hcl]
  have eH : Hcl.from_Xyz p = Hcl.from_Luv (Luv.from_Xyz p) := rfl
  obtain ⟨el, hcs⟩ := hcl_chroma_sharp_fp M (Luv.from_Xyz p)
  have hc0 : 0 ≤ (Hcl.from_Luv (Luv.from_Xyz p)).c.val := by
    simp only [Hcl.from_Luv, FltRF.sqrt_val]; exact FpErr.rnd_nonneg M (Real.sqrt_nonneg _)
  obtain ⟨hh0, hh1⟩ := hcl_hue_range_fp M (Luv.from_Xyz p)
  obtain ⟨rl, ru, rv⟩ := hcl_reverse_sharp_fp M (Hcl.from_Luv (Luv.from_Xyz p)) hc0 hh0 hh1
  rw [eH]
  refine xyz_from_luv_near p _ (rl.trans el) hp (fun hz => ?_) (fun hcone => ?_)
  · obtain ⟨u0, v0⟩ := FpGrey.luv_black_fp M hz.2.1
    have c0 : (Hcl.from_Luv (Luv.from_Xyz p)).c.val = 0 := by
      simp only [Hcl.from_Luv]; exact chroma_mul_zero _ _ u0 v0
    simp only [Luv.from_Hcl, FltRF.mul_val, c0, zero_mul, FpErr.rnd_zero]
  · obtain ⟨ht, bu, bv⟩ := luv_uv_bound p hcone
    obtain ⟨k, -, hk⟩ := hcl_hue_mod_fp M (Luv.from_Xyz p)
    have hk' : ∃ k' : ℤ, |(Hcl.from_Luv (Luv.from_Xyz p)).h.val -
        (hueDeg (Luv.from_Xyz p).u.val (Luv.from_Xyz p).v.val + 360 * k')| ≤ 1e-12 := by
      split_ifs at hk
      · refine ⟨k + 1, ?_⟩
        have e : hueDeg (Luv.from_Xyz p).u.val (Luv.from_Xyz p).v.val + 360 * ((k + 1 : ℤ) : ℝ) =
            hueDeg (Luv.from_Xyz p).u.val (Luv.from_Xyz p).v.val + 360 + 360 * (k : ℝ) := by push_cast; ring
        rw [e]; exact hk
      · exact ⟨k, hk⟩
    obtain ⟨k', hk'⟩ := hk'
    have pb := polar_back k' hc0 hcs hk' rv
    have cl := chroma_le (Luv.from_Xyz p).u.val (Luv.from_Xyz p).v.val
    generalize (Flt.lit 0x402A000000000000 13 1 * (Luv.from_Xyz p).l : RF M).val = t at *
    refine le_trans pb ?_
    norm_num at *; linarith

end Lemmas.FpDefined
