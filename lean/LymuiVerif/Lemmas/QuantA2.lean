import LymuiVerif.Inst.Real
/-!
# Quantiser lemmas (round-half-away, `as u8`, `%`) on the exact-real instance
-/
namespace QuantA2

theorem roundHA_nonneg {x : ℝ} (h : 0 ≤ x) : Real.roundHA x = (⌊x + 1 / 2⌋ : ℝ) := by
  simp [Real.roundHA, h]

theorem roundHA_natCast (n : ℕ) : Real.roundHA (n : ℝ) = n := by
  rw [roundHA_nonneg (Nat.cast_nonneg n)]
  have : ⌊(n : ℝ) + 1 / 2⌋ = (n : ℤ) := by
    rw [Int.floor_eq_iff]; constructor <;> push_cast <;> linarith
  rw [this]; simp

/-- a non-negative real rounds to a natural number within one half -/
theorem roundHA_nat {x : ℝ} (h : 0 ≤ x) :
    ∃ k : ℕ, Real.roundHA x = k ∧ (k : ℝ) ≤ x + 1 / 2 ∧ x - 1 / 2 < k := by
  rw [roundHA_nonneg h]
  have h0 : 0 ≤ ⌊x + 1 / 2⌋ := Int.floor_nonneg.mpr (by linarith)
  obtain ⟨k, hk⟩ := Int.eq_ofNat_of_zero_le h0
  refine ⟨k, by rw [hk]; simp, ?_, ?_⟩
  · have := Int.floor_le (x + 1 / 2); rw [hk] at this; simpa using this
  · have := Int.lt_floor_add_one (x + 1 / 2); rw [hk] at this
    have h2 : x + 1 / 2 < (k : ℝ) + 1 := by simpa using this
    linarith

theorem roundHA_abs_le {x : ℝ} (h : 0 ≤ x) : |Real.roundHA x - x| ≤ 1 / 2 := by
  obtain ⟨k, hk, h1, h2⟩ := roundHA_nat h
  rw [hk, abs_le]; constructor <;> linarith

/-- `as u8` is `min 255 ⌊x⌋₊` for every real -/
theorem toU8_eq_min (x : ℝ) : Real.toU8 x = min 255 ⌊x⌋₊ := by
  unfold Real.toU8
  split_ifs with h1 h2
  · simp [Nat.floor_of_nonpos h1]
  · have : 255 ≤ ⌊x⌋₊ := Nat.le_floor (by simpa using h2)
    simp [this]
  · rw [not_le] at h1 h2
    have : ⌊x⌋₊ < 255 := (Nat.floor_lt h1.le).mpr (by simpa using h2)
    omega

theorem toU8_le (x : ℝ) : Real.toU8 x ≤ 255 := by
  rw [toU8_eq_min]; exact min_le_left _ _

theorem toU8_natCast {n : ℕ} (h : n ≤ 255) : Real.toU8 (n : ℝ) = n := by
  rw [toU8_eq_min]; simp [h]

/-- window lemma: `a ≤ x < b + 1` with `b ≤ 255` gives `a ≤ (x as u8) ≤ b` -/
theorem toU8_bounds {x : ℝ} {a b : ℕ} (ha : (a : ℝ) ≤ x) (hb : x < (b : ℝ) + 1) (hb' : b ≤ 255) :
    a ≤ Real.toU8 x ∧ Real.toU8 x ≤ b := by
  rw [toU8_eq_min]
  have hx : 0 ≤ x := le_trans (Nat.cast_nonneg a) ha
  have h1 : a ≤ ⌊x⌋₊ := Nat.le_floor ha
  have h2 : ⌊x⌋₊ < b + 1 := (Nat.floor_lt hx).mpr (by push_cast; exact hb)
  omega

/-- upper half of the window lemma without a lower bound (saturation at 0) -/
theorem toU8_le_of_lt {x : ℝ} {b : ℕ} (hb : x < (b : ℝ) + 1) : Real.toU8 x ≤ b := by
  rw [toU8_eq_min]
  rcases le_or_gt x 0 with h | h
  · simp [Nat.floor_of_nonpos h]
  · have h2 : ⌊x⌋₊ < b + 1 := (Nat.floor_lt h.le).mpr (by push_cast; exact hb)
    omega

theorem truncZ_nonneg {x : ℝ} (h : 0 ≤ x) : Real.truncZ x = ⌊x⌋ := by
  simp [Real.truncZ, h]

/-- `f64 % 360` of a whole number in `0..=360` -/
theorem rem360 {k : ℕ} (hk : k ≤ 360) :
    (Flt.rem (k : ℝ) (360 : ℝ)) = ((k % 360 : ℕ) : ℝ) := by
  rw [FltReal.rem_eq, truncZ_nonneg (by positivity)]
  rcases Nat.lt_or_eq_of_le hk with h | h
  · have : ⌊(k : ℝ) / 360⌋ = 0 := by
      rw [Int.floor_eq_iff]; constructor
      · simp; positivity
      · have : (k : ℝ) < 360 := by exact_mod_cast h
        simp; linarith
    rw [this, Nat.mod_eq_of_lt h]; simp
  · subst h; norm_num

end QuantA2
