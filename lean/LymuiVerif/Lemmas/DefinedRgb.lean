import LymuiVerif.Lemmas.DefinedCore
/-!
# Definedness (C04): conversions taking an 8-bit `Rgb`

Each lemma `x_bridge` says that on `PR` the conversion of a colour equals the lifted exact-real
conversion: every division is guarded by the code's own test (`min == max`, `0 < max`, `k != 1`), every
power has a positive base on its branch.
-/
set_option linter.unusedSimpArgs false
set_option linter.unusedVariables false
namespace Lemmas.Defined
open Gen


theorem minmax_bridge (c : Rgb) : (Rgb.get_min_max c : PR × PR) = (some (Rgb.get_min_max (α := ℝ) c).1, some (Rgb.get_min_max (α := ℝ) c).2) := by
  simp [Rgb.get_min_max, Rgb.as_f64]

theorem hue_bridge (c : Rgb) : (F64.from_Rgb c : PR) = some (F64.from_Rgb c) := by
  unfold F64.from_Rgb
  rw [minmax_bridge]
  generalize (Rgb.get_min_max (α := ℝ) c) = mm
  obtain ⟨mn, mx⟩ := mm
  simp only [Rgb.as_f64, FltPR.ofNat_eq, FltPR.beq_some, FltReal.beq_eq, FltReal.ofNat_eq, decide_eq_true_eq]
  by_cases h : mn = mx
  · simp [h]
  · have hne : mx - mn ≠ 0 := sub_ne_zero.mpr (Ne.symm h)
    simp only [if_neg h, FltPR.sub_some, FltPR.div_some _ _ hne, FltPR.lit_eq, FltPR.mul_some, FltPR.add_some, FltPR.lt_some, 
      FltPR.round_some, FltReal.lit_eq, FltReal.lt_eq, FltReal.round_eq, FltReal.rem_eq, decide_eq_true_eq]
    have h360 : ((360:ℕ):ℝ) / ((1:ℕ):ℝ) ≠ 0 := by norm_num
    simp only [FltPR.rem_some _ _ h360]
    split_ifs <;> rfl

theorem minmax_facts (c : Rgb) (hr : c.r ≤ 255) (hg : c.g ≤ 255) (hb : c.b ≤ 255) :
    0 ≤ (Rgb.get_min_max (α := ℝ) c).1 ∧ (Rgb.get_min_max (α := ℝ) c).1 ≤ (Rgb.get_min_max (α := ℝ) c).2 ∧
    (Rgb.get_min_max (α := ℝ) c).2 ≤ 255 := by
  have h1 : (c.r : ℝ) ≤ 255 := by exact_mod_cast hr
  have h2 : (c.g : ℝ) ≤ 255 := by exact_mod_cast hg
  have h3 : (c.b : ℝ) ≤ 255 := by exact_mod_cast hb
  have p1 : (0:ℝ) ≤ c.r := Nat.cast_nonneg _
  have p2 : (0:ℝ) ≤ c.g := Nat.cast_nonneg _
  have p3 : (0:ℝ) ≤ c.b := Nat.cast_nonneg _
  simp only [Rgb.get_min_max, Rgb.as_f64, FltReal.ofNat_eq, FltReal.min_eq, FltReal.max_eq]
  refine ⟨le_min p3 (le_min p1 p2), ?_, max_le h3 (max_le h1 h2)⟩
  exact le_trans (min_le_left _ _) (le_max_left _ _)

theorem yuv_bridge (c : Rgb) : (Yuv.from_Rgb c : Yuv PR) = liftYuv (Yuv.from_Rgb c) := by
  simp (disch := positivity) [Yuv.from_Rgb, Rgb.as_f64, liftYuv, FltPR.div_some]

theorem srgb_bridge (c : Rgb) : (Srgb.from_Rgb c : Srgb PR) = liftSrgb (Srgb.from_Rgb c) := by
  simp (disch := positivity) [Srgb.from_Rgb, Rgb.as_f64, liftSrgb, FltPR.div_some, srgb_expand]

theorem argb_bridge (c : Rgb) : (Argb.from_Rgb c : Argb PR) = liftArgb (Argb.from_Rgb c) := by
  simp (disch := positivity) [Argb.from_Rgb, Rgb.as_f64, liftArgb, FltPR.div_some, argb_gamma]

theorem xyz_bridge (c : Rgb) (k : XyzKind) : (Xyz.from_rgb c k : Xyz PR) = liftXyz (Xyz.from_rgb c k) := by
  cases k <;>
  simp [Xyz.from_rgb, srgb_bridge, argb_bridge, Xyz.compute_xyz_from_matrix, liftXyz, liftSrgb, liftArgb, Srgb.as_f64, Argb.as_f64,
    C.X50, C.Y50, C.Z50, C.X65, C.Y65, C.Z65, C.AX, C.AY, C.AZ]

theorem cymk_bridge (c : Rgb) : (Cymk.from_Rgb c : Cymk PR) = liftCymk (Cymk.from_Rgb c) := by
  unfold Cymk.from_Rgb
  rw [minmax_bridge]
  generalize (Rgb.get_min_max (α := ℝ) c) = mm
  obtain ⟨mn, mx⟩ := mm
  have h255 : ((255:ℕ):ℝ) / ((1:ℕ):ℝ) ≠ 0 := by norm_num
  simp only [Rgb.as_f64, FltPR.ofNat_eq, FltPR.lit_eq, FltPR.div_some _ _ h255, FltPR.sub_some, FltPR.beq_some,
    FltReal.beq_eq, FltReal.ofNat_eq, FltReal.lit_eq, decide_eq_true_eq, Bool.not_eq_true', decide_eq_false_iff_not]
  split_ifs with h
  · simp [liftCymk, Cymk.default]
  · have hne : ((1:ℕ):ℝ) / ((1:ℕ):ℝ) - (((1:ℕ):ℝ) / ((1:ℕ):ℝ) - mx / (((255:ℕ):ℝ) / ((1:ℕ):ℝ))) ≠ 0 := by
      intro h0; apply h; linarith
    simp only [FltPR.div_some _ _ hne, liftCymk]

theorem sat_bridge (mn mx l : ℝ) (h0 : 0 ≤ mn) (h1 : mn ≤ mx) (h2 : mx ≤ 1) :
    Hsl.compute_saturation (some mn : PR) (some mx) (some l) = some (Hsl.compute_saturation mn mx l) := by
  unfold Hsl.compute_saturation
  simp only [FltPR.lit_eq, FltPR.lt_some, FltPR.beq_some, FltPR.sub_some, FltPR.add_some, FltReal.lit_eq, FltReal.lt_eq, FltReal.beq_eq,
    decide_eq_true_eq, Bool.not_eq_true', decide_eq_false_iff_not]
  have e1 : ((1:ℕ):ℝ) / ((1:ℕ):ℝ) = 1 := by norm_num
  have e0 : ((0:ℕ):ℝ) / ((1:ℕ):ℝ) = 0 := by norm_num
  have e2 : ((2:ℕ):ℝ) / ((1:ℕ):ℝ) = 2 := by norm_num
  rw [e1, e0, e2]
  have A : mx ≠ 1 → (some (mx - mn) : PR) / some (2 - mx - mn) = some ((mx - mn) / (2 - mx - mn)) := fun h =>
    FltPR.div_some _ _ (by have : mx < 1 := lt_of_le_of_ne h2 h; linarith)
  have A' : mn ≠ 1 → (some (mx - mn) : PR) / some (2 - mx - mn) = some ((mx - mn) / (2 - mx - mn)) := fun h =>
    FltPR.div_some _ _ (by have : mn < 1 := lt_of_le_of_ne (h1.trans h2) h; linarith)
  have B : (mx ≠ 0 ∨ mn ≠ 0) → (some (mx - mn) : PR) / some (mx + mn) = some ((mx - mn) / (mx + mn)) := fun h =>
    FltPR.div_some _ _ (by
      rcases h with h | h
      · have : 0 < mx := lt_of_le_of_ne (h0.trans h1) (Ne.symm h); linarith
      · have : 0 < mn := lt_of_le_of_ne h0 (Ne.symm h); linarith)
  split_ifs with c1 c2 c3 c4 c5 c6 c7 <;>
    first
    | rfl
    | exact A ‹_›
    | exact A' ‹_›
    | exact B (Or.inl ‹_›)
    | exact B (Or.inr ‹_›)

theorem hsl_bridge (c : Rgb) (hr : c.r ≤ 255) (hg : c.g ≤ 255) (hb : c.b ≤ 255) :
    (Hsl.from_Rgb c : Hsl PR) = liftHsl (Hsl.from_Rgb c) := by
  obtain ⟨f0, f1, f2⟩ := minmax_facts c hr hg hb
  unfold Hsl.from_Rgb
  rw [minmax_bridge, hue_bridge]
  generalize (Rgb.get_min_max (α := ℝ) c) = mm at *
  obtain ⟨mn, mx⟩ := mm
  have h255 : ((255:ℕ):ℝ) / ((1:ℕ):ℝ) ≠ 0 := by norm_num
  have h2 : ((2:ℕ):ℝ) / ((1:ℕ):ℝ) ≠ 0 := by norm_num
  simp only [FltPR.lit_eq, FltPR.div_some _ _ h255, FltPR.add_some, FltPR.div_some _ _ h2]
  rw [sat_bridge]
  · simp [liftHsl]
  · exact div_nonneg f0 (by norm_num)
  · exact div_le_div_of_nonneg_right f1 (by norm_num)
  · rw [div_le_one (by norm_num)]; simpa using f2

theorem hsv_bridge (c : Rgb) : (Hsv.from_Rgb c : Hsv PR) = liftHsv (Hsv.from_Rgb c) := by
  unfold Hsv.from_Rgb
  rw [minmax_bridge, hue_bridge]
  generalize (Rgb.get_min_max (α := ℝ) c) = mm
  obtain ⟨mn, mx⟩ := mm
  have h255 : ((255:ℕ):ℝ) / ((1:ℕ):ℝ) ≠ 0 := by norm_num
  simp only [FltPR.lit_eq, FltPR.lt_some, FltPR.sub_some, FltPR.div_some _ _ h255, FltPR.mul_some, FltReal.lit_eq, FltReal.lt_eq,
    decide_eq_true_eq]
  split_ifs with h
  · have : mx ≠ 0 := by intro h0; rw [h0] at h; norm_num at h
    simp only [FltPR.div_some _ _ this, FltPR.mul_some, liftHsv]
  · simp only [liftHsv]

theorem hwb_bridge (c : Rgb) : (Hwb.from_Rgb c : Hwb PR) = liftHwb (Hwb.from_Rgb c) := by
  unfold Hwb.from_Rgb
  rw [hsv_bridge]
  simp (disch := positivity) [liftHsv, liftHwb, FltPR.div_some]

/-! ## Nonnegativity of the XYZ of a colour (exact-real side) -/

theorem srgb_expand_nonneg (v : ℝ) (h : 0 ≤ v) : 0 ≤ F64.compute_srgb_gamma_expanded v := by
  unfold F64.compute_srgb_gamma_expanded
  simp only [FltReal.le_eq, FltReal.lit_eq, FltReal.pow_eq, decide_eq_true_eq]
  split_ifs
  · exact div_nonneg h (by norm_num)
  · exact Real.rpow_nonneg (div_nonneg (add_nonneg h (by norm_num)) (by norm_num)) _

theorem argb_gamma_nonneg (v : ℝ) (h : 0 ≤ v) : 0 ≤ F64.compute_argb_gamma v := by
  unfold F64.compute_argb_gamma
  simp only [FltReal.le_eq, FltReal.lit_eq, FltReal.pow_eq, decide_eq_true_eq]
  split_ifs
  · norm_num
  · exact Real.rpow_nonneg h _

/-- the XYZ of any colour has nonnegative components (positive matrix entries, nonnegative decoded
channels), for all three profiles -/
theorem xyz_nonneg (c : Rgb) (k : XyzKind) :
    0 ≤ (Xyz.from_rgb c k : Xyz ℝ).x ∧ 0 ≤ (Xyz.from_rgb c k : Xyz ℝ).y ∧ 0 ≤ (Xyz.from_rgb c k : Xyz ℝ).z := by
  have n255 : ∀ n : ℕ, (0:ℝ) ≤ (n : ℝ) / ((255:ℕ) / (1:ℕ)) := fun n => div_nonneg (Nat.cast_nonneg _) (by norm_num)
  have s := fun n : ℕ => srgb_expand_nonneg _ (n255 n)
  have a := fun n : ℕ => argb_gamma_nonneg _ (n255 n)
  cases k <;>
  simp only [Xyz.from_rgb, Xyz.compute_xyz_from_matrix, Srgb.as_f64, Argb.as_f64, Srgb.from_Rgb, Argb.from_Rgb, Rgb.as_f64,
    C.X50, C.Y50, C.Z50, C.X65, C.Y65, C.Z65, C.AX, C.AY, C.AZ, FltReal.lit_eq, FltReal.ofNat_eq] <;>
  refine ⟨?_, ?_, ?_⟩ <;>
  (refine add_nonneg (add_nonneg (mul_nonneg (by norm_num) ?_) (mul_nonneg (by norm_num) ?_)) (mul_nonneg (by norm_num) ?_) <;>
    first | exact s _ | exact a _)

end Lemmas.Defined
