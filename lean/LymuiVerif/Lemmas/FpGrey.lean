import LymuiVerif.Props.C13_fp_rgbmodels
import LymuiVerif.Props.C10_fp
import LymuiVerif.Props.C05_fp
import LymuiVerif.Props.C11_rgbmodels
import LymuiVerif.Props.C11_cie
import LymuiVerif.Props.C13_xyz
import LymuiVerif.Lemmas.CurvesD2
/-!
# Greys and ranges in the rounded-arithmetic reading `RF M` — helper lemmas

For `Props/C11_fp.lean` (neutral greys) and `Props/C13_fp_ranges.lean` (ranges).  Everything holds for an arbitrary
`M : FPModel`.

* `grey_hue_rf`, `cmin_grey`, `cmax_grey`: the `min == max` test of a grey is decided exactly.
* `GreyXyz M x t`: a computed XYZ within `1e-12` of the real XYZ `(0.95047, 1.0000001, 1.08883)·t` of the grey of
  linear level `t ∈ [3e-4, 1]` (every grey but black, `grey_xyz_near`); the CIE conversions are then bounded for such an
  `x`, independently of where it came from:
  `xyy_grey_fp` (chromaticity within `1e-8` of the real model's), `hlab_grey_fp` (Hunter a, b within `1e-5`),
  `lab_grey_fp` (CIELAB a, b: `|a| ≤ 6e-4`, `|b| ≤ 2.5e-4`), `luv_grey_fp` (CIELUV `|u|, |v| ≤ 5e-5`).
* `white_lightness_fp`, `black_lightness_fp`: CIE / Hunter lightness of white (within `2e-5` of 100) and black.
* `decF_nonneg`, `xyzF_nonneg`: the computed linear-light levels and XYZ components are `≥ 0` exactly.
-/
namespace FpGrey
open Gen FpErr FpLin Props.C09 Lemmas.XyzDispatch Lemmas.FpXyz Lemmas.Matrix Lemmas.Cie

variable (M : FPModel)

/-! ## greys in the hexcone code -/

theorem cmin_grey (v : ℕ) : cmin ⟨v, v, v⟩ = v := by simp [cmin]
theorem cmax_grey (v : ℕ) : cmax ⟨v, v, v⟩ = v := by simp [cmax]

/-- the literal `0.0` is exact -/
theorem lit0 : M.rnd (((0:ℕ):ℝ) / ((1:ℕ):ℝ)) = 0 := by simp [rnd_zero]

/-- hue of a grey: exactly 0 in every model (the `min == max` test compares two equal exact numbers) -/
theorem grey_hue_rf (v : ℕ) : (F64.from_Rgb (α := RF M) ⟨v, v, v⟩).val = 0 := by
  unfold F64.from_Rgb
  simp only [FpHexcone.get_min_max_rf, cmin_grey, cmax_grey, FltRF.beq_eq, decide_true, if_true, FltRF.lit_val]
  exact lit0 M

/-- the computed `K` of a grey -/
theorem grey_k_val (v : ℕ) :
    (Cymk.from_Rgb (α := RF M) ⟨v, v, v⟩).k.val = M.rnd (1 - M.rnd ((v:ℝ) / 255)) := by
  unfold Cymk.from_Rgb
  simp only [FpHexcone.get_min_max_rf, cmax_grey, Rgb.as_f64, Cymk.default]
  split_ifs <;>
  simp only [FltRF.sub_val, FltRF.div_val, FltRF.lit_val, lit_int M 1 (by norm_num), lit_int M 255 (by norm_num)] <;>
  norm_num

/-- `K = 1 - max/255` computed: in `[0, 1]`; at most `1 - 1/255 + 3e-16` when `max ≥ 1` -/
theorem k_bounds (m : ℕ) (hm : m ≤ 255) :
    0 ≤ M.rnd (1 - M.rnd ((m:ℝ) / 255)) ∧ M.rnd (1 - M.rnd ((m:ℝ) / 255)) ≤ 1 ∧
    (1 ≤ m → M.rnd (1 - M.rnd ((m:ℝ) / 255)) ≤ 1 - 1 / 255 + 3e-16) := by
  obtain ⟨a0, a1, ae⟩ := FpHexcone.unit_close M m hm
  refine ⟨rnd_nonneg M (by linarith), rnd_le_one M (by linarith), ?_⟩
  intro h1
  have hv1 : (1:ℝ) ≤ m := by exact_mod_cast h1
  have hq : (1:ℝ)/255 ≤ (m:ℝ)/255 := by gcongr
  have e16 : FP.eps = 1.2e-16 := rfl
  have hx : |1 - M.rnd ((m:ℝ)/255)| ≤ 1 := by rw [abs_le]; constructor <;> linarith
  have r := abs_le.mp (rnd_abs M hx (by norm_num))
  have ae' := abs_le.mp ae
  rw [e16] at *; norm_num at *; linarith [r.2, ae'.1]

/-- `1 - K` computed is positive when `max ≥ 1` (no division by zero in the CMYK quotients) -/
theorem mk_pos (m : ℕ) (hm : m ≤ 255) (h1 : 1 ≤ m) :
    0 < M.rnd (1 - M.rnd (1 - M.rnd ((m:ℝ) / 255))) := by
  obtain ⟨k0, k1, k2⟩ := k_bounds M m hm
  have kle := k2 h1
  have e16 : FP.eps = 1.2e-16 := rfl
  have hy : |1 - M.rnd (1 - M.rnd ((m:ℝ) / 255))| ≤ 1 := by rw [abs_le]; constructor <;> linarith
  have r2 := abs_le.mp (rnd_abs M hy (by norm_num))
  rw [e16] at *; norm_num at *; linarith [r2.1]

/-! ## CMYK quotients -/

/-- one CMYK channel of a non-black colour: `((1 - x/255) - K) / (1 - K)` computed, for a channel `x ≤ max`, is in
`[0, 1]` exactly: numerator and denominator are ordered by monotonicity of rounding, the denominator is positive -/
theorem cmyk_chan_range (x m : ℕ) (hxm : x ≤ m) (hm : m ≤ 255) (h1 : 1 ≤ m) :
    0 ≤ M.rnd (M.rnd (M.rnd (1 - M.rnd ((x:ℝ) / 255)) - M.rnd (1 - M.rnd ((m:ℝ) / 255))) /
      M.rnd (1 - M.rnd (1 - M.rnd ((m:ℝ) / 255)))) ∧
    M.rnd (M.rnd (M.rnd (1 - M.rnd ((x:ℝ) / 255)) - M.rnd (1 - M.rnd ((m:ℝ) / 255))) /
      M.rnd (1 - M.rnd (1 - M.rnd ((m:ℝ) / 255)))) ≤ 1 := by
  have hx : x ≤ 255 := le_trans hxm hm
  obtain ⟨a0, a1, _⟩ := k_bounds M x hx
  have mkp := mk_pos M m hm h1
  have hxm' : (x:ℝ) / 255 ≤ (m:ℝ) / 255 := by
    have : (x:ℝ) ≤ m := by exact_mod_cast hxm
    gcongr
  have hka : M.rnd (1 - M.rnd ((m:ℝ) / 255)) ≤ M.rnd (1 - M.rnd ((x:ℝ) / 255)) :=
    M.rnd_mono (by linarith [M.rnd_mono hxm'])
  have num0 : 0 ≤ M.rnd (M.rnd (1 - M.rnd ((x:ℝ) / 255)) - M.rnd (1 - M.rnd ((m:ℝ) / 255))) :=
    rnd_nonneg M (by linarith)
  have numle : M.rnd (M.rnd (1 - M.rnd ((x:ℝ) / 255)) - M.rnd (1 - M.rnd ((m:ℝ) / 255))) ≤
      M.rnd (1 - M.rnd (1 - M.rnd ((m:ℝ) / 255))) := M.rnd_mono (by linarith)
  exact ⟨rnd_nonneg M (div_nonneg num0 mkp.le), rnd_le_one M ((div_le_one mkp).mpr numle)⟩

/-- `as u8` of a perturbed value between the smallest and the largest channel -/
theorem toU8_between (c : Rgb) (hr : c.r ≤ 255) (hg : c.g ≤ 255) (hb : c.b ≤ 255) (x e : ℝ)
    (hx0 : cmin c ≤ x) (hx1 : x ≤ cmax c) (he : |e| ≤ 1e-9) :
    min (min c.r c.g) c.b ≤ Real.toU8 (x + e) + 1 ∧ Real.toU8 (x + e) ≤ max (max c.r c.g) c.b := by
  obtain ⟨em, eM⟩ := cmin_cmax_nat c
  have hM255 : max (max c.r c.g) c.b ≤ 255 := by omega
  rw [abs_le] at he
  have up : Real.toU8 (x + e) ≤ max (max c.r c.g) c.b :=
    QuantA2.toU8_le_of_lt (by rw [← eM]; linarith [he.2])
  refine ⟨?_, up⟩
  rcases Nat.eq_zero_or_pos (min (min c.r c.g) c.b) with h0 | hpos
  · omega
  · obtain ⟨n, hn⟩ : ∃ n, min (min c.r c.g) c.b = n + 1 := ⟨_, (Nat.succ_pred_eq_of_pos hpos).symm⟩
    have hcm : cmin c = (n : ℝ) + 1 := by rw [em, hn]; push_cast; ring
    have := (QuantA2.toU8_bounds (x := x + e) (a := n) (b := max (max c.r c.g) c.b)
      (by linarith [he.1]) (by rw [← eM]; linarith [he.2]) hM255).1
    omega

/-! ## real-model extremes used by the range statements -/

/-- real-model extremes of the BT.601 analogue components -/
theorem yuv_spec_range (c : Rgb) (hr : c.r ≤ 255) (hg : c.g ≤ 255) (hb : c.b ≤ 255) :
    (0 ≤ Props.C10.Spec.yuvY c.r c.g c.b ∧ Props.C10.Spec.yuvY c.r c.g c.b ≤ 1) ∧
    |Props.C10.Spec.yuvU c.r c.g c.b| ≤ 0.435912 ∧ |Props.C10.Spec.yuvV c.r c.g c.b| ≤ 0.614777 := by
  have hr' : (c.r : ℝ) ≤ 255 := by exact_mod_cast hr
  have hg' : (c.g : ℝ) ≤ 255 := by exact_mod_cast hg
  have hb' : (c.b : ℝ) ≤ 255 := by exact_mod_cast hb
  have hr0 : (0 : ℝ) ≤ c.r := Nat.cast_nonneg _
  have hg0 : (0 : ℝ) ≤ c.g := Nat.cast_nonneg _
  have hb0 : (0 : ℝ) ≤ c.b := Nat.cast_nonneg _
  unfold Props.C10.Spec.yuvU Props.C10.Spec.yuvV Props.C10.Spec.yuvY
  refine ⟨⟨by positivity, ?_⟩, ?_, ?_⟩
  · rw [div_le_one (by norm_num)]; norm_num; linarith
  · rw [abs_le]; constructor <;> norm_num <;> linarith
  · rw [abs_le]; constructor <;> norm_num <;> linarith

/-- the exact sums of the five grayscale modes lie between the smallest and the largest channel -/
theorem gray_spec_between (c : Rgb) :
    (cmin c ≤ Props.C10.Spec.grayLightness c.r c.g c.b ∧ Props.C10.Spec.grayLightness c.r c.g c.b ≤ cmax c) ∧
    (cmin c ≤ Props.C10.Spec.grayAverage c.r c.g c.b ∧ Props.C10.Spec.grayAverage c.r c.g c.b ≤ cmax c) ∧
    (cmin c ≤ Props.C10.Spec.grayLuminosity c.r c.g c.b ∧ Props.C10.Spec.grayLuminosity c.r c.g c.b ≤ cmax c) ∧
    (cmin c ≤ Props.C10.Spec.grayBT709 c.r c.g c.b ∧ Props.C10.Spec.grayBT709 c.r c.g c.b ≤ cmax c) ∧
    (cmin c ≤ Props.C10.Spec.grayBT2100 c.r c.g c.b ∧ Props.C10.Spec.grayBT2100 c.r c.g c.b ≤ cmax c) := by
  obtain ⟨⟨m1, m2, m3⟩, ⟨M1, M2, M3⟩⟩ := channel_bounds c
  have emx : Props.C10.Spec.mx c.r c.g c.b = cmax c := by
    unfold Props.C10.Spec.mx cmax; rw [max_assoc]
  have emn : Props.C10.Spec.mn c.r c.g c.b = cmin c := by
    unfold Props.C10.Spec.mn cmin; rw [min_assoc]
  have hmM : cmin c ≤ cmax c := le_trans m1 M1
  unfold Props.C10.Spec.grayLightness Props.C10.Spec.grayAverage Props.C10.Spec.grayLuminosity
    Props.C10.Spec.grayBT709 Props.C10.Spec.grayBT2100
  rw [emx, emn]
  refine ⟨⟨?_, ?_⟩, ⟨?_, ?_⟩, ⟨?_, ?_⟩, ⟨?_, ?_⟩, ⟨?_, ?_⟩⟩ <;> norm_num <;> linarith

/-! ## linear-light levels and XYZ are non-negative -/

/-- a non-zero byte level decodes to at least `6e-8` in the real model (sRGB: `1/255/12.92`; Adobe: `(1/255)^2.2 ≥ (1/255)^3`) -/
theorem dec_level_ge (k : XyzKind) (n : ℕ) (h1 : 1 ≤ n) : 6e-8 ≤ dec k ((n:ℝ) / 255) := by
  have h : dec k (((1:ℕ):ℝ) / 255) ≤ dec k ((n:ℝ) / 255) := by
    rcases Nat.lt_or_ge 1 n with h | h
    · exact (dec_level_lt k h).le
    · have : n = 1 := by omega
      rw [this]
  refine le_trans ?_ h
  cases k
  · simp only [dec]; rw [Lemmas.Curves.srgb_dec_lin (by norm_num)]; norm_num
  · simp only [dec]; rw [Lemmas.Curves.srgb_dec_lin (by norm_num)]; norm_num
  · simp only [dec]; rw [Lemmas.Curves.argb_dec_nonneg (by norm_num)]
    have h3 : ((((1:ℕ):ℝ) / 255) ^ (3:ℕ) : ℝ) ≤ (((1:ℕ):ℝ) / 255) ^ ((563:ℝ) / 256) := by
      rw [← Real.rpow_natCast]
      exact Real.rpow_le_rpow_of_exponent_ge (by norm_num) (by norm_num) (by norm_num)
    refine le_trans ?_ h3
    norm_num

/-- the computed linear-light level of a byte is `≥ 0` in every model (it is `0` for the byte `0`, and within `1e-14`
of a real value `≥ 6e-8` otherwise: no appeal to a sign property of `M.pow`) -/
theorem decF_nonneg (k : XyzKind) (n : ℕ) (hn : n ≤ 255) : 0 ≤ (decF M k (lvlF M n)).val := by
  rcases Nat.eq_zero_or_pos n with h | h
  · rw [h, dec_zero_fp]
  · have h1 := abs_le.mp (dec_fp M k n hn)
    have h2 := dec_level_ge k n h
    norm_num at h1 h2 ⊢; linarith [h1.1]

/-- a forward matrix coefficient is `≥ 0` in every model -/
theorem fwd_coef_nonneg (k : XyzKind) :
    (0 ≤ (fwdF M k).1.1.val ∧ 0 ≤ (fwdF M k).1.2.1.val ∧ 0 ≤ (fwdF M k).1.2.2.val) ∧
    (0 ≤ (fwdF M k).2.1.1.val ∧ 0 ≤ (fwdF M k).2.1.2.1.val ∧ 0 ≤ (fwdF M k).2.1.2.2.val) ∧
    (0 ≤ (fwdF M k).2.2.1.val ∧ 0 ≤ (fwdF M k).2.2.2.1.val ∧ 0 ≤ (fwdF M k).2.2.2.2.val) := by
  cases k <;>
  simp only [fwdF, C.X65, C.Y65, C.Z65, C.X50, C.Y50, C.Z50, C.AX, C.AY, C.AZ, FltRF.lit_val] <;>
  refine ⟨⟨?_, ?_, ?_⟩, ⟨?_, ?_, ?_⟩, ⟨?_, ?_, ?_⟩⟩ <;>
  exact rnd_nonneg M (by positivity)

/-- a dot product of non-negative computed numbers is `≥ 0` exactly -/
theorem dotF_nonneg (m v : RF M × RF M × RF M) (m1 : 0 ≤ m.1.val) (m2 : 0 ≤ m.2.1.val) (m3 : 0 ≤ m.2.2.val)
    (v1 : 0 ≤ v.1.val) (v2 : 0 ≤ v.2.1.val) (v3 : 0 ≤ v.2.2.val) : 0 ≤ (dotF M m v).val := by
  simp only [dotF, FltRF.add_val, FltRF.mul_val]
  exact rnd_nonneg M (add_nonneg (rnd_nonneg M (add_nonneg (rnd_nonneg M (mul_nonneg m1 v1))
    (rnd_nonneg M (mul_nonneg m2 v2)))) (rnd_nonneg M (mul_nonneg m3 v3)))

/-- the computed XYZ of an 8-bit colour is `≥ 0` componentwise, exactly, in every model and profile -/
theorem xyzF_nonneg (k : XyzKind) (c : Rgb) (hr : c.r ≤ 255) (hg : c.g ≤ 255) (hb : c.b ≤ 255) :
    0 ≤ (xyzF M k c).1.val ∧ 0 ≤ (xyzF M k c).2.1.val ∧ 0 ≤ (xyzF M k c).2.2.val := by
  obtain ⟨⟨a1, a2, a3⟩, ⟨b1, b2, b3⟩, ⟨c1, c2, c3⟩⟩ := fwd_coef_nonneg M k
  have l1 := decF_nonneg M k c.r hr
  have l2 := decF_nonneg M k c.g hg
  have l3 := decF_nonneg M k c.b hb
  exact ⟨dotF_nonneg M _ _ a1 a2 a3 l1 l2 l3, dotF_nonneg M _ _ b1 b2 b3 l1 l2 l3,
    dotF_nonneg M _ _ c1 c2 c3 l1 l2 l3⟩

/-! ## the XYZ of a grey -/

/-- a computed XYZ that is within `1e-12` of the XYZ of the grey of linear level `t ∈ [3e-4, 1]` (D65 profile) -/
structure GreyXyz (x : Xyz (RF M)) (t : ℝ) : Prop where
  t0 : 3e-4 ≤ t
  t1 : t ≤ 1
  hx : |x.x.val - 95047 / 100000 * t| ≤ 1e-12
  hy : |x.y.val - 10000001 / 10000000 * t| ≤ 1e-12
  hz : |x.z.val - 108883 / 100000 * t| ≤ 1e-12

/-- every grey but black yields such an XYZ, `t` the real linear level of `v/255` -/
theorem grey_xyz_near (v : ℕ) (h1 : 1 ≤ v) (hv : v ≤ 255) :
    GreyXyz M (Xyz.from_rgb (α := RF M) ⟨v, v, v⟩ XyzKind.D65) (F64.compute_srgb_gamma_expanded ((v : ℝ) / 255) : ℝ) := by
  obtain ⟨e, _, t1⟩ := Props.C11_cie.grey_xyz v hv
  obtain ⟨f1, f2, f3⟩ := Props.C05.forward_fp M .D65 ⟨v, v, v⟩ hv hv hv
  rw [e] at f1 f2 f3
  have h3 : (3e-4:ℝ) ≤ dec .D65 ((v:ℝ) / 255) := by
    have h : dec .D65 (((1:ℕ):ℝ) / 255) ≤ dec .D65 ((v:ℝ) / 255) := by
      rcases Nat.lt_or_ge 1 v with h | h
      · exact (dec_level_lt .D65 h).le
      · have : v = 1 := by omega
        rw [this]
    refine le_trans ?_ h
    simp only [dec]; rw [Lemmas.Curves.srgb_dec_lin (by norm_num)]; norm_num
  exact ⟨h3, t1, f1, f2, f3⟩

/-! ## xyY -/

/-- xyY of a near-grey XYZ: chromaticity within `1e-8` of the real model's value for `greyXyz t` -/
theorem xyy_grey_fp {x : Xyz (RF M)} {t : ℝ} (h : GreyXyz M x t) :
    |(Xyy.from_Xyz x).x.val - (Xyy.from_Xyz (Props.C11_cie.greyXyz t)).x| ≤ 1e-8 ∧
    |(Xyy.from_Xyz x).y.val - (Xyy.from_Xyz (Props.C11_cie.greyXyz t)).y| ≤ 1e-8 := by
  obtain ⟨t0, t1, hx, hy, hz⟩ := h
  have hx' := abs_le.mp hx
  have tpos : 0 < t := by norm_num at t0 ⊢; linarith
  have xpos : 0 < x.x.val := by norm_num at hx' t0 ⊢; linarith [hx'.1]
  have hs : (Props.C11_cie.greyXyz t).x + (Props.C11_cie.greyXyz t).y + (Props.C11_cie.greyXyz t).z ≠ 0 := by
    simp only [Props.C11_cie.greyXyz]; positivity
  rw [Props.C06.xyy_forward _ hs]
  have hs' : (95047 / 100000 * t + 10000001 / 10000000 * t + 108883 / 100000 * t) ≠ 0 := by
    simpa only [Props.C11_cie.greyXyz] using hs
  simp only [Props.C06.xyY, Props.C11_cie.greyXyz, hs', ↓reduceIte]
  have nn : ¬ x.x.val = 0 := ne_of_gt xpos
  simp only [Xyy.from_Xyz, Xyy.get_fields_from_xyz, Xyy.compute_xyy, Xyz.is_null, FltRF.beq_eq, FltRF.lit_val, lit0,
    nn, decide_false, if_false, Bool.false_eq_true, Option.getD_some, FltRF.div_val, FltRF.add_val]
  have nX : Near x.x.val (95047 / 100000 * t) 1e-12 1 := ⟨hx, by rw [abs_of_nonneg (by positivity)]; linarith, le_rfl⟩
  have nY : Near x.y.val (10000001 / 10000000 * t) 1e-12 2 := ⟨hy, by rw [abs_of_nonneg (by positivity)]; linarith, by norm_num⟩
  have nZ : Near x.z.val (108883 / 100000 * t) 1e-12 2 := ⟨hz, by rw [abs_of_nonneg (by positivity)]; linarith, by norm_num⟩
  have nS := (nX.add M nY).add M nZ
  have eS : |M.rnd (M.rnd (x.x.val + x.y.val) + x.z.val) - (95047 / 100000 * t + 10000001 / 10000000 * t + 108883 / 100000 * t)| ≤ 4e-12 :=
    nS.finish rfl (by norm_num [FP.eps])
  have hS : (9e-4 : ℝ) ≤ |95047 / 100000 * t + 10000001 / 10000000 * t + 108883 / 100000 * t| := by
    rw [abs_of_nonneg (by positivity)]; norm_num at t0 ⊢; linarith
  have q1 : |95047 / 100000 * t / (95047 / 100000 * t + 10000001 / 10000000 * t + 108883 / 100000 * t)| ≤ 1 := by
    rw [abs_of_nonneg (by positivity), div_le_one (by positivity)]; linarith
  have q2 : |10000001 / 10000000 * t / (95047 / 100000 * t + 10000001 / 10000000 * t + 108883 / 100000 * t)| ≤ 1 := by
    rw [abs_of_nonneg (by positivity), div_le_one (by positivity)]; linarith
  have d1 := FpHexcone.div_close_q M hx eS hS (by norm_num) q1 (by norm_num)
  have d2 := FpHexcone.div_close_q M hy eS hS (by norm_num) q2 (by norm_num)
  refine ⟨le_trans d1 ?_, le_trans d2 ?_⟩ <;> norm_num [FP.eps]

/-! ## Hunter Lab -/

/-- the square root is `1/√X`-Lipschitz at `X > 0` -/
theorem sqrt_close {s X e : ℝ} (hX : 0 < X) (h : |s - X| ≤ e) : |√s - √X| ≤ e / √X := by
  have hs0 := Real.sqrt_nonneg s
  have hx0 := Real.sqrt_pos.mpr hX
  rw [le_div_iff₀ hx0]
  have key : |√s - √X| * (√s + √X) ≤ |s - X| := by
    rw [← abs_of_nonneg (by positivity : 0 ≤ √s + √X), ← abs_mul]
    have e1 : (√s - √X) * (√s + √X) = √s ^ 2 - X := by
      have := Real.sq_sqrt hX.le; nlinarith
    rw [e1]
    rcases le_or_gt 0 s with h0 | h0
    · rw [Real.sq_sqrt h0]
    · rw [Real.sqrt_eq_zero_of_nonpos h0.le]
      rw [abs_of_nonpos (by nlinarith), abs_of_nonpos (by linarith)]; nlinarith
  calc |√s - √X| * √X ≤ |√s - √X| * (√s + √X) := by
        apply mul_le_mul_of_nonneg_left (by linarith) (abs_nonneg _)
    _ ≤ |s - X| := key
    _ ≤ e := h

/-- one Hunter chromatic channel: `K' · ((a − b) / s)` computed against `K · ((A − B) / S)` -/
theorem hunter_chan {K' K a b A B s S : ℝ} (hK : |K' - K| ≤ 1e-11) (hKB : |K| ≤ 2000)
    (ha : |a - A| ≤ 2e-14) (hb : |b - B| ≤ 2e-14) (hs : |s - S| ≤ 1e-11) (hS : 1.7e-3 ≤ S)
    (hAB : |A - B| ≤ 1e-9) :
    |M.rnd (K' * M.rnd (M.rnd (a - b) / s)) - K * ((A - B) / S)| ≤ 2e-5 := by
  have hS0 : 0 < S := by norm_num at hS ⊢; linarith
  have hq : |(A - B) / S| ≤ 1 := by
    rw [abs_div, abs_of_pos hS0, div_le_one hS0]; norm_num at hS hAB ⊢; linarith
  have n := sub_close M ha hb (B := 1) (hAB.trans (by norm_num)) (by norm_num)
  have n' : |M.rnd (a - b) - (A - B)| ≤ 5e-14 := n.trans (by norm_num [FP.eps])
  have d := FpHexcone.div_close_q M n' hs (m := 1.7e-3) (by rw [abs_of_pos hS0]; exact hS) (by norm_num) hq (by norm_num)
  have d' : |M.rnd (M.rnd (a - b) / s) - (A - B) / S| ≤ 6e-9 := d.trans (by norm_num [FP.eps])
  have m := mul_close M hK d' hKB hq (by norm_num)
  exact m.trans (by norm_num [FP.eps])

/-- Hunter Lab of a near-grey XYZ: `a`, `b` within `2e-5` of the real model's values for `greyXyz t` -/
theorem hlab_grey_fp {x : Xyz (RF M)} {t : ℝ} (h : GreyXyz M x t) :
    |(Hlab.from_Xyz x).a.val - (Hlab.from_Xyz (Props.C11_cie.greyXyz t)).a| ≤ 2e-5 ∧
    |(Hlab.from_Xyz x).b.val - (Hlab.from_Xyz (Props.C11_cie.greyXyz t)).b| ≤ 2e-5 := by
  obtain ⟨t0, t1, hx, hy, hz⟩ := h
  have hy' := abs_le.mp hy
  have tpos : 0 < t := by norm_num at t0 ⊢; linarith
  have ypos : 0 < x.y.val := by norm_num at hy' t0 ⊢; linarith [hy'.1]
  have nn : ¬ x.y.val = 0 := ne_of_gt ypos
  have nnr : ¬ (10000001 / 10000000 * t : ℝ) = ((0:ℕ):ℝ) / ((1:ℕ):ℝ) := by
    rw [Nat.cast_zero, zero_div]; positivity
  simp only [Hlab.from_Xyz, Hlab.get_ka_kb, C.XN, C.YN, C.ZN, Props.C11_cie.greyXyz, FltRF.beq_eq, FltRF.lit_val, lit0,
    nn, nnr, decide_false, if_false, Bool.false_eq_true, FltRF.div_val, FltRF.add_val, FltRF.sub_val, FltRF.mul_val,
    FltRF.sqrt_val, FltReal.beq_eq, FltReal.lit_eq, FltReal.sqrt_eq]
  rw [lit_int M 100 (by norm_num), lit_int M 10 (by norm_num), lit_int M 175 (by norm_num), lit_int M 70 (by norm_num)]
  have nX : Near x.x.val (95047 / 100000 * t) 1e-12 1 := ⟨hx, by rw [abs_of_nonneg (by positivity)]; linarith, le_rfl⟩
  have nY : Near x.y.val (10000001 / 10000000 * t) 1e-12 2 := ⟨hy, by rw [abs_of_nonneg (by positivity)]; linarith, by norm_num⟩
  have nZ : Near x.z.val (108883 / 100000 * t) 1e-12 2 := ⟨hz, by rw [abs_of_nonneg (by positivity)]; linarith, by norm_num⟩
  have lXN := Near.lit M 95047 1000 (B := 96) (by norm_num) (by norm_num)
  have lZN := Near.lit M 108883 1000 (B := 109) (by norm_num) (by norm_num)
  have n100 : Near (((100:ℕ):ℝ)) ((100:ℕ):ℝ) 0 100 := Near.nat (by norm_num) (by norm_num)
  have n10 : Near (((10:ℕ):ℝ)) ((10:ℕ):ℝ) 0 10 := Near.nat (by norm_num) (by norm_num)
  have n175 : Near (((175:ℕ):ℝ)) ((175:ℕ):ℝ) 0 175 := Near.nat (by norm_num) (by norm_num)
  have n70 : Near (((70:ℕ):ℝ)) ((70:ℕ):ℝ) 0 70 := Near.nat (by norm_num) (by norm_num)
  -- the three normalised components
  have xr := nX.div M lXN (m := 95) (Bq := 1) (by norm_num) (by norm_num [FP.eps])
    (by rw [abs_of_nonneg (by positivity), div_le_one (by positivity)]; linarith) le_rfl
  have yr := nY.div_const M (c := ((100:ℕ):ℝ)) (B' := 1) (by norm_num) (by norm_num) le_rfl
  have zr := nZ.div M lZN (m := 108) (Bq := 1) (by norm_num) (by norm_num [FP.eps])
    (by rw [abs_of_nonneg (by positivity), div_le_one (by positivity)]; linarith) le_rfl
  have exr := xr.finish rfl (tol := 2e-14) (by norm_num [FP.eps])
  have eyr := yr.finish rfl (tol := 1.1e-14) (by norm_num [FP.eps])
  have ezr := zr.finish rfl (tol := 2e-14) (by norm_num [FP.eps])
  -- the square root
  have hYr : (3e-6 : ℝ) ≤ 10000001 / 10000000 * t / ((100:ℕ):ℝ) := by norm_num at t0 ⊢; linarith
  have hS : (1.7e-3 : ℝ) ≤ √(10000001 / 10000000 * t / ((100:ℕ):ℝ)) := by
    apply Real.le_sqrt_of_sq_le; norm_num at hYr ⊢; linarith
  have hS1 : √(10000001 / 10000000 * t / ((100:ℕ):ℝ)) ≤ 1 := by
    rw [Real.sqrt_le_one]; norm_num; linarith
  have sq := sqrt_close (lt_of_lt_of_le (by norm_num) hYr) eyr
  have sq' : |√(M.rnd (x.y.val / ((100:ℕ):ℝ))) - √(10000001 / 10000000 * t / ((100:ℕ):ℝ))| ≤ 7e-12 := by
    refine sq.trans ?_
    rw [div_le_iff₀ (lt_of_lt_of_le (by norm_num) hS)]; norm_num at hS ⊢; linarith
  have es := rnd_close M sq' (B := 1) (by rw [abs_of_nonneg (Real.sqrt_nonneg _)]; exact hS1) (by norm_num)
  have es' : |M.rnd (√(M.rnd (x.y.val / ((100:ℕ):ℝ)))) - √(10000001 / 10000000 * t / ((100:ℕ):ℝ))| ≤ 1e-11 := es.trans (by norm_num [FP.eps])
  simp only [Nat.cast_one, div_one]
  -- the two coefficients `10·Ka`, `10·Kb`
  have l198 := Near.lit M 4951 25 (B := 199) (by norm_num) (by norm_num)
  have l218 := Near.lit M 21811 100 (B := 219) (by norm_num) (by norm_num)
  have nKa := n10.mul M ((n175.div M l198 (m := 198) (Bq := 1) (by norm_num) (by norm_num [FP.eps])
    (by norm_num) le_rfl).mul M (n100.add M lXN))
  have nKb := n10.mul M ((n70.div M l218 (m := 218) (Bq := 1) (by norm_num) (by norm_num [FP.eps])
    (by norm_num) le_rfl).mul M (n100.add M lZN))
  have eKa := nKa.finish rfl (tol := 1e-11) (by norm_num [FP.eps])
  have eKb := nKb.finish rfl (tol := 1e-11) (by norm_num [FP.eps])
  have hA : |95047 / 100000 * t / (((95047:ℕ):ℝ) / ((1000:ℕ):ℝ)) - 10000001 / 10000000 * t / ((100:ℕ):ℝ)| ≤ 1e-9 := by
    have e : 95047 / 100000 * t / (((95047:ℕ):ℝ) / ((1000:ℕ):ℝ)) - 10000001 / 10000000 * t / ((100:ℕ):ℝ) = -(t / 10 ^ 9) := by
      push_cast; ring
    rw [e, abs_neg, abs_of_nonneg (by positivity)]; norm_num; linarith
  have hB : |10000001 / 10000000 * t / ((100:ℕ):ℝ) - 108883 / 100000 * t / (((108883:ℕ):ℝ) / ((1000:ℕ):ℝ))| ≤ 1e-9 := by
    have e : 10000001 / 10000000 * t / ((100:ℕ):ℝ) - 108883 / 100000 * t / (((108883:ℕ):ℝ) / ((1000:ℕ):ℝ)) = t / 10 ^ 9 := by
      push_cast; ring
    rw [e, abs_of_nonneg (by positivity)]; norm_num; linarith
  exact ⟨hunter_chan M eKa (nKa.mag.trans (by norm_num)) exr (eyr.trans (by norm_num)) es' hS hA,
    hunter_chan M eKb (by rw [abs_of_nonneg (by positivity)]; norm_num) (eyr.trans (by norm_num)) ezr es' hS hB⟩

/-! ## CIELAB -/

/-- the cube root is `9`-Lipschitz on `[0.008, ∞)` -/
theorem cbrt_lip {a b : ℝ} (ha : 0.008 ≤ a) (hb : 0.008 ≤ b) : |Real.cbrt a - Real.cbrt b| ≤ 9 * |a - b| := by
  have ha3 := Lemmas.CurvesD2.cube_cbrt a
  have hb3 := Lemmas.CurvesD2.cube_cbrt b
  have hp : (0.2 : ℝ) ≤ Real.cbrt a := by
    rw [Lemmas.CurvesD2.cbrt_of_nonneg (by linarith)]
    exact le_rpow_third (by linarith) (by norm_num at ha ⊢; linarith)
  have hq : (0.2 : ℝ) ≤ Real.cbrt b := by
    rw [Lemmas.CurvesD2.cbrt_of_nonneg (by linarith)]
    exact le_rpow_third (by linarith) (by norm_num at hb ⊢; linarith)
  generalize Real.cbrt a = p at *
  generalize Real.cbrt b = q at *
  have e : a - b = (p - q) * (p ^ 2 + p * q + q ^ 2) := by rw [← ha3, ← hb3]; ring
  have hS : (0.12 : ℝ) ≤ p ^ 2 + p * q + q ^ 2 := by nlinarith
  rw [e, abs_mul, abs_of_nonneg (by linarith : (0:ℝ) ≤ p ^ 2 + p * q + q ^ 2)]
  nlinarith [abs_nonneg (p - q)]

/-- the two branches of `Lab::compute_f` differ by at most `3.4e-7` at the threshold `0.008856` -/
theorem f_jump : |Real.cbrt (1107 / 125000) - ((1107 / 125000 : ℝ) * (7787 / 1000) + 16 / 116)| ≤ 3.4e-7 := by
  obtain ⟨h1, h2⟩ := Lemmas.CurvesD2.cbrt_bounds (x := 1107 / 125000) (a := 0.2068930) (b := 0.20689304)
    (by norm_num) (by norm_num) (by norm_num) (by norm_num)
  rw [abs_le]; constructor <;> norm_num at h1 h2 ⊢ <;> linarith

/-- **`Lab::compute_f` in `RF M`** at a computed argument `c'` within `2e-12` of `c ∈ [0, 1.001]`: within `3.5e-7` of the
real model's `fCode c`.  (Away from the threshold the two agree to `1e-10`; the comparison with the rounded threshold may
select the other branch when `c` is within `2e-12` of `0.008856`, where the branches differ by `3.3e-7`.) -/
theorem compute_f_fp {c' : RF M} {c : ℝ} (hc0 : 0 ≤ c) (hc1 : c ≤ 1.001) (h : |c'.val - c| ≤ 2e-12) :
    |(Lab.compute_f c').val - fCode c| ≤ 3.5e-7 := by
  have hthr := lit_close M 1107 125000 (B := 1) (by norm_num) (by norm_num)
  have hthr' := abs_le.mp hthr
  have h' := abs_le.mp h
  have e16 : FP.eps = 1.2e-16 := rfl
  have hj := f_jump
  -- the linear branch, computed
  have lin : ∀ z : ℝ, 0 ≤ z → z ≤ 0.009 → |c'.val - z| ≤ 6e-12 →
      |M.rnd (M.rnd (c'.val * M.rnd (((7787:ℕ):ℝ) / ((1000:ℕ):ℝ))) + M.rnd (M.rnd (((16:ℕ):ℝ) / ((1:ℕ):ℝ)) / M.rnd (((116:ℕ):ℝ) / ((1:ℕ):ℝ)))) -
        (z * (7787 / 1000) + 16 / 116)| ≤ 1e-10 := by
    intro z hz0 hz1 hz
    rw [lit_int M 16 (by norm_num), lit_int M 116 (by norm_num)]
    have nz : Near c'.val z 6e-12 1 := ⟨hz, by rw [abs_of_nonneg hz0]; norm_num at hz1 ⊢; linarith, le_rfl⟩
    have n16 : Near (((16:ℕ):ℝ)) ((16:ℕ):ℝ) 0 16 := Near.nat (by norm_num) (by norm_num)
    have nn := (nz.mul M (Near.lit M 7787 1000 (B := 8) (by norm_num) (by norm_num))).add M
      (n16.div_const M (c := ((116:ℕ):ℝ)) (B' := 1) (by norm_num) (by norm_num) le_rfl)
    exact nn.finish (by push_cast; ring) (by norm_num [FP.eps])
  -- the cube-root branch, computed
  have cub : ∀ z : ℝ, 0.008 ≤ z → z ≤ 1.001 → 0.008 ≤ c'.val → |c'.val - z| ≤ 6e-12 →
      |M.rnd (Real.cbrt c'.val) - Real.cbrt z| ≤ 1e-10 := by
    intro z hz0 hz1 hc' hz
    have l := cbrt_lip hc' hz0
    have hB : |Real.cbrt z| ≤ 2 := by
      obtain ⟨b1, b2⟩ := Lemmas.CurvesD2.cbrt_bounds (x := z) (a := 0) (b := 2) (by norm_num) (by norm_num)
        (by norm_num at hz0 ⊢; linarith) (by norm_num at hz1 ⊢; linarith)
      rw [abs_of_nonneg b1]; exact b2
    have r := rnd_close M (l.trans (mul_le_mul_of_nonneg_left hz (by norm_num))) hB (by norm_num)
    exact r.trans (by norm_num [FP.eps])
  unfold Lab.compute_f fCode
  simp only [FltRF.lt_eq, FltRF.lit_val, decide_eq_true_eq, apply_ite RF.val, FltRF.cbrt_val, FltRF.add_val,
    FltRF.mul_val, FltRF.div_val]
  by_cases hA : M.rnd (((1107:ℕ):ℝ) / ((125000:ℕ):ℝ)) < c'.val
  · rw [if_pos hA]
    have hc'8 : (0.008:ℝ) ≤ c'.val := by rw [e16] at hthr'; norm_num at hthr' hA ⊢; linarith [hthr'.1]
    by_cases hR : (1107 / 125000 : ℝ) < c
    · rw [if_pos hR]
      exact (cub c (by norm_num at hR ⊢; linarith) hc1 hc'8 (h.trans (by norm_num))).trans (by norm_num)
    · rw [if_neg hR]
      rw [not_lt] at hR
      -- c ∈ (thr - 3e-12, thr]
      have hcl : (1107 / 125000 : ℝ) - 3e-12 ≤ c := by
        rw [e16] at hthr'; norm_num at hthr' hA h' ⊢; linarith [hthr'.1, h'.2]
      have k1 := cub (1107 / 125000) (by norm_num) (by norm_num) hc'8
        (by rw [abs_le]; norm_num at h' hcl hR ⊢; constructor <;> linarith [h'.1, h'.2])
      have k1' := abs_le.mp k1
      have hj' := abs_le.mp hj
      rw [abs_le]; norm_num at k1' hj' hcl hR ⊢; constructor <;> linarith [k1'.1, k1'.2, hj'.1, hj'.2]
  · rw [if_neg hA]
    rw [not_lt] at hA
    by_cases hR : (1107 / 125000 : ℝ) < c
    · rw [if_pos hR]
      -- c ∈ (thr, thr + 3e-12)
      have hcu : c ≤ (1107 / 125000 : ℝ) + 3e-12 := by
        rw [e16] at hthr'; norm_num at hthr' hA h' ⊢; linarith [hthr'.2, h'.1]
      have k1 := lin (1107 / 125000) (by norm_num) (by norm_num)
        (by rw [abs_le]; norm_num at h' hcu hR ⊢; constructor <;> linarith [h'.1, h'.2])
      have k2 := cbrt_lip (a := c) (b := 1107 / 125000) (by norm_num at hR ⊢; linarith) (by norm_num)
      rw [abs_of_nonneg (by linarith : (0:ℝ) ≤ c - 1107 / 125000)] at k2
      have k1' := abs_le.mp k1
      have k2' := abs_le.mp k2
      have hj' := abs_le.mp hj
      rw [abs_le]; norm_num at k1' k2' hj' hcu hR ⊢; constructor <;> linarith [k1'.1, k1'.2, hj'.1, hj'.2, k2'.1, k2'.2]
    · rw [if_neg hR]
      rw [not_lt] at hR
      exact (lin c hc0 (by norm_num at hR ⊢; linarith) (h.trans (by norm_num))).trans (by norm_num)

/-- CIELAB of a near-grey XYZ: `a` within `3.6e-4`, `b` within `1.5e-4` of the real model's values for `greyXyz t`
(`500·2·3.5e-7`, `200·2·3.5e-7`: the branch of `compute_f` may be selected differently within `2e-12` of the threshold) -/
theorem lab_grey_fp {x : Xyz (RF M)} {t : ℝ} (h : GreyXyz M x t) :
    |(Lab.from_Xyz x).a.val - (Lab.from_Xyz (Props.C11_cie.greyXyz t)).a| ≤ 3.6e-4 ∧
    |(Lab.from_Xyz x).b.val - (Lab.from_Xyz (Props.C11_cie.greyXyz t)).b| ≤ 1.5e-4 := by
  obtain ⟨t0, t1, hx, hy, hz⟩ := h
  have tpos : 0 < t := by norm_num at t0 ⊢; linarith
  have nX : Near x.x.val (95047 / 100000 * t) 1e-12 1 := ⟨hx, by rw [abs_of_nonneg (by positivity)]; linarith, le_rfl⟩
  have nY : Near x.y.val (10000001 / 10000000 * t) 1e-12 2 := ⟨hy, by rw [abs_of_nonneg (by positivity)]; linarith, by norm_num⟩
  have nZ : Near x.z.val (108883 / 100000 * t) 1e-12 2 := ⟨hz, by rw [abs_of_nonneg (by positivity)]; linarith, by norm_num⟩
  -- the three normalised arguments
  have ax : |(x.x / (C.D65 : RF M × RF M × RF M).1).val - t| ≤ 2e-12 := by
    simp only [C.D65, FltRF.div_val, FltRF.lit_val]
    have n := nX.div M (Near.lit M 95047 100000 (B := 1) (by norm_num) le_rfl) (m := 0.95) (Bq := 1) (by norm_num)
      (by norm_num [FP.eps]) (by rw [abs_of_nonneg (by positivity), div_le_one (by positivity)]; linarith) le_rfl
    exact n.finish (by push_cast; field_simp) (by norm_num [FP.eps])
  have ay : |(x.y / (C.D65 : RF M × RF M × RF M).2.1).val - 10000001 / 10000000 * t| ≤ 2e-12 := by
    simp only [C.D65, FltRF.div_val, FltRF.lit_val]
    rw [lit_int M 1 (by norm_num)]
    have n := nY.div_const M (c := ((1:ℕ):ℝ)) (B' := 2) (by norm_num) (by norm_num) (by norm_num)
    exact n.finish (by push_cast; ring) (by norm_num [FP.eps])
  have az : |(x.z / (C.D65 : RF M × RF M × RF M).2.2).val - t| ≤ 2e-12 := by
    simp only [C.D65, FltRF.div_val, FltRF.lit_val]
    have n := nZ.div M (Near.lit M 108883 100000 (B := 2) (by norm_num) (by norm_num)) (m := 1.08) (Bq := 1) (by norm_num)
      (by norm_num [FP.eps]) (by rw [abs_of_nonneg (by positivity), div_le_one (by positivity)]; linarith) le_rfl
    exact n.finish (by push_cast; field_simp) (by norm_num [FP.eps])
  have fx := compute_f_fp M tpos.le (by linarith) ax
  have fy := compute_f_fp M (c := 10000001 / 10000000 * t) (by positivity) (by norm_num; linarith) ay
  have fz := compute_f_fp M tpos.le (by linarith) az
  obtain ⟨g0, g1⟩ := fCode_grey tpos.le t1
  -- the real model's value
  have hf : ∀ c : ℝ, Lab.compute_f c = fCode c := by intro c; simp [Lab.compute_f, fCode]
  have ex : 95047 / 100000 * t / (((95047:ℕ):ℝ) / ((100000:ℕ):ℝ)) = t := by push_cast; field_simp
  have ey : 10000001 / 10000000 * t / (((1:ℕ):ℝ) / ((1:ℕ):ℝ)) = 10000001 / 10000000 * t := by push_cast; ring
  have ez : 108883 / 100000 * t / (((108883:ℕ):ℝ) / ((100000:ℕ):ℝ)) = t := by push_cast; field_simp
  simp only [Lab.from_Xyz, Props.C11_cie.greyXyz, FltRF.mul_val, FltRF.sub_val, FltRF.lit_val, FltReal.lit_eq, hf]
  rw [lit_int M 500 (by norm_num), lit_int M 200 (by norm_num)]
  simp only [C.D65, FltReal.lit_eq, ex, ey, ez]
  have dA := sub_close M fx fy (B := 1) (by rw [abs_le]; constructor <;> linarith) (by norm_num)
  have dB := sub_close M fy fz (B := 1) (by rw [abs_le]; constructor <;> linarith) (by norm_num)
  have h500 : |((500:ℕ):ℝ) - ((500:ℕ):ℝ) / ((1:ℕ):ℝ)| ≤ 0 := by norm_num
  have h200 : |((200:ℕ):ℝ) - ((200:ℕ):ℝ) / ((1:ℕ):ℝ)| ≤ 0 := by norm_num
  have mA := mul_close M h500 dA (Bx := 500) (By := 1) (by norm_num) (by rw [abs_le]; constructor <;> linarith) (by norm_num)
  have mB := mul_close M h200 dB (Bx := 200) (By := 1) (by norm_num) (by rw [abs_le]; constructor <;> linarith) (by norm_num)
  exact ⟨mA.trans (by norm_num [FP.eps]), mB.trans (by norm_num [FP.eps])⟩

/-! ## CIELUV -/

/-- magnitude of a rounded value -/
theorem rnd_abs_le {x B : ℝ} (hx : |x| ≤ B) (hB : 1e-200 ≤ B) : |M.rnd x| ≤ B * (1 + FP.eps) := by
  have h := rnd_abs M hx hB
  have := abs_sub_abs_le_abs_sub (M.rnd x) x
  linarith

/-- the lightness of `Luv::from(Xyz)` computed, upper branch: `116·pow(y, e) − 16` for `y ∈ [0, 1.000001]` and an exponent
`e ∈ [0, 1]` is of magnitude at most `101` (uses only the error bound of `M.pow`) -/
theorem luvL_hi {y e : ℝ} (hy0 : 0 ≤ y) (hy1 : y ≤ 1.000001) (he0 : 0 ≤ e) (he1 : e ≤ 1) :
    |M.rnd (M.rnd (((116:ℕ):ℝ) * M.pow y e) - ((16:ℕ):ℝ))| ≤ 101 := by
  have hp0 : 0 ≤ y ^ e := Real.rpow_nonneg hy0 e
  have hp1 : y ^ e ≤ 1.000001 := by
    rcases le_or_gt y 1 with h | h
    · exact (Real.rpow_le_one hy0 h he0).trans (by norm_num)
    · calc y ^ e ≤ y ^ (1:ℝ) := Real.rpow_le_rpow_of_exponent_le h.le he1
        _ = y := Real.rpow_one y
        _ ≤ 1.000001 := hy1
  have hpe := M.pow_err y e hy0
  rw [abs_of_nonneg hp0] at hpe
  have hu := FP.u_lt
  have hu0 := FP.u_pos
  have het := FP.eta_lt
  have het0 := FP.eta_pos
  have het' : FP.eta ≤ 1e-6 := by
    have : (1:ℝ) / 10 ^ 240 ≤ 1e-6 := by norm_num
    linarith
  have hpe' := abs_le.mp hpe
  have hP : |((116:ℕ):ℝ) * M.pow y e| ≤ 117 := by
    rw [abs_le]; push_cast; constructor <;> nlinarith [hpe'.1, hpe'.2]
  have hP' := abs_le.mp hP
  have r1 := abs_le.mp (rnd_abs M hP (by norm_num))
  have e16 : FP.eps = 1.2e-16 := rfl
  have lo : -1 ≤ ((116:ℕ):ℝ) * M.pow y e := by push_cast; nlinarith [hpe'.1]
  have hQ : |M.rnd (((116:ℕ):ℝ) * M.pow y e) - ((16:ℕ):ℝ)| ≤ 100.9 := by
    rw [abs_le]; push_cast
    have up : ((116:ℕ):ℝ) * M.pow y e ≤ 116.001 := by push_cast; nlinarith [hpe'.2]
    rw [e16] at r1; norm_num at r1 up lo ⊢
    constructor <;> linarith [r1.1, r1.2]
  have := rnd_abs_le M hQ (by norm_num)
  rw [e16] at this; norm_num at this ⊢; linarith

/-- lower branch: `κ·y` for `y ∈ [0, 0.0089]` -/
theorem luvL_lo {y K : ℝ} (hy0 : 0 ≤ y) (hy1 : y ≤ 0.0089) (hK0 : 0 ≤ K) (hK1 : K ≤ 904) : |M.rnd (K * y)| ≤ 101 := by
  have hQ : |K * y| ≤ 9 := by
    rw [abs_of_nonneg (mul_nonneg hK0 hy0)]; nlinarith
  have := rnd_abs_le M hQ (by norm_num)
  have e16 : FP.eps = 1.2e-16 := rfl
  rw [e16] at this; norm_num at this ⊢; linarith

/-- one chromatic channel `13·L·d` -/
theorem luv_chan {L d : ℝ} (hL : |L| ≤ 101) (hd : |d| ≤ 3.3e-8) :
    |M.rnd (M.rnd (((13:ℕ):ℝ) * L) * d)| ≤ 5e-5 := by
  have e16 : FP.eps = 1.2e-16 := rfl
  have h13 : |((13:ℕ):ℝ) * L| ≤ 1313 := by rw [abs_mul]; push_cast; rw [abs_of_nonneg (by norm_num : (0:ℝ) ≤ 13)]; linarith
  have r := rnd_abs_le M h13 (by norm_num)
  have r' : |M.rnd (((13:ℕ):ℝ) * L)| ≤ 1314 := by rw [e16] at r; norm_num at r ⊢; linarith
  have hP : |M.rnd (((13:ℕ):ℝ) * L) * d| ≤ 4.4e-5 := by
    rw [abs_mul]
    calc |M.rnd (((13:ℕ):ℝ) * L)| * |d| ≤ 1314 * 3.3e-8 := mul_le_mul r' hd (abs_nonneg _) (by norm_num)
      _ ≤ 4.4e-5 := by norm_num
  have := rnd_abs_le M hP (by norm_num)
  rw [e16] at this; norm_num at this ⊢; linarith

/-- the real chromaticity offsets `u' − u'ₙ`, `v' − v'ₙ` of a grey (independent of the level): about `−1.5e-8`, `1e-8` -/
theorem luv_real_offsets :
    |4 * (95047 / 100000 : ℝ) / (95047 / 100000 + 15 * (10000001 / 10000000) + 3 * (108883 / 100000))
      - 4 * (95047 / 100000) / (95047 / 100000 + 15 * 1 + 3 * (108883 / 100000))| ≤ 2e-8 ∧
    |9 * (10000001 / 10000000 : ℝ) / (95047 / 100000 + 15 * (10000001 / 10000000) + 3 * (108883 / 100000))
      - 9 * 1 / (95047 / 100000 + 15 * 1 + 3 * (108883 / 100000))| ≤ 2e-8 := by
  constructor <;> (rw [abs_le]; constructor <;> norm_num)

/-- `Luv::compute_compounds` in `RF M` on three computed numbers within `1e-12` of a real triple with `X ≥ 1e-4` and
`X + 15Y + 3Z ≥ 5.7e-3`: `(u', v')` within `6e-9` of `4X/(X+15Y+3Z)`, `9Y/(X+15Y+3Z)`; the null test fails (`X' > 0`) -/
theorem compounds_fp {X' Y' Z' : RF M} {X Y Z : ℝ} (hX : |X'.val - X| ≤ 1e-12) (hY : |Y'.val - Y| ≤ 1e-12)
    (hZ : |Z'.val - Z| ≤ 1e-12) (hX0 : 1e-4 ≤ X) (hX1 : X ≤ 1) (hY0 : 0 ≤ Y) (hY1 : Y ≤ 2) (hZ0 : 0 ≤ Z) (hZ1 : Z ≤ 2)
    (hm : 5.7e-3 ≤ X + 15 * Y + 3 * Z) (hXY : X ≤ 5 * Y + Z) :
    |(Luv.compute_compounds X' Y' Z').1.val - 4 * X / (X + 15 * Y + 3 * Z)| ≤ 6e-9 ∧
    |(Luv.compute_compounds X' Y' Z').2.val - 9 * Y / (X + 15 * Y + 3 * Z)| ≤ 6e-9 := by
  have hX' := abs_le.mp hX
  have xpos : 0 < X'.val := by norm_num at hX' hX0 ⊢; linarith [hX'.1]
  have Xpos : 0 < X := by norm_num at hX0 ⊢; linarith
  have nn : ¬ X'.val = 0 := ne_of_gt xpos
  simp only [Luv.compute_compounds, FltRF.beq_eq, FltRF.lit_val, lit0, nn, decide_false, Bool.false_eq_true, if_false,
    FltRF.div_val, FltRF.mul_val, FltRF.add_val]
  rw [lit_int M 4 (by norm_num), lit_int M 15 (by norm_num), lit_int M 3 (by norm_num), lit_int M 9 (by norm_num)]
  have nX : Near X'.val X 1e-12 1 := ⟨hX, by rw [abs_of_nonneg Xpos.le]; exact hX1, le_rfl⟩
  have nY : Near Y'.val Y 1e-12 2 := ⟨hY, by rw [abs_of_nonneg hY0]; exact hY1, by norm_num⟩
  have nZ : Near Z'.val Z 1e-12 2 := ⟨hZ, by rw [abs_of_nonneg hZ0]; exact hZ1, by norm_num⟩
  have n4 : Near (((4:ℕ):ℝ)) ((4:ℕ):ℝ) 0 4 := Near.nat (by norm_num) (by norm_num)
  have n15 : Near (((15:ℕ):ℝ)) ((15:ℕ):ℝ) 0 15 := Near.nat (by norm_num) (by norm_num)
  have n3 : Near (((3:ℕ):ℝ)) ((3:ℕ):ℝ) 0 3 := Near.nat (by norm_num) (by norm_num)
  have n9 : Near (((9:ℕ):ℝ)) ((9:ℕ):ℝ) 0 9 := Near.nat (by norm_num) (by norm_num)
  have eU := (n4.mul M nX).finish (x' := 4 * X) (by push_cast; ring) (tol := 4.1e-12) (by norm_num [FP.eps])
  have eV := (n9.mul M nY).finish (x' := 9 * Y) (by push_cast; ring) (tol := 9.1e-12) (by norm_num [FP.eps])
  have eD := ((nX.add M (n15.mul M nY)).add M (n3.mul M nZ)).finish (x' := X + 15 * Y + 3 * Z) (by push_cast; ring)
    (tol := 2e-11) (by norm_num [FP.eps])
  have Spos : 0 < X + 15 * Y + 3 * Z := by norm_num at hm ⊢; linarith
  have hS : (5.7e-3:ℝ) ≤ |X + 15 * Y + 3 * Z| := by rw [abs_of_pos Spos]; exact hm
  have q1 : |4 * X / (X + 15 * Y + 3 * Z)| ≤ 1 := by
    rw [abs_of_nonneg (by positivity), div_le_one Spos]; linarith
  have q2 : |9 * Y / (X + 15 * Y + 3 * Z)| ≤ 1 := by
    rw [abs_of_nonneg (by positivity), div_le_one Spos]; linarith
  have d1 := FpHexcone.div_close_q M eU eD hS (by norm_num) q1 (by norm_num)
  have d2 := FpHexcone.div_close_q M eV eD hS (by norm_num) q2 (by norm_num)
  refine ⟨le_trans d1 ?_, le_trans d2 ?_⟩ <;> norm_num [FP.eps]

/-- the rounded difference of two computed chromaticities -/
theorem diff_bound {p q A B : ℝ} (hp : |p - A| ≤ 6e-9) (hq : |q - B| ≤ 6e-9) (hAB : |A - B| ≤ 2e-8) :
    |M.rnd (p - q)| ≤ 3.3e-8 := by
  have a := abs_le.mp hp
  have b := abs_le.mp hq
  have c := abs_le.mp hAB
  have hB : |p - q| ≤ 3.2e-8 := by
    rw [abs_le]; norm_num at a b c ⊢; constructor <;> linarith [a.1, a.2, b.1, b.2, c.1, c.2]
  have := rnd_abs_le M hB (by norm_num)
  have e16 : FP.eps = 1.2e-16 := rfl
  rw [e16] at this; norm_num at this ⊢; linarith

/-- CIELUV of a near-grey XYZ: `|u|, |v| ≤ 5e-5` in every model (the real model has `≤ 3e-5`: `13·L·(u' − u'ₙ)` with
`|u' − u'ₙ| ≤ 2e-8`; the computed chromaticities are within `6e-9` of the real ones and `|L| ≤ 101` in either branch,
whichever way the threshold test `ε < y` is decided) -/
theorem luv_grey_fp {x : Xyz (RF M)} {t : ℝ} (h : GreyXyz M x t) :
    |(Luv.from_Xyz x).u.val| ≤ 5e-5 ∧ |(Luv.from_Xyz x).v.val| ≤ 5e-5 := by
  obtain ⟨t0, t1, hx, hy, hz⟩ := h
  have tpos : 0 < t := by norm_num at t0 ⊢; linarith
  have e16 : FP.eps = 1.2e-16 := rfl
  -- chromaticity of the colour
  obtain ⟨cu, cv⟩ := compounds_fp M hx hy hz (by norm_num at t0 ⊢; linarith) (by linarith) (by positivity) (by linarith)
    (by positivity) (by linarith) (by norm_num at t0 ⊢; linarith) (by linarith)
  -- chromaticity of the white (three rounded literals)
  have wX : |((C.D65 : RF M × RF M × RF M).1).val - 95047 / 100000| ≤ 1e-12 := by
    simp only [C.D65, FltRF.lit_val]
    have := lit_close M 95047 100000 (B := 1) (by norm_num) (by norm_num)
    rw [e16] at this; norm_num at this ⊢; linarith
  have wY : |((C.D65 : RF M × RF M × RF M).2.1).val - 1| ≤ 1e-12 := by
    simp only [C.D65, FltRF.lit_val]; rw [lit_int M 1 (by norm_num)]; norm_num
  have wZ : |((C.D65 : RF M × RF M × RF M).2.2).val - 108883 / 100000| ≤ 1e-12 := by
    simp only [C.D65, FltRF.lit_val]
    have := lit_close M 108883 100000 (B := 2) (by norm_num) (by norm_num)
    rw [e16] at this; norm_num at this ⊢; linarith
  obtain ⟨wu, wv⟩ := compounds_fp M wX wY wZ (by norm_num) (by norm_num) (by norm_num) (by norm_num) (by norm_num)
    (by norm_num) (by norm_num) (by norm_num)
  obtain ⟨ru, rv⟩ := luv_real_offsets
  have eu : 4 * (95047 / 100000 * t) / (95047 / 100000 * t + 15 * (10000001 / 10000000 * t) + 3 * (108883 / 100000 * t))
      = 4 * (95047 / 100000 : ℝ) / (95047 / 100000 + 15 * (10000001 / 10000000) + 3 * (108883 / 100000)) := by
    field_simp
  have ev : 9 * (10000001 / 10000000 * t) / (95047 / 100000 * t + 15 * (10000001 / 10000000 * t) + 3 * (108883 / 100000 * t))
      = 9 * (10000001 / 10000000 : ℝ) / (95047 / 100000 + 15 * (10000001 / 10000000) + 3 * (108883 / 100000)) := by
    field_simp
  rw [eu] at cu; rw [ev] at cv
  -- the two differences
  have du := diff_bound M cu wu ru
  have dv := diff_bound M cv wv rv
  -- the normalised luminance
  have hy' := abs_le.mp hy
  have y2 : (x.y / (C.D65 : RF M × RF M × RF M).2.1).val = M.rnd (x.y.val / ((1:ℕ):ℝ)) := by
    simp only [C.D65, FltRF.div_val, FltRF.lit_val]; rw [lit_int M 1 (by norm_num)]
  have y2_0 : 0 ≤ M.rnd (x.y.val / ((1:ℕ):ℝ)) :=
    rnd_nonneg M (by push_cast; rw [div_one]; norm_num at hy' t0 ⊢; linarith [hy'.1])
  have y2_1 : M.rnd (x.y.val / ((1:ℕ):ℝ)) ≤ 1.000001 := by
    have hB : |x.y.val / ((1:ℕ):ℝ)| ≤ 1.0000002 := by
      push_cast; rw [div_one, abs_le]; norm_num at hy' t0 ⊢; constructor <;> linarith [hy'.1, hy'.2]
    have := rnd_abs_le M hB (by norm_num)
    rw [e16] at this
    have h2 := le_abs_self (M.rnd (x.y.val / ((1:ℕ):ℝ)))
    norm_num at this h2 ⊢; linarith
  simp only [Luv.from_Xyz]
  split_ifs with hb
  · -- upper branch
    simp only [FltRF.mul_val, FltRF.sub_val, FltRF.lit_val, FltRF.pow_val, FltRF.div_val, y2]
    rw [lit_int M 13 (by norm_num), lit_int M 116 (by norm_num), lit_int M 16 (by norm_num)]
    have e0 : 0 ≤ M.rnd (M.rnd (((1:ℕ):ℝ) / ((1:ℕ):ℝ)) / M.rnd (((3:ℕ):ℝ) / ((1:ℕ):ℝ))) := by
      rw [lit_int M 1 (by norm_num), lit_int M 3 (by norm_num)]; exact rnd_nonneg M (by norm_num)
    have e1 : M.rnd (M.rnd (((1:ℕ):ℝ) / ((1:ℕ):ℝ)) / M.rnd (((3:ℕ):ℝ) / ((1:ℕ):ℝ))) ≤ 1 := by
      rw [lit_int M 1 (by norm_num), lit_int M 3 (by norm_num)]; exact rnd_le_one M (by norm_num)
    have hL := luvL_hi M y2_0 y2_1 e0 e1
    exact ⟨luv_chan M hL du, luv_chan M hL dv⟩
  · -- lower branch: `y ≤ ε'`
    simp only [C.EPSILON, FltRF.lt_eq, FltRF.lit_val, decide_eq_true_eq, not_lt, y2] at hb
    simp only [C.KAPPA, FltRF.mul_val, FltRF.sub_val, FltRF.lit_val, y2]
    rw [lit_int M 13 (by norm_num)]
    have hε := abs_le.mp (lit_close M 1107 125000 (B := 1) (by norm_num) (by norm_num))
    have hκ := abs_le.mp (lit_close M 9033 10 (B := 904) (by norm_num) (by norm_num))
    have hL := luvL_lo M (K := M.rnd (((9033:ℕ):ℝ) / ((10:ℕ):ℝ))) y2_0
      (by rw [e16] at hε; norm_num at hε hb ⊢; linarith [hε.2]) (rnd_nonneg M (by positivity))
      (by rw [e16] at hκ; norm_num at hκ ⊢; linarith [hκ.2])
    exact ⟨luv_chan M hL du, luv_chan M hL dv⟩

/-! ## black: XYZ = (0, 0, 0) exactly -/

/-- CIELAB of XYZ `(0,0,0)`: `a = b = 0` exactly (the three arguments of `compute_f` are the same number `0`) -/
theorem lab_black_fp {x : Xyz (RF M)} (hx : x.x.val = 0) (hy : x.y.val = 0) (hz : x.z.val = 0) :
    (Lab.from_Xyz x).a.val = 0 ∧ (Lab.from_Xyz x).b.val = 0 := by
  have e1 : x.x / (C.D65 : RF M × RF M × RF M).1 = ⟨0⟩ := RF.ext' (by simp only [FltRF.div_val, hx, zero_div, rnd_zero])
  have e2 : x.y / (C.D65 : RF M × RF M × RF M).2.1 = ⟨0⟩ := RF.ext' (by simp only [FltRF.div_val, hy, zero_div, rnd_zero])
  have e3 : x.z / (C.D65 : RF M × RF M × RF M).2.2 = ⟨0⟩ := RF.ext' (by simp only [FltRF.div_val, hz, zero_div, rnd_zero])
  simp only [Lab.from_Xyz, e1, e2, e3, FltRF.mul_val, FltRF.sub_val, sub_self, rnd_zero, mul_zero, and_self]

/-- CIELUV of an XYZ with `Y = 0` (in particular `(0,0,0)`): `u = v = 0` exactly (`L = κ·0 = 0`) -/
theorem luv_black_fp {x : Xyz (RF M)} (hy : x.y.val = 0) :
    (Luv.from_Xyz x).u.val = 0 ∧ (Luv.from_Xyz x).v.val = 0 := by
  have e2 : (x.y / (C.D65 : RF M × RF M × RF M).2.1).val = 0 := by simp only [FltRF.div_val, hy, zero_div, rnd_zero]
  have hε : 0 ≤ M.rnd (((1107:ℕ):ℝ) / ((125000:ℕ):ℝ)) := rnd_nonneg M (by positivity)
  have hb : ¬ (M.rnd (((1107:ℕ):ℝ) / ((125000:ℕ):ℝ)) < 0) := not_lt.mpr hε
  simp only [Luv.from_Xyz, C.EPSILON, FltRF.lt_eq, FltRF.lit_val, e2, hb, decide_false, Bool.false_eq_true, if_false,
    FltRF.mul_val, mul_zero, rnd_zero, zero_mul, and_self]

/-- Hunter Lab of an XYZ with `Y = 0`: the guard returns `(0, 0, 0)` -/
theorem hlab_black_fp {x : Xyz (RF M)} (hy : x.y.val = 0) :
    (Hlab.from_Xyz x).a.val = 0 ∧ (Hlab.from_Xyz x).b.val = 0 := by
  simp only [Hlab.from_Xyz, FltRF.beq_eq, FltRF.lit_val, lit0, hy, decide_true, if_true, and_self]

/-- xyY of XYZ `(0,0,0)`: the chromaticity is the rounded literal of the white point -/
theorem xyy_black_fp {x : Xyz (RF M)} (hx : x.x.val = 0) (hy : x.y.val = 0) (hz : x.z.val = 0) :
    |(Xyy.from_Xyz x).x.val - 0.31271| ≤ 1e-15 ∧ |(Xyy.from_Xyz x).y.val - 0.32902| ≤ 1e-15 := by
  simp only [Xyy.from_Xyz, Xyy.get_fields_from_xyz, Xyy.compute_xyy, Xyz.is_null, FltRF.beq_eq, FltRF.lit_val, lit0,
    hx, hy, hz, decide_true, if_true, Option.getD_none, C.CHROMA_X, C.CHROMA_Y]
  have h1 := lit_close M 31271 100000 (B := 1) (by norm_num) (by norm_num)
  have h2 := lit_close M 16451 50000 (B := 1) (by norm_num) (by norm_num)
  have e16 : FP.eps = 1.2e-16 := rfl
  rw [e16] at h1 h2
  constructor
  · refine le_trans (le_of_eq ?_) (h1.trans (by norm_num)); congr 1; norm_num
  · refine le_trans (le_of_eq ?_) (h2.trans (by norm_num)); congr 1; norm_num

/-! ## lightness of white and black in the CIE spaces -/

/-- `116·p − 16` computed, for `p` within `[1 − 1e-12, 1.00000011]` -/
theorem lstar_white {p : ℝ} (h0 : 1 - 1e-12 ≤ p) (h1 : p ≤ 1.00000011) :
    |M.rnd (M.rnd (((116:ℕ):ℝ) * p) - ((16:ℕ):ℝ)) - 100| ≤ 2e-5 := by
  have np : Near p p 0 2 := Near.exact (by rw [abs_le]; norm_num at h0 h1 ⊢; constructor <;> linarith) (by norm_num)
  have n116 : Near (((116:ℕ):ℝ)) ((116:ℕ):ℝ) 0 116 := Near.nat (by norm_num) (by norm_num)
  have n16 : Near (((16:ℕ):ℝ)) ((16:ℕ):ℝ) 0 16 := Near.nat (by norm_num) (by norm_num)
  have e := ((n116.mul M np).sub M n16).finish rfl (tol := 1e-12) (by norm_num [FP.eps])
  have e' := abs_le.mp e
  rw [abs_le]; push_cast at e' ⊢; norm_num at e' h0 h1 ⊢; constructor <;> linarith [e'.1, e'.2]

/-- the luminance of a computed XYZ within `1e-12` of the real white `Y = 1.0000001` -/
structure WhiteY (x : Xyz (RF M)) : Prop where
  hy : |x.y.val - 10000001 / 10000000| ≤ 1e-12

/-- CIELAB, CIELUV and Hunter lightness of such an XYZ: within `2e-5` of `100` -/
theorem white_lightness_fp {x : Xyz (RF M)} (h : WhiteY M x) :
    |(Lab.from_Xyz x).l.val - 100| ≤ 2e-5 ∧ |(Luv.from_Xyz x).l.val - 100| ≤ 2e-5 ∧
    |(Hlab.from_Xyz x).l.val - 100| ≤ 2e-5 := by
  have hy := abs_le.mp h.hy
  have e16 : FP.eps = 1.2e-16 := rfl
  -- the normalised luminance `y / 1.0`
  have y2 : (x.y / (C.D65 : RF M × RF M × RF M).2.1).val = M.rnd (x.y.val / ((1:ℕ):ℝ)) := by
    simp only [C.D65, FltRF.div_val, FltRF.lit_val]; rw [lit_int M 1 (by norm_num)]
  have y2lo : 1 ≤ M.rnd (x.y.val / ((1:ℕ):ℝ)) := by
    have := nat_le_rnd M 1 (by norm_num) (x := x.y.val / ((1:ℕ):ℝ)) (by push_cast; rw [div_one]; norm_num at hy ⊢; linarith [hy.1])
    simpa using this
  have y2hi : M.rnd (x.y.val / ((1:ℕ):ℝ)) ≤ 1.000000102 := by
    have hB : |x.y.val / ((1:ℕ):ℝ)| ≤ 1.000000101 := by
      push_cast; rw [div_one, abs_le]; norm_num at hy ⊢; constructor <;> linarith [hy.1, hy.2]
    have := rnd_abs_le M hB (by norm_num)
    have h2 := le_abs_self (M.rnd (x.y.val / ((1:ℕ):ℝ)))
    rw [e16] at this; norm_num at this h2 ⊢; linarith
  have hε := abs_le.mp (lit_close M 1107 125000 (B := 1) (by norm_num) (by norm_num))
  have hthr : M.rnd (((1107:ℕ):ℝ) / ((125000:ℕ):ℝ)) < M.rnd (x.y.val / ((1:ℕ):ℝ)) := by
    have h1 := y2lo
    rw [e16] at hε; norm_num at hε h1 ⊢; linarith [hε.2]
  refine ⟨?_, ?_, ?_⟩
  · -- CIELAB: `f = cbrt`
    simp only [Lab.from_Xyz, Lab.compute_f, FltRF.lt_eq, FltRF.lit_val, y2, hthr, decide_true, if_true,
      FltRF.mul_val, FltRF.sub_val, FltRF.cbrt_val]
    rw [lit_int M 116 (by norm_num), lit_int M 16 (by norm_num)]
    obtain ⟨c0, c1⟩ := Lemmas.CurvesD2.cbrt_bounds (x := M.rnd (x.y.val / ((1:ℕ):ℝ))) (a := 1) (b := 1.00000005)
      (by norm_num) (by norm_num) (by rw [one_pow]; exact y2lo) (by norm_num at y2hi ⊢; linarith)
    have p0 : 1 ≤ M.rnd (Real.cbrt (M.rnd (x.y.val / ((1:ℕ):ℝ)))) := by
      have := nat_le_rnd M 1 (by norm_num) (x := Real.cbrt (M.rnd (x.y.val / ((1:ℕ):ℝ)))) (by simpa using c0)
      simpa using this
    have p1 : M.rnd (Real.cbrt (M.rnd (x.y.val / ((1:ℕ):ℝ)))) ≤ 1.00000011 := by
      have := rnd_abs_le M (x := Real.cbrt (M.rnd (x.y.val / ((1:ℕ):ℝ)))) (B := 1.00000005)
        (by rw [abs_of_nonneg (by linarith)]; exact c1) (by norm_num)
      have h2 := le_abs_self (M.rnd (Real.cbrt (M.rnd (x.y.val / ((1:ℕ):ℝ)))))
      rw [e16] at this; norm_num at this h2 ⊢; linarith
    exact lstar_white M (by linarith) p1
  · -- CIELUV: `pow(y, 1/3)` with `y ≥ 1`, exponent in `[0, 1]`: between `1` and `y` (no appeal to the exponent's value)
    simp only [Luv.from_Xyz, C.EPSILON, FltRF.lt_eq, FltRF.lit_val, y2, hthr, decide_true, if_true,
      FltRF.mul_val, FltRF.sub_val, FltRF.pow_val, FltRF.div_val]
    rw [lit_int M 116 (by norm_num), lit_int M 16 (by norm_num), lit_int M 1 (by norm_num), lit_int M 3 (by norm_num)]
    have e0 : 0 ≤ M.rnd (((1:ℕ):ℝ) / ((3:ℕ):ℝ)) := rnd_nonneg M (by norm_num)
    have e1 : M.rnd (((1:ℕ):ℝ) / ((3:ℕ):ℝ)) ≤ 1 := rnd_le_one M (by norm_num)
    generalize M.rnd (((1:ℕ):ℝ) / ((3:ℕ):ℝ)) = e at e0 e1 ⊢
    generalize M.rnd (x.y.val / ((1:ℕ):ℝ)) = y at y2lo y2hi ⊢
    have r0 : 1 ≤ y ^ e := Real.one_le_rpow y2lo e0
    have r1 : y ^ e ≤ 1.000000102 := by
      calc y ^ e ≤ y ^ (1:ℝ) := Real.rpow_le_rpow_of_exponent_le y2lo e1
        _ = y := Real.rpow_one y
        _ ≤ 1.000000102 := y2hi
    have hpe := abs_le.mp (M.pow_err y e (by linarith))
    rw [abs_of_nonneg (by linarith : (0:ℝ) ≤ y ^ e)] at hpe
    have hu := FP.u_lt
    have hu0 := FP.u_pos
    have het := FP.eta_lt
    have het0 := FP.eta_pos
    have het' : FP.eta ≤ 1e-15 := by
      have : (1:ℝ) / 10 ^ 240 ≤ 1e-15 := by norm_num
      linarith
    exact lstar_white M (by norm_num at hu ⊢; nlinarith [hpe.1]) (by norm_num at hu r1 ⊢; nlinarith [hpe.2])
  · -- Hunter: `1000·√(y/100)`... the code scales `√(y/Yn)` by the literal it carries
    have ypos : ¬ x.y.val = 0 := by intro h0; rw [h0] at hy; norm_num at hy
    simp only [Hlab.from_Xyz, C.YN, FltRF.beq_eq, FltRF.lit_val, lit0, ypos, decide_false, Bool.false_eq_true, if_false,
      FltRF.mul_val, FltRF.sqrt_val, FltRF.div_val]
    rw [lit_int M 100 (by norm_num)]
    have hq : |x.y.val / ((100:ℕ):ℝ)| ≤ 1 := by
      push_cast; rw [abs_le]; norm_num at hy ⊢; constructor <;> linarith [hy.1, hy.2]
    have rq := abs_le.mp (rnd_abs M hq (by norm_num))
    have q0 : (0.1:ℝ) ^ 2 ≤ M.rnd (x.y.val / ((100:ℕ):ℝ)) := by
      rw [e16] at rq; push_cast at rq ⊢; norm_num at rq hy ⊢; linarith [rq.1, hy.1]
    have q1 : M.rnd (x.y.val / ((100:ℕ):ℝ)) ≤ (0.10000001:ℝ) ^ 2 := by
      rw [e16] at rq; push_cast at rq ⊢; norm_num at rq hy ⊢; linarith [rq.2, hy.2]
    have s0 : (0.1:ℝ) ≤ √(M.rnd (x.y.val / ((100:ℕ):ℝ))) := Real.le_sqrt_of_sq_le q0
    have s1 : √(M.rnd (x.y.val / ((100:ℕ):ℝ))) ≤ 0.10000001 := by
      rw [Real.sqrt_le_left (by norm_num)]; exact q1
    have rs := abs_le.mp (rnd_abs M (x := √(M.rnd (x.y.val / ((100:ℕ):ℝ)))) (B := 1)
      (by rw [abs_of_nonneg (Real.sqrt_nonneg _)]; linarith) (by norm_num))
    generalize √(M.rnd (x.y.val / ((100:ℕ):ℝ))) = sq at s0 s1 rs ⊢
    rw [lit_int M 1000 (by norm_num)]
    have ns : Near (M.rnd sq) (M.rnd sq) 0 1 :=
      Near.exact (by rw [e16] at rs; rw [abs_le]; norm_num at rs s0 s1 ⊢; constructor <;> linarith [rs.1, rs.2]) le_rfl
    have n1000 : Near (((1000:ℕ):ℝ)) ((1000:ℕ):ℝ) 0 1000 := Near.nat (by norm_num) (by norm_num)
    have e := abs_le.mp ((n1000.mul M ns).finish rfl (tol := 1e-12) (by norm_num [FP.eps]))
    rw [e16] at rs
    rw [abs_le]; push_cast at e ⊢; norm_num at e rs s0 s1 ⊢; constructor <;> linarith [e.1, e.2, rs.1, rs.2]

/-- lightness of an XYZ with `Y = 0`: CIELUV and Hunter `L = 0` exactly; CIELAB `|L| ≤ 1e-13` — NOT exactly `0` in
every model: `L = 116·rnd(rnd(16/116)) − 16` and the rounded quotient `16/116` times `116` need not give back `16` -/
theorem black_lightness_fp {x : Xyz (RF M)} (hy : x.y.val = 0) :
    |(Lab.from_Xyz x).l.val| ≤ 1e-13 ∧ (Luv.from_Xyz x).l.val = 0 ∧ (Hlab.from_Xyz x).l.val = 0 := by
  have e2 : (x.y / (C.D65 : RF M × RF M × RF M).2.1).val = 0 := by simp only [FltRF.div_val, hy, zero_div, rnd_zero]
  have hε : 0 ≤ M.rnd (((1107:ℕ):ℝ) / ((125000:ℕ):ℝ)) := rnd_nonneg M (by positivity)
  have hb : ¬ (M.rnd (((1107:ℕ):ℝ) / ((125000:ℕ):ℝ)) < 0) := not_lt.mpr hε
  refine ⟨?_, ?_, ?_⟩
  · simp only [Lab.from_Xyz, Lab.compute_f, FltRF.lt_eq, FltRF.lit_val, e2, hb, decide_false, Bool.false_eq_true,
      if_false, FltRF.mul_val, FltRF.sub_val, FltRF.add_val, FltRF.div_val, zero_mul, rnd_zero, zero_add]
    rw [lit_int M 116 (by norm_num), lit_int M 16 (by norm_num)]
    have n116 : Near (((116:ℕ):ℝ)) ((116:ℕ):ℝ) 0 116 := Near.nat (by norm_num) (by norm_num)
    have n16 : Near (((16:ℕ):ℝ)) ((16:ℕ):ℝ) 0 16 := Near.nat (by norm_num) (by norm_num)
    have q := (n16.div_const M (c := ((116:ℕ):ℝ)) (B' := 1) (by norm_num) (by norm_num) le_rfl).rnd M
    have e := ((n116.mul M q).sub M n16).finish (x' := 0) (by push_cast; norm_num) (tol := 1e-13) (by norm_num [FP.eps])
    simpa using e
  · simp only [Luv.from_Xyz, C.EPSILON, FltRF.lt_eq, FltRF.lit_val, e2, hb, decide_false, Bool.false_eq_true, if_false,
      FltRF.mul_val, mul_zero, rnd_zero]
  · simp only [Hlab.from_Xyz, FltRF.beq_eq, FltRF.lit_val, lit0, hy, decide_true, if_true]

end FpGrey
