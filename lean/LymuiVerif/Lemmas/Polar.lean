import LymuiVerif.Inst.Real
/-!
# Polar / Cartesian lemmas (used by C14)

`atan2 y x` is `Complex.arg ⟨x, y⟩` on the exact-real instance.  These lemmas relate
`√(a²+b²)`, `arg ⟨a,b⟩`, and `cos`/`sin`, in radians and in degrees.
-/
namespace Lemmas.Polar
open Real

theorem sqrt_sq_add_sq_eq_norm (a b : ℝ) : √(a ^ 2 + b ^ 2) = ‖(⟨a, b⟩ : ℂ)‖ := by
  rw [Complex.norm_eq_sqrt_sq_add_sq]

theorem sqrt_mul_cos_arg (a b : ℝ) : √(a ^ 2 + b ^ 2) * cos (Complex.arg ⟨a, b⟩) = a := by
  rw [sqrt_sq_add_sq_eq_norm, Complex.norm_mul_cos_arg]

theorem sqrt_mul_sin_arg (a b : ℝ) : √(a ^ 2 + b ^ 2) * sin (Complex.arg ⟨a, b⟩) = b := by
  rw [sqrt_sq_add_sq_eq_norm, Complex.norm_mul_sin_arg]

/-- degrees → radians after radians → degrees is the identity (the code's two helper functions) -/
theorem deg_rad (θ : ℝ) : 180 * θ / π * π / 180 = θ := by
  field_simp

theorem deg_rad_add (θ : ℝ) : (180 * θ / π + 360) * π / 180 = θ + 2 * π := by
  field_simp; ring

theorem deg_rad_sub (θ : ℝ) : (180 * θ / π - 360) * π / 180 = θ - 2 * π := by
  field_simp; ring

theorem deg_rad_add_int (θ : ℝ) (k : ℤ) : (180 * θ / π + 360 * k) * π / 180 = θ + k * (2 * π) := by
  field_simp; ring

/-- the angle in degrees lies in (-180, 180] -/
theorem deg_arg_le (a b : ℝ) : 180 * Complex.arg ⟨a, b⟩ / π ≤ 180 := by
  rw [div_le_iff₀ pi_pos]; nlinarith [Complex.arg_le_pi ⟨a, b⟩]

theorem neg_lt_deg_arg (a b : ℝ) : -180 < 180 * Complex.arg ⟨a, b⟩ / π := by
  rw [lt_div_iff₀ pi_pos]; nlinarith [Complex.neg_pi_lt_arg ⟨a, b⟩]

theorem deg_arg_eq_zero_iff (a b : ℝ) : 180 * Complex.arg ⟨a, b⟩ / π = 0 ↔ 0 ≤ a ∧ b = 0 := by
  rw [div_eq_zero_iff, mul_eq_zero]
  constructor
  · rintro ((h | h) | h)
    · norm_num at h
    · exact Complex.arg_eq_zero_iff.mp h
    · exact absurd h pi_ne_zero
  · intro h; exact Or.inl (Or.inr (Complex.arg_eq_zero_iff.mpr h))

/-- `√(a²+b²)·cos` and `·sin` of the angle in degrees plus `k` turns, converted back to radians -/
theorem cos_sin_polar (a b : ℝ) (k : ℤ) :
    √(a ^ 2 + b ^ 2) * cos ((Complex.arg ⟨a, b⟩ * 180 / π + 360 * k) * π / 180) = a ∧
    √(a ^ 2 + b ^ 2) * sin ((Complex.arg ⟨a, b⟩ * 180 / π + 360 * k) * π / 180) = b := by
  have e : (Complex.arg ⟨a, b⟩ * 180 / π + 360 * k) * π / 180 = Complex.arg ⟨a, b⟩ + k * (2 * π) := by
    have := deg_rad_add_int (Complex.arg ⟨a, b⟩) k
    rw [← this]; ring
  rw [e, cos_add_int_mul_two_pi, sin_add_int_mul_two_pi]
  exact ⟨sqrt_mul_cos_arg a b, sqrt_mul_sin_arg a b⟩

/-- chroma of a polar-built vector -/
theorem sqrt_polar (C θ : ℝ) (hC : 0 ≤ C) : √((C * cos θ) ^ 2 + (C * sin θ) ^ 2) = C := by
  have : (C * cos θ) ^ 2 + (C * sin θ) ^ 2 = C ^ 2 := by
    nlinarith [cos_sq_add_sin_sq θ]
  rw [this, sqrt_sq hC]

/-- hue of a polar-built vector: the argument is the angle up to a whole number of turns -/
theorem arg_polar (C θ : ℝ) (hC : 0 < C) :
    ∃ k : ℤ, Complex.arg ⟨C * cos θ, C * sin θ⟩ = θ + k * (2 * π) := by
  have h1 : (⟨C * cos θ, C * sin θ⟩ : ℂ) = (C : ℂ) * (Complex.cos θ + Complex.sin θ * Complex.I) := by
    apply Complex.ext <;> simp [Complex.cos_ofReal_re, Complex.sin_ofReal_re]
  rw [h1, Complex.arg_mul_cos_add_sin_mul_I_eq_toIocMod hC]
  refine ⟨-toIocDiv two_pi_pos (-π) θ, ?_⟩
  have := toIocMod_add_toIocDiv_zsmul two_pi_pos (-π) θ
  rw [zsmul_eq_mul] at this
  push_cast
  linarith

end Lemmas.Polar
