import LymuiVerif.Inst.Real
/-!
# The XYZ matrices of `xyz/matrices.rs` (generated constants `C.X65 … C.ARZ`)

`fwd k` / `rev k` pair the generated rows with the profile they are *meant* for; that the code
really wires them this way is `Props.C05.forward_def` / `reverse_def`.  Every lemma here is a
numeric fact about the GENERATED literals (proved by `norm_num` after unfolding them), so an edited
constant in the Rust source breaks the proofs.
-/
namespace Lemmas.Matrix
open Gen

abbrev V3 := ℝ × ℝ × ℝ
abbrev M3 := V3 × V3 × V3

/-- forward (RGB → XYZ) rows of a profile, as generated -/
noncomputable def fwd : XyzKind → M3
  | .D65 => (C.X65, C.Y65, C.Z65)
  | .D50 => (C.X50, C.Y50, C.Z50)
  | .Adobe => (C.AX, C.AY, C.AZ)

/-- reverse (XYZ → RGB) rows of a profile, as generated -/
noncomputable def rev : XyzKind → M3
  | .D65 => (C.RX65, C.RY65, C.RZ65)
  | .D50 => (C.RX50, C.RY50, C.RZ50)
  | .Adobe => (C.ARX, C.ARY, C.ARZ)

/-- component `i` of a triple -/
def V3.get (v : V3) : Fin 3 → ℝ
  | 0 => v.1
  | 1 => v.2.1
  | 2 => v.2.2

/-- row `i` of a matrix -/
def M3.row (m : M3) : Fin 3 → V3
  | 0 => m.1
  | 1 => m.2.1
  | 2 => m.2.2

/-- entry `(i, j)` -/
def M3.ent (m : M3) (i j : Fin 3) : ℝ := V3.get (M3.row m i) j

def dot (a b : V3) : ℝ := a.1 * b.1 + a.2.1 * b.2.1 + a.2.2 * b.2.2

/-- matrix × vector -/
def mulVec (m : M3) (v : V3) : V3 := (dot m.1 v, dot m.2.1 v, dot m.2.2 v)

/-- entry `(i, j)` of the product `a · b` -/
def mulEnt (a b : M3) (i j : Fin 3) : ℝ :=
  M3.ent a i 0 * M3.ent b 0 j + M3.ent a i 1 * M3.ent b 1 j + M3.ent a i 2 * M3.ent b 2 j

/-- reference white of a profile (the value the property text names) -/
noncomputable def white : XyzKind → V3
  | .D65 => (0.95047, 1, 1.08883)
  | .D50 => (0.96422, 1, 0.82521)
  | .Adobe => (0.95047, 1, 1.08883)

/-- unfolding set for the generated matrix literals -/
macro "unfold_consts" : tactic =>
  `(tactic| simp only [fwd, rev, white, mulVec, dot, mulEnt, M3.ent, M3.row, V3.get,
    C.X65, C.Y65, C.Z65, C.RX65, C.RY65, C.RZ65, C.X50, C.Y50, C.Z50, C.RX50, C.RY50, C.RZ50,
    C.AX, C.AY, C.AZ, C.ARX, C.ARY, C.ARZ, FltReal.lit_eq])

/-- `R_k · M_k` is the identity up to `2e-7` in every entry (measured maxima 1.85e-7, 9.9e-8, 8.6e-8). -/
theorem rev_mul_fwd_close (k : XyzKind) (i j : Fin 3) :
    |mulEnt (rev k) (fwd k) i j - (if i = j then 1 else 0)| ≤ 2e-7 := by
  cases k <;> fin_cases i <;> fin_cases j <;> unfold_consts <;> norm_num [abs_le]

/-- every forward entry is positive -/
theorem fwd_pos (k : XyzKind) (i j : Fin 3) : 0 < M3.ent (fwd k) i j := by
  cases k <;> fin_cases i <;> fin_cases j <;> unfold_consts <;> norm_num

/-- row sums of the forward matrix (the image of RGB white) are the reference white up to `1e-6` -/
theorem fwd_white (k : XyzKind) (i : Fin 3) :
    |V3.get (mulVec (fwd k) (1, 1, 1)) i - V3.get (white k) i| ≤ 1e-6 := by
  cases k <;> fin_cases i <;> unfold_consts <;> norm_num [abs_le]

/-- on the unit cube, `R_k · (M_k · l)` returns `l` up to `3e-7` per component
(row sums of `|R_k · M_k - I|` are at most 2.76e-7). -/
theorem roundtrip_lin (k : XyzKind) (l : V3) (i : Fin 3)
    (h0 : 0 ≤ l.1) (h0' : l.1 ≤ 1) (h1 : 0 ≤ l.2.1) (h1' : l.2.1 ≤ 1)
    (h2 : 0 ≤ l.2.2) (h2' : l.2.2 ≤ 1) :
    |V3.get (mulVec (rev k) (mulVec (fwd k) l)) i - V3.get l i| ≤ 3e-7 := by
  obtain ⟨l0, l1, l2⟩ := l
  simp only at h0 h0' h1 h1' h2 h2'
  cases k <;> fin_cases i <;> unfold_consts <;>
    rw [abs_le] <;> constructor <;> norm_num <;> linarith

/-- the reverse matrix maps the reference white to (1,1,1) up to `1e-7` -/
theorem rev_white (k : XyzKind) (i : Fin 3) :
    |V3.get (mulVec (rev k) (white k)) i - 1| ≤ 1e-7 := by
  cases k <;> fin_cases i <;> unfold_consts <;> norm_num [abs_le]

end Lemmas.Matrix
