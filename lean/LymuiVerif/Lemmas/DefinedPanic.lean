import LymuiVerif.Inst.Partial
/-!
# Definedness (C04): the `Res`-valued functions never panic

`Res`-valued functions of the generated model: `Ansi.finalize_computation_to_rgb`, `Ansi.from_rgb`,
`Rgb.try_from_Ansi`, `Shade.compute`, `Tint.compute` (and the two loops).
-/
set_option linter.unusedSimpArgs false
set_option linter.unusedVariables false
namespace Lemmas.Defined
open Gen

/-- the cube-level decoder `n*40+55` panics (checked `u8` arithmetic) exactly for `n ≥ 6` -/
theorem finalize_panic_iff (n : ℕ) : Ansi.finalize_computation_to_rgb n = Res.panic ↔ 6 ≤ n := by
  unfold Ansi.finalize_computation_to_rgb
  simp only [Chk.mulOU, Chk.addOU, Res.pure_eq]
  by_cases h0 : n = 0
  · subst h0; simp
  · rw [if_neg (by simpa using h0)]
    by_cases h1 : 2 ^ 8 ≤ n * 40
    · simp [h1]; omega
    · have : n * 40 % 2 ^ 8 = n * 40 := Nat.mod_eq_of_lt (by omega)
      simp only [h1, decide_false, this]
      by_cases h2 : 2 ^ 8 ≤ n * 40 + 55
      · simp [h2]; omega
      · simp [h2]; omega

/-- on `PR` the ANSI encoder computes exactly what it computes on `ℝ` (every value is finite:
only divisions by the nonzero literals 255, 50, 247) -/
theorem ansi_from_rgb_eq (c : Rgb) (k : AnsiKind) : Ansi.from_rgb PR c k = Ansi.from_rgb ℝ c k := by
  cases k <;>
  simp [Ansi.from_rgb, Rgb.as_f64, Rgb.get_min_max, FltPR.div_some]

/-! ## Generators -/

theorem shade_loop_ne_panic (fuel : ℕ) (f : PR) (acc : List Rgb) (r g b steps i : PR) :
    Shade.compute.loop7 PR fuel f acc r g b steps i ≠ Res.panic := by
  induction fuel generalizing acc i with
  | zero => simp [Shade.compute.loop7]
  | succ n ih =>
    unfold Shade.compute.loop7
    split_ifs
    · exact ih _ _
    · simp

theorem tint_loop_ne_panic (fuel : ℕ) (f : PR) (acc : List Rgb) (r g b steps i : PR) :
    Tint.compute.loop7 PR fuel f acc r g b steps i ≠ Res.panic := by
  induction fuel generalizing acc i with
  | zero => simp [Tint.compute.loop7]
  | succ n ih =>
    unfold Tint.compute.loop7
    split_ifs
    · exact ih _ _
    · simp

/-- no panic for EVERY factor, including `none` (NaN/±∞), and every fuel -/
theorem shade_ne_panic (fuel : ℕ) (c : Rgb) (f : PR) : Shade.compute fuel c f ≠ Res.panic := by
  unfold Shade.compute
  simp only [Res.pure_eq]
  split_ifs
  · exact shade_loop_ne_panic _ _ _ _ _ _ _ _
  · simp
  · simp

theorem tint_ne_panic (fuel : ℕ) (c : Rgb) (f : PR) : Tint.compute fuel c f ≠ Res.panic := by
  unfold Tint.compute
  simp only [Res.pure_eq]
  split_ifs
  · exact tint_loop_ne_panic _ _ _ _ _ _ _ _
  · simp
  · simp

/-- the factors the generators reject: non-finite, or a real outside `]0, 1]` -/
def BadFactor (f : PR) : Prop := f = none ∨ ∃ x : ℝ, f = some x ∧ (x ≤ 0 ∨ 1 < x)

theorem shade_rejects_bad (fuel : ℕ) (c : Rgb) (f : PR) (h : BadFactor f) :
    Shade.compute fuel c f = Res.ok (Except.error LError.Generator) := by
  unfold Shade.compute
  rcases h with rfl | ⟨x, rfl, hx⟩
  · have : Flt.lt (Flt.lit 0x0000000000000000 0 1 : PR) none = false := rfl
    rw [this]; rfl
  · simp only [FltPR.lit_eq, FltPR.lt_some, FltPR.le_some, Res.pure_eq, decide_eq_true_eq]
    rcases hx with hx | hx
    · rw [if_neg (by norm_num; exact hx)]
    · rw [if_pos (by norm_num; linarith), if_neg (by norm_num; exact hx)]

theorem tint_rejects_bad (fuel : ℕ) (c : Rgb) (f : PR) (h : BadFactor f) :
    Tint.compute fuel c f = Res.ok (Except.error LError.Generator) := by
  unfold Tint.compute
  rcases h with rfl | ⟨x, rfl, hx⟩
  · have : Flt.lt (Flt.lit 0x0000000000000000 0 1 : PR) none = false := rfl
    rw [this]; rfl
  · simp only [FltPR.lit_eq, FltPR.lt_some, FltPR.le_some, Res.pure_eq, decide_eq_true_eq]
    rcases hx with hx | hx
    · rw [if_neg (by norm_num; exact hx)]
    · rw [if_pos (by norm_num; linarith), if_neg (by norm_num; exact hx)]

end Lemmas.Defined
