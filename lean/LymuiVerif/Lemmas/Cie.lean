import LymuiVerif.Inst.Real
/-!
# Numerical lemmas about the CIE `f` function (used by C06 / C11)

The CIE function `f t = t^(1/3)` for `t > ε`, `(κ t + 16)/116` otherwise, with the exact
`ε = 216/24389 = (6/29)³` and `κ = 24389/27 = (29/3)³`, is continuous and differentiable at `ε`:
`κ s³ - 116 s + 16 = κ (s - 6/29)² (s + 12/29)`.  The library uses the rounded constants
`0.008856`, `7.787`, `903.3`; the functions below are the shapes of the library's code with these
constants, and the lemmas bound their distance to the exact CIE functions.
-/
namespace Lemmas.Cie
open Real

theorem cbrt_of_nonneg {t : ℝ} (ht : 0 ≤ t) : Real.cbrt t = t ^ ((1 : ℝ) / 3) := by
  simp [Real.cbrt, ht]

theorem rpow_third_pow {t : ℝ} (ht : 0 ≤ t) : (t ^ ((1 : ℝ) / 3)) ^ 3 = t := by
  rw [← Real.rpow_natCast, ← Real.rpow_mul ht]; norm_num

theorem rpow_third_nonneg {t : ℝ} (ht : 0 ≤ t) : 0 ≤ t ^ ((1 : ℝ) / 3) := Real.rpow_nonneg ht _

theorem le_rpow_third {q t : ℝ} (ht : 0 ≤ t) (h : q ^ 3 ≤ t) : q ≤ t ^ ((1 : ℝ) / 3) := by
  by_contra hlt
  push Not at hlt
  have := pow_lt_pow_left₀ hlt (rpow_third_nonneg ht) (n := 3) (by norm_num)
  rw [rpow_third_pow ht] at this
  linarith

theorem lt_rpow_third {q t : ℝ} (ht : 0 ≤ t) (h : q ^ 3 < t) : q < t ^ ((1 : ℝ) / 3) := by
  by_contra hlt
  push Not at hlt
  have := pow_le_pow_left₀ (rpow_third_nonneg ht) hlt 3
  rw [rpow_third_pow ht] at this
  linarith

theorem rpow_third_le {q t : ℝ} (hq : 0 ≤ q) (ht : 0 ≤ t) (h : t ≤ q ^ 3) : t ^ ((1 : ℝ) / 3) ≤ q := by
  by_contra hlt
  push Not at hlt
  have := pow_lt_pow_left₀ hlt hq (n := 3) (by norm_num)
  rw [rpow_third_pow ht] at this
  linarith

/-- the cubic `κ s³ - 116 s + 16` has a double root at `6/29` -/
theorem cubic_factor (s : ℝ) :
    24389 / 27 * s ^ 3 - 116 * s + 16 = 24389 / 27 * (s - 6 / 29) ^ 2 * (s + 12 / 29) := by ring

/-- on the sliver `0.206893 ≤ s ≤ 6/29` the cubic is within `1e-8` of zero -/
theorem sliver {s : ℝ} (h1 : 206893 / 1000000 ≤ s) (h2 : s ≤ 6 / 29) :
    0 ≤ 24389 / 27 * s ^ 3 - 116 * s + 16 ∧ 24389 / 27 * s ^ 3 - 116 * s + 16 ≤ 1 / 10 ^ 8 := by
  rw [cubic_factor]
  have hs0 : 0 ≤ s + 12 / 29 := by linarith
  have hs1 : s + 12 / 29 ≤ 18 / 29 := by linarith
  have hd : (s - 6 / 29) ^ 2 ≤ (36 / 10 ^ 7) ^ 2 := by nlinarith
  constructor
  · positivity
  · calc 24389 / 27 * (s - 6 / 29) ^ 2 * (s + 12 / 29)
        ≤ 24389 / 27 * (36 / 10 ^ 7) ^ 2 * (18 / 29) := by gcongr
      _ ≤ 1 / 10 ^ 8 := by norm_num

/-- a number whose cube exceeds `0.008856` exceeds `0.206893` -/
theorem lower_of_cube {c : ℝ} (h : 1107 / 125000 < c ^ 3) : 206893 / 1000000 ≤ c := by
  by_contra hlt
  push Not at hlt
  rcases le_or_gt 0 c with h0 | h0
  · have := pow_le_pow_left₀ h0 hlt.le 3
    norm_num at this; linarith
  · have : c ^ 3 < 0 := by
      have : c ^ 3 = c * c ^ 2 := by ring
      rw [this]; exact mul_neg_of_neg_of_pos h0 (by nlinarith)
    linarith

/-! ## the exact CIE function and the library's shapes -/

/-- CIE `f` with exact constants -/
noncomputable def fSpec (t : ℝ) : ℝ :=
  if 216 / 24389 < t then t ^ ((1 : ℝ) / 3) else (24389 / 27 * t + 16) / 116

/-- shape of `Lab::compute_f` -/
noncomputable def fCode (t : ℝ) : ℝ :=
  if 1107 / 125000 < t then Real.cbrt t else t * (7787 / 1000) + 16 / 116

/-- shape of `Lab::reverse_compute_f` -/
noncomputable def revCode (c : ℝ) : ℝ :=
  if 1107 / 125000 < c ^ 3 then c ^ 3 else (116 * c - 16) / (9033 / 10)

/-- shape of the `y` computation of `Xyz::from(Lab)` and `Xyz::from(Luv)` (threshold `ε·κ`) -/
noncomputable def yRevCode (L : ℝ) : ℝ :=
  if 79996248 / 10000000 < L then ((L + 16) / 116) ^ 3 else L / (9033 / 10)

/-- shape of the lightness of `Luv::from(Xyz)` -/
noncomputable def lCodeLuv (y : ℝ) : ℝ :=
  if 1107 / 125000 < y then 116 * y ^ ((1 : ℝ) / 3) - 16 else 9033 / 10 * y

theorem fSpec_nonneg {t : ℝ} (ht : 0 ≤ t) : 0 ≤ fSpec t := by
  unfold fSpec; split_ifs
  · exact rpow_third_nonneg ht
  · positivity

theorem fSpec_low {t : ℝ} (h : t ≤ 216 / 24389) : fSpec t = (24389 / 27 * t + 16) / 116 := by
  unfold fSpec; rw [if_neg (by linarith)]

theorem fSpec_high {t : ℝ} (h : 216 / 24389 < t) : fSpec t = t ^ ((1 : ℝ) / 3) := by
  unfold fSpec; rw [if_pos h]

/-- above the threshold, `f t > 6/29` and `(f t)³ = t` -/
theorem fSpec_high_gt {t : ℝ} (h : 216 / 24389 < t) : 6 / 29 < fSpec t ∧ fSpec t ^ 3 = t := by
  have ht : (0 : ℝ) ≤ t := by linarith
  rw [fSpec_high h]
  exact ⟨lt_rpow_third ht (by norm_num; linarith), rpow_third_pow ht⟩

/-- `Lab::compute_f` is within `3.3e-7` of the CIE function, for every `t ≥ 0` -/
theorem f_close {t : ℝ} (ht : 0 ≤ t) : |fCode t - fSpec t| ≤ 33 / 10 ^ 8 := by
  unfold fCode
  rcases le_or_gt t (1107 / 125000) with h1 | h1
  · rw [if_neg (by linarith), fSpec_low (by linarith), abs_le]
    constructor <;> linarith
  · rw [if_pos h1, cbrt_of_nonneg ht]
    rcases le_or_gt t (216 / 24389) with h2 | h2
    · rw [fSpec_low h2]
      set s := t ^ ((1 : ℝ) / 3) with hs
      have hs3 : s ^ 3 = t := rpow_third_pow ht
      have hs1 : 206893 / 1000000 ≤ s := le_rpow_third ht (by norm_num; linarith)
      have hs2 : s ≤ 6 / 29 := rpow_third_le (by norm_num) ht (by norm_num; linarith)
      obtain ⟨k1, k2⟩ := sliver hs1 hs2
      rw [← hs3, abs_le]
      constructor <;> linarith
    · rw [fSpec_high h2]; simp only [sub_self, abs_zero]; norm_num

/-- `reverse_compute_f` inverts the exact CIE `f` within `4e-8`, for every `t ≥ 0` -/
theorem rev_close {t : ℝ} (ht : 0 ≤ t) : |revCode (fSpec t) - t| ≤ 4 / 10 ^ 8 := by
  rcases le_or_gt t (216 / 24389) with h2 | h2
  · rw [fSpec_low h2]
    set c := (24389 / 27 * t + 16) / 116 with hc
    have htc : t = (116 * c - 16) / (24389 / 27) := by rw [hc]; field_simp; ring
    have hc2 : c ≤ 6 / 29 := by rw [hc]; linarith
    unfold revCode
    split_ifs with h
    · obtain ⟨k1, k2⟩ := sliver (lower_of_cube h) hc2
      have : c ^ 3 - t = (24389 / 27 * c ^ 3 - 116 * c + 16) / (24389 / 27) := by
        rw [htc]; field_simp; ring
      rw [this, abs_le]
      constructor
      · have : 0 ≤ (24389 / 27 * c ^ 3 - 116 * c + 16) / (24389 / 27) := by positivity
        linarith
      · rw [div_le_iff₀ (by norm_num)]; linarith
    · have : (116 * c - 16) / (9033 / 10) - t = t * (24389 / 27 / (9033 / 10) - 1) := by
        rw [hc]; field_simp; ring
      rw [this, abs_le]
      constructor <;> nlinarith
  · obtain ⟨k1, k2⟩ := fSpec_high_gt h2
    unfold revCode
    rw [k2, if_pos (by linarith)]; simp only [sub_self, abs_zero]; norm_num

/-- the `y` computation inverts the exact CIE lightness `116 f(Y) - 16`: absolute (`4e-8`) and
relative (`4.2e-6`) error, for every `Y ≥ 0` -/
theorem yRev_close {Y : ℝ} (hY : 0 ≤ Y) :
    |yRevCode (116 * fSpec Y - 16) - Y| ≤ 4 / 10 ^ 8 ∧
    |yRevCode (116 * fSpec Y - 16) - Y| ≤ 42 / 10 ^ 7 * Y := by
  have e : (116 * fSpec Y - 16 + 16) / 116 = fSpec Y := by ring
  unfold yRevCode
  rw [e]
  rcases le_or_gt Y (216 / 24389) with h2 | h2
  · rw [fSpec_low h2]
    set c := (24389 / 27 * Y + 16) / 116 with hc
    have htc : Y = (116 * c - 16) / (24389 / 27) := by rw [hc]; field_simp; ring
    have hc2 : c ≤ 6 / 29 := by rw [hc]; linarith
    split_ifs with h
    · have hc1 : 206893 / 1000000 ≤ c := by linarith
      obtain ⟨k1, k2⟩ := sliver hc1 hc2
      have : c ^ 3 - Y = (24389 / 27 * c ^ 3 - 116 * c + 16) / (24389 / 27) := by
        rw [htc]; field_simp; ring
      have hY1 : 88 / 10000 ≤ Y := by rw [htc, le_div_iff₀ (by norm_num)]; linarith
      have hp : 0 ≤ (24389 / 27 * c ^ 3 - 116 * c + 16) / (24389 / 27) := by positivity
      have hq : (24389 / 27 * c ^ 3 - 116 * c + 16) / (24389 / 27) ≤ 2 / 10 ^ 11 := by
        rw [div_le_iff₀ (by norm_num)]; linarith
      rw [this, abs_le, abs_le]
      refine ⟨⟨by linarith, by linarith⟩, ⟨by linarith, by linarith⟩⟩
    · have : (116 * c - 16) / (9033 / 10) - Y = Y * (24389 / 27 / (9033 / 10) - 1) := by
        rw [hc]; field_simp; ring
      rw [this, abs_le, abs_le]
      refine ⟨⟨by nlinarith, by nlinarith⟩, ⟨by nlinarith, by nlinarith⟩⟩
  · obtain ⟨k1, k2⟩ := fSpec_high_gt h2
    rw [if_pos (by linarith), k2]
    simp only [sub_self, abs_zero]
    exact ⟨by norm_num, by linarith⟩

/-- the CIELUV lightness of the library is within `3.3e-5` of the CIE lightness, for every `y ≥ 0` -/
theorem lLuv_close {y : ℝ} (hy : 0 ≤ y) : |lCodeLuv y - (116 * fSpec y - 16)| ≤ 33 / 10 ^ 6 := by
  unfold lCodeLuv
  rcases le_or_gt y (1107 / 125000) with h1 | h1
  · rw [if_neg (by linarith), fSpec_low (by linarith), abs_le]
    constructor <;> linarith
  · rw [if_pos h1]
    rcases le_or_gt y (216 / 24389) with h2 | h2
    · rw [fSpec_low h2]
      set s := y ^ ((1 : ℝ) / 3) with hs
      have hs3 : s ^ 3 = y := rpow_third_pow hy
      have hs1 : 206893 / 1000000 ≤ s := le_rpow_third hy (by norm_num; linarith)
      have hs2 : s ≤ 6 / 29 := rpow_third_le (by norm_num) hy (by norm_num; linarith)
      obtain ⟨k1, k2⟩ := sliver hs1 hs2
      rw [← hs3, abs_le]
      constructor <;> linarith
    · rw [fSpec_high h2]; simp only [sub_self, abs_zero]; norm_num

/-- the CIE lightness of a positive luminance is positive -/
theorem lstar_pos {Y : ℝ} (hY : 0 < Y) : 0 < 116 * fSpec Y - 16 := by
  rcases le_or_gt Y (216 / 24389) with h2 | h2
  · rw [fSpec_low h2]; linarith
  · have := (fSpec_high_gt h2).1; linarith

/-- algebra of the CIELUV → XYZ inversion as the library writes it (`up = u/(13L) + u0`,
`vp = v/(13L) + v0`, `x = y·9up/(4vp)`, `z = y(12 - 3up - 20vp)/(4vp)`): with `u = 13 L (u' - u0)`,
`v = 13 L (v' - v0)` it returns `(X, Y, Z)·(y/Y)` where `y` is the recovered luminance.
Needs `L ≠ 0`, `Y ≠ 0`, `X + 15Y + 3Z ≠ 0`; `X = 0` is allowed. -/
theorem luv_rev_algebra {L y X Y Z u0 v0 : ℝ} (hL : L ≠ 0) (hY : Y ≠ 0)
    (hD : X + 15 * Y + 3 * Z ≠ 0) :
    y * (9 * (13 * L * (4 * X / (X + 15 * Y + 3 * Z) - u0) / (13 * L) + u0)) /
        (4 * (13 * L * (9 * Y / (X + 15 * Y + 3 * Z) - v0) / (13 * L) + v0))
      = X * (y / Y) ∧
    y * (12 - 3 * (13 * L * (4 * X / (X + 15 * Y + 3 * Z) - u0) / (13 * L) + u0)
          - 20 * (13 * L * (9 * Y / (X + 15 * Y + 3 * Z) - v0) / (13 * L) + v0)) /
        (4 * (13 * L * (9 * Y / (X + 15 * Y + 3 * Z) - v0) / (13 * L) + v0))
      = Z * (y / Y) := by
  have h1 : 13 * L * (4 * X / (X + 15 * Y + 3 * Z) - u0) / (13 * L) + u0 = 4 * X / (X + 15 * Y + 3 * Z) := by
    field_simp; ring
  have h2 : 13 * L * (9 * Y / (X + 15 * Y + 3 * Z) - v0) / (13 * L) + v0 = 9 * Y / (X + 15 * Y + 3 * Z) := by
    field_simp; ring
  rw [h1, h2]
  constructor
  · field_simp
  · field_simp; ring

/-- the sRGB linearisation of the library maps non-negative values to non-negative values -/
theorem srgb_expanded_nonneg {v : ℝ} (hv : 0 ≤ v) : 0 ≤ (Gen.F64.compute_srgb_gamma_expanded v : ℝ) := by
  simp only [Gen.F64.compute_srgb_gamma_expanded, FltReal.le_eq, FltReal.lit_eq, FltReal.pow_eq, decide_eq_true_eq]
  split_ifs
  · positivity
  · apply Real.rpow_nonneg; positivity

/-! ## greys: the row sum of the Y row of the sRGB matrix is `1.0000001`, not 1 -/

/-- `Lab::compute_f` at `1.0000001·t` and at `t` differ by at most `5e-7` (all three branch
combinations, including the one that straddles the threshold `0.008856`) -/
theorem fCode_grey {t : ℝ} (h0 : 0 ≤ t) (h1 : t ≤ 1) :
    0 ≤ fCode (10000001 / 10000000 * t) - fCode t ∧
    fCode (10000001 / 10000000 * t) - fCode t ≤ 5 / 10 ^ 7 := by
  have hrt : 0 ≤ 10000001 / 10000000 * t := by positivity
  unfold fCode
  rcases le_or_gt t (1107 / 125000) with ht | ht
  · rw [if_neg (by linarith : ¬ 1107 / 125000 < t)]
    rcases le_or_gt (10000001 / 10000000 * t) (1107 / 125000) with hr | hr
    · rw [if_neg (by linarith)]
      constructor <;> linarith
    · rw [if_pos hr, cbrt_of_nonneg hrt]
      set s := (10000001 / 10000000 * t) ^ ((1 : ℝ) / 3) with hs
      have hs1 : 206893 / 1000000 ≤ s := le_rpow_third hrt (by norm_num; linarith)
      have hs2 : s ≤ 2068931 / 10000000 := rpow_third_le (by norm_num) hrt (by norm_num; linarith)
      constructor <;> linarith
  · have hr : 1107 / 125000 < 10000001 / 10000000 * t := by linarith
    rw [if_pos ht, if_pos hr, cbrt_of_nonneg hrt, cbrt_of_nonneg h0]
    set s := t ^ ((1 : ℝ) / 3) with hs
    have hs0 : 0 ≤ s := rpow_third_nonneg h0
    have hs3 : s ^ 3 = t := rpow_third_pow h0
    have hs1 : s ≤ 1 := rpow_third_le (by norm_num) h0 (by norm_num; linarith)
    have k1 : s ≤ (10000001 / 10000000 * t) ^ ((1 : ℝ) / 3) := le_rpow_third hrt (by rw [hs3]; linarith)
    have k2 : (10000001 / 10000000 * t) ^ ((1 : ℝ) / 3) ≤ 10000001 / 10000000 * s := by
      apply rpow_third_le (by positivity) hrt
      rw [mul_pow, hs3]
      have : (10000001 / 10000000 : ℝ) ≤ (10000001 / 10000000) ^ 3 := by norm_num
      exact mul_le_mul_of_nonneg_right this h0
    constructor <;> linarith

/-- `Lab::compute_f` is non-decreasing across the 1e-7 step and bounded on `[0, 1.0000001]` -/
theorem fCode_white : 1 ≤ fCode (10000001 / 10000000) ∧ fCode (10000001 / 10000000) ≤ 10000001 / 10000000 := by
  unfold fCode
  rw [if_pos (by norm_num), cbrt_of_nonneg (by norm_num)]
  exact ⟨le_rpow_third (by norm_num) (by norm_num), rpow_third_le (by norm_num) (by norm_num) (by norm_num)⟩

/-- the CIELUV lightness of the library on `[0, 1.0000001]` lies in `[0, 100.1]` -/
theorem lCodeLuv_bound {y : ℝ} (h0 : 0 ≤ y) (h1 : y ≤ 10000001 / 10000000) :
    0 ≤ lCodeLuv y ∧ lCodeLuv y ≤ 1001 / 10 := by
  unfold lCodeLuv
  split_ifs with h
  · have k1 : (1 / 5 : ℝ) ≤ y ^ ((1 : ℝ) / 3) := le_rpow_third h0 (by norm_num; linarith)
    have k2 : y ^ ((1 : ℝ) / 3) ≤ 10000001 / 10000000 :=
      rpow_third_le (by norm_num) h0 (by norm_num; linarith)
    constructor <;> linarith
  · constructor <;> linarith

/-- the sRGB linearisation maps `[0, 1]` into `[0, 1]` -/
theorem srgb_expanded_le_one {v : ℝ} (hv : 0 ≤ v) (h1 : v ≤ 1) :
    (Gen.F64.compute_srgb_gamma_expanded v : ℝ) ≤ 1 := by
  simp only [Gen.F64.compute_srgb_gamma_expanded, FltReal.le_eq, FltReal.lit_eq, FltReal.pow_eq, decide_eq_true_eq]
  split_ifs
  · rw [div_le_one (by norm_num)]; norm_num; linarith
  · apply Real.rpow_le_one (by positivity) _ (by norm_num)
    rw [div_le_one (by norm_num)]; norm_num; linarith

end Lemmas.Cie
