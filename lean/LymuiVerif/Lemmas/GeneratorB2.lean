import LymuiVerif.Lemmas.QuantB2
/-!
# The loops of `Shade::compute` and `Tint::compute` on the real instance

One-step lemmas for the fuel-indexed loop functions GENERATED from the `while` loops, the closed form
of the loops by induction on the number of remaining iterations, and the closed form of the two
functions.
-/
open Gen Lemmas.QuantB2
namespace Lemmas.GeneratorB2

/-! ## Shade -/

/-- one iteration of the shade loop (real instance), the loop test succeeding -/
theorem shade_loop_step (fuel : ℕ) (f : ℝ) (acc : List Rgb) (r g b steps i : ℝ) (h : i ≤ steps) :
    Shade.compute.loop7 ℝ (fuel + 1) f acc r g b steps i =
      Shade.compute.loop7 ℝ fuel f
        (acc ++ [⟨Real.toU8 (Real.roundHA (r * (1 - i * f))), Real.toU8 (Real.roundHA (g * (1 - i * f))),
                  Real.toU8 (Real.roundHA (b * (1 - i * f)))⟩]) r g b steps (i + 1) := by
  rw [Shade.compute.loop7]
  simp [Vec.push, h]

/-- leaving the shade loop -/
theorem shade_loop_exit (fuel : ℕ) (f : ℝ) (acc : List Rgb) (r g b steps i : ℝ) (h : steps < i) :
    Shade.compute.loop7 ℝ (fuel + 1) f acc r g b steps i = Res.ok (Except.ok ⟨acc⟩) := by
  rw [Shade.compute.loop7]
  simp [not_le.mpr h]

/-- closed form of the shade loop, by induction on the number `k` of remaining iterations -/
theorem shade_loop_closed (f r g b : ℝ) (n : ℕ) :
    ∀ (k i : ℕ) (acc : List Rgb) (fuel : ℕ), i + k = n + 1 → k < fuel →
      Shade.compute.loop7 ℝ fuel f acc r g b (n : ℝ) (i : ℝ) =
        Res.ok (Except.ok ⟨acc ++ List.map (fun j : ℕ =>
          (⟨Real.toU8 (Real.roundHA (r * (1 - (j : ℝ) * f))), Real.toU8 (Real.roundHA (g * (1 - (j : ℝ) * f))),
            Real.toU8 (Real.roundHA (b * (1 - (j : ℝ) * f)))⟩ : Rgb)) (List.range' i k)⟩) := by
  intro k
  induction k with
  | zero =>
    intro i acc fuel hi hf
    obtain ⟨fuel, rfl⟩ : ∃ m, fuel = m + 1 := ⟨fuel - 1, by omega⟩
    rw [shade_loop_exit _ _ _ _ _ _ _ _ (by exact_mod_cast (by omega : n < i))]
    simp
  | succ k ih =>
    intro i acc fuel hi hf
    obtain ⟨fuel, rfl⟩ : ∃ m, fuel = m + 1 := ⟨fuel - 1, by omega⟩
    rw [shade_loop_step _ _ _ _ _ _ _ _ (by exact_mod_cast (by omega : i ≤ n))]
    have e : (i : ℝ) + 1 = ((i + 1 : ℕ) : ℝ) := by push_cast; ring
    rw [e, ih (i + 1) _ fuel (by omega) (by omega)]
    simp [List.range'_succ]


/-- for a positive factor the number of steps `(1/f).floor()` is the natural number `⌊1/f⌋₊` -/
theorem steps_eq (f : ℝ) (h0 : 0 < f) : ((⌊1 / f⌋ : ℤ) : ℝ) = ((⌊1 / f⌋₊ : ℕ) : ℝ) :=
  (natCast_floor_eq_intCast_floor (by positivity)).symm

/-- closed form of `Shade::compute` for an accepted factor and sufficient fuel -/
theorem shade_compute_closed (c : Rgb) (f : ℝ) (h0 : 0 < f) (h1 : f ≤ 1) (fuel : ℕ)
    (hf : ⌊1 / f⌋₊ + 1 < fuel) :
    Shade.compute fuel c f = Res.ok (Except.ok ⟨List.map (fun j : ℕ =>
      (⟨Real.toU8 (Real.roundHA ((c.r : ℝ) * (1 - (j : ℝ) * f))),
        Real.toU8 (Real.roundHA ((c.g : ℝ) * (1 - (j : ℝ) * f))),
        Real.toU8 (Real.roundHA ((c.b : ℝ) * (1 - (j : ℝ) * f)))⟩ : Rgb)) (List.range (⌊1 / f⌋₊ + 1))⟩) := by
  simp only [Shade.compute, Rgb.as_f64, FltReal.lit_eq, FltReal.ofNat_eq, FltReal.lt_eq, FltReal.le_eq,
    FltReal.floor_eq, Nat.cast_zero, Nat.cast_one, div_one, decide_eq_true_eq, h0, h1, if_true,
    Res.pure_eq]
  rw [steps_eq f h0]
  have := shade_loop_closed f c.r c.g c.b ⌊1 / f⌋₊ (⌊1 / f⌋₊ + 1) 0 [] fuel (by omega) hf
  simp only [Nat.cast_zero, List.nil_append] at this
  rw [this, List.range_eq_range']

/-- a factor outside `]0, 1]` is rejected before the loop, whatever the fuel -/
theorem shade_compute_rejects (c : Rgb) (f : ℝ) (h : f ≤ 0 ∨ 1 < f) (fuel : ℕ) :
    Shade.compute fuel c f = Res.ok (Except.error LError.Generator) := by
  simp only [Shade.compute, FltReal.lit_eq, FltReal.lt_eq, FltReal.le_eq, Nat.cast_zero, Nat.cast_one,
    div_one, decide_eq_true_eq, Res.pure_eq]
  rcases h with h | h
  · rw [if_neg (not_lt.mpr h)]
  · rw [if_neg (not_le.mpr h)]; split_ifs <;> rfl

/-! ## Tint -/

/-- one iteration of the tint loop (real instance), the loop test succeeding -/
theorem tint_loop_step (fuel : ℕ) (f : ℝ) (acc : List Rgb) (r g b steps i : ℝ) (h : i ≤ steps) :
    Tint.compute.loop7 ℝ (fuel + 1) f acc r g b steps i =
      Tint.compute.loop7 ℝ fuel f
        (acc ++ [⟨Real.toU8 (Real.roundHA (r + (255 - r) * (i * f))), Real.toU8 (Real.roundHA (g + (255 - g) * (i * f))),
                  Real.toU8 (Real.roundHA (b + (255 - b) * (i * f)))⟩]) r g b steps (i + 1) := by
  rw [Tint.compute.loop7]
  simp [Vec.push, h]

/-- leaving the tint loop -/
theorem tint_loop_exit (fuel : ℕ) (f : ℝ) (acc : List Rgb) (r g b steps i : ℝ) (h : steps < i) :
    Tint.compute.loop7 ℝ (fuel + 1) f acc r g b steps i = Res.ok (Except.ok ⟨acc⟩) := by
  rw [Tint.compute.loop7]
  simp [not_le.mpr h]

/-- closed form of the tint loop, by induction on the number `k` of remaining iterations -/
theorem tint_loop_closed (f r g b : ℝ) (n : ℕ) :
    ∀ (k i : ℕ) (acc : List Rgb) (fuel : ℕ), i + k = n + 1 → k < fuel →
      Tint.compute.loop7 ℝ fuel f acc r g b (n : ℝ) (i : ℝ) =
        Res.ok (Except.ok ⟨acc ++ List.map (fun j : ℕ =>
          (⟨Real.toU8 (Real.roundHA (r + (255 - r) * ((j : ℝ) * f))), Real.toU8 (Real.roundHA (g + (255 - g) * ((j : ℝ) * f))),
            Real.toU8 (Real.roundHA (b + (255 - b) * ((j : ℝ) * f)))⟩ : Rgb)) (List.range' i k)⟩) := by
  intro k
  induction k with
  | zero =>
    intro i acc fuel hi hf
    obtain ⟨fuel, rfl⟩ : ∃ m, fuel = m + 1 := ⟨fuel - 1, by omega⟩
    rw [tint_loop_exit _ _ _ _ _ _ _ _ (by exact_mod_cast (by omega : n < i))]
    simp
  | succ k ih =>
    intro i acc fuel hi hf
    obtain ⟨fuel, rfl⟩ : ∃ m, fuel = m + 1 := ⟨fuel - 1, by omega⟩
    rw [tint_loop_step _ _ _ _ _ _ _ _ (by exact_mod_cast (by omega : i ≤ n))]
    have e : (i : ℝ) + 1 = ((i + 1 : ℕ) : ℝ) := by push_cast; ring
    rw [e, ih (i + 1) _ fuel (by omega) (by omega)]
    simp [List.range'_succ]


/-- closed form of `Tint::compute` for an accepted factor and sufficient fuel -/
theorem tint_compute_closed (c : Rgb) (f : ℝ) (h0 : 0 < f) (h1 : f ≤ 1) (fuel : ℕ)
    (hf : ⌊1 / f⌋₊ + 1 < fuel) :
    Tint.compute fuel c f = Res.ok (Except.ok ⟨List.map (fun j : ℕ =>
      (⟨Real.toU8 (Real.roundHA ((c.r : ℝ) + (255 - (c.r : ℝ)) * ((j : ℝ) * f))),
        Real.toU8 (Real.roundHA ((c.g : ℝ) + (255 - (c.g : ℝ)) * ((j : ℝ) * f))),
        Real.toU8 (Real.roundHA ((c.b : ℝ) + (255 - (c.b : ℝ)) * ((j : ℝ) * f)))⟩ : Rgb)) (List.range (⌊1 / f⌋₊ + 1))⟩) := by
  simp only [Tint.compute, Rgb.as_f64, FltReal.lit_eq, FltReal.ofNat_eq, FltReal.lt_eq, FltReal.le_eq,
    FltReal.floor_eq, Nat.cast_zero, Nat.cast_one, div_one, decide_eq_true_eq, h0, h1, if_true,
    Res.pure_eq]
  rw [steps_eq f h0]
  have := tint_loop_closed f c.r c.g c.b ⌊1 / f⌋₊ (⌊1 / f⌋₊ + 1) 0 [] fuel (by omega) hf
  simp only [Nat.cast_zero, List.nil_append] at this
  rw [this, List.range_eq_range']

/-- a factor outside `]0, 1]` is rejected before the loop, whatever the fuel -/
theorem tint_compute_rejects (c : Rgb) (f : ℝ) (h : f ≤ 0 ∨ 1 < f) (fuel : ℕ) :
    Tint.compute fuel c f = Res.ok (Except.error LError.Generator) := by
  simp only [Tint.compute, FltReal.lit_eq, FltReal.lt_eq, FltReal.le_eq, Nat.cast_zero, Nat.cast_one,
    div_one, decide_eq_true_eq, Res.pure_eq]
  rcases h with h | h
  · rw [if_neg (not_lt.mpr h)]
  · rw [if_neg (not_le.mpr h)]; split_ifs <;> rfl

end Lemmas.GeneratorB2
