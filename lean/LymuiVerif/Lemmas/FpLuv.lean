import LymuiVerif.Lemmas.FpCieXyz
import LymuiVerif.Props.C06
/-!
# Rounded-arithmetic lemmas for CIELUV (C06 / C02 in `RF M`, every `M : FPModel`)

* real analysis: `LFwdOK` (the computed lightness follows one of the two branch formulas of `Luv::from(Xyz)`,
  the branch consistent with the luminance up to `1e-9`), `lfwd_spec` (either branch is within `3.4e-7` of the
  exact CIE `f` after `(L+16)/116`), `lrev_fwd_close` (branch-free round trip of the luminance; the reverse side
  is `FpCie.RevOK` at `(L+16)/116`).
* `pow_third_fp`: `M.pow y (rnd (1/3))` against the cube root (`M.pow_err`, `rpow_exp_close`): `1e-15`.
* `lum_hi_fp`, `lum_lo_fp`, `lum_fwd_fp`: the lightness of `Luv::from(Xyz)` in `RF M`; `lum_close` against the
  real model away from the threshold.
* `den_rel`, `ratio_uv`: `u' = 4X/(X+15Y+3Z)`, `v' = 9Y/(…)` in relative error (`1e-14` for every non-negative
  XYZ with `Y ≥ 1e-5`); `white_uv`: the white point's `u'n`, `v'n`.
* `cancel_fp`: `rnd (rnd (K·d) / K) ≈ d`; `up_close`: the reverse's `u/(13L) + u'n` returns the forward's `u'`.
* structural lemmas `compounds_fp`, `from_xyz_fp`, `from_luv_fp` (the generated code with the guards resolved).
* `luv_roundtrip_fp`: the round trip on the cone of non-black 8-bit colours; `luv_roundtrip_black_fp`.
-/
namespace FpLuv
open Gen FpErr FpLin FpCie Lemmas.Cie

/-! ## real-analysis part -/

/-- the computed lightness `L` follows one of the two branch formulas of `Luv::from(Xyz)` at the luminance `t`,
within `e`; the cube-root one only if `t ≥ 0.008855999`, the linear one only if `t ≤ 0.008856001` -/
def LFwdOK (t L e : ℝ) : Prop :=
  (8855999 / 10 ^ 9 ≤ t ∧ |L - (116 * Real.cbrt t - 16)| ≤ e) ∨
  (t ≤ 8856001 / 10 ^ 9 ∧ |L - 9033 / 10 * t| ≤ e)

theorem LFwdOK.e_nonneg {t L e : ℝ} (h : LFwdOK t L e) : 0 ≤ e := by
  rcases h with ⟨_, h⟩ | ⟨_, h⟩ <;> exact le_trans (abs_nonneg _) h

/-- either branch, after `(L + 16)/116`, is within `3.4e-7 + e` of the exact CIE function; clear of the
threshold region (`t ≥ 0.00886`) within `e` -/
theorem lfwd_spec {t L e : ℝ} (ht : 0 ≤ t) (h : LFwdOK t L e) :
    |(L + 16) / 116 - fSpec t| ≤ 34 / 10 ^ 8 + e ∧ (886 / 10 ^ 5 ≤ t → |(L + 16) / 116 - fSpec t| ≤ e) := by
  have he := h.e_nonneg
  rcases h with ⟨h1, h2⟩ | ⟨h1, h2⟩
  · have hc : |(L + 16) / 116 - Real.cbrt t| ≤ e := by
      have e1 : (L + 16) / 116 - Real.cbrt t = (L - (116 * Real.cbrt t - 16)) / 116 := by ring
      rw [e1, abs_div, abs_of_pos (by norm_num : (0 : ℝ) < 116), div_le_iff₀ (by norm_num)]
      linarith
    exact fwd_spec ht (Or.inl ⟨h1, hc⟩)
  · have h3 : t ≤ 216 / 24389 := by norm_num at h1 ⊢; linarith
    have hc : |(L + 16) / 116 - (9033 / 10 * t + 16) / 116| ≤ e := by
      have e1 : (L + 16) / 116 - (9033 / 10 * t + 16) / 116 = (L - 9033 / 10 * t) / 116 := by ring
      rw [e1, abs_div, abs_of_pos (by norm_num : (0 : ℝ) < 116), div_le_iff₀ (by norm_num)]
      linarith
    have e1 : |(9033 / 10 * t + 16) / 116 - fSpec t| ≤ 34 / 10 ^ 8 := by
      rw [fSpec_low h3, abs_le]; norm_num at h1 ⊢; constructor <;> linarith
    have := abs_sub_le ((L + 16) / 116) ((9033 / 10 * t + 16) / 116) (fSpec t)
    refine ⟨by linarith, fun h4 => ?_⟩
    norm_num at h1 h4; linarith

/-- **luminance round trip through either branch of each direction**: `t ∈ [0, 1.2]`, `L` the computed
lightness (`LFwdOK`), `out` the recovered luminance (`RevOK` at `(L+16)/116`): `|out − t| ≤ 9e-8 + e3 + 4.4·e1`
whatever branches were taken -/
theorem lrev_fwd_close {t L out e1 e3 : ℝ} (ht0 : 0 ≤ t) (ht1 : t ≤ 12 / 10)
    (hf : LFwdOK t L e1) (hc0 : 1 / 10 ≤ (L + 16) / 116) (hr : RevOK ((L + 16) / 116) out e3)
    (he : e1 ≤ 1 / 10 ^ 6) :
    |out - t| ≤ 9 / 10 ^ 8 + e3 + 44 / 10 * e1 := by
  obtain ⟨f1, f2⟩ := lfwd_spec ht0 hf
  have r1 := rev_spec hc0 hr
  have he1 : 0 ≤ e1 := hf.e_nonneg
  set c' := (L + 16) / 116 with hc'
  have key : |out - t| ≤ |out - hSpec c'| + |hSpec c' - hSpec (fSpec t)| := by
    have := abs_sub_le out (hSpec c') t
    rw [hSpec_fSpec t]; exact this
  rcases le_or_gt (886 / 10 ^ 5) t with h | h
  · have f3 := f2 h
    have hfs : fSpec t ≤ 11 / 10 := by
      rw [fSpec_high (by norm_num at h ⊢; linarith)]
      exact rpow_third_le (by norm_num) ht0 (by norm_num; linarith)
    have hc1 : c' ≤ 12 / 10 := by
      have := (abs_le.mp f3).2; linarith
    have l := hSpec_lip (a := c') (b := fSpec t) (C := 12 / 10) hc1 (by linarith) (by norm_num)
    nlinarith [abs_nonneg (c' - fSpec t)]
  · have hfs : fSpec t ≤ 207 / 1000 := by
      rcases le_or_gt t (216 / 24389) with h3 | h3
      · rw [fSpec_low h3]; linarith
      · rw [fSpec_high h3]
        exact rpow_third_le (by norm_num) ht0 (by norm_num; norm_num at h; linarith)
    have hc1 : c' ≤ 21 / 100 := by
      have := (abs_le.mp f1).2; linarith
    have l := hSpec_lip (a := c') (b := fSpec t) (C := 21 / 100) hc1 (by linarith) (by norm_num)
    nlinarith [abs_nonneg (c' - fSpec t)]

/-- range of a computed lightness -/
theorem lfwd_range {t L e : ℝ} (h : LFwdOK t L e) (h0 : 189 / 10 ^ 7 ≤ t) (h1 : t ≤ 112 / 100)
    (he : e ≤ 1 / 10 ^ 6) : 17 / 1000 ≤ L ∧ L ≤ 105 := by
  rcases h with ⟨k1, k2⟩ | ⟨k1, k2⟩
  · have hb := Lemmas.CurvesD2.cbrt_bounds (x := t) (a := 2 / 10) (b := 104 / 100) (by norm_num) (by norm_num)
      (by norm_num at k1 ⊢; linarith) (by norm_num; linarith)
    obtain ⟨a1, a2⟩ := abs_le.mp k2
    constructor <;> linarith [hb.1, hb.2]
  · obtain ⟨a1, a2⟩ := abs_le.mp k2
    constructor <;> norm_num at k1 h0 ⊢ <;> linarith

/-- range of the real model's lightness on `[0, 1.1]` -/
theorem lCodeLuv_range {y : ℝ} (h0 : 0 ≤ y) (h1 : y ≤ 11 / 10) : 0 ≤ lCodeLuv y ∧ lCodeLuv y ≤ 105 := by
  unfold lCodeLuv
  split_ifs with h
  · have k1 : (1 / 5 : ℝ) ≤ y ^ ((1 : ℝ) / 3) := le_rpow_third h0 (by norm_num; linarith)
    have k2 : y ^ ((1 : ℝ) / 3) ≤ 104 / 100 := rpow_third_le (by norm_num) h0 (by norm_num; linarith)
    constructor <;> linarith
  · rw [not_lt] at h; constructor <;> linarith

/-! ## rounded-arithmetic part -/
section fp
variable (M : FPModel)

/-- the exponent `1.0 / 3.0` after its rounding -/
theorem third_close : |M.rnd ((1 : ℝ) / 3) - 1 / 3| ≤ FP.eps * (34 / 100) :=
  rnd_abs M (by rw [abs_of_pos (by norm_num)]; norm_num) (by norm_num)

/-- **`powf(y, 1/3)` in the model against the cube root**, `y ∈ (0, 1.12]`: `M.pow_err` (1 ulp) plus the
perturbation of the rounded exponent (`Lemmas.FpXyz.rpow_exp_close`) -/
theorem pow_third_fp {y : ℝ} (h0 : 0 < y) (h1 : y ≤ 112 / 100) :
    |M.pow y (M.rnd ((1 : ℝ) / 3)) - Real.cbrt y| ≤ 1 / 10 ^ 15 := by
  have hq := third_close M
  obtain ⟨q1, q2⟩ := abs_le.mp hq
  set q' := M.rnd ((1 : ℝ) / 3) with hq'
  have hq'0 : 3 / 10 ≤ q' := by norm_num [FP.eps] at q1; linarith
  have hq'1 : q' ≤ 3 := by norm_num [FP.eps] at q2; linarith
  have hd : |(1 : ℝ) / 3 - q'| ≤ FP.eps * (34 / 100) := by rw [abs_sub_comm]; exact hq
  have e1 := Lemmas.FpXyz.rpow_exp_close (x := y) (q := 1 / 3) (q' := q') (p := 3 / 10) h0 (by linarith)
    (by norm_num) (by norm_num) hq'0 (by norm_num) hq'1 (hd.trans (by norm_num [FP.eps]))
  have hc : y ^ ((1 : ℝ) / 3) ≤ 104 / 100 := rpow_third_le (by norm_num) h0.le (by norm_num; linarith)
  have hc0 : 0 ≤ y ^ ((1 : ℝ) / 3) := rpow_third_nonneg h0.le
  have e1' : |y ^ ((1 : ℝ) / 3) - y ^ q'| ≤ 5 / 10 ^ 16 := by
    refine e1.trans ?_
    calc |(1 : ℝ) / 3 - q'| * (1 / (3 / 10) + 8) ≤ FP.eps * (34 / 100) * (1 / (3 / 10) + 8) :=
          mul_le_mul_of_nonneg_right hd (by norm_num)
      _ ≤ 5 / 10 ^ 16 := by norm_num [FP.eps]
  have hp0 : 0 ≤ y ^ q' := Real.rpow_nonneg h0.le _
  have hp1 : y ^ q' ≤ 105 / 100 := by
    have := (abs_le.mp e1').1; linarith
  have e2 := M.pow_err y q' h0.le
  rw [abs_of_nonneg hp0] at e2
  have hu := FP.u_lt
  have he := FP.eta_lt
  have he' : FP.eta ≤ 1 / 10 ^ 20 := he.le.trans (by norm_num)
  have e2' : |M.pow y q' - y ^ q'| ≤ 3 / 10 ^ 16 := by
    refine e2.trans ?_
    have : 2 * FP.u * y ^ q' ≤ 2 * (12 / 10 ^ 17) * (105 / 100) := by
      apply mul_le_mul _ hp1 hp0 (by norm_num)
      norm_num at hu ⊢; linarith
    norm_num at this he' ⊢; linarith
  rw [cbrt_of_nonneg h0.le]
  have := abs_sub_le (M.pow y q') (y ^ q') (y ^ ((1 : ℝ) / 3))
  rw [abs_sub_comm (y ^ q')] at this
  norm_num at e1' e2' this ⊢
  linarith

/-! ## the generated code with the guards resolved

The definitions below are abbreviations on `ℝ` (values of `RF M`) for the sub-expressions of the generated
`Luv.compute_compounds`, `Luv.from_Xyz`, `Xyz.from_Luv` in evaluation order, one `M.rnd` per operation.  They are
tied to the GENERATED code by `compounds_fp`, `from_xyz_fp`, `from_luv_fp` (proved by unfolding the generated
definitions and syntactic comparison), so a changed constant, operator, branch condition or evaluation order in
the Rust source makes those three lemmas fail. -/

/-- computed denominator `(X + 15·Y) + 3·Z` -/
noncomputable def denF (X Y Z : ℝ) : ℝ := M.rnd (M.rnd (X + M.rnd (15 * Y)) + M.rnd (3 * Z))
/-- computed `u' = 4·X / den` -/
noncomputable def upF (X Y Z : ℝ) : ℝ := M.rnd (M.rnd (4 * X) / denF M X Y Z)
/-- computed `v' = 9·Y / den` -/
noncomputable def vpF (X Y Z : ℝ) : ℝ := M.rnd (M.rnd (9 * Y) / denF M X Y Z)
/-- computed lightness of `Luv::from(Xyz)` at the computed ratio `y = Y/Yn` -/
noncomputable def lumF (y : ℝ) : ℝ :=
  if M.rnd (1107 / 125000) < y then M.rnd (M.rnd (116 * M.pow y (M.rnd (1 / 3))) - 16)
  else M.rnd (M.rnd (9033 / 10) * y)

theorem compounds_fp (x y z : RF M) (h : ¬ (x.val = 0 ∧ y.val = 0 ∧ z.val = 0)) :
    (Luv.compute_compounds x y z).1.val = upF M x.val y.val z.val ∧
    (Luv.compute_compounds x y z).2.val = vpF M x.val y.val z.val := by
  unfold Luv.compute_compounds
  simp only [FltRF.beq_eq, FltRF.lit_val, lit_zero, decide_eq_true_eq]
  split_ifs with h1 h2 h3
  · exact absurd ⟨h1, h2, h3⟩ h
  all_goals
    simp only [FltRF.div_val, FltRF.mul_val, FltRF.add_val, FltRF.lit_val, upF, vpF, denF]
    rw [lit_int M 4 (by norm_num), lit_int M 15 (by norm_num), lit_int M 3 (by norm_num), lit_int M 9 (by norm_num)]
    simp only [Nat.cast_ofNat, and_self]


theorem compounds_black_fp (x y z : RF M) (h1 : x.val = 0) (h2 : y.val = 0) (h3 : z.val = 0) :
    (Luv.compute_compounds x y z).1.val = 0 ∧ (Luv.compute_compounds x y z).2.val = 0 := by
  unfold Luv.compute_compounds
  simp only [FltRF.beq_eq, FltRF.lit_val, lit_zero, decide_eq_true_eq, h1, h2, h3, if_true, and_self]

noncomputable def wX : ℝ := M.rnd (95047 / 100000)
noncomputable def wZ : ℝ := M.rnd (108883 / 100000)

theorem white_val : (C.D65 : RF M × RF M × RF M).1.val = wX M ∧ (C.D65 : RF M × RF M × RF M).2.1.val = 1 ∧
    (C.D65 : RF M × RF M × RF M).2.2.val = wZ M := by
  simp only [C.D65, FltRF.lit_val, wX, wZ]
  rw [lit_int M 1 (by norm_num)]
  simp only [Nat.cast_ofNat, Nat.cast_one, and_self]

theorem white_compounds :
    (Luv.compute_compounds (C.D65 : RF M × RF M × RF M).1 (C.D65 : RF M × RF M × RF M).2.1
      (C.D65 : RF M × RF M × RF M).2.2).1.val = upF M (wX M) 1 (wZ M) ∧
    (Luv.compute_compounds (C.D65 : RF M × RF M × RF M).1 (C.D65 : RF M × RF M × RF M).2.1
      (C.D65 : RF M × RF M × RF M).2.2).2.val = vpF M (wX M) 1 (wZ M) := by
  obtain ⟨w1, w2, w3⟩ := white_val M
  have := compounds_fp M (C.D65 : RF M × RF M × RF M).1 (C.D65 : RF M × RF M × RF M).2.1
    (C.D65 : RF M × RF M × RF M).2.2 (by rw [w2]; simp)
  rw [w1, w2, w3] at this; exact this

theorem litv (b : UInt64) (n : ℕ) (h : n ≤ 2 ^ 53) : (Flt.lit b n 1 : RF M).val = (n : ℝ) := by
  rw [FltRF.lit_val]; exact lit_int M n h

theorem eps_val : (C.EPSILON : RF M).val = M.rnd (1107 / 125000) := by
  simp only [C.EPSILON, FltRF.lit_val, Nat.cast_ofNat]
theorem kappa_val : (C.KAPPA : RF M).val = M.rnd (9033 / 10) := by
  simp only [C.KAPPA, FltRF.lit_val, Nat.cast_ofNat]

theorem from_xyz_fp (x : Xyz (RF M)) (h : ¬ (x.x.val = 0 ∧ x.y.val = 0 ∧ x.z.val = 0)) :
    (Luv.from_Xyz x).l.val = lumF M (M.rnd x.y.val) ∧
    (Luv.from_Xyz x).u.val = M.rnd (M.rnd (13 * lumF M (M.rnd x.y.val)) *
      M.rnd (upF M x.x.val x.y.val x.z.val - upF M (wX M) 1 (wZ M))) ∧
    (Luv.from_Xyz x).v.val = M.rnd (M.rnd (13 * lumF M (M.rnd x.y.val)) *
      M.rnd (vpF M x.x.val x.y.val x.z.val - vpF M (wX M) 1 (wZ M))) := by
  obtain ⟨c1, c2⟩ := compounds_fp M x.x x.y x.z h
  obtain ⟨d1, d2⟩ := white_compounds M
  obtain ⟨w1, w2, w3⟩ := white_val M
  have hy : (x.y / (C.D65 : RF M × RF M × RF M).2.1).val = M.rnd x.y.val := by
    rw [FltRF.div_val, w2, div_one]
  unfold Luv.from_Xyz
  simp only [FltRF.lt_eq, decide_eq_true_eq, hy, eps_val]
  unfold lumF
  split_ifs with hc
  all_goals
    simp only [FltRF.mul_val, FltRF.sub_val, FltRF.div_val, FltRF.pow_val, c1, c2, d1, d2, hy, kappa_val,
      litv M _ 116 (by norm_num), litv M _ 16 (by norm_num), litv M _ 13 (by norm_num), litv M _ 1 (by norm_num),
      litv M _ 3 (by norm_num), Nat.cast_ofNat, Nat.cast_one, and_self]

/-- recovered luminance of `Xyz::from(Luv)` -/
noncomputable def revY (L : ℝ) : ℝ :=
  if M.rnd (M.rnd (9033 / 10) * M.rnd (1107 / 125000)) < L then RF.powi M (M.rnd (M.rnd (L + 16) / 116)) 3
  else M.rnd (L / M.rnd (9033 / 10))
noncomputable def upR (U K un : ℝ) : ℝ := M.rnd (M.rnd (U / K) + un)
noncomputable def xR (y up vp : ℝ) : ℝ := M.rnd (M.rnd (y * M.rnd (9 * up)) / M.rnd (4 * vp))
noncomputable def zR (y up vp : ℝ) : ℝ :=
  M.rnd (M.rnd (y * M.rnd (M.rnd (12 - M.rnd (3 * up)) - M.rnd (20 * vp))) / M.rnd (4 * vp))

theorem from_luv_fp (l : Luv (RF M)) (h : l.l.val ≠ 0) :
    (Xyz.from_Luv l).y.val = revY M l.l.val ∧
    (Xyz.from_Luv l).x.val = xR M (revY M l.l.val) (upR M l.u.val (M.rnd (13 * l.l.val)) (upF M (wX M) 1 (wZ M)))
      (upR M l.v.val (M.rnd (13 * l.l.val)) (vpF M (wX M) 1 (wZ M))) ∧
    (Xyz.from_Luv l).z.val = zR M (revY M l.l.val) (upR M l.u.val (M.rnd (13 * l.l.val)) (upF M (wX M) 1 (wZ M)))
      (upR M l.v.val (M.rnd (13 * l.l.val)) (vpF M (wX M) 1 (wZ M))) := by
  obtain ⟨d1, d2⟩ := white_compounds M
  unfold Xyz.from_Luv
  simp only [FltRF.beq_eq, FltRF.lt_eq, FltRF.lit_val, lit_zero, decide_eq_true_eq, FltRF.mul_val, eps_val, kappa_val,
    if_neg h, ite_self]
  unfold revY xR zR upR
  split_ifs with hc
  all_goals
    simp only [FltRF.mul_val, FltRF.sub_val, FltRF.div_val, FltRF.add_val, FltRF.powi_val, d1, d2, kappa_val,
      litv M _ 116 (by norm_num), litv M _ 16 (by norm_num), litv M _ 13 (by norm_num), litv M _ 9 (by norm_num),
      litv M _ 3 (by norm_num), litv M _ 4 (by norm_num), litv M _ 12 (by norm_num), litv M _ 20 (by norm_num),
      Nat.cast_ofNat, and_self]

/-! ## the lightness -/

theorem thr_close' : |M.rnd (1107 / 125000) - 1107 / 125000| ≤ 1 / 10 ^ 17 := by
  have := thr_close M; push_cast at this; exact this

theorem kappa_near : Near (M.rnd (9033 / 10)) (9033 / 10) (FP.eps * 904) 904 := by
  have := Near.lit M 9033 10 (B := 904) (by norm_num) (by norm_num); push_cast at this; exact this

/-- cube-root branch of the lightness, `116·powf(y, 1/3) − 16` -/
theorem lum_hi_fp {y : ℝ} (h0 : 8 / 1000 ≤ y) (h1 : y ≤ 112 / 100) :
    |M.rnd (M.rnd (116 * M.pow y (M.rnd (1 / 3))) - 16) - (116 * Real.cbrt y - 16)| ≤ 2 / 10 ^ 13 := by
  have hp := pow_third_fp M (y := y) (by linarith) h1
  have hb := Lemmas.CurvesD2.cbrt_bounds (x := y) (a := 0) (b := 104 / 100) le_rfl (by norm_num)
    (by norm_num; linarith) (by norm_num; linarith)
  have np : Near (M.pow y (M.rnd (1 / 3))) (Real.cbrt y) (1 / 10 ^ 15) (104 / 100) :=
    ⟨hp, by rw [abs_of_nonneg hb.1]; exact hb.2, by norm_num⟩
  have n116 : Near (116 : ℝ) 116 0 116 := Near.exact (by norm_num) (by norm_num)
  have n16 : Near (16 : ℝ) 16 0 16 := Near.exact (by norm_num) (by norm_num)
  exact ((n116.mul M np).sub M n16).finish rfl (by norm_num [FP.eps])

/-- linear branch of the lightness, `κ·y`, computed argument `y` within `e ≤ 2e-16` of `Y ∈ [0, 0.01]` -/
theorem lum_lo_fp {y Y e : ℝ} (hy : |y - Y| ≤ e) (he : e ≤ 2 / 10 ^ 16) (h0 : 0 ≤ Y) (h1 : Y ≤ 1 / 100) :
    |M.rnd (M.rnd (9033 / 10) * y) - 9033 / 10 * Y| ≤ 2 / 10 ^ 13 := by
  have he0 : 0 ≤ e := le_trans (abs_nonneg _) hy
  have m := mul_close M (kappa_near M).err hy (Bx := 904) (By := 1 / 100) (by rw [abs_of_pos] <;> norm_num)
    (by rw [abs_of_nonneg h0]; exact h1) (by norm_num)
  refine m.trans ?_
  norm_num [FP.eps] at he ⊢
  nlinarith

/-- **the lightness of `Luv::from(Xyz)` in `RF M`**, luminance `y ∈ [0, 1.12]`: one of the two branch
formulas within `2e-13`, the branch consistent with `y` up to `1e-9` -/
theorem lum_fwd_fp {y : ℝ} (h0 : 0 ≤ y) (h1 : y ≤ 112 / 100) : LFwdOK y (lumF M y) (2 / 10 ^ 13) := by
  obtain ⟨k1, k2⟩ := abs_le.mp (thr_close' M)
  unfold lumF
  split_ifs with hc
  · left
    exact ⟨by norm_num at k1 k2 ⊢; linarith, lum_hi_fp M (by norm_num at k1 k2 ⊢; linarith) h1⟩
  · right
    rw [not_lt] at hc
    have ht : y ≤ 8856001 / 10 ^ 9 := by norm_num at k1 k2 ⊢; linarith
    exact ⟨ht, lum_lo_fp M (y := y) (Y := y) (e := 0) (by simp) (by norm_num) h0 (by norm_num at ht ⊢; linarith)⟩

/-- **lightness, computed vs real model**: luminance `Y ∈ [0, 1.1]` farther than `1e-12` from the threshold
`0.008856` (both evaluations then take the same branch; the branch formulas differ by `3.3e-5` there) -/
theorem lum_close {Y : ℝ} (h0 : 0 ≤ Y) (h1 : Y ≤ 11 / 10) (hs : 1 / 10 ^ 12 ≤ |Y - 1107 / 125000|) :
    |lumF M (M.rnd Y) - lCodeLuv Y| ≤ 4 / 10 ^ 13 := by
  obtain ⟨k1, k2⟩ := abs_le.mp (thr_close' M)
  have hy := rnd_abs M (x := Y) (B := 11 / 10) (by rw [abs_of_nonneg h0]; exact h1) (by norm_num)
  obtain ⟨t1, t2⟩ := abs_le.mp hy
  unfold lumF lCodeLuv
  split_ifs with hc hr hr
  · have ha : (2 / 10 : ℝ) ^ 3 ≤ M.rnd Y := by norm_num at k1 k2 hc ⊢; linarith
    have hx : (2 / 10 : ℝ) ^ 3 ≤ Y := by norm_num at hr ⊢; linarith
    have l := cbrt_lipschitz (m := 2 / 10) (by norm_num) ha hx
    have hh := lum_hi_fp M (y := M.rnd Y) (by norm_num at ha ⊢; linarith) (by norm_num [FP.eps] at t2 ⊢; linarith)
    rw [← cbrt_of_nonneg h0]
    have l' : |Real.cbrt (M.rnd Y) - Real.cbrt Y| ≤ 12 / 10 ^ 16 := by
      refine l.trans ?_
      rw [div_le_iff₀ (by norm_num)]
      refine hy.trans ?_; norm_num [FP.eps]
    have e : M.rnd (M.rnd (116 * M.pow (M.rnd Y) (M.rnd (1 / 3))) - 16) - (116 * Real.cbrt Y - 16)
        = (M.rnd (M.rnd (116 * M.pow (M.rnd Y) (M.rnd (1 / 3))) - 16) - (116 * Real.cbrt (M.rnd Y) - 16))
          + 116 * (Real.cbrt (M.rnd Y) - Real.cbrt Y) := by ring
    rw [e]
    refine (abs_add_le _ _).trans ?_
    rw [abs_mul, abs_of_pos (by norm_num : (0 : ℝ) < 116)]
    norm_num at hh l' ⊢; linarith
  · exfalso
    rw [not_lt] at hr
    rw [abs_of_nonpos (by linarith)] at hs
    norm_num [FP.eps] at k1 k2 hc hs t1 t2 hr
    linarith
  · exfalso
    rw [not_lt] at hc
    rw [abs_of_nonneg (by linarith)] at hs
    norm_num [FP.eps] at k1 k2 hc hs t1 t2 hr
    linarith
  · rw [not_lt] at hr
    exact (lum_lo_fp M hy (by norm_num [FP.eps]) h0 (by norm_num at hr ⊢; linarith)).trans (by norm_num)

/-! ## chromaticities, cancellation, luminance recovery -/

/-- the computed denominator `(X + 15·Y) + 3·Z` of `compute_compounds` (four roundings, all terms
non-negative): relative error `6·eps` -/
theorem den_rel {X Y Z : ℝ} (hX : 0 ≤ X) (hY : 1 / 10 ^ 5 ≤ Y) (hZ : 0 ≤ Z) :
    |denF M X Y Z - (X + 15 * Y + 3 * Z)| ≤ 6 * FP.eps * (X + 15 * Y + 3 * Z) := by
  unfold denF
  set D := X + 15 * Y + 3 * Z with hD
  have hD0 : 1 / 10 ^ 4 ≤ D := by norm_num at hY ⊢; linarith
  have hB : (1e-200 : ℝ) ≤ D := le_trans (by norm_num) hD0
  have hY0 : 0 ≤ Y := le_trans (by norm_num) hY
  have r1 := rnd_abs M (x := 15 * Y) (B := D) (by rw [abs_of_nonneg (by positivity)]; linarith) hB
  obtain ⟨a1, a2⟩ := abs_le.mp r1
  have hb2 : |X + M.rnd (15 * Y)| ≤ 2 * D := by
    rw [abs_le]; unfold FP.eps at *; constructor <;> nlinarith
  have r2 := rnd_abs M hb2 (by linarith)
  obtain ⟨b1, b2⟩ := abs_le.mp r2
  have r3 := rnd_abs M (x := 3 * Z) (B := D) (by rw [abs_of_nonneg (by positivity)]; linarith) hB
  obtain ⟨c1, c2⟩ := abs_le.mp r3
  have hb4 : |M.rnd (X + M.rnd (15 * Y)) + M.rnd (3 * Z)| ≤ 2 * D := by
    rw [abs_le]; unfold FP.eps at *; constructor <;> nlinarith
  have r4 := rnd_abs M hb4 (by linarith)
  obtain ⟨d1, d2⟩ := abs_le.mp r4
  rw [abs_le]; unfold FP.eps at *; constructor <;> nlinarith

/-- a chromaticity `n / (X + 15Y + 3Z)` of `compute_compounds` in `RF M`, numerator `0 ≤ n ≤ 4·(X+15Y+3Z)`
rounded once: within `1e-14` of the exact quotient, for every non-negative `X, Z` and `Y ≥ 1e-5` -/
theorem ratio_uv {X Y Z n : ℝ} (hX : 0 ≤ X) (hY : 1 / 10 ^ 5 ≤ Y) (hZ : 0 ≤ Z) (hn0 : 0 ≤ n)
    (hn : n ≤ 4 * (X + 15 * Y + 3 * Z)) :
    |M.rnd (M.rnd n / denF M X Y Z) - n / (X + 15 * Y + 3 * Z)| ≤ 1 / 10 ^ 14 := by
  have hd := den_rel M hX hY hZ
  set D := X + 15 * Y + 3 * Z with hD
  have hD0 : 1 / 10 ^ 4 ≤ D := by norm_num at hY ⊢; linarith
  have hDp : 0 < D := lt_of_lt_of_le (by norm_num) hD0
  have ra := rnd_abs M (x := n) (B := 4 * D) (by rw [abs_of_nonneg hn0]; exact hn) (by linarith)
  have d := div_rel_exact (a := M.rnd n) (b := denF M X Y Z) (x := n) (y := D) (ka := 4 * FP.eps)
    (kb := 6 * FP.eps) (kx := 4) hDp (by linarith) hd (by rw [abs_of_nonneg hn0]; exact hn) (by norm_num [FP.eps])
  have hq : |n / D| ≤ 4 := by
    rw [abs_of_nonneg (div_nonneg hn0 hDp.le), div_le_iff₀ hDp]; exact hn
  have r := rnd_close M d hq (by norm_num)
  exact r.trans (by norm_num [FP.eps])

theorem up_fp {X Y Z : ℝ} (hX : 0 ≤ X) (hY : 1 / 10 ^ 5 ≤ Y) (hZ : 0 ≤ Z) :
    |upF M X Y Z - 4 * X / (X + 15 * Y + 3 * Z)| ≤ 1 / 10 ^ 14 :=
  ratio_uv M hX hY hZ (by positivity) (by norm_num at hY ⊢; nlinarith)

theorem vp_fp {X Y Z : ℝ} (hX : 0 ≤ X) (hY : 1 / 10 ^ 5 ≤ Y) (hZ : 0 ≤ Z) :
    |vpF M X Y Z - 9 * Y / (X + 15 * Y + 3 * Z)| ≤ 1 / 10 ^ 14 :=
  ratio_uv M hX hY hZ (by norm_num at hY ⊢; linarith) (by norm_num at hY ⊢; nlinarith)

theorem wX_near : Near (wX M) (95047 / 100000) (FP.eps * 1) 1 := by
  have := Near.lit M 95047 100000 (B := 1) (by norm_num) le_rfl; push_cast at this; exact this
theorem wZ_near : Near (wZ M) (108883 / 100000) (FP.eps * 2) 2 := by
  have := Near.lit M 108883 100000 (B := 2) (by norm_num) (by norm_num); push_cast at this; exact this

open Props.C06 in
/-- the white point's `u'n`, `v'n` as the code computes them (same expression in both directions) -/
theorem white_uv : |upF M (wX M) 1 (wZ M) - uPrime Xn Yn Zn| ≤ 1 / 10 ^ 15 ∧
    |vpF M (wX M) 1 (wZ M) - vPrime Xn Yn Zn| ≤ 1 / 10 ^ 15 := by
  have nX := wX_near M
  have nZ := wZ_near M
  have n1 : Near (1 : ℝ) 1 0 1 := Near.exact (by norm_num) le_rfl
  have n4 : Near (4 : ℝ) 4 0 4 := Near.exact (by norm_num) (by norm_num)
  have n9 : Near (9 : ℝ) 9 0 9 := Near.exact (by norm_num) (by norm_num)
  have n15 : Near (15 : ℝ) 15 0 15 := Near.exact (by norm_num) (by norm_num)
  have n3 : Near (3 : ℝ) 3 0 3 := Near.exact (by norm_num) (by norm_num)
  have nD := (nX.add M (n15.mul M n1)).add M (n3.mul M nZ)
  have hm : (19 : ℝ) ≤ |95047 / 100000 + 15 * 1 + 3 * (108883 / 100000)| := by
    rw [abs_of_pos (by norm_num)]; norm_num
  unfold upF vpF denF uPrime vPrime Xn Yn Zn
  constructor
  · exact ((n4.mul M nX).div M nD (m := 19) (Bq := 1) hm (by norm_num [FP.eps])
      (by rw [abs_of_pos (by norm_num)]; norm_num) le_rfl).finish rfl (by norm_num [FP.eps])
  · exact ((n9.mul M n1).div M nD (m := 19) (Bq := 1) hm (by norm_num [FP.eps])
      (by rw [abs_of_pos (by norm_num)]; norm_num) le_rfl).finish rfl (by norm_num [FP.eps])

/-- **cancellation** `rnd (rnd (K·d) / K) ≈ d` (the reverse divides by the same computed `13·L` the forward
multiplied by): `K ≥ 0.2`, `|d| ≤ 5.2` -/
theorem cancel_fp {K d : ℝ} (hK : 2 / 10 ≤ K) (hd : |d| ≤ 52 / 10) :
    |M.rnd (M.rnd (K * d) / K) - d| ≤ 13 / 10 ^ 16 := by
  have hK0 : 0 < K := by linarith
  have r1 := rnd_abs M (x := K * d) (B := K * (52 / 10))
    (by rw [abs_mul, abs_of_pos hK0]; exact mul_le_mul_of_nonneg_left hd hK0.le) (by nlinarith)
  have e : M.rnd (K * d) / K - d = (M.rnd (K * d) - K * d) / K := by field_simp
  have h2 : |M.rnd (K * d) / K - d| ≤ FP.eps * (52 / 10) := by
    rw [e, abs_div, abs_of_pos hK0, div_le_iff₀ hK0]
    refine r1.trans (le_of_eq ?_); ring
  have r := rnd_close M h2 hd (by norm_num)
  exact r.trans (by norm_num [FP.eps])

/-- the reverse's `u/(13·L) + u'n` returns the forward's computed `u'` up to `3e-15`
(`u = rnd (K · rnd (u' − u'n))`, `K` the computed `13·L ≥ 0.2`) -/
theorem up_close {K u1 un : ℝ} (hK : 2 / 10 ≤ K) (hu : |u1| ≤ 41 / 10) (hn : |un| ≤ 1) :
    |upR M (M.rnd (K * M.rnd (u1 - un))) K un - u1| ≤ 3 / 10 ^ 15 := by
  have hb : |u1 - un| ≤ 51 / 10 := by
    have := abs_sub u1 un; linarith
  have r1 := rnd_abs M hb (by norm_num)
  have hd : |M.rnd (u1 - un)| ≤ 52 / 10 := by
    have := abs_sub_abs_le_abs_sub (M.rnd (u1 - un)) (u1 - un)
    norm_num [FP.eps] at r1 ⊢; linarith
  have c := cancel_fp M hK hd
  unfold upR
  have h1 : |M.rnd (M.rnd (K * M.rnd (u1 - un)) / K) + un - u1| ≤ 2 / 10 ^ 15 := by
    have e : M.rnd (M.rnd (K * M.rnd (u1 - un)) / K) + un - u1
        = (M.rnd (M.rnd (K * M.rnd (u1 - un)) / K) - M.rnd (u1 - un)) + (M.rnd (u1 - un) - (u1 - un)) := by ring
    rw [e]
    refine (abs_add_le _ _).trans ?_
    norm_num [FP.eps] at r1 c ⊢; linarith
  have r := rnd_close M h1 hu (by norm_num)
  exact r.trans (by norm_num [FP.eps])

/-- the rounded product `κ·ε` of the reverse's threshold -/
theorem thr2_close' : |M.rnd (M.rnd (9033 / 10) * M.rnd (1107 / 125000)) - 79996248 / 10000000| ≤ 1 / 10 ^ 12 := by
  have nE : Near (M.rnd (1107 / 125000)) (1107 / 125000) (FP.eps * 1) 1 := by
    have := Near.lit M 1107 125000 (B := 1) (by norm_num) le_rfl; push_cast at this; exact this
  exact ((kappa_near M).mul M nE).finish (by norm_num) (by norm_num [FP.eps])

/-- **luminance recovery of `Xyz::from(Luv)` in `RF M`**, lightness `L ∈ [0.017, 105]`: one of the two branch
formulas at `(L + 16)/116` within `2e-14`, the branch consistent with it -/
theorem rev_y_fp {L : ℝ} (h0 : 17 / 1000 ≤ L) (h1 : L ≤ 105) : RevOK ((L + 16) / 116) (revY M L) (2 / 10 ^ 14) := by
  obtain ⟨k1, k2⟩ := abs_le.mp (thr2_close' M)
  have n16 : Near (16 : ℝ) 16 0 16 := Near.exact (by norm_num) (by norm_num)
  unfold revY
  split_ifs with hc
  · left
    constructor
    · rw [le_div_iff₀ (by norm_num)]; norm_num at k1 k2 hc ⊢; linarith
    · have nL : Near L L 0 105 := Near.exact (by rw [abs_of_nonneg (by linarith)]; exact h1) (by norm_num)
      have nl2 := (nL.add M n16).div_const M (c := 116) (B' := 105 / 100) (by norm_num) (by norm_num) (by norm_num)
      exact (Near.powi3 M nl2).finish rfl (by norm_num [eMul, eRnd, FP.eps])
  · right
    rw [not_lt] at hc
    have hL8 : L ≤ 8 := by norm_num at k1 k2 hc ⊢; linarith
    constructor
    · rw [div_le_iff₀ (by norm_num)]; norm_num at k1 k2 hc ⊢; linarith
    · have nL : Near L L 0 8 := Near.exact (by rw [abs_of_nonneg (by linarith)]; exact hL8) (by norm_num)
      have hq : |L / (9033 / 10)| ≤ 1 := by
        rw [abs_div, abs_of_pos (by norm_num : (0 : ℝ) < 9033 / 10), div_le_iff₀ (by norm_num),
          abs_of_nonneg (by linarith)]
        linarith
      have n := nL.div M (kappa_near M) (m := 903) (by rw [abs_of_pos (by norm_num)]; norm_num)
        (by norm_num [FP.eps]) hq le_rfl
      exact n.finish (by ring) (by norm_num [FP.eps])

/-! ## assembly and round trip -/

/-- **assembly of `Xyz::from(Luv)`**: `x = y·9u'/(4v')`, `z = y·(12 − 3u' − 20v')/(4v')` with the recovered luminance
`y` within `1e-7` of `Y` and the recovered chromaticities within `2e-14` of `u' = 4X/(X+15Y+3Z)`, `v' = 9Y/(…)`,
on the cone `X ≤ 2.6·Y`, `Z ≤ 13.3·Y` (which keeps `4v' ≥ 0.62`): `X` within `1e-6`, `Z` within `2e-6` -/
theorem assemble_fp {X Y Z y up vp : ℝ} (hX : 0 ≤ X) (hX1 : X ≤ 11 / 10) (hY : 19 / 10 ^ 6 ≤ Y) (hY1 : Y ≤ 11 / 10)
    (hZ : 0 ≤ Z) (hZ1 : Z ≤ 11 / 10) (hxc : X ≤ 26 / 10 * Y) (hzc : Z ≤ 133 / 10 * Y)
    (hy : |y - Y| ≤ 1 / 10 ^ 7) (hup : |up - 4 * X / (X + 15 * Y + 3 * Z)| ≤ 2 / 10 ^ 14)
    (hvp : |vp - 9 * Y / (X + 15 * Y + 3 * Z)| ≤ 2 / 10 ^ 14) :
    |xR M y up vp - X| ≤ 1 / 10 ^ 6 ∧ |zR M y up vp - Z| ≤ 2 / 10 ^ 6 := by
  have hYp : 0 < Y := lt_of_lt_of_le (by norm_num) hY
  have hD : 0 < X + 15 * Y + 3 * Z := by positivity
  have tX : Y * (9 * (4 * X / (X + 15 * Y + 3 * Z))) / (4 * (9 * Y / (X + 15 * Y + 3 * Z))) = X := by
    field_simp
  have tZ : Y * (12 - 3 * (4 * X / (X + 15 * Y + 3 * Z)) - 20 * (9 * Y / (X + 15 * Y + 3 * Z))) /
      (4 * (9 * Y / (X + 15 * Y + 3 * Z))) = Z := by
    field_simp; ring
  have t12 : 12 - 3 * (4 * X / (X + 15 * Y + 3 * Z)) - 20 * (9 * Y / (X + 15 * Y + 3 * Z))
      = 36 * Z / (X + 15 * Y + 3 * Z) := by
    field_simp; ring
  have u0 : 0 ≤ 4 * X / (X + 15 * Y + 3 * Z) := by positivity
  have u1 : 4 * X / (X + 15 * Y + 3 * Z) ≤ 6 / 10 := by rw [div_le_iff₀ hD]; linarith
  have v0 : 155 / 1000 ≤ 9 * Y / (X + 15 * Y + 3 * Z) := by rw [le_div_iff₀ hD]; linarith
  have v1 : 9 * Y / (X + 15 * Y + 3 * Z) ≤ 6 / 10 := by rw [div_le_iff₀ hD]; linarith
  have z0 : 0 ≤ 36 * Z / (X + 15 * Y + 3 * Z) := by positivity
  have z1 : 36 * Z / (X + 15 * Y + 3 * Z) ≤ 12 := by rw [div_le_iff₀ hD]; linarith
  have nup : Near up (4 * X / (X + 15 * Y + 3 * Z)) (2 / 10 ^ 14) 1 :=
    ⟨hup, by rw [abs_of_nonneg u0]; linarith, le_rfl⟩
  have nvp : Near vp (9 * Y / (X + 15 * Y + 3 * Z)) (2 / 10 ^ 14) 1 :=
    ⟨hvp, by rw [abs_of_nonneg (by linarith)]; linarith, le_rfl⟩
  have ny : Near y Y (1 / 10 ^ 7) (11 / 10) := ⟨hy, by rw [abs_of_pos hYp]; exact hY1, by norm_num⟩
  have n9 : Near (9 : ℝ) 9 0 9 := Near.exact (by norm_num) (by norm_num)
  have n4 : Near (4 : ℝ) 4 0 4 := Near.exact (by norm_num) (by norm_num)
  have n3 : Near (3 : ℝ) 3 0 3 := Near.exact (by norm_num) (by norm_num)
  have n12 : Near (12 : ℝ) 12 0 12 := Near.exact (by norm_num) (by norm_num)
  have n20 : Near (20 : ℝ) 20 0 20 := Near.exact (by norm_num) (by norm_num)
  have hm : (62 / 100 : ℝ) ≤ |4 * (9 * Y / (X + 15 * Y + 3 * Z))| := by
    rw [abs_of_nonneg (by linarith)]; linarith
  have n9up := (n9.mul M nup).remag (B' := 54 / 10) (by rw [abs_of_nonneg (by linarith)]; linarith) (by norm_num)
  have n12s := ((n12.sub M (n3.mul M nup)).sub M (n20.mul M nvp)).remag (B' := 12)
    (by rw [t12, abs_of_nonneg z0]; exact z1) (by norm_num)
  unfold xR zR
  constructor
  · have n := (ny.mul M n9up).div M (n4.mul M nvp) (m := 62 / 100) (Bq := 11 / 10) hm (by norm_num [FP.eps])
      (by rw [tX, abs_of_nonneg hX]; exact hX1) (by norm_num)
    exact n.finish tX (by norm_num [FP.eps])
  · have n := (ny.mul M n12s).div M (n4.mul M nvp) (m := 62 / 100) (Bq := 11 / 10) hm (by norm_num [FP.eps])
      (by rw [tZ, abs_of_nonneg hZ]; exact hZ1) (by norm_num)
    exact n.finish tZ (by norm_num [FP.eps])

open Props.C06 in
theorem white_uv_bound : |upF M (wX M) 1 (wZ M)| ≤ 1 ∧ |vpF M (wX M) 1 (wZ M)| ≤ 1 := by
  obtain ⟨h1, h2⟩ := white_uv M
  have hu0 : uPrime Xn Yn Zn = 380188 / 1921696 := by unfold uPrime Xn Yn Zn; norm_num
  have hv0 : vPrime Xn Yn Zn = 900000 / 1921696 := by unfold vPrime Xn Yn Zn; norm_num
  rw [hu0] at h1; rw [hv0] at h2
  obtain ⟨a1, a2⟩ := abs_le.mp h1
  obtain ⟨b1, b2⟩ := abs_le.mp h2
  constructor <;> rw [abs_le] <;> constructor <;> linarith

/-- **CIELUV round trip in `RF M`**: for every computed XYZ on the cone of the non-black 8-bit colours
(`X, Z ≥ 0`, `Y ≥ 1.9e-5`, all `≤ 1.1`, `X ≤ 2.6·Y`, `Z ≤ 13.3·Y`), `Xyz::from(Luv::from(xyz))` evaluated in ANY
model returns `X` within `1e-6`, `Y` within `1e-7`, `Z` within `2e-6` — whatever branches the two lightness
tests take. -/
theorem luv_roundtrip_fp (x : Xyz (RF M)) (hx0 : 0 ≤ x.x.val) (hx1 : x.x.val ≤ 11 / 10)
    (hy0 : 19 / 10 ^ 6 ≤ x.y.val) (hy1 : x.y.val ≤ 11 / 10) (hz0 : 0 ≤ x.z.val) (hz1 : x.z.val ≤ 11 / 10)
    (hxc : x.x.val ≤ 26 / 10 * x.y.val) (hzc : x.z.val ≤ 133 / 10 * x.y.val) :
    |(Xyz.from_Luv (Luv.from_Xyz x)).x.val - x.x.val| ≤ 1 / 10 ^ 6 ∧
    |(Xyz.from_Luv (Luv.from_Xyz x)).y.val - x.y.val| ≤ 1 / 10 ^ 7 ∧
    |(Xyz.from_Luv (Luv.from_Xyz x)).z.val - x.z.val| ≤ 2 / 10 ^ 6 := by
  have hYp : 0 < x.y.val := lt_of_lt_of_le (by norm_num) hy0
  have hne : ¬ (x.x.val = 0 ∧ x.y.val = 0 ∧ x.z.val = 0) := fun h => hYp.ne' h.2.1
  obtain ⟨f1, f2, f3⟩ := from_xyz_fp M x hne
  have ry := rnd_abs M (x := x.y.val) (B := 11 / 10) (by rw [abs_of_pos hYp]; exact hy1) (by norm_num)
  obtain ⟨ry1, ry2⟩ := abs_le.mp ry
  have yc0 : 189 / 10 ^ 7 ≤ M.rnd x.y.val := by norm_num [FP.eps] at ry1 hy0 ⊢; linarith
  have yc1 : M.rnd x.y.val ≤ 112 / 100 := by norm_num [FP.eps] at ry2 ⊢; linarith
  have hL := lum_fwd_fp M (y := M.rnd x.y.val) (by linarith) yc1
  obtain ⟨L0, L1⟩ := lfwd_range hL yc0 yc1 (by norm_num)
  have hLne : (Luv.from_Xyz x).l.val ≠ 0 := by rw [f1]; linarith
  obtain ⟨g1, g2, g3⟩ := from_luv_fp M (Luv.from_Xyz x) hLne
  rw [g1, g2, g3, f1, f2, f3]
  set L := lumF M (M.rnd x.y.val) with hLdef
  -- luminance
  have hr := rev_y_fp M L0 L1
  have hc0 : 1 / 10 ≤ (L + 16) / 116 := by rw [le_div_iff₀ (by norm_num)]; linarith
  have k := lrev_fwd_close (by linarith) (by linarith) hL hc0 hr (by norm_num)
  have hyY : |revY M L - x.y.val| ≤ 1 / 10 ^ 7 := by
    have := abs_sub_le (revY M L) (M.rnd x.y.val) x.y.val
    norm_num [FP.eps] at k ry this ⊢; linarith
  -- the factor 13·L
  have rK := rnd_abs M (x := 13 * L) (B := 1365) (by rw [abs_of_nonneg (by linarith)]; linarith) (by norm_num)
  have hK : 2 / 10 ≤ M.rnd (13 * L) := by
    have := (abs_le.mp rK).1; norm_num [FP.eps] at this ⊢; linarith
  -- chromaticities
  have hy5 : (1 : ℝ) / 10 ^ 5 ≤ x.y.val := le_trans (by norm_num) hy0
  have hD : 0 < x.x.val + 15 * x.y.val + 3 * x.z.val := by positivity
  have hu := up_fp M hx0 hy5 hz0
  have hv := vp_fp M hx0 hy5 hz0
  have u0 : 0 ≤ 4 * x.x.val / (x.x.val + 15 * x.y.val + 3 * x.z.val) := by positivity
  have u1 : 4 * x.x.val / (x.x.val + 15 * x.y.val + 3 * x.z.val) ≤ 4 := by rw [div_le_iff₀ hD]; nlinarith
  have v0 : 0 ≤ 9 * x.y.val / (x.x.val + 15 * x.y.val + 3 * x.z.val) := by positivity
  have v1 : 9 * x.y.val / (x.x.val + 15 * x.y.val + 3 * x.z.val) ≤ 4 := by rw [div_le_iff₀ hD]; nlinarith
  have hub : |upF M x.x.val x.y.val x.z.val| ≤ 41 / 10 := by
    obtain ⟨a1, a2⟩ := abs_le.mp hu; rw [abs_le]; constructor <;> linarith
  have hvb : |vpF M x.x.val x.y.val x.z.val| ≤ 41 / 10 := by
    obtain ⟨a1, a2⟩ := abs_le.mp hv; rw [abs_le]; constructor <;> linarith
  obtain ⟨wu, wv⟩ := white_uv_bound M
  have cu := up_close M hK hub wu
  have cv := up_close M hK hvb wv
  have hup := (abs_sub_le _ _ _).trans (add_le_add cu hu)
  have hvp := (abs_sub_le _ _ _).trans (add_le_add cv hv)
  obtain ⟨ax, az⟩ := assemble_fp M hx0 hx1 hy0 hy1 hz0 hz1 hxc hzc hyY (hup.trans (by norm_num)) (hvp.trans (by norm_num))
  exact ⟨ax, hyY, az⟩

/-- **CIELUV round trip of black in `RF M`**: the guard of `compute_compounds` gives `L = u = v = 0` exactly, and
`Xyz::from(Luv)` returns its default `(0, 0, 0)` through the guard `u == 0 ∧ l == 0` (exact comparisons) -/
theorem luv_black_fp (x : Xyz (RF M)) (h1 : x.x.val = 0) (h2 : x.y.val = 0) (h3 : x.z.val = 0) :
    (Luv.from_Xyz x).l.val = 0 ∧ (Luv.from_Xyz x).u.val = 0 ∧ (Luv.from_Xyz x).v.val = 0 := by
  obtain ⟨c1, c2⟩ := compounds_black_fp M x.x x.y x.z h1 h2 h3
  obtain ⟨w1, w2, w3⟩ := white_val M
  have hy : (x.y / (C.D65 : RF M × RF M × RF M).2.1).val = 0 := by
    rw [FltRF.div_val, w2, div_one, h2, rnd_zero]
  have hlt : ¬ M.rnd (1107 / 125000) < 0 := not_lt.mpr (rnd_nonneg M (by norm_num))
  unfold Luv.from_Xyz
  simp only [FltRF.lt_eq, decide_eq_true_eq, hy, eps_val, if_neg hlt, FltRF.mul_val, FltRF.sub_val, c1, c2,
    mul_zero, zero_mul, rnd_zero, litv M _ 13 (by norm_num), and_self]

theorem luv_roundtrip_black_fp (x : Xyz (RF M)) (h1 : x.x.val = 0) (h2 : x.y.val = 0) (h3 : x.z.val = 0) :
    (Xyz.from_Luv (Luv.from_Xyz x)).x.val = 0 ∧ (Xyz.from_Luv (Luv.from_Xyz x)).y.val = 0 ∧
    (Xyz.from_Luv (Luv.from_Xyz x)).z.val = 0 := by
  obtain ⟨b1, b2, b3⟩ := luv_black_fp M x h1 h2 h3
  unfold Xyz.from_Luv
  simp only [FltRF.beq_eq, FltRF.lit_val, lit_zero, decide_eq_true_eq, b1, b2, if_true, Xyz.default, and_self]

end fp
end FpLuv
