import LymuiVerif.Lemmas.FpLinear
import LymuiVerif.Lemmas.GeneratorB2
/-!
# The loops of `Shade::compute` and `Tint::compute` in the rounded-arithmetic reading (`RF M`)

Same structure as `Lemmas/GeneratorB2.lean` (exact reals): one-step lemmas for the fuel-indexed loop
functions GENERATED from the `while` loops, the closed form of the loops by induction on the number
of remaining iterations, the closed form of the two functions — now for `α := RF M`, every
`M : FPModel`.

The loop counter is a float `i` incremented by `i + 1.0`.  In `RF M` the counter after `j` increments
is `M.rnd (M.rnd (… M.rnd (0 + 1) …) + 1)`; it is EXACTLY the natural number `j` as long as
`j ≤ 2^53` (`FPModel.rnd_int`: integers up to `2^53` are representable).  That is why the closed
forms carry the hypothesis `n + 1 ≤ 2^53` on the number of steps (beyond `2^53` the f64 increment
`i + 1.0` rounds back to `i` and the Rust loop never terminates).

Then: the per-entry channel values `shadeCh`, `tintCh` (the f64 reading of one channel of the `j`-th
entry), their value at `j = 0`, their distance to the exact position, their monotonicity in `j`, and
the relation between the rounded and the exact number of steps.
-/
open Gen Lemmas.QuantB2
namespace FpMiscC
open FpErr FpLin
variable (M : FPModel)

/-! ## literals and the counter -/

theorem lit_one : M.rnd (((1 : ℕ) : ℝ) / ((1 : ℕ) : ℝ)) = 1 := by
  simpa using lit_int M 1 (by norm_num)
theorem lit_zero : M.rnd (((0 : ℕ) : ℝ) / ((1 : ℕ) : ℝ)) = 0 := by
  simpa using lit_int M 0 (by norm_num)
theorem lit_255 : M.rnd (((255 : ℕ) : ℝ) / ((1 : ℕ) : ℝ)) = 255 := by
  simpa using lit_int M 255 (by norm_num)

/-- the float counter: `i + 1.0` is exact below `2^53` -/
theorem counter_succ (i : ℕ) (h : i + 1 ≤ 2 ^ 53) : M.rnd ((i : ℝ) + 1) = ((i + 1 : ℕ) : ℝ) := by
  have := rnd_nat M (i + 1) h
  rwa [Nat.cast_add, Nat.cast_one] at this ⊢

/-! ## per-entry channel values (the f64 reading) -/

/-- one channel of the `j`-th shade: `r * (1.0 - j * f)`, every operation rounded -/
noncomputable def shadeCh (r f : ℝ) (j : ℕ) : ℝ := M.rnd (r * M.rnd (1 - M.rnd ((j : ℝ) * f)))

/-- one channel of the `j`-th tint: `r + (255.0 - r) * (j * f)`, every operation rounded -/
noncomputable def tintCh (r f : ℝ) (j : ℕ) : ℝ :=
  M.rnd (r + M.rnd (M.rnd (255 - r) * M.rnd ((j : ℝ) * f)))

/-! ## Shade -/

/-- one iteration of the shade loop, the loop test (exact comparison) succeeding -/
theorem shade_loop_step_fp (fuel : ℕ) (f : RF M) (acc : List Rgb) (r g b steps i : RF M)
    (h : i.val ≤ steps.val) :
    Shade.compute.loop7 (RF M) (fuel + 1) f acc r g b steps i =
      Shade.compute.loop7 (RF M) fuel f
        (acc ++ [⟨Real.toU8 (Real.roundHA (M.rnd (r.val * M.rnd (1 - M.rnd (i.val * f.val))))),
                  Real.toU8 (Real.roundHA (M.rnd (g.val * M.rnd (1 - M.rnd (i.val * f.val))))),
                  Real.toU8 (Real.roundHA (M.rnd (b.val * M.rnd (1 - M.rnd (i.val * f.val)))))⟩])
        r g b steps ⟨M.rnd (i.val + 1)⟩ := by
  rw [Shade.compute.loop7]
  simp only [FltRF.le_eq, h, decide_true, if_true, Vec.push, FltRF.toU8_eq, FltRF.round_val,
    FltRF.mul_val, FltRF.sub_val, FltRF.lit_val, lit_one]
  congr 1
  apply RF.ext'
  simp only [FltRF.add_val, FltRF.lit_val, lit_one]

/-- leaving the shade loop -/
theorem shade_loop_exit_fp (fuel : ℕ) (f : RF M) (acc : List Rgb) (r g b steps i : RF M)
    (h : steps.val < i.val) :
    Shade.compute.loop7 (RF M) (fuel + 1) f acc r g b steps i = Res.ok (Except.ok ⟨acc⟩) := by
  rw [Shade.compute.loop7]
  simp [not_le.mpr h]

/-- closed form of the shade loop in `RF M`, by induction on the number `k` of remaining iterations;
the counter stays the exact natural number because `n + 1 ≤ 2^53` -/
theorem shade_loop_closed_fp (f r g b : RF M) (n : ℕ) (hn : n + 1 ≤ 2 ^ 53) :
    ∀ (k i : ℕ) (acc : List Rgb) (fuel : ℕ), i + k = n + 1 → k < fuel →
      Shade.compute.loop7 (RF M) fuel f acc r g b ⟨(n : ℝ)⟩ ⟨(i : ℝ)⟩ =
        Res.ok (Except.ok ⟨acc ++ List.map (fun j : ℕ =>
          (⟨Real.toU8 (Real.roundHA (shadeCh M r.val f.val j)),
            Real.toU8 (Real.roundHA (shadeCh M g.val f.val j)),
            Real.toU8 (Real.roundHA (shadeCh M b.val f.val j))⟩ : Rgb)) (List.range' i k)⟩) := by
  intro k
  induction k with
  | zero =>
    intro i acc fuel hi hf
    obtain ⟨fuel, rfl⟩ : ∃ m, fuel = m + 1 := ⟨fuel - 1, by omega⟩
    rw [shade_loop_exit_fp M _ _ _ _ _ _ _ _ (by
      show (n : ℝ) < (i : ℝ)
      exact_mod_cast (by omega : n < i))]
    simp
  | succ k ih =>
    intro i acc fuel hi hf
    obtain ⟨fuel, rfl⟩ : ∃ m, fuel = m + 1 := ⟨fuel - 1, by omega⟩
    rw [shade_loop_step_fp M _ _ _ _ _ _ _ _ (by
      show (i : ℝ) ≤ (n : ℝ)
      exact_mod_cast (by omega : i ≤ n))]
    simp only []
    rw [counter_succ M i (by omega), ih (i + 1) _ fuel (by omega) (by omega)]
    simp [List.range'_succ, shadeCh]

/-- the rounded quotient `1/f` is non-negative, so its floor is a natural number -/
theorem steps_eq_fp (f : ℝ) (h0 : 0 < f) :
    ((⌊M.rnd (1 / f)⌋ : ℤ) : ℝ) = ((⌊M.rnd (1 / f)⌋₊ : ℕ) : ℝ) :=
  (natCast_floor_eq_intCast_floor (rnd_nonneg M (by positivity))).symm

/-- the number of steps stays in the range where the counter is exact -/
theorem steps_small_fp (f : ℝ) (hN : 1 / f ≤ 2 ^ 52) : ⌊M.rnd (1 / f)⌋₊ + 1 ≤ 2 ^ 53 := by
  have h : M.rnd (1 / f) ≤ ((2 ^ 52 : ℕ) : ℝ) :=
    rnd_le_nat M (2 ^ 52) (by norm_num) (by
      have e : ((2 ^ 52 : ℕ) : ℝ) = 2 ^ 52 := by norm_num
      rw [e]; exact hN)
  have := Nat.floor_le_floor h
  rw [Nat.floor_natCast] at this
  omega

/-- `1e-15 ≤ f` is enough for the counter to stay exact -/
theorem inv_le_of_ge {f : ℝ} (h : 1e-15 ≤ f) : 1 / f ≤ 2 ^ 52 := by
  have h0 : (0 : ℝ) < f := lt_of_lt_of_le (by norm_num) h
  rw [div_le_iff₀ h0]
  nlinarith

/-- closed form of `Shade::compute` in `RF M` for an accepted factor and sufficient fuel -/
theorem shade_compute_closed_fp (c : Rgb) (f : RF M) (h0 : 0 < f.val) (h1 : f.val ≤ 1)
    (hN : 1 / f.val ≤ 2 ^ 52) (fuel : ℕ) (hf : ⌊M.rnd (1 / f.val)⌋₊ + 1 < fuel) :
    Shade.compute fuel c f = Res.ok (Except.ok ⟨List.map (fun j : ℕ =>
      (⟨Real.toU8 (Real.roundHA (shadeCh M c.r f.val j)),
        Real.toU8 (Real.roundHA (shadeCh M c.g f.val j)),
        Real.toU8 (Real.roundHA (shadeCh M c.b f.val j))⟩ : Rgb))
      (List.range (⌊M.rnd (1 / f.val)⌋₊ + 1))⟩) := by
  simp only [Shade.compute, Rgb.as_f64, FltRF.lt_eq, FltRF.le_eq, FltRF.lit_val, lit_one, lit_zero,
    decide_eq_true_eq, h0, h1, if_true, Res.pure_eq]
  have es : (Flt.floor ((Flt.lit 0x3FF0000000000000 1 1 : RF M) / f) : RF M)
      = ⟨((⌊M.rnd (1 / f.val)⌋₊ : ℕ) : ℝ)⟩ := by
    apply RF.ext'
    simp only [FltRF.floor_val, FltRF.div_val, FltRF.lit_val, lit_one]
    exact steps_eq_fp M f.val h0
  have ei : (Flt.lit 0x0000000000000000 0 1 : RF M) = ⟨((0 : ℕ) : ℝ)⟩ := by
    apply RF.ext'
    show M.rnd (((0 : ℕ) : ℝ) / ((1 : ℕ) : ℝ)) = ((0 : ℕ) : ℝ)
    rw [lit_zero, Nat.cast_zero]
  rw [es, ei]
  have := shade_loop_closed_fp M f (Flt.ofNat c.r) (Flt.ofNat c.g) (Flt.ofNat c.b) ⌊M.rnd (1 / f.val)⌋₊
    (steps_small_fp M f.val hN) (⌊M.rnd (1 / f.val)⌋₊ + 1) 0 [] fuel (by omega) hf
  simp only [List.nil_append, FltRF.ofNat_val] at this
  rw [this, List.range_eq_range']

/-- a factor outside `]0, 1]` is rejected before the loop, whatever the fuel (comparisons are exact,
the literals `0.0` and `1.0` are exact) -/
theorem shade_compute_rejects_fp (c : Rgb) (f : RF M) (h : f.val ≤ 0 ∨ 1 < f.val) (fuel : ℕ) :
    Shade.compute fuel c f = Res.ok (Except.error LError.Generator) := by
  simp only [Shade.compute, FltRF.lt_eq, FltRF.le_eq, FltRF.lit_val, lit_one, lit_zero,
    decide_eq_true_eq, Res.pure_eq]
  rcases h with h | h
  · rw [if_neg (not_lt.mpr h)]
  · rw [if_neg (not_le.mpr h)]; split_ifs <;> rfl

/-! ## Tint -/

/-- one iteration of the tint loop, the loop test succeeding -/
theorem tint_loop_step_fp (fuel : ℕ) (f : RF M) (acc : List Rgb) (r g b steps i : RF M)
    (h : i.val ≤ steps.val) :
    Tint.compute.loop7 (RF M) (fuel + 1) f acc r g b steps i =
      Tint.compute.loop7 (RF M) fuel f
        (acc ++ [⟨Real.toU8 (Real.roundHA (M.rnd (r.val + M.rnd (M.rnd (255 - r.val) * M.rnd (i.val * f.val))))),
                  Real.toU8 (Real.roundHA (M.rnd (g.val + M.rnd (M.rnd (255 - g.val) * M.rnd (i.val * f.val))))),
                  Real.toU8 (Real.roundHA (M.rnd (b.val + M.rnd (M.rnd (255 - b.val) * M.rnd (i.val * f.val)))))⟩])
        r g b steps ⟨M.rnd (i.val + 1)⟩ := by
  rw [Tint.compute.loop7]
  simp only [FltRF.le_eq, h, decide_true, if_true, Vec.push, FltRF.toU8_eq, FltRF.round_val,
    FltRF.mul_val, FltRF.sub_val, FltRF.add_val, FltRF.lit_val, lit_255]
  congr 1
  apply RF.ext'
  simp only [FltRF.add_val, FltRF.lit_val, lit_one]

/-- leaving the tint loop -/
theorem tint_loop_exit_fp (fuel : ℕ) (f : RF M) (acc : List Rgb) (r g b steps i : RF M)
    (h : steps.val < i.val) :
    Tint.compute.loop7 (RF M) (fuel + 1) f acc r g b steps i = Res.ok (Except.ok ⟨acc⟩) := by
  rw [Tint.compute.loop7]
  simp [not_le.mpr h]

/-- closed form of the tint loop in `RF M` -/
theorem tint_loop_closed_fp (f r g b : RF M) (n : ℕ) (hn : n + 1 ≤ 2 ^ 53) :
    ∀ (k i : ℕ) (acc : List Rgb) (fuel : ℕ), i + k = n + 1 → k < fuel →
      Tint.compute.loop7 (RF M) fuel f acc r g b ⟨(n : ℝ)⟩ ⟨(i : ℝ)⟩ =
        Res.ok (Except.ok ⟨acc ++ List.map (fun j : ℕ =>
          (⟨Real.toU8 (Real.roundHA (tintCh M r.val f.val j)),
            Real.toU8 (Real.roundHA (tintCh M g.val f.val j)),
            Real.toU8 (Real.roundHA (tintCh M b.val f.val j))⟩ : Rgb)) (List.range' i k)⟩) := by
  intro k
  induction k with
  | zero =>
    intro i acc fuel hi hf
    obtain ⟨fuel, rfl⟩ : ∃ m, fuel = m + 1 := ⟨fuel - 1, by omega⟩
    rw [tint_loop_exit_fp M _ _ _ _ _ _ _ _ (by
      show (n : ℝ) < (i : ℝ)
      exact_mod_cast (by omega : n < i))]
    simp
  | succ k ih =>
    intro i acc fuel hi hf
    obtain ⟨fuel, rfl⟩ : ∃ m, fuel = m + 1 := ⟨fuel - 1, by omega⟩
    rw [tint_loop_step_fp M _ _ _ _ _ _ _ _ (by
      show (i : ℝ) ≤ (n : ℝ)
      exact_mod_cast (by omega : i ≤ n))]
    simp only []
    rw [counter_succ M i (by omega), ih (i + 1) _ fuel (by omega) (by omega)]
    simp [List.range'_succ, tintCh]

/-- closed form of `Tint::compute` in `RF M` for an accepted factor and sufficient fuel -/
theorem tint_compute_closed_fp (c : Rgb) (f : RF M) (h0 : 0 < f.val) (h1 : f.val ≤ 1)
    (hN : 1 / f.val ≤ 2 ^ 52) (fuel : ℕ) (hf : ⌊M.rnd (1 / f.val)⌋₊ + 1 < fuel) :
    Tint.compute fuel c f = Res.ok (Except.ok ⟨List.map (fun j : ℕ =>
      (⟨Real.toU8 (Real.roundHA (tintCh M c.r f.val j)),
        Real.toU8 (Real.roundHA (tintCh M c.g f.val j)),
        Real.toU8 (Real.roundHA (tintCh M c.b f.val j))⟩ : Rgb))
      (List.range (⌊M.rnd (1 / f.val)⌋₊ + 1))⟩) := by
  simp only [Tint.compute, Rgb.as_f64, FltRF.lt_eq, FltRF.le_eq, FltRF.lit_val, lit_one, lit_zero,
    decide_eq_true_eq, h0, h1, if_true, Res.pure_eq]
  have es : (Flt.floor ((Flt.lit 0x3FF0000000000000 1 1 : RF M) / f) : RF M)
      = ⟨((⌊M.rnd (1 / f.val)⌋₊ : ℕ) : ℝ)⟩ := by
    apply RF.ext'
    simp only [FltRF.floor_val, FltRF.div_val, FltRF.lit_val, lit_one]
    exact steps_eq_fp M f.val h0
  have ei : (Flt.lit 0x0000000000000000 0 1 : RF M) = ⟨((0 : ℕ) : ℝ)⟩ := by
    apply RF.ext'
    show M.rnd (((0 : ℕ) : ℝ) / ((1 : ℕ) : ℝ)) = ((0 : ℕ) : ℝ)
    rw [lit_zero, Nat.cast_zero]
  rw [es, ei]
  have := tint_loop_closed_fp M f (Flt.ofNat c.r) (Flt.ofNat c.g) (Flt.ofNat c.b) ⌊M.rnd (1 / f.val)⌋₊
    (steps_small_fp M f.val hN) (⌊M.rnd (1 / f.val)⌋₊ + 1) 0 [] fuel (by omega) hf
  simp only [List.nil_append, FltRF.ofNat_val] at this
  rw [this, List.range_eq_range']

/-- a factor outside `]0, 1]` is rejected before the loop, whatever the fuel -/
theorem tint_compute_rejects_fp (c : Rgb) (f : RF M) (h : f.val ≤ 0 ∨ 1 < f.val) (fuel : ℕ) :
    Tint.compute fuel c f = Res.ok (Except.error LError.Generator) := by
  simp only [Tint.compute, FltRF.lt_eq, FltRF.le_eq, FltRF.lit_val, lit_one, lit_zero,
    decide_eq_true_eq, Res.pure_eq]
  rcases h with h | h
  · rw [if_neg (not_lt.mpr h)]
  · rw [if_neg (not_le.mpr h)]; split_ifs <;> rfl

/-! ## the entries -/

/-- `255.0 - r` is exact for a byte -/
theorem rnd_255_sub (r : ℕ) (hr : r ≤ 255) : M.rnd (255 - (r : ℝ)) = 255 - (r : ℝ) := by
  have e : (255 : ℝ) - (r : ℝ) = ((255 - r : ℕ) : ℝ) := by
    rw [Nat.cast_sub hr]; norm_num
  rw [e]
  exact rnd_nat M _ (le_trans (Nat.sub_le _ _) (by norm_num))

/-- `j = 0`: the scale is exactly `1`, the product is the byte -/
theorem shadeCh_zero (r : ℕ) (f : ℝ) (hr : r ≤ 255) : shadeCh M r f 0 = r := by
  unfold shadeCh
  rw [Nat.cast_zero, zero_mul, rnd_zero, sub_zero, rnd_one, mul_one, rnd_nat M r (le_trans hr (by norm_num))]

theorem tintCh_zero (r : ℕ) (f : ℝ) (hr : r ≤ 255) : tintCh M r f 0 = r := by
  unfold tintCh
  rw [Nat.cast_zero, zero_mul, rnd_zero, mul_zero, rnd_zero, add_zero, rnd_nat M r (le_trans hr (by norm_num))]

/-- the quantiser returns a byte unchanged -/
theorem quant_byte (r : ℕ) (hr : r ≤ 255) : Real.toU8 (Real.roundHA (r : ℝ)) = r := by
  rw [roundHA_natCast, toU8_natCast _ hr]

/-- the rounded quotient overshoots `1/f` by at most one unit roundoff: for every index of the loop,
`i * f ≤ 1 + 1.2e-16` -/
theorem pos_le (f : ℝ) (h0 : 0 < f) (h1 : f ≤ 1) (i : ℕ) (hi : i ≤ ⌊M.rnd (1 / f)⌋₊) :
    (i : ℝ) * f ≤ 1 + 1.2e-16 := by
  have hq : 0 ≤ M.rnd (1 / f) := rnd_nonneg M (by positivity)
  have h2 : (i : ℝ) ≤ M.rnd (1 / f) :=
    le_trans (by exact_mod_cast hi) (Nat.floor_le hq)
  have h3 := M.rnd_err (1 / f)
  rw [abs_of_pos (by positivity : 0 < 1 / f)] at h3
  have h4 : M.rnd (1 / f) ≤ 1 / f + (FP.u * (1 / f) + FP.eta) := by
    have := le_abs_self (M.rnd (1 / f) - 1 / f); linarith
  have h5 := FP.u_eta_le 1 (by norm_num)
  have h6 : (i : ℝ) * f ≤ (1 / f + (FP.u * (1 / f) + FP.eta)) * f :=
    mul_le_mul_of_nonneg_right (le_trans h2 h4) h0.le
  have h7 : (1 / f + (FP.u * (1 / f) + FP.eta)) * f = 1 + FP.u + FP.eta * f := by
    field_simp; ring
  have h8 : FP.eta * f ≤ FP.eta := by
    have := FP.eta_pos; nlinarith
  unfold FP.eps at h5
  linarith

/-- the rounded index-times-factor -/
theorem pos_near (f : ℝ) (j : ℕ) (h0 : 0 ≤ (j : ℝ) * f) (h2 : (j : ℝ) * f ≤ 2) :
    Near (M.rnd ((j : ℝ) * f)) ((j : ℝ) * f) (FP.eps * 2) 2 :=
  ⟨rnd_abs M (by rwa [abs_of_nonneg h0]) (by norm_num), by rwa [abs_of_nonneg h0], by norm_num⟩

/-- a shade channel is within `1e-12` of the exact position `r * (1 - j*f)` -/
theorem shadeCh_close (r : ℕ) (hr : r ≤ 255) (f : ℝ) (j : ℕ) (h0 : 0 ≤ (j : ℝ) * f) (h2 : (j : ℝ) * f ≤ 2) :
    |shadeCh M r f j - (r : ℝ) * (1 - (j : ℝ) * f)| ≤ 1e-12 := by
  unfold shadeCh
  have S := (Near.exact (x := (1 : ℝ)) (B := 1) (by simp) le_rfl).sub M (pos_near M f j h0 h2)
  have P := (Near.nat (n := r) (B := 255) (by exact_mod_cast hr) (by norm_num)).mul M S
  exact P.finish rfl (by norm_num [FP.eps])

/-- a tint channel is within `1e-12` of the exact position `r + (255 - r) * (j*f)` -/
theorem tintCh_close (r : ℕ) (hr : r ≤ 255) (f : ℝ) (j : ℕ) (h0 : 0 ≤ (j : ℝ) * f) (h2 : (j : ℝ) * f ≤ 2) :
    |tintCh M r f j - ((r : ℝ) + (255 - (r : ℝ)) * ((j : ℝ) * f))| ≤ 1e-12 := by
  unfold tintCh
  rw [rnd_255_sub M r hr]
  have hr' : (r : ℝ) ≤ 255 := by exact_mod_cast hr
  have D : Near (255 - (r : ℝ)) (255 - (r : ℝ)) 0 255 :=
    Near.exact_nonneg (by linarith) (by linarith [Nat.cast_nonneg (α := ℝ) r]) (by norm_num)
  have P := (Near.nat (n := r) (B := 255) hr' (by norm_num)).add M (D.mul M (pos_near M f j h0 h2))
  exact P.finish rfl (by norm_num [FP.eps])

/-- `j ↦ M.rnd (j * f)` is monotone for `0 ≤ f` -/
theorem pos_mono (f : ℝ) (h0 : 0 ≤ f) {i j : ℕ} (hij : i ≤ j) : M.rnd ((i : ℝ) * f) ≤ M.rnd ((j : ℝ) * f) :=
  M.rnd_mono (mul_le_mul_of_nonneg_right (by exact_mod_cast hij) h0)

/-- shade channels never increase with the index -/
theorem shadeCh_antitone (r : ℕ) (f : ℝ) (h0 : 0 ≤ f) {i j : ℕ} (hij : i ≤ j) :
    shadeCh M r f j ≤ shadeCh M r f i := by
  unfold shadeCh
  apply M.rnd_mono
  apply mul_le_mul_of_nonneg_left _ (Nat.cast_nonneg r)
  apply M.rnd_mono
  linarith [pos_mono M f h0 hij]

/-- tint channels never decrease with the index (bytes: `255 - r ≥ 0`) -/
theorem tintCh_monotone (r : ℕ) (hr : r ≤ 255) (f : ℝ) (h0 : 0 ≤ f) {i j : ℕ} (hij : i ≤ j) :
    tintCh M r f i ≤ tintCh M r f j := by
  unfold tintCh
  apply M.rnd_mono
  refine add_le_add le_rfl ?_
  apply M.rnd_mono
  apply mul_le_mul_of_nonneg_left (pos_mono M f h0 hij)
  rw [rnd_255_sub M r hr]
  have : (r : ℝ) ≤ 255 := by exact_mod_cast hr
  linarith

/-- the rounded step count is the exact one or one more (rounding never crosses an integer, but it
can round UP to the next integer) -/
theorem steps_vs_exact (f : ℝ) (h0 : 0 < f) (hN : 1 / f ≤ 2 ^ 52) :
    ⌊1 / f⌋₊ ≤ ⌊M.rnd (1 / f)⌋₊ ∧ ⌊M.rnd (1 / f)⌋₊ ≤ ⌊1 / f⌋₊ + 1 := by
  have hq : (0 : ℝ) ≤ 1 / f := by positivity
  have hn : ⌊1 / f⌋₊ ≤ 2 ^ 52 := by
    have := Nat.floor_le_floor hN
    have e : ⌊((2 : ℝ) ^ 52)⌋₊ = 2 ^ 52 := by
      rw [show ((2 : ℝ) ^ 52) = ((2 ^ 52 : ℕ) : ℝ) by norm_num, Nat.floor_natCast]
    rwa [e] at this
  constructor
  · apply Nat.le_floor
    exact nat_le_rnd M _ (le_trans hn (by norm_num)) (Nat.floor_le hq)
  · have h1 : 1 / f ≤ ((⌊1 / f⌋₊ + 1 : ℕ) : ℝ) := by
      push_cast; exact (Nat.lt_floor_add_one _).le
    have h2 := rnd_le_nat M (⌊1 / f⌋₊ + 1) (by omega) h1
    have := Nat.floor_le_floor h2
    rwa [Nat.floor_natCast] at this

/-! ## the quantiser under a perturbation -/

theorem toU8_add_one_le (z : ℝ) : Real.toU8 (z + 1) ≤ Real.toU8 z + 1 := by
  rcases le_or_gt 0 z with h | h
  · unfold Real.toU8
    have hf : ⌊z + 1⌋₊ = ⌊z⌋₊ + 1 := Nat.floor_add_one h
    have hz0 : z ≤ 0 → ⌊z⌋₊ = 0 := Nat.floor_of_nonpos
    have h254 : (254 : ℝ) ≤ z → 254 ≤ ⌊z⌋₊ := fun hz => by
      have := Nat.floor_le_floor (show ((254 : ℕ) : ℝ) ≤ z by push_cast; exact hz)
      rwa [Nat.floor_natCast] at this
    split_ifs with a b c d e f g
    all_goals first
      | omega
      | (exfalso; linarith)
      | (have := h254 (by linarith); omega)
      | (have := hz0 (by assumption); omega)
  · have h1 : Real.toU8 (z + 1) ≤ Real.toU8 ((1 : ℕ) : ℝ) := toU8_mono (by push_cast; linarith)
    rw [toU8_natCast 1 (by norm_num)] at h1
    omega

/-- moving the argument up by one moves `round() as u8` up by at most one -/
theorem quant_add_one_le (y : ℝ) :
    Real.toU8 (Real.roundHA (y + 1)) ≤ Real.toU8 (Real.roundHA y) + 1 := by
  rcases le_or_gt 0 y with h | h
  · have e : Real.roundHA (y + 1) = Real.roundHA y + 1 := by
      rw [roundHA_nonneg h, roundHA_nonneg (by linarith)]
      rw [show y + 1 + 1 / 2 = (y + 1 / 2) + 1 by ring, Int.floor_add_one]
      push_cast; ring
    rw [e]; exact toU8_add_one_le _
  · have h1 : Real.roundHA (y + 1) ≤ Real.roundHA ((1 : ℕ) : ℝ) := roundHA_mono (by push_cast; linarith)
    rw [roundHA_natCast] at h1
    have h2 := toU8_mono h1
    rw [toU8_natCast 1 (by norm_num)] at h2
    omega

/-- a perturbation of at most one in the argument changes `round() as u8` by at most one -/
theorem quant_pert {x a : ℝ} (h : |a - x| ≤ 1) :
    Real.toU8 (Real.roundHA a) ≤ Real.toU8 (Real.roundHA x) + 1 ∧
    Real.toU8 (Real.roundHA x) ≤ Real.toU8 (Real.roundHA a) + 1 := by
  obtain ⟨h1, h2⟩ := abs_le.mp h
  constructor
  · exact le_trans (toU8_mono (roundHA_mono (by linarith))) (quant_add_one_le x)
  · exact le_trans (toU8_mono (roundHA_mono (by linarith))) (quant_add_one_le a)

/-! ## the last entry when `1/f` is a whole number -/

/-- if `1/f` is the whole number `m`, the rounded quotient is `m` too -/
theorem steps_of_inv (f : ℝ) (m : ℕ) (hm : 1 / f = m) (hm2 : m ≤ 2 ^ 53) : ⌊M.rnd (1 / f)⌋₊ = m := by
  rw [hm, rnd_nat M m hm2, Nat.floor_natCast]

/-- at `m·f = 1` the shade scale is exactly `0` -/
theorem shadeCh_last (r : ℕ) (f : ℝ) (m : ℕ) (hm : (m : ℝ) * f = 1) : shadeCh M r f m = 0 := by
  unfold shadeCh
  rw [hm, rnd_one, sub_self, rnd_zero, mul_zero, rnd_zero]

/-- at `m·f = 1` the tint of a byte is exactly `255` -/
theorem tintCh_last (r : ℕ) (hr : r ≤ 255) (f : ℝ) (m : ℕ) (hm : (m : ℝ) * f = 1) : tintCh M r f m = 255 := by
  unfold tintCh
  rw [hm, rnd_one, mul_one, rnd_255_sub M r hr, rnd_255_sub M r hr, add_sub_cancel]
  have := rnd_nat M 255 (by norm_num)
  simpa using this

end FpMiscC
