import LymuiVerif.Lemmas.FpDefinedPolar
import LymuiVerif.Lemmas.FpDefinedColour
/-!
# Definedness in the rounded model (C04 in floating point): facts about the images of an 8-bit colour used on the way back
-/
set_option linter.unusedSimpArgs false
set_option linter.unusedVariables false
namespace Lemmas.FpDefined
open Gen
variable {M : FPModel}

/-- the computed D65 XYZ of an 8-bit colour: exactly black or on the cone -/
theorem xyz_black_or_cone (c : Rgb) (hr : c.r ≤ 255) (hg : c.g ≤ 255) (hb : c.b ≤ 255) :
    ((Xyz.from_rgb (α := RF M) c XyzKind.D65).x.val = 0 ∧ (Xyz.from_rgb (α := RF M) c XyzKind.D65).y.val = 0 ∧
      (Xyz.from_rgb (α := RF M) c XyzKind.D65).z.val = 0) ∨ Cone (Xyz.from_rgb (α := RF M) c XyzKind.D65) := by
  by_cases h : c.r = 0 ∧ c.g = 0 ∧ c.b = 0
  · left
    obtain ⟨h1, h2, h3⟩ := h
    have e : c = ⟨0, 0, 0⟩ := by cases c; simp_all
    rw [e, Lemmas.FpXyz.from_rgb_eq_fp']
    exact Lemmas.FpXyz.xyz_black_fp M .D65
  · right
    obtain ⟨⟨a, -, -⟩, -, ⟨b, -, -⟩⟩ := FpCieXyz.xyz_d65_fp M c hr hg hb
    obtain ⟨y, xy, zy⟩ := FpCieXyz.xyz_cone_fp M c hr hg hb h
    exact ⟨a, y, Lemmas.FpMono.yF_le M c hr hg hb, b, xy, zy⟩

/-- Hunter `l / Yn` of a non-black colour is a normal positive number -/
theorem hlab_l_lower (p : Xyz (RF M)) (h : 1 / 10 ^ 6 ≤ p.y.val) :
    1 / 10 ^ 50 ≤ ((Hlab.from_Xyz p).l / (C.YN : RF M)).val := by
  have hyne : p.y.val ≠ 0 := by intro e; rw [e] at h; norm_num at h
  have hb : Flt.beq p.y (Flt.lit 0x0000000000000000 0 1 : RF M) = false := by
    simp only [FltRF.beq_eq, lit_zero, decide_eq_false_iff_not]; exact hyne
  simp only [Hlab.from_Xyz, hb, Bool.false_eq_true, if_false, C.YN, FltRF.div_val, FltRF.mul_val, FltRF.sqrt_val]
  rw [lit_int_val _ 100 (by norm_num), lit_int_val _ 1000 (by norm_num)]
  push_cast
  have a1 : 1 / 10 ^ 8 ≤ p.y.val / 100 := by rw [le_div_iff₀ (by norm_num)]; norm_num at h ⊢; linarith
  have a2 := rnd_half (M := M) (x := p.y.val / 100) (le_trans (by norm_num) a1)
  have a3 : (1 / 10 ^ 5 : ℝ) ≤ Real.sqrt (M.rnd (p.y.val / 100)) := by
    rw [show (1 / 10 ^ 5 : ℝ) = Real.sqrt ((1 / 10 ^ 5) ^ 2) by rw [Real.sqrt_sq (by norm_num)]]
    exact Real.sqrt_le_sqrt (by norm_num at a1 a2 ⊢; linarith)
  have a4 := rnd_half (M := M) (x := Real.sqrt (M.rnd (p.y.val / 100))) (le_trans (by norm_num) a3)
  have a5 : 1 / 10 ^ 3 ≤ 1000 * M.rnd (Real.sqrt (M.rnd (p.y.val / 100))) := by norm_num at a3 a4 ⊢; linarith
  have a6 := rnd_half (M := M) (x := 1000 * M.rnd (Real.sqrt (M.rnd (p.y.val / 100)))) (le_trans (by norm_num) a5)
  have a7 : 1 / 10 ^ 6 ≤ M.rnd (1000 * M.rnd (Real.sqrt (M.rnd (p.y.val / 100)))) / 100 := by
    rw [le_div_iff₀ (by norm_num)]; norm_num at a5 a6 ⊢; linarith
  have a8 := rnd_half (M := M) (x := M.rnd (1000 * M.rnd (Real.sqrt (M.rnd (p.y.val / 100)))) / 100)
    (le_trans (by norm_num) a7)
  norm_num at a7 a8 ⊢; linarith

/-! ## Rec.2100: the PQ value of a non-black colour is computed non-negative -/

/-- **PQ "EOTF" of the code on `[2.9e-6, 1.002]`**: every intermediate is a normal positive number, so that the result
`10000 · powf(q, 1/m1)` is `≥ 0` whatever the model's `powf` does within its error bound -/
theorem pq_eotf_val_nonneg (x : RF M) (h0 : 29 / 10 ^ 7 ≤ x.val) (h1 : x.val ≤ 1002 / 1000) :
    0 ≤ (F64.pq_eotf x).val := by
  have hx0 : 0 < x.val := lt_of_lt_of_le (by norm_num) h0
  unfold F64.pq_eotf
  simp only []
  have hu := FP.u_lt
  have hup := FP.u_pos
  have he := FP.eta_lt
  have hep := FP.eta_pos
  -- first exponent
  have E1pos : 0 < (Flt.lit 0x3FF0000000000000 1 1 / Flt.lit 0x4053B60000000000 2523 32 : RF M).val := by lit_side
  have E1le : (Flt.lit 0x3FF0000000000000 1 1 / Flt.lit 0x4053B60000000000 2523 32 : RF M).val ≤ 1 / 77 := by
    rw [FltRF.div_val, lit_int_val _ 1 (by norm_num)]
    have a : (78 : ℝ) ≤ (Flt.lit 0x4053B60000000000 2523 32 : RF M).val := by
      have := FpErr.nat_le_rnd M 78 (by norm_num) (x := ((2523 : ℕ) : ℝ) / ((32 : ℕ) : ℝ)) (by norm_num)
      exact_mod_cast this
    have b : ((1 : ℕ) : ℝ) / (Flt.lit 0x4053B60000000000 2523 32 : RF M).val ≤ 1 / 78 := by
      push_cast; exact one_div_le_one_div_of_le (by norm_num) a
    have c : (1e-200 : ℝ) ≤ ((1 : ℕ) : ℝ) / (Flt.lit 0x4053B60000000000 2523 32 : RF M).val := by
      have : (Flt.lit 0x4053B60000000000 2523 32 : RF M).val ≤ 100 := by
        have := FpErr.rnd_le_nat M 100 (by norm_num) (x := ((2523 : ℕ) : ℝ) / ((32 : ℕ) : ℝ)) (by norm_num)
        exact_mod_cast this
      push_cast
      rw [le_div_iff₀ (by linarith)]; linarith
    have := rnd_hi3 (M := M) c
    norm_num at *; linarith
  generalize (Flt.lit 0x3FF0000000000000 1 1 / Flt.lit 0x4053B60000000000 2523 32 : RF M) = E1 at *
  -- e = powf(x, E1) ∈ [0.8399, 1.003]
  have r_lo : (0.84 : ℝ) ≤ x.val ^ E1.val := by
    rcases le_or_gt x.val 1 with hle | hgt
    · have s1 : x.val ^ ((1 : ℝ) / 77) ≤ x.val ^ E1.val := Real.rpow_le_rpow_of_exponent_ge hx0 hle E1le
      have s2 : ((29 : ℝ) / 10 ^ 7) ^ ((1 : ℝ) / 77) ≤ x.val ^ ((1 : ℝ) / 77) :=
        Real.rpow_le_rpow (by norm_num) h0 (by norm_num)
      have s3 : (0.84 : ℝ) < ((29 : ℝ) / 10 ^ 7) ^ (((1 : ℕ) : ℝ) / ((77 : ℕ) : ℝ)) :=
        Lemmas.Rpow.lt_rpow_of_pow_lt (by norm_num) (by norm_num) 1 77 (by norm_num) (by norm_num)
      norm_num at s3 s2 s1 ⊢; linarith
    · have := Real.one_le_rpow hgt.le E1pos.le; linarith
  have r_hi : x.val ^ E1.val ≤ 1002 / 1000 := by
    rcases le_or_gt x.val 1 with hle | hgt
    · have := Real.rpow_le_one hx0.le hle E1pos.le; linarith
    · have := Real.rpow_le_rpow_of_exponent_le hgt.le (show E1.val ≤ 1 by linarith)
      rw [Real.rpow_one] at this; linarith
  have pe := abs_le.mp (M.pow_err x.val E1.val hx0.le)
  rw [abs_of_nonneg (by linarith : (0 : ℝ) ≤ x.val ^ E1.val)] at pe
  have e_lo : (0.8399 : ℝ) ≤ M.pow x.val E1.val := by nlinarith [pe.1]
  have e_hi : M.pow x.val E1.val ≤ 1.003 := by nlinarith [pe.2]
  have ee : (Flt.pow x E1 : RF M).val = M.pow x.val E1.val := rfl
  generalize (Flt.pow x E1 : RF M) = e at ee
  rw [← ee] at e_lo e_hi
  clear ee pe r_lo r_hi
  -- numerator
  have c1 : (Flt.lit 0x3FEAC00000000000 107 128 : RF M).val ≤ 0.836 := by
    have := rnd_le (M := M) (x := ((107 : ℕ) : ℝ) / ((128 : ℕ) : ℝ)) (by norm_num)
    have e16 : FP.eps = 1.2e-16 := rfl
    rw [e16] at this
    simp only [FltRF.lit_val]; norm_num at *; linarith
  have c1' : 0 ≤ (Flt.lit 0x3FEAC00000000000 107 128 : RF M).val := lit_nonneg _ _ _
  have n_lo : 19 / 10 ^ 4 ≤ (Flt.max (e - Flt.lit 0x3FEAC00000000000 107 128) (Flt.lit 0x0000000000000000 0 1) : RF M).val := by
    rw [FltRF.max_val, FltRF.sub_val]
    have := rnd_half (M := M) (x := e.val - (Flt.lit 0x3FEAC00000000000 107 128 : RF M).val)
      (by norm_num at *; linarith)
    exact le_trans (by norm_num at *; linarith) (le_max_left _ _)
  -- divider
  have k_rng : 6 / 100 ≤ (Flt.lit 0x4032DA0000000000 2413 128 - Flt.lit 0x4032B00000000000 299 16 : RF M).val ∧
      (Flt.lit 0x4032DA0000000000 2413 128 - Flt.lit 0x4032B00000000000 299 16 : RF M).val ≤ 22 / 100 := by
    rw [FltRF.sub_val, FltRF.lit_val, FltRF.lit_val]
    have a1 := rnd_lo3 (M := M) (x := ((2413 : ℕ) : ℝ) / ((128 : ℕ) : ℝ)) (by norm_num)
    have a2 := rnd_hi3 (M := M) (x := ((2413 : ℕ) : ℝ) / ((128 : ℕ) : ℝ)) (by norm_num)
    have b1 := rnd_lo3 (M := M) (x := ((299 : ℕ) : ℝ) / ((16 : ℕ) : ℝ)) (by norm_num)
    have b2 := rnd_hi3 (M := M) (x := ((299 : ℕ) : ℝ) / ((16 : ℕ) : ℝ)) (by norm_num)
    have d1 := rnd_half (M := M) (x := M.rnd (((2413 : ℕ) : ℝ) / ((128 : ℕ) : ℝ)) - M.rnd (((299 : ℕ) : ℝ) / ((16 : ℕ) : ℝ)))
      (by norm_num at *; linarith)
    have d2 := rnd_hi3 (M := M) (x := M.rnd (((2413 : ℕ) : ℝ) / ((128 : ℕ) : ℝ)) - M.rnd (((299 : ℕ) : ℝ) / ((16 : ℕ) : ℝ)))
      (by norm_num at *; linarith)
    constructor <;> norm_num at * <;> linarith
  generalize (Flt.lit 0x4032DA0000000000 2413 128 - Flt.lit 0x4032B00000000000 299 16 : RF M) = k at *
  have dv_rng : 2 / 100 ≤ (k * e : RF M).val ∧ (k * e : RF M).val ≤ 1 / 2 := by
    rw [FltRF.mul_val]
    have p1 : 5 / 100 ≤ k.val * e.val := by nlinarith [k_rng.1]
    have p2 : k.val * e.val ≤ 23 / 100 := by nlinarith [k_rng.2]
    have d1 := rnd_half (M := M) (x := k.val * e.val) (by linarith)
    have d2 := rnd_twice (M := M) (x := k.val * e.val) (by linarith)
    constructor <;> linarith
  have hbeq : Flt.beq (k * e) (Flt.lit 0x0000000000000000 0 1 : RF M) = false := by
    simp only [FltRF.beq_eq, lit_zero, decide_eq_false_iff_not]
    intro h; rw [h] at dv_rng; norm_num at dv_rng
  simp only [hbeq, Bool.false_eq_true, if_false]
  generalize (Flt.max (e - Flt.lit 0x3FEAC00000000000 107 128) (Flt.lit 0x0000000000000000 0 1) : RF M) = num at *
  generalize (k * e : RF M) = dv at *
  -- the quotient
  have q_lo : 19 / 10 ^ 4 ≤ (num / dv : RF M).val := by
    rw [FltRF.div_val]
    have hdv : 0 < dv.val := by linarith [dv_rng.1]
    have p1 : 38 / 10 ^ 4 ≤ num.val / dv.val := by
      rw [le_div_iff₀ hdv]; nlinarith [dv_rng.2]
    have := rnd_half (M := M) (x := num.val / dv.val) (by linarith)
    linarith
  generalize (num / dv : RF M) = Q at *
  -- second exponent
  have E2pos : 0 < (Flt.lit 0x3FF0000000000000 1 1 / Flt.lit 0x3FC4640000000000 1305 8192 : RF M).val := by lit_side
  have E2le : (Flt.lit 0x3FF0000000000000 1 1 / Flt.lit 0x3FC4640000000000 1305 8192 : RF M).val ≤ 7 := by
    rw [FltRF.div_val, lit_int_val _ 1 (by norm_num)]
    have a := rnd_lo3 (M := M) (x := ((1305 : ℕ) : ℝ) / ((8192 : ℕ) : ℝ)) (by norm_num)
    have b : ((1 : ℕ) : ℝ) / (Flt.lit 0x3FC4640000000000 1305 8192 : RF M).val ≤ 7 := by
      simp only [FltRF.lit_val]
      push_cast at a ⊢
      rw [div_le_iff₀ (by norm_num at a ⊢; linarith)]; norm_num at a ⊢; linarith
    have := FpErr.rnd_le_nat M 7 (by norm_num) (x := ((1 : ℕ) : ℝ) / (Flt.lit 0x3FC4640000000000 1305 8192 : RF M).val)
      (by exact_mod_cast b)
    exact_mod_cast this
  generalize (Flt.lit 0x3FF0000000000000 1 1 / Flt.lit 0x3FC4640000000000 1305 8192 : RF M) = E2 at *
  have hQ0 : 0 < Q.val := by linarith
  have p_lo : (1 / 10 ^ 20 : ℝ) ≤ Q.val ^ E2.val := by
    rcases le_or_gt Q.val 1 with hle | hgt
    · have s1 : Q.val ^ ((7 : ℕ) : ℝ) ≤ Q.val ^ E2.val :=
        Real.rpow_le_rpow_of_exponent_ge hQ0 hle (by push_cast; exact E2le)
      rw [Real.rpow_natCast] at s1
      have s2 : ((19 : ℝ) / 10 ^ 4) ^ 7 ≤ Q.val ^ 7 := pow_le_pow_left₀ (by norm_num) q_lo 7
      norm_num at s2 ⊢; linarith
    · have := Real.one_le_rpow hgt.le E2pos.le
      norm_num at this ⊢; linarith
  rw [FltRF.mul_val, FltRF.pow_val]
  apply FpErr.rnd_nonneg
  apply mul_nonneg (lit_nonneg _ _ _)
  have pe := (abs_le.mp (M.pow_err Q.val E2.val hQ0.le)).1
  rw [abs_of_nonneg (le_trans (by norm_num) p_lo)] at pe
  have : (1 : ℝ) / 10 ^ 240 ≤ 1 / 10 ^ 20 / 2 := by norm_num
  nlinarith


open Lemmas.Matrix Lemmas.XyzDispatch Lemmas.FpXyz in
/-- a non-zero byte decodes (sRGB curve) to at least `3e-4` -/
theorem dec_level_ge_d65 (n : ℕ) (h1 : 1 ≤ n) : 3 / 10 ^ 4 ≤ dec .D65 ((n : ℝ) / 255) := by
  have h : dec .D65 (((1 : ℕ) : ℝ) / 255) ≤ dec .D65 ((n : ℝ) / 255) := by
    rcases Nat.lt_or_ge 1 n with h | h
    · exact (dec_level_lt .D65 h).le
    · have : n = 1 := by omega
      rw [this]
  refine le_trans ?_ h
  simp only [dec]; rw [Lemmas.Curves.srgb_dec_lin (by norm_num)]; norm_num

open Lemmas.Matrix Lemmas.XyzDispatch Lemmas.FpXyz in
/-- **the computed BT.2020 linear components of a non-black 8-bit colour lie in `[2.9e-6, 1.002]`** -/
theorem rec2100_lin_range_fp (c : Rgb) (hr : c.r ≤ 255) (hg : c.g ≤ 255) (hb : c.b ≤ 255)
    (hnb : ¬ (c.r = 0 ∧ c.g = 0 ∧ c.b = 0)) :
    let p := Xyz.from_rgb (α := RF M) c XyzKind.D65
    (29 / 10 ^ 7 ≤ (((p.x * (C.rec2020_XR : RF M × RF M × RF M).1) + (p.y * (C.rec2020_XR : RF M × RF M × RF M).2.1)) +
      (p.z * (C.rec2020_XR : RF M × RF M × RF M).2.2)).val ∧
     (((p.x * (C.rec2020_XR : RF M × RF M × RF M).1) + (p.y * (C.rec2020_XR : RF M × RF M × RF M).2.1)) +
      (p.z * (C.rec2020_XR : RF M × RF M × RF M).2.2)).val ≤ 1002 / 1000) ∧
    (29 / 10 ^ 7 ≤ (((p.x * (C.XG : RF M × RF M × RF M).1) + (p.y * (C.XG : RF M × RF M × RF M).2.1)) +
      (p.z * (C.XG : RF M × RF M × RF M).2.2)).val ∧
     (((p.x * (C.XG : RF M × RF M × RF M).1) + (p.y * (C.XG : RF M × RF M × RF M).2.1)) +
      (p.z * (C.XG : RF M × RF M × RF M).2.2)).val ≤ 1002 / 1000) ∧
    (29 / 10 ^ 7 ≤ (((p.x * (C.XB : RF M × RF M × RF M).1) + (p.y * (C.XB : RF M × RF M × RF M).2.1)) +
      (p.z * (C.XB : RF M × RF M × RF M).2.2)).val ∧
     (((p.x * (C.XB : RF M × RF M × RF M).1) + (p.y * (C.XB : RF M × RF M × RF M).2.1)) +
      (p.z * (C.XB : RF M × RF M × RF M).2.2)).val ≤ 1002 / 1000) := by
  intro p
  show (29 / 10 ^ 7 ≤ (dotF' M (p.x, p.y, p.z) C.rec2020_XR).val ∧ (dotF' M (p.x, p.y, p.z) C.rec2020_XR).val ≤ 1002 / 1000) ∧
    (29 / 10 ^ 7 ≤ (dotF' M (p.x, p.y, p.z) C.XG).val ∧ (dotF' M (p.x, p.y, p.z) C.XG).val ≤ 1002 / 1000) ∧
    (29 / 10 ^ 7 ≤ (dotF' M (p.x, p.y, p.z) C.XB).val ∧ (dotF' M (p.x, p.y, p.z) C.XB).val ≤ 1002 / 1000)
  obtain ⟨f1, f2, f3⟩ := xyz_fp_close M .D65 c hr hg hb
  have b1 := xyz_range .D65 c hr hg hb 0
  have b2 := xyz_range .D65 c hr hg hb 1
  have b3 := xyz_range .D65 c hr hg hb 2
  simp only [V3.get] at b1 b2 b3
  obtain ⟨r1, r2, r3⟩ := FpEnc.rec2020_rows M
  have q1 := dot3_close' M r1 (v := xyzF M .D65 c) (x := mulVec (fwd .D65) (lin .D65 c)) f1 f2 f3 b1 b2 b3 (by norm_num)
  have q2 := dot3_close' M r2 (v := xyzF M .D65 c) (x := mulVec (fwd .D65) (lin .D65 c)) f1 f2 f3 b1 b2 b3 (by norm_num)
  have q3 := dot3_close' M r3 (v := xyzF M .D65 c) (x := mulVec (fwd .D65) (lin .D65 c)) f1 f2 f3 b1 b2 b3 (by norm_num)
  have n1 := dec_level_nonneg .D65 c.r
  have n2 := dec_level_nonneg .D65 c.g
  have n3 := dec_level_nonneg .D65 c.b
  obtain ⟨g1, g2, g3⟩ := rec2020_lin_lower (lin .D65 c) n1 n2 n3
  obtain ⟨u1, u2, u3⟩ := FpEnc.rec2020_lin_range (lin .D65 c) n1 (dec_level_le_one .D65 hr) n2 (dec_level_le_one .D65 hg)
    n3 (dec_level_le_one .D65 hb)
  have hsum : 3 / 10 ^ 4 ≤ (lin .D65 c).1 + (lin .D65 c).2.1 + (lin .D65 c).2.2 := by
    show 3 / 10 ^ 4 ≤ dec .D65 ((c.r : ℝ) / 255) + dec .D65 ((c.g : ℝ) / 255) + dec .D65 ((c.b : ℝ) / 255)
    have : 1 ≤ c.r ∨ 1 ≤ c.g ∨ 1 ≤ c.b := by omega
    rcases this with h | h | h
    · have := dec_level_ge_d65 c.r h; linarith
    · have := dec_level_ge_d65 c.g h; linarith
    · have := dec_level_ge_d65 c.b h; linarith
  have hp : p = ⟨(xyzF M .D65 c).1, (xyzF M .D65 c).2.1, (xyzF M .D65 c).2.2⟩ := from_rgb_eq_fp' M .D65 c
  rw [hp]
  obtain ⟨a1, a1'⟩ := abs_le.mp q1
  obtain ⟨a2, a2'⟩ := abs_le.mp q2
  obtain ⟨a3, a3'⟩ := abs_le.mp q3
  refine ⟨⟨?_, ?_⟩, ⟨?_, ?_⟩, ⟨?_, ?_⟩⟩ <;> norm_num at * <;> linarith

end Lemmas.FpDefined
