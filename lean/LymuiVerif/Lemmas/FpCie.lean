import LymuiVerif.Lemmas.FpLinear
import LymuiVerif.Lemmas.FpPolar
import LymuiVerif.Lemmas.Cie
import LymuiVerif.Lemmas.CurvesD2
/-!
# Rounded-arithmetic lemmas for the CIE family (C06 / C02 in `RF M`)

All lemmas hold for every `M : FPModel`.

* `powi_three` — `x.powi(3)` in the model is `rnd (rnd (1·x) · rnd (x·x))` (compiler-rt's
  square-and-multiply), `Near.powi3` its error.
* `cbrt_lipschitz` — the cube root is `1/(3m²)`-Lipschitz on `[m³, ∞)`; `cbrt_close` the error of
  `rnd (cbrt a)` against `cbrt x`.
* branch analysis of `Lab::compute_f` / `Lab::reverse_compute_f` / the luminance recovery in `RF M`:
  the comparison with the rounded threshold literal is exact, so the computed value follows ONE of the
  two branch formulas, and it follows the cube-root branch only if `t ≥ 0.008855999`, the linear one
  only if `t ≤ 0.008856001` (`FwdOK`, `RevOK`).  The two formulas differ by `3.3e-7` at the threshold;
  `fwd_spec`, `rev_spec` compare either with the exact CIE function `fSpec` resp. its exact inverse
  `hSpec`, `hSpec_lip` is the Lipschitz bound that turns this into a round-trip bound
  (`rev_fwd_close`) without any assumption on which branch was taken.
* `fwd_f_close` — `Lab::compute_f` computed vs real model, away (`1e-12`) from the threshold.
* `lab_chain`, `yrev_fp`, `ratio_fp`, `unratio_fp`, `lab_roundtrip_fp` — the CIELAB round trip in `RF M` (`1e-7`).
* `div_rel_exact`, `sum3_rel`, `chroma_fp`, `is_null_fp` — relative-error quotients (xyY);
  `hunter_sqrt`, `hunter_term` — Hunter Lab.
(`Lemmas/FpCieXyz.lean` continues with the facts about the computed XYZ of 8-bit colours and re-quantisation.)
-/
namespace FpCie
open Gen FpErr FpLin Lemmas.Cie

/-! ## real-analysis part: the exact CIE function and its exact inverse -/

/-- exact inverse of the exact CIE `f` (`fSpec`) -/
noncomputable def hSpec (c : ℝ) : ℝ := if 6 / 29 < c then c ^ 3 else (116 * c - 16) / (24389 / 27)

theorem hSpec_fSpec (t : ℝ) : hSpec (fSpec t) = t := by
  rcases le_or_gt t (216 / 24389) with h | h
  · rw [fSpec_low h]
    unfold hSpec
    rw [if_neg (by rw [not_lt, div_le_iff₀ (by norm_num)]; linarith)]
    field_simp; ring
  · obtain ⟨k1, k2⟩ := fSpec_high_gt h
    unfold hSpec; rw [if_pos k1, k2]

/-- `hSpec` is non-decreasing and `3C²`-Lipschitz below `C ≥ 6/29` -/
theorem hSpec_lip_le {a b C : ℝ} (hab : a ≤ b) (hbC : b ≤ C) (hC : 6 / 29 ≤ C) :
    0 ≤ hSpec b - hSpec a ∧ hSpec b - hSpec a ≤ 3 * C ^ 2 * (b - a) := by
  have hC2 : (108 / 841 : ℝ) ≤ 3 * C ^ 2 := by nlinarith
  have hd : 0 ≤ b - a := by linarith
  unfold hSpec
  by_cases ha : 6 / 29 < a
  · have hb : 6 / 29 < b := by linarith
    rw [if_pos ha, if_pos hb]
    have e : b ^ 3 - a ^ 3 = (b - a) * (a ^ 2 + a * b + b ^ 2) := by ring
    have h1 : a ^ 2 + a * b + b ^ 2 ≤ 3 * C ^ 2 := by nlinarith
    have h0 : 0 ≤ a ^ 2 + a * b + b ^ 2 := by nlinarith
    rw [e]
    exact ⟨mul_nonneg hd h0, by rw [mul_comm]; exact mul_le_mul_of_nonneg_right h1 hd⟩
  · rw [if_neg ha]
    rw [not_lt] at ha
    by_cases hb : 6 / 29 < b
    · rw [if_pos hb]
      have e : b ^ 3 - (116 * a - 16) / (24389 / 27)
          = (b - 6 / 29) * ((6 / 29) ^ 2 + 6 / 29 * b + b ^ 2) + 108 / 841 * (6 / 29 - a) := by
        field_simp; ring
      have h1 : (6 / 29 : ℝ) ^ 2 + 6 / 29 * b + b ^ 2 ≤ 3 * C ^ 2 := by nlinarith
      have h0 : (0 : ℝ) ≤ (6 / 29) ^ 2 + 6 / 29 * b + b ^ 2 := by nlinarith
      have hd1 : 0 ≤ b - 6 / 29 := by linarith
      have hd2 : 0 ≤ 6 / 29 - a := by linarith
      rw [e]
      constructor
      · have := mul_nonneg hd1 h0; nlinarith
      · have k1 := mul_le_mul_of_nonneg_left h1 hd1
        have k2 := mul_le_mul_of_nonneg_right hC2 hd2
        nlinarith
    · rw [if_neg hb]
      have e : (116 * b - 16) / (24389 / 27) - (116 * a - 16) / (24389 / 27) = 108 / 841 * (b - a) := by
        field_simp; ring
      rw [e]
      exact ⟨by positivity, mul_le_mul_of_nonneg_right hC2 hd⟩

theorem hSpec_lip {a b C : ℝ} (haC : a ≤ C) (hbC : b ≤ C) (hC : 6 / 29 ≤ C) :
    |hSpec a - hSpec b| ≤ 3 * C ^ 2 * |a - b| := by
  rcases le_total a b with h | h
  · obtain ⟨k1, k2⟩ := hSpec_lip_le h hbC hC
    rw [abs_sub_comm, abs_of_nonneg k1, abs_sub_comm, abs_of_nonneg (by linarith)]; exact k2
  · obtain ⟨k1, k2⟩ := hSpec_lip_le h haC hC
    rw [abs_of_nonneg k1, abs_of_nonneg (by linarith)]; exact k2

/-- the computed value `c` follows one of the two branch formulas of `Lab::compute_f` at `t`, within `e`,
the cube-root one only if `t ≥ 0.008855999`, the linear one only if `t ≤ 0.008856001` -/
def FwdOK (t c e : ℝ) : Prop :=
  (8855999 / 10 ^ 9 ≤ t ∧ |c - Real.cbrt t| ≤ e) ∨
  (t ≤ 8856001 / 10 ^ 9 ∧ |c - (t * (7787 / 1000) + 16 / 116)| ≤ e)

/-- the computed value `out` follows one of the two branch formulas of `Lab::reverse_compute_f` (or of the
luminance recovery) at `c`, within `e`; the cubic one only if `c ≥ 0.206893`, the linear one only if
`c ≤ 6/29` -/
def RevOK (c out e : ℝ) : Prop :=
  (206893 / 1000000 ≤ c ∧ |out - c ^ 3| ≤ e) ∨
  (c ≤ 6 / 29 ∧ |out - (116 * c - 16) / (9033 / 10)| ≤ e)

/-- either branch is within `3.4e-7 + e` of the exact CIE function; and if `t` is clear of the threshold
region (`t ≥ 0.00886`) within `e` -/
theorem fwd_spec {t c e : ℝ} (ht : 0 ≤ t) (h : FwdOK t c e) :
    |c - fSpec t| ≤ 34 / 10 ^ 8 + e ∧ (886 / 10 ^ 5 ≤ t → |c - fSpec t| ≤ e) := by
  rcases h with ⟨h1, h2⟩ | ⟨h1, h2⟩
  · rw [cbrt_of_nonneg ht] at h2
    rcases le_or_gt t (216 / 24389) with h3 | h3
    · set s := t ^ ((1 : ℝ) / 3) with hs
      have hs3 : s ^ 3 = t := rpow_third_pow ht
      have hs1 : 206893 / 1000000 ≤ s := le_rpow_third ht (by norm_num; linarith)
      have hs2 : s ≤ 6 / 29 := rpow_third_le (by norm_num) ht (by norm_num; linarith)
      obtain ⟨k1, k2⟩ := sliver hs1 hs2
      have e1 : |s - fSpec t| ≤ 1 / 10 ^ 9 := by
        rw [fSpec_low h3, ← hs3, abs_le]; constructor <;> linarith
      have := abs_sub_le c s (fSpec t)
      refine ⟨by linarith, fun h4 => ?_⟩
      norm_num at h3 h4; linarith
    · rw [fSpec_high h3]
      have he : 0 ≤ e := le_trans (abs_nonneg _) h2
      exact ⟨by linarith, fun _ => h2⟩
  · have h3 : t ≤ 216 / 24389 := by norm_num at h1 ⊢; linarith
    have e1 : |t * (7787 / 1000) + 16 / 116 - fSpec t| ≤ 34 / 10 ^ 8 := by
      rw [fSpec_low h3, abs_le]; constructor <;> linarith
    have := abs_sub_le c (t * (7787 / 1000) + 16 / 116) (fSpec t)
    refine ⟨by linarith, fun h4 => ?_⟩
    norm_num at h1 h4; linarith

/-- either reverse branch is within `4e-8 + e` of the exact inverse; `c ≥ 0.1` -/
theorem rev_spec {c out e : ℝ} (hc0 : 1 / 10 ≤ c) (h : RevOK c out e) : |out - hSpec c| ≤ 4 / 10 ^ 8 + e := by
  unfold hSpec
  rcases h with ⟨h1, h2⟩ | ⟨h1, h2⟩
  · split_ifs with h3
    · have he : 0 ≤ e := le_trans (abs_nonneg _) h2
      linarith
    · obtain ⟨k1, k2⟩ := sliver h1 (not_lt.mp h3)
      have e1 : |c ^ 3 - (116 * c - 16) / (24389 / 27)| ≤ 2 / 10 ^ 11 := by
        have : c ^ 3 - (116 * c - 16) / (24389 / 27) = (24389 / 27 * c ^ 3 - 116 * c + 16) / (24389 / 27) := by
          field_simp; ring
        rw [this, abs_le]
        constructor
        · have : 0 ≤ (24389 / 27 * c ^ 3 - 116 * c + 16) / (24389 / 27) := by positivity
          linarith
        · rw [div_le_iff₀ (by norm_num)]; linarith
      have := abs_sub_le out (c ^ 3) ((116 * c - 16) / (24389 / 27))
      linarith
  · rw [if_neg (not_lt.mpr h1)]
    have e1 : |(116 * c - 16) / (9033 / 10) - (116 * c - 16) / (24389 / 27)| ≤ 4 / 10 ^ 8 := by
      have : (116 * c - 16) / (9033 / 10) - (116 * c - 16) / (24389 / 27)
          = (116 * c - 16) * (-(1 / (9033 * 24389))) := by field_simp; ring
      rw [this, abs_mul, abs_neg, abs_of_pos (by norm_num : (0 : ℝ) < 1 / (9033 * 24389))]
      have : |116 * c - 16| ≤ 8 := by rw [abs_le]; constructor <;> linarith
      nlinarith
    have := abs_sub_le out ((116 * c - 16) / (9033 / 10)) ((116 * c - 16) / (24389 / 27))
    linarith

/-- **round trip through either branch of each function**: `t ∈ [0, 1.2]`, `c` the forward value
(`FwdOK`), `c'` within `e2` of `c` (what reaches the reverse function), `out` the reverse value (`RevOK`):
`|out − t| ≤ 9e-8 + e3 + 4.4·(e1 + e2)` whatever branches were taken. -/
theorem rev_fwd_close {t c c' out e1 e2 e3 : ℝ} (ht0 : 0 ≤ t) (ht1 : t ≤ 12 / 10)
    (hf : FwdOK t c e1) (hc : |c' - c| ≤ e2) (hc0 : 1 / 10 ≤ c') (hr : RevOK c' out e3)
    (he : e1 + e2 ≤ 1 / 10 ^ 6) :
    |out - t| ≤ 9 / 10 ^ 8 + e3 + 44 / 10 * (e1 + e2) := by
  obtain ⟨f1, f2⟩ := fwd_spec ht0 hf
  have r1 := rev_spec hc0 hr
  have he1 : 0 ≤ e1 := by rcases hf with ⟨_, h⟩ | ⟨_, h⟩ <;> exact le_trans (abs_nonneg _) h
  have he2 : 0 ≤ e2 := le_trans (abs_nonneg _) hc
  have hcc : |c' - fSpec t| ≤ |c - fSpec t| + e2 := by
    have := abs_sub_le c' c (fSpec t); linarith
  have key : |out - t| ≤ |out - hSpec c'| + |hSpec c' - hSpec (fSpec t)| := by
    have := abs_sub_le out (hSpec c') t
    rw [hSpec_fSpec t]; exact this
  rcases le_or_gt (886 / 10 ^ 5) t with h | h
  · -- clear of the threshold: fp-size error, Lipschitz constant 3·1.2²
    have f3 := f2 h
    have hfs : fSpec t ≤ 11 / 10 := by
      rw [fSpec_high (by norm_num at h ⊢; linarith)]
      exact rpow_third_le (by norm_num) ht0 (by norm_num; linarith)
    have hc1 : c' ≤ 12 / 10 := by
      have := (abs_le.mp hcc).2; linarith
    have l := hSpec_lip (a := c') (b := fSpec t) (C := 12 / 10) hc1 (by linarith) (by norm_num)
    have : |c' - fSpec t| ≤ e1 + e2 := by linarith
    nlinarith [abs_nonneg (c' - fSpec t)]
  · -- threshold region: error 3.4e-7, Lipschitz constant 3·0.21²
    have hfs : fSpec t ≤ 207 / 1000 := by
      rcases le_or_gt t (216 / 24389) with h3 | h3
      · rw [fSpec_low h3]; linarith
      · rw [fSpec_high h3]
        exact rpow_third_le (by norm_num) ht0 (by norm_num; norm_num at h; linarith)
    have hc1 : c' ≤ 21 / 100 := by
      have := (abs_le.mp hcc).2; linarith
    have l := hSpec_lip (a := c') (b := fSpec t) (C := 21 / 100) hc1 (by linarith) (by norm_num)
    have : |c' - fSpec t| ≤ 34 / 10 ^ 8 + e1 + e2 := by linarith
    nlinarith [abs_nonneg (c' - fSpec t)]

/-! ## rounded-arithmetic part -/
section fp
variable (M : FPModel)

/-- error of one more rounding (see `FpLin.Near.rnd`) -/
noncomputable def eRnd (e B : ℝ) : ℝ := e + FP.eps * (B + e)
/-- error of a rounded product (see `FpLin.Near.mul`) -/
noncomputable def eMul (ea eb Bx By : ℝ) : ℝ :=
  (ea * By + eb * Bx + ea * eb) + FP.eps * (Bx * By + (ea * By + eb * Bx + ea * eb))

/-- `x.powi(3)`: compiler-rt computes `r = 1·x`, `x² = x·x`, `r·x²`, each product rounded -/
theorem powi_three (a : ℝ) : RF.powi M a 3 = M.rnd (M.rnd (1 * a) * M.rnd (a * a)) := by
  simp [RF.powi, RF.powiGo]

theorem Near.powi3 {a x e B : ℝ} (h : Near a x e B) :
    Near (RF.powi M a 3) (x ^ 3) (eMul (eRnd e B) (eMul e e B B) B (B * B)) (B * (B * B)) := by
  rw [powi_three, one_mul]
  exact ((h.rnd M).mul M (h.mul M h)).retarget (by ring)

/-- the cube root is `1/(3m²)`-Lipschitz on `[m³, ∞)` -/
theorem cbrt_lipschitz {a x m : ℝ} (hm : 0 < m) (ha : m ^ 3 ≤ a) (hx : m ^ 3 ≤ x) :
    |Real.cbrt a - Real.cbrt x| ≤ |a - x| / (3 * m ^ 2) := by
  have hm3 : 0 ≤ m ^ 3 := by positivity
  have pa : m ≤ Real.cbrt a := by
    rw [Lemmas.CurvesD2.cbrt_of_nonneg (by linarith)]; exact le_rpow_third (by linarith) ha
  have px : m ≤ Real.cbrt x := by
    rw [Lemmas.CurvesD2.cbrt_of_nonneg (by linarith)]; exact le_rpow_third (by linarith) hx
  have ea := Lemmas.CurvesD2.cube_cbrt a
  have ex := Lemmas.CurvesD2.cube_cbrt x
  generalize Real.cbrt a = p at *
  generalize Real.cbrt x = q at *
  rw [le_div_iff₀ (by positivity), ← ea, ← ex]
  have e : p ^ 3 - q ^ 3 = (p - q) * (p ^ 2 + p * q + q ^ 2) := by ring
  rw [e, abs_mul]
  have h1 : 3 * m ^ 2 ≤ p ^ 2 + p * q + q ^ 2 := by nlinarith
  rw [abs_of_nonneg (by nlinarith : 0 ≤ p ^ 2 + p * q + q ^ 2)]
  exact mul_le_mul_of_nonneg_left h1 (abs_nonneg _)

/-- `rnd (cbrt a)` against `cbrt x`, both arguments in `[m³, B³]` -/
theorem cbrt_close {a x e m B : ℝ} (hm : 0 < m) (ha : m ^ 3 ≤ a) (hx : m ^ 3 ≤ x) (hxB : x ≤ B ^ 3)
    (hB : 1 ≤ B) (h : |a - x| ≤ e) :
    Near (M.rnd (Real.cbrt a)) (Real.cbrt x) (eRnd (e / (3 * m ^ 2)) B) B := by
  have hx0 : 0 ≤ x := le_trans (by positivity) hx
  have l := cbrt_lipschitz hm ha hx
  have hb : |Real.cbrt x| ≤ B := by
    have := Lemmas.CurvesD2.cbrt_bounds (a := 0) (b := B) le_rfl (by linarith) (by simpa using hx0) hxB
    rw [abs_of_nonneg this.1]; exact this.2
  have n : Near (Real.cbrt a) (Real.cbrt x) (e / (3 * m ^ 2)) B :=
    ⟨l.trans (div_le_div_of_nonneg_right h (by positivity)), hb, hB⟩
  exact n.rnd M

/-- the rounded threshold literal `0.008856` -/
theorem thr_close : |M.rnd (((1107 : ℕ) : ℝ) / ((125000 : ℕ) : ℝ)) - 1107 / 125000| ≤ 1 / 10 ^ 17 := by
  have := lit_close M 1107 125000 (B := 1 / 100) (by norm_num) (by norm_num)
  refine le_trans (by push_cast at this ⊢; exact this) (by norm_num [FP.eps])

/-- **`Lab::compute_f` in `RF M`**, argument in `[0, 1.2]`: one of the two branch formulas within `4e-15`,
the branch consistent with `t` up to `1e-9` -/
theorem fwd_f_fp (t : RF M) (h0 : 0 ≤ t.val) (h1 : t.val ≤ 12 / 10) :
    FwdOK t.val (Lab.compute_f t).val (4 / 10 ^ 15) := by
  obtain ⟨k1, k2⟩ := abs_le.mp (thr_close M)
  unfold Lab.compute_f
  simp only [FltRF.lt_eq, FltRF.lit_val, decide_eq_true_eq]
  split_ifs with hc
  · left
    refine ⟨by norm_num at k1 k2 ⊢; linarith, ?_⟩
    simp only [FltRF.cbrt_val]
    have hb := Lemmas.CurvesD2.cbrt_bounds (x := t.val) (a := 0) (b := 11 / 10) le_rfl (by norm_num)
      (by simpa using h0) (by norm_num; linarith)
    have := rnd_abs M (x := Real.cbrt t.val) (B := 11 / 10) (by rw [abs_of_nonneg hb.1]; exact hb.2) (by norm_num)
    exact this.trans (by norm_num [FP.eps])
  · right
    rw [not_lt] at hc
    have ht : t.val ≤ 8856001 / 10 ^ 9 := by norm_num at k1 k2 ⊢; linarith
    refine ⟨ht, ?_⟩
    simp only [FltRF.add_val, FltRF.mul_val, FltRF.div_val, FltRF.lit_val]
    rw [lit_int M 16 (by norm_num), lit_int M 116 (by norm_num)]
    have nt : Near t.val t.val 0 1 := Near.exact (by rw [abs_of_nonneg h0]; linarith) le_rfl
    have n := (nt.mul M (Near.lit M 7787 1000 (B := 8) (by norm_num) (by norm_num))).add M
      (Near.lit M 16 116 (B := 1) (by norm_num) le_rfl)
    exact n.finish (by push_cast; ring) (by norm_num [FP.eps])

/-- **`Lab::reverse_compute_f` in `RF M`**, argument in `[0.1, 1.2]`: one of the two branch formulas within
`1e-15`, the branch consistent with `c` -/
theorem rev_f_fp (c : RF M) (h0 : 1 / 10 ≤ c.val) (h1 : c.val ≤ 12 / 10) :
    RevOK c.val (Lab.reverse_compute_f c).val (2 / 10 ^ 15) := by
  obtain ⟨k1, k2⟩ := abs_le.mp (thr_close M)
  have nc : Near c.val c.val 0 (12 / 10) := Near.exact (by rw [abs_of_nonneg (by linarith)]; exact h1) (by norm_num)
  have np := Near.powi3 M nc
  have hp : |RF.powi M c.val 3 - c.val ^ 3| ≤ 2 / 10 ^ 15 :=
    np.finish rfl (by norm_num [eMul, eRnd, FP.eps])
  obtain ⟨p1, p2⟩ := abs_le.mp hp
  unfold Lab.reverse_compute_f
  simp only [C.EPSILON, C.KAPPA, FltRF.lt_eq, FltRF.lit_val, FltRF.powi_val, decide_eq_true_eq]
  split_ifs with hc
  · left
    refine ⟨?_, by simpa only [FltRF.powi_val] using hp⟩
    by_contra hlt
    rw [not_le] at hlt
    have := pow_le_pow_left₀ (by linarith : (0 : ℝ) ≤ c.val) hlt.le 3
    norm_num at this k1 k2 p1 p2 hc
    linarith
  · right
    rw [not_lt] at hc
    constructor
    · by_contra hlt
      rw [not_le] at hlt
      have := pow_le_pow_left₀ (by norm_num : (0 : ℝ) ≤ 6 / 29) hlt.le 3
      norm_num at this k1 k2 p1 p2 hc
      linarith
    · simp only [FltRF.sub_val, FltRF.mul_val, FltRF.div_val, FltRF.lit_val]
      rw [lit_int M 16 (by norm_num), lit_int M 116 (by norm_num)]
      have n116 : Near ((116 : ℕ) : ℝ) 116 0 116 := Near.exact (by norm_num) (by norm_num)
      have n16 : Near ((16 : ℕ) : ℝ) 16 0 16 := Near.exact (by norm_num) (by norm_num)
      have nk := Near.lit M 9033 10 (B := 904) (by norm_num) (by norm_num)
      have hq : |(116 * c.val - 16) / (((9033 : ℕ) : ℝ) / ((10 : ℕ) : ℝ))| ≤ 1 := by
        rw [abs_div, abs_of_pos (by norm_num : (0 : ℝ) < ((9033 : ℕ) : ℝ) / ((10 : ℕ) : ℝ)),
          div_le_iff₀ (by norm_num)]
        rw [abs_le]; constructor <;> push_cast <;> linarith
      have n := ((n116.mul M nc).sub M n16).div M nk (m := 903)
        (by rw [abs_of_pos (by norm_num)]; norm_num) (by norm_num [FP.eps]) hq le_rfl
      exact n.finish (by push_cast; ring) (by norm_num [FP.eps])

/-- **`Lab::compute_f` in `RF M` against the real model**: the computed argument `t` within `1e-15` of the
real argument `tr ∈ [0, 1.16]`, and `tr` farther than `1e-12` from the threshold `0.008856` (so that both
evaluations take the same branch; at the threshold the two branch formulas differ by `3.3e-7`):
the computed value is within `2e-14` of the real model's -/
theorem fwd_f_close (t : RF M) (tr : ℝ) (ht : |t.val - tr| ≤ 1 / 10 ^ 15) (h0 : 0 ≤ tr) (h1 : tr ≤ 116 / 100)
    (hs : 1 / 10 ^ 12 ≤ |tr - 1107 / 125000|) :
    Near (Lab.compute_f t).val (Lab.compute_f (α := ℝ) tr) (2 / 10 ^ 14) (11 / 10) := by
  obtain ⟨k1, k2⟩ := abs_le.mp (thr_close M)
  obtain ⟨t1, t2⟩ := abs_le.mp ht
  have hreal : Lab.compute_f (α := ℝ) tr = fCode tr := by simp [Lab.compute_f, fCode]
  rw [hreal]
  unfold fCode
  unfold Lab.compute_f
  simp only [FltRF.lt_eq, FltRF.lit_val, decide_eq_true_eq]
  split_ifs with hc hr hr
  · -- both on the cube-root branch
    simp only [FltRF.cbrt_val]
    have ha : (2 / 10 : ℝ) ^ 3 ≤ t.val := by norm_num at k1 k2 hc ⊢; linarith
    have hx : (2 / 10 : ℝ) ^ 3 ≤ tr := by norm_num at hr ⊢; linarith
    have n := cbrt_close M (m := 2 / 10) (B := 11 / 10) (by norm_num) ha hx (by norm_num; linarith) (by norm_num) ht
    exact n.mono (by norm_num [eRnd, FP.eps]) le_rfl
  · -- computed: cube root, real: linear — excluded by the side condition
    exfalso
    rw [not_lt] at hr
    rw [abs_of_nonpos (by linarith)] at hs
    norm_num at k1 k2 hc hs t1 t2 hr
    linarith
  · exfalso
    rw [not_lt] at hc
    rw [abs_of_nonneg (by linarith)] at hs
    norm_num at k1 k2 hc hs t1 t2 hr
    linarith
  · rw [not_lt] at hr
    simp only [FltRF.add_val, FltRF.mul_val, FltRF.div_val, FltRF.lit_val]
    rw [lit_int M 16 (by norm_num), lit_int M 116 (by norm_num)]
    have nt : Near t.val tr (1 / 10 ^ 15) 1 := ⟨ht, by rw [abs_of_nonneg h0]; linarith, le_rfl⟩
    have n := (nt.mul M (Near.lit M 7787 1000 (B := 8) (by norm_num) (by norm_num))).add M
      (Near.lit M 16 116 (B := 1) (by norm_num) le_rfl)
    have n' := n.retarget (x' := tr * (7787 / 1000) + 16 / 116) (by push_cast; ring)
    exact ⟨n'.err.trans (by norm_num [FP.eps]), by rw [abs_of_nonneg (by positivity)]; linarith, by norm_num⟩


/-! ## relative-error quotient (xyY, Hunter Lab) -/

/-- quotient of two approximations with errors proportional to the (positive) exact divisor `y`:
`|a − x| ≤ ka·y`, `|b − y| ≤ kb·y`, `|x| ≤ kx·y`, `kb ≤ 1/2` give `|a/b − x/y| ≤ 2(ka + kb·kx)` -/
theorem div_rel_exact {a b x y ka kb kx : ℝ} (hy : 0 < y) (ha : |a - x| ≤ ka * y) (hb : |b - y| ≤ kb * y)
    (hx : |x| ≤ kx * y) (hkb : kb ≤ 1 / 2) :
    |a / b - x / y| ≤ 2 * (ka + kb * kx) := by
  have hka : 0 ≤ ka := by
    have := le_trans (abs_nonneg _) ha; by_contra h; rw [not_le] at h; nlinarith
  have hkb0 : 0 ≤ kb := by
    have := le_trans (abs_nonneg _) hb; by_contra h; rw [not_le] at h; nlinarith
  have hkx : 0 ≤ kx := by
    have := le_trans (abs_nonneg _) hx; by_contra h; rw [not_le] at h; nlinarith
  obtain ⟨b1, b2⟩ := abs_le.mp hb
  have hb2 : y / 2 ≤ b := by nlinarith
  have hb0 : 0 < b := by linarith
  have e : a / b - x / y = ((a - x) * y - x * (b - y)) / (b * y) := by field_simp; ring
  rw [e, abs_div, abs_of_pos (mul_pos hb0 hy), div_le_iff₀ (mul_pos hb0 hy)]
  have h1 : |(a - x) * y| ≤ ka * y * y := by
    rw [abs_mul, abs_of_pos hy]; exact mul_le_mul_of_nonneg_right ha hy.le
  have h2 : |x * (b - y)| ≤ kx * y * (kb * y) := by
    rw [abs_mul]; exact mul_le_mul hx hb (abs_nonneg _) (by positivity)
  have h3 := abs_sub ((a - x) * y) (x * (b - y))
  have h4 : (ka + kb * kx) * (y * y) ≤ 2 * (ka + kb * kx) * (b * y) := by
    have : y * y ≤ 2 * (b * y) := by nlinarith
    have h5 : 0 ≤ ka + kb * kx := by positivity
    nlinarith
  nlinarith

/-- the sum `(X + Y) + Z` of three non-negative numbers with both additions rounded: relative error `3·eps` -/
theorem sum3_rel {X Y Z : ℝ} (hX : 0 ≤ X) (hY : 0 ≤ Y) (hZ : 0 ≤ Z) (hS : 1e-100 ≤ X + Y + Z) :
    |M.rnd (M.rnd (X + Y) + Z) - (X + Y + Z)| ≤ 3 * FP.eps * (X + Y + Z) := by
  set S := X + Y + Z with hSd
  have hS0 : 0 < S := lt_of_lt_of_le (by norm_num) hS
  have r1 := rnd_abs M (x := X + Y) (B := S) (by rw [abs_of_nonneg (by positivity)]; linarith)
    (le_trans (by norm_num) hS)
  obtain ⟨a1, a2⟩ := abs_le.mp r1
  have hb : |M.rnd (X + Y) + Z| ≤ 2 * S := by
    rw [abs_le]; have := FP.eps_pos; unfold FP.eps at *; constructor <;> nlinarith
  have r2 := rnd_abs M hb (by linarith)
  have := abs_sub_le (M.rnd (M.rnd (X + Y) + Z)) (M.rnd (X + Y) + Z) S
  have e : |M.rnd (X + Y) + Z - S| = |M.rnd (X + Y) - (X + Y)| := by rw [hSd]; congr 1; ring
  rw [e] at this
  nlinarith

theorem lit_zero : M.rnd (((0 : ℕ) : ℝ) / ((1 : ℕ) : ℝ)) = 0 := by
  simpa using lit_int M 0 (by norm_num)

/-- `Xyz::is_null` in `RF M` (comparisons are exact) -/
theorem is_null_fp (x : Xyz (RF M)) : Xyz.is_null x = decide (x.x.val = 0 ∧ x.y.val = 0 ∧ x.z.val = 0) := by
  simp only [Xyz.is_null, FltRF.beq_eq, FltRF.lit_val, lit_zero, decide_eq_true_eq]
  split_ifs <;> simp_all

/-- a chromaticity coordinate `v / ((X + Y) + Z)` in `RF M`: within `1e-15` of the exact quotient, for
non-negative `X, Y, Z` with `X + Y + Z ≥ 1e-100` and `0 ≤ v ≤ X + Y + Z` -/
theorem chroma_fp {X Y Z v : ℝ} (hX : 0 ≤ X) (hY : 0 ≤ Y) (hZ : 0 ≤ Z) (hS : 1e-100 ≤ X + Y + Z)
    (hv0 : 0 ≤ v) (hv : v ≤ X + Y + Z) :
    |M.rnd (v / M.rnd (M.rnd (X + Y) + Z)) - v / (X + Y + Z)| ≤ 1 / 10 ^ 15 := by
  have hS0 : 0 < X + Y + Z := lt_of_lt_of_le (by norm_num) hS
  have s := sum3_rel M hX hY hZ hS
  have d := div_rel_exact (a := v) (x := v) (ka := 0) (kx := 1) hS0 (by simp) s
    (by rw [abs_of_nonneg hv0, one_mul]; exact hv) (by norm_num [FP.eps])
  have hq : |v / (X + Y + Z)| ≤ 1 := by
    rw [abs_of_nonneg (div_nonneg hv0 hS0.le), div_le_one hS0]; exact hv
  have r := rnd_close M d hq (by norm_num)
  exact r.trans (by norm_num [FP.eps])

/-- the computed `√(Y/100)` of Hunter Lab, `Y ∈ [1e-5, 1.1]`: relative error `3·eps` -/
theorem hunter_sqrt {Y : ℝ} (hY0 : 1 / 10 ^ 5 ≤ Y) (hY1 : Y ≤ 11 / 10) :
    |M.rnd (√(M.rnd (Y / 100))) - √(Y / 100)| ≤ 3 * FP.eps * √(Y / 100) ∧
    316 / 10 ^ 6 ≤ √(Y / 100) ∧ √(Y / 100) ≤ 105 / 1000 := by
  set ty := Y / 100 with hty
  have t0 : 1 / 10 ^ 7 ≤ ty := by rw [hty, le_div_iff₀ (by norm_num)]; norm_num at hY0 ⊢; linarith
  have t1 : ty ≤ 11 / 1000 := by rw [hty, div_le_iff₀ (by norm_num)]; linarith
  have tp : 0 ≤ ty := by linarith
  have r1 := rnd_abs M (x := ty) (B := ty) (by rw [abs_of_nonneg tp]) (by norm_num at t0 ⊢; linarith)
  have s1 := FpPolar.sqrt_rel (s := M.rnd ty) (X := ty) (r := FP.eps) (e := 0) tp FP.eps_pos.le le_rfl
    (by linarith)
  rw [Real.sqrt_zero, add_zero] at s1
  have q0 : 316 / 10 ^ 6 ≤ √ty := by
    apply Real.le_sqrt_of_sq_le; norm_num at t0 ⊢; linarith
  have q1 : √ty ≤ 105 / 1000 := by
    rw [Real.sqrt_le_left (by norm_num)]; norm_num at t1 ⊢; linarith
  obtain ⟨a1, a2⟩ := abs_le.mp s1
  have hb : |√(M.rnd ty)| ≤ 2 * √ty := by
    rw [abs_of_nonneg (Real.sqrt_nonneg _)]
    have := FP.eps_pos; unfold FP.eps at *; nlinarith
  have r2 := rnd_abs M hb (by norm_num at q0 ⊢; linarith)
  refine ⟨?_, q0, q1⟩
  have := abs_sub_le (M.rnd (√(M.rnd ty))) (√(M.rnd ty)) (√ty)
  linarith

/-- one chromatic term of Hunter Lab: `K · (d / √(Y/100))` with computed coefficient `K` (within `2e-12` of
`Kr`, `|Kr| ≤ 1800`) and computed numerator `d` (within `6e-18` of `dr`, `|dr| ≤ 0.0116`): within `1e-9` -/
theorem hunter_term {Y d dr K Kr : ℝ} (hY0 : 1 / 10 ^ 5 ≤ Y) (hY1 : Y ≤ 11 / 10)
    (hd : |d - dr| ≤ 6 / 10 ^ 18) (hdr : |dr| ≤ 116 / 10 ^ 4) (hK : |K - Kr| ≤ 2 / 10 ^ 12) (hKr : |Kr| ≤ 1800) :
    |M.rnd (K * M.rnd (d / M.rnd (√(M.rnd (Y / 100))))) - Kr * (dr / √(Y / 100))| ≤ 1 / 10 ^ 9 := by
  obtain ⟨s1, s2, s3⟩ := hunter_sqrt M hY0 hY1
  set sq := √(Y / 100) with hsq
  have hsq0 : 0 < sq := by norm_num at s2 ⊢; linarith
  have dq := div_rel_exact (a := d) (b := M.rnd (√(M.rnd (Y / 100)))) (x := dr) (y := sq)
    (ka := 2 / 10 ^ 14) (kb := 3 * FP.eps) (kx := 37) hsq0
    (by norm_num at s2 hd ⊢; linarith) s1 (by norm_num at s2 hdr ⊢; linarith) (by norm_num [FP.eps])
  have hq : |dr / sq| ≤ 37 := by
    rw [abs_div, abs_of_pos hsq0, div_le_iff₀ hsq0]; norm_num at s2 hdr ⊢; linarith
  have rq := rnd_close M dq hq (by norm_num)
  have m := mul_close M hK rq hKr hq (by norm_num)
  refine m.trans ?_
  norm_num [FP.eps]


/-- range of a forward value -/
theorem fwdOK_range {t c e : ℝ} (h : FwdOK t c e) (h0 : 0 ≤ t) (h1 : t ≤ 12 / 10) (he : e ≤ 1 / 10 ^ 3) :
    13 / 100 ≤ c ∧ c ≤ 11 / 10 := by
  rcases h with ⟨k1, k2⟩ | ⟨k1, k2⟩
  · have hb := Lemmas.CurvesD2.cbrt_bounds (x := t) (a := 2 / 10) (b := 107 / 100) (by norm_num) (by norm_num)
      (by norm_num at k1 ⊢; linarith) (by norm_num; linarith)
    obtain ⟨a1, a2⟩ := abs_le.mp k2
    constructor <;> linarith [hb.1, hb.2]
  · obtain ⟨a1, a2⟩ := abs_le.mp k2
    constructor <;> norm_num at k1 ⊢ <;> linarith

/-- a normalised component `t = X / W`, `W` the rounded white-point literal `n/d ∈ [0.95, 1.1]`,
`X ∈ [0, 1.1]`: `t ∈ [0, 1.2]` and `W·t` is `X` up to `3e-16` -/
theorem ratio_fp (n d : ℕ) (hl : 95 / 100 ≤ (n : ℝ) / d) (hu : (n : ℝ) / d ≤ 11 / 10) {X : ℝ}
    (h0 : 0 ≤ X) (h1 : X ≤ 11 / 10) :
    0 ≤ M.rnd (X / M.rnd ((n : ℝ) / d)) ∧ M.rnd (X / M.rnd ((n : ℝ) / d)) ≤ 12 / 10 ∧
    |M.rnd ((n : ℝ) / d) * M.rnd (X / M.rnd ((n : ℝ) / d)) - X| ≤ 3 / 10 ^ 16 ∧
    |M.rnd (X / M.rnd ((n : ℝ) / d)) - X / ((n : ℝ) / d)| ≤ 5 / 10 ^ 16 ∧
    |M.rnd ((n : ℝ) / d) - (n : ℝ) / d| ≤ 2 / 10 ^ 16 ∧ 0 ≤ X / ((n : ℝ) / d) ∧ X / ((n : ℝ) / d) ≤ 116 / 100 := by
  have nw := Near.lit M n d (B := 11 / 10) hu (by norm_num)
  have hw := nw.err
  obtain ⟨w1, w2⟩ := abs_le.mp hw
  set W := M.rnd ((n : ℝ) / d) with hW
  have hWpos : 0 < W := by norm_num [FP.eps] at w1; linarith
  have hW1 : 949 / 1000 ≤ W := by norm_num [FP.eps] at w1; linarith
  have hq0 : 0 ≤ X / W := div_nonneg h0 hWpos.le
  have hq1 : X / W ≤ 116 / 100 := by rw [div_le_iff₀ hWpos]; nlinarith
  have hr := rnd_abs M (x := X / W) (B := 116 / 100) (by rw [abs_of_nonneg hq0]; exact hq1) (by norm_num)
  obtain ⟨r1, r2⟩ := abs_le.mp hr
  have nx : Near X X 0 (11 / 10) := Near.exact (by rw [abs_of_nonneg h0]; exact h1) (by norm_num)
  have hpos : (0 : ℝ) < (n : ℝ) / d := by linarith
  have hq2 : X / ((n : ℝ) / d) ≤ 116 / 100 := by rw [div_le_iff₀ hpos]; nlinarith
  have nd := nx.div M nw (m := 95 / 100) (Bq := 116 / 100) (by rw [abs_of_pos hpos]; exact hl)
    (by norm_num [FP.eps]) (by rw [abs_of_nonneg (div_nonneg h0 hpos.le)]; exact hq2) (by norm_num)
  refine ⟨rnd_nonneg M hq0, by norm_num [FP.eps] at r2; linarith, ?_,
    nd.finish rfl (by norm_num [FP.eps]), hw.trans (by norm_num [FP.eps]), div_nonneg h0 hpos.le, hq2⟩
  have e : W * M.rnd (X / W) - X = W * (M.rnd (X / W) - X / W) := by field_simp
  have hW2 : W ≤ 111 / 100 := by norm_num [FP.eps] at w2; linarith
  rw [e, abs_mul, abs_of_pos hWpos]
  calc W * |M.rnd (X / W) - X / W| ≤ 111 / 100 * (FP.eps * (116 / 100)) :=
        mul_le_mul hW2 hr (abs_nonneg _) (by norm_num)
    _ ≤ 3 / 10 ^ 16 := by norm_num [FP.eps]

/-- the arithmetic of `Lab::from(Xyz)` followed by the argument preparation of `Xyz::from(Lab)`: the three
arguments of the reverse functions are the three forward values up to `1e-14` -/
theorem lab_chain (cx cy cz : RF M) (hx0 : 13 / 100 ≤ cx.val) (hx1 : cx.val ≤ 11 / 10)
    (hy0 : 13 / 100 ≤ cy.val) (hy1 : cy.val ≤ 11 / 10) (hz0 : 13 / 100 ≤ cz.val) (hz1 : cz.val ≤ 11 / 10) :
    let L : RF M := Flt.lit 0x405D000000000000 116 1 * cy - Flt.lit 0x4030000000000000 16 1
    let l2 : RF M := (L + Flt.lit 0x4030000000000000 16 1) / Flt.lit 0x405D000000000000 116 1
    |(l2 + (Flt.lit 0x407F400000000000 500 1 * (cx - cy)) / Flt.lit 0x407F400000000000 500 1).val - cx.val| ≤ 1 / 10 ^ 14 ∧
    |(l2 - (Flt.lit 0x4069000000000000 200 1 * (cy - cz)) / Flt.lit 0x4069000000000000 200 1).val - cz.val| ≤ 1 / 10 ^ 14 ∧
    |l2.val - cy.val| ≤ 1 / 10 ^ 14 ∧ |L.val - (116 * cy.val - 16)| ≤ 1 / 10 ^ 13 ∧
    |l2.val - (L.val + 16) / 116| ≤ 1 / 10 ^ 15 := by
  intro L l2
  simp only [L, l2, FltRF.add_val, FltRF.sub_val, FltRF.mul_val, FltRF.div_val, FltRF.lit_val]
  rw [lit_int M 16 (by norm_num), lit_int M 116 (by norm_num), lit_int M 500 (by norm_num),
    lit_int M 200 (by norm_num)]
  have nx : Near cx.val cx.val 0 (11 / 10) := Near.exact (by rw [abs_of_nonneg (by linarith)]; exact hx1) (by norm_num)
  have ny : Near cy.val cy.val 0 (11 / 10) := Near.exact (by rw [abs_of_nonneg (by linarith)]; exact hy1) (by norm_num)
  have nz : Near cz.val cz.val 0 (11 / 10) := Near.exact (by rw [abs_of_nonneg (by linarith)]; exact hz1) (by norm_num)
  have n116 : Near ((116 : ℕ) : ℝ) 116 0 116 := Near.exact (by norm_num) (by norm_num)
  have n16 : Near ((16 : ℕ) : ℝ) 16 0 16 := Near.exact (by norm_num) (by norm_num)
  have n500 : Near ((500 : ℕ) : ℝ) 500 0 500 := Near.exact (by norm_num) (by norm_num)
  have n200 : Near ((200 : ℕ) : ℝ) 200 0 200 := Near.exact (by norm_num) (by norm_num)
  have nL := (n116.mul M ny).sub M n16
  have nl2 := (nL.add M n16).div_const M (c := ((116 : ℕ) : ℝ)) (B' := 2) (by norm_num) (by norm_num) (by norm_num)
  have na := (n500.mul M (nx.sub M ny)).div_const M (c := ((500 : ℕ) : ℝ)) (B' := 3) (by norm_num) (by norm_num) (by norm_num)
  have nb := (n200.mul M (ny.sub M nz)).div_const M (c := ((200 : ℕ) : ℝ)) (B' := 3) (by norm_num) (by norm_num) (by norm_num)
  refine ⟨(nl2.add M na).finish (by push_cast; ring) (by norm_num [FP.eps]),
    (nl2.sub M nb).finish (by push_cast; ring) (by norm_num [FP.eps]),
    nl2.finish (by push_cast; ring) (by norm_num [FP.eps]),
    nL.finish (by push_cast; ring) (by norm_num [FP.eps]), ?_⟩
  -- l2 against its own exact formula in the computed L
  set Lv := M.rnd (M.rnd (((116 : ℕ) : ℝ) * cy.val) - ((16 : ℕ) : ℝ)) with hLv
  have hLb : |Lv| ≤ 130 := by
    have := nL.err
    have h2 : |116 * cy.val - 16| ≤ 112 := by rw [abs_le]; constructor <;> linarith
    have := abs_sub_abs_le_abs_sub Lv (116 * cy.val - 16)
    norm_num [FP.eps] at *
    linarith
  have nLv : Near Lv Lv 0 130 := Near.exact hLb (by norm_num)
  have n2 := (nLv.add M n16).div_const M (c := ((116 : ℕ) : ℝ)) (B' := 2) (by norm_num) (by norm_num) (by norm_num)
  exact n2.finish (by push_cast; ring) (by norm_num [FP.eps])

theorem from_lab_x (l : Lab (RF M)) : (Xyz.from_Lab l).x =
    (C.D65 : RF M × RF M × RF M).1 * Lab.reverse_compute_f
      ((l.l + Flt.lit 0x4030000000000000 16 1) / Flt.lit 0x405D000000000000 116 1
        + l.a / Flt.lit 0x407F400000000000 500 1) := by
  unfold Xyz.from_Lab; simp only []; split_ifs <;> rfl

theorem from_lab_z (l : Lab (RF M)) : (Xyz.from_Lab l).z =
    (C.D65 : RF M × RF M × RF M).2.2 * Lab.reverse_compute_f
      ((l.l + Flt.lit 0x4030000000000000 16 1) / Flt.lit 0x405D000000000000 116 1
        - l.b / Flt.lit 0x4069000000000000 200 1) := by
  unfold Xyz.from_Lab; simp only []; split_ifs <;> rfl

theorem from_lab_y (l : Lab (RF M)) : (Xyz.from_Lab l).y =
    if Flt.lt ((C.EPSILON : RF M) * (C.KAPPA : RF M)) l.l then
      (C.D65 : RF M × RF M × RF M).2.1 * Flt.powi
        ((l.l + Flt.lit 0x4030000000000000 16 1) / Flt.lit 0x405D000000000000 116 1) 3
    else (C.D65 : RF M × RF M × RF M).2.1 * (l.l / (C.KAPPA : RF M)) := by
  unfold Xyz.from_Lab; simp only []; split_ifs <;> rfl

/-- the rounded product of the two rounded literals `0.008856`, `903.3` (either order) -/
theorem thr2_close : |M.rnd (M.rnd (((1107 : ℕ) : ℝ) / ((125000 : ℕ) : ℝ)) * M.rnd (((9033 : ℕ) : ℝ) / ((10 : ℕ) : ℝ)))
    - 79996248 / 10000000| ≤ 1 / 10 ^ 12 := by
  have n := (Near.lit M 1107 125000 (B := 1) (by norm_num) le_rfl).mul M
    (Near.lit M 9033 10 (B := 904) (by norm_num) (by norm_num))
  exact n.finish (by push_cast; norm_num) (by norm_num [FP.eps])

/-- **luminance recovery of `Xyz::from(Lab)` in `RF M`**: `L` the lightness, `l2` the computed
`(L + 16)/116`: one of the two branch formulas at `l2`, the branch consistent with `l2` -/
theorem yrev_fp (L l2 : RF M) (_hL : |L.val| ≤ 130) (h2 : |l2.val - (L.val + 16) / 116| ≤ 1 / 10 ^ 15)
    (h20 : 1 / 10 ≤ l2.val) (h21 : l2.val ≤ 12 / 10) :
    RevOK l2.val (if Flt.lt ((C.EPSILON : RF M) * (C.KAPPA : RF M)) L then
        (C.D65 : RF M × RF M × RF M).2.1 * Flt.powi l2 3
      else (C.D65 : RF M × RF M × RF M).2.1 * (L / (C.KAPPA : RF M))).val (3 / 10 ^ 13) := by
  obtain ⟨k1, k2⟩ := abs_le.mp (thr2_close M)
  obtain ⟨a1, a2⟩ := abs_le.mp h2
  have n1 : Near ((1 : ℕ) : ℝ) 1 0 1 := ⟨by simp, by simp, le_rfl⟩
  simp only [C.EPSILON, C.KAPPA, C.D65, FltRF.lt_eq, FltRF.mul_val, FltRF.lit_val, decide_eq_true_eq]
  split_ifs with hc
  · left
    constructor
    · linarith
    · simp only [FltRF.mul_val, FltRF.lit_val, FltRF.powi_val]
      rw [lit_int M 1 (by norm_num)]
      have nc : Near l2.val l2.val 0 (12 / 10) :=
        Near.exact (by rw [abs_of_nonneg (by linarith)]; exact h21) (by norm_num)
      exact (n1.mul M (Near.powi3 M nc)).finish (by push_cast; ring) (by norm_num [eMul, eRnd, FP.eps])
  · right
    rw [not_lt] at hc
    constructor
    · linarith
    · simp only [FltRF.mul_val, FltRF.div_val, FltRF.lit_val]
      rw [lit_int M 1 (by norm_num)]
      have hb : |116 * l2.val - 16| ≤ 130 := by rw [abs_le]; constructor <;> linarith
      have nL : Near L.val (116 * l2.val - 16) (2 / 10 ^ 13) 130 :=
        ⟨by rw [abs_le]; constructor <;> linarith, hb, by norm_num⟩
      have nk := Near.lit M 9033 10 (B := 904) (by norm_num) (by norm_num)
      have hq : |(116 * l2.val - 16) / (((9033 : ℕ) : ℝ) / ((10 : ℕ) : ℝ))| ≤ 1 := by
        rw [abs_div, abs_of_pos (by norm_num : (0 : ℝ) < ((9033 : ℕ) : ℝ) / ((10 : ℕ) : ℝ)),
          div_le_iff₀ (by norm_num)]
        push_cast; linarith
      have n := n1.mul M (nL.div M nk (m := 903) (by rw [abs_of_pos (by norm_num)]; norm_num)
        (by norm_num [FP.eps]) hq le_rfl)
      exact n.finish (by push_cast; ring) (by norm_num [FP.eps])

/-- scaling a recovered ratio back by the rounded white-point literal -/
theorem unratio_fp {W t out X e : ℝ} (hW0 : 0 ≤ W) (hW1 : W ≤ 111 / 100) (ht0 : 0 ≤ t) (ht1 : t ≤ 12 / 10)
    (ho : |out - t| ≤ e) (he : e ≤ 1 / 10 ^ 6) (hX : |W * t - X| ≤ 3 / 10 ^ 16) :
    |M.rnd (W * out) - X| ≤ 111 / 100 * e + 1 / 10 ^ 15 := by
  have he0 : 0 ≤ e := le_trans (abs_nonneg _) ho
  have nW : Near W W 0 (111 / 100) := Near.exact (by rw [abs_of_nonneg hW0]; exact hW1) (by norm_num)
  have no : Near out t e (12 / 10) := ⟨ho, by rw [abs_of_nonneg ht0]; exact ht1, by norm_num⟩
  have n := (nW.mul M no).err
  have := abs_sub_le (M.rnd (W * out)) (W * t) X
  norm_num [FP.eps] at n ⊢
  nlinarith

/-- **CIELAB round trip in `RF M`**: for every computed XYZ with components in `[0, 1.1]`,
`Xyz::from(Lab::from(xyz))` evaluated in ANY model returns each component within `1e-7` — whatever
branches the two `compute_f` / `reverse_compute_f` evaluations take. -/
theorem lab_roundtrip_fp (x : Xyz (RF M)) (hx0 : 0 ≤ x.x.val) (hx1 : x.x.val ≤ 11 / 10)
    (hy0 : 0 ≤ x.y.val) (hy1 : x.y.val ≤ 11 / 10) (hz0 : 0 ≤ x.z.val) (hz1 : x.z.val ≤ 11 / 10) :
    |(Xyz.from_Lab (Lab.from_Xyz x)).x.val - x.x.val| ≤ 1 / 10 ^ 7 ∧
    |(Xyz.from_Lab (Lab.from_Xyz x)).y.val - x.y.val| ≤ 1 / 10 ^ 7 ∧
    |(Xyz.from_Lab (Lab.from_Xyz x)).z.val - x.z.val| ≤ 1 / 10 ^ 7 := by
  -- the three normalised components
  obtain ⟨rx0, rx1, rx2, -, rxw, -, -⟩ := ratio_fp M 95047 100000 (by norm_num) (by norm_num) hx0 hx1
  obtain ⟨ry0, ry1, ry2, -, ryw, -, -⟩ := ratio_fp M 1 1 (by norm_num) (by norm_num) hy0 hy1
  obtain ⟨rz0, rz1, rz2, -, rzw, -, -⟩ := ratio_fp M 108883 100000 (by norm_num) (by norm_num) hz0 hz1
  set tx : RF M := x.x / (C.D65 : RF M × RF M × RF M).1 with htx
  set ty : RF M := x.y / (C.D65 : RF M × RF M × RF M).2.1 with hty
  set tz : RF M := x.z / (C.D65 : RF M × RF M × RF M).2.2 with htz
  have etx : tx.val = M.rnd (x.x.val / M.rnd (((95047 : ℕ) : ℝ) / ((100000 : ℕ) : ℝ))) := rfl
  have ety : ty.val = M.rnd (x.y.val / M.rnd (((1 : ℕ) : ℝ) / ((1 : ℕ) : ℝ))) := rfl
  have etz : tz.val = M.rnd (x.z.val / M.rnd (((108883 : ℕ) : ℝ) / ((100000 : ℕ) : ℝ))) := rfl
  rw [← etx] at rx0 rx1 rx2
  rw [← ety] at ry0 ry1 ry2
  rw [← etz] at rz0 rz1 rz2
  -- forward values
  have fx := fwd_f_fp M tx rx0 rx1
  have fy := fwd_f_fp M ty ry0 ry1
  have fz := fwd_f_fp M tz rz0 rz1
  obtain ⟨cx0, cx1⟩ := fwdOK_range fx rx0 rx1 (by norm_num)
  obtain ⟨cy0, cy1⟩ := fwdOK_range fy ry0 ry1 (by norm_num)
  obtain ⟨cz0, cz1⟩ := fwdOK_range fz rz0 rz1 (by norm_num)
  set cx : RF M := Lab.compute_f tx with hcx
  set cy : RF M := Lab.compute_f ty with hcy
  set cz : RF M := Lab.compute_f tz with hcz
  have elb : Lab.from_Xyz x = ⟨Flt.lit 0x405D000000000000 116 1 * cy - Flt.lit 0x4030000000000000 16 1,
      Flt.lit 0x407F400000000000 500 1 * (cx - cy), Flt.lit 0x4069000000000000 200 1 * (cy - cz)⟩ := rfl
  obtain ⟨ch1, ch2, ch3, ch4, ch5⟩ := lab_chain M cx cy cz cx0 cx1 cy0 cy1 cz0 cz1
  obtain ⟨w1, w2⟩ := abs_le.mp rxw
  obtain ⟨w3, w4⟩ := abs_le.mp rzw
  refine ⟨?_, ?_, ?_⟩
  · rw [from_lab_x, elb]
    simp only []
    set CX : RF M := (Flt.lit 0x405D000000000000 116 1 * cy - Flt.lit 0x4030000000000000 16 1 +
      Flt.lit 0x4030000000000000 16 1) / Flt.lit 0x405D000000000000 116 1 +
      Flt.lit 0x407F400000000000 500 1 * (cx - cy) / Flt.lit 0x407F400000000000 500 1 with hCX
    obtain ⟨d1, d2⟩ := abs_le.mp ch1
    have r := rev_f_fp M CX (by linarith) (by linarith)
    have k := rev_fwd_close rx0 rx1 fx ch1 (by linarith) r (by norm_num)
    have u := unratio_fp M (W := M.rnd (((95047 : ℕ) : ℝ) / ((100000 : ℕ) : ℝ))) (by push_cast at w1 ⊢; linarith)
      (by push_cast at w2 ⊢; linarith) rx0 rx1 k (by norm_num) rx2
    exact u.trans (by norm_num)
  · rw [from_lab_y, elb]
    simp only []
    set L : RF M := Flt.lit 0x405D000000000000 116 1 * cy - Flt.lit 0x4030000000000000 16 1 with hL
    set l2 : RF M := (L + Flt.lit 0x4030000000000000 16 1) / Flt.lit 0x405D000000000000 116 1 with hl2
    obtain ⟨d1, d2⟩ := abs_le.mp ch3
    have hLb : |L.val| ≤ 130 := by
      obtain ⟨g1, g2⟩ := abs_le.mp ch4
      rw [abs_le]; constructor <;> linarith
    have r := yrev_fp M L l2 hLb ch5 (by linarith) (by linarith)
    have k := rev_fwd_close ry0 ry1 fy ch3 (by linarith) r (by norm_num)
    have e1 : M.rnd (((1 : ℕ) : ℝ) / ((1 : ℕ) : ℝ)) = 1 := by
      have := lit_int M 1 (by norm_num); simpa using this
    rw [e1, one_mul] at ry2
    have key : ∀ o : ℝ, |o - ty.val| ≤ 9 / 10 ^ 8 + 3 / 10 ^ 13 + 44 / 10 * (4 / 10 ^ 15 + 1 / 10 ^ 14) →
        |o - x.y.val| ≤ 1 / 10 ^ 7 := by
      intro o ho
      have := abs_sub_le o ty.val x.y.val
      norm_num at ho ry2 ⊢
      linarith
    exact key _ k
  · rw [from_lab_z, elb]
    simp only []
    set CZ : RF M := (Flt.lit 0x405D000000000000 116 1 * cy - Flt.lit 0x4030000000000000 16 1 +
      Flt.lit 0x4030000000000000 16 1) / Flt.lit 0x405D000000000000 116 1 -
      Flt.lit 0x4069000000000000 200 1 * (cy - cz) / Flt.lit 0x4069000000000000 200 1 with hCZ
    obtain ⟨d1, d2⟩ := abs_le.mp ch2
    have r := rev_f_fp M CZ (by linarith) (by linarith)
    have k := rev_fwd_close rz0 rz1 fz ch2 (by linarith) r (by norm_num)
    have u := unratio_fp M (W := M.rnd (((108883 : ℕ) : ℝ) / ((100000 : ℕ) : ℝ))) (by push_cast at w3 ⊢; linarith)
      (by push_cast at w4 ⊢; linarith) rz0 rz1 k (by norm_num) rz2
    exact u.trans (by norm_num)

end fp

end FpCie
