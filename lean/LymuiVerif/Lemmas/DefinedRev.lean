import LymuiVerif.Lemmas.DefinedXyz
/-!
# Definedness (C04): reverse conversions (towards XYZ) and round trips

`xyz_from_x` lemmas: `Xyz.from_X (liftX q) = liftXyz (Xyz.from_X q)`, unconditional where possible.
Where a hypothesis is needed it is stated, together with the input that breaks it:
* `Xyz.from_Hlab`: `0 ≤ l` (artefact of the conservative `powf` of `PR`),
* `Xyz.from_Rec2100`: nonnegative components (`powf` of a negative base is NaN in IEEE as well),
* `Xyz.from_Luv`: `l = 0 → u = 0` and, for `l ≠ 0`, `v + 13·l·v_r ≠ 0` (`xyz_from_luv_undefined` is a genuine
  non-finite value outside the forward image).
-/
set_option linter.unusedSimpArgs false
set_option linter.unusedVariables false
namespace Lemmas.Defined
open Gen


theorem xyz_from_srgb (s : Srgb ℝ) : Xyz.from_Srgb (liftSrgb s) = liftXyz (Xyz.from_Srgb s) := by
  simp [Xyz.from_Srgb, liftSrgb, liftXyz, srgb_expand, C.X65, C.Y65, C.Z65]

theorem xyz_from_argb (s : Argb ℝ) : Xyz.from_Argb (liftArgb s) = liftXyz (Xyz.from_Argb s) := by
  simp [Xyz.from_Argb, liftArgb, liftXyz, argb_gamma, C.RR, C.GG, C.BB]

theorem xyz_from_rec709 (s : Rec709 ℝ) : Xyz.from_Rec709 (liftRec709 s) = liftXyz (Xyz.from_Rec709 s) := by
  simp [Xyz.from_Rec709, liftRec709, liftXyz, rec709_expand, C.X65, C.Y65, C.Z65]

theorem xyz_from_rec2020 (s : Rec2020 ℝ) : Xyz.from_Rec2020 (liftRec2020 s) = liftXyz (Xyz.from_Rec2020 s) := by
  simp [Xyz.from_Rec2020, liftRec2020, liftXyz, rec2020_expand, C.XX, C.XY, C.XZ]

theorem xyz_from_rec2100 (s : Rec2100 ℝ) (hr : 0 ≤ s.r) (hg : 0 ≤ s.g) (hb : 0 ≤ s.b) :
    Xyz.from_Rec2100 (liftRec2100 s) = liftXyz (Xyz.from_Rec2100 s) := by
  simp [Xyz.from_Rec2100, liftRec2100, liftXyz, pq_inv_nonneg _ hr, pq_inv_nonneg _ hg, pq_inv_nonneg _ hb, C.XX, C.XY, C.XZ]

theorem reverse_f_bridge (x : ℝ) : Lab.reverse_compute_f (some x : PR) = some (Lab.reverse_compute_f x) := by
  unfold Lab.reverse_compute_f
  simp only [FltPR.powi_nonneg x 3 (by norm_num), C.EPSILON, C.KAPPA, FltPR.lit_eq, FltPR.lt_some, FltReal.lit_eq, FltReal.lt_eq,
    FltReal.powi_eq, decide_eq_true_eq]
  split_ifs
  · rfl
  · simp (disch := positivity) [FltPR.div_some]

theorem xyz_from_lab (q : Lab ℝ) : Xyz.from_Lab (liftLab q) = liftXyz (Xyz.from_Lab q) := by
  unfold Xyz.from_Lab
  have h116 : ((116:ℕ):ℝ) / ((1:ℕ):ℝ) ≠ 0 := by norm_num
  have h500 : ((500:ℕ):ℝ) / ((1:ℕ):ℝ) ≠ 0 := by norm_num
  have h200 : ((200:ℕ):ℝ) / ((1:ℕ):ℝ) ≠ 0 := by norm_num
  have hk : ((9033:ℕ):ℝ) / ((10:ℕ):ℝ) ≠ 0 := by norm_num
  simp only [liftLab, C.D65, C.EPSILON, C.KAPPA, FltPR.lit_eq, FltPR.add_some, FltPR.sub_some, FltPR.div_some _ _ h116,
    FltPR.div_some _ _ h500, FltPR.div_some _ _ h200, FltPR.div_some _ _ hk, reverse_f_bridge, FltPR.mul_some, FltPR.lt_some,
    FltPR.powi_nonneg _ 3 (by norm_num), FltReal.lit_eq, FltReal.lt_eq, FltReal.powi_eq, decide_eq_true_eq]
  split_ifs <;> rfl

theorem lab_from_lchlab (q : Lchlab ℝ) : Lab.from_Lchlab (liftLchlab q) = liftLab (Lab.from_Lchlab q) := by
  simp [Lab.from_Lchlab, liftLchlab, liftLab, radian_bridge]

theorem luv_from_lchuv (q : Lchuv ℝ) : Luv.from_Lchuv (liftLchuv q) = liftLuv (Luv.from_Lchuv q) := by
  simp [Luv.from_Lchuv, liftLchuv, liftLuv, radian_bridge]

theorem luv_from_hcl (q : Hcl ℝ) : Luv.from_Hcl (liftHcl q) = liftLuv (Luv.from_Hcl q) := by
  simp [Luv.from_Hcl, liftHcl, liftLuv, radian_bridge]

theorem oklab_from_oklch (q : OkLch ℝ) : OkLab.from_OkLch (liftOkLch q) = liftOkLab (OkLab.from_OkLch q) := by
  simp [OkLab.from_OkLch, liftOkLch, liftOkLab]

theorem xyz_from_lchlab (q : Lchlab ℝ) : Xyz.from_Lchlab (liftLchlab q) = liftXyz (Xyz.from_Lchlab q) := by
  unfold Xyz.from_Lchlab; rw [lab_from_lchlab, xyz_from_lab]

theorem srgb_from_oklab (q : OkLab ℝ) : Srgb.from_OkLab (liftOkLab q) = liftSrgb (Srgb.from_OkLab q) := by
  unfold Srgb.from_OkLab
  have e : ∀ x : ℝ, Flt.powi (some x : PR) 3 = some (Flt.powi x 3) := fun x => FltPR.powi_nonneg x 3 (by norm_num)
  simp only [liftOkLab, C.ROL, C.ROM, C.ROS, C.ROR, C.ROG, C.ROB, FltPR.lit_eq, FltPR.mul_some, FltPR.add_some, FltPR.sub_some, FltPR.neg_some, e]
  exact as_non_linear_bridge ⟨_, _, _⟩

theorem xyz_from_oklab (q : OkLab ℝ) : Xyz.from_OkLab (liftOkLab q) = liftXyz (Xyz.from_OkLab q) := by
  unfold Xyz.from_OkLab; rw [srgb_from_oklab, xyz_from_srgb]

theorem xyz_from_oklch (q : OkLch ℝ) : Xyz.from_OkLch (liftOkLch q) = liftXyz (Xyz.from_OkLch q) := by
  unfold Xyz.from_OkLch; rw [oklab_from_oklch, xyz_from_oklab]

theorem xyz_from_xyy (q : Xyy ℝ) : Xyz.from_Xyy (liftXyy q) = liftXyz (Xyz.from_Xyy q) := by
  unfold Xyz.from_Xyy
  simp only [liftXyy, FltPR.lit_eq, FltPR.beq_some, FltReal.lit_eq, FltReal.beq_eq, decide_eq_true_eq]
  split_ifs with h
  · simp [Xyz.default, liftXyz]
  · have hy : q.y ≠ 0 := by intro h0; apply h; rw [h0]; norm_num
    simp only [FltPR.mul_some, FltPR.sub_some, FltPR.div_some _ _ hy, liftXyz]

theorem kakb_pos : 0 < (Hlab.get_ka_kb (α := ℝ)).1 ∧ 0 < (Hlab.get_ka_kb (α := ℝ)).2 := by
  simp only [Hlab.get_ka_kb, C.YN, C.XN, C.ZN, FltReal.lit_eq]
  constructor <;> norm_num

/-- `Xyz.from_Hlab` is defined for `0 ≤ l` (on `PR`, `powf` of a negative base is conservatively `none`;
IEEE `powf(x, 2.0)` is in fact finite for negative `x`, so the restriction is an artefact of the instance) -/
theorem xyz_from_hlab (q : Hlab ℝ) (hl : 0 ≤ q.l) : Xyz.from_Hlab (liftHlab q) = liftXyz (Xyz.from_Hlab q) := by
  unfold Xyz.from_Hlab
  rw [kakb_bridge]
  obtain ⟨ka, kb⟩ := kakb_pos
  generalize (Hlab.get_ka_kb (α := ℝ)) = kk at *
  have hYN : (0:ℝ) < (C.YN : ℝ) := by simp only [C.YN, FltReal.lit_eq]; norm_num
  have eYN : (C.YN : PR) = some (C.YN : ℝ) := by simp only [C.YN, FltPR.lit_eq, FltReal.lit_eq]
  have eXN : (C.XN : PR) = some (C.XN : ℝ) := by simp only [C.XN, FltPR.lit_eq, FltReal.lit_eq]
  have eZN : (C.ZN : PR) = some (C.ZN : ℝ) := by simp only [C.ZN, FltPR.lit_eq, FltReal.lit_eq]
  have e2 : (Flt.lit 0x4000000000000000 2 1 : PR) = some (Flt.lit 0x4000000000000000 2 1 : ℝ) := rfl
  have e100 : (Flt.lit 0x4059000000000000 100 1 : PR) = some (Flt.lit 0x4059000000000000 100 1 : ℝ) := rfl
  have e001 : (Flt.lit 0x3F847AE147AE147B 1 100 : PR) = some (Flt.lit 0x3F847AE147AE147B 1 100 : ℝ) := rfl
  have h2 : (0:ℝ) < (Flt.lit 0x4000000000000000 2 1 : ℝ) := by simp only [FltReal.lit_eq]; norm_num
  have h100 : (0:ℝ) ≤ (Flt.lit 0x4059000000000000 100 1 : ℝ) := by simp only [FltReal.lit_eq]; norm_num
  simp only [liftHlab, eYN, eXN, eZN, e2, e100, e001, FltPR.div_some _ _ hYN.ne', FltPR.pow_nonneg _ _ (div_nonneg hl hYN.le) h2,
    FltPR.mul_some]
  have hy5 : 0 ≤ (q.l / (C.YN : ℝ)) ^ (Flt.lit 0x4000000000000000 2 1 : ℝ) * (Flt.lit 0x4059000000000000 100 1 : ℝ) / (C.YN : ℝ) :=
    div_nonneg (mul_nonneg (Real.rpow_nonneg (div_nonneg hl hYN.le) _) h100) hYN.le
  simp only [FltPR.sqrt_nonneg _ hy5, FltPR.div_some _ _ ka.ne', FltPR.div_some _ _ kb.ne', FltPR.mul_some, FltPR.add_some,
    FltPR.sub_some, liftXyz]
  rfl

/-- For a negative `l` the `PR` reading of `Xyz.from_Hlab` is `none` in every field (conservative, see above) -/
theorem xyz_from_hlab_neg (q : Hlab ℝ) (hl : q.l < 0) : (Xyz.from_Hlab (liftHlab q)).y = none := by
  unfold Xyz.from_Hlab
  have hYN : (0:ℝ) < (C.YN : ℝ) := by simp only [C.YN, FltReal.lit_eq]; norm_num
  have eYN : (C.YN : PR) = some (C.YN : ℝ) := by simp only [C.YN, FltPR.lit_eq, FltReal.lit_eq]
  simp only [liftHlab, eYN, FltPR.div_some _ _ hYN.ne', FltPR.lit_eq, pow_neg_base _ _ (div_neg_of_neg_of_pos hl hYN)]
  rfl



theorem xyz_from_luv (q : Luv ℝ)
    (h0 : q.l = 0 → q.u = 0)
    (h2 : q.l ≠ 0 → q.v + 13 * q.l * (Luv.compute_compounds (C.D65 : ℝ × ℝ × ℝ).1 (C.D65 : ℝ × ℝ × ℝ).2.1 (C.D65 : ℝ × ℝ × ℝ).2.2).2 ≠ 0) :
    Xyz.from_Luv (liftLuv q) = liftXyz (Xyz.from_Luv q) := by
  unfold Xyz.from_Luv
  rw [compounds_white]
  generalize (Luv.compute_compounds (C.D65 : ℝ × ℝ × ℝ).1 (C.D65 : ℝ × ℝ × ℝ).2.1 (C.D65 : ℝ × ℝ × ℝ).2.2) = uv0 at *
  obtain ⟨l, u, v⟩ := q
  obtain ⟨ur, vr⟩ := uv0
  simp only at h0 h2
  by_cases hl : l = 0
  · have hu := h0 hl
    subst hl; subst hu
    simp [liftLuv, liftXyz, Xyz.default]
  · have d2 := h2 hl
    have e0 : ((0:ℕ):ℝ) / ((1:ℕ):ℝ) = 0 := by norm_num
    have h116 : ((116:ℕ):ℝ) / ((1:ℕ):ℝ) ≠ 0 := by norm_num
    have hk : ((9033:ℕ):ℝ) / ((10:ℕ):ℝ) ≠ 0 := by norm_num
    have h13 : ((13:ℕ):ℝ) / ((1:ℕ):ℝ) * l ≠ 0 := mul_ne_zero (by norm_num) hl
    have hvp : ((4:ℕ):ℝ) / ((1:ℕ):ℝ) * (v / (((13:ℕ):ℝ) / ((1:ℕ):ℝ) * l) + vr) ≠ 0 := by
      refine mul_ne_zero (by norm_num) ?_
      have : v / (((13:ℕ):ℝ) / ((1:ℕ):ℝ) * l) + vr = (v + 13 * l * vr) / (13 * l) := by
        field_simp; ring
      rw [this]
      exact div_ne_zero d2 (mul_ne_zero (by norm_num) hl)
    simp only [liftLuv, C.KAPPA, C.EPSILON, FltPR.lit_eq, FltPR.beq_some, FltPR.lt_some, FltPR.mul_some, FltPR.add_some, FltPR.sub_some,
      FltPR.neg_some, FltPR.div_some _ _ h116, FltPR.div_some _ _ hk, FltPR.div_some _ _ h13, FltPR.div_some _ _ hvp,
      FltPR.powi_nonneg _ 3 (by norm_num), FltReal.lit_eq, FltReal.beq_eq, FltReal.lt_eq, FltReal.powi_eq, decide_eq_true_eq, e0, hl, if_false,
      ite_self]
    split_ifs <;> rfl

/-- a genuine non-finite value outside the forward image: `l = 0` with `u ≠ 0` divides by `13·l = 0`.
Not reachable from an RGB colour (`l = 0` forces `u = 0`). -/
theorem xyz_from_luv_undefined : (Xyz.from_Luv (liftLuv ⟨0, 1, 1⟩)).x = none := by
  unfold Xyz.from_Luv
  rw [compounds_white]
  generalize (Luv.compute_compounds (C.D65 : ℝ × ℝ × ℝ).1 (C.D65 : ℝ × ℝ × ℝ).2.1 (C.D65 : ℝ × ℝ × ℝ).2.2) = uv0
  have hk : ((9033:ℕ):ℝ) / ((10:ℕ):ℝ) ≠ 0 := by norm_num
  have z : ((13:ℕ):ℝ) / ((1:ℕ):ℝ) * 0 = 0 := by norm_num
  simp only [liftLuv, C.KAPPA, C.EPSILON, FltPR.lit_eq, FltPR.beq_some, FltPR.lt_some, FltPR.mul_some, FltPR.add_some, FltPR.sub_some,
      FltPR.div_some _ _ hk, z, FltPR.div_zero]
  norm_num
  rfl

theorem luv_image_facts (p : Xyz ℝ) (h : (0 < p.x ∧ 0 < p.y ∧ 0 < p.z) ∨ (p.x = 0 ∧ p.y = 0 ∧ p.z = 0)) :
    ((Luv.from_Xyz p).l = 0 → (Luv.from_Xyz p).u = 0) ∧
    ((Luv.from_Xyz p).l ≠ 0 → (Luv.from_Xyz p).u + 13 * (Luv.from_Xyz p).l *
      (Luv.compute_compounds (C.D65 : ℝ × ℝ × ℝ).1 (C.D65 : ℝ × ℝ × ℝ).2.1 (C.D65 : ℝ × ℝ × ℝ).2.2).1 ≠ 0) ∧
    ((Luv.from_Xyz p).l ≠ 0 → (Luv.from_Xyz p).v + 13 * (Luv.from_Xyz p).l *
      (Luv.compute_compounds (C.D65 : ℝ × ℝ × ℝ).1 (C.D65 : ℝ × ℝ × ℝ).2.1 (C.D65 : ℝ × ℝ × ℝ).2.2).2 ≠ 0) := by
  unfold Luv.from_Xyz
  generalize (Luv.compute_compounds (C.D65 : ℝ × ℝ × ℝ).1 (C.D65 : ℝ × ℝ × ℝ).2.1 (C.D65 : ℝ × ℝ × ℝ).2.2) = uv0
  have key : (0 < p.x ∧ 0 < p.y ∧ 0 < p.z ∧ (Luv.compute_compounds p.x p.y p.z).1 ≠ 0 ∧ (Luv.compute_compounds p.x p.y p.z).2 ≠ 0) ∨ p.y = 0 := by
    rcases h with ⟨hx, hy, hz⟩ | ⟨_, hy, _⟩
    · left
      refine ⟨hx, hy, hz, ?_⟩
      unfold Luv.compute_compounds
      simp only [FltReal.lit_eq, FltReal.beq_eq, decide_eq_true_eq]
      rw [if_neg (by rw [show ((0:ℕ):ℝ) / ((1:ℕ):ℝ) = 0 by norm_num]; exact hx.ne')]
      constructor <;> (simp only []; positivity)
    · right; exact hy
  generalize (Luv.compute_compounds p.x p.y p.z) = uv at *
  simp only [C.D65, C.EPSILON, C.KAPPA, FltReal.lit_eq, FltReal.lt_eq, decide_eq_true_eq]
  have e13 : ((13:ℕ):ℝ) / ((1:ℕ):ℝ) = 13 := by norm_num
  rcases key with ⟨hx, hy, hz, k1, k2⟩ | hy
  · split_ifs <;> simp only [e13] <;> refine ⟨fun h => by rw [h]; ring, fun h => ?_, fun h => ?_⟩
    · rw [show ∀ L a b : ℝ, 13 * L * (a - b) + 13 * L * b = 13 * L * a from fun _ _ _ => by ring]
      exact mul_ne_zero (mul_ne_zero (by norm_num) h) k1
    · rw [show ∀ L a b : ℝ, 13 * L * (a - b) + 13 * L * b = 13 * L * a from fun _ _ _ => by ring]
      exact mul_ne_zero (mul_ne_zero (by norm_num) h) k2
    · rw [show ∀ L a b : ℝ, 13 * L * (a - b) + 13 * L * b = 13 * L * a from fun _ _ _ => by ring]
      exact mul_ne_zero (mul_ne_zero (by norm_num) h) k1
    · rw [show ∀ L a b : ℝ, 13 * L * (a - b) + 13 * L * b = 13 * L * a from fun _ _ _ => by ring]
      exact mul_ne_zero (mul_ne_zero (by norm_num) h) k2
  · rw [hy]
    rw [if_neg (by norm_num)]
    refine ⟨fun _ => by norm_num, fun h => absurd (by norm_num) h, fun h => absurd (by norm_num) h⟩

/-! ## Facts about forward images (exact-real side) used by the round trips -/

/-- the XYZ of a colour is the zero vector (black) or has three positive components -/
theorem xyz_pos_or_zero (c : Rgb) (k : XyzKind) :
    (0 < (Xyz.from_rgb c k : Xyz ℝ).x ∧ 0 < (Xyz.from_rgb c k : Xyz ℝ).y ∧ 0 < (Xyz.from_rgb c k : Xyz ℝ).z) ∨
    ((Xyz.from_rgb c k : Xyz ℝ).x = 0 ∧ (Xyz.from_rgb c k : Xyz ℝ).y = 0 ∧ (Xyz.from_rgb c k : Xyz ℝ).z = 0) := by
  have n255 : ∀ n : ℕ, (0:ℝ) ≤ (n : ℝ) / ((255:ℕ) / (1:ℕ)) := fun n => div_nonneg (Nat.cast_nonneg _) (by norm_num)
  have aux : ∀ r g b : ℝ, 0 ≤ r → 0 ≤ g → 0 ≤ b → (0 < r + g + b) ∨ (r = 0 ∧ g = 0 ∧ b = 0) := by
    intro r g b hr hg hb
    by_cases h : 0 < r + g + b
    · exact Or.inl h
    · exact Or.inr ⟨by linarith, by linarith, by linarith⟩
  cases k
  · have sr := srgb_expand_nonneg _ (n255 c.r)
    have sg := srgb_expand_nonneg _ (n255 c.g)
    have sb := srgb_expand_nonneg _ (n255 c.b)
    simp only [Xyz.from_rgb, Xyz.compute_xyz_from_matrix, Srgb.as_f64, Srgb.from_Rgb, Rgb.as_f64, FltReal.ofNat_eq, FltReal.lit_eq] at *
    generalize F64.compute_srgb_gamma_expanded ((c.r:ℝ) / ((255:ℕ) / (1:ℕ))) = r at *
    generalize F64.compute_srgb_gamma_expanded ((c.g:ℝ) / ((255:ℕ) / (1:ℕ))) = g at *
    generalize F64.compute_srgb_gamma_expanded ((c.b:ℝ) / ((255:ℕ) / (1:ℕ))) = b at *
    simp only [C.X50, C.Y50, C.Z50, FltReal.lit_eq, Nat.cast_ofNat]
    rcases aux r g b sr sg sb with h | ⟨h1, h2, h3⟩
    · left; refine ⟨?_, ?_, ?_⟩ <;> linarith
    · right; subst h1 h2 h3; norm_num
  · have sr := srgb_expand_nonneg _ (n255 c.r)
    have sg := srgb_expand_nonneg _ (n255 c.g)
    have sb := srgb_expand_nonneg _ (n255 c.b)
    simp only [Xyz.from_rgb, Xyz.compute_xyz_from_matrix, Srgb.as_f64, Srgb.from_Rgb, Rgb.as_f64, FltReal.ofNat_eq, FltReal.lit_eq] at *
    generalize F64.compute_srgb_gamma_expanded ((c.r:ℝ) / ((255:ℕ) / (1:ℕ))) = r at *
    generalize F64.compute_srgb_gamma_expanded ((c.g:ℝ) / ((255:ℕ) / (1:ℕ))) = g at *
    generalize F64.compute_srgb_gamma_expanded ((c.b:ℝ) / ((255:ℕ) / (1:ℕ))) = b at *
    simp only [C.X65, C.Y65, C.Z65, FltReal.lit_eq, Nat.cast_ofNat]
    rcases aux r g b sr sg sb with h | ⟨h1, h2, h3⟩
    · left; refine ⟨?_, ?_, ?_⟩ <;> linarith
    · right; subst h1 h2 h3; norm_num
  · have sr := argb_gamma_nonneg _ (n255 c.r)
    have sg := argb_gamma_nonneg _ (n255 c.g)
    have sb := argb_gamma_nonneg _ (n255 c.b)
    simp only [Xyz.from_rgb, Xyz.compute_xyz_from_matrix, Argb.as_f64, Argb.from_Rgb, Rgb.as_f64, FltReal.ofNat_eq, FltReal.lit_eq] at *
    generalize F64.compute_argb_gamma ((c.r:ℝ) / ((255:ℕ) / (1:ℕ))) = r at *
    generalize F64.compute_argb_gamma ((c.g:ℝ) / ((255:ℕ) / (1:ℕ))) = g at *
    generalize F64.compute_argb_gamma ((c.b:ℝ) / ((255:ℕ) / (1:ℕ))) = b at *
    simp only [C.AX, C.AY, C.AZ, FltReal.lit_eq, Nat.cast_ofNat]
    rcases aux r g b sr sg sb with h | ⟨h1, h2, h3⟩
    · left; refine ⟨?_, ?_, ?_⟩ <;> linarith
    · right; subst h1 h2 h3; norm_num

/-- on the exact-real side `pq_eotf` of a nonnegative number is nonnegative -/
theorem pq_eotf_real_nonneg (x : ℝ) (hx : 0 ≤ x) : 0 ≤ F64.pq_eotf x := by
  unfold F64.pq_eotf
  simp only [FltReal.lit_eq, FltReal.pow_eq, FltReal.beq_eq, FltReal.max_eq, decide_eq_true_eq]
  split_ifs
  · norm_num
  · refine mul_nonneg (by norm_num) (Real.rpow_nonneg (div_nonneg (le_max_of_le_right (by norm_num)) ?_) _)
    exact mul_nonneg (by norm_num) (Real.rpow_nonneg hx _)

/-- the Hunter `l` of a nonnegative `y` is nonnegative -/
theorem hlab_l_nonneg (p : Xyz ℝ) : 0 ≤ (Hlab.from_Xyz p).l := by
  unfold Hlab.from_Xyz
  simp only [FltReal.lit_eq, FltReal.beq_eq, FltReal.sqrt_eq, decide_eq_true_eq]
  split_ifs
  · norm_num
  · exact mul_nonneg (by norm_num) (Real.sqrt_nonneg _)

/-- the white-point compounds `(u_r, v_r)` are positive -/
theorem compounds_white_pos :
    0 < (Luv.compute_compounds (C.D65 : ℝ × ℝ × ℝ).1 (C.D65 : ℝ × ℝ × ℝ).2.1 (C.D65 : ℝ × ℝ × ℝ).2.2).1 ∧
    0 < (Luv.compute_compounds (C.D65 : ℝ × ℝ × ℝ).1 (C.D65 : ℝ × ℝ × ℝ).2.1 (C.D65 : ℝ × ℝ × ℝ).2.2).2 := by
  unfold Luv.compute_compounds
  simp only [C.D65, FltReal.lit_eq, FltReal.beq_eq, decide_eq_true_eq]
  rw [if_neg (by norm_num)]
  constructor <;> norm_num

end Lemmas.Defined
