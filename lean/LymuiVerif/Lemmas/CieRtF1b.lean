import LymuiVerif.Props.C06
import LymuiVerif.Lemmas.XyzDispatch
/-!
# code∘code round trips of CIELAB and CIELUV (used by Props.C02_cie)

`Lemmas.Cie` compares the library's shapes `fCode`, `revCode`, `yRevCode`, `lCodeLuv` with the EXACT CIE
functions.  Here the library's reverse shapes are composed with the library's own forward shapes:

* `revCode (fCode t)` is `t` above `0.008856` and `t·(116·7.787/903.3)` below — there is no mixed sliver for
  X and Z, because `(7.787·0.008856 + 16/116)³ < 0.008856`;
* the luminance has a sliver: the forward test is `y > 0.008856`, the reverse test `L > 0.008856·903.3`, and
  `116·0.008856^(1/3) − 16 < 7.9996248`; on `0.008856 < y ≤ 0.0088560364` the cube-root lightness is sent back
  through the linear branch (error `3.64e-8`).
-/
namespace Lemmas.CieRtF1b
open Gen Lemmas.Cie

/-- the largest value of the linear branch of `compute_f` has its cube below the threshold -/
theorem lin_cube_lt {t : ℝ} (h0 : 0 ≤ t) (h1 : t ≤ 1107 / 125000) :
    ¬ 1107 / 125000 < (t * (7787 / 1000) + 16 / 116 : ℝ) ^ 3 := by
  have hc0 : (0 : ℝ) ≤ t * (7787 / 1000) + 16 / 116 := by positivity
  have hc1 : t * (7787 / 1000) + 16 / 116 ≤ (1107 / 125000 * (7787 / 1000) + 16 / 116 : ℝ) := by linarith
  have := pow_le_pow_left₀ hc0 hc1 3
  have h3 : (1107 / 125000 * (7787 / 1000) + 16 / 116 : ℝ) ^ 3 < 1107 / 125000 := by norm_num
  linarith

/-- **exact form**: `reverse_compute_f (compute_f t)` is `t` above the threshold and
`t·(116·7.787/903.3)` below, for every `t ≥ 0` -/
theorem rev_fCode_eq {t : ℝ} (ht : 0 ≤ t) :
    revCode (fCode t) = if 1107 / 125000 < t then t else t * (116 * (7787 / 1000) / (9033 / 10)) := by
  unfold fCode
  split_ifs with h
  · rw [cbrt_of_nonneg ht]
    unfold revCode
    rw [rpow_third_pow ht, if_pos h]
  · unfold revCode
    rw [if_neg (lin_cube_lt ht (not_lt.mp h))]
    field_simp; ring

/-- `reverse_compute_f ∘ compute_f` is the identity within `7.85e-8` absolutely and `8.86e-6` relatively,
for every `t ≥ 0` -/
theorem rev_fCode_close {t : ℝ} (ht : 0 ≤ t) :
    |revCode (fCode t) - t| ≤ 785 / 10 ^ 10 ∧ |revCode (fCode t) - t| ≤ 886 / 10 ^ 8 * t := by
  rw [rev_fCode_eq ht]
  split_ifs with h
  · simp only [sub_self, abs_zero]
    exact ⟨by norm_num, by positivity⟩
  · have h' := not_lt.mp h
    have e : t * (116 * (7787 / 1000) / (9033 / 10)) - t = -(t * (8 / 903300)) := by ring
    rw [e, abs_neg, abs_of_nonneg (by positivity)]
    constructor <;> linarith

/-- the lightness sliver: for `s³ ∈ (0.008856, …]` with `116 s − 16 ≤ 7.9996248` the linear reverse branch
is within `3.7e-8` (absolute) and `4.2e-6` (relative) of `s³` -/
theorem lightness_sliver {s : ℝ} (h1 : 1107 / 125000 < s ^ 3) (h2 : 116 * s - 16 ≤ 79996248 / 10000000) :
    |(116 * s - 16) / (9033 / 10) - s ^ 3| ≤ 37 / 10 ^ 9 ∧
    |(116 * s - 16) / (9033 / 10) - s ^ 3| ≤ 42 / 10 ^ 7 * s ^ 3 := by
  have hs1 : 206893 / 1000000 ≤ s := lower_of_cube h1
  have hs2 : s ≤ 2068934 / 10000000 := by linarith
  obtain ⟨k1, k2⟩ := sliver hs1 (by linarith)
  have hs3 : s ^ 3 ≤ (2068934 / 10000000 : ℝ) ^ 3 := pow_le_pow_left₀ (by linarith) hs2 3
  have e : (116 * s - 16) / (9033 / 10) - s ^ 3 =
      -((24389 / 27 * s ^ 3 - 116 * s + 16) + (9033 / 10 - 24389 / 27) * s ^ 3) / (9033 / 10) := by
    field_simp; ring
  have hn : 0 ≤ ((24389 / 27 * s ^ 3 - 116 * s + 16) + (9033 / 10 - 24389 / 27) * s ^ 3) / (9033 / 10) := by
    apply div_nonneg _ (by norm_num)
    have : (0:ℝ) ≤ (9033 / 10 - 24389 / 27) * s ^ 3 := by
      apply mul_nonneg (by norm_num); linarith
    linarith
  rw [e, neg_div, abs_neg, abs_of_nonneg hn]
  constructor
  · rw [div_le_iff₀ (by norm_num)]
    norm_num at hs3 ⊢
    nlinarith
  · rw [div_le_iff₀ (by norm_num)]
    nlinarith

/-- CIELAB luminance: `yRevCode (116·fCode y − 16)` is within `7.9e-8` of `y` (and `8.86e-6·y`) for `y ≥ 0` -/
theorem yRev_fCode_close {y : ℝ} (hy : 0 ≤ y) :
    |yRevCode (116 * fCode y - 16) - y| ≤ 79 / 10 ^ 9 ∧
    |yRevCode (116 * fCode y - 16) - y| ≤ 886 / 10 ^ 8 * y := by
  unfold fCode
  split_ifs with h
  · rw [cbrt_of_nonneg hy]
    set s := y ^ ((1 : ℝ) / 3) with hs
    have hs3 : s ^ 3 = y := rpow_third_pow hy
    unfold yRevCode
    split_ifs with h2
    · have e : (116 * s - 16 + 16) / 116 = s := by ring
      rw [e, hs3]; simp only [sub_self, abs_zero]
      exact ⟨by norm_num, by positivity⟩
    · obtain ⟨k1, k2⟩ := lightness_sliver (s := s) (by rw [hs3]; exact h) (not_lt.mp h2)
      rw [hs3] at k1 k2
      exact ⟨k1.trans (by norm_num), k2.trans (by nlinarith)⟩
  · have h' := not_lt.mp h
    have e : 116 * (y * (7787 / 1000) + 16 / 116) - 16 = y * (903292 / 1000) := by ring
    unfold yRevCode
    rw [e, if_neg (by linarith)]
    have e2 : y * (903292 / 1000) / (9033 / 10) - y = -(y * (8 / 903300)) := by ring
    rw [e2, abs_neg, abs_of_nonneg (by positivity)]
    constructor <;> linarith

/-- CIELUV luminance: `yRevCode (lCodeLuv y)` is EXACTLY `y` outside the sliver `0.008856 < y ≤ 0.00885604`,
and within `3.7e-8` (relative `4.2e-6`) inside it -/
theorem yRev_lCodeLuv {y : ℝ} (hy : 0 ≤ y) :
    ((y ≤ 1107 / 125000 ∨ 885604 / 10 ^ 8 < y) → yRevCode (lCodeLuv y) = y) ∧
    |yRevCode (lCodeLuv y) - y| ≤ 37 / 10 ^ 9 ∧ |yRevCode (lCodeLuv y) - y| ≤ 42 / 10 ^ 7 * y := by
  unfold lCodeLuv
  split_ifs with h
  · set s := y ^ ((1 : ℝ) / 3) with hs
    have hs3 : s ^ 3 = y := rpow_third_pow hy
    have hs0 : 0 ≤ s := rpow_third_nonneg hy
    unfold yRevCode
    split_ifs with h2
    · have e : (116 * s - 16 + 16) / 116 = s := by ring
      rw [e, hs3]; simp only [sub_self, abs_zero]
      exact ⟨fun _ => trivial, by norm_num, by positivity⟩
    · obtain ⟨k1, k2⟩ := lightness_sliver (s := s) (by rw [hs3]; exact h) (not_lt.mp h2)
      rw [hs3] at k1 k2
      refine ⟨?_, k1, k2⟩
      rintro (h3 | h3)
      · linarith
      · exfalso
        have hs2 : s ≤ 239996248 / 1160000000 := by linarith [not_lt.mp h2]
        have := pow_le_pow_left₀ hs0 hs2 3
        rw [hs3] at this
        norm_num at this h3
        linarith
  · have h' := not_lt.mp h
    unfold yRevCode
    rw [if_neg (by linarith)]
    have e : 9033 / 10 * y / (9033 / 10) = y := by field_simp
    rw [e]; simp only [sub_self, abs_zero]
    exact ⟨fun _ => trivial, by norm_num, by positivity⟩

/-- the library's CIELUV lightness of a positive luminance is positive (so `13·L ≠ 0` in the reverse) -/
theorem lCodeLuv_pos {y : ℝ} (hy : 0 < y) : 0 < lCodeLuv y := by
  unfold lCodeLuv
  split_ifs with h
  · have := lt_rpow_third hy.le (q := 2 / 10) (by norm_num; linarith)
    linarith
  · positivity

/-! ## the generated code in terms of the shapes -/

/-- `Xyz::from(Lab::from(xyz))`, every real XYZ: componentwise the shapes, scaled by the D65 white -/
theorem lab_roundtrip_shape (x : Xyz ℝ) :
    Xyz.from_Lab (Lab.from_Xyz x) =
      ⟨95047 / 100000 * revCode (fCode (x.x / (95047 / 100000))),
       yRevCode (116 * fCode x.y - 16),
       108883 / 100000 * revCode (fCode (x.z / (108883 / 100000)))⟩ := by
  have hr : ∀ c : ℝ, Lab.reverse_compute_f c = revCode c := by
    intro c; simp [Lab.reverse_compute_f, revCode, C.EPSILON, C.KAPPA]
  have hf : ∀ c : ℝ, Lab.compute_f c = fCode c := by
    intro c; simp [Lab.compute_f, fCode]
  simp only [Xyz.from_Lab, Lab.from_Xyz, hr, hf, C.D65, C.EPSILON, C.KAPPA, FltReal.lit_eq, FltReal.lt_eq,
    FltReal.powi_eq, decide_eq_true_eq, Nat.cast_ofNat, div_one, Nat.cast_one, yRevCode]
  have e1 : (116 * fCode x.y - 16 + 16) / 116 = fCode x.y := by ring
  have e2 : ∀ A : ℝ, fCode x.y + 500 * (A - fCode x.y) / 500 = A := by intro A; ring
  have e3 : ∀ A : ℝ, fCode x.y - 200 * (fCode x.y - A) / 200 = A := by intro A; ring
  have ht : (1107 / 125000 * (9033 / 10) : ℝ) = 79996248 / 10000000 := by norm_num
  simp only [e1, e2, e3, ht, one_mul]
  split_ifs <;> rfl

open Props.C06 in
/-- `Xyz::from(Luv)` applied to `(L, 13L(u'−u'n), 13L(v'−v'n))` with `L ≠ 0`: the chromaticity comes back
exactly, so the result is `(X, Y, Z)·(y/Y)` with `y` the luminance recovered from `L`.
`L ≠ 0`, `Y ≠ 0`, `X + 15Y + 3Z ≠ 0` exclude every division by zero of the code (`13 L`, `4 vp`). -/
theorem from_luv_polar (L X Y Z : ℝ) (hL : L ≠ 0) (hY : Y ≠ 0) (hD : X + 15 * Y + 3 * Z ≠ 0) :
    Xyz.from_Luv ⟨L, 13 * L * (uPrime X Y Z - uPrime Xn Yn Zn), 13 * L * (vPrime X Y Z - vPrime Xn Yn Zn)⟩ =
      ⟨X * (yRevCode L / Y), yRevCode L, Z * (yRevCode L / Y)⟩ := by
  have ht : (9033 / 10 * (1107 / 125000) : ℝ) = 79996248 / 10000000 := by norm_num
  simp only [Xyz.from_Luv, luv_compounds_white, C.EPSILON, C.KAPPA, FltReal.lit_eq, FltReal.lt_eq, FltReal.beq_eq,
    FltReal.powi_eq, decide_eq_true_eq, Nat.cast_ofNat, div_one, Nat.cast_one, Nat.cast_zero, if_neg hL, ite_self, ht]
  have key := luv_rev_algebra (X := X) (Z := Z) (y := yRevCode L) (u0 := uPrime Xn Yn Zn)
    (v0 := vPrime Xn Yn Zn) hL hY hD
  unfold uPrime vPrime at key ⊢
  rw [← key.1, ← key.2]
  unfold yRevCode
  split_ifs <;> rfl

/-- `Xyz::from(Luv::from(xyz))` for `X, Z ≥ 0`, `Y > 0` -/
theorem luv_roundtrip_shape (x : Xyz ℝ) (hx : 0 ≤ x.x) (hy : 0 < x.y) (hz : 0 ≤ x.z) :
    Xyz.from_Luv (Luv.from_Xyz x) =
      ⟨x.x * (yRevCode (lCodeLuv x.y) / x.y), yRevCode (lCodeLuv x.y), x.z * (yRevCode (lCodeLuv x.y) / x.y)⟩ := by
  have hne : ¬ (x.x = 0 ∧ x.y = 0 ∧ x.z = 0) := fun h => hy.ne' h.2.1
  rw [Props.C06.luv_from_xyz_shape x hne]
  exact from_luv_polar _ _ _ _ (lCodeLuv_pos hy).ne' hy.ne' (by positivity)

/-! ## the XYZ of 8-bit colours -/

/-- on the sRGB cone `X ≤ 2.5·Y` and `Z ≤ 13.2·Y` (extreme: the blue primary) -/
theorem srgb_cone_ratios (c : Rgb) :
    (Xyz.from_rgb c XyzKind.D65 : Xyz ℝ).x ≤ 25 / 10 * (Xyz.from_rgb c XyzKind.D65 : Xyz ℝ).y ∧
    (Xyz.from_rgb c XyzKind.D65 : Xyz ℝ).z ≤ 132 / 10 * (Xyz.from_rgb c XyzKind.D65 : Xyz ℝ).y := by
  have hr := srgb_expanded_nonneg (v := (c.r : ℝ) / 255) (by positivity)
  have hg := srgb_expanded_nonneg (v := (c.g : ℝ) / 255) (by positivity)
  have hb := srgb_expanded_nonneg (v := (c.b : ℝ) / 255) (by positivity)
  simp only [Xyz.from_rgb, Xyz.compute_xyz_from_matrix, Srgb.as_f64, Srgb.from_Rgb, Rgb.as_f64, C.X65, C.Y65, C.Z65,
    FltReal.lit_eq, FltReal.ofNat_eq, Nat.cast_ofNat, div_one, Nat.cast_one]
  generalize (F64.compute_srgb_gamma_expanded ((c.r : ℝ) / 255) : ℝ) = r at hr
  generalize (F64.compute_srgb_gamma_expanded ((c.g : ℝ) / 255) : ℝ) = g at hg
  generalize (F64.compute_srgb_gamma_expanded ((c.b : ℝ) / 255) : ℝ) = b at hb
  constructor <;> linarith

open Lemmas.XyzDispatch Lemmas.Matrix in
/-- every 8-bit colour other than black has positive luminance -/
theorem y_pos_of_ne_black (c : Rgb) (h : ¬ (c.r = 0 ∧ c.g = 0 ∧ c.b = 0)) :
    0 < (Xyz.from_rgb c XyzKind.D65 : Xyz ℝ).y := by
  rw [from_rgb_eq]
  have r0 := dec_level_nonneg .D65 c.r
  have g0 := dec_level_nonneg .D65 c.g
  have b0 := dec_level_nonneg .D65 c.b
  have pos : ∀ n : ℕ, n ≠ 0 → 0 < dec .D65 ((n : ℝ) / 255) := by
    intro n hn
    have := dec_level_lt .D65 (Nat.pos_of_ne_zero hn)
    simpa [dec_zero] using this
  simp only [toXyz, mulVec, dot, lin, fwd, C.Y65, FltReal.lit_eq]
  by_cases h1 : c.r = 0
  · by_cases h2 : c.g = 0
    · have h3 : c.b ≠ 0 := fun h3 => h ⟨h1, h2, h3⟩
      have := pos _ h3
      norm_num; nlinarith
    · have := pos _ h2
      norm_num; nlinarith
  · have := pos _ h1
    norm_num; nlinarith

/-- an `Rgb` whose three channels are 0 is black -/
theorem eq_black_of_zero (c : Rgb) (h : c.r = 0 ∧ c.g = 0 ∧ c.b = 0) : c = ⟨0, 0, 0⟩ := by
  cases c; simp only at h; simp [h.1, h.2.1, h.2.2]

end Lemmas.CieRtF1b
