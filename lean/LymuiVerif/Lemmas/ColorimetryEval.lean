import LymuiVerif.Spec.Colorimetry
/-!
# Exact rational evaluation of the colourimetric specification matrices

The inverses were computed offline and are CHECKED here (`B * A = 1` entrywise by `norm_num`,
then `Matrix.inv_eq_left_inv`), so the specification keeps Mathlib's `⁻¹`.
-/
namespace Lemmas.ColorimetryEval
open Matrix Spec.Colorimetry

macro "mat_eval" : tactic =>
  `(tactic| (ext i j; fin_cases i <;> fin_cases j <;>
    norm_num [primXYZ, srgbPrimaries, adobePrimaries, whiteD65, whiteD50, bradford,
      Matrix.mul_apply, Fin.sum_univ_three, Matrix.cons_val_two, Matrix.vecHead, Matrix.vecTail,
      Matrix.mulVec, dotProduct, Matrix.diagonal,
      (by decide : ¬ (0 : Fin 3) = 1), (by decide : ¬ (0 : Fin 3) = 2), (by decide : ¬ (1 : Fin 3) = 0),
      (by decide : ¬ (1 : Fin 3) = 2), (by decide : ¬ (2 : Fin 3) = 0), (by decide : ¬ (2 : Fin 3) = 1)]))

theorem primXYZ_srgb_inv : (primXYZ srgbPrimaries)⁻¹ =
    !![286/415, -407/1245, -44/415;
      -863/1245, 5011/3735, 37/1245;
      1/249, -11/747, 19/249] := by
  apply Matrix.inv_eq_left_inv
  mat_eval

theorem primXYZ_adobe_inv : (primXYZ adobePrimaries)⁻¹ =
    !![183513/302300, -50787/302300, -30987/302300;
      -183819/302300, 355781/302300, 7881/302300;
      153/151150, -1347/151150, 11553/151150] := by
  apply Matrix.inv_eq_left_inv
  mat_eval

theorem bradford_inv : bradford⁻¹ =
    !![353346710000/358003292671, -52645908000/358003292671, 57267156000/358003292671;
      154766710000/358003292671, 185574684000/358003292671, 17646422000/358003292671;
      -3053290000/358003292671, 14335462000/358003292671, 346721426000/358003292671] := by
  apply Matrix.inv_eq_left_inv
  mat_eval

/-- sRGB primaries, D65 white -/
theorem rgbToXyz_srgb_D65 : rgbToXyz srgbPrimaries whiteD65 =
    !![962828/2334375, 26710933/74700000, 336967/1867500;
      2647777/12450000, 26710933/37350000, 336967/4668750;
      240707/12450000, 26710933/224100000, 26620393/28012500] := by
  rw [rgbToXyz, primXYZ_srgb_inv]
  mat_eval

/-- Adobe RGB (1998) primaries, D65 white -/
theorem rgbToXyz_adobe_D65 : rgbToXyz adobePrimaries whiteD65 =
    !![27241523/47234375, 560929593/3023000000, 113776749/604600000;
      898970259/3023000000, 1896476243/3023000000, 113776749/1511500000;
      81724569/3023000000, 26710933/377875000, 2996121057/3023000000] := by
  rw [rgbToXyz, primXYZ_adobe_inv]
  mat_eval

theorem adapt_D65_D50 : adapt whiteD65 whiteD50 =
    !![400318183691472045507058739413494174076/382051811443558483546721269219804813745, 8743867935919465337252000496421720674/382051811443558483546721269219804813745, -19151101970964190392372122681819320554/382051811443558483546721269219804813745;
      305046669764898879905497646080464098/10325724633609688744505980249183913885, 10227469204327428666167793809676904092/10325724633609688744505980249183913885, -176044266716735725545394513526527482/10325724633609688744505980249183913885;
      -3528053526547311119240739038650226004/382051811443558483546721269219804813745, 5747441046618931888041916891120146049/382051811443558483546721269219804813745, 287353253777079422057669872170881464151/382051811443558483546721269219804813745] := by
  rw [adapt, bradford_inv]
  mat_eval

/-- sRGB primaries, D65 white, Bradford-adapted to D50 -/
theorem rgbToXyz_srgb_D50 : adapt whiteD65 whiteD50 * rgbToXyz srgbPrimaries whiteD65 =
    !![1555656730751400704122503687996094072880325227/3567408789354227340117509851339927448343937500, 1831578553986354099660058839047131904082626383/4756545052472303120156679801786569931125250000, 255213128314983403510278765788770921649948201/1783704394677113670058754925669963724171968750;
      42906183759828005647629564869899070045483717/192832907532660937303649181153509591802375000, 15359753749247265780007100035254921473985339/21425878614740104144849909017056621311375000, 1461117503700942454494464495789528561377904/24104113441582617162956147644188698975296875;
      33134517678883844110636226151479842960344083/2378272526236151560078339900893284965562625000, 8313877781173637529510865777301038644586479989/85617810944501456162820236432158258760254500000, 7643244168987323840328389673428375465048843621/10702226368062682020352529554019782345031812500] := by
  rw [adapt_D65_D50, rgbToXyz_srgb_D65]
  mat_eval

/-- two matrices that agree up to `e` entrywise agree up to `3e` on the unit cube -/
theorem mulVec_close (G S : Mat3) (e : ℝ) (h : ∀ i j, |G i j - S i j| ≤ e) (l : Vec3)
    (hl : ∀ j, 0 ≤ l j ∧ l j ≤ 1) (i : Fin 3) : |(G *ᵥ l) i - (S *ᵥ l) i| ≤ 3 * e := by
  have he : 0 ≤ e := (abs_nonneg _).trans (h 0 0)
  obtain ⟨a0, b0⟩ := abs_le.mp (h i 0)
  obtain ⟨a1, b1⟩ := abs_le.mp (h i 1)
  obtain ⟨a2, b2⟩ := abs_le.mp (h i 2)
  obtain ⟨l0, l0'⟩ := hl 0
  obtain ⟨l1, l1'⟩ := hl 1
  obtain ⟨l2, l2'⟩ := hl 2
  simp only [Matrix.mulVec, dotProduct, Fin.sum_univ_three]
  rw [abs_le]
  constructor <;>
  nlinarith [mul_le_mul_of_nonneg_right b0 l0, mul_le_mul_of_nonneg_right b1 l1,
    mul_le_mul_of_nonneg_right b2 l2, mul_le_mul_of_nonneg_right a0 l0,
    mul_le_mul_of_nonneg_right a1 l1, mul_le_mul_of_nonneg_right a2 l2,
    mul_le_mul_of_nonneg_left l0' he, mul_le_mul_of_nonneg_left l1' he,
    mul_le_mul_of_nonneg_left l2' he]

end Lemmas.ColorimetryEval
