import LymuiVerif.Inst.Partial
import LymuiVerif.Lemmas.QuantB2
/-!
# Definedness (C04): the byte-valued reverse conversions

`Rgb.from_Hsl`, `Rgb.from_Hsv`, `Rgb.from_Hwb`, `Rgb.from_Cymk`, `Rgb.from_Yuv`, `Rgb.from_Ycbcr`,
`Xyz.as_rgb` are pure functions of the model (no `Res`: they cannot panic) and every channel they
return is a `u8`, for EVERY input of the partial carrier, non-finite fields included
(`as u8` saturates and maps NaN to 0).
-/
set_option linter.unusedSimpArgs false
set_option linter.unusedVariables false
namespace Lemmas.Defined
open Gen

/-- the channels fit a byte -/
def U8 (c : Rgb) : Prop := c.r ≤ 255 ∧ c.g ≤ 255 ∧ c.b ≤ 255

theorem toU8_le (x : PR) : Flt.toU8 x ≤ 255 := by
  cases x with
  | none => simp
  | some a => rw [FltPR.toU8_some]; exact Lemmas.QuantB2.toU8_le_255 a

theorem from_yuv_u8 (q : Yuv PR) : U8 (Rgb.from_Yuv q) := ⟨toU8_le _, toU8_le _, toU8_le _⟩
theorem from_cymk_u8 (q : Cymk PR) : U8 (Rgb.from_Cymk q) := ⟨toU8_le _, toU8_le _, toU8_le _⟩
theorem from_ycbcr_u8 (q : Ycbcr) : U8 (Rgb.from_Ycbcr PR q) := ⟨toU8_le _, toU8_le _, toU8_le _⟩
theorem as_rgb_u8 (p : Xyz PR) (k : XyzKind) : U8 (Xyz.as_rgb p k) := by
  cases k <;> exact ⟨toU8_le _, toU8_le _, toU8_le _⟩

theorem from_hsv_u8 (q : Hsv PR) : U8 (Rgb.from_Hsv q) := by
  unfold Rgb.from_Hsv
  simp only []
  split_ifs <;> first
    | exact ⟨toU8_le _, toU8_le _, toU8_le _⟩
    | exact ⟨Nat.zero_le _, Nat.zero_le _, Nat.zero_le _⟩

theorem from_hwb_u8 (q : Hwb PR) : U8 (Rgb.from_Hwb q) := from_hsv_u8 _

theorem from_hsl_u8 (q : Hsl PR) : U8 (Rgb.from_Hsl q) := by
  unfold Rgb.from_Hsl
  simp only []
  split_ifs <;> exact ⟨toU8_le _, toU8_le _, toU8_le _⟩

end Lemmas.Defined
