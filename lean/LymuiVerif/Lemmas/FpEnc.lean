import LymuiVerif.Lemmas.FpXyz
import LymuiVerif.Lemmas.FpLinear
import LymuiVerif.Props.C08
import LymuiVerif.Props.C08_rec2020
import LymuiVerif.Props.C07
import LymuiVerif.Props.C02_requant
/-!
# Rounded-arithmetic (`RF M`) analysis of the encoded RGB spaces and of OkLab

Helper lemmas for `Props/C08_fp.lean` and `Props/C07_fp.lean`; everything for an arbitrary `M : FPModel`.

* `srgb_enc_tight`, `rec709_enc_tight`, `rec2020_enc_tight`, `argb_enc_tight`: the generated encoders in
  `RF M` against the same encoders in ℝ, with a perturbed argument, WITHOUT the scaling by 255 of
  `FpXyz.srgb_enc_fp` and with the Lipschitz bound of the power branch away from 0 (`13·e + 1e-14`
  instead of the Hölder bound `3e-5`);
* structure of `Srgb.from_Xyz`, `Rec709.from_Xyz`, `Argb.from_Xyz`, `Rec2020.from_Xyz` in `RF M`;
* OkLab: relative-error calculus `RNear` (relative + absolute error of nonnegative quantities) through
  `max(·,0)^2.2` (`pow22_bright`, `pow22_dark`), the positive matrix `M1` (`posdot3`), the cube root
  (`cbrt_rel`, `lms_stage`) and the matrix `M2` (`oklab_core`); black (`oklab_black`); the two paths
  `oklab_xyz_close_all`, `oklab_direct_close`;
* Rec.2020: `rec2020_enc_quasi` (unconditional, with the jump of the specification OETF), `rec2020_fwd_fp`;
* reverse direction for sRGB: `srgb_dec_tight`, `srgb_roundtrip_fp`.
-/
namespace Lemmas.FpEnc
open Gen FpErr Lemmas.Matrix Lemmas.XyzDispatch Lemmas.FpXyz Lemmas.CurvesD2

section enc
variable (M : FPModel)

/-- three-term triangle inequality -/
theorem tri3 (a b c d : ℝ) : |a - d| ≤ |a - b| + |b - c| + |c - d| := by
  have e1 : a - d = (a - b) + (b - c) + (c - d) := by ring
  rw [e1]
  have t1 := abs_add_le ((a - b) + (b - c)) (c - d)
  have t2 := abs_add_le (a - b) (b - c)
  linarith

/-- `x^p`, `0 ≤ p ≤ 1`, is `p·x0^(p-1)`-Lipschitz on `[x0, ∞)` (absolute-value form of
`CurvesD2.rpow_sub_le`) -/
theorem rpow_lip_away {p x0 a b : ℝ} (hp0 : 0 ≤ p) (hp1 : p ≤ 1) (hx0 : 0 < x0) (ha : x0 ≤ a)
    (hb : x0 ≤ b) : |a ^ p - b ^ p| ≤ p * x0 ^ (p - 1) * |a - b| := by
  rcases le_total a b with h | h
  · obtain ⟨h1, h2⟩ := rpow_sub_le hp0 hp1 hx0 ha h
    rw [abs_sub_comm, abs_of_nonneg h1, abs_sub_comm, abs_of_nonneg (sub_nonneg.mpr h)]; exact h2
  · obtain ⟨h1, h2⟩ := rpow_sub_le hp0 hp1 hx0 hb h
    rw [abs_of_nonneg h1, abs_of_nonneg (sub_nonneg.mpr h)]; exact h2

/-- `M.pow` with a perturbed base away from 0 (both `b` and `x` at least `x0`, at most 2) and a perturbed
exponent `p' ≈ p ∈ [0.4, 0.5]`; `K` bounds the slope `p·x0^(p-1)` -/
theorem pow_enc_lip {b x p' p x0 K e : ℝ} (hx0 : 0 < x0) (hb0 : x0 ≤ b) (hb2 : b ≤ 2) (hxx : x0 ≤ x)
    (hbx : |b - x| ≤ e) (hp0 : 0.4 ≤ p) (hp1 : p ≤ 0.5) (hpp : |p' - p| ≤ FP.eps * 3)
    (hK : p * x0 ^ (p - 1) ≤ K) : |M.pow b p' - x ^ p| ≤ K * e + 5e-15 := by
  obtain ⟨hy1, hy2⟩ := abs_le.mp hpp
  have hbpos : 0 < b := lt_of_lt_of_le hx0 hb0
  have he0 : 0 ≤ e := le_trans (abs_nonneg _) hbx
  have hp'0 : 0.3 ≤ p' := by unfold FP.eps at *; linarith
  have hp'1 : p' ≤ 1 := by unfold FP.eps at *; linarith
  have hB : b ^ p' ≤ 2 := by
    calc b ^ p' ≤ (2:ℝ) ^ p' := Real.rpow_le_rpow hbpos.le hb2 (by linarith)
      _ ≤ (2:ℝ) ^ (1:ℝ) := Real.rpow_le_rpow_of_exponent_le (by norm_num) hp'1
      _ = 2 := Real.rpow_one 2
  have p1 := pow_close M hbpos.le hB (by norm_num)
  have p2 := rpow_exp_close (x := b) (q := p') (q' := p) (p := 0.3) hbpos hb2 (by norm_num) hp'0
    (by linarith) (by linarith) (by linarith) (by unfold FP.eps at *; exact hpp.trans (by norm_num))
  have p2' : |b ^ p' - b ^ p| ≤ FP.eps * 3 * (1 / 0.3 + 8) :=
    p2.trans (mul_le_mul_of_nonneg_right hpp (by norm_num))
  have p3 := rpow_lip_away (p := p) (by linarith) (by linarith) hx0 hb0 hxx
  have hK0 : 0 ≤ p * x0 ^ (p - 1) := mul_nonneg (by linarith) (Real.rpow_nonneg hx0.le _)
  have p3' : |b ^ p - x ^ p| ≤ K * e :=
    p3.trans (mul_le_mul hK hbx (abs_nonneg _) (le_trans hK0 hK))
  refine (tri3 (M.pow b p') (b ^ p') (b ^ p) (x ^ p)).trans ?_
  unfold FP.eps at *
  norm_num at p1 p2' ⊢
  linarith

/-- slope of `x^(5/12)` at the sRGB threshold, in the exponent form `pow_enc_lip` wants -/
theorem srgb_slope' : (1:ℝ) / (((12:ℕ):ℝ)/((5:ℕ):ℝ)) * (0.0031308:ℝ) ^ ((1:ℝ) / (((12:ℕ):ℝ)/((5:ℕ):ℝ)) - 1) ≤ 12.05 := by
  have := srgb_slope
  norm_num at this ⊢
  exact this

/-- **sRGB encoder in `RF M`, tight form**: if the computed linear value is within `e ≤ 1e-11` of the
real one, and the real one is away from the threshold `0.0031308`, the computed encoded value is within
`13·e + 1e-14` of the real encoder's value. -/
theorem srgb_enc_tight (a : RF M) (v e : ℝ) (hvv : |a.val - v| ≤ e) (he : e ≤ 1e-11)
    (hcase : v ≤ 0.0031 ∨ 0.0032 ≤ v) (hlo : -1 ≤ v) (hhi : v ≤ 1.1) :
    |(F64.apply_srgb_gamma_correction a).val - F64.apply_srgb_gamma_correction v| ≤ 13 * e + 1e-14 := by
  have he0 : 0 ≤ e := le_trans (abs_nonneg _) hvv
  obtain ⟨hv1, hv2⟩ := abs_le.mp hvv
  have l0 := lit_close M 7827 2500000 (B := 1) (by norm_num) (by norm_num)
  obtain ⟨l01, l02⟩ := abs_le.mp l0
  rcases hcase with hL | hP
  · have hc : a.val ≤ M.rnd (((7827:ℕ):ℝ) / ((2500000:ℕ):ℝ)) := by
      unfold FP.eps at *; push_cast at *; linarith
    rw [Lemmas.Curves.srgb_enc_lin (by linarith)]
    simp only [F64.apply_srgb_gamma_correction, FltRF.le_eq, FltRF.lit_val, hc, decide_true, if_true, FltRF.mul_val]
    have l1 := lit_close M 323 25 (B := 12.92) (by norm_num) (by norm_num)
    have bv : |v| ≤ 1 := by rw [abs_le]; constructor <;> linarith
    have m1 := mul_close M hvv l1 bv (By := 12.92) (by rw [abs_of_nonneg (by positivity)]; norm_num) (by norm_num)
    have e' : v * 12.92 = v * (((323:ℕ):ℝ) / ((25:ℕ):ℝ)) := by norm_num
    rw [e']
    refine m1.trans ?_
    unfold FP.eps
    nlinarith
  · have hc : ¬ a.val ≤ M.rnd (((7827:ℕ):ℝ) / ((2500000:ℕ):ℝ)) := by
      rw [not_le]; unfold FP.eps at *; push_cast at *; linarith
    rw [Lemmas.Curves.srgb_enc_pow (by linarith)]
    simp only [F64.apply_srgb_gamma_correction, FltRF.le_eq, FltRF.lit_val, hc, decide_false, if_false,
      FltRF.mul_val, FltRF.sub_val, FltRF.pow_val, FltRF.div_val, Bool.false_eq_true]
    have ip := inv_exp_close M 12 5 (by norm_num) (by norm_num)
    have ep : (1:ℝ) / 2.4 = 1 / (((12:ℕ):ℝ)/((5:ℕ):ℝ)) := by norm_num
    rw [ep]
    have hs := srgb_slope'
    generalize hp : (1:ℝ) / (((12:ℕ):ℝ)/((5:ℕ):ℝ)) = p at *
    have hp0 : 0.4 ≤ p := by rw [← hp]; norm_num
    have hp1 : p ≤ 0.5 := by rw [← hp]; norm_num
    have pw := pow_enc_lip M (b := a.val) (x := v) (x0 := 0.0031308) (K := 12.05) (e := e) (by norm_num)
      (by linarith) (by linarith) (by linarith) hvv hp0 hp1 ip hs
    have l2 := lit_close M 211 200 (B := 1.055) (by norm_num) (by norm_num)
    have l3 := lit_close M 11 200 (B := 1) (by norm_num) (by norm_num)
    have bp0 : 0 ≤ v ^ p := Real.rpow_nonneg (by linarith) p
    have bp : v ^ p ≤ 2 := by
      calc v ^ p ≤ (2:ℝ) ^ p := Real.rpow_le_rpow (by linarith) (by linarith) (by linarith)
        _ ≤ (2:ℝ) ^ (1:ℝ) := Real.rpow_le_rpow_of_exponent_le (by norm_num) (by linarith)
        _ = 2 := Real.rpow_one 2
    have bp' : |v ^ p| ≤ 2 := by rw [abs_of_nonneg bp0]; exact bp
    have m1 := mul_close M l2 pw (Bx := 1.055) (by rw [abs_of_nonneg (by positivity)]; norm_num) bp' (by norm_num)
    have bm : |((211:ℕ):ℝ) / ((200:ℕ):ℝ) * v ^ p - ((11:ℕ):ℝ) / ((200:ℕ):ℝ)| ≤ 3 := by
      rw [abs_le]; push_cast; constructor <;> nlinarith
    have s1 := sub_close M m1 l3 bm (by norm_num)
    have e' : 1.055 * v ^ p - 55e-3 =
        ((211:ℕ):ℝ) / ((200:ℕ):ℝ) * v ^ p - ((11:ℕ):ℝ) / ((200:ℕ):ℝ) := by norm_num
    rw [e']
    refine s1.trans ?_
    unfold FP.eps
    nlinarith

/-! ## structure of the XYZ → encoded-RGB conversions that use the D65 reverse rows -/

theorem srgb_from_xyz_fp (x : Xyz (RF M)) :
    Srgb.from_Xyz x =
      ⟨F64.apply_srgb_gamma_correction (rlinF M .D65 (x.x, x.y, x.z)).1,
       F64.apply_srgb_gamma_correction (rlinF M .D65 (x.x, x.y, x.z)).2.1,
       F64.apply_srgb_gamma_correction (rlinF M .D65 (x.x, x.y, x.z)).2.2⟩ := rfl

theorem rec709_from_xyz_fp (x : Xyz (RF M)) :
    Rec709.from_Xyz x =
      ⟨F64.compute_rec709_gamma_correction (rlinF M .D65 (x.x, x.y, x.z)).1,
       F64.compute_rec709_gamma_correction (rlinF M .D65 (x.x, x.y, x.z)).2.1,
       F64.compute_rec709_gamma_correction (rlinF M .D65 (x.x, x.y, x.z)).2.2⟩ := rfl

theorem srgb_from_xyz_real (w : V3) :
    Srgb.from_Xyz (toXyz w) =
      ⟨F64.apply_srgb_gamma_correction (mulVec (rev .D65) w).1,
       F64.apply_srgb_gamma_correction (mulVec (rev .D65) w).2.1,
       F64.apply_srgb_gamma_correction (mulVec (rev .D65) w).2.2⟩ := by
  simp [Srgb.from_Xyz, toXyz, mulVec, dot, rev, mul_comm]

theorem rec709_from_xyz_real (w : V3) :
    Rec709.from_Xyz (toXyz w) =
      ⟨F64.compute_rec709_gamma_correction (mulVec (rev .D65) w).1,
       F64.compute_rec709_gamma_correction (mulVec (rev .D65) w).2.1,
       F64.compute_rec709_gamma_correction (mulVec (rev .D65) w).2.2⟩ := by
  simp [Rec709.from_Xyz, toXyz, mulVec, dot, rev, mul_comm]

/-- the real linear-light values `R·(M·lin c)` of the D65 round trip -/
noncomputable def tlin (k : XyzKind) (c : Rgb) : V3 := mulVec (rev k) (mulVec (fwd k) (lin k c))

/-- **sRGB forward in `RF M` against the exact-real model**, each channel within `4e-11` -/
theorem srgb_fwd_close (c : Rgb) (hr : c.r ≤ 255) (hg : c.g ≤ 255) (hb : c.b ≤ 255) :
    |(Srgb.from_Xyz (Xyz.from_rgb (α := RF M) c .D65)).r.val - (Srgb.from_Xyz (Xyz.from_rgb (α := ℝ) c .D65)).r| ≤ 4e-11 ∧
    |(Srgb.from_Xyz (Xyz.from_rgb (α := RF M) c .D65)).g.val - (Srgb.from_Xyz (Xyz.from_rgb (α := ℝ) c .D65)).g| ≤ 4e-11 ∧
    |(Srgb.from_Xyz (Xyz.from_rgb (α := RF M) c .D65)).b.val - (Srgb.from_Xyz (Xyz.from_rgb (α := ℝ) c .D65)).b| ≤ 4e-11 := by
  obtain ⟨q1, q2, q3⟩ := rlin_fp_close M .D65 c hr hg hb
  have hl := fun j => roundtrip_lin .D65 (lin .D65 c) j (dec_level_nonneg .D65 c.r) (dec_level_le_one .D65 hr)
    (dec_level_nonneg .D65 c.g) (dec_level_le_one .D65 hg) (dec_level_nonneg .D65 c.b) (dec_level_le_one .D65 hb)
  have l1 := hl 0
  have l2 := hl 1
  have l3 := hl 2
  simp only [V3.get] at l1 l2 l3
  rw [from_rgb_eq, srgb_from_xyz_real, from_rgb_eq_fp', srgb_from_xyz_fp]
  dsimp only
  obtain ⟨g1, g2, g3⟩ := srgb_lin_gap c.r hr _ l1
  obtain ⟨g1', g2', g3'⟩ := srgb_lin_gap c.g hg _ l2
  obtain ⟨g1'', g2'', g3''⟩ := srgb_lin_gap c.b hb _ l3
  exact ⟨(srgb_enc_tight M _ _ _ q1 (by norm_num) g1 g2 g3).trans (by norm_num),
    (srgb_enc_tight M _ _ _ q2 (by norm_num) g1' g2' g3').trans (by norm_num),
    (srgb_enc_tight M _ _ _ q3 (by norm_num) g1'' g2'' g3'').trans (by norm_num)⟩

/-! ## BT.709 OETF in `RF M` -/

theorem bt709_slope' : ((9:ℕ):ℝ) / ((20:ℕ):ℝ) * (0.018:ℝ) ^ (((9:ℕ):ℝ) / ((20:ℕ):ℝ) - 1) ≤ 4.11 := by
  have := bt709_slope
  norm_num at this ⊢
  exact this

/-- **BT.709 OETF in `RF M`, tight form** (argument away from the threshold `0.018`): `4.6·e + 1e-14` -/
theorem rec709_enc_tight (a : RF M) (v e : ℝ) (hvv : |a.val - v| ≤ e) (he : e ≤ 1e-11)
    (hcase : v ≤ 0.0179 ∨ 0.0181 ≤ v) (hlo : -1 ≤ v) (hhi : v ≤ 1.1) :
    |(F64.compute_rec709_gamma_correction a).val - F64.compute_rec709_gamma_correction v| ≤ 4.6 * e + 1e-14 := by
  have he0 : 0 ≤ e := le_trans (abs_nonneg _) hvv
  obtain ⟨hv1, hv2⟩ := abs_le.mp hvv
  have l0 := lit_close M 9 500 (B := 1) (by norm_num) (by norm_num)
  obtain ⟨l01, l02⟩ := abs_le.mp l0
  rw [Props.C08.rec709_encode_is_bt709]
  unfold Props.C08.oetf709
  rcases hcase with hL | hP
  · have hc : a.val < M.rnd (((9:ℕ):ℝ) / ((500:ℕ):ℝ)) := by
      unfold FP.eps at *; push_cast at *; linarith
    rw [if_pos (by linarith)]
    simp only [F64.compute_rec709_gamma_correction, FltRF.lt_eq, FltRF.lit_val, hc, decide_true, if_true, FltRF.mul_val]
    have l1 := lit_close M 9 2 (B := 4.5) (by norm_num) (by norm_num)
    have bv : |v| ≤ 1.1 := by rw [abs_le]; constructor <;> linarith
    have m1 := mul_close M hvv l1 bv (By := 4.5) (by rw [abs_of_nonneg (by positivity)]; norm_num) (by norm_num)
    have e' : 4.5 * v = v * (((9:ℕ):ℝ) / ((2:ℕ):ℝ)) := by norm_num; ring
    rw [e']
    refine m1.trans ?_
    unfold FP.eps
    nlinarith
  · have hc : ¬ a.val < M.rnd (((9:ℕ):ℝ) / ((500:ℕ):ℝ)) := by
      rw [not_lt]; unfold FP.eps at *; push_cast at *; linarith
    rw [if_neg (by linarith)]
    simp only [F64.compute_rec709_gamma_correction, FltRF.lt_eq, FltRF.lit_val, hc, decide_false, if_false,
      FltRF.mul_val, FltRF.sub_val, FltRF.pow_val, Bool.false_eq_true]
    have ip := lit_close M 9 20 (B := 3) (by norm_num) (by norm_num)
    have ep : (0.45:ℝ) = ((9:ℕ):ℝ) / ((20:ℕ):ℝ) := by norm_num
    rw [ep]
    have hs := bt709_slope'
    generalize hp : ((9:ℕ):ℝ) / ((20:ℕ):ℝ) = p at *
    have hp0 : 0.4 ≤ p := by rw [← hp]; norm_num
    have hp1 : p ≤ 0.5 := by rw [← hp]; norm_num
    have pw := pow_enc_lip M (b := a.val) (x := v) (x0 := 0.018) (K := 4.11) (e := e) (by norm_num)
      (by linarith) (by linarith) (by linarith) hvv hp0 hp1 ip hs
    have l2 := lit_close M 1099 1000 (B := 1.099) (by norm_num) (by norm_num)
    have l3 := lit_close M 99 1000 (B := 1) (by norm_num) (by norm_num)
    have bp0 : 0 ≤ v ^ p := Real.rpow_nonneg (by linarith) p
    have bp : v ^ p ≤ 2 := by
      calc v ^ p ≤ (2:ℝ) ^ p := Real.rpow_le_rpow (by linarith) (by linarith) (by linarith)
        _ ≤ (2:ℝ) ^ (1:ℝ) := Real.rpow_le_rpow_of_exponent_le (by norm_num) (by linarith)
        _ = 2 := Real.rpow_one 2
    have bp' : |v ^ p| ≤ 2 := by rw [abs_of_nonneg bp0]; exact bp
    have m1 := mul_close M l2 pw (Bx := 1.099) (by rw [abs_of_nonneg (by positivity)]; norm_num) bp' (by norm_num)
    have bm : |((1099:ℕ):ℝ) / ((1000:ℕ):ℝ) * v ^ p - ((99:ℕ):ℝ) / ((1000:ℕ):ℝ)| ≤ 3 := by
      rw [abs_le]; push_cast; constructor <;> nlinarith
    have s1 := sub_close M m1 l3 bm (by norm_num)
    have e' : 1.099 * v ^ p - 0.099 =
        ((1099:ℕ):ℝ) / ((1000:ℕ):ℝ) * v ^ p - ((99:ℕ):ℝ) / ((1000:ℕ):ℝ) := by norm_num
    rw [e']
    refine s1.trans ?_
    unfold FP.eps
    nlinarith

/-- the real linear value of the D65 round trip is away from the BT.709 threshold `0.018` -/
theorem rec709_lin_gap (n : ℕ) (hn : n ≤ 255) (v : ℝ)
    (hv : |v - F64.compute_srgb_gamma_expanded ((n:ℝ)/255)| ≤ 3e-7) :
    (v ≤ 0.0179 ∨ 0.0181 ≤ v) ∧ -1 ≤ v ∧ v ≤ 1.1 := by
  obtain ⟨hv1, hv2⟩ := abs_le.mp hv
  have h01 := dec_level_le_one .D65 hn
  have h00 := dec_level_nonneg .D65 n
  simp only [dec] at h01 h00
  refine ⟨?_, by linarith, by linarith⟩
  obtain ⟨lo, hi⟩ := Props.C08.decSrgb_8bit_avoids_bt709_threshold n
  rw [← Props.C08.srgb_decode_is_iec] at lo hi
  rcases Nat.lt_or_ge n 37 with h | h
  · left; have := lo (Nat.lt_succ_iff.mp h); linarith
  · right; have := hi h; linarith

/-- **Rec.709 forward in `RF M` against the exact-real model**, each channel within `2e-11` -/
theorem rec709_fwd_close (c : Rgb) (hr : c.r ≤ 255) (hg : c.g ≤ 255) (hb : c.b ≤ 255) :
    |(Rec709.from_Xyz (Xyz.from_rgb (α := RF M) c .D65)).r.val - (Rec709.from_Xyz (Xyz.from_rgb (α := ℝ) c .D65)).r| ≤ 2e-11 ∧
    |(Rec709.from_Xyz (Xyz.from_rgb (α := RF M) c .D65)).g.val - (Rec709.from_Xyz (Xyz.from_rgb (α := ℝ) c .D65)).g| ≤ 2e-11 ∧
    |(Rec709.from_Xyz (Xyz.from_rgb (α := RF M) c .D65)).b.val - (Rec709.from_Xyz (Xyz.from_rgb (α := ℝ) c .D65)).b| ≤ 2e-11 := by
  obtain ⟨q1, q2, q3⟩ := rlin_fp_close M .D65 c hr hg hb
  have hl := fun j => roundtrip_lin .D65 (lin .D65 c) j (dec_level_nonneg .D65 c.r) (dec_level_le_one .D65 hr)
    (dec_level_nonneg .D65 c.g) (dec_level_le_one .D65 hg) (dec_level_nonneg .D65 c.b) (dec_level_le_one .D65 hb)
  have l1 := hl 0
  have l2 := hl 1
  have l3 := hl 2
  simp only [V3.get] at l1 l2 l3
  rw [from_rgb_eq, rec709_from_xyz_real, from_rgb_eq_fp', rec709_from_xyz_fp]
  dsimp only
  obtain ⟨g1, g2, g3⟩ := rec709_lin_gap c.r hr _ l1
  obtain ⟨g1', g2', g3'⟩ := rec709_lin_gap c.g hg _ l2
  obtain ⟨g1'', g2'', g3''⟩ := rec709_lin_gap c.b hb _ l3
  exact ⟨(rec709_enc_tight M _ _ _ q1 (by norm_num) g1 g2 g3).trans (by norm_num),
    (rec709_enc_tight M _ _ _ q2 (by norm_num) g1' g2' g3').trans (by norm_num),
    (rec709_enc_tight M _ _ _ q3 (by norm_num) g1'' g2'' g3'').trans (by norm_num)⟩

/-! ## Adobe RGB (1998): `Argb.from_Xyz` uses its own 6-digit rows `C.argb_XR, C.YG, C.ZB` -/

theorem argb_rows : RowOK M (C.argb_XR) (C.argb_XR) ∧ RowOK M (C.YG) (C.YG) ∧ RowOK M (C.ZB) (C.ZB) := by
  simp only [RowOK, C.argb_XR, C.YG, C.ZB]
  refine ⟨⟨?_, ?_, ?_⟩, ⟨?_, ?_, ?_⟩, ⟨?_, ?_, ?_⟩⟩ <;>
  first
    | (apply coef_lit; norm_num)
    | (apply coef_neg; apply coef_lit; norm_num)

theorem argb_from_xyz_fp (x : Xyz (RF M)) :
    Argb.from_Xyz x =
      ⟨F64.compute_argb_gamma_expanded (dotF' M (x.x, x.y, x.z) C.argb_XR),
       F64.compute_argb_gamma_expanded (dotF' M (x.x, x.y, x.z) C.YG),
       F64.compute_argb_gamma_expanded (dotF' M (x.x, x.y, x.z) C.ZB)⟩ := rfl

set_option exponentiation.threshold 600 in
theorem holder_adobe : (1.024e-6 : ℝ) ^ (1 / Props.C08.adobeGamma) ≤ 1.9e-3 := by
  have h3 : (1.024e-6 : ℝ) ^ (1 / Props.C08.adobeGamma) ≤ (1.024e-6 : ℝ) ^ (((5:ℕ):ℝ) / ((11:ℕ):ℝ)) :=
    Real.rpow_le_rpow_of_exponent_ge (by norm_num) (by norm_num) (by unfold Props.C08.adobeGamma; norm_num)
  have h4 : (1.024e-6 : ℝ) ^ (((5:ℕ):ℝ) / ((11:ℕ):ℝ)) ≤ 1.9e-3 :=
    rpow_div_le 5 11 (by norm_num) (by norm_num) (by norm_num) (by norm_num)
  linarith

/-- **Adobe encoder in `RF M` on a perturbed linear value** `l ∈ [0,1]` (`|a − l| ≤ 2.32e-4·l + 5.6e-7`:
the 6-digit matrix error of `Props.C08.argb_matrix_forward` plus the rounding error of the matrix
product): within `1.91e-3` of `l^(1/γ)`; Hölder near 0, relative perturbation elsewhere. -/
theorem argb_enc_perturb_fp (a : RF M) (l : ℝ) (hl0 : 0 ≤ l) (hl1 : l ≤ 1)
    (ht : |a.val - l| ≤ 2.32e-4 * l + 5.6e-7) :
    |(F64.compute_argb_gamma_expanded a).val - Props.C08.encAdobe l| ≤ 1.91e-3 := by
  have ht' := abs_le.mp ht
  have z : M.rnd (((0:ℕ):ℝ) / ((1:ℕ):ℝ)) = 0 := by
    have := lit_int M 0 (by norm_num); simpa using this
  have ip := inv_exp_close M 563 256 (by norm_num) (by norm_num)
  have hh := holder_adobe
  unfold Props.C08.encAdobe
  have hgam : (1:ℝ) / Props.C08.adobeGamma = 1 / (((563:ℕ):ℝ)/((256:ℕ):ℝ)) := by
    unfold Props.C08.adobeGamma; norm_num
  rw [hgam] at hh ⊢
  generalize hp : (1:ℝ) / (((563:ℕ):ℝ)/((256:ℕ):ℝ)) = p at *
  have hp0 : 0.4 ≤ p := by rw [← hp]; norm_num
  have hp1 : p ≤ 0.5 := by rw [← hp]; norm_num
  have hlp0 : 0 ≤ l ^ p := Real.rpow_nonneg hl0 p
  have hlp1 : l ^ p ≤ 1 := Real.rpow_le_one hl0 hl1 (by linarith)
  by_cases hc : a.val ≤ 0
  · simp only [F64.compute_argb_gamma_expanded, FltRF.le_eq, FltRF.lit_val, z, hc, decide_true, if_true]
    have hx : l ≤ 1.024e-6 := by nlinarith
    have : l ^ p ≤ 1.9e-3 := (Real.rpow_le_rpow hl0 hx (by linarith)).trans hh
    rw [zero_sub, abs_neg, abs_of_nonneg hlp0]
    linarith
  · have hpos : 0 < a.val := not_le.mp hc
    simp only [F64.compute_argb_gamma_expanded, FltRF.le_eq, FltRF.lit_val, z, hc, decide_false, if_false,
      FltRF.pow_val, FltRF.div_val, Bool.false_eq_true]
    obtain ⟨hy1, hy2⟩ := abs_le.mp ip
    have hp'0 : 0.3 ≤ M.rnd (M.rnd (((1:ℕ):ℝ) / ((1:ℕ):ℝ)) / M.rnd (((563:ℕ):ℝ) / ((256:ℕ):ℝ))) := by
      unfold FP.eps at *; linarith
    have hp'1 : M.rnd (M.rnd (((1:ℕ):ℝ) / ((1:ℕ):ℝ)) / M.rnd (((563:ℕ):ℝ) / ((256:ℕ):ℝ))) ≤ 1 := by
      unfold FP.eps at *; linarith
    generalize M.rnd (M.rnd (((1:ℕ):ℝ) / ((1:ℕ):ℝ)) / M.rnd (((563:ℕ):ℝ) / ((256:ℕ):ℝ))) = p' at *
    have ha2 : a.val ≤ 2 := by linarith
    have hB : a.val ^ p' ≤ 2 := by
      calc a.val ^ p' ≤ (2:ℝ) ^ p' := Real.rpow_le_rpow hpos.le ha2 (by linarith)
        _ ≤ (2:ℝ) ^ (1:ℝ) := Real.rpow_le_rpow_of_exponent_le (by norm_num) hp'1
        _ = 2 := Real.rpow_one 2
    have p1 := pow_close M hpos.le hB (by norm_num)
    have p2 := rpow_exp_close (x := a.val) (q := p') (q' := p) (p := 0.3) hpos ha2 (by norm_num) hp'0
      (by linarith) (by linarith) (by linarith) (by unfold FP.eps at *; exact ip.trans (by norm_num))
    have p2' : |a.val ^ p' - a.val ^ p| ≤ FP.eps * 3 * (1 / 0.3 + 8) :=
      p2.trans (mul_le_mul_of_nonneg_right ip (by norm_num))
    have p3 : |a.val ^ p - l ^ p| ≤ 1.9e-3 := by
      rcases le_or_gt l 2e-3 with h | h
      · have hm : |a.val - l| ≤ 1.024e-6 := le_trans ht (by linarith)
        have h1 := Lemmas.CurvesD2.rpow_holder (p := p) (by linarith) (by linarith) hpos.le hl0
        have h2 : |a.val - l| ^ p ≤ (1.024e-6 : ℝ) ^ p := Real.rpow_le_rpow (abs_nonneg _) hm (by linarith)
        linarith
      · have hrel : |a.val - l| ≤ 5.12e-4 * l := le_trans ht (by linarith)
        have h1 := rpow_rel_perturb (p := p) (by linarith) (by linarith) (by linarith : 0 < l) hpos hrel
        nlinarith
    refine (tri3 (M.pow a.val p') (a.val ^ p') (a.val ^ p) (l ^ p)).trans ?_
    unfold FP.eps at *
    norm_num at p1 p2' ⊢
    linarith

theorem dot_eq_c08 (m v : V3) : dot m v = Props.C08.dot m v.1 v.2.1 v.2.2 := by
  simp only [dot, Props.C08.dot]; ring

theorem lin_adobe (c : Rgb) :
    lin .Adobe c = (Props.C08.decAdobe ((c.r:ℝ) / 255), Props.C08.decAdobe ((c.g:ℝ) / 255),
      Props.C08.decAdobe ((c.b:ℝ) / 255)) := by
  simp only [lin, dec, Props.C08.adobe_decode_is_spec _ (level_nonneg _)]

/-- **Adobe RGB forward in `RF M`**: XYZ(c, Adobe) → Adobe RGB returns c/255 within `1.91e-3` -/
theorem argb_fwd_fp (c : Rgb) (hr : c.r ≤ 255) (hg : c.g ≤ 255) (hb : c.b ≤ 255) :
    |(Argb.from_Xyz (Xyz.from_rgb (α := RF M) c .Adobe)).r.val - (c.r : ℝ) / 255| ≤ 1.91e-3 ∧
    |(Argb.from_Xyz (Xyz.from_rgb (α := RF M) c .Adobe)).g.val - (c.g : ℝ) / 255| ≤ 1.91e-3 ∧
    |(Argb.from_Xyz (Xyz.from_rgb (α := RF M) c .Adobe)).b.val - (c.b : ℝ) / 255| ≤ 1.91e-3 := by
  obtain ⟨f1, f2, f3⟩ := xyz_fp_close M .Adobe c hr hg hb
  have b1 := xyz_range .Adobe c hr hg hb 0
  have b2 := xyz_range .Adobe c hr hg hb 1
  have b3 := xyz_range .Adobe c hr hg hb 2
  simp only [V3.get] at b1 b2 b3
  obtain ⟨r1, r2, r3⟩ := argb_rows M
  have q1 := dot3_close' M r1 (v := xyzF M .Adobe c) (x := mulVec (fwd .Adobe) (lin .Adobe c)) f1 f2 f3 b1 b2 b3 (by norm_num)
  have q2 := dot3_close' M r2 (v := xyzF M .Adobe c) (x := mulVec (fwd .Adobe) (lin .Adobe c)) f1 f2 f3 b1 b2 b3 (by norm_num)
  have q3 := dot3_close' M r3 (v := xyzF M .Adobe c) (x := mulVec (fwd .Adobe) (lin .Adobe c)) f1 f2 f3 b1 b2 b3 (by norm_num)
  have u : ∀ k : ℕ, k ≤ 255 → 0 ≤ Props.C08.decAdobe ((k:ℝ) / 255) ∧ Props.C08.decAdobe ((k:ℝ) / 255) ≤ 1 := by
    intro k hk
    exact Props.C08.decAdobe_unit _ (level_nonneg k) (level_le_one hk)
  obtain ⟨m1, m2, m3⟩ := Props.C08.argb_matrix_forward _ _ _ (u _ hr) (u _ hg) (u _ hb)
  rw [dot_eq_c08, lin_adobe] at q1 q2 q3
  simp only [mulVec, fwd, dot_eq_c08] at q1 q2 q3
  rw [from_rgb_eq_fp', argb_from_xyz_fp]
  dsimp only
  have key : ∀ (k : ℕ) (a : RF M) (t : ℝ), k ≤ 255 → |a.val - t| ≤ 13 * 2e-13 + 2e-14 →
      |t - Props.C08.decAdobe ((k:ℝ) / 255)| ≤ 2.32e-4 * Props.C08.decAdobe ((k:ℝ) / 255) + 5.5e-7 →
      |(F64.compute_argb_gamma_expanded a).val - (k:ℝ) / 255| ≤ 1.91e-3 := by
    intro k a t hk hat ht
    have h := argb_enc_perturb_fp M a _ (u k hk).1 (u k hk).2 (by
      have := abs_sub_le a.val t (Props.C08.decAdobe ((k:ℝ) / 255))
      linarith)
    rwa [Props.C08.adobe_enc_dec _ (level_nonneg k)] at h
  exact ⟨key _ _ _ hr q1 m1, key _ _ _ hg q2 m2, key _ _ _ hb q3 m3⟩

end enc
/-! ## OkLab: relative-error calculus for nonnegative quantities -/
section oklab
variable (M : FPModel)

/-- `a` approximates the nonnegative `x` with relative error `κ ≤ 1` plus absolute error `α` -/
structure RNear (a x κ α : ℝ) : Prop where
  err : |a - x| ≤ κ * x + α
  nn : 0 ≤ x
  kn : 0 ≤ κ
  k1 : κ ≤ 1
  an : 0 ≤ α

theorem RNear.abs_le {a x κ α : ℝ} (h : RNear a x κ α) : |a| ≤ 2 * x + α := by
  have h1 := abs_sub_abs_le_abs_sub a x
  rw [abs_of_nonneg h.nn] at h1
  have h2 := h.err
  nlinarith [h.nn, h.k1, h.kn]

theorem RNear.mono {a x κ α κ' α' : ℝ} (h : RNear a x κ α) (hk : κ ≤ κ') (hk1 : κ' ≤ 1) (ha : α ≤ α') :
    RNear a x κ' α' :=
  ⟨h.err.trans (by nlinarith [h.nn]), h.nn, h.kn.trans hk, hk1, h.an.trans ha⟩

/-- one rounding -/
theorem RNear.rnd {a x κ α : ℝ} (h : RNear a x κ α) (hk : κ + 2 * FP.eps ≤ 1) :
    RNear (M.rnd a) x (κ + 2 * FP.eps) (1.01 * α + FP.eta) := by
  refine ⟨?_, h.nn, by have := FP.eps_pos; linarith [h.kn], hk, by have := FP.eta_pos; linarith [h.an]⟩
  have h1 := M.rnd_err a
  have h2 := h.abs_le
  have h3 := h.err
  have hu : FP.u * |a| ≤ FP.eps * |a| :=
    mul_le_mul_of_nonneg_right (by unfold FP.eps; exact FP.u_lt.le) (abs_nonneg _)
  have h4 : FP.eps * |a| ≤ FP.eps * (2 * x + α) := mul_le_mul_of_nonneg_left h2 FP.eps_pos.le
  have h5 := abs_sub_le (M.rnd a) a x
  have h6 : FP.eps * α ≤ 0.01 * α := mul_le_mul_of_nonneg_right (by unfold FP.eps; norm_num) h.an
  nlinarith

/-- product with a coefficient `c ≈ m ∈ [0,1]` known to relative accuracy `eps` -/
theorem RNear.mulc {a x κ α c m : ℝ} (h : RNear a x κ α) (hc : |c - m| ≤ FP.eps * m) (hm0 : 0 ≤ m)
    (hm1 : m ≤ 1) (hk : κ + 2 * FP.eps ≤ 1) : RNear (c * a) (m * x) (κ + 2 * FP.eps) (1.01 * α) := by
  refine ⟨?_, mul_nonneg hm0 h.nn, by have := FP.eps_pos; linarith [h.kn], hk, by linarith [h.an]⟩
  have h2 := h.abs_le
  have h3 := h.err
  have e1 : c * a - m * x = (c - m) * a + m * (a - x) := by ring
  rw [e1]
  have t1 : |(c - m) * a| ≤ FP.eps * m * (2 * x + α) := by
    rw [abs_mul]; exact mul_le_mul hc h2 (abs_nonneg _) (mul_nonneg FP.eps_pos.le hm0)
  have t2 : |m * (a - x)| ≤ m * (κ * x + α) := by
    rw [abs_mul, abs_of_nonneg hm0]; exact mul_le_mul_of_nonneg_left h3 hm0
  have t3 := abs_add_le ((c - m) * a) (m * (a - x))
  have hα := h.an
  have hx := h.nn
  have e2 : FP.eps * m * α ≤ 0.01 * α := by
    have : FP.eps * m ≤ 0.01 := by unfold FP.eps; nlinarith
    exact mul_le_mul_of_nonneg_right this hα
  have e3 : m * α ≤ α := by nlinarith
  nlinarith

theorem RNear.add {a b x y κ α β : ℝ} (ha : RNear a x κ α) (hb : RNear b y κ β) :
    RNear (a + b) (x + y) κ (α + β) := by
  refine ⟨?_, add_nonneg ha.nn hb.nn, ha.kn, ha.k1, add_nonneg ha.an hb.an⟩
  have e1 : a + b - (x + y) = (a - x) + (b - y) := by ring
  rw [e1]
  have := abs_add_le (a - x) (b - y)
  have := ha.err
  have := hb.err
  nlinarith

/-- a rounded literal in `(0,1]` is known to relative accuracy `eps` -/
theorem lit_rel (n d : ℕ) (h0 : (1e-200:ℝ) ≤ (n:ℝ)/d) :
    |M.rnd ((n:ℝ)/d) - (n:ℝ)/d| ≤ FP.eps * ((n:ℝ)/d) :=
  rnd_abs M (by rw [abs_of_nonneg (by positivity)]) h0

/-- **positive three-term dot product** (`((c₁a₁ + c₂a₂) + c₃a₃)`, five roundings) in the relative calculus -/
theorem posdot3 {c1 c2 c3 m1 m2 m3 a1 a2 a3 p1 p2 p3 κ α : ℝ}
    (hc1 : |c1 - m1| ≤ FP.eps * m1) (hc2 : |c2 - m2| ≤ FP.eps * m2) (hc3 : |c3 - m3| ≤ FP.eps * m3)
    (h10 : 0 ≤ m1) (h11 : m1 ≤ 1) (h20 : 0 ≤ m2) (h21 : m2 ≤ 1) (h30 : 0 ≤ m3) (h31 : m3 ≤ 1)
    (ha1 : RNear a1 p1 κ α) (ha2 : RNear a2 p2 κ α) (ha3 : RNear a3 p3 κ α) (hk : κ ≤ 0.5) :
    RNear (M.rnd (M.rnd (M.rnd (c1 * a1) + M.rnd (c2 * a2)) + M.rnd (c3 * a3)))
      (m1 * p1 + m2 * p2 + m3 * p3) (κ + 8 * FP.eps) (3.2 * α + 6 * FP.eta) := by
  have he : FP.eps = 1.2e-16 := rfl
  have t1 := (ha1.mulc hc1 h10 h11 (by rw [he]; linarith)).rnd M (by rw [he]; linarith)
  have t2 := (ha2.mulc hc2 h20 h21 (by rw [he]; linarith)).rnd M (by rw [he]; linarith)
  have t3 := (ha3.mulc hc3 h30 h31 (by rw [he]; linarith)).rnd M (by rw [he]; linarith)
  have u := (t1.add t2).rnd M (by rw [he]; linarith)
  have t3' := t3.mono (κ' := κ + 2 * FP.eps + 2 * FP.eps + 2 * FP.eps) (α' := 1.01 * (1.01 * α) + FP.eta)
    (by rw [he]; linarith) (by rw [he]; linarith) le_rfl
  have v := (u.add t3').rnd M (by rw [he]; linarith)
  refine v.mono (by rw [he]; linarith) (by rw [he]; linarith) ?_
  have := ha1.an
  have := FP.eta_pos
  linarith

end oklab

section oklab2
variable (M : FPModel)

/-- relative perturbation with the factor `p`: `|t − l| ≤ θ·l`, `θ ≤ 1e-3` gives
`|t^p − l^p| ≤ 1.002·p·θ·l^p` (`0 ≤ p ≤ 1`) -/
theorem rpow_rel_perturb3 {l t p θ : ℝ} (hp0 : 0 ≤ p) (hp1 : p ≤ 1) (hl : 0 < l) (hθ : θ ≤ 1e-3)
    (h : |t - l| ≤ θ * l) : |t ^ p - l ^ p| ≤ 1.002 * p * θ * l ^ p := by
  have hθ0 : 0 ≤ θ := by
    have := le_trans (abs_nonneg _) h
    by_contra hc; push Not at hc; nlinarith
  have hlp : 0 < l ^ p := Real.rpow_pos_of_pos hl p
  obtain ⟨h1, h2⟩ := abs_le.mp h
  have ht : 0 < t := by nlinarith
  have hq : |t / l - 1| ≤ θ := by
    have : t / l - 1 = (t - l) / l := by field_simp
    rw [this, abs_div, abs_of_pos hl, div_le_iff₀ hl]; exact h
  obtain ⟨hq1, hq2⟩ := abs_le.mp hq
  have hx0 : (0:ℝ) < 1 - θ := by linarith
  have k1 := rpow_lip_away (p := p) (x0 := 1 - θ) (a := t / l) (b := 1) hp0 hp1 hx0 (by linarith) (by linarith)
  rw [Real.one_rpow] at k1
  have k2 : (1 - θ) ^ (p - 1) ≤ (1 - θ) ^ (-1 : ℝ) :=
    Real.rpow_le_rpow_of_exponent_ge hx0 (by linarith) (by linarith)
  have k3 : (1 - θ) ^ (-1 : ℝ) ≤ 1.002 := by
    rw [Real.rpow_neg_one, inv_le_comm₀ hx0 (by norm_num)]; norm_num; linarith
  have k4 : p * (1 - θ) ^ (p - 1) * |t / l - 1| ≤ p * 1.002 * θ := by
    apply mul_le_mul _ hq (abs_nonneg _) (by positivity)
    exact mul_le_mul_of_nonneg_left (k2.trans k3) hp0
  rw [Real.div_rpow ht.le hl.le] at k1
  have : t ^ p - l ^ p = (t ^ p / l ^ p - 1) * l ^ p := by field_simp
  rw [this, abs_mul, abs_of_pos hlp]
  calc |t ^ p / l ^ p - 1| * l ^ p ≤ (p * 1.002 * θ) * l ^ p :=
        mul_le_mul_of_nonneg_right (k1.trans k4) hlp.le
    _ = 1.002 * p * θ * l ^ p := by ring

theorem abs_cbrt (z : ℝ) : |Real.cbrt z| = Real.cbrt |z| := by
  unfold Real.cbrt
  rcases le_or_gt 0 z with h | h
  · rw [if_pos h, if_pos (abs_nonneg _), abs_of_nonneg h, abs_of_nonneg (Real.rpow_nonneg h _)]
  · rw [if_neg (not_le.mpr h), if_pos (abs_nonneg _), abs_of_neg h, abs_neg,
      abs_of_nonneg (Real.rpow_nonneg (by linarith) _)]

/-- cube root under a relative perturbation of a positive argument -/
theorem cbrt_rel {S' S θ : ℝ} (hS : 0 < S) (hθ : θ ≤ 1e-3) (h : |S' - S| ≤ θ * S) :
    |Real.cbrt S' - Real.cbrt S| ≤ 0.334 * θ * Real.cbrt S := by
  have hθ0 : 0 ≤ θ := by
    have := le_trans (abs_nonneg _) h
    by_contra hc; push Not at hc; nlinarith
  obtain ⟨h1, h2⟩ := abs_le.mp h
  have hS' : 0 ≤ S' := by nlinarith
  rw [cbrt_of_nonneg hS', cbrt_of_nonneg hS.le]
  have := rpow_rel_perturb3 (p := 1/3) (by norm_num) (by norm_num) hS hθ h
  have hlp : 0 ≤ S ^ ((1:ℝ)/3) := Real.rpow_nonneg hS.le _
  nlinarith [mul_nonneg hθ0 hlp]

/-- `x^p`, `p ≥ 1`, is `p·B^(p-1)`-Lipschitz on `[0, B]` (any `B > 0`, in particular small `B`) -/
theorem rpow_lip_small {a b p B : ℝ} (ha : 0 ≤ a) (hb : 0 ≤ b) (haB : a ≤ B) (hbB : b ≤ B) (hp : 1 ≤ p) :
    |a ^ p - b ^ p| ≤ p * B ^ (p - 1) * |a - b| := by
  have main : ∀ a b : ℝ, 0 ≤ a → a ≤ b → b ≤ B → |a ^ p - b ^ p| ≤ p * B ^ (p - 1) * |a - b| := by
    intro a b ha hab hbB
    rcases eq_or_lt_of_le (ha.trans hab) with hb0 | hb0
    · have : a = 0 := le_antisymm (by rw [hb0]; exact hab) ha
      rw [this, ← hb0]; simp
    · have h1 : a ^ p ≤ b ^ p := Real.rpow_le_rpow ha hab (by linarith)
      have h2 := rpow_tangent_ge hb0 ha hp
      have h3 : b ^ p / b = b ^ (p - 1) := (Real.rpow_sub_one hb0.ne' p).symm
      have h4 : b ^ (p - 1) ≤ B ^ (p - 1) := Real.rpow_le_rpow hb0.le hbB (by linarith)
      rw [abs_sub_comm, abs_of_nonneg (sub_nonneg.mpr h1), abs_sub_comm, abs_of_nonneg (sub_nonneg.mpr hab)]
      rw [h3] at h2
      have h8 : p * (b - a) * b ^ (p - 1) ≤ p * (b - a) * B ^ (p - 1) :=
        mul_le_mul_of_nonneg_left h4 (mul_nonneg (by linarith) (by linarith))
      nlinarith
  rcases le_total a b with h | h
  · exact main a b ha h hbB
  · rw [abs_sub_comm, abs_sub_comm a b]; exact main b a hb h haB

/-- exponent perturbation for exponents `≥ 2.19`, with the factor `x²` kept -/
theorem rpow_exp_close_sq {x q q' : ℝ} (hx0 : 0 < x) (hx2 : x ≤ 2) (hq : 2.19 ≤ q) (hq' : 2.19 ≤ q')
    (hq3 : q ≤ 3) (hq3' : q' ≤ 3) (hd : |q - q'| ≤ 1) :
    |x ^ q - x ^ q'| ≤ x ^ 2 * (|q - q'| * (1 / 0.19 + 8)) := by
  have e1 : x ^ q = x ^ 2 * x ^ (q - 2) := by
    rw [← Real.rpow_two, ← Real.rpow_add hx0]; congr 1; ring
  have e2 : x ^ q' = x ^ 2 * x ^ (q' - 2) := by
    rw [← Real.rpow_two, ← Real.rpow_add hx0]; congr 1; ring
  rw [e1, e2, ← mul_sub, abs_mul, abs_of_nonneg (by positivity)]
  apply mul_le_mul_of_nonneg_left _ (by positivity)
  have := rpow_exp_close (x := x) (q := q - 2) (q' := q' - 2) (p := 0.19) hx0 hx2 (by norm_num)
    (by linarith) (by linarith) (by linarith) (by linarith) (by rw [show q - 2 - (q' - 2) = q - q' by ring]; exact hd)
  rwa [show q - 2 - (q' - 2) = q - q' by ring] at this

end oklab2

section oklab3
variable (M : FPModel)

theorem p22_low : (4.9e-6:ℝ) ≤ (0.0039:ℝ) ^ (2.2:ℝ) := by
  rw [show (2.2:ℝ) = ((11:ℕ):ℝ)/((5:ℕ):ℝ) by norm_num]
  exact le_rpow_div 11 5 (by norm_num) (by norm_num) (by norm_num) (by norm_num)

theorem p02_low : (0.3226:ℝ) ≤ (0.0039:ℝ) ^ (0.2:ℝ) := by
  rw [show (0.2:ℝ) = ((1:ℕ):ℝ)/((5:ℕ):ℝ) by norm_num]
  exact le_rpow_div 1 5 (by norm_num) (by norm_num) (by norm_num) (by norm_num)

theorem p12_small : (4.1e-6:ℝ) ^ ((2.2:ℝ) - 1) ≤ 3.5e-7 := by
  rw [show (2.2:ℝ) - 1 = ((6:ℕ):ℝ)/((5:ℕ):ℝ) by norm_num]
  exact rpow_div_le 6 5 (by norm_num) (by norm_num) (by norm_num) (by norm_num)

/-- `max(·,0)^2.2` in `RF M` on a bright channel: relative error `570·e + 2e-14` -/
theorem pow22_bright {b x e y' : ℝ} (hx : 0.0039 ≤ x) (hx1 : x ≤ 1.001) (hbx : |b - x| ≤ e) (he : e ≤ 1e-10)
    (hy : |y' - 2.2| ≤ FP.eps * 3) :
    |M.pow (max b 0) y' - (max x 0) ^ (2.2:ℝ)| ≤ (570 * e + 2e-14) * (max x 0) ^ (2.2:ℝ) ∧
    4.9e-6 ≤ (max x 0) ^ (2.2:ℝ) ∧ (max x 0) ^ (2.2:ℝ) ≤ 1.01 := by
  have he0 : 0 ≤ e := le_trans (abs_nonneg _) hbx
  obtain ⟨hb1, hb2⟩ := abs_le.mp hbx
  obtain ⟨hy1, hy2⟩ := abs_le.mp hy
  have hx0 : 0 < x := by linarith
  have hb0 : 0 < b := by linarith
  rw [max_eq_left hx0.le, max_eq_left hb0.le]
  set X : ℝ := x ^ (2.2:ℝ) with hX
  have hXlo : 4.9e-6 ≤ X := p22_low.trans (Real.rpow_le_rpow (by norm_num) hx (by norm_num))
  have hXhi : X ≤ 1.01 := by
    calc X ≤ (1.001:ℝ) ^ (2.2:ℝ) := Real.rpow_le_rpow hx0.le hx1 (by norm_num)
      _ ≤ (1.001:ℝ) ^ ((3:ℕ):ℝ) := Real.rpow_le_rpow_of_exponent_le (by norm_num) (by norm_num)
      _ = (1.001:ℝ) ^ (3:ℕ) := Real.rpow_natCast _ _
      _ ≤ 1.01 := by norm_num
  have hXpos : 0 < X := by linarith
  refine ⟨?_, hXlo, hXhi⟩
  -- (1) base perturbation, relative
  have hr : |b / x - 1| ≤ e / 0.0039 := by
    have : b / x - 1 = (b - x) / x := by field_simp
    rw [this, abs_div, abs_of_pos hx0, div_le_div_iff₀ hx0 (by norm_num)]
    nlinarith [abs_nonneg (b - x)]
  obtain ⟨hr1, hr2⟩ := abs_le.mp hr
  have he39 : e / 0.0039 ≤ 2.6e-8 := by rw [div_le_iff₀ (by norm_num)]; linarith
  have hrpos : 0 < b / x := div_pos hb0 hx0
  have k1 := rpow_lipschitz (a := b / x) (b := 1) (p := 2.2) (B := 1.001) hrpos one_pos (by linarith) (by norm_num)
    (by norm_num) (by norm_num) (by norm_num)
  rw [Real.one_rpow, Real.div_rpow hb0.le hx0.le] at k1
  have q1 : |b ^ (2.2:ℝ) - X| ≤ 565.3 * e * X := by
    have : b ^ (2.2:ℝ) - X = (b ^ (2.2:ℝ) / X - 1) * X := by field_simp
    rw [this, abs_mul, abs_of_pos hXpos]
    apply mul_le_mul_of_nonneg_right _ hXpos.le
    refine k1.trans ?_
    have : (2.2:ℝ) * 1.001 ^ 2 * |b / x - 1| ≤ 2.2 * 1.001 ^ 2 * (e / 0.0039) :=
      mul_le_mul_of_nonneg_left hr (by norm_num)
    refine this.trans ?_
    rw [mul_div_assoc']
    rw [div_le_iff₀ (by norm_num)]
    nlinarith
  -- (2) exponent perturbation
  have hb2' : b ≤ 2 := by linarith
  have q2 := rpow_exp_close_sq (x := b) (q := y') (q' := 2.2) hb0 hb2' (by unfold FP.eps at *; linarith)
    (by norm_num) (by unfold FP.eps at *; linarith) (by norm_num) (by unfold FP.eps at *; exact hy.trans (by norm_num))
  have hx2X : x ^ 2 ≤ 3.1 * X := by
    have e1 : X = x ^ 2 * x ^ (0.2:ℝ) := by
      rw [hX, ← Real.rpow_two, ← Real.rpow_add hx0]; norm_num
    have e2 : (0.3226:ℝ) ≤ x ^ (0.2:ℝ) := p02_low.trans (Real.rpow_le_rpow (by norm_num) hx (by norm_num))
    rw [e1]; nlinarith [sq_nonneg x]
  have hb2x : b ^ 2 ≤ 1.001 * x ^ 2 := by
    have : b ≤ 1.0001 * x := by nlinarith
    nlinarith
  have q2' : |b ^ y' - b ^ (2.2:ℝ)| ≤ 1.5e-14 * X := by
    refine q2.trans ?_
    have : |y' - 2.2| * (1 / 0.19 + 8) ≤ FP.eps * 3 * (1 / 0.19 + 8) :=
      mul_le_mul_of_nonneg_right hy (by norm_num)
    have h3 : b ^ 2 * (|y' - 2.2| * (1 / 0.19 + 8)) ≤ b ^ 2 * (FP.eps * 3 * (1 / 0.19 + 8)) :=
      mul_le_mul_of_nonneg_left this (by positivity)
    refine h3.trans ?_
    unfold FP.eps
    nlinarith [sq_nonneg b]
  -- (3) powf rounding
  have hby : b ^ y' ≤ 1.01 * X := by
    have a1 := (abs_le.mp q1).2
    have a2 := (abs_le.mp q2').2
    nlinarith
  have q3 := pow_close M hb0.le hby (by linarith)
  refine (tri3 (M.pow b y') (b ^ y') (b ^ (2.2:ℝ)) X).trans ?_
  unfold FP.eps at q3
  nlinarith

/-- `max(·,0)^2.2` in `RF M` on a dark channel (`|x| ≤ 4e-6`): absolute error `7.7e-7·e + 1e-21` -/
theorem pow22_dark {b x e y' : ℝ} (hx : |x| ≤ 4e-6) (hbx : |b - x| ≤ e) (he : e ≤ 1e-10)
    (hy : |y' - 2.2| ≤ FP.eps * 3) :
    |M.pow (max b 0) y' - (max x 0) ^ (2.2:ℝ)| ≤ 7.7e-7 * e + 1e-21 ∧
    0 ≤ (max x 0) ^ (2.2:ℝ) ∧ (max x 0) ^ (2.2:ℝ) ≤ 1.01 := by
  have he0 : 0 ≤ e := le_trans (abs_nonneg _) hbx
  obtain ⟨hx1, hx2⟩ := abs_le.mp hx
  obtain ⟨hy1, hy2⟩ := abs_le.mp hy
  have hmm : |max b 0 - max x 0| ≤ e := (abs_max_sub_max_le_abs b x 0).trans hbx
  have hxx0 : 0 ≤ max x 0 := le_max_right _ _
  have hbb0 : 0 ≤ max b 0 := le_max_right _ _
  have hxxB0 : max x 0 ≤ 4e-6 := max_le hx2 (by norm_num)
  have hxxB : max x 0 ≤ 4.1e-6 := hxxB0.trans (by norm_num)
  have hbbB : max b 0 ≤ 4.1e-6 := by
    have := (abs_le.mp hmm).2; linarith
  generalize max b 0 = bb at *
  generalize max x 0 = xx at *
  have hP0 : 0 ≤ xx ^ (2.2:ℝ) := Real.rpow_nonneg hxx0 _
  have hP1 : xx ^ (2.2:ℝ) ≤ 1.01 := (Real.rpow_le_one hxx0 (by linarith) (by norm_num)).trans (by norm_num)
  refine ⟨?_, hP0, hP1⟩
  have q1 : |bb ^ (2.2:ℝ) - xx ^ (2.2:ℝ)| ≤ 7.7e-7 * e := by
    have := rpow_lip_small (a := bb) (b := xx) (p := 2.2) (B := 4.1e-6) hbb0 hxx0 hbbB hxxB (by norm_num)
    refine this.trans ?_
    have h2 : (2.2:ℝ) * (4.1e-6:ℝ) ^ ((2.2:ℝ) - 1) ≤ 7.7e-7 := by nlinarith [p12_small]
    exact mul_le_mul h2 hmm (abs_nonneg _) (by norm_num)
  rcases eq_or_lt_of_le hbb0 with hz | hpos
  · rw [← hz] at q1 ⊢
    have h0 : (0:ℝ) ^ y' = 0 := Real.zero_rpow (by unfold FP.eps at *; linarith)
    have := M.pow_err 0 y' le_rfl
    rw [h0, abs_zero, mul_zero, zero_add, sub_zero] at this
    rw [Real.zero_rpow (by norm_num)] at q1
    have h3 := FP.eta_lt
    have h4 := abs_sub_le (M.pow 0 y') 0 (xx ^ (2.2:ℝ))
    rw [sub_zero] at h4
    have : (1:ℝ) / 10 ^ 240 ≤ 1e-21 := by norm_num
    linarith
  · have q2 := rpow_exp_close_sq (x := bb) (q := y') (q' := 2.2) hpos (by linarith) (by unfold FP.eps at *; linarith)
      (by norm_num) (by unfold FP.eps at *; linarith) (by norm_num) (by unfold FP.eps at *; exact hy.trans (by norm_num))
    have q2' : |bb ^ y' - bb ^ (2.2:ℝ)| ≤ 1e-25 := by
      refine q2.trans ?_
      have : |y' - 2.2| * (1 / 0.19 + 8) ≤ FP.eps * 3 * (1 / 0.19 + 8) :=
        mul_le_mul_of_nonneg_right hy (by norm_num)
      have h3 : bb ^ 2 * (|y' - 2.2| * (1 / 0.19 + 8)) ≤ bb ^ 2 * (FP.eps * 3 * (1 / 0.19 + 8)) :=
        mul_le_mul_of_nonneg_left this (by positivity)
      refine h3.trans ?_
      have : bb ^ 2 ≤ (4.1e-6) ^ 2 := by gcongr
      unfold FP.eps
      nlinarith
    have hby : bb ^ y' ≤ 4.1e-6 := by
      calc bb ^ y' ≤ bb ^ (1:ℝ) := Real.rpow_le_rpow_of_exponent_ge hpos (by linarith) (by unfold FP.eps at *; linarith)
        _ = bb := Real.rpow_one bb
        _ ≤ 4.1e-6 := hbbB
    have q3 := pow_close M hpos.le hby (by norm_num)
    refine (tri3 (M.pow bb y') (bb ^ y') (bb ^ (2.2:ℝ)) (xx ^ (2.2:ℝ))).trans ?_
    unfold FP.eps at q3
    linarith

/-- channel condition of the OkLab analysis: computed encoded value within `e` of the real one, which is
either bright (`≥ 0.0039`, the level 1/255 minus the forward tolerance) or a residue of black (`≤ 4e-6`) -/
def Chan (b x e : ℝ) : Prop := |b - x| ≤ e ∧ ((0.0039 ≤ x ∧ x ≤ 1.001) ∨ |x| ≤ 4e-6)

/-- both cases in the relative calculus -/
theorem pow22_chan {b x e y' : ℝ} (h : Chan b x e) (he0 : 0 ≤ e) (he : e ≤ 1e-10) (hy : |y' - 2.2| ≤ FP.eps * 3) :
    RNear (M.pow (max b 0) y') (Props.C07.pow22 x) (570 * e + 2e-14) (7.7e-7 * e + 1e-21) ∧
    Props.C07.pow22 x ≤ 1.01 ∧ (0.0039 ≤ x → 4.9e-6 ≤ Props.C07.pow22 x) := by
  unfold Props.C07.pow22
  obtain ⟨hbx, hc | hc⟩ := h
  · obtain ⟨k1, k2, k3⟩ := pow22_bright M hc.1 hc.2 hbx he hy
    refine ⟨⟨k1.trans (by nlinarith), by linarith, by linarith, by linarith, by linarith⟩, k3, fun _ => k2⟩
  · obtain ⟨k1, k2, k3⟩ := pow22_dark M hc hbx he hy
    refine ⟨⟨k1.trans (by nlinarith), k2, by linarith, by linarith, by linarith⟩, k3, fun h => ?_⟩
    have := (abs_le.mp hc).2; linarith

end oklab3

section oklab4
open FpLin
variable (M : FPModel)

/-- **LMS stage**: positive dot product, cube root, rounding -/
theorem lms_stage (n1 d1 n2 d2 n3 d3 : ℕ) {a1 a2 a3 P1 P2 P3 κ α θ : ℝ}
    (hm1 : (0.05:ℝ) ≤ (n1:ℝ)/d1) (hm1' : (n1:ℝ)/d1 ≤ 1) (hm2 : (0.05:ℝ) ≤ (n2:ℝ)/d2) (hm2' : (n2:ℝ)/d2 ≤ 1)
    (hm3 : (0.05:ℝ) ≤ (n3:ℝ)/d3) (hm3' : (n3:ℝ)/d3 ≤ 1)
    (hsum : (n1:ℝ)/d1 + (n2:ℝ)/d2 + (n3:ℝ)/d3 ≤ 1.001)
    (h1 : RNear a1 P1 κ α) (h2 : RNear a2 P2 κ α) (h3 : RNear a3 P3 κ α)
    (hP1 : P1 ≤ 1.01) (hP2 : P2 ≤ 1.01) (hP3 : P3 ≤ 1.01)
    (hbr : 4.9e-6 ≤ P1 ∨ 4.9e-6 ≤ P2 ∨ 4.9e-6 ≤ P3)
    (hk : κ ≤ 0.5) (hθ : κ + 8 * FP.eps + (3.2 * α + 6 * FP.eta) / 2.4e-7 ≤ θ) (hθ1 : θ ≤ 1e-3) :
    Near (M.rnd (Real.cbrt (M.rnd (M.rnd (M.rnd (M.rnd ((n1:ℝ)/d1) * a1) + M.rnd (M.rnd ((n2:ℝ)/d2) * a2))
        + M.rnd (M.rnd ((n3:ℝ)/d3) * a3)))))
      (Real.cbrt ((n1:ℝ)/d1 * P1 + (n2:ℝ)/d2 * P2 + (n3:ℝ)/d3 * P3)) (0.34 * θ + 1.3e-16) 1.01 := by
  have D := posdot3 M (lit_rel M n1 d1 (by linarith)) (lit_rel M n2 d2 (by linarith)) (lit_rel M n3 d3 (by linarith))
    (by linarith) hm1' (by linarith) hm2' (by linarith) hm3' h1 h2 h3 hk
  have p1 := h1.nn
  have p2 := h2.nn
  have p3 := h3.nn
  set S : ℝ := (n1:ℝ)/d1 * P1 + (n2:ℝ)/d2 * P2 + (n3:ℝ)/d3 * P3 with hS
  have hSlo : 2.4e-7 ≤ S := by
    rcases hbr with h | h | h <;> nlinarith
  have hShi : S ≤ 1.02 := by nlinarith
  have hSpos : 0 < S := by linarith
  have hA0 : 0 ≤ 3.2 * α + 6 * FP.eta := by have := h1.an; have := FP.eta_pos; linarith
  have hA : 3.2 * α + 6 * FP.eta ≤ (3.2 * α + 6 * FP.eta) / 2.4e-7 * S := by
    have : 3.2 * α + 6 * FP.eta = (3.2 * α + 6 * FP.eta) / 2.4e-7 * 2.4e-7 := by field_simp
    calc 3.2 * α + 6 * FP.eta = (3.2 * α + 6 * FP.eta) / 2.4e-7 * 2.4e-7 := this
      _ ≤ (3.2 * α + 6 * FP.eta) / 2.4e-7 * S := mul_le_mul_of_nonneg_left hSlo (by positivity)
  have hrel : |M.rnd (M.rnd (M.rnd (M.rnd ((n1:ℝ)/d1) * a1) + M.rnd (M.rnd ((n2:ℝ)/d2) * a2))
        + M.rnd (M.rnd ((n3:ℝ)/d3) * a3)) - S| ≤ θ * S := by
    refine D.err.trans ?_
    have : (κ + 8 * FP.eps + (3.2 * α + 6 * FP.eta) / 2.4e-7) * S ≤ θ * S :=
      mul_le_mul_of_nonneg_right hθ hSpos.le
    nlinarith
  have hθ0 : 0 ≤ θ := by
    have := h1.kn; have := FP.eps_pos
    have : 0 ≤ (3.2 * α + 6 * FP.eta) / 2.4e-7 := by positivity
    linarith
  have c1 := cbrt_rel hSpos hθ1 hrel
  obtain ⟨b0, b1⟩ := cbrt_bounds (x := S) (a := 0) (b := 1.01) le_rfl (by norm_num) (by linarith) (by norm_num; linarith)
  have N : Near (Real.cbrt (M.rnd (M.rnd (M.rnd (M.rnd ((n1:ℝ)/d1) * a1) + M.rnd (M.rnd ((n2:ℝ)/d2) * a2))
        + M.rnd (M.rnd ((n3:ℝ)/d3) * a3)))) (Real.cbrt S) (0.338 * θ) 1.01 :=
    ⟨c1.trans (by nlinarith), by rw [abs_of_nonneg b0]; exact b1, by norm_num⟩
  refine (N.rnd M).mono ?_ le_rfl
  unfold FP.eps
  nlinarith

/-- **OkLab core**: `OkLab.from_Srgb` in `RF M` on a computed encoded triple `s'` within `e` of a real
triple `s` whose channels are bright or residues of black, at least one bright: every component within
`1100·e + 1e-13` of the exact-real `OkLab.from_Srgb s`. -/
theorem oklab_core (s' : Srgb (RF M)) (s : Srgb ℝ) (e : ℝ) (he0 : 0 ≤ e) (he : e ≤ 1e-10)
    (hr : Chan s'.r.val s.r e) (hg : Chan s'.g.val s.g e) (hb : Chan s'.b.val s.b e)
    (hbright : 0.0039 ≤ s.r ∨ 0.0039 ≤ s.g ∨ 0.0039 ≤ s.b) :
    |(OkLab.from_Srgb s').l.val - (OkLab.from_Srgb s).l| ≤ 1100 * e + 1e-13 ∧
    |(OkLab.from_Srgb s').a.val - (OkLab.from_Srgb s).a| ≤ 1100 * e + 1e-13 ∧
    |(OkLab.from_Srgb s').b.val - (OkLab.from_Srgb s).b| ≤ 1100 * e + 1e-13 := by
  rw [Props.C07.oklab_is_ottosson_of_pow22]
  simp only [Props.C07.ottosson, Props.C07.mulVec, Props.C07.row, Props.C07.cbrt3, Props.C07.M1, Props.C07.M2]
  simp only [OkLab.from_Srgb, Srgb.as_linear, C.OKSR, C.OKSG, C.OKSB, C.OKL, C.OKA, C.OKB,
    FltRF.lit_val, FltRF.add_val, FltRF.sub_val, FltRF.mul_val, FltRF.cbrt_val, FltRF.pow_val, FltRF.max_val]
  have z : M.rnd (((0:ℕ):ℝ) / ((1:ℕ):ℝ)) = 0 := by
    have := lit_int M 0 (by norm_num); simpa using this
  rw [z]
  have hy : |M.rnd (((11:ℕ):ℝ) / ((5:ℕ):ℝ)) - 2.2| ≤ FP.eps * 3 := by
    have := lit_close M 11 5 (B := 3) (by norm_num) (by norm_num)
    convert this using 2; norm_num
  obtain ⟨R1, R2, R3⟩ := pow22_chan M hr he0 he hy
  obtain ⟨G1, G2, G3⟩ := pow22_chan M hg he0 he hy
  obtain ⟨B1, B2, B3⟩ := pow22_chan M hb he0 he hy
  have hbr : 4.9e-6 ≤ Props.C07.pow22 s.r ∨ 4.9e-6 ≤ Props.C07.pow22 s.g ∨ 4.9e-6 ≤ Props.C07.pow22 s.b := by
    rcases hbright with h | h | h
    · exact Or.inl (R3 h)
    · exact Or.inr (Or.inl (G3 h))
    · exact Or.inr (Or.inr (B3 h))
  generalize M.pow (max s'.r.val 0) (M.rnd (((11:ℕ):ℝ) / ((5:ℕ):ℝ))) = ar at *
  generalize M.pow (max s'.g.val 0) (M.rnd (((11:ℕ):ℝ) / ((5:ℕ):ℝ))) = ag at *
  generalize M.pow (max s'.b.val 0) (M.rnd (((11:ℕ):ℝ) / ((5:ℕ):ℝ))) = ab at *
  generalize Props.C07.pow22 s.r = Pr at *
  generalize Props.C07.pow22 s.g = Pg at *
  generalize Props.C07.pow22 s.b = Pb at *
  have heta : FP.eta ≤ 1e-30 := FP.eta_lt.le.trans (by norm_num)
  have hθ : (570 * e + 2e-14) + 8 * FP.eps + (3.2 * (7.7e-7 * e + 1e-21) + 6 * FP.eta) / 2.4e-7 ≤ 581 * e + 4e-14 := by
    rw [show (570 * e + 2e-14) + 8 * FP.eps + (3.2 * (7.7e-7 * e + 1e-21) + 6 * FP.eta) / 2.4e-7
      = (570 * e + 2e-14) + 8 * FP.eps + (3.2 * (7.7e-7 * e + 1e-21) + 6 * FP.eta) * (1 / 2.4e-7) by ring]
    unfold FP.eps
    norm_num
    linarith
  have hk : 570 * e + 2e-14 ≤ (0.5:ℝ) := by linarith
  have hθ1 : 581 * e + 4e-14 ≤ (1e-3:ℝ) := by linarith
  have Ll := lms_stage M 1030553677 2500000000 5363325363 10000000000 514459929 10000000000
    (by norm_num) (by norm_num) (by norm_num) (by norm_num) (by norm_num) (by norm_num) (by norm_num)
    R1 G1 B1 R2 G2 B2 hbr hk hθ hθ1
  have Lm := lms_stage M 1059517491 5000000000 6806995451 10000000000 536984783 5000000000
    (by norm_num) (by norm_num) (by norm_num) (by norm_num) (by norm_num) (by norm_num) (by norm_num)
    R1 G1 B1 R2 G2 B2 hbr hk hθ hθ1
  have Ls := lms_stage M 883024619 10000000000 352148547 1250000000 1259957401 2000000000
    (by norm_num) (by norm_num) (by norm_num) (by norm_num) (by norm_num) (by norm_num) (by norm_num)
    R1 G1 B1 R2 G2 B2 hbr hk hθ hθ1
  have Ll' := Ll.retarget (x' := Real.cbrt (0.4122214708 * Pr + 0.5363325363 * Pg + 514459929e-10 * Pb)) (by norm_num)
  have Lm' := Lm.retarget (x' := Real.cbrt (0.2119034982 * Pr + 0.6806995451 * Pg + 0.1073969566 * Pb)) (by norm_num)
  have Ls' := Ls.retarget (x' := Real.cbrt (883024619e-10 * Pr + 0.2817188376 * Pg + 0.6299787005 * Pb)) (by norm_num)
  clear Ll Lm Ls
  generalize M.rnd (Real.cbrt _) = l' at Ll' ⊢
  generalize M.rnd (Real.cbrt _) = m' at Lm' ⊢
  generalize M.rnd (Real.cbrt _) = v' at Ls' ⊢
  generalize Real.cbrt (0.4122214708 * Pr + 0.5363325363 * Pg + 514459929e-10 * Pb) = l at Ll' ⊢
  generalize Real.cbrt (0.2119034982 * Pr + 0.6806995451 * Pg + 0.1073969566 * Pb) = m at Lm' ⊢
  generalize Real.cbrt (883024619e-10 * Pr + 0.2817188376 * Pg + 0.6299787005 * Pb) = v at Ls' ⊢
  generalize hel : 0.34 * (581 * e + 4e-14) + 1.3e-16 = el at Ll' Lm' Ls'
  have hel1 : el ≤ 198 * e + 1.4e-14 := by rw [← hel]; linarith
  have hel0 : 0 ≤ el := Ll'.e_nonneg
  refine ⟨?_, ?_, ?_⟩
  · have h := (((Near.lit M 2104542553 10000000000 (B := 1) (by norm_num) le_rfl).mul M Ll').add M
      ((Near.lit M 158723557 200000000 (B := 1) (by norm_num) le_rfl).mul M Lm')).sub M
      ((Near.lit M 10180117 2500000000 (B := 1) (by norm_num) le_rfl).mul M Ls')
    refine h.finish (by norm_num; ring) ?_
    unfold FP.eps
    nlinarith
  · have h := (((Near.lit M 19779984951 10000000000 (B := 2) (by norm_num) (by norm_num)).mul M Ll').sub M
      ((Near.lit M 485718441 200000000 (B := 2.5) (by norm_num) (by norm_num)).mul M Lm')).add M
      ((Near.lit M 4505937099 10000000000 (B := 1) (by norm_num) le_rfl).mul M Ls')
    refine h.finish (by norm_num; ring) ?_
    unfold FP.eps
    nlinarith
  · have h := (((Near.lit M 259040371 10000000000 (B := 1) (by norm_num) le_rfl).mul M Ll').add M
      ((Near.lit M 3913858831 5000000000 (B := 1) (by norm_num) le_rfl).mul M Lm')).sub M
      ((Near.lit M 404337883 500000000 (B := 1) (by norm_num) le_rfl).mul M Ls')
    refine h.finish (by norm_num; ring) ?_
    unfold FP.eps
    nlinarith

end oklab4

section oklab5
open FpLin
variable (M : FPModel)

/-- channel condition from the forward sRGB theorems -/
theorem chan_of_fwd {b x : ℝ} {n : ℕ} (hn : n ≤ 255) (hbx : |b - x| ≤ 4e-11) (hx : |x - (n:ℝ)/255| ≤ 3.6e-6) :
    Chan b x 4e-11 ∧ (1 ≤ n → 0.0039 ≤ x) := by
  obtain ⟨h1, h2⟩ := abs_le.mp hx
  have hn' : (n:ℝ) ≤ 255 := by exact_mod_cast hn
  have hle : (n:ℝ)/255 ≤ 1 := by rw [div_le_one (by norm_num)]; exact hn'
  rcases Nat.eq_zero_or_pos n with h0 | h0
  · subst h0
    simp only [Nat.cast_zero, zero_div] at h1 h2
    refine ⟨⟨hbx, Or.inr (by rw [abs_le]; constructor <;> linarith)⟩, fun h => absurd h (by norm_num)⟩
  · have h1n : (1:ℝ) ≤ n := by exact_mod_cast h0
    have : (1:ℝ)/255 ≤ (n:ℝ)/255 := div_le_div_of_nonneg_right h1n (by norm_num)
    have hb : 0.0039 ≤ x := by norm_num at this ⊢; linarith
    exact ⟨⟨hbx, Or.inl ⟨hb, by linarith⟩⟩, fun _ => hb⟩

/-- **OkLab of a non-black 8-bit colour via XYZ(D65), `RF M` against the exact-real model**: `4.5e-8` -/
theorem oklab_xyz_close (c : Rgb) (hr : c.r ≤ 255) (hg : c.g ≤ 255) (hb : c.b ≤ 255)
    (hnb : 1 ≤ c.r ∨ 1 ≤ c.g ∨ 1 ≤ c.b) :
    |(OkLab.from_Xyz (Xyz.from_rgb (α := RF M) c .D65)).l.val - (OkLab.from_Xyz (Xyz.from_rgb (α := ℝ) c .D65)).l| ≤ 4.5e-8 ∧
    |(OkLab.from_Xyz (Xyz.from_rgb (α := RF M) c .D65)).a.val - (OkLab.from_Xyz (Xyz.from_rgb (α := ℝ) c .D65)).a| ≤ 4.5e-8 ∧
    |(OkLab.from_Xyz (Xyz.from_rgb (α := RF M) c .D65)).b.val - (OkLab.from_Xyz (Xyz.from_rgb (α := ℝ) c .D65)).b| ≤ 4.5e-8 := by
  obtain ⟨f1, f2, f3⟩ := srgb_fwd_close M c hr hg hb
  obtain ⟨t1, t2, t3⟩ := Props.C08.forward_srgb_tight c hr hg hb
  obtain ⟨c1, d1⟩ := chan_of_fwd hr f1 t1
  obtain ⟨c2, d2⟩ := chan_of_fwd hg f2 t2
  obtain ⟨c3, d3⟩ := chan_of_fwd hb f3 t3
  have hbright : 0.0039 ≤ (Srgb.from_Xyz (Xyz.from_rgb (α := ℝ) c .D65)).r ∨
      0.0039 ≤ (Srgb.from_Xyz (Xyz.from_rgb (α := ℝ) c .D65)).g ∨
      0.0039 ≤ (Srgb.from_Xyz (Xyz.from_rgb (α := ℝ) c .D65)).b := by
    rcases hnb with h | h | h
    · exact Or.inl (d1 h)
    · exact Or.inr (Or.inl (d2 h))
    · exact Or.inr (Or.inr (d3 h))
  obtain ⟨k1, k2, k3⟩ := oklab_core M (Srgb.from_Xyz (Xyz.from_rgb (α := RF M) c .D65))
    (Srgb.from_Xyz (Xyz.from_rgb (α := ℝ) c .D65)) 4e-11 (by norm_num) (by norm_num) c1 c2 c3 hbright
  exact ⟨k1.trans (by norm_num), k2.trans (by norm_num), k3.trans (by norm_num)⟩

/-! ### black -/

theorem cbrt_tiny {z : ℝ} (h : |z| ≤ 1e-237) : |M.rnd (Real.cbrt z)| ≤ 2e-79 := by
  have h1 : |Real.cbrt z| ≤ 1e-79 := by
    rw [abs_cbrt]
    exact (cbrt_bounds (x := |z|) (a := 0) (b := 1e-79) le_rfl (by norm_num) (by simp)
      (h.trans (by norm_num))).2
  have h2 := rnd_abs M h1 (by norm_num)
  have h3 := abs_sub_abs_le_abs_sub (M.rnd (Real.cbrt z)) (Real.cbrt z)
  unfold FP.eps at h2
  linarith

theorem lms_black (n1 d1 n2 d2 n3 d3 : ℕ) {a1 a2 a3 : ℝ}
    (hm1 : (0.05:ℝ) ≤ (n1:ℝ)/d1) (hm1' : (n1:ℝ)/d1 ≤ 1) (hm2 : (0.05:ℝ) ≤ (n2:ℝ)/d2) (hm2' : (n2:ℝ)/d2 ≤ 1)
    (hm3 : (0.05:ℝ) ≤ (n3:ℝ)/d3) (hm3' : (n3:ℝ)/d3 ≤ 1)
    (h1 : |a1| ≤ FP.eta) (h2 : |a2| ≤ FP.eta) (h3 : |a3| ≤ FP.eta) :
    Near (M.rnd (Real.cbrt (M.rnd (M.rnd (M.rnd (M.rnd ((n1:ℝ)/d1) * a1) + M.rnd (M.rnd ((n2:ℝ)/d2) * a2))
        + M.rnd (M.rnd ((n3:ℝ)/d3) * a3))))) 0 2e-79 1 := by
  have mk : ∀ a : ℝ, |a| ≤ FP.eta → RNear a 0 0 FP.eta := fun a h =>
    ⟨by simpa using h, le_rfl, le_rfl, by norm_num, FP.eta_pos.le⟩
  have D := posdot3 M (lit_rel M n1 d1 (by linarith)) (lit_rel M n2 d2 (by linarith)) (lit_rel M n3 d3 (by linarith))
    (by linarith) hm1' (by linarith) hm2' (by linarith) hm3' (mk a1 h1) (mk a2 h2) (mk a3 h3) (by norm_num)
  have hD := D.err
  simp only [mul_zero, add_zero, sub_zero, zero_add] at hD
  have heta : FP.eta ≤ 1e-240 := FP.eta_lt.le.trans (by norm_num)
  have := cbrt_tiny M (hD.trans (by linarith))
  exact ⟨by simpa using this, by simp, le_rfl⟩


theorem rnd_small {w B : ℝ} (h : |w| ≤ B) (hB : 1e-200 ≤ B) : |M.rnd w| ≤ 1.01 * B := by
  have h2 := rnd_abs M h hB
  have h3 := abs_sub_abs_le_abs_sub (M.rnd w) w
  unfold FP.eps at h2
  nlinarith

theorem m2_black_pm {c1 c2 c3 l m v : ℝ} (h1 : |c1| ≤ 3.01) (h2 : |c2| ≤ 3.01) (h3 : |c3| ≤ 3.01)
    (hl : |l| ≤ 2e-79) (hm : |m| ≤ 2e-79) (hv : |v| ≤ 2e-79) :
    |M.rnd (M.rnd (M.rnd (c1 * l) + M.rnd (c2 * m)) - M.rnd (c3 * v))| ≤ 1e-70 := by
  have p : ∀ c x : ℝ, |c| ≤ 3.01 → |x| ≤ 2e-79 → |M.rnd (c * x)| ≤ 1.01 * 7e-79 := by
    intro c x hc hx
    apply rnd_small M _ (by norm_num)
    rw [abs_mul]; nlinarith [abs_nonneg c, abs_nonneg x]
  have a1 := p c1 l h1 hl
  have a2 := p c2 m h2 hm
  have a3 := p c3 v h3 hv
  have s1 : |M.rnd (M.rnd (c1 * l) + M.rnd (c2 * m))| ≤ 1.01 * 2e-78 :=
    rnd_small M ((abs_add_le _ _).trans (by linarith)) (by norm_num)
  have s2 := rnd_small M (w := M.rnd (M.rnd (c1 * l) + M.rnd (c2 * m)) - M.rnd (c3 * v)) (B := 1e-77)
    ((abs_sub _ _).trans (by linarith)) (by norm_num)
  exact s2.trans (by norm_num)

theorem m2_black_mp {c1 c2 c3 l m v : ℝ} (h1 : |c1| ≤ 3.01) (h2 : |c2| ≤ 3.01) (h3 : |c3| ≤ 3.01)
    (hl : |l| ≤ 2e-79) (hm : |m| ≤ 2e-79) (hv : |v| ≤ 2e-79) :
    |M.rnd (M.rnd (M.rnd (c1 * l) - M.rnd (c2 * m)) + M.rnd (c3 * v))| ≤ 1e-70 := by
  have p : ∀ c x : ℝ, |c| ≤ 3.01 → |x| ≤ 2e-79 → |M.rnd (c * x)| ≤ 1.01 * 7e-79 := by
    intro c x hc hx
    apply rnd_small M _ (by norm_num)
    rw [abs_mul]; nlinarith [abs_nonneg c, abs_nonneg x]
  have a1 := p c1 l h1 hl
  have a2 := p c2 m h2 hm
  have a3 := p c3 v h3 hv
  have s1 : |M.rnd (M.rnd (c1 * l) - M.rnd (c2 * m))| ≤ 1.01 * 2e-78 :=
    rnd_small M ((abs_sub _ _).trans (by linarith)) (by norm_num)
  have s2 := rnd_small M (w := M.rnd (M.rnd (c1 * l) - M.rnd (c2 * m)) + M.rnd (c3 * v)) (B := 1e-77)
    ((abs_add_le _ _).trans (by linarith)) (by norm_num)
  exact s2.trans (by norm_num)

/-- **OkLab of an exactly-zero encoded triple in `RF M`**: every component is at most `1e-70` in
magnitude (`powf(0, 2.2)` is only known to be within `η = 2^-1075` of 0 in the model) -/
theorem oklab_black (s' : Srgb (RF M)) (h1 : s'.r.val = 0) (h2 : s'.g.val = 0) (h3 : s'.b.val = 0) :
    |(OkLab.from_Srgb s').l.val| ≤ 1e-70 ∧ |(OkLab.from_Srgb s').a.val| ≤ 1e-70 ∧
    |(OkLab.from_Srgb s').b.val| ≤ 1e-70 := by
  simp only [OkLab.from_Srgb, Srgb.as_linear, C.OKSR, C.OKSG, C.OKSB, C.OKL, C.OKA, C.OKB,
    FltRF.lit_val, FltRF.add_val, FltRF.sub_val, FltRF.mul_val, FltRF.cbrt_val, FltRF.pow_val, FltRF.max_val]
  have z : M.rnd (((0:ℕ):ℝ) / ((1:ℕ):ℝ)) = 0 := by
    have := lit_int M 0 (by norm_num); simpa using this
  rw [z, h1, h2, h3, max_self]
  have hy := lit_close M 11 5 (B := 3) (by norm_num) (by norm_num)
  have hP : |M.pow 0 (M.rnd (((11:ℕ):ℝ) / ((5:ℕ):ℝ)))| ≤ FP.eta := by
    have h0 : (0:ℝ) ^ (M.rnd (((11:ℕ):ℝ) / ((5:ℕ):ℝ))) = 0 := by
      apply Real.zero_rpow
      have := (abs_le.mp hy).1
      unfold FP.eps at this; push_cast at this ⊢; linarith
    have := M.pow_err 0 (M.rnd (((11:ℕ):ℝ) / ((5:ℕ):ℝ))) le_rfl
    rwa [h0, abs_zero, mul_zero, zero_add, sub_zero] at this
  generalize M.pow 0 (M.rnd (((11:ℕ):ℝ) / ((5:ℕ):ℝ))) = P at *
  have Ll := lms_black M 1030553677 2500000000 5363325363 10000000000 514459929 10000000000
    (by norm_num) (by norm_num) (by norm_num) (by norm_num) (by norm_num) (by norm_num) hP hP hP
  have Lm := lms_black M 1059517491 5000000000 6806995451 10000000000 536984783 5000000000
    (by norm_num) (by norm_num) (by norm_num) (by norm_num) (by norm_num) (by norm_num) hP hP hP
  have Ls := lms_black M 883024619 10000000000 352148547 1250000000 1259957401 2000000000
    (by norm_num) (by norm_num) (by norm_num) (by norm_num) (by norm_num) (by norm_num) hP hP hP
  generalize M.rnd (Real.cbrt _) = l' at Ll ⊢
  generalize M.rnd (Real.cbrt _) = m' at Lm ⊢
  generalize M.rnd (Real.cbrt _) = v' at Ls ⊢
  have c : ∀ n d : ℕ, (n:ℝ)/d ≤ 3 → |M.rnd ((n:ℝ)/d)| ≤ 3.01 := by
    intro n d h
    have h1 := lit_close M n d (B := 3) h (by norm_num)
    have h2 := abs_sub_abs_le_abs_sub (M.rnd ((n:ℝ)/d)) ((n:ℝ)/d)
    rw [abs_of_nonneg (by positivity : (0:ℝ) ≤ (n:ℝ)/d)] at h2
    unfold FP.eps at h1; linarith
  have hl := Ll.err
  have hm := Lm.err
  have hv := Ls.err
  rw [sub_zero] at hl hm hv
  exact ⟨m2_black_pm M (c _ _ (by norm_num)) (c _ _ (by norm_num)) (c _ _ (by norm_num)) hl hm hv,
    m2_black_mp M (c _ _ (by norm_num)) (c _ _ (by norm_num)) (c _ _ (by norm_num)) hl hm hv,
    m2_black_pm M (c _ _ (by norm_num)) (c _ _ (by norm_num)) (c _ _ (by norm_num)) hl hm hv⟩

/-- sRGB of black is exactly (0,0,0) in every model -/
theorem srgb_black_fp :
    (Srgb.from_Xyz (Xyz.from_rgb (α := RF M) ⟨0, 0, 0⟩ .D65)).r.val = 0 ∧
    (Srgb.from_Xyz (Xyz.from_rgb (α := RF M) ⟨0, 0, 0⟩ .D65)).g.val = 0 ∧
    (Srgb.from_Xyz (Xyz.from_rgb (α := RF M) ⟨0, 0, 0⟩ .D65)).b.val = 0 := by
  obtain ⟨x1, x2, x3⟩ := xyz_black_fp M .D65
  rw [from_rgb_eq_fp', srgb_from_xyz_fp]
  dsimp only
  have d : ∀ m, (dotF' M (xyzF M .D65 ⟨0, 0, 0⟩) m).val = 0 := fun m => by
    rw [dotF'_val]; exact dotF_zero M m _ x1 x2 x3
  have e0 : ∀ a : RF M, a.val = 0 → (F64.apply_srgb_gamma_correction a).val = 0 := by
    intro a ha
    have hc : (0:ℝ) ≤ M.rnd (((7827:ℕ):ℝ) / ((2500000:ℕ):ℝ)) := rnd_nonneg M (by positivity)
    simp only [F64.apply_srgb_gamma_correction, FltRF.le_eq, FltRF.lit_val, ha, hc, decide_true,
      if_true, FltRF.mul_val, zero_mul, rnd_zero]
  exact ⟨e0 _ (d _), e0 _ (d _), e0 _ (d _)⟩

theorem cbrt_zero' : Real.cbrt 0 = 0 := by
  unfold Real.cbrt; rw [if_pos le_rfl, Real.zero_rpow (by norm_num)]

/-- OkLab of black is exactly (0,0,0) in the exact-real model -/
theorem oklab_black_real :
    (OkLab.from_Xyz (Xyz.from_rgb (α := ℝ) ⟨0, 0, 0⟩ .D65)).l = 0 ∧
    (OkLab.from_Xyz (Xyz.from_rgb (α := ℝ) ⟨0, 0, 0⟩ .D65)).a = 0 ∧
    (OkLab.from_Xyz (Xyz.from_rgb (α := ℝ) ⟨0, 0, 0⟩ .D65)).b = 0 := by
  have hl : lin .D65 ⟨0, 0, 0⟩ = (0, 0, 0) := by simp [lin, dec_zero]
  have e0 : F64.apply_srgb_gamma_correction (0:ℝ) = 0 := by
    rw [Lemmas.Curves.srgb_enc_lin (by norm_num)]; norm_num
  have hs : Srgb.from_Xyz (Xyz.from_rgb (α := ℝ) ⟨0, 0, 0⟩ .D65) = ⟨0, 0, 0⟩ := by
    rw [from_rgb_eq, srgb_from_xyz_real, hl]
    simp [mulVec, dot, e0]
  show (OkLab.from_Srgb (Srgb.from_Xyz _)).l = 0 ∧ (OkLab.from_Srgb (Srgb.from_Xyz _)).a = 0 ∧
    (OkLab.from_Srgb (Srgb.from_Xyz _)).b = 0
  rw [hs, Props.C07.oklab_is_ottosson_of_pow22]
  have hp : Props.C07.pow22 0 = 0 := by
    unfold Props.C07.pow22; rw [max_self, Real.zero_rpow (by norm_num)]
  simp [Props.C07.ottosson, Props.C07.mulVec, Props.C07.row, Props.C07.cbrt3, hp, cbrt_zero']

/-- **OkLab of EVERY 8-bit colour via XYZ(D65), `RF M` against the exact-real model**: `4.5e-8` -/
theorem oklab_xyz_close_all (c : Rgb) (hr : c.r ≤ 255) (hg : c.g ≤ 255) (hb : c.b ≤ 255) :
    |(OkLab.from_Xyz (Xyz.from_rgb (α := RF M) c .D65)).l.val - (OkLab.from_Xyz (Xyz.from_rgb (α := ℝ) c .D65)).l| ≤ 4.5e-8 ∧
    |(OkLab.from_Xyz (Xyz.from_rgb (α := RF M) c .D65)).a.val - (OkLab.from_Xyz (Xyz.from_rgb (α := ℝ) c .D65)).a| ≤ 4.5e-8 ∧
    |(OkLab.from_Xyz (Xyz.from_rgb (α := RF M) c .D65)).b.val - (OkLab.from_Xyz (Xyz.from_rgb (α := ℝ) c .D65)).b| ≤ 4.5e-8 := by
  by_cases hnb : 1 ≤ c.r ∨ 1 ≤ c.g ∨ 1 ≤ c.b
  · exact oklab_xyz_close M c hr hg hb hnb
  · have h0 : c = ⟨0, 0, 0⟩ := by
      obtain ⟨r, g, b⟩ := c
      simp only [not_or, not_le, Nat.lt_one_iff] at hnb
      simp only [Rgb.mk.injEq]; exact hnb
    subst h0
    obtain ⟨z1, z2, z3⟩ := srgb_black_fp M
    obtain ⟨k1, k2, k3⟩ := oklab_black M _ z1 z2 z3
    obtain ⟨r1, r2, r3⟩ := oklab_black_real
    rw [r1, r2, r3]
    simp only [sub_zero]
    exact ⟨k1.trans (by norm_num), k2.trans (by norm_num), k3.trans (by norm_num)⟩

/-- the direct path: an `Srgb` value whose channels are byte levels `n/255`, each computed with one
rounded division (`lvlF`), against the exact-real `OkLab.from_Srgb` of the exact levels: `1e-12` -/
theorem oklab_direct_close (c : Rgb) (hr : c.r ≤ 255) (hg : c.g ≤ 255) (hb : c.b ≤ 255) :
    |(OkLab.from_Srgb (⟨lvlF M c.r, lvlF M c.g, lvlF M c.b⟩ : Srgb (RF M))).l.val
      - (OkLab.from_Srgb (⟨(c.r:ℝ)/255, (c.g:ℝ)/255, (c.b:ℝ)/255⟩ : Srgb ℝ)).l| ≤ 1e-12 ∧
    |(OkLab.from_Srgb (⟨lvlF M c.r, lvlF M c.g, lvlF M c.b⟩ : Srgb (RF M))).a.val
      - (OkLab.from_Srgb (⟨(c.r:ℝ)/255, (c.g:ℝ)/255, (c.b:ℝ)/255⟩ : Srgb ℝ)).a| ≤ 1e-12 ∧
    |(OkLab.from_Srgb (⟨lvlF M c.r, lvlF M c.g, lvlF M c.b⟩ : Srgb (RF M))).b.val
      - (OkLab.from_Srgb (⟨(c.r:ℝ)/255, (c.g:ℝ)/255, (c.b:ℝ)/255⟩ : Srgb ℝ)).b| ≤ 1e-12 := by
  have lv : ∀ n : ℕ, n ≤ 255 → Chan (lvlF M n).val ((n:ℝ)/255) FP.eps ∧ (1 ≤ n → 0.0039 ≤ (n:ℝ)/255) ∧
      (n = 0 → (lvlF M n).val = 0) := by
    intro n hn
    have hn' : (n:ℝ) ≤ 255 := by exact_mod_cast hn
    have hle : (n:ℝ)/255 ≤ 1 := by rw [div_le_one (by norm_num)]; exact hn'
    have h0 : (0:ℝ) ≤ (n:ℝ)/255 := by positivity
    have hc : |(lvlF M n).val - (n:ℝ)/255| ≤ FP.eps := by
      rw [lvlF_val]
      have := rnd_abs M (x := (n:ℝ)/255) (B := 1) (by rw [abs_of_nonneg h0]; exact hle) (by norm_num)
      linarith
    refine ⟨⟨hc, ?_⟩, ?_, ?_⟩
    · rcases Nat.eq_zero_or_pos n with hz | hp
      · right; subst hz; simp; norm_num
      · left
        have h1n : (1:ℝ) ≤ n := by exact_mod_cast hp
        have : (1:ℝ)/255 ≤ (n:ℝ)/255 := div_le_div_of_nonneg_right h1n (by norm_num)
        constructor
        · norm_num at this ⊢; linarith
        · linarith
    · intro hp
      have h1n : (1:ℝ) ≤ n := by exact_mod_cast hp
      have : (1:ℝ)/255 ≤ (n:ℝ)/255 := div_le_div_of_nonneg_right h1n (by norm_num)
      norm_num at this ⊢; linarith
    · intro hz; subst hz; rw [lvlF_val]; simp [rnd_zero]
  obtain ⟨c1, d1, z1⟩ := lv c.r hr
  obtain ⟨c2, d2, z2⟩ := lv c.g hg
  obtain ⟨c3, d3, z3⟩ := lv c.b hb
  by_cases hnb : 1 ≤ c.r ∨ 1 ≤ c.g ∨ 1 ≤ c.b
  · have hbright : 0.0039 ≤ (c.r:ℝ)/255 ∨ 0.0039 ≤ (c.g:ℝ)/255 ∨ 0.0039 ≤ (c.b:ℝ)/255 := by
      rcases hnb with h | h | h
      · exact Or.inl (d1 h)
      · exact Or.inr (Or.inl (d2 h))
      · exact Or.inr (Or.inr (d3 h))
    obtain ⟨k1, k2, k3⟩ := oklab_core M (⟨lvlF M c.r, lvlF M c.g, lvlF M c.b⟩ : Srgb (RF M))
      (⟨(c.r:ℝ)/255, (c.g:ℝ)/255, (c.b:ℝ)/255⟩ : Srgb ℝ) FP.eps FP.eps_pos.le (by unfold FP.eps; norm_num)
      c1 c2 c3 hbright
    have : 1100 * FP.eps + 1e-13 ≤ (1e-12:ℝ) := by unfold FP.eps; norm_num
    exact ⟨k1.trans this, k2.trans this, k3.trans this⟩
  · simp only [not_or, not_le, Nat.lt_one_iff] at hnb
    obtain ⟨n1, n2, n3⟩ := hnb
    obtain ⟨k1, k2, k3⟩ := oklab_black M (⟨lvlF M c.r, lvlF M c.g, lvlF M c.b⟩ : Srgb (RF M)) (z1 n1) (z2 n2) (z3 n3)
    rw [Props.C07.oklab_is_ottosson_of_pow22]
    have hp : Props.C07.pow22 0 = 0 := by
      unfold Props.C07.pow22; rw [max_self, Real.zero_rpow (by norm_num)]
    simp only [n1, n2, n3, Nat.cast_zero, zero_div, hp, Props.C07.ottosson, Props.C07.mulVec, Props.C07.row,
      Props.C07.cbrt3, mul_zero, add_zero, cbrt_zero', sub_zero] at k1 k2 k3 ⊢
    exact ⟨k1.trans (by norm_num), k2.trans (by norm_num), k3.trans (by norm_num)⟩

end oklab5

section rec2020
variable (M : FPModel)
open Props.C08 Props.C08_rec2020

theorem rec2020_rows : RowOK M (C.rec2020_XR) (C.rec2020_XR) ∧ RowOK M (C.XG) (C.XG) ∧ RowOK M (C.XB) (C.XB) := by
  simp only [RowOK, C.rec2020_XR, C.XG, C.XB]
  refine ⟨⟨?_, ?_, ?_⟩, ⟨?_, ?_, ?_⟩, ⟨?_, ?_, ?_⟩⟩ <;>
  first
    | (apply coef_lit; norm_num)
    | (apply coef_neg; apply coef_lit; norm_num)

theorem rec2020_from_xyz_fp (x : Xyz (RF M)) :
    Rec2020.from_Xyz x =
      ⟨F64.compute_rec2020_gamma_correction (dotF' M (x.x, x.y, x.z) C.rec2020_XR),
       F64.compute_rec2020_gamma_correction (dotF' M (x.x, x.y, x.z) C.XG),
       F64.compute_rec2020_gamma_correction (dotF' M (x.x, x.y, x.z) C.XB)⟩ := rfl

theorem bt2020_slope18 : ((9:ℕ):ℝ) / ((20:ℕ):ℝ) * (0.018:ℝ) ^ (((9:ℕ):ℝ) / ((20:ℕ):ℝ) - 1) ≤ 4.11 := bt709_slope'

/-- **BT.2020 OETF in `RF M` against the specification OETF at a nearby point**, unconditional
(the specification OETF jumps by `2.7965e-6` at `β = 0.0181`): `2.8e-6 + 1e-10` -/
theorem rec2020_enc_quasi (a : RF M) (w : ℝ) (haw : |a.val - w| ≤ 1e-11) (hlo : -1 ≤ w) (hhi : w ≤ 1.2) :
    |(F64.compute_rec2020_gamma_correction a).val - oetf2020 w| ≤ 2.8e-6 + 1e-10 := by
  obtain ⟨hv1, hv2⟩ := abs_le.mp haw
  have l0 := lit_close M 181 10000 (B := 1) (by norm_num) (by norm_num)
  obtain ⟨l01, l02⟩ := abs_le.mp l0
  -- a point `a*` on the side of `β` that the computed comparison chose
  suffices h : ∃ a' : ℝ, |a' - a.val| ≤ 2e-15 ∧ |(F64.compute_rec2020_gamma_correction a).val - oetf2020 a'| ≤ 3e-14 by
    obtain ⟨a', h1, h2⟩ := h
    have q := oetf2020_quasi_lipschitz w a'
    have t1 := abs_sub_le a' a.val w
    have t2 := abs_sub_le (F64.compute_rec2020_gamma_correction a).val (oetf2020 a') (oetf2020 w)
    linarith
  by_cases hc : a.val < M.rnd (((181:ℕ):ℝ) / ((10000:ℕ):ℝ))
  · simp only [F64.compute_rec2020_gamma_correction, FltRF.lt_eq, FltRF.lit_val, hc, decide_true, if_true, FltRF.mul_val]
    have l1 := lit_close M 9 2 (B := 4.5) (by norm_num) (by norm_num)
    have ba : |a.val| ≤ 1.3 := by rw [abs_le]; constructor <;> linarith
    have m1 := mul_close M (a := a.val) (x := a.val) (ea := 0) (by simp) l1 ba (By := 4.5)
      (by rw [abs_of_nonneg (by positivity)]; norm_num) (by norm_num)
    have m1' : |M.rnd (a.val * M.rnd (((9:ℕ):ℝ) / ((2:ℕ):ℝ))) - a.val * 4.5| ≤ 2e-15 := by
      rw [show a.val * 4.5 = a.val * (((9:ℕ):ℝ) / ((2:ℕ):ℝ)) by norm_num]
      refine m1.trans ?_; norm_num [FP.eps]
    by_cases hb : a.val < 0.0181
    · refine ⟨a.val, by rw [sub_self, abs_zero]; norm_num, ?_⟩
      unfold oetf2020 β2020
      rw [if_pos hb]
      refine (m1'.trans_eq' ?_).trans (by norm_num)
      congr 1; ring
    · rw [not_lt] at hb
      refine ⟨0.0181 - 1e-15, ?_, ?_⟩
      · rw [abs_le]; unfold FP.eps at *; push_cast at *; constructor <;> linarith
      · unfold oetf2020 β2020
        rw [if_pos (by norm_num)]
        have : |a.val * 4.5 - 4.5 * (0.0181 - 1e-15)| ≤ 1e-14 := by
          rw [abs_le]; unfold FP.eps at *; push_cast at *; constructor <;> linarith
        have t := abs_sub_le (M.rnd (a.val * M.rnd (((9:ℕ):ℝ) / ((2:ℕ):ℝ)))) (a.val * 4.5) (4.5 * (0.0181 - 1e-15))
        linarith
  · simp only [F64.compute_rec2020_gamma_correction, FltRF.lt_eq, FltRF.lit_val, hc, decide_false, if_false,
      FltRF.mul_val, FltRF.sub_val, FltRF.pow_val, Bool.false_eq_true]
    rw [not_lt] at hc
    have ha18 : (0.018:ℝ) ≤ a.val := by unfold FP.eps at *; push_cast at *; linarith
    have ha2 : a.val ≤ 2 := by linarith
    have ip := lit_close M 9 20 (B := 3) (by norm_num) (by norm_num)
    have hs := bt2020_slope18
    rw [lit_int M 1 (by norm_num)]
    have l2 := lit_close M 10993 10000 (B := 1.0993) (by norm_num) (by norm_num)
    -- the computed value against G(a) = α a^0.45 − (α − 1)
    have hG : ∀ p : ℝ, p = ((9:ℕ):ℝ) / ((20:ℕ):ℝ) → |M.rnd (((9:ℕ):ℝ) / ((20:ℕ):ℝ)) - p| ≤ FP.eps * 3 →
        p * (0.018:ℝ) ^ (p - 1) ≤ 4.11 →
        |M.rnd (M.rnd (M.rnd (((10993:ℕ):ℝ) / ((10000:ℕ):ℝ)) * M.pow a.val (M.rnd (((9:ℕ):ℝ) / ((20:ℕ):ℝ)))) -
            M.rnd (M.rnd (((10993:ℕ):ℝ) / ((10000:ℕ):ℝ)) - ((1:ℕ):ℝ))) -
          (((10993:ℕ):ℝ) / ((10000:ℕ):ℝ) * a.val ^ p - (((10993:ℕ):ℝ) / ((10000:ℕ):ℝ) - ((1:ℕ):ℝ)))| ≤ 2e-14 := by
      intro p hp ip hs
      have hp0 : 0.4 ≤ p := by rw [hp]; norm_num
      have hp1 : p ≤ 0.5 := by rw [hp]; norm_num
      have pw := pow_enc_lip M (b := a.val) (x := a.val) (x0 := 0.018) (K := 4.11) (e := 0) (by norm_num)
        ha18 ha2 ha18 (by simp) hp0 hp1 ip hs
      have bp0 : 0 ≤ a.val ^ p := Real.rpow_nonneg (by linarith) p
      have bp : a.val ^ p ≤ 2 := by
        calc a.val ^ p ≤ (2:ℝ) ^ p := Real.rpow_le_rpow (by linarith) ha2 (by linarith)
          _ ≤ (2:ℝ) ^ (1:ℝ) := Real.rpow_le_rpow_of_exponent_le (by norm_num) (by linarith)
          _ = 2 := Real.rpow_one 2
      have bp' : |a.val ^ p| ≤ 2 := by rw [abs_of_nonneg bp0]; exact bp
      have m1 := mul_close M l2 pw (Bx := 1.0993) (by rw [abs_of_nonneg (by positivity)]; norm_num) bp' (by norm_num)
      have one0 : |((1:ℕ):ℝ) - ((1:ℕ):ℝ)| ≤ 0 := by simp
      have bs : |((10993:ℕ):ℝ) / ((10000:ℕ):ℝ) - ((1:ℕ):ℝ)| ≤ 1 := by norm_num [abs_le]
      have s0 := sub_close M l2 one0 bs (by norm_num)
      have bm : |((10993:ℕ):ℝ) / ((10000:ℕ):ℝ) * a.val ^ p - (((10993:ℕ):ℝ) / ((10000:ℕ):ℝ) - ((1:ℕ):ℝ))| ≤ 3 := by
        rw [abs_le]; push_cast; constructor <;> nlinarith
      have s1 := sub_close M m1 s0 bm (by norm_num)
      refine s1.trans ?_
      norm_num [FP.eps]
    have e45 : (0.45:ℝ) = ((9:ℕ):ℝ) / ((20:ℕ):ℝ) := by norm_num
    have G := hG (((9:ℕ):ℝ) / ((20:ℕ):ℝ)) rfl ip hs
    by_cases hb : (0.0181:ℝ) ≤ a.val
    · refine ⟨a.val, by rw [sub_self, abs_zero]; norm_num, ?_⟩
      unfold oetf2020 β2020 α2020
      rw [if_neg (not_lt.mpr hb), e45]
      refine (G.trans_eq' ?_).trans (by norm_num)
      congr 1; norm_num
    · rw [not_le] at hb
      refine ⟨0.0181, ?_, ?_⟩
      · rw [abs_le]; unfold FP.eps at *; push_cast at *; constructor <;> linarith
      · unfold oetf2020 β2020 α2020
        rw [if_neg (by norm_num), e45]
        have lip := rpow_lip_away (p := ((9:ℕ):ℝ) / ((20:ℕ):ℝ)) (x0 := 0.018) (a := a.val) (b := 0.0181)
          (by norm_num) (by norm_num) (by norm_num) ha18 (by norm_num)
        have d : |a.val - 0.0181| ≤ 2e-16 := by
          rw [abs_le]; unfold FP.eps at *; push_cast at *; constructor <;> linarith
        have lip' : |a.val ^ (((9:ℕ):ℝ) / ((20:ℕ):ℝ)) - (0.0181:ℝ) ^ (((9:ℕ):ℝ) / ((20:ℕ):ℝ))| ≤ 4.11 * 2e-16 :=
          lip.trans (mul_le_mul hs d (abs_nonneg _) (by norm_num))
        have : |(((10993:ℕ):ℝ) / ((10000:ℕ):ℝ) * a.val ^ (((9:ℕ):ℝ) / ((20:ℕ):ℝ)) - (((10993:ℕ):ℝ) / ((10000:ℕ):ℝ) - ((1:ℕ):ℝ)))
            - (1.0993 * (0.0181:ℝ) ^ (((9:ℕ):ℝ) / ((20:ℕ):ℝ)) - (1.0993 - 1))| ≤ 1e-15 := by
          have e : (((10993:ℕ):ℝ) / ((10000:ℕ):ℝ) * a.val ^ (((9:ℕ):ℝ) / ((20:ℕ):ℝ)) - (((10993:ℕ):ℝ) / ((10000:ℕ):ℝ) - ((1:ℕ):ℝ)))
              - (1.0993 * (0.0181:ℝ) ^ (((9:ℕ):ℝ) / ((20:ℕ):ℝ)) - (1.0993 - 1))
              = 1.0993 * (a.val ^ (((9:ℕ):ℝ) / ((20:ℕ):ℝ)) - (0.0181:ℝ) ^ (((9:ℕ):ℝ) / ((20:ℕ):ℝ))) := by
            push_cast; ring
          rw [e, abs_mul, abs_of_nonneg (by norm_num : (0:ℝ) ≤ 1.0993)]
          nlinarith [abs_nonneg (a.val ^ (((9:ℕ):ℝ) / ((20:ℕ):ℝ)) - (0.0181:ℝ) ^ (((9:ℕ):ℝ) / ((20:ℕ):ℝ)))]
        have t := abs_sub_le (M.rnd (M.rnd (M.rnd (((10993:ℕ):ℝ) / ((10000:ℕ):ℝ)) * M.pow a.val (M.rnd (((9:ℕ):ℝ) / ((20:ℕ):ℝ)))) -
            M.rnd (M.rnd (((10993:ℕ):ℝ) / ((10000:ℕ):ℝ)) - ((1:ℕ):ℝ))))
          (((10993:ℕ):ℝ) / ((10000:ℕ):ℝ) * a.val ^ (((9:ℕ):ℝ) / ((20:ℕ):ℝ)) - (((10993:ℕ):ℝ) / ((10000:ℕ):ℝ) - ((1:ℕ):ℝ)))
          (1.0993 * (0.0181:ℝ) ^ (((9:ℕ):ℝ) / ((20:ℕ):ℝ)) - (1.0993 - 1))
        linarith

/-- BT.2020 linear components of a linear-sRGB triple of the unit cube lie in `[-0.001, 1.001]`
(the combined matrix has positive entries and rows summing to 1 up to `1e-6`) -/
theorem rec2020_lin_range (l : V3) (h0 : 0 ≤ l.1) (h0' : l.1 ≤ 1) (h1 : 0 ≤ l.2.1) (h1' : l.2.1 ≤ 1)
    (h2 : 0 ≤ l.2.2) (h2' : l.2.2 ≤ 1) :
    (-0.001 ≤ dot C.rec2020_XR (mulVec (fwd .D65) l) ∧ dot C.rec2020_XR (mulVec (fwd .D65) l) ≤ 1.001) ∧
    (-0.001 ≤ dot C.XG (mulVec (fwd .D65) l) ∧ dot C.XG (mulVec (fwd .D65) l) ≤ 1.001) ∧
    (-0.001 ≤ dot C.XB (mulVec (fwd .D65) l) ∧ dot C.XB (mulVec (fwd .D65) l) ≤ 1.001) := by
  obtain ⟨l0, l1, l2⟩ := l
  simp only at h0 h0' h1 h1' h2 h2'
  simp only [Lemmas.Matrix.dot, Lemmas.Matrix.mulVec, fwd, C.rec2020_XR, C.XG, C.XB, C.X65, C.Y65, C.Z65, FltReal.lit_eq]
  norm_num
  refine ⟨⟨?_, ?_⟩, ⟨?_, ?_⟩, ⟨?_, ?_⟩⟩ <;> linarith

/-- **Rec.2020 forward in `RF M`**, unconditional form mirroring `Props.C08_rec2020.forward_rec2020_partial`:
each channel within `2.81e-6` of the BT.2020 OETF of the specification's linear component -/
theorem rec2020_fwd_fp (c : Rgb) (hr : c.r ≤ 255) (hg : c.g ≤ 255) (hb : c.b ≤ 255) :
    |(Rec2020.from_Xyz (Xyz.from_rgb (α := RF M) c .D65)).r.val - oetf2020 (lin2020 (Xyz.from_rgb (α := ℝ) c .D65)).1| ≤ 2.81e-6 ∧
    |(Rec2020.from_Xyz (Xyz.from_rgb (α := RF M) c .D65)).g.val - oetf2020 (lin2020 (Xyz.from_rgb (α := ℝ) c .D65)).2.1| ≤ 2.81e-6 ∧
    |(Rec2020.from_Xyz (Xyz.from_rgb (α := RF M) c .D65)).b.val - oetf2020 (lin2020 (Xyz.from_rgb (α := ℝ) c .D65)).2.2| ≤ 2.81e-6 := by
  obtain ⟨f1, f2, f3⟩ := xyz_fp_close M .D65 c hr hg hb
  have b1 := xyz_range .D65 c hr hg hb 0
  have b2 := xyz_range .D65 c hr hg hb 1
  have b3 := xyz_range .D65 c hr hg hb 2
  simp only [V3.get] at b1 b2 b3
  obtain ⟨r1, r2, r3⟩ := rec2020_rows M
  have q1 := dot3_close' M r1 (v := xyzF M .D65 c) (x := mulVec (fwd .D65) (lin .D65 c)) f1 f2 f3 b1 b2 b3 (by norm_num)
  have q2 := dot3_close' M r2 (v := xyzF M .D65 c) (x := mulVec (fwd .D65) (lin .D65 c)) f1 f2 f3 b1 b2 b3 (by norm_num)
  have q3 := dot3_close' M r3 (v := xyzF M .D65 c) (x := mulVec (fwd .D65) (lin .D65 c)) f1 f2 f3 b1 b2 b3 (by norm_num)
  obtain ⟨g1, g2, g3⟩ := rec2020_lin_range (lin .D65 c) (dec_level_nonneg .D65 c.r) (dec_level_le_one .D65 hr)
    (dec_level_nonneg .D65 c.g) (dec_level_le_one .D65 hg) (dec_level_nonneg .D65 c.b) (dec_level_le_one .D65 hb)
  obtain ⟨bx, by', bz⟩ := xyz_box c hr hg hb
  obtain ⟨l1, l2, l3⟩ := linear_close (Xyz.from_rgb (α := ℝ) c .D65) bx by' bz
  rw [from_rgb_eq] at l1 l2 l3 ⊢
  simp only [toXyz, ← dot_eq_c08] at l1 l2 l3
  rw [from_rgb_eq_fp', rec2020_from_xyz_fp]
  dsimp only
  have key : ∀ (a : RF M) (t w : ℝ), |a.val - t| ≤ 13 * 2e-13 + 2e-14 → |t - w| ≤ 4e-14 → -0.001 ≤ t → t ≤ 1.001 →
      |(F64.compute_rec2020_gamma_correction a).val - oetf2020 w| ≤ 2.81e-6 := by
    intro a t w h1 h2 h3 h4
    obtain ⟨h21, h22⟩ := abs_le.mp h2
    have := rec2020_enc_quasi M a w (by have := abs_sub_le a.val t w; linarith) (by linarith) (by linarith)
    linarith
  exact ⟨key _ _ _ q1 l1 g1.1 g1.2, key _ _ _ q2 l2 g2.1 g2.2, key _ _ _ q3 l3 g3.1 g3.2⟩

end rec2020

section rev
variable (M : FPModel)

/-- `FpXyz.pow_dec_close` with the base allowed up to `1.001` -/
theorem pow_dec_close' {b x y' y e : ℝ} (hb0 : 0 < b) (hx0 : 0 < x) (hx1 : x ≤ 1.001)
    (hbx : |b - x| ≤ e) (he : e ≤ 1e-9) (hy : 1 ≤ y) (hy3 : y ≤ 2.5) (hyy : |y' - y| ≤ FP.eps * 3) :
    |M.pow b y' - x ^ y| ≤ 2.6 * e + 4e-15 := by
  have he0 : 0 ≤ e := le_trans (abs_nonneg _) hbx
  obtain ⟨hbx1, hbx2⟩ := abs_le.mp hbx
  obtain ⟨hy1, hy2⟩ := abs_le.mp hyy
  have hb1 : b ≤ 1.002 := by linarith
  have hy'0 : 0.9 ≤ y' := by unfold FP.eps at *; linarith
  have hy'3 : y' ≤ 3 := by unfold FP.eps at *; linarith
  have hB : b ^ y' ≤ 1.01 := by
    calc b ^ y' ≤ (1.002:ℝ) ^ y' := Real.rpow_le_rpow hb0.le hb1 (by linarith)
      _ ≤ (1.002:ℝ) ^ ((3:ℕ):ℝ) := Real.rpow_le_rpow_of_exponent_le (by norm_num) (by push_cast; linarith)
      _ = (1.002:ℝ) ^ (3:ℕ) := Real.rpow_natCast _ _
      _ ≤ 1.01 := by norm_num
  have p1 := pow_close M hb0.le hB (by norm_num)
  have p2 := rpow_exp_close (x := b) (q := y') (q' := y) (p := 0.9) hb0 (by linarith) (by norm_num) hy'0
    (by linarith) hy'3 (by linarith) (by unfold FP.eps at *; exact hyy.trans (by norm_num))
  have p3 := rpow_lipschitz (a := b) (b := x) (p := y) (B := 1.002) hb0 hx0 hb1 (by linarith) (by norm_num) hy
    (by linarith)
  have p2' : |b ^ y' - b ^ y| ≤ FP.eps * 3 * (1 / 0.9 + 8) :=
    p2.trans (mul_le_mul_of_nonneg_right hyy (by norm_num))
  have p3' : |b ^ y - x ^ y| ≤ 2.5 * 1.002 ^ 2 * e := by
    refine p3.trans ?_
    have : y * 1.002 ^ 2 ≤ 2.5 * 1.002 ^ 2 := mul_le_mul_of_nonneg_right hy3 (by norm_num)
    exact mul_le_mul this hbx (abs_nonneg _) (by norm_num)
  refine (tri3 (M.pow b y') (b ^ y') (b ^ y) (x ^ y)).trans ?_
  unfold FP.eps at *
  norm_num at p1 p2' p3' ⊢
  linarith

/-- **sRGB decoder in `RF M`, perturbed argument away from the threshold `0.04045`**: `2.7·e + 1e-14` -/
theorem srgb_dec_tight (t : RF M) (v e : ℝ) (htv : |t.val - v| ≤ e) (he : e ≤ 1e-10)
    (hcase : v ≤ 0.040 ∨ 0.041 ≤ v) (hlo : -0.001 ≤ v) (hhi : v ≤ 1.001) :
    |(F64.compute_srgb_gamma_expanded t).val - F64.compute_srgb_gamma_expanded v| ≤ 2.7 * e + 1e-14 := by
  have he0 : 0 ≤ e := le_trans (abs_nonneg _) htv
  obtain ⟨ht1, ht2⟩ := abs_le.mp htv
  have l0 := lit_close M 809 20000 (B := 1) (by norm_num) (by norm_num)
  obtain ⟨l01, l02⟩ := abs_le.mp l0
  have bv : |v| ≤ 1.001 := by rw [abs_le]; constructor <;> linarith
  rcases hcase with hL | hP
  · have hc : t.val ≤ M.rnd (((809:ℕ):ℝ) / ((20000:ℕ):ℝ)) := by
      unfold FP.eps at *; push_cast at *; linarith
    rw [Lemmas.Curves.srgb_dec_lin (by linarith)]
    simp only [F64.compute_srgb_gamma_expanded, FltRF.le_eq, FltRF.lit_val, hc, decide_true, if_true, FltRF.div_val]
    have l1 := lit_close M 323 25 (B := 13) (by norm_num) (by norm_num)
    have bq : |v / (((323:ℕ):ℝ) / ((25:ℕ):ℝ))| ≤ 1 := by
      rw [abs_div, abs_of_nonneg (by positivity : (0:ℝ) ≤ ((323:ℕ):ℝ)/((25:ℕ):ℝ)), div_le_one (by positivity)]
      push_cast; linarith
    have d1 := div_close M htv l1 bv (m := 12) (Bq := 1) (by norm_num) (by norm_num [FP.eps]) bq (by norm_num)
    have e' : v / 12.92 = v / (((323:ℕ):ℝ) / ((25:ℕ):ℝ)) := by norm_num
    rw [e']
    refine le_trans d1 ?_
    have : (e * 12 + FP.eps * 13 * 1.001) / (12 * (12 - FP.eps * 13)) ≤ 0.09 * e + 2e-16 := by
      rw [div_le_iff₀ (by norm_num [FP.eps])]; unfold FP.eps; nlinarith
    unfold FP.eps at *
    nlinarith
  · have hc : ¬ t.val ≤ M.rnd (((809:ℕ):ℝ) / ((20000:ℕ):ℝ)) := by
      rw [not_le]; unfold FP.eps at *; push_cast at *; linarith
    rw [Lemmas.Curves.srgb_dec_pow (by linarith)]
    simp only [F64.compute_srgb_gamma_expanded, FltRF.le_eq, FltRF.lit_val, hc, decide_false, if_false, FltRF.div_val, FltRF.add_val, FltRF.pow_val, Bool.false_eq_true]
    have l1 := lit_close M 11 200 (B := 1) (by norm_num) (by norm_num)
    have l2 := lit_close M 211 200 (B := 2) (by norm_num) (by norm_num)
    have l3 := lit_close M 12 5 (B := 3) (by norm_num) (by norm_num)
    have bs : |v + ((11:ℕ):ℝ)/((200:ℕ):ℝ)| ≤ 2 := by
      rw [abs_of_nonneg (by push_cast; linarith)]; push_cast; linarith
    have a1 := add_close M htv l1 bs (by norm_num)
    have bq : |(v + ((11:ℕ):ℝ)/((200:ℕ):ℝ)) / (((211:ℕ):ℝ)/((200:ℕ):ℝ))| ≤ 1.001 := by
      rw [abs_div, abs_of_nonneg (by push_cast; linarith : (0:ℝ) ≤ v + ((11:ℕ):ℝ)/((200:ℕ):ℝ)),
        abs_of_nonneg (by positivity : (0:ℝ) ≤ ((211:ℕ):ℝ)/((200:ℕ):ℝ)), div_le_iff₀ (by positivity)]
      push_cast; linarith
    have d1 := div_close M a1 l2 bs (m := 1) (Bq := 1.001) (by rw [abs_of_nonneg (by positivity)]; norm_num)
      (by norm_num [FP.eps]) bq (by norm_num)
    have ex : (v + 55e-3) / 1.055 = (v + ((11:ℕ):ℝ)/((200:ℕ):ℝ)) / (((211:ℕ):ℝ)/((200:ℕ):ℝ)) := by norm_num
    have ey : (2.4:ℝ) = ((12:ℕ):ℝ)/((5:ℕ):ℝ) := by norm_num
    rw [ex, ey]
    set X : ℝ := (v + ((11:ℕ):ℝ)/((200:ℕ):ℝ)) / (((211:ℕ):ℝ)/((200:ℕ):ℝ)) with hX
    have hXlo : 0.09 ≤ X := by
      rw [hX, le_div_iff₀ (by positivity)]; push_cast; linarith
    have hXhi : X ≤ 1.001 := by
      rw [hX, div_le_iff₀ (by positivity)]; push_cast; linarith
    set e1 : ℝ := (e + FP.eps * 1 + FP.eps * (2 + (e + FP.eps * 1))) with he1
    set e2 : ℝ := (e1 * 1 + FP.eps * 2 * 2) / (1 * (1 - FP.eps * 2)) + FP.eps * (1.001 + (e1 * 1 + FP.eps * 2 * 2) / (1 * (1 - FP.eps * 2))) with he2
    have he2b : e2 ≤ 1.0001 * e + 1.3e-15 := by
      have h1 : (e1 * 1 + FP.eps * 2 * 2) / (1 * (1 - FP.eps * 2)) ≤ 1.00001 * e + 1.1e-15 := by
        rw [div_le_iff₀ (by norm_num [FP.eps])]; rw [he1]; unfold FP.eps; nlinarith
      rw [he2]; unfold FP.eps at *; nlinarith
    have hb0 : 0 < M.rnd (M.rnd (t.val + M.rnd (((11:ℕ):ℝ) / ((200:ℕ):ℝ))) / M.rnd (((211:ℕ):ℝ) / ((200:ℕ):ℝ))) := by
      have := (abs_le.mp d1).1; linarith
    have := pow_dec_close' M hb0 (by linarith) hXhi d1 (by linarith) (y := ((12:ℕ):ℝ)/((5:ℕ):ℝ)) (by norm_num) (by norm_num) l3
    refine this.trans ?_
    nlinarith

theorem xyz_from_srgb_fp (s : Srgb (RF M)) :
    Xyz.from_Srgb s =
      ⟨dotF' M (F64.compute_srgb_gamma_expanded s.r, F64.compute_srgb_gamma_expanded s.g, F64.compute_srgb_gamma_expanded s.b) C.X65,
       dotF' M (F64.compute_srgb_gamma_expanded s.r, F64.compute_srgb_gamma_expanded s.g, F64.compute_srgb_gamma_expanded s.b) C.Y65,
       dotF' M (F64.compute_srgb_gamma_expanded s.r, F64.compute_srgb_gamma_expanded s.g, F64.compute_srgb_gamma_expanded s.b) C.Z65⟩ := rfl

theorem xyz_from_srgb_real (s : Srgb ℝ) :
    Xyz.from_Srgb s = toXyz (mulVec (fwd .D65)
      (F64.compute_srgb_gamma_expanded s.r, F64.compute_srgb_gamma_expanded s.g, F64.compute_srgb_gamma_expanded s.b)) := by
  simp [Xyz.from_Srgb, toXyz, mulVec, dot, fwd, mul_comm]

theorem srgb_dec_range (v : ℝ) (hlo : -0.001 ≤ v) (hhi : v ≤ 1.001) : |F64.compute_srgb_gamma_expanded v| ≤ 3 := by
  rcases le_or_gt v 0.04045 with h | h
  · rw [Lemmas.Curves.srgb_dec_lin h, abs_le]
    constructor
    · rw [le_div_iff₀ (by norm_num)]; linarith
    · rw [div_le_iff₀ (by norm_num)]; linarith
  · rw [Lemmas.Curves.srgb_dec_pow h]
    have hb0 : (0:ℝ) ≤ (v + 0.055) / 1.055 := by apply div_nonneg <;> linarith
    have hb1 : (v + 0.055) / 1.055 ≤ 1.001 := by rw [div_le_iff₀ (by norm_num)]; linarith
    rw [abs_of_nonneg (Real.rpow_nonneg hb0 _)]
    calc ((v + 0.055) / 1.055) ^ (2.4:ℝ) ≤ (1.001:ℝ) ^ (2.4:ℝ) := Real.rpow_le_rpow hb0 hb1 (by norm_num)
      _ ≤ (1.001:ℝ) ^ ((3:ℕ):ℝ) := Real.rpow_le_rpow_of_exponent_le (by norm_num) (by norm_num)
      _ = (1.001:ℝ) ^ (3:ℕ) := Real.rpow_natCast _ _
      _ ≤ 3 := by norm_num

/-- the encoded value of a level is away from the decoder threshold `0.04045` -/
theorem srgb_enc_gap {v : ℝ} {n : ℕ} (hn : n ≤ 255) (hv : |v - (n:ℝ)/255| ≤ 3.6e-6) :
    (v ≤ 0.040 ∨ 0.041 ≤ v) ∧ -0.001 ≤ v ∧ v ≤ 1.001 := by
  obtain ⟨h1, h2⟩ := abs_le.mp hv
  have hn' : (n:ℝ) ≤ 255 := by exact_mod_cast hn
  have hle : (n:ℝ)/255 ≤ 1 := by rw [div_le_one (by norm_num)]; exact hn'
  have h0 : (0:ℝ) ≤ (n:ℝ)/255 := by positivity
  refine ⟨?_, by linarith, by linarith⟩
  rcases Nat.lt_or_ge n 11 with h | h
  · left
    have : (n:ℝ) ≤ 10 := by exact_mod_cast Nat.lt_succ_iff.mp h
    have : (n:ℝ)/255 ≤ 10/255 := div_le_div_of_nonneg_right this (by norm_num)
    norm_num at this ⊢; linarith
  · right
    have : (11:ℝ) ≤ n := by exact_mod_cast h
    have : (11:ℝ)/255 ≤ (n:ℝ)/255 := div_le_div_of_nonneg_right this (by norm_num)
    norm_num at this ⊢; linarith

/-- **sRGB round trip of the XYZ of an 8-bit colour, in `RF M`**: `Xyz.from_Srgb (Srgb.from_Xyz x)` is within
`4.7e-7` of `x` in every component (`x` the computed XYZ of the colour); exact-real part `4.6e-7`
(`Props.C02_requant.srgb_roundtrip_8bit_tight`), rounding part `1.5e-9` -/
theorem srgb_roundtrip_fp (c : Rgb) (hr : c.r ≤ 255) (hg : c.g ≤ 255) (hb : c.b ≤ 255) :
    |(Xyz.from_Srgb (Srgb.from_Xyz (Xyz.from_rgb (α := RF M) c .D65))).x.val - (Xyz.from_rgb (α := RF M) c .D65).x.val| ≤ 4.7e-7 ∧
    |(Xyz.from_Srgb (Srgb.from_Xyz (Xyz.from_rgb (α := RF M) c .D65))).y.val - (Xyz.from_rgb (α := RF M) c .D65).y.val| ≤ 4.7e-7 ∧
    |(Xyz.from_Srgb (Srgb.from_Xyz (Xyz.from_rgb (α := RF M) c .D65))).z.val - (Xyz.from_rgb (α := RF M) c .D65).z.val| ≤ 4.7e-7 := by
  obtain ⟨f1, f2, f3⟩ := srgb_fwd_close M c hr hg hb
  obtain ⟨t1, t2, t3⟩ := Props.C08.forward_srgb_tight c hr hg hb
  obtain ⟨g1, g2, g3⟩ := srgb_enc_gap hr t1
  obtain ⟨g1', g2', g3'⟩ := srgb_enc_gap hg t2
  obtain ⟨g1'', g2'', g3''⟩ := srgb_enc_gap hb t3
  have d1 := srgb_dec_tight M _ _ _ f1 (by norm_num) g1 g2 g3
  have d2 := srgb_dec_tight M _ _ _ f2 (by norm_num) g1' g2' g3'
  have d3 := srgb_dec_tight M _ _ _ f3 (by norm_num) g1'' g2'' g3''
  have b1 := srgb_dec_range _ g2 g3
  have b2 := srgb_dec_range _ g2' g3'
  have b3 := srgb_dec_range _ g2'' g3''
  obtain ⟨r1, r2, r3⟩ := fwd_rows M .D65
  set S' := Srgb.from_Xyz (Xyz.from_rgb (α := RF M) c .D65) with hS'
  set S := Srgb.from_Xyz (Xyz.from_rgb (α := ℝ) c .D65) with hS
  have q1 := dot3_close' M r1 (v := (F64.compute_srgb_gamma_expanded S'.r, F64.compute_srgb_gamma_expanded S'.g, F64.compute_srgb_gamma_expanded S'.b))
    (x := (F64.compute_srgb_gamma_expanded S.r, F64.compute_srgb_gamma_expanded S.g, F64.compute_srgb_gamma_expanded S.b))
    (e := 1.1e-10) (d1.trans (by norm_num)) (d2.trans (by norm_num)) (d3.trans (by norm_num)) b1 b2 b3 (by norm_num)
  have q2 := dot3_close' M r2 (v := (F64.compute_srgb_gamma_expanded S'.r, F64.compute_srgb_gamma_expanded S'.g, F64.compute_srgb_gamma_expanded S'.b))
    (x := (F64.compute_srgb_gamma_expanded S.r, F64.compute_srgb_gamma_expanded S.g, F64.compute_srgb_gamma_expanded S.b))
    (e := 1.1e-10) (d1.trans (by norm_num)) (d2.trans (by norm_num)) (d3.trans (by norm_num)) b1 b2 b3 (by norm_num)
  have q3 := dot3_close' M r3 (v := (F64.compute_srgb_gamma_expanded S'.r, F64.compute_srgb_gamma_expanded S'.g, F64.compute_srgb_gamma_expanded S'.b))
    (x := (F64.compute_srgb_gamma_expanded S.r, F64.compute_srgb_gamma_expanded S.g, F64.compute_srgb_gamma_expanded S.b))
    (e := 1.1e-10) (d1.trans (by norm_num)) (d2.trans (by norm_num)) (d3.trans (by norm_num)) b1 b2 b3 (by norm_num)
  obtain ⟨w1, w2, w3⟩ := Props.C02_requant.srgb_roundtrip_8bit_tight c ⟨hr, hg, hb⟩
  rw [← hS, xyz_from_srgb_real, from_rgb_eq] at w1 w2 w3
  simp only [toXyz, mulVec] at w1 w2 w3
  obtain ⟨x1, x2, x3⟩ := xyz_fp_close M .D65 c hr hg hb
  simp only [mulVec] at x1 x2 x3
  rw [xyz_from_srgb_fp, from_rgb_eq_fp']
  dsimp only
  simp only [fwdF] at q1 q2 q3
  simp only [fwd] at q1 q2 q3 w1 w2 w3 x1 x2 x3
  refine ⟨?_, ?_, ?_⟩
  · have a := abs_sub_le (dotF' M (F64.compute_srgb_gamma_expanded S'.r, F64.compute_srgb_gamma_expanded S'.g, F64.compute_srgb_gamma_expanded S'.b) C.X65).val
      (dot C.X65 (F64.compute_srgb_gamma_expanded S.r, F64.compute_srgb_gamma_expanded S.g, F64.compute_srgb_gamma_expanded S.b))
      (dot C.X65 (lin .D65 c))
    have b := abs_sub_le (dotF' M (F64.compute_srgb_gamma_expanded S'.r, F64.compute_srgb_gamma_expanded S'.g, F64.compute_srgb_gamma_expanded S'.b) C.X65).val
      (dot C.X65 (lin .D65 c)) (xyzF M .D65 c).1.val
    rw [abs_sub_comm] at x1
    linarith
  · have a := abs_sub_le (dotF' M (F64.compute_srgb_gamma_expanded S'.r, F64.compute_srgb_gamma_expanded S'.g, F64.compute_srgb_gamma_expanded S'.b) C.Y65).val
      (dot C.Y65 (F64.compute_srgb_gamma_expanded S.r, F64.compute_srgb_gamma_expanded S.g, F64.compute_srgb_gamma_expanded S.b))
      (dot C.Y65 (lin .D65 c))
    have b := abs_sub_le (dotF' M (F64.compute_srgb_gamma_expanded S'.r, F64.compute_srgb_gamma_expanded S'.g, F64.compute_srgb_gamma_expanded S'.b) C.Y65).val
      (dot C.Y65 (lin .D65 c)) (xyzF M .D65 c).2.1.val
    rw [abs_sub_comm] at x2
    linarith
  · have a := abs_sub_le (dotF' M (F64.compute_srgb_gamma_expanded S'.r, F64.compute_srgb_gamma_expanded S'.g, F64.compute_srgb_gamma_expanded S'.b) C.Z65).val
      (dot C.Z65 (F64.compute_srgb_gamma_expanded S.r, F64.compute_srgb_gamma_expanded S.g, F64.compute_srgb_gamma_expanded S.b))
      (dot C.Z65 (lin .D65 c))
    have b := abs_sub_le (dotF' M (F64.compute_srgb_gamma_expanded S'.r, F64.compute_srgb_gamma_expanded S'.g, F64.compute_srgb_gamma_expanded S'.b) C.Z65).val
      (dot C.Z65 (lin .D65 c)) (xyzF M .D65 c).2.2.val
    rw [abs_sub_comm] at x3
    linarith

end rev

end Lemmas.FpEnc
