import LymuiVerif.Lemmas.FpEnc
import LymuiVerif.Lemmas.FpCie
/-!
# Rounded-arithmetic lemmas for the reverse OkLab conversion on arbitrary in-range inputs (C07 in `RF M`)

* `okLin` — the generated expression of `Srgb::from(OkLab)` BEFORE the final `as_non_linear` (the linear-light
  triple), tied to the generated code by `from_oklab_eq` (`rfl`, for every carrier).
* `lms_add`, `lms_sub`, `cube_near`, `oklin_close`, `oklin_fp` — the linear-light triple in `RF M` against the exact-real
  one, the computed `a`, `b` possibly perturbed by `δ` (the OkLch path): `400·δ + 5e-13`.
* `pE`, `pR`, `as_non_linear_fp`, `as_non_linear_real`, `pow_pert` — the final `max(·,0)^(1/2.2)` with the computed
  exponent `rnd (1 / rnd 2.2)`; `enc_holder` (Hölder bound `e^(5/11)`, certificates `holder_5_11`), `enc_bright`
  (`x ≥ 1e-3`: `22·e`), `enc_mid` (`x ≥ 7e-4`: `27·e`), `enc_negative` (clamped), `enc_bright_range`.
* `EncOK`, `xyz_from_srgb_close` — `Xyz::from(Srgb)` on a computed encoded triple clear of the decoder's threshold region
  (cites `FpEnc.srgb_dec_tight`); `ChanOK`, `chan_enc`, `xyz_from_oklab_close` — the `1e-9`-level statement.
* `thrD`, `dec_lin_fp`, `dec_pow_fp` (the two branches of the sRGB decoder in `RF M`), `dec_gap` (the decoder's jump at
  `0.04045` is `≤ 4e-8`; rational certificates), `dec_any` (any branches), `chan_dec`, `xyz_from_oklab_any` — the
  unconditional `1e-6` statement.
-/
namespace FpRevOk
open Gen FpErr FpLin FpCie

/-- the linear-light triple of `Srgb::from(OkLab)`: the generated expression before `Srgb::as_non_linear` -/
def okLin {α : Type} [Flt α] (oklab_1 : OkLab α) : Srgb α :=
  let l_5 : α := (Flt.powi ((oklab_1.l + ((C.ROL : (α × α)).1 * oklab_1.a)) + ((C.ROL : (α × α)).2 * oklab_1.b)) (3 : Int))
  let m_18 : α := (Flt.powi ((oklab_1.l - ((C.ROM : (α × α)).1 * oklab_1.a)) - ((C.ROM : (α × α)).2 * oklab_1.b)) (3 : Int))
  let s_31 : α := (Flt.powi ((oklab_1.l - ((C.ROS : (α × α)).1 * oklab_1.a)) - ((C.ROS : (α × α)).2 * oklab_1.b)) (3 : Int))
  { r := ((((C.ROR : (α × α × α)).1 * l_5) - ((C.ROR : (α × α × α)).2.1 * m_18)) + ((C.ROR : (α × α × α)).2.2 * s_31)), g := ((((C.ROG : (α × α × α)).1 * l_5) + ((C.ROG : (α × α × α)).2.1 * m_18)) - ((C.ROG : (α × α × α)).2.2 * s_31)), b := ((((C.ROB : (α × α × α)).1 * l_5) - ((C.ROB : (α × α × α)).2.1 * m_18)) + ((C.ROB : (α × α × α)).2.2 * s_31)) }

/-- `Srgb::from(OkLab)` IS `as_non_linear` of `okLin` (definitional: a change of the generated code breaks this) -/
theorem from_oklab_eq {α : Type} [Flt α] (o : OkLab α) : Srgb.from_OkLab o = Srgb.as_non_linear (okLin o) := rfl

section fp
variable (M : FPModel)

/-- `L + k₁·a + k₂·b` with rounded literal coefficients `kᵢ = nᵢ/dᵢ ≤ 2`, `|L|, |a|, |b| ≤ 1`; the computed `a'`, `b'`
within `δ` of `a`, `b` (δ = 0 for a direct input, `6e-15` after `OkLab::from(OkLch)`) -/
theorem lms_add (n1 d1 n2 d2 : ℕ) {L a' a b' b δ Bm : ℝ} (h1 : (n1 : ℝ) / d1 ≤ 2) (h2 : (n2 : ℝ) / d2 ≤ 2)
    (hL : |L| ≤ 1) (na : Near a' a δ 1) (nb : Near b' b δ 1)
    (hm : |L + (n1 : ℝ) / d1 * a + (n2 : ℝ) / d2 * b| ≤ Bm) (hB : 1 ≤ Bm) :
    Near (M.rnd (M.rnd (L + M.rnd (M.rnd ((n1 : ℝ) / d1) * a')) + M.rnd (M.rnd ((n2 : ℝ) / d2) * b')))
      (L + (n1 : ℝ) / d1 * a + (n2 : ℝ) / d2 * b) (41 / 10 * δ + 2 / 10 ^ 15) Bm := by
  have hδ0 := na.e_nonneg
  have nL : Near L L 0 1 := Near.exact hL le_rfl
  have n := (nL.add M ((Near.lit M n1 d1 (B := 2) h1 (by norm_num)).mul M na)).add M
    ((Near.lit M n2 d2 (B := 2) h2 (by norm_num)).mul M nb)
  refine ⟨n.err.trans ?_, hm, hB⟩
  norm_num [FP.eps]; linarith

theorem lms_sub (n1 d1 n2 d2 : ℕ) {L a' a b' b δ Bm : ℝ} (h1 : (n1 : ℝ) / d1 ≤ 2) (h2 : (n2 : ℝ) / d2 ≤ 2)
    (hL : |L| ≤ 1) (na : Near a' a δ 1) (nb : Near b' b δ 1)
    (hm : |L - (n1 : ℝ) / d1 * a - (n2 : ℝ) / d2 * b| ≤ Bm) (hB : 1 ≤ Bm) :
    Near (M.rnd (M.rnd (L - M.rnd (M.rnd ((n1 : ℝ) / d1) * a')) - M.rnd (M.rnd ((n2 : ℝ) / d2) * b')))
      (L - (n1 : ℝ) / d1 * a - (n2 : ℝ) / d2 * b) (41 / 10 * δ + 2 / 10 ^ 15) Bm := by
  have hδ0 := na.e_nonneg
  have nL : Near L L 0 1 := Near.exact hL le_rfl
  have n := (nL.sub M ((Near.lit M n1 d1 (B := 2) h1 (by norm_num)).mul M na)).sub M
    ((Near.lit M n2 d2 (B := 2) h2 (by norm_num)).mul M nb)
  refine ⟨n.err.trans ?_, hm, hB⟩
  norm_num [FP.eps]; linarith

/-- the cube `x.powi(3)` of a computed value `c` within `e ≤ 1e-5` of `x`, `|x| ≤ 1.8`: within `10·e + 3e-15` -/
theorem cube_near {c x e : ℝ} (h : Near c x e (18 / 10)) (he : e ≤ 1 / 10 ^ 5) :
    Near (RF.powi M c 3) (x ^ 3) (10 * e + 3 / 10 ^ 15) 6 := by
  have he0 := h.e_nonneg
  obtain ⟨x1, x2⟩ := abs_le.mp h.mag
  obtain ⟨c1, c2⟩ := abs_le.mp h.err
  have hcB : |c| ≤ 181 / 100 := by rw [abs_le]; constructor <;> linarith
  have nc : Near c c 0 (181 / 100) := Near.exact hcB (by norm_num)
  have hp : |RF.powi M c 3 - c ^ 3| ≤ 3 / 10 ^ 15 :=
    (Near.powi3 M nc).finish rfl (by norm_num [eMul, eRnd, FP.eps])
  have hd : |c ^ 3 - x ^ 3| ≤ 10 * e := by
    have e1 : c ^ 3 - x ^ 3 = (c - x) * (c ^ 2 + c * x + x ^ 2) := by ring
    have hq0 : 0 ≤ c ^ 2 + c * x + x ^ 2 := by nlinarith [sq_nonneg (c + x), sq_nonneg c, sq_nonneg x]
    have hq : c ^ 2 + c * x + x ^ 2 ≤ 10 := by
      obtain ⟨k1, k2⟩ := abs_le.mp hcB
      nlinarith
    rw [e1, abs_mul, abs_of_nonneg hq0, mul_comm]
    exact mul_le_mul hq h.err (abs_nonneg _) (by norm_num)
  have hm : |x ^ 3| ≤ 6 := by
    rw [abs_pow]
    have := pow_le_pow_left₀ (abs_nonneg x) h.mag 3
    norm_num at this ⊢; linarith
  have t := abs_sub_le (RF.powi M c 3) (c ^ 3) (x ^ 3)
  exact ⟨by linarith, hm, by norm_num⟩

/-- **the linear-light triple of `Srgb::from(OkLab)` in `RF M`** against the exact-real triple at `q`: the computed input
`o` has the lightness of `q` and `a`, `b` within `δ ≤ 1e-8` of `q`'s; `q.l ∈ [0, 1]`, `|q.a|, |q.b| ≤ 0.51`:
each component within `400·δ + 5e-13` -/
theorem oklin_close (o : OkLab (RF M)) (q : OkLab ℝ) (δ : ℝ) (hδ : δ ≤ 1 / 10 ^ 8) (hl : o.l.val = q.l)
    (hoa : |o.a.val - q.a| ≤ δ) (hob : |o.b.val - q.b| ≤ δ) (hL0 : 0 ≤ q.l) (hL1 : q.l ≤ 1)
    (ha : |q.a| ≤ 51 / 100) (hb : |q.b| ≤ 51 / 100) :
    |(okLin o).r.val - (okLin q).r| ≤ 400 * δ + 5 / 10 ^ 13 ∧
    |(okLin o).g.val - (okLin q).g| ≤ 400 * δ + 5 / 10 ^ 13 ∧
    |(okLin o).b.val - (okLin q).b| ≤ 400 * δ + 5 / 10 ^ 13 := by
  obtain ⟨a1, a2⟩ := abs_le.mp ha
  obtain ⟨b1, b2⟩ := abs_le.mp hb
  have hδ0 : 0 ≤ δ := le_trans (abs_nonneg _) hoa
  rcases q with ⟨L, a, b⟩
  simp only at hl hoa hob hL0 hL1 ha hb a1 a2 b1 b2
  have hL : |L| ≤ 1 := by rw [abs_of_nonneg hL0]; exact hL1
  have na : Near o.a.val a δ 1 := ⟨hoa, ha.trans (by norm_num), le_rfl⟩
  have nb : Near o.b.val b δ 1 := ⟨hob, hb.trans (by norm_num), le_rfl⟩
  have he5 : 41 / 10 * δ + 2 / 10 ^ 15 ≤ 1 / 10 ^ 5 := by norm_num at hδ ⊢; linarith
  have nl := cube_near M (lms_add M 1981688887 5000000000 2158037573 10000000000 (L := L)
    (Bm := 18 / 10) (by norm_num) (by norm_num) hL na nb
    (by rw [abs_le]; push_cast; constructor <;> linarith) (by norm_num)) he5
  have nm := cube_near M (lms_sub M 527806729 5000000000 19954429 312500000 (L := L)
    (Bm := 18 / 10) (by norm_num) (by norm_num) hL na nb
    (by rw [abs_le]; push_cast; constructor <;> linarith) (by norm_num)) he5
  have ns := cube_near M (lms_sub M 35793671 400000000 322871387 250000000 (L := L)
    (Bm := 18 / 10) (by norm_num) (by norm_num) hL na nb
    (by rw [abs_le]; push_cast; constructor <;> linarith) (by norm_num)) he5
  have r1 := Near.lit M 40767416621 10000000000 (B := 41 / 10) (by norm_num) (by norm_num)
  have r2 := Near.lit M 33077115913 10000000000 (B := 34 / 10) (by norm_num) (by norm_num)
  have r3 := Near.lit M 577424823 2500000000 (B := 1) (by norm_num) (by norm_num)
  have g1 := (Near.lit M 6342190023 5000000000 (B := 13 / 10) (by norm_num) (by norm_num)).neg
  have g2 := Near.lit M 26097574011 10000000000 (B := 27 / 10) (by norm_num) (by norm_num)
  have g3 := Near.lit M 682638793 2000000000 (B := 1) (by norm_num) (by norm_num)
  have k1 := (Near.lit M 41960863 10000000000 (B := 1) (by norm_num) (by norm_num)).neg
  have k2 := Near.lit M 7034186147 10000000000 (B := 1) (by norm_num) (by norm_num)
  have k3 := Near.lit M 1707614701 1000000000 (B := 18 / 10) (by norm_num) (by norm_num)
  simp only [okLin, C.ROL, C.ROM, C.ROS, C.ROR, C.ROG, C.ROB, FltRF.add_val, FltRF.sub_val, FltRF.mul_val,
    FltRF.powi_val, FltRF.lit_val, FltRF.neg_val, FltReal.lit_eq, FltReal.powi_eq, hl]
  refine ⟨(((r1.mul M nl).sub M (r2.mul M nm)).add M (r3.mul M ns)).finish ?_ ?_,
    (((g1.mul M nl).add M (g2.mul M nm)).sub M (g3.mul M ns)).finish ?_ ?_,
    (((k1.mul M nl).sub M (k2.mul M nm)).add M (k3.mul M ns)).finish ?_ ?_⟩
  all_goals first
    | (norm_num [FP.eps] at hδ ⊢; linarith)
    | (norm_num; try ring)

/-- the direct case: the computed input IS the real input -/
theorem oklin_fp (o : OkLab (RF M)) (hL0 : 0 ≤ o.l.val) (hL1 : o.l.val ≤ 1) (ha : |o.a.val| ≤ 51 / 100)
    (hb : |o.b.val| ≤ 51 / 100) :
    |(okLin o).r.val - (okLin (α := ℝ) ⟨o.l.val, o.a.val, o.b.val⟩).r| ≤ 5 / 10 ^ 13 ∧
    |(okLin o).g.val - (okLin (α := ℝ) ⟨o.l.val, o.a.val, o.b.val⟩).g| ≤ 5 / 10 ^ 13 ∧
    |(okLin o).b.val - (okLin (α := ℝ) ⟨o.l.val, o.a.val, o.b.val⟩).b| ≤ 5 / 10 ^ 13 := by
  have := oklin_close M o ⟨o.l.val, o.a.val, o.b.val⟩ 0 (by norm_num) rfl (by simp) (by simp) hL0 hL1 ha hb
  simpa using this

/-! ## the final `max(·, 0)^(1/2.2)` -/

/-- the exponent `1/2.2` as the code computes it: `rnd (rnd (1/1) / rnd (11/5))` -/
noncomputable def pE : ℝ := M.rnd (M.rnd (((1 : ℕ) : ℝ) / ((1 : ℕ) : ℝ)) / M.rnd (((11 : ℕ) : ℝ) / ((5 : ℕ) : ℝ)))
/-- the exact exponent `1/(11/5) = 5/11` -/
noncomputable def pR : ℝ := 1 / (((11 : ℕ) : ℝ) / ((5 : ℕ) : ℝ))

theorem pR_eq : pR = ((5 : ℕ) : ℝ) / ((11 : ℕ) : ℝ) := by unfold pR; norm_num
theorem pE_close : |pE M - pR| ≤ FP.eps * 3 := Lemmas.FpXyz.inv_exp_close M 11 5 (by norm_num) (by norm_num)

/-- structure of `Srgb::as_non_linear` in `RF M` and on ℝ -/
theorem as_non_linear_fp (s : Srgb (RF M)) :
    (Srgb.as_non_linear s).r.val = M.pow (max s.r.val 0) (pE M) ∧
    (Srgb.as_non_linear s).g.val = M.pow (max s.g.val 0) (pE M) ∧
    (Srgb.as_non_linear s).b.val = M.pow (max s.b.val 0) (pE M) := by
  simp only [Srgb.as_non_linear, FltRF.pow_val, FltRF.max_val, FltRF.div_val, FltRF.lit_val, FpCie.lit_zero, pE,
    and_self]

theorem as_non_linear_real (s : Srgb ℝ) :
    Srgb.as_non_linear s = ⟨(max s.r 0) ^ pR, (max s.g 0) ^ pR, (max s.b 0) ^ pR⟩ := by
  simp only [Srgb.as_non_linear, FltReal.pow_eq, FltReal.max_eq, FltReal.lit_eq, pR, Nat.cast_zero,
    Nat.cast_one, div_one]

/-- `powf` with the computed exponent against the exact power of the SAME base `B ∈ [0, 2]`: `1e-14`
(`B = 0`: the model gives `|powf(0, p')| ≤ 2^-1075`) -/
theorem pow_pert {B : ℝ} (hB0 : 0 ≤ B) (hB2 : B ≤ 2) : |M.pow B (pE M) - B ^ pR| ≤ 1 / 10 ^ 14 := by
  have hpp := pE_close M
  obtain ⟨hy1, hy2⟩ := abs_le.mp hpp
  have hp : pR = 5 / 11 := by rw [pR_eq]; norm_num
  have hp'0 : 0.3 ≤ pE M := by rw [hp] at hy1; unfold FP.eps at *; norm_num at hy1 ⊢; linarith
  have hp'1 : pE M ≤ 1 := by rw [hp] at hy2; unfold FP.eps at *; norm_num at hy2 ⊢; linarith
  rcases hB0.eq_or_lt with h0 | hpos
  · rw [← h0]
    have h := M.pow_err 0 (pE M) le_rfl
    rw [Real.zero_rpow (by linarith), abs_zero, mul_zero, zero_add] at h
    rw [Real.zero_rpow (by rw [hp]; norm_num)]
    have := FP.eta_lt
    refine h.trans ?_
    norm_num at this ⊢; linarith
  · have hB : B ^ pE M ≤ 2 := by
      calc B ^ pE M ≤ (2 : ℝ) ^ pE M := Real.rpow_le_rpow hB0 hB2 (by linarith)
        _ ≤ (2 : ℝ) ^ (1 : ℝ) := Real.rpow_le_rpow_of_exponent_le (by norm_num) hp'1
        _ = 2 := Real.rpow_one 2
    have p1 := Lemmas.FpXyz.pow_close M hB0 hB (by norm_num)
    have p2 := Lemmas.FpXyz.rpow_exp_close (x := B) (q := pE M) (q' := pR) (p := 0.3) hpos hB2 (by norm_num) hp'0
      (by rw [hp]; norm_num) (by linarith) (by rw [hp]; norm_num)
      (by unfold FP.eps at *; exact hpp.trans (by norm_num))
    have p2' : |B ^ pE M - B ^ pR| ≤ FP.eps * 3 * (1 / 0.3 + 8) :=
      p2.trans (mul_le_mul_of_nonneg_right hpp (by norm_num))
    have t := abs_sub_le (M.pow B (pE M)) (B ^ pE M) (B ^ pR)
    unfold FP.eps at *
    norm_num at p1 p2' ⊢
    linarith

/-- Hölder certificate: `(1e-12)^(5/11) ≤ 3.6e-6` -/
theorem holder_5_11 : (1e-12 : ℝ) ^ pR ≤ 3.6e-6 := by
  rw [pR_eq]
  exact Lemmas.Rpow.rpow_le_of_le_pow (by norm_num) (by norm_num) 5 11 (by norm_num) (by norm_num)

/-- **the final encoding, Hölder form**: computed linear value `b` within `e` of the real `x ≤ 1.5` (any sign: the
clamp `max(·, 0)` is exact and 1-Lipschitz): the encoded values differ by at most `e^(5/11) + 1e-14`.
This is sharp in order of magnitude at `x = 0` (the slope of `x^(1/2.2)` is unbounded there). -/
theorem enc_holder {b x e h : ℝ} (hbx : |b - x| ≤ e) (he : e ≤ 1 / 2) (hh : e ^ pR ≤ h) (hx : x ≤ 3 / 2) :
    |M.pow (max b 0) (pE M) - (max x 0) ^ pR| ≤ h + 1 / 10 ^ 14 := by
  have hB0 : 0 ≤ max b 0 := le_max_right _ _
  have hX0 : 0 ≤ max x 0 := le_max_right _ _
  have hd : |max b 0 - max x 0| ≤ e := (abs_max_sub_max_le_abs b x 0).trans hbx
  obtain ⟨d1, d2⟩ := abs_le.mp hd
  have hX2 : max x 0 ≤ 3 / 2 := max_le hx (by norm_num)
  have hB2 : max b 0 ≤ 2 := by linarith
  have pp := pow_pert M hB0 hB2
  have hp : pR = 5 / 11 := by rw [pR_eq]; norm_num
  have ph := Lemmas.FpXyz.rpow_holder (a := max b 0) (b := max x 0) (p := pR) (by rw [hp]; norm_num)
    (by rw [hp]; norm_num) hB0 hX0
  have ph' : |max b 0 ^ pR - max x 0 ^ pR| ≤ h :=
    ph.trans ((Real.rpow_le_rpow (abs_nonneg _) hd (by rw [hp]; norm_num)).trans hh)
  have t := abs_sub_le (M.pow (max b 0) (pE M)) (max b 0 ^ pR) (max x 0 ^ pR)
  linarith

/-- Hölder certificate for the error `5e-13` of the linear-light triple -/
theorem holder_cert : (5 / 10 ^ 13 : ℝ) ^ pR ≤ 3.6e-6 := by
  have hp : pR = 5 / 11 := by rw [pR_eq]; norm_num
  exact (Real.rpow_le_rpow (by norm_num) (by norm_num) (by rw [hp]; norm_num)).trans holder_5_11

/-- Hölder certificate: `(5e-12)^(5/11) ≤ 7.5e-6` -/
theorem holder_5_11' : (5e-12 : ℝ) ^ pR ≤ 7.5e-6 := by
  rw [pR_eq]
  exact Lemmas.Rpow.rpow_le_of_le_pow (by norm_num) (by norm_num) 5 11 (by norm_num) (by norm_num)

/-- slope certificate: `(9e-4)^(5/11 − 1) ≤ 47` -/
theorem slope_cert : (9e-4 : ℝ) ^ (pR - 1) ≤ 47 := by
  have e : pR - 1 = -(((6 : ℕ) : ℝ) / ((11 : ℕ) : ℝ)) := by rw [pR_eq]; norm_num
  rw [e, Real.rpow_neg (by norm_num)]
  have h : (1 / 47 : ℝ) ≤ (9e-4 : ℝ) ^ (((6 : ℕ) : ℝ) / ((11 : ℕ) : ℝ)) :=
    Lemmas.Rpow.le_rpow_of_pow_le (by norm_num) (by norm_num) 6 11 (by norm_num) (by norm_num)
  have hpos : (0 : ℝ) < (9e-4 : ℝ) ^ (((6 : ℕ) : ℝ) / ((11 : ℕ) : ℝ)) := lt_of_lt_of_le (by norm_num) h
  rw [inv_le_comm₀ hpos (by norm_num)]
  norm_num at h ⊢; linarith

/-- **the final encoding, bright channel**: real linear value `x ∈ [1e-3, 1.5]`: `x^(1/2.2)` is `22`-Lipschitz on
`[9e-4, ∞)`, the encoded values differ by at most `22·e + 1e-14` -/
theorem enc_bright {b x e : ℝ} (hbx : |b - x| ≤ e) (he : e ≤ 1 / 10 ^ 5) (hx0 : 1 / 1000 ≤ x) (hx : x ≤ 3 / 2) :
    |M.pow (max b 0) (pE M) - (max x 0) ^ pR| ≤ 22 * e + 1 / 10 ^ 14 := by
  obtain ⟨d1, d2⟩ := abs_le.mp hbx
  have hb0 : 9e-4 ≤ b := by norm_num at d1 he ⊢; linarith
  rw [max_eq_left (by linarith : (0 : ℝ) ≤ b), max_eq_left (by linarith : (0 : ℝ) ≤ x)]
  have pp := pow_pert M (by linarith : (0 : ℝ) ≤ b) (by norm_num at d2 he; linarith)
  have hp : pR = 5 / 11 := by rw [pR_eq]; norm_num
  have hp0 : 0 ≤ pR := by rw [hp]; norm_num
  have hp1 : pR ≤ 1 := by rw [hp]; norm_num
  have sc := slope_cert
  have lip : |b ^ pR - x ^ pR| ≤ pR * (9e-4 : ℝ) ^ (pR - 1) * |b - x| := by
    rcases le_total b x with h | h
    · obtain ⟨k1, k2⟩ := Lemmas.CurvesD2.rpow_sub_le hp0 hp1 (by norm_num : (0 : ℝ) < 9e-4) hb0 h
      rw [abs_sub_comm, abs_of_nonneg k1, abs_sub_comm, abs_of_nonneg (by linarith)]; exact k2
    · obtain ⟨k1, k2⟩ := Lemmas.CurvesD2.rpow_sub_le hp0 hp1 (by norm_num : (0 : ℝ) < 9e-4)
        (by norm_num at hx0 ⊢; linarith) h
      rw [abs_of_nonneg k1, abs_of_nonneg (by linarith)]; exact k2
  have lip' : |b ^ pR - x ^ pR| ≤ 22 * e := by
    refine lip.trans ?_
    have h0 : (0 : ℝ) ≤ (9e-4 : ℝ) ^ (pR - 1) := Real.rpow_nonneg (by norm_num) _
    have h1 : pR * (9e-4 : ℝ) ^ (pR - 1) ≤ 22 := by rw [hp] at sc ⊢; nlinarith
    exact mul_le_mul h1 hbx (abs_nonneg _) (by norm_num)
  have t := abs_sub_le (M.pow b (pE M)) (b ^ pR) (x ^ pR)
  linarith

/-- the encoded value of a bright channel is above the decoder's threshold region: `(1e-3)^(5/11) ≥ 0.041` -/
theorem enc_bright_range {x : ℝ} (hx0 : 1 / 1000 ≤ x) (hx : x ≤ 1) : 41 / 1000 ≤ x ^ pR ∧ x ^ pR ≤ 1 := by
  have hp : pR = 5 / 11 := by rw [pR_eq]; norm_num
  have h : (41 / 1000 : ℝ) ≤ (1 / 1000 : ℝ) ^ (((5 : ℕ) : ℝ) / ((11 : ℕ) : ℝ)) :=
    Lemmas.Rpow.le_rpow_of_pow_le (by norm_num) (by norm_num) 5 11 (by norm_num) (by norm_num)
  rw [← pR_eq] at h
  exact ⟨h.trans (Real.rpow_le_rpow (by norm_num) hx0 (by rw [hp]; norm_num)),
    Real.rpow_le_one (by linarith) hx (by rw [hp]; norm_num)⟩

/-- a channel that is clearly negative in the real model (`x ≤ −1e-9`) is clamped to 0 in both evaluations -/
theorem enc_negative {b x e : ℝ} (hbx : |b - x| ≤ e) (he : e ≤ 1 / 10 ^ 10) (hx : x ≤ -(1 / 10 ^ 9)) :
    |M.pow (max b 0) (pE M) - (max x 0) ^ pR| ≤ 1 / 10 ^ 14 ∧ (max x 0) ^ pR = 0 := by
  obtain ⟨d1, d2⟩ := abs_le.mp hbx
  have hb : b ≤ 0 := by norm_num at d2 hx he ⊢; linarith
  have hp : pR = 5 / 11 := by rw [pR_eq]; norm_num
  rw [max_eq_right hb, max_eq_right (by norm_num at hx ⊢; linarith : x ≤ 0)]
  exact ⟨pow_pert M le_rfl (by norm_num), Real.zero_rpow (by rw [hp]; norm_num)⟩

/-! ## `Xyz::from(Srgb)` on a computed encoded triple -/

/-- computed encoded value `t` within `e` of the real `v ∈ [-0.001, 1.001]`, `v` outside the threshold region
`(0.040, 0.041)` of the sRGB decoder (threshold `0.04045`) -/
def EncOK (t v e : ℝ) : Prop := |t - v| ≤ e ∧ (v ≤ 0.040 ∨ 0.041 ≤ v) ∧ -0.001 ≤ v ∧ v ≤ 1.001

open Lemmas.FpEnc Lemmas.FpXyz Lemmas.Matrix Lemmas.XyzDispatch in
/-- **`Xyz::from(Srgb)` in `RF M`** on an encoded triple known within `e ≤ 1e-10`, each channel clear of the decoder's
threshold region: every component within `36·e + 2e-13` of the real model -/
theorem xyz_from_srgb_close (s' : Srgb (RF M)) (s : Srgb ℝ) (e : ℝ) (he : e ≤ 1e-10)
    (hr : EncOK s'.r.val s.r e) (hg : EncOK s'.g.val s.g e) (hb : EncOK s'.b.val s.b e) :
    |(Xyz.from_Srgb s').x.val - (Xyz.from_Srgb s).x| ≤ 36 * e + 2 / 10 ^ 13 ∧
    |(Xyz.from_Srgb s').y.val - (Xyz.from_Srgb s).y| ≤ 36 * e + 2 / 10 ^ 13 ∧
    |(Xyz.from_Srgb s').z.val - (Xyz.from_Srgb s).z| ≤ 36 * e + 2 / 10 ^ 13 := by
  obtain ⟨f1, g1, g2, g3⟩ := hr
  obtain ⟨f2, g1', g2', g3'⟩ := hg
  obtain ⟨f3, g1'', g2'', g3''⟩ := hb
  have he0 : 0 ≤ e := le_trans (abs_nonneg _) f1
  have d1 := srgb_dec_tight M _ _ _ f1 he g1 g2 g3
  have d2 := srgb_dec_tight M _ _ _ f2 he g1' g2' g3'
  have d3 := srgb_dec_tight M _ _ _ f3 he g1'' g2'' g3''
  have b1 := srgb_dec_range _ g2 g3
  have b2 := srgb_dec_range _ g2' g3'
  have b3 := srgb_dec_range _ g2'' g3''
  obtain ⟨r1, r2, r3⟩ := fwd_rows M .D65
  have hee : 2.7 * e + 1e-14 ≤ 1e-3 := by norm_num at he ⊢; linarith
  have q1 := dot3_close' M r1 (v := (F64.compute_srgb_gamma_expanded s'.r, F64.compute_srgb_gamma_expanded s'.g, F64.compute_srgb_gamma_expanded s'.b))
    (x := (F64.compute_srgb_gamma_expanded s.r, F64.compute_srgb_gamma_expanded s.g, F64.compute_srgb_gamma_expanded s.b))
    (e := 2.7 * e + 1e-14) d1 d2 d3 b1 b2 b3 hee
  have q2 := dot3_close' M r2 (v := (F64.compute_srgb_gamma_expanded s'.r, F64.compute_srgb_gamma_expanded s'.g, F64.compute_srgb_gamma_expanded s'.b))
    (x := (F64.compute_srgb_gamma_expanded s.r, F64.compute_srgb_gamma_expanded s.g, F64.compute_srgb_gamma_expanded s.b))
    (e := 2.7 * e + 1e-14) d1 d2 d3 b1 b2 b3 hee
  have q3 := dot3_close' M r3 (v := (F64.compute_srgb_gamma_expanded s'.r, F64.compute_srgb_gamma_expanded s'.g, F64.compute_srgb_gamma_expanded s'.b))
    (x := (F64.compute_srgb_gamma_expanded s.r, F64.compute_srgb_gamma_expanded s.g, F64.compute_srgb_gamma_expanded s.b))
    (e := 2.7 * e + 1e-14) d1 d2 d3 b1 b2 b3 hee
  rw [xyz_from_srgb_fp, xyz_from_srgb_real]
  simp only [toXyz, mulVec]
  simp only [fwdF] at q1 q2 q3
  simp only [fwd] at q1 q2 q3 ⊢
  refine ⟨q1.trans ?_, q2.trans ?_, q3.trans ?_⟩ <;> (norm_num; linarith)

/-- condition on a REAL linear-light channel under which the XYZ path is well conditioned: clearly negative (clamped to
0 in both evaluations) or bright (`≥ 1e-3`, where `x^(1/2.2)` is Lipschitz) and in gamut (`≤ 1`) -/
def ChanOK (x : ℝ) : Prop := x ≤ -(1 / 10 ^ 9) ∨ (1 / 1000 ≤ x ∧ x ≤ 1)

/-- a channel satisfying `ChanOK`, computed within `e ≤ 4e-12`: the encoded value is `EncOK` with `22·e + 1e-14` -/
theorem chan_enc {b x e : ℝ} (hbx : |b - x| ≤ e) (he : e ≤ 4 / 10 ^ 12) (hc : ChanOK x) :
    EncOK (M.pow (max b 0) (pE M)) ((max x 0) ^ pR) (22 * e + 1 / 10 ^ 14) := by
  have he0 : 0 ≤ e := le_trans (abs_nonneg _) hbx
  rcases hc with hn | ⟨h0, h1⟩
  · obtain ⟨k1, k2⟩ := enc_negative M hbx (he.trans (by norm_num)) hn
    refine ⟨k1.trans (by linarith), ?_, ?_, ?_⟩ <;> rw [k2] <;> norm_num
  · have k := enc_bright M hbx (he.trans (by norm_num)) h0 (by linarith)
    obtain ⟨r0, r1⟩ := enc_bright_range h0 h1
    rw [max_eq_left (by linarith : (0 : ℝ) ≤ x)] at k ⊢
    refine ⟨k, Or.inr (by norm_num at r0 ⊢; linarith), by norm_num at r0 ⊢; linarith, by norm_num; linarith⟩

/-- **`Xyz::from(OkLab)` in `RF M`** against the real model at `q` (computed input `o` with `q`'s lightness and `a`, `b`
within `δ ≤ 5.6e-15`), every real linear-light channel `ChanOK`: each XYZ component within `320000·δ + 4e-10` -/
theorem xyz_from_oklab_close (o : OkLab (RF M)) (q : OkLab ℝ) (δ : ℝ) (hδ : δ ≤ 56 / 10 ^ 16) (hl : o.l.val = q.l)
    (hoa : |o.a.val - q.a| ≤ δ) (hob : |o.b.val - q.b| ≤ δ) (hL0 : 0 ≤ q.l) (hL1 : q.l ≤ 1)
    (ha : |q.a| ≤ 51 / 100) (hb : |q.b| ≤ 51 / 100)
    (cr : ChanOK (okLin q).r) (cg : ChanOK (okLin q).g) (cb : ChanOK (okLin q).b) :
    |(Xyz.from_OkLab o).x.val - (Xyz.from_OkLab q).x| ≤ 320000 * δ + 4 / 10 ^ 10 ∧
    |(Xyz.from_OkLab o).y.val - (Xyz.from_OkLab q).y| ≤ 320000 * δ + 4 / 10 ^ 10 ∧
    |(Xyz.from_OkLab o).z.val - (Xyz.from_OkLab q).z| ≤ 320000 * δ + 4 / 10 ^ 10 := by
  have hδ0 : 0 ≤ δ := le_trans (abs_nonneg _) hoa
  obtain ⟨l1, l2, l3⟩ := oklin_close M o q δ (hδ.trans (by norm_num)) hl hoa hob hL0 hL1 ha hb
  have he : 400 * δ + 5 / 10 ^ 13 ≤ 4 / 10 ^ 12 := by norm_num at hδ ⊢; linarith
  obtain ⟨f1, f2, f3⟩ := as_non_linear_fp M (okLin o)
  have e1 := chan_enc M l1 he cr
  have e2 := chan_enc M l2 he cg
  have e3 := chan_enc M l3 he cb
  rw [← f1] at e1; rw [← f2] at e2; rw [← f3] at e3
  have hx : Xyz.from_OkLab o = Xyz.from_Srgb (Srgb.as_non_linear (okLin o)) := rfl
  have hq : Xyz.from_OkLab q = Xyz.from_Srgb (Srgb.as_non_linear (okLin q)) := rfl
  rw [hx, hq]
  have key := xyz_from_srgb_close M (Srgb.as_non_linear (okLin o)) (Srgb.as_non_linear (okLin q))
    (22 * (400 * δ + 5 / 10 ^ 13) + 1 / 10 ^ 14) (by norm_num at hδ ⊢; linarith)
    (by rw [as_non_linear_real]; exact e1) (by rw [as_non_linear_real]; exact e2) (by rw [as_non_linear_real]; exact e3)
  obtain ⟨k1, k2, k3⟩ := key
  refine ⟨k1.trans ?_, k2.trans ?_, k3.trans ?_⟩ <;> (norm_num; linarith)

/-! ## the sRGB decoder on an arbitrary computed argument (threshold region included) -/

/-- the computed threshold literal `0.04045` -/
noncomputable def thrD : ℝ := M.rnd (((809 : ℕ) : ℝ) / ((20000 : ℕ) : ℝ))

theorem thrD_close : |thrD M - 0.04045| ≤ 1e-17 := by
  have l0 := lit_close M 809 20000 (B := 1 / 20) (by norm_num) (by norm_num)
  unfold thrD
  refine le_trans (le_of_eq ?_) (l0.trans (by norm_num [FP.eps]))
  norm_num

/-- the decoder's power branch on ℝ -/
noncomputable def decPow (v : ℝ) : ℝ := ((v + 0.055) / 1.055) ^ (2.4 : ℝ)

/-- **linear branch taken in `RF M`**: the computed value is within `0.084·e + 3e-16` of `v/12.92` (`|v| ≤ 1.001`, any
`e ≤ 1e-3`) -/
theorem dec_lin_fp (t : RF M) (v e : ℝ) (htv : |t.val - v| ≤ e) (he : e ≤ 1e-3) (hv : |v| ≤ 1.001)
    (hc : t.val ≤ thrD M) :
    |(F64.compute_srgb_gamma_expanded t).val - v / 12.92| ≤ 0.084 * e + 3e-16 := by
  have he0 : 0 ≤ e := le_trans (abs_nonneg _) htv
  unfold thrD at hc
  simp only [F64.compute_srgb_gamma_expanded, FltRF.le_eq, FltRF.lit_val, hc, decide_true, if_true, FltRF.div_val]
  have l1 := lit_close M 323 25 (B := 13) (by norm_num) (by norm_num)
  have bq : |v / (((323:ℕ):ℝ) / ((25:ℕ):ℝ))| ≤ 1 := by
    rw [abs_div, abs_of_nonneg (by positivity : (0:ℝ) ≤ ((323:ℕ):ℝ)/((25:ℕ):ℝ)), div_le_one (by positivity)]
    push_cast; linarith
  have d1 := div_close M htv l1 hv (m := 12) (Bq := 1) (by norm_num) (by norm_num [FP.eps]) bq (by norm_num)
  have e' : v / 12.92 = v / (((323:ℕ):ℝ) / ((25:ℕ):ℝ)) := by norm_num
  rw [e']
  refine le_trans d1 ?_
  have : (e * 12 + FP.eps * 13 * 1.001) / (12 * (12 - FP.eps * 13)) ≤ 0.084 * e + 1.4e-16 := by
    rw [div_le_iff₀ (by norm_num [FP.eps])]; unfold FP.eps; nlinarith
  unfold FP.eps at *
  nlinarith

open Lemmas.FpEnc in
/-- **power branch taken in `RF M`**: within `2.7·e + 1e-14` of `((v + 0.055)/1.055)^2.4` (`0.03 ≤ v ≤ 1.001`, `e ≤ 1e-10`) -/
theorem dec_pow_fp (t : RF M) (v e : ℝ) (htv : |t.val - v| ≤ e) (he : e ≤ 1e-10) (hlo : 0.03 ≤ v) (hhi : v ≤ 1.001)
    (hc : ¬ t.val ≤ thrD M) :
    |(F64.compute_srgb_gamma_expanded t).val - decPow v| ≤ 2.7 * e + 1e-14 := by
  have he0 : 0 ≤ e := le_trans (abs_nonneg _) htv
  unfold thrD at hc
  unfold decPow
  simp only [F64.compute_srgb_gamma_expanded, FltRF.le_eq, FltRF.lit_val, hc, decide_false, if_false, FltRF.div_val,
    FltRF.add_val, FltRF.pow_val, Bool.false_eq_true]
  have l1 := lit_close M 11 200 (B := 1) (by norm_num) (by norm_num)
  have l2 := lit_close M 211 200 (B := 2) (by norm_num) (by norm_num)
  have l3 := lit_close M 12 5 (B := 3) (by norm_num) (by norm_num)
  have bs : |v + ((11:ℕ):ℝ)/((200:ℕ):ℝ)| ≤ 2 := by
    rw [abs_of_nonneg (by push_cast; linarith)]; push_cast; linarith
  have a1 := add_close M htv l1 bs (by norm_num)
  have bq : |(v + ((11:ℕ):ℝ)/((200:ℕ):ℝ)) / (((211:ℕ):ℝ)/((200:ℕ):ℝ))| ≤ 1.001 := by
    rw [abs_div, abs_of_nonneg (by push_cast; linarith : (0:ℝ) ≤ v + ((11:ℕ):ℝ)/((200:ℕ):ℝ)),
      abs_of_nonneg (by positivity : (0:ℝ) ≤ ((211:ℕ):ℝ)/((200:ℕ):ℝ)), div_le_iff₀ (by positivity)]
    push_cast; linarith
  have d1 := div_close M a1 l2 bs (m := 1) (Bq := 1.001) (by rw [abs_of_nonneg (by positivity)]; norm_num)
    (by norm_num [FP.eps]) bq (by norm_num)
  have ex : (v + 55e-3) / 1.055 = (v + ((11:ℕ):ℝ)/((200:ℕ):ℝ)) / (((211:ℕ):ℝ)/((200:ℕ):ℝ)) := by norm_num
  have ey : (2.4:ℝ) = ((12:ℕ):ℝ)/((5:ℕ):ℝ) := by norm_num
  rw [ex, ey]
  set X : ℝ := (v + ((11:ℕ):ℝ)/((200:ℕ):ℝ)) / (((211:ℕ):ℝ)/((200:ℕ):ℝ)) with hX
  have hXlo : 0.08 ≤ X := by
    rw [hX, le_div_iff₀ (by positivity)]; push_cast; linarith
  have hXhi : X ≤ 1.001 := by
    rw [hX, div_le_iff₀ (by positivity)]; push_cast; linarith
  set e1 : ℝ := (e + FP.eps * 1 + FP.eps * (2 + (e + FP.eps * 1))) with he1
  set e2 : ℝ := (e1 * 1 + FP.eps * 2 * 2) / (1 * (1 - FP.eps * 2)) + FP.eps * (1.001 + (e1 * 1 + FP.eps * 2 * 2) / (1 * (1 - FP.eps * 2))) with he2
  have he2b : e2 ≤ 1.0001 * e + 1.3e-15 := by
    have h1 : (e1 * 1 + FP.eps * 2 * 2) / (1 * (1 - FP.eps * 2)) ≤ 1.00001 * e + 1.1e-15 := by
      rw [div_le_iff₀ (by norm_num [FP.eps])]; rw [he1]; unfold FP.eps; nlinarith
    rw [he2]; unfold FP.eps at *; nlinarith
  have hb0 : 0 < M.rnd (M.rnd (t.val + M.rnd (((11:ℕ):ℝ) / ((200:ℕ):ℝ))) / M.rnd (((211:ℕ):ℝ) / ((200:ℕ):ℝ))) := by
    have := (abs_le.mp d1).1; linarith
  have := pow_dec_close' M hb0 (by linarith) hXhi d1 (by linarith) (y := ((12:ℕ):ℝ)/((5:ℕ):ℝ)) (by norm_num) (by norm_num) l3
  refine this.trans ?_
  nlinarith

/-- **the jump of the sRGB decoder at its threshold**: for `|v − 0.04045| ≤ 1e-7` the two branch formulas differ by at most
`4e-8` (at `0.04045` itself the power formula exceeds the linear one by `2.3e-9`; the standard's constants are not
continuous) -/
theorem dec_gap {v : ℝ} (hv : |v - 0.04045| ≤ 1e-7) : |v / 12.92 - decPow v| ≤ 4e-8 := by
  obtain ⟨v1, v2⟩ := abs_le.mp hv
  have ey : (2.4:ℝ) = ((12:ℕ):ℝ)/((5:ℕ):ℝ) := by norm_num
  have hb0 : (0 : ℝ) ≤ (v + 0.055) / 1.055 := by
    apply div_nonneg _ (by norm_num); norm_num at v1 ⊢; linarith
  have hhi : decPow v ≤ 0.00313083 := by
    unfold decPow
    calc ((v + 0.055) / 1.055) ^ (2.4 : ℝ) ≤ ((0.0404501 + 0.055) / 1.055 : ℝ) ^ (2.4 : ℝ) :=
          Real.rpow_le_rpow hb0 (by rw [div_le_div_iff_of_pos_right (by norm_num)]; norm_num at v2 ⊢; linarith)
            (by norm_num)
      _ ≤ 0.00313083 := by
          rw [ey]; exact Lemmas.CurvesD2.rpow_div_le 12 5 (by norm_num) (by norm_num) (by norm_num) (by norm_num)
  have hlo : 0.00313078 ≤ decPow v := by
    unfold decPow
    calc (0.00313078 : ℝ) ≤ ((0.0404499 + 0.055) / 1.055 : ℝ) ^ (2.4 : ℝ) := by
          rw [ey]; exact Lemmas.CurvesD2.le_rpow_div 12 5 (by norm_num) (by norm_num) (by norm_num) (by norm_num)
      _ ≤ ((v + 0.055) / 1.055) ^ (2.4 : ℝ) :=
          Real.rpow_le_rpow (by norm_num) (by rw [div_le_div_iff_of_pos_right (by norm_num)]; norm_num at v1 ⊢; linarith)
            (by norm_num)
  have q1 : v / 12.92 ≤ 0.0031308127 := by rw [div_le_iff₀ (by norm_num)]; norm_num at v2 ⊢; linarith
  have q2 : 0.0031307972 ≤ v / 12.92 := by rw [le_div_iff₀ (by norm_num)]; norm_num at v1 ⊢; linarith
  rw [abs_le]; constructor <;> norm_num at hhi hlo q1 q2 ⊢ <;> linarith

/-- **the sRGB decoder in `RF M` on ANY computed argument** within `e ≤ 1e-10` of `v ∈ [0.03, 1.001]`, whatever branch
either evaluation takes: `2.7·e + 5e-8` -/
theorem dec_any (t : RF M) (v e : ℝ) (htv : |t.val - v| ≤ e) (he : e ≤ 1e-10) (hlo : 0.03 ≤ v) (hhi : v ≤ 1.001) :
    |(F64.compute_srgb_gamma_expanded t).val - F64.compute_srgb_gamma_expanded v| ≤ 2.7 * e + 5e-8 := by
  have he0 : 0 ≤ e := le_trans (abs_nonneg _) htv
  obtain ⟨t1, t2⟩ := abs_le.mp htv
  obtain ⟨k1, k2⟩ := abs_le.mp (thrD_close M)
  have hv : |v| ≤ 1.001 := by rw [abs_of_nonneg (by linarith)]; exact hhi
  by_cases hc : t.val ≤ thrD M
  · have a := dec_lin_fp M t v e htv (he.trans (by norm_num)) hv hc
    rcases le_or_gt v 0.04045 with h | h
    · rw [Lemmas.Curves.srgb_dec_lin h]; refine a.trans ?_; norm_num at he ⊢; linarith
    · rw [Lemmas.Curves.srgb_dec_pow h]
      have g := dec_gap (v := v) (by rw [abs_le]; constructor <;> norm_num at he k1 k2 ⊢ <;> linarith)
      have t3 := abs_sub_le (F64.compute_srgb_gamma_expanded t).val (v / 12.92) (decPow v)
      unfold decPow at g t3
      norm_num at a g t3 he ⊢; linarith
  · have a := dec_pow_fp M t v e htv he hlo hhi hc
    rcases le_or_gt v 0.04045 with h | h
    · rw [Lemmas.Curves.srgb_dec_lin h]
      rw [not_le] at hc
      have g := dec_gap (v := v) (by rw [abs_le]; constructor <;> norm_num at he k1 k2 ⊢ <;> linarith)
      have t3 := abs_sub_le (F64.compute_srgb_gamma_expanded t).val (decPow v) (v / 12.92)
      rw [abs_sub_comm] at g
      norm_num at a g t3 he ⊢; linarith
    · rw [Lemmas.Curves.srgb_dec_pow h]; unfold decPow at a; refine a.trans ?_; norm_num

/-! ## `Xyz::from(OkLab)` without a side condition on the channels -/

theorem dark_cert : (7e-4 : ℝ) ^ pR ≤ 0.038 ∧ 0.03 ≤ (7e-4 : ℝ) ^ pR := by
  rw [pR_eq]
  exact ⟨Lemmas.Rpow.rpow_le_of_le_pow (by norm_num) (by norm_num) 5 11 (by norm_num) (by norm_num),
    Lemmas.Rpow.le_rpow_of_pow_le (by norm_num) (by norm_num) 5 11 (by norm_num) (by norm_num)⟩

/-- slope certificate: `(6e-4)^(5/11 − 1) ≤ 58` -/
theorem slope_cert6 : (6e-4 : ℝ) ^ (pR - 1) ≤ 58 := by
  have e : pR - 1 = -(((6 : ℕ) : ℝ) / ((11 : ℕ) : ℝ)) := by rw [pR_eq]; norm_num
  rw [e, Real.rpow_neg (by norm_num)]
  have h : (1 / 58 : ℝ) ≤ (6e-4 : ℝ) ^ (((6 : ℕ) : ℝ) / ((11 : ℕ) : ℝ)) :=
    Lemmas.Rpow.le_rpow_of_pow_le (by norm_num) (by norm_num) 6 11 (by norm_num) (by norm_num)
  have hpos : (0 : ℝ) < (6e-4 : ℝ) ^ (((6 : ℕ) : ℝ) / ((11 : ℕ) : ℝ)) := lt_of_lt_of_le (by norm_num) h
  rw [inv_le_comm₀ hpos (by norm_num)]
  norm_num at h ⊢; linarith

/-- the final encoding for a real linear value `x ∈ [7e-4, 1.5]`: `27·e + 1e-14` -/
theorem enc_mid {b x e : ℝ} (hbx : |b - x| ≤ e) (he : e ≤ 1 / 10 ^ 5) (hx0 : 7 / 10000 ≤ x) (hx : x ≤ 3 / 2) :
    |M.pow (max b 0) (pE M) - (max x 0) ^ pR| ≤ 27 * e + 1 / 10 ^ 14 := by
  obtain ⟨d1, d2⟩ := abs_le.mp hbx
  have hb0 : 6e-4 ≤ b := by norm_num at d1 he hx0 ⊢; linarith
  rw [max_eq_left (by linarith : (0 : ℝ) ≤ b), max_eq_left (by linarith : (0 : ℝ) ≤ x)]
  have pp := pow_pert M (by linarith : (0 : ℝ) ≤ b) (by norm_num at d2 he; linarith)
  have hp : pR = 5 / 11 := by rw [pR_eq]; norm_num
  have hp0 : 0 ≤ pR := by rw [hp]; norm_num
  have hp1 : pR ≤ 1 := by rw [hp]; norm_num
  have sc := slope_cert6
  have lip : |b ^ pR - x ^ pR| ≤ pR * (6e-4 : ℝ) ^ (pR - 1) * |b - x| := by
    rcases le_total b x with h | h
    · obtain ⟨k1, k2⟩ := Lemmas.CurvesD2.rpow_sub_le hp0 hp1 (by norm_num : (0 : ℝ) < 6e-4) hb0 h
      rw [abs_sub_comm, abs_of_nonneg k1, abs_sub_comm, abs_of_nonneg (by linarith)]; exact k2
    · obtain ⟨k1, k2⟩ := Lemmas.CurvesD2.rpow_sub_le hp0 hp1 (by norm_num : (0 : ℝ) < 6e-4)
        (by norm_num at hx0 ⊢; linarith) h
      rw [abs_of_nonneg k1, abs_of_nonneg (by linarith)]; exact k2
  have lip' : |b ^ pR - x ^ pR| ≤ 27 * e := by
    refine lip.trans ?_
    have h0 : (0 : ℝ) ≤ (6e-4 : ℝ) ^ (pR - 1) := Real.rpow_nonneg (by norm_num) _
    have h1 : pR * (6e-4 : ℝ) ^ (pR - 1) ≤ 27 := by rw [hp] at sc ⊢; nlinarith
    exact mul_le_mul h1 hbx (abs_nonneg _) (by norm_num)
  have t := abs_sub_le (M.pow b (pE M)) (b ^ pR) (x ^ pR)
  linarith

/-- **one channel of `Xyz::from(OkLab)` up to the decoder**, real linear value `x ≤ 1` of ANY sign, computed within
`1e-12`: the decoded values differ by at most `3.1e-7` (dark channel `x ≤ 7e-4`: Hölder bound `3.6e-6` through the decoder's
linear segment `/12.92`; otherwise Lipschitz encoder, and the decoder's jump `≤ 4e-8` if the two evaluations take
different branches at `0.04045`) -/
theorem chan_dec (t : RF M) {b x : ℝ} (ht : t.val = M.pow (max b 0) (pE M)) (hbx : |b - x| ≤ 1 / 10 ^ 12) (hx : x ≤ 1) :
    |(F64.compute_srgb_gamma_expanded t).val - F64.compute_srgb_gamma_expanded ((max x 0) ^ pR)| ≤ 3.1e-7 ∧
    |F64.compute_srgb_gamma_expanded ((max x 0) ^ pR)| ≤ 3 := by
  have hp : pR = 5 / 11 := by rw [pR_eq]; norm_num
  have hX0 : 0 ≤ max x 0 := le_max_right _ _
  have hs0 : 0 ≤ (max x 0) ^ pR := Real.rpow_nonneg hX0 _
  have hs1 : (max x 0) ^ pR ≤ 1 := Real.rpow_le_one hX0 (max_le hx (by norm_num)) (by rw [hp]; norm_num)
  refine ⟨?_, Lemmas.FpEnc.srgb_dec_range _ (by linarith) (by norm_num at hs1 ⊢; linarith)⟩
  obtain ⟨k1, k2⟩ := abs_le.mp (thrD_close M)
  rcases le_or_gt x (7 / 10000) with hd | hd
  · -- dark
    have hh : ((1 : ℝ) / 10 ^ 12) ^ pR ≤ 3.6e-6 := by
      have h := holder_5_11; rwa [show (1e-12 : ℝ) = 1 / 10 ^ 12 by norm_num] at h
    have eh := enc_holder M hbx (by norm_num) hh (by linarith : x ≤ 3 / 2)
    rw [← ht] at eh
    have hsd : (max x 0) ^ pR ≤ 0.038 :=
      (Real.rpow_le_rpow hX0 (max_le (by norm_num at hd ⊢; linarith) (by norm_num)) (by rw [hp]; norm_num)).trans dark_cert.1
    obtain ⟨e1, e2⟩ := abs_le.mp eh
    have hc : t.val ≤ thrD M := by norm_num at e2 hsd k1 ⊢; linarith
    have a := dec_lin_fp M t _ _ eh (by norm_num) (by rw [abs_of_nonneg hs0]; norm_num at hs1 ⊢; linarith) hc
    rw [Lemmas.Curves.srgb_dec_lin (by norm_num at hsd ⊢; linarith)]
    refine a.trans ?_; norm_num
  · -- not dark
    have em := enc_mid M hbx (by norm_num) hd.le (by linarith)
    rw [← ht] at em
    have hx0 : (0 : ℝ) ≤ x := by norm_num at hd; linarith
    have hsl : 0.03 ≤ (max x 0) ^ pR := by
      refine dark_cert.2.trans (Real.rpow_le_rpow (by norm_num) ?_ (by rw [hp]; norm_num))
      rw [max_eq_left hx0]; norm_num at hd ⊢; linarith
    have a := dec_any M t _ _ em (by norm_num) hsl (by norm_num at hs1 ⊢; linarith)
    refine a.trans ?_; norm_num

open Lemmas.FpEnc Lemmas.FpXyz in
/-- **`Xyz::from(OkLab)` in `RF M`, no side condition on the channels**: `L ∈ [0, 1]`, `|a|, |b| ≤ 0.51`, every real
linear-light channel `≤ 1` (in gamut from above; any sign, any darkness): each XYZ component within `1e-6` of the real model -/
theorem xyz_from_oklab_any (o : OkLab (RF M)) (hL0 : 0 ≤ o.l.val) (hL1 : o.l.val ≤ 1) (ha : |o.a.val| ≤ 51 / 100)
    (hb : |o.b.val| ≤ 51 / 100)
    (cr : (okLin (α := ℝ) ⟨o.l.val, o.a.val, o.b.val⟩).r ≤ 1) (cg : (okLin (α := ℝ) ⟨o.l.val, o.a.val, o.b.val⟩).g ≤ 1)
    (cb : (okLin (α := ℝ) ⟨o.l.val, o.a.val, o.b.val⟩).b ≤ 1) :
    |(Xyz.from_OkLab o).x.val - (Xyz.from_OkLab (α := ℝ) ⟨o.l.val, o.a.val, o.b.val⟩).x| ≤ 1 / 10 ^ 6 ∧
    |(Xyz.from_OkLab o).y.val - (Xyz.from_OkLab (α := ℝ) ⟨o.l.val, o.a.val, o.b.val⟩).y| ≤ 1 / 10 ^ 6 ∧
    |(Xyz.from_OkLab o).z.val - (Xyz.from_OkLab (α := ℝ) ⟨o.l.val, o.a.val, o.b.val⟩).z| ≤ 1 / 10 ^ 6 := by
  obtain ⟨l1, l2, l3⟩ := oklin_fp M o hL0 hL1 ha hb
  obtain ⟨f1, f2, f3⟩ := as_non_linear_fp M (okLin o)
  set q : OkLab ℝ := ⟨o.l.val, o.a.val, o.b.val⟩ with hq
  obtain ⟨d1, b1⟩ := chan_dec M _ f1 (l1.trans (by norm_num)) cr
  obtain ⟨d2, b2⟩ := chan_dec M _ f2 (l2.trans (by norm_num)) cg
  obtain ⟨d3, b3⟩ := chan_dec M _ f3 (l3.trans (by norm_num)) cb
  have hx : Xyz.from_OkLab o = Xyz.from_Srgb (Srgb.as_non_linear (okLin o)) := rfl
  have hr : Xyz.from_OkLab q = Xyz.from_Srgb (Srgb.as_non_linear (okLin q)) := rfl
  rw [hx, hr, as_non_linear_real]
  simp only [Xyz.from_Srgb, C.X65, C.Y65, C.Z65, FltRF.add_val, FltRF.mul_val, FltRF.lit_val, FltReal.lit_eq]
  have k1 := FpLin.dot3_lit_close' M 1031141 2500000 3575761 10000000 2887 16000 (L := 1) (X := 3)
    (by norm_num) (by norm_num) (by norm_num) le_rfl d1 d2 d3 b1 b2 b3 (by norm_num)
  have k2 := FpLin.dot3_lit_close' M 2126729 10000000 3575761 5000000 2887 40000 (L := 1) (X := 3)
    (by norm_num) (by norm_num) (by norm_num) le_rfl d1 d2 d3 b1 b2 b3 (by norm_num)
  have k3 := FpLin.dot3_lit_close' M 193339 10000000 14899 125000 9503041 10000000 (L := 1) (X := 3)
    (by norm_num) (by norm_num) (by norm_num) le_rfl d1 d2 d3 b1 b2 b3 (by norm_num)
  refine ⟨?_, ?_, ?_⟩
  · refine le_trans (le_of_eq ?_) (k1.trans (by norm_num [FP.eps]))
    congr 1; ring
  · refine le_trans (le_of_eq ?_) (k2.trans (by norm_num [FP.eps]))
    congr 1; ring
  · refine le_trans (le_of_eq ?_) (k3.trans (by norm_num [FP.eps]))
    congr 1; ring

end fp
end FpRevOk
