import LymuiVerif.Lemmas.QuantA2
/-!
# Closed forms of two generated helper functions of `hsl.rs` on the exact-real instance
-/
namespace HexconeA2
open Gen

/-- `Hsl::compute_saturation(min, max, (min+max)/2)` is `(max-min) / (1 - |2l - 1|)` (0 for greys),
for `0 ≤ min ≤ max ≤ 1`.  The white guard `max != 1 || min != 1` and the black guard are covered. -/
theorem compute_saturation_eq (m M : ℝ) (h0 : 0 ≤ m) (h1 : m ≤ M) (h2 : M ≤ 1) :
    Hsl.compute_saturation m M ((m + M) / 2) =
      if M = m then 0 else (M - m) / (1 - |2 * ((m + M) / 2) - 1|) := by
  unfold Hsl.compute_saturation
  simp only [FltReal.lit_eq, FltReal.beq_eq, FltReal.lt_eq, decide_eq_true_eq, Nat.cast_ofNat,
    Nat.cast_one, div_one, Nat.cast_zero, Bool.not_eq_true', decide_eq_false_iff_not]
  have e : 2 * ((m + M) / 2) - 1 = m + M - 1 := by ring
  rw [e]
  by_cases hl : 1 / 2 < (m + M) / 2
  · have habs : |m + M - 1| = m + M - 1 := abs_of_nonneg (by linarith)
    rw [if_pos hl, habs]
    split_ifs
    all_goals first
      | rfl
      | (exfalso; linarith)
      | (congr 1; ring1)
      | (rw [show M - m = 0 by linarith]; simp)
  · have habs : |m + M - 1| = -(m + M - 1) := abs_of_nonpos (by linarith)
    rw [if_neg hl, habs]
    split_ifs
    all_goals first
      | rfl
      | (congr 1; ring1)
      | (rw [show M - m = 0 by linarith]; simp)

/-- `Hsl::compute_rgb_value` for a hue in `[0,360)`: the six-sector table with
`X = C (1 - |H mod 2 - 1|)`, `H = h/60`. -/
theorem compute_rgb_value_eq (h s l C : ℝ) (h0 : 0 ≤ h) (h1 : h < 360) :
    Hsl.compute_rgb_value (⟨h, s, l⟩ : Hsl ℝ) C =
      (if h / 60 < 1 then (C, C * (1 - |h / 60 - 2 * (⌊h / 60 / 2⌋ : ℝ) - 1|), 0)
       else if h / 60 < 2 then (C * (1 - |h / 60 - 2 * (⌊h / 60 / 2⌋ : ℝ) - 1|), C, 0)
       else if h / 60 < 3 then (0, C, C * (1 - |h / 60 - 2 * (⌊h / 60 / 2⌋ : ℝ) - 1|))
       else if h / 60 < 4 then (0, C * (1 - |h / 60 - 2 * (⌊h / 60 / 2⌋ : ℝ) - 1|), C)
       else if h / 60 < 5 then (C * (1 - |h / 60 - 2 * (⌊h / 60 / 2⌋ : ℝ) - 1|), 0, C)
       else (C, 0, C * (1 - |h / 60 - 2 * (⌊h / 60 / 2⌋ : ℝ) - 1|))) := by
  unfold Hsl.compute_rgb_value
  simp only [FltReal.lit_eq, FltReal.lt_eq, FltReal.le_eq, FltReal.rem_eq, FltReal.abs_eq,
    FltReal.floor_eq, decide_eq_true_eq, Nat.cast_ofNat, Nat.cast_one, div_one, Nat.cast_zero]
  have hH0 : 0 ≤ h / 60 := by positivity
  have hH6 : h / 60 < 6 := by linarith
  rw [QuantA2.truncZ_nonneg (by positivity : 0 ≤ h / 60 / 2)]
  generalize h / 60 = H at *
  generalize C * (1 - |H - 2 * (⌊H / 2⌋ : ℝ) - 1|) = X
  have hk0 : 0 ≤ ⌊H⌋ := Int.floor_nonneg.mpr hH0
  have hk6 : ⌊H⌋ < 6 := Int.floor_lt.mpr (by exact_mod_cast hH6)
  have hfl := Int.floor_le H
  have hlt := Int.lt_floor_add_one H
  generalize ⌊H⌋ = k at *
  interval_cases k
  all_goals norm_num at hfl hlt ⊢
  all_goals first
    | (intro hh; exfalso; linarith)
    | (split_ifs <;> first | rfl | (exfalso; linarith))

end HexconeA2
