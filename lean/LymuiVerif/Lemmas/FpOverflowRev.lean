import LymuiVerif.Lemmas.FpOverflowLuv
import LymuiVerif.Lemmas.FpDefinedRev
/-!
# No overflow in the rounded model (C04 "no infinity"): some conversions back to XYZ

sRGB, Adobe RGB, Rec.709, Rec.2020, CIELAB → XYZ for inputs of magnitude `≤ 1e5` (resp. `1e7`): the crude magnitudes
of the forward results (`srgb_xyz_bd`, …).  The decoding curves raise to `2.4`, `563/256`, `1/0.45`: crude bound `1e45`.
-/
set_option linter.unusedSimpArgs false
set_option linter.unusedVariables false
namespace Lemmas.FpOverflow
open Gen Lemmas.FpDefined
variable {M : FPModel}

theorem srgb_expand_bd5 (x : RF M) (hx : |x.val| ≤ 10 ^ 5) : |(F64.compute_srgb_gamma_expanded x).val| ≤ 10 ^ 45 := by
  unfold F64.compute_srgb_gamma_expanded
  split_ifs with h
  · nbound
  · simp only [FltRF.le_eq, decide_eq_true_eq, not_le] at h
    have hx0 : 0 < x.val := lt_of_le_of_lt (lit_nonneg _ _ _) h
    nbound

theorem argb_gamma_bd5 (x : RF M) (hx : |x.val| ≤ 10 ^ 5) : |(F64.compute_argb_gamma x).val| ≤ 10 ^ 45 := by
  unfold F64.compute_argb_gamma
  split_ifs with h
  · nbound
  · simp only [FltRF.le_eq, decide_eq_true_eq, not_le] at h
    have hx0 : 0 < x.val := lt_of_le_of_lt (lit_nonneg _ _ _) h
    nbound

theorem rec709_expand (x : RF M) (hx : |x.val| ≤ 10 ^ 6) :
    F64.compute_rec709_gamma_expanded (RF.liftO x) = RF.liftO (F64.compute_rec709_gamma_expanded x) := by
  unfold F64.compute_rec709_gamma_expanded
  simp (disch := o_side) only [ho_lit, ho_lt]
  refine iteo_bridge (fun h => ?_) (fun h => ?_)
  · simp (disch := o_side) only [ho_div]
  · simp only [FltRF.lt_eq, decide_eq_false_iff_not, not_lt] at h
    have hx0 : 0 ≤ x.val := le_trans (lit_nonneg _ _ _) h
    simp (disch := o_side) only [ho_add, ho_div, ho_pow_nonneg]

theorem rec709_expand_bd5 (x : RF M) (hx : |x.val| ≤ 10 ^ 5) : |(F64.compute_rec709_gamma_expanded x).val| ≤ 10 ^ 45 := by
  unfold F64.compute_rec709_gamma_expanded
  split_ifs with h
  · nbound
  · simp only [FltRF.lt_eq, decide_eq_true_eq, not_lt] at h
    have hx0 : 0 ≤ x.val := le_trans (lit_nonneg _ _ _) h
    nbound

theorem alpha_m1 : 0 ≤ (Flt.lit 0x3FF196BB98C7E282 10993 10000 - Flt.lit 0x3FF0000000000000 1 1 : RF M).val := by
  simp only [FltRF.sub_val]
  rw [lit_int_val _ 1 (by norm_num)]
  apply FpErr.rnd_nonneg
  have := FpErr.nat_le_rnd M 1 (by norm_num) (x := ((10993 : ℕ) : ℝ) / ((10000 : ℕ) : ℝ)) (by push_cast; norm_num)
  simp only [FltRF.lit_val]; push_cast at this ⊢; linarith

theorem rec2020_expand (x : RF M) (hx : |x.val| ≤ 10 ^ 6) :
    F64.compute_rec2020_gamma_expanded (RF.liftO x) = RF.liftO (F64.compute_rec2020_gamma_expanded x) := by
  unfold F64.compute_rec2020_gamma_expanded
  simp (disch := o_side) only [ho_lit, ho_lt]
  refine iteo_bridge (fun h => ?_) (fun h => ?_)
  · simp (disch := o_side) only [ho_div]
  · simp only [FltRF.lt_eq, decide_eq_false_iff_not, not_lt] at h
    have hx0 : 0 ≤ x.val := le_trans (lit_nonneg _ _ _) h
    have hd' := alpha_m1 (M := M)
    simp (disch := o_side) only [ho_add, ho_sub, ho_div, ho_pow_nonneg]

theorem rec2020_expand_bd5 (x : RF M) (hx : |x.val| ≤ 10 ^ 5) : |(F64.compute_rec2020_gamma_expanded x).val| ≤ 10 ^ 45 := by
  unfold F64.compute_rec2020_gamma_expanded
  split_ifs with h
  · nbound
  · simp only [FltRF.lt_eq, decide_eq_true_eq, not_lt] at h
    have hx0 : 0 ≤ x.val := le_trans (lit_nonneg _ _ _) h
    have hd' := alpha_m1 (M := M)
    nbound

theorem liftArgb_r (p : Argb (RF M)) : (liftArgb p).r = RF.liftO p.r := rfl
theorem liftArgb_g (p : Argb (RF M)) : (liftArgb p).g = RF.liftO p.g := rfl
theorem liftArgb_b (p : Argb (RF M)) : (liftArgb p).b = RF.liftO p.b := rfl
theorem liftRec709_r (p : Rec709 (RF M)) : (liftRec709 p).r = RF.liftO p.r := rfl
theorem liftRec709_g (p : Rec709 (RF M)) : (liftRec709 p).g = RF.liftO p.g := rfl
theorem liftRec709_b (p : Rec709 (RF M)) : (liftRec709 p).b = RF.liftO p.b := rfl
theorem liftRec2020_r (p : Rec2020 (RF M)) : (liftRec2020 p).r = RF.liftO p.r := rfl
theorem liftRec2020_g (p : Rec2020 (RF M)) : (liftRec2020 p).g = RF.liftO p.g := rfl
theorem liftRec2020_b (p : Rec2020 (RF M)) : (liftRec2020 p).b = RF.liftO p.b := rfl

theorem xyz_from_srgb (p : Srgb (RF M)) (hr : |p.r.val| ≤ 10 ^ 5) (hg : |p.g.val| ≤ 10 ^ 5) (hb : |p.b.val| ≤ 10 ^ 5) :
    Xyz.from_Srgb (liftSrgb p) = liftXyz (Xyz.from_Srgb p) := by
  have b1 := srgb_expand_bd5 _ hr
  have b2 := srgb_expand_bd5 _ hg
  have b3 := srgb_expand_bd5 _ hb
  simp (disch := o_side) only [Xyz.from_Srgb, liftSrgb_r, liftSrgb_g, liftSrgb_b, srgb_expand, liftXyz, C.X65, C.Y65,
    C.Z65, ho_lit, ho_mul, ho_add]

theorem xyz_from_argb (p : Argb (RF M)) (hr : |p.r.val| ≤ 10 ^ 5) (hg : |p.g.val| ≤ 10 ^ 5) (hb : |p.b.val| ≤ 10 ^ 5) :
    Xyz.from_Argb (liftArgb p) = liftXyz (Xyz.from_Argb p) := by
  have b1 := argb_gamma_bd5 _ hr
  have b2 := argb_gamma_bd5 _ hg
  have b3 := argb_gamma_bd5 _ hb
  simp (disch := o_side) only [Xyz.from_Argb, liftArgb_r, liftArgb_g, liftArgb_b, argb_gamma, liftXyz, C.RR, C.GG, C.BB,
    ho_lit, ho_mul, ho_add]

theorem xyz_from_rec709 (p : Rec709 (RF M)) (hr : |p.r.val| ≤ 10 ^ 5) (hg : |p.g.val| ≤ 10 ^ 5) (hb : |p.b.val| ≤ 10 ^ 5) :
    Xyz.from_Rec709 (liftRec709 p) = liftXyz (Xyz.from_Rec709 p) := by
  have b1 := rec709_expand_bd5 _ hr
  have b2 := rec709_expand_bd5 _ hg
  have b3 := rec709_expand_bd5 _ hb
  simp (disch := o_side) only [Xyz.from_Rec709, liftRec709_r, liftRec709_g, liftRec709_b, rec709_expand, liftXyz, C.X65,
    C.Y65, C.Z65, ho_lit, ho_mul, ho_add]

theorem xyz_from_rec2020 (p : Rec2020 (RF M)) (hr : |p.r.val| ≤ 10 ^ 5) (hg : |p.g.val| ≤ 10 ^ 5) (hb : |p.b.val| ≤ 10 ^ 5) :
    Xyz.from_Rec2020 (liftRec2020 p) = liftXyz (Xyz.from_Rec2020 p) := by
  have b1 := rec2020_expand_bd5 _ hr
  have b2 := rec2020_expand_bd5 _ hg
  have b3 := rec2020_expand_bd5 _ hb
  simp (disch := o_side) only [Xyz.from_Rec2020, liftRec2020_r, liftRec2020_g, liftRec2020_b, rec2020_expand, liftXyz,
    C.XX, C.XY, C.XZ, ho_lit, ho_mul, ho_add]

/-! crude magnitudes of the forward encodings -/
theorem dot_bd (p : Xyz (RF M)) (hx : |p.x.val| ≤ 4) (hy : |p.y.val| ≤ 4) (hz : |p.z.val| ≤ 4)
    (a b c : RF M) (ha : |a.val| ≤ 5) (hb : |b.val| ≤ 5) (hc : |c.val| ≤ 5) :
    |(p.x * a + p.y * b + p.z * c : RF M).val| ≤ 100 := by nbound

theorem argb_expand_bd (x : RF M) (hx : |x.val| ≤ 100) : |(F64.compute_argb_gamma_expanded x).val| ≤ 10 ^ 5 := by
  unfold F64.compute_argb_gamma_expanded
  split_ifs with h
  · nbound
  · simp only [FltRF.le_eq, decide_eq_true_eq, not_le] at h
    have hx0 : 0 < x.val := lt_of_le_of_lt (lit_nonneg _ _ _) h
    nbound

theorem rec709_correct_bd (x : RF M) (hx : |x.val| ≤ 100) : |(F64.compute_rec709_gamma_correction x).val| ≤ 10 ^ 5 := by
  unfold F64.compute_rec709_gamma_correction
  split_ifs with h
  · nbound
  · simp only [FltRF.lt_eq, decide_eq_true_eq, not_lt] at h
    have hx0 : 0 ≤ x.val := le_trans (lit_nonneg _ _ _) h
    nbound

theorem rec2020_correct_bd (x : RF M) (hx : |x.val| ≤ 100) : |(F64.compute_rec2020_gamma_correction x).val| ≤ 10 ^ 5 := by
  unfold F64.compute_rec2020_gamma_correction
  split_ifs with h
  · nbound
  · simp only [FltRF.lt_eq, decide_eq_true_eq, not_lt] at h
    have hx0 : 0 ≤ x.val := le_trans (lit_nonneg _ _ _) h
    nbound

theorem argb_xyz_bd (p : Xyz (RF M)) (hx : |p.x.val| ≤ 4) (hy : |p.y.val| ≤ 4) (hz : |p.z.val| ≤ 4) :
    |(Argb.from_Xyz p).r.val| ≤ 10 ^ 5 ∧ |(Argb.from_Xyz p).g.val| ≤ 10 ^ 5 ∧ |(Argb.from_Xyz p).b.val| ≤ 10 ^ 5 := by
  simp only [Argb.from_Xyz, C.argb_XR, C.YG, C.ZB]
  refine ⟨argb_expand_bd _ ?_, argb_expand_bd _ ?_, argb_expand_bd _ ?_⟩ <;> nbound

theorem rec709_xyz_bd (p : Xyz (RF M)) (hx : |p.x.val| ≤ 4) (hy : |p.y.val| ≤ 4) (hz : |p.z.val| ≤ 4) :
    |(Rec709.from_Xyz p).r.val| ≤ 10 ^ 5 ∧ |(Rec709.from_Xyz p).g.val| ≤ 10 ^ 5 ∧ |(Rec709.from_Xyz p).b.val| ≤ 10 ^ 5 := by
  simp only [Rec709.from_Xyz, C.RX65, C.RY65, C.RZ65]
  refine ⟨rec709_correct_bd _ ?_, rec709_correct_bd _ ?_, rec709_correct_bd _ ?_⟩ <;> nbound

theorem rec2020_xyz_bd (p : Xyz (RF M)) (hx : |p.x.val| ≤ 4) (hy : |p.y.val| ≤ 4) (hz : |p.z.val| ≤ 4) :
    |(Rec2020.from_Xyz p).r.val| ≤ 10 ^ 5 ∧ |(Rec2020.from_Xyz p).g.val| ≤ 10 ^ 5 ∧ |(Rec2020.from_Xyz p).b.val| ≤ 10 ^ 5 := by
  simp only [Rec2020.from_Xyz, C.rec2020_XR, C.XG, C.XB]
  refine ⟨rec2020_correct_bd _ ?_, rec2020_correct_bd _ ?_, rec2020_correct_bd _ ?_⟩ <;> nbound

end Lemmas.FpOverflow
