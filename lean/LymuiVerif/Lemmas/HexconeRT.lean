import LymuiVerif.Props.C09
/-!
# Round-trip machinery for the hexcone models

The three channels of every hexcone model are `base + span * T(H)` with the trapezoid waves
`Tr, Tg, Tb` (`H = hue/60`), which are 1-Lipschitz and agree at `H = 0` and `H = 6`.
-/
set_option linter.unusedVariables false
set_option linter.unusedSimpArgs false
namespace HexconeRT
open Gen Props.C09

noncomputable def Tr (H : ℝ) : ℝ := max 0 (min 1 (|H - 3| - 1))
noncomputable def Tg (H : ℝ) : ℝ := max 0 (min 1 (2 - |H - 2|))
noncomputable def Tb (H : ℝ) : ℝ := max 0 (min 1 (2 - |H - 4|))

theorem clamp_lip (x y : ℝ) : |max 0 (min 1 x) - max 0 (min 1 y)| ≤ |x - y| := by
  rcases abs_cases (x - y) with ⟨e, _⟩ | ⟨e, _⟩ <;> rw [e, abs_le] <;>
    simp only [max_def, min_def] <;> split_ifs <;> constructor <;> linarith

theorem clamp_range (x : ℝ) : 0 ≤ max 0 (min 1 x) ∧ max 0 (min 1 x) ≤ 1 :=
  ⟨le_max_left _ _, max_le (by norm_num) (min_le_left _ _)⟩

theorem Tr_lip (x y : ℝ) : |Tr x - Tr y| ≤ |x - y| := by
  refine le_trans (clamp_lip _ _) ?_
  have := abs_abs_sub_abs_le_abs_sub (x - 3) (y - 3)
  have e : x - 3 - (y - 3) = x - y := by ring
  rw [e] at this
  have e2 : |x - 3| - 1 - (|y - 3| - 1) = |x - 3| - |y - 3| := by ring
  rw [e2]; exact this

theorem Tg_lip (x y : ℝ) : |Tg x - Tg y| ≤ |x - y| := by
  refine le_trans (clamp_lip _ _) ?_
  have := abs_abs_sub_abs_le_abs_sub (y - 2) (x - 2)
  have e : y - 2 - (x - 2) = -(x - y) := by ring
  rw [e, abs_neg] at this
  have e2 : 2 - |x - 2| - (2 - |y - 2|) = |y - 2| - |x - 2| := by ring
  rw [e2]; exact this

theorem Tb_lip (x y : ℝ) : |Tb x - Tb y| ≤ |x - y| := by
  refine le_trans (clamp_lip _ _) ?_
  have := abs_abs_sub_abs_le_abs_sub (y - 4) (x - 4)
  have e : y - 4 - (x - 4) = -(x - y) := by ring
  rw [e, abs_neg] at this
  have e2 : 2 - |x - 4| - (2 - |y - 4|) = |y - 4| - |x - 4| := by ring
  rw [e2]; exact this

theorem T_wrap : Tr 0 = Tr 6 ∧ Tg 0 = Tg 6 ∧ Tb 0 = Tb 6 := by
  refine ⟨?_, ?_, ?_⟩ <;> norm_num [Tr, Tg, Tb, abs_of_nonneg, abs_of_nonpos]

/-! sector-wise values of the waves -/

macro "t_eval" t:ident e:term : tactic =>
  `(tactic| (unfold $t; rcases abs_cases ($e) with ⟨e, _⟩ | ⟨e, _⟩ <;> rw [e] <;>
      simp only [max_def, min_def] <;> split_ifs <;> linarith))

theorem Tr_01 {H : ℝ} (h0 : 0 ≤ H) (h1 : H ≤ 1) : Tr H = 1 := by t_eval Tr (H - 3)
theorem Tr_12 {H : ℝ} (h0 : 1 ≤ H) (h1 : H ≤ 2) : Tr H = 2 - H := by t_eval Tr (H - 3)
theorem Tr_24 {H : ℝ} (h0 : 2 ≤ H) (h1 : H ≤ 4) : Tr H = 0 := by t_eval Tr (H - 3)
theorem Tr_45 {H : ℝ} (h0 : 4 ≤ H) (h1 : H ≤ 5) : Tr H = H - 4 := by t_eval Tr (H - 3)
theorem Tr_56 {H : ℝ} (h0 : 5 ≤ H) (h1 : H ≤ 6) : Tr H = 1 := by t_eval Tr (H - 3)
theorem Tg_01 {H : ℝ} (h0 : 0 ≤ H) (h1 : H ≤ 1) : Tg H = H := by t_eval Tg (H - 2)
theorem Tg_13 {H : ℝ} (h0 : 1 ≤ H) (h1 : H ≤ 3) : Tg H = 1 := by t_eval Tg (H - 2)
theorem Tg_34 {H : ℝ} (h0 : 3 ≤ H) (h1 : H ≤ 4) : Tg H = 4 - H := by t_eval Tg (H - 2)
theorem Tg_46 {H : ℝ} (h0 : 4 ≤ H) (h1 : H ≤ 6) : Tg H = 0 := by t_eval Tg (H - 2)
theorem Tb_02 {H : ℝ} (h0 : 0 ≤ H) (h1 : H ≤ 2) : Tb H = 0 := by t_eval Tb (H - 4)
theorem Tb_23 {H : ℝ} (h0 : 2 ≤ H) (h1 : H ≤ 3) : Tb H = H - 2 := by t_eval Tb (H - 4)
theorem Tb_35 {H : ℝ} (h0 : 3 ≤ H) (h1 : H ≤ 5) : Tb H = 1 := by t_eval Tb (H - 4)
theorem Tb_56 {H : ℝ} (h0 : 5 ≤ H) (h1 : H ≤ 6) : Tb H = 6 - H := by t_eval Tb (H - 4)

/-! the two sector formulae in wave form -/

theorem hslSector_T (h s l : ℝ) (h0 : 0 ≤ h) (h1 : h < 360) :
    hslSector h s l =
      (l / 100 - (1 - |2 * (l / 100) - 1|) * (s / 100) / 2 + (1 - |2 * (l / 100) - 1|) * (s / 100) * Tr (h / 60),
       l / 100 - (1 - |2 * (l / 100) - 1|) * (s / 100) / 2 + (1 - |2 * (l / 100) - 1|) * (s / 100) * Tg (h / 60),
       l / 100 - (1 - |2 * (l / 100) - 1|) * (s / 100) / 2 + (1 - |2 * (l / 100) - 1|) * (s / 100) * Tb (h / 60)) := by
  unfold hslSector
  simp only []
  have hH0 : 0 ≤ h / 60 := by positivity
  have hH6 : h / 60 < 6 := by linarith
  generalize h / 60 = H at *
  generalize (1 - |2 * (l / 100) - 1|) * (s / 100) = C
  generalize l / 100 = L
  have hk0 : 0 ≤ ⌊H⌋ := Int.floor_nonneg.mpr hH0
  have hk6 : ⌊H⌋ < 6 := Int.floor_lt.mpr (by exact_mod_cast hH6)
  have hfl := Int.floor_le H
  have hlt := Int.lt_floor_add_one H
  generalize ⌊H⌋ = k at *
  interval_cases k <;> norm_num at hfl hlt
  · have hj : ⌊H / 2⌋ = 0 := by rw [Int.floor_eq_iff]; constructor <;> norm_num <;> linarith
    rw [if_pos hlt, hj, Tr_01 hfl hlt.le, Tg_01 hfl hlt.le, Tb_02 hfl (by linarith),
      abs_of_nonpos (by norm_num; linarith)]
    ext <;> simp <;> ring
  · have hj : ⌊H / 2⌋ = 0 := by rw [Int.floor_eq_iff]; constructor <;> norm_num <;> linarith
    rw [if_neg (by linarith), if_pos hlt, hj, Tr_12 hfl hlt.le, Tg_13 hfl (by linarith), Tb_02 (by linarith) hlt.le,
      abs_of_nonneg (by norm_num; linarith)]
    ext <;> simp <;> ring
  · have hj : ⌊H / 2⌋ = 1 := by rw [Int.floor_eq_iff]; constructor <;> norm_num <;> linarith
    rw [if_neg (by linarith), if_neg (by linarith), if_pos hlt, hj, Tr_24 hfl (by linarith), Tg_13 (by linarith) hlt.le,
      Tb_23 hfl hlt.le, abs_of_nonpos (by norm_num; linarith)]
    ext <;> simp <;> ring
  · have hj : ⌊H / 2⌋ = 1 := by rw [Int.floor_eq_iff]; constructor <;> norm_num <;> linarith
    rw [if_neg (by linarith), if_neg (by linarith), if_neg (by linarith), if_pos hlt, hj, Tr_24 (by linarith) hlt.le,
      Tg_34 hfl hlt.le, Tb_35 hfl (by linarith), abs_of_nonneg (by norm_num; linarith)]
    ext <;> simp <;> ring
  · have hj : ⌊H / 2⌋ = 2 := by rw [Int.floor_eq_iff]; constructor <;> norm_num <;> linarith
    rw [if_neg (by linarith), if_neg (by linarith), if_neg (by linarith), if_neg (by linarith), if_pos hlt, hj,
      Tr_45 hfl hlt.le, Tg_46 hfl (by linarith), Tb_35 (by linarith) hlt.le, abs_of_nonpos (by norm_num; linarith)]
    ext <;> simp <;> ring
  · have hj : ⌊H / 2⌋ = 2 := by rw [Int.floor_eq_iff]; constructor <;> norm_num <;> linarith
    rw [if_neg (by linarith), if_neg (by linarith), if_neg (by linarith), if_neg (by linarith), if_neg (by linarith), hj,
      Tr_56 hfl hlt.le, Tg_46 (by linarith) hlt.le, Tb_56 hfl hlt.le, abs_of_nonneg (by norm_num; linarith)]
    ext <;> simp <;> ring
theorem hsvSector_T (h s v : ℝ) (h0 : 0 ≤ h) (h1 : h < 360) :
    hsvSector h s v =
      (v / 100 * (1 - s / 100) + v / 100 * (s / 100) * Tr (h / 60),
       v / 100 * (1 - s / 100) + v / 100 * (s / 100) * Tg (h / 60),
       v / 100 * (1 - s / 100) + v / 100 * (s / 100) * Tb (h / 60)) := by
  unfold hsvSector
  simp only []
  have hH0 : 0 ≤ h / 60 := by positivity
  have hH6 : h / 60 < 6 := by linarith
  generalize h / 60 = H at *
  generalize v / 100 = V
  generalize s / 100 = S
  have hk0 : 0 ≤ ⌊H⌋ := Int.floor_nonneg.mpr hH0
  have hk6 : ⌊H⌋ < 6 := Int.floor_lt.mpr (by exact_mod_cast hH6)
  have hfl := Int.floor_le H
  have hlt := Int.lt_floor_add_one H
  generalize ⌊H⌋ = k at *
  interval_cases k <;> norm_num at hfl hlt
  · rw [Tr_01 hfl hlt.le, Tg_01 hfl hlt.le, Tb_02 hfl (by linarith)]
    simp only [Int.reduceEq, ↓reduceIte, Int.cast_ofNat, Int.cast_zero, Int.cast_one]
    ext <;> simp only [] <;> ring
  · rw [Tr_12 hfl hlt.le, Tg_13 hfl (by linarith), Tb_02 (by linarith) hlt.le]
    simp only [Int.reduceEq, ↓reduceIte, Int.cast_ofNat, Int.cast_zero, Int.cast_one]
    ext <;> simp only [] <;> ring
  · rw [Tr_24 hfl (by linarith), Tg_13 (by linarith) hlt.le, Tb_23 hfl hlt.le]
    simp only [Int.reduceEq, ↓reduceIte, Int.cast_ofNat, Int.cast_zero, Int.cast_one]
    ext <;> simp only [] <;> ring
  · rw [Tr_24 (by linarith) hlt.le, Tg_34 hfl hlt.le, Tb_35 hfl (by linarith)]
    simp only [Int.reduceEq, ↓reduceIte, Int.cast_ofNat, Int.cast_zero, Int.cast_one]
    ext <;> simp only [] <;> ring
  · rw [Tr_45 hfl hlt.le, Tg_46 hfl (by linarith), Tb_35 (by linarith) hlt.le]
    simp only [Int.reduceEq, ↓reduceIte, Int.cast_ofNat, Int.cast_zero, Int.cast_one]
    ext <;> simp only [] <;> ring
  · rw [Tr_56 hfl hlt.le, Tg_46 (by linarith) hlt.le, Tb_56 hfl hlt.le]
    simp only [Int.reduceEq, ↓reduceIte, Int.cast_ofNat, Int.cast_zero, Int.cast_one]
    ext <;> simp only [] <;> ring
/-- forward direction in wave form: every channel is `cmin + (cmax - cmin) * T(angle/60)` -/
theorem channel_T (c : Rgb) :
    (c.r : ℝ) = cmin c + (cmax c - cmin c) * Tr (hexAngle c / 60) ∧
    (c.g : ℝ) = cmin c + (cmax c - cmin c) * Tg (hexAngle c / 60) ∧
    (c.b : ℝ) = cmin c + (cmax c - cmin c) * Tb (hexAngle c / 60) := by
  obtain ⟨⟨hm1, hm2, hm3⟩, ⟨hM1, hM2, hM3⟩⟩ := channel_bounds c
  have hmm : cmin c = c.r ∨ cmin c = c.g ∨ cmin c = c.b := by
    unfold cmin
    rcases min_choice (min (c.r : ℝ) c.g) c.b with h | h
    · rcases min_choice (c.r : ℝ) c.g with h' | h'
      · left; rw [h, h']
      · right; left; rw [h, h']
    · right; right; exact h
  have hMM : cmax c = c.r ∨ cmax c = c.g ∨ cmax c = c.b := by
    unfold cmax
    rcases max_choice (max (c.r : ℝ) c.g) c.b with h | h
    · rcases max_choice (c.r : ℝ) c.g with h' | h'
      · left; rw [h, h']
      · right; left; rw [h, h']
    · right; right; exact h
  unfold hexAngle
  simp only []
  generalize cmax c = M at *; generalize cmin c = m at *
  generalize (c.r : ℝ) = r at *; generalize (c.g : ℝ) = g at *; generalize (c.b : ℝ) = b at *
  by_cases h0 : M = m
  · rw [if_pos h0]
    subst h0
    refine ⟨?_, ?_, ?_⟩ <;> simp <;> linarith
  have hd : 0 < M - m := by
    rcases lt_or_eq_of_le (le_trans hm1 hM1) with h | h
    · linarith
    · exact absurd h.symm h0
  have hd' : M - m ≠ 0 := ne_of_gt hd
  rw [if_neg h0]
  by_cases h1 : M = r
  · rw [if_pos h1]
    by_cases hgb : g < b
    · have hneg : 60 * ((g - b) / (M - m)) < 0 := by
        have := div_neg_of_neg_of_pos (show g - b < 0 by linarith) hd
        linarith
      rw [if_pos hneg]
      have hm : m = g := by
        rcases hmm with h | h | h
        · exact absurd (h1.trans h.symm) h0
        · exact h
        · exfalso; linarith
      have hH : (60 * ((g - b) / (M - m)) + 360) / 60 = (g - b) / (M - m) + 6 := by ring
      have q1 : -1 ≤ (g - b) / (M - m) := by rw [le_div_iff₀ hd]; linarith
      have q2 : (g - b) / (M - m) ≤ 0 := by linarith
      rw [hH, Tr_56 (by linarith) (by linarith), Tg_46 (by linarith) (by linarith),
        Tb_56 (by linarith) (by linarith)]
      refine ⟨by linarith, by linarith, ?_⟩
      field_simp
      linarith
    · have hneg : ¬ 60 * ((g - b) / (M - m)) < 0 := by
        have := div_nonneg (show 0 ≤ g - b by linarith) hd.le
        linarith
      rw [if_neg hneg]
      have hm : m = b := by
        rcases hmm with h | h | h
        · exact absurd (h1.trans h.symm) h0
        · linarith
        · exact h
      have hH : (60 * ((g - b) / (M - m))) / 60 = (g - b) / (M - m) := by ring
      have q1 : 0 ≤ (g - b) / (M - m) := div_nonneg (by linarith) hd.le
      have q2 : (g - b) / (M - m) ≤ 1 := by rw [div_le_iff₀ hd]; linarith
      rw [hH, Tr_01 q1 q2, Tg_01 q1 q2, Tb_02 q1 (by linarith)]
      refine ⟨by linarith, ?_, by linarith⟩
      field_simp
      linarith
  · rw [if_neg h1]
    by_cases h2 : M = g
    · rw [if_pos h2]
      have hH : (60 * (2 + (b - r) / (M - m))) / 60 = 2 + (b - r) / (M - m) := by ring
      rw [hH]
      by_cases hbr : b < r
      · have hm : m = b := by
          rcases hmm with h | h | h
          · linarith
          · exact absurd (h2.trans h.symm) h0
          · exact h
        have q1 : -1 ≤ (b - r) / (M - m) := by rw [le_div_iff₀ hd]; linarith
        have q2 : (b - r) / (M - m) ≤ 0 := (div_neg_of_neg_of_pos (by linarith) hd).le
        rw [Tr_12 (by linarith) (by linarith), Tg_13 (by linarith) (by linarith),
          Tb_02 (by linarith) (by linarith)]
        refine ⟨?_, by linarith, by linarith⟩
        field_simp
        linarith
      · have hm : m = r := by
          rcases hmm with h | h | h
          · exact h
          · exact absurd (h2.trans h.symm) h0
          · linarith
        have q1 : 0 ≤ (b - r) / (M - m) := div_nonneg (by linarith) hd.le
        have q2 : (b - r) / (M - m) ≤ 1 := by rw [div_le_iff₀ hd]; linarith
        rw [Tr_24 (by linarith) (by linarith), Tg_13 (by linarith) (by linarith),
          Tb_23 (by linarith) (by linarith)]
        refine ⟨by linarith, by linarith, ?_⟩
        field_simp
        linarith
    · rw [if_neg h2]
      have h3 : M = b := by
        rcases hMM with h | h | h
        · exact absurd h h1
        · exact absurd h h2
        · exact h
      have hH : (60 * (4 + (r - g) / (M - m))) / 60 = 4 + (r - g) / (M - m) := by ring
      rw [hH]
      by_cases hrg : r < g
      · have hm : m = r := by
          rcases hmm with h | h | h
          · exact h
          · linarith
          · exact absurd (h3.trans h.symm) h0
        have q1 : -1 ≤ (r - g) / (M - m) := by rw [le_div_iff₀ hd]; linarith
        have q2 : (r - g) / (M - m) ≤ 0 := (div_neg_of_neg_of_pos (by linarith) hd).le
        rw [Tr_24 (by linarith) (by linarith), Tg_34 (by linarith) (by linarith),
          Tb_35 (by linarith) (by linarith)]
        refine ⟨by linarith, ?_, by linarith⟩
        field_simp
        linarith
      · have hm : m = g := by
          rcases hmm with h | h | h
          · linarith
          · exact h
          · exact absurd (h3.trans h.symm) h0
        have q1 : 0 ≤ (r - g) / (M - m) := div_nonneg (by linarith) hd.le
        have q2 : (r - g) / (M - m) ≤ 1 := by rw [div_le_iff₀ hd]; linarith
        rw [Tr_45 (by linarith) (by linarith), Tg_46 (by linarith) (by linarith),
          Tb_35 (by linarith) (by linarith)]
        refine ⟨?_, by linarith, by linarith⟩
        field_simp
        linarith

/-- the rounded (and wrapped) hue moves a 1-Lipschitz, 6-periodic wave by at most 1/120 -/
theorem T_hue_close (c : Rgb) (T : ℝ → ℝ) (hlip : ∀ x y, |T x - T y| ≤ |x - y|) (hw : T 0 = T 6) :
    |T (F64.from_Rgb (α := ℝ) c / 60) - T (hexAngle c / 60)| ≤ 1 / 120 := by
  obtain ⟨h0, h1⟩ := hexAngle_range c
  obtain ⟨k, hk, hk360, h⟩ := hue_spec c
  obtain ⟨k', hk', hk1, hk2⟩ := QuantA2.roundHA_nat h0
  have : k' = k := by exact_mod_cast hk'.symm.trans hk
  subst this
  have e : T (F64.from_Rgb (α := ℝ) c / 60) = T ((k' : ℝ) / 60) := by
    rcases Nat.lt_or_eq_of_le hk360 with hlt | heq
    · rw [h, Nat.mod_eq_of_lt hlt]
    · subst heq
      rw [h]
      norm_num
      exact hw
  rw [e]
  refine le_trans (hlip _ _) ?_
  rw [abs_le]; constructor <;> linarith

/-- pre-quantiser value of a round-tripped channel: in `[0,255]` and within `255/120` of the
original channel `n` -/
theorem rt_channel (c : Rgb) (hr : c.r ≤ 255) (hg : c.g ≤ 255) (hb : c.b ≤ 255) (T : ℝ → ℝ)
    (hlip : ∀ x y, |T x - T y| ≤ |x - y|) (hw : T 0 = T 6) (hrange : ∀ x, 0 ≤ T x ∧ T x ≤ 1)
    (n : ℕ) (hn : (n : ℝ) = cmin c + (cmax c - cmin c) * T (hexAngle c / 60)) :
    0 ≤ cmin c + (cmax c - cmin c) * T (F64.from_Rgb (α := ℝ) c / 60) ∧
    cmin c + (cmax c - cmin c) * T (F64.from_Rgb (α := ℝ) c / 60) ≤ 255 ∧
    |cmin c + (cmax c - cmin c) * T (F64.from_Rgb (α := ℝ) c / 60) - n| ≤ 255 / 120 := by
  obtain ⟨b0, b1, b2⟩ := cmin_cmax_bounds c hr hg hb
  have hc := T_hue_close c T hlip hw
  obtain ⟨t0, t1⟩ := hrange (F64.from_Rgb (α := ℝ) c / 60)
  rw [hn]
  generalize T (F64.from_Rgb (α := ℝ) c / 60) = x at *
  generalize T (hexAngle c / 60) = y at *
  rw [abs_le] at hc
  refine ⟨by nlinarith, by nlinarith, ?_⟩
  rw [abs_le]; constructor <;> nlinarith

theorem Tr_range (x : ℝ) : 0 ≤ Tr x ∧ Tr x ≤ 1 := clamp_range _
theorem Tg_range (x : ℝ) : 0 ≤ Tg x ∧ Tg x ≤ 1 := clamp_range _
theorem Tb_range (x : ℝ) : 0 ≤ Tb x ∧ Tb x ≤ 1 := clamp_range _

/-- rounding quantiser near an 8-bit value -/
theorem round_near {y : ℝ} {n : ℕ} (hy0 : 0 ≤ y) (hy1 : y ≤ 255) (h : |y - n| ≤ 255 / 120) :
    Real.toU8 (Real.roundHA y) ≤ n + 2 ∧ n ≤ Real.toU8 (Real.roundHA y) + 2 := by
  obtain ⟨k, hk, h1, h2⟩ := QuantA2.roundHA_nat hy0
  rw [abs_le] at h
  have hk255 : k ≤ 255 := by
    have : (k : ℝ) < 256 := by linarith
    have : k < 256 := by exact_mod_cast this
    omega
  rw [hk, QuantA2.toU8_natCast hk255]
  have a1 : (k : ℝ) < n + 3 := by linarith [h.2]
  have a2 : (n : ℝ) < k + 3 := by linarith [h.1]
  have a1' : k < n + 3 := by exact_mod_cast a1
  have a2' : n < k + 3 := by exact_mod_cast a2
  omega

/-- truncating quantiser near an 8-bit value -/
theorem trunc_near {y : ℝ} {n : ℕ} (hy0 : 0 ≤ y) (hy1 : y ≤ 255) (h : |y - n| ≤ 255 / 120) :
    Real.toU8 y ≤ n + 2 ∧ n ≤ Real.toU8 y + 3 := by
  rw [abs_le] at h
  rw [QuantA2.toU8_eq_min]
  have f1 : (⌊y⌋₊ : ℝ) ≤ y := Nat.floor_le hy0
  have f2 : y < ⌊y⌋₊ + 1 := Nat.lt_floor_add_one y
  have a1 : (⌊y⌋₊ : ℝ) < n + 3 := by linarith [h.2]
  have a2 : (n : ℝ) < ⌊y⌋₊ + 4 := by linarith [h.1]
  have a3 : (⌊y⌋₊ : ℝ) < 256 := by linarith
  have a1' : ⌊y⌋₊ < n + 3 := by exact_mod_cast a1
  have a2' : n < ⌊y⌋₊ + 4 := by exact_mod_cast a2
  have a3' : ⌊y⌋₊ < 256 := by exact_mod_cast a3
  omega

/-- HSL: chroma and base recovered from the forward outputs are `(max-min)/255` and `min/255` -/
theorem hsl_chroma_base (c : Rgb) (hr : c.r ≤ 255) (hg : c.g ≤ 255) (hb : c.b ≤ 255) :
    (1 - |2 * (stdL c * 100 / 100) - 1|) * (stdSHsl c * 100 / 100) = (cmax c - cmin c) / 255 ∧
    stdL c * 100 / 100 - (cmax c - cmin c) / 255 / 2 = cmin c / 255 := by
  obtain ⟨b0, b1, b2⟩ := cmin_cmax_bounds c hr hg hb
  have eL : stdL c * 100 / 100 = stdL c := by ring
  have eS : stdSHsl c * 100 / 100 = stdSHsl c := by ring
  rw [eL, eS]
  refine ⟨?_, by unfold stdL; ring⟩
  unfold stdSHsl
  by_cases h : cmax c = cmin c
  · simp [h]
  · rw [if_neg h]
    have hd : 0 < cmax c - cmin c := by
      rcases lt_or_eq_of_le b1 with h' | h'
      · linarith
      · exact absurd h'.symm h
    have hden : (cmax c - cmin c) / 255 ≤ 1 - |2 * stdL c - 1| := by
      rcases abs_cases (2 * stdL c - 1) with ⟨ha, _⟩ | ⟨ha, _⟩ <;> rw [ha] <;> unfold stdL <;> linarith
    have hpos : 0 < 1 - |2 * stdL c - 1| := lt_of_lt_of_le (by positivity) hden
    field_simp

/-- HSV: `V S = (max-min)/255` and `V (1 - S) = min/255` -/
theorem hsv_chroma_base (c : Rgb) (hr : c.r ≤ 255) (hg : c.g ≤ 255) (hb : c.b ≤ 255) :
    stdV c * 100 / 100 * (stdSHsv c * 100 / 100) = (cmax c - cmin c) / 255 ∧
    stdV c * 100 / 100 * (1 - stdSHsv c * 100 / 100) = cmin c / 255 := by
  obtain ⟨b0, b1, b2⟩ := cmin_cmax_bounds c hr hg hb
  have eV : stdV c * 100 / 100 = stdV c := by ring
  have eS : stdSHsv c * 100 / 100 = stdSHsv c := by ring
  rw [eV, eS]
  unfold stdV stdSHsv
  by_cases h : cmax c = 0
  · have : cmin c = 0 := le_antisymm (h ▸ b1) b0
    simp [h, this]
  · rw [if_neg h]
    constructor
    · field_simp
    · field_simp
      ring

end HexconeRT
