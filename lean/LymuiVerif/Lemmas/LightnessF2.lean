import LymuiVerif.Lemmas.XyzDispatch
import LymuiVerif.Lemmas.Cie
import LymuiVerif.Lemmas.CurvesD2
/-!
# Lemmas for the lightness clauses of C12 / C13 (CIELAB, CIELUV, Hunter)

* the sRGB decode curve has slope at least `1/12.92` everywhere (`srgb_dec_step_lb`), so one 8-bit
  step of one channel raises the linear value by at least `1/(255·12.92)` and the luminance `Y` of
  the D65 profile by at least `2e-5` (`y_raise_*`);
* `Lab::compute_f` (shape `fCode`) is strictly increasing: at its branch point `0.008856` it jumps UP
  (line value `0.2068927…` < cube root `0.2068930…`);
* the CIELUV lightness of the library (shape `lCodeLuv`) jumps DOWN by `3.3e-5` at `0.008856`
  (`903.3·0.008856 = 7.9996248` against `116·0.008856^(1/3) − 16 = 7.99959…`), so it is NOT monotone
  on the reals; it is strictly increasing across every gap of at least `1e-6` (`lCodeLuv_lt_of_gap`),
  which is 20 times smaller than the smallest luminance step of the 8-bit cube.
-/
namespace Lemmas.LightnessF2
open Gen Lemmas.Cie Lemmas.Rpow Lemmas.Matrix Lemmas.XyzDispatch

/-! ## the sRGB decode curve: slope at least 1/12.92 -/

private theorem e14 : (2.4 : ℝ) - 1 = ((7 : ℕ) : ℝ) / ((5 : ℕ) : ℝ) := by norm_num

/-- slope constant of the power branch at its start: `A(0.04045)^1.4 ≥ 0.0346` -/
theorem srgb_pow_slope0 : (0.0346 : ℝ) ≤ (((0.04045 : ℝ) + 0.055) / 1.055) ^ ((2.4 : ℝ) - 1) := by
  rw [e14]
  exact le_rpow_of_pow_le (by norm_num) (by norm_num) 7 5 (by norm_num) (by norm_num)

/-- on the power branch the increment is at least `(b - a)/12.92` (in fact `0.0787 (b - a)`) -/
theorem srgb_pow_step_lb {a b : ℝ} (ha : 0.04045 ≤ a) (hab : a ≤ b) :
    ((a + 0.055) / 1.055) ^ (2.4 : ℝ) + (b - a) / 12.92 ≤ ((b + 0.055) / 1.055) ^ (2.4 : ℝ) := by
  have h0 : (0 : ℝ) < ((0.04045 : ℝ) + 0.055) / 1.055 := by norm_num
  have h1 : ((0.04045 : ℝ) + 0.055) / 1.055 ≤ (a + 0.055) / 1.055 :=
    div_le_div_of_nonneg_right (by linarith) (by norm_num)
  have h2 : (a + 0.055) / 1.055 ≤ (b + 0.055) / 1.055 :=
    div_le_div_of_nonneg_right (by linarith) (by norm_num)
  have s := rpow_step_lb (p := 2.4) h0 h1 h2 (by norm_num) srgb_pow_slope0
  have e : (b + 0.055) / 1.055 - (a + 0.055) / 1.055 = (b - a) / 1.055 := by ring
  rw [e] at s
  have : (b - a) / 12.92 ≤ 2.4 * ((b - a) / 1.055) * 0.0346 := by
    have hba : 0 ≤ b - a := by linarith
    have : 2.4 * ((b - a) / 1.055) * 0.0346 = (b - a) * (2.4 * 0.0346 / 1.055) := by ring
    rw [this, div_eq_mul_inv]
    exact mul_le_mul_of_nonneg_left (by norm_num) hba
  linarith

/-- **the sRGB decode curve has slope ≥ 1/12.92**: for `a ≤ b`, `dec b - dec a ≥ (b - a)/12.92`
(linear branch: equality; power branch: slope ≥ 0.0787; the jump at 0.04045 is upward). -/
theorem srgb_dec_step_lb {a b : ℝ} (hab : a ≤ b) :
    (b - a) / 12.92 ≤ F64.compute_srgb_gamma_expanded b - F64.compute_srgb_gamma_expanded a := by
  by_cases hb : b ≤ 0.04045
  · rw [Curves.srgb_dec_lin hb, Curves.srgb_dec_lin (by linarith)]
    have : b / 12.92 - a / 12.92 = (b - a) / 12.92 := by ring
    rw [this]
  · rw [not_le] at hb
    by_cases ha : a ≤ 0.04045
    · rw [Curves.srgb_dec_lin ha, Curves.srgb_dec_pow hb]
      have s := srgb_pow_step_lb (a := 0.04045) (b := b) le_rfl hb.le
      have g := Curves.srgb_threshold_gap
      have e1 : (b - a) / 12.92 = (b - 0.04045) / 12.92 + (0.04045 - a) / 12.92 := by ring
      have e2 : (0.04045 - a) / 12.92 = 0.04045 / 12.92 - a / 12.92 := by ring
      rw [e1, e2]
      linarith
    · rw [not_le] at ha
      rw [Curves.srgb_dec_pow ha, Curves.srgb_dec_pow hb]
      have := srgb_pow_step_lb ha.le hab
      linarith

/-- one or more 8-bit steps raise the decoded (linear) value by at least `3.03e-4` -/
theorem srgb_dec_level_gap {m n : ℕ} (h : m < n) :
    F64.compute_srgb_gamma_expanded ((m : ℝ) / 255) + 303 / 10 ^ 6
      ≤ F64.compute_srgb_gamma_expanded ((n : ℝ) / 255) := by
  have h1 : (m : ℝ) + 1 ≤ n := by exact_mod_cast h
  have hab : (m : ℝ) / 255 ≤ (n : ℝ) / 255 := div_le_div_of_nonneg_right (by linarith) (by norm_num)
  have s := srgb_dec_step_lb hab
  have : (303 : ℝ) / 10 ^ 6 ≤ ((n : ℝ) / 255 - (m : ℝ) / 255) / 12.92 := by
    have e : ((n : ℝ) / 255 - (m : ℝ) / 255) / 12.92 = ((n : ℝ) - m) * (1 / (255 * 12.92)) := by ring
    rw [e]
    have : (1 : ℝ) * (1 / (255 * 12.92)) ≤ ((n : ℝ) - m) * (1 / (255 * 12.92)) :=
      mul_le_mul_of_nonneg_right (by linarith) (by norm_num)
    refine le_trans ?_ this
    norm_num
  linarith

/-! ## luminance of the D65 profile -/

theorem y_d65 (c : Rgb) : (Xyz.from_rgb (α := ℝ) c XyzKind.D65).y =
    dot (C.Y65 : V3) (lin XyzKind.D65 c) := by
  rw [from_rgb_eq]; rfl

theorem y_d65_nonneg (c : Rgb) : 0 ≤ (Xyz.from_rgb (α := ℝ) c XyzKind.D65).y := by
  rw [y_d65]
  have r0 := dec_level_nonneg .D65 c.r
  have g0 := dec_level_nonneg .D65 c.g
  have b0 := dec_level_nonneg .D65 c.b
  simp only [dot, lin, C.Y65, FltReal.lit_eq]
  positivity

/-- raising the red channel raises `Y` by at least `2e-5` (in fact `0.2126729·3.03e-4 = 6.4e-5`) -/
theorem y_raise_r (c : Rgb) (r' : ℕ) (h : c.r < r') :
    (Xyz.from_rgb (α := ℝ) c XyzKind.D65).y + 2 / 10 ^ 5
      ≤ (Xyz.from_rgb (α := ℝ) { c with r := r' } XyzKind.D65).y := by
  rw [y_d65, y_d65]
  have s := srgb_dec_level_gap h
  simp only [dot, lin, dec, C.Y65, FltReal.lit_eq]
  norm_num
  linarith

theorem y_raise_g (c : Rgb) (g' : ℕ) (h : c.g < g') :
    (Xyz.from_rgb (α := ℝ) c XyzKind.D65).y + 2 / 10 ^ 5
      ≤ (Xyz.from_rgb (α := ℝ) { c with g := g' } XyzKind.D65).y := by
  rw [y_d65, y_d65]
  have s := srgb_dec_level_gap h
  simp only [dot, lin, dec, C.Y65, FltReal.lit_eq]
  norm_num
  linarith

/-- the blue weight `0.072175` is the smallest: `0.072175·3.03e-4 = 2.19e-5` -/
theorem y_raise_b (c : Rgb) (b' : ℕ) (h : c.b < b') :
    (Xyz.from_rgb (α := ℝ) c XyzKind.D65).y + 2 / 10 ^ 5
      ≤ (Xyz.from_rgb (α := ℝ) { c with b := b' } XyzKind.D65).y := by
  rw [y_d65, y_d65]
  have s := srgb_dec_level_gap h
  simp only [dot, lin, dec, C.Y65, FltReal.lit_eq]
  norm_num
  linarith

/-- the luminance of an 8-bit colour is at most that of white, `1.0000001` (row sum of the Y row) -/
theorem y_d65_le (c : Rgb) (hr : c.r ≤ 255) (hg : c.g ≤ 255) (hb : c.b ≤ 255) :
    (Xyz.from_rgb (α := ℝ) c XyzKind.D65).y ≤ 10000001 / 10000000 := by
  rw [y_d65]
  have r0 := dec_level_le_one .D65 hr
  have g0 := dec_level_le_one .D65 hg
  have b0 := dec_level_le_one .D65 hb
  simp only [dot, lin, C.Y65, FltReal.lit_eq]
  norm_num
  linarith

/-! ## the lightness functions in closed form -/

theorem lab_l_eq (x : Xyz ℝ) : (Lab.from_Xyz x).l = 116 * fCode x.y - 16 := by
  have hf : ∀ c : ℝ, Lab.compute_f c = fCode c := by intro c; simp [Lab.compute_f, fCode]
  simp only [Lab.from_Xyz, C.D65, FltReal.lit_eq, Nat.cast_ofNat, div_one, Nat.cast_one, hf]

theorem luv_l_eq (x : Xyz ℝ) : (Luv.from_Xyz x).l = lCodeLuv x.y := by
  simp only [Luv.from_Xyz, C.D65, C.EPSILON, C.KAPPA, FltReal.lit_eq, FltReal.lt_eq, FltReal.pow_eq,
    decide_eq_true_eq, Nat.cast_ofNat, div_one, Nat.cast_one, lCodeLuv]
  split_ifs <;> rfl

theorem hlab_l_eq (x : Xyz ℝ) :
    (Hlab.from_Xyz x).l = if x.y = 0 then 0 else 1000 * Real.sqrt (x.y / 100) := by
  simp only [Hlab.from_Xyz, C.YN, FltReal.beq_eq, FltReal.lit_eq, FltReal.sqrt_eq, decide_eq_true_eq,
    Nat.cast_ofNat, div_one, Nat.cast_zero, Nat.cast_one]
  split_ifs <;> simp

/-! ## monotonicity of the CIE shapes -/

/-- `Lab::compute_f` is strictly increasing on all of ℝ (upward jump at `0.008856`) -/
theorem fCode_strictMono : StrictMono fCode := by
  intro a b hab
  unfold fCode
  by_cases hb : 1107 / 125000 < b
  · rw [if_pos hb]
    have hb0 : 0 ≤ b := by linarith
    by_cases ha : 1107 / 125000 < a
    · rw [if_pos ha, cbrt_of_nonneg (by linarith), cbrt_of_nonneg hb0]
      exact Real.rpow_lt_rpow (by linarith) hab (by norm_num)
    · rw [if_neg ha]
      rw [not_lt] at ha
      have h3 : (Real.cbrt b) ^ 3 = b := by rw [cbrt_of_nonneg hb0]; exact rpow_third_pow hb0
      have := lower_of_cube (c := Real.cbrt b) (by rw [h3]; exact hb)
      linarith
  · rw [if_neg hb, if_neg (by linarith)]
    linarith

/-- the CIELUV lightness of the library is strictly increasing across every gap of at least `1e-6`
(its downward jump of `3.3e-5` at `0.008856` corresponds to a luminance gap of `3.7e-8`) -/
theorem lCodeLuv_lt_of_gap {a b : ℝ} (ha : 0 ≤ a) (hab : a + 1 / 10 ^ 6 ≤ b) :
    lCodeLuv a < lCodeLuv b := by
  unfold lCodeLuv
  by_cases hb : 1107 / 125000 < b
  · rw [if_pos hb]
    have hb0 : 0 ≤ b := by linarith
    by_cases ha' : 1107 / 125000 < a
    · rw [if_pos ha']
      have := Real.rpow_lt_rpow ha (by linarith : a < b) (by norm_num : (0 : ℝ) < 1 / 3)
      linarith
    · rw [if_neg ha']
      rw [not_lt] at ha'
      set s := b ^ ((1 : ℝ) / 3) with hs
      have hs3 : s ^ 3 = b := rpow_third_pow hb0
      have hs1 : 206893 / 1000000 ≤ s := le_rpow_third hb0 (by norm_num; linarith)
      by_cases hbig : (2069 / 10000 : ℝ) ≤ s
      · -- far enough above the threshold: 116·0.2069 − 16 = 8.0004 > 903.3·0.008856
        linarith
      · rw [not_le] at hbig
        -- inside the sliver: `903.3 s³ − 116 s + 16 ≤ 3.3e-5`, and `903.3·1e-6 = 9.0e-4`
        have hc := cubic_factor s
        have hd : (s - 6 / 29) ^ 2 ≤ (36 / 10 ^ 7) ^ 2 := by
          have h1 : -(36 / 10 ^ 7) ≤ s - 6 / 29 := by linarith
          have h2 : s - 6 / 29 ≤ 36 / 10 ^ 7 := by linarith
          nlinarith
        have hk : 24389 / 27 * (s - 6 / 29) ^ 2 * (s + 12 / 29) ≤ 1 / 10 ^ 8 := by
          calc 24389 / 27 * (s - 6 / 29) ^ 2 * (s + 12 / 29)
              ≤ 24389 / 27 * (36 / 10 ^ 7) ^ 2 * (2069 / 10000 + 12 / 29) := by
                have : 0 ≤ s + 12 / 29 := by linarith
                gcongr
            _ ≤ 1 / 10 ^ 8 := by norm_num
        have hs3' : s ^ 3 ≤ (2069 / 10000 : ℝ) ^ 3 := pow_le_pow_left₀ (by linarith) hbig.le 3
        have ha2 : a ≤ s ^ 3 - 1 / 10 ^ 6 := by rw [hs3]; linarith
        nlinarith
  · rw [if_neg hb, if_neg (by linarith)]
    linarith

/-- the Hunter lightness `if y = 0 then 0 else 1000 √(y/100)` is strictly increasing on `y ≥ 0` -/
theorem hunterL_strict {a b : ℝ} (ha : 0 ≤ a) (hab : a < b) :
    (if a = 0 then 0 else 1000 * Real.sqrt (a / 100)) <
      (if b = 0 then (0 : ℝ) else 1000 * Real.sqrt (b / 100)) := by
  have hb : 0 < b := lt_of_le_of_lt ha hab
  rw [if_neg hb.ne']
  have hsb : 0 < Real.sqrt (b / 100) := Real.sqrt_pos.mpr (by positivity)
  split_ifs with h0
  · positivity
  · have : Real.sqrt (a / 100) < Real.sqrt (b / 100) :=
      Real.sqrt_lt_sqrt (by positivity) (div_lt_div_of_pos_right hab (by norm_num))
    linarith

end Lemmas.LightnessF2
