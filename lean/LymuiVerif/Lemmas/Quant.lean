import LymuiVerif.Inst.Real
/-!
# Reusable facts about the quantisers of the exact-real instance

`Real.toU8` (Rust `as u8`: truncate toward zero, saturate at 0 and 255) and `Real.roundHA`
(`f64::round`, half away from zero), plus casts of `max`/`min` of naturals.
Nothing here mentions the generated model.
-/
namespace Quant

/-! ## `Real.toU8` -/

theorem toU8_of_nonpos {x : ℝ} (h : x ≤ 0) : Real.toU8 x = 0 := by
  simp [Real.toU8, h]

theorem toU8_of_ge {x : ℝ} (h : 255 ≤ x) : Real.toU8 x = 255 := by
  have : ¬ x ≤ 0 := by linarith
  simp [Real.toU8, h, this]

/-- strictly inside the range `as u8` is the floor -/
theorem toU8_of_mem {x : ℝ} (h0 : 0 < x) (h1 : x < 255) : Real.toU8 x = ⌊x⌋₊ := by
  simp [Real.toU8, not_le.mpr h0, not_le.mpr h1]

theorem toU8_le_255 (x : ℝ) : Real.toU8 x ≤ 255 := by
  unfold Real.toU8
  split_ifs with h0 h1
  · omega
  · omega
  · have : ⌊x⌋₊ < 255 := (Nat.floor_lt (by linarith)).mpr (by push_cast; linarith)
    omega

/-- `as u8` never exceeds a non-negative argument -/
theorem toU8_le_self {x : ℝ} (h : 0 ≤ x) : (Real.toU8 x : ℝ) ≤ x := by
  unfold Real.toU8
  split_ifs with h0 h1
  · simpa using h
  · simpa using h1
  · exact Nat.floor_le h

/-- `as u8` is at most the positive part of the argument -/
theorem toU8_le_max (x : ℝ) : (Real.toU8 x : ℝ) ≤ max x 0 := by
  rcases le_total x 0 with h | h
  · simp [toU8_of_nonpos h]
  · exact (toU8_le_self h).trans (le_max_left _ _)

/-- below the saturation point `as u8` loses less than one unit -/
theorem lt_toU8_add_one {x : ℝ} (h : x < 256) : x < (Real.toU8 x : ℝ) + 1 := by
  unfold Real.toU8
  split_ifs with h0 h1
  · push_cast; linarith
  · push_cast; linarith
  · exact Nat.lt_floor_add_one x

theorem toU8_mono : Monotone Real.toU8 := by
  intro x y hxy
  rcases le_or_gt x 0 with hx0 | hx0
  · rw [toU8_of_nonpos hx0]; exact Nat.zero_le _
  rcases le_or_gt 255 y with hy1 | hy1
  · rw [toU8_of_ge hy1]; exact toU8_le_255 x
  rw [toU8_of_mem hx0 (lt_of_le_of_lt hxy hy1), toU8_of_mem (lt_of_lt_of_le hx0 hxy) hy1]
  exact Nat.floor_le_floor hxy

theorem toU8_le_toU8 {x y : ℝ} (h : x ≤ y) : Real.toU8 x ≤ Real.toU8 y := toU8_mono h

/-- a value in `[n, n+1)` truncates to `n` -/
theorem toU8_eq_of_mem_Ico {x : ℝ} {n : ℕ} (hn : n ≤ 255) (h0 : (n : ℝ) ≤ x) (h1 : x < n + 1) :
    Real.toU8 x = n := by
  have hn' : (n : ℝ) ≤ 255 := by exact_mod_cast hn
  unfold Real.toU8
  split_ifs with hx0 hx1
  · have : (n : ℝ) ≤ 0 := h0.trans hx0
    have : n = 0 := by exact_mod_cast le_antisymm this (Nat.cast_nonneg n)
    omega
  · have : (255 : ℝ) < n + 1 := lt_of_le_of_lt hx1 h1
    have : 255 < n + 1 := by exact_mod_cast this
    omega
  · exact (Nat.floor_eq_iff (by linarith)).mpr ⟨h0, h1⟩

@[simp] theorem toU8_natCast {n : ℕ} (hn : n ≤ 255) : Real.toU8 (n : ℝ) = n :=
  toU8_eq_of_mem_Ico hn le_rfl (by linarith)

/-- a natural lower bound passes through `as u8` -/
theorem le_toU8_of_le {x : ℝ} {m : ℕ} (hm : m ≤ 255) (h : (m : ℝ) ≤ x) : m ≤ Real.toU8 x := by
  have := toU8_mono h
  rwa [toU8_natCast hm] at this

/-- a strict natural upper bound passes through `as u8` -/
theorem toU8_lt_of_lt {x : ℝ} {m : ℕ} (hm : 0 < m) (h : x < m) : Real.toU8 x < m := by
  rcases le_total x 0 with h0 | h0
  · rw [toU8_of_nonpos h0]; exact hm
  · have : (Real.toU8 x : ℝ) < m := lt_of_le_of_lt (toU8_le_self h0) h
    exact_mod_cast this

/-- if `x` exceeds `n - a` then `as u8 x` is at least `n - a` (`n` an 8-bit value) -/
theorem le_toU8_add_of_sub_lt {x : ℝ} {n a : ℕ} (hn : n ≤ 255) (h : (n : ℝ) - a < x) :
    n ≤ Real.toU8 x + a := by
  rcases le_or_gt 255 x with hx | hx
  · rw [toU8_of_ge hx]; omega
  · have h1 := lt_toU8_add_one (x := x) (by linarith)
    have : (n : ℝ) < (Real.toU8 x : ℝ) + a + 1 := by linarith
    have : n < Real.toU8 x + a + 1 := by exact_mod_cast this
    omega

/-- if `x` is below `n + a + 1` then `as u8 x` is at most `n + a` -/
theorem toU8_le_add_of_lt {x : ℝ} {n a : ℕ} (h : x < (n : ℝ) + a + 1) : Real.toU8 x ≤ n + a := by
  have : Real.toU8 x < n + a + 1 := toU8_lt_of_lt (by omega) (by push_cast; linarith)
  omega

/-- a value strictly within one unit of an 8-bit `n` truncates to `n - 1` or `n` -/
theorem toU8_near_one {x : ℝ} {n : ℕ} (hn : n ≤ 255) (h0 : (n : ℝ) - 1 < x) (h1 : x < n + 1) :
    n ≤ Real.toU8 x + 1 ∧ Real.toU8 x ≤ n := by
  refine ⟨le_toU8_add_of_sub_lt hn (by push_cast; linarith), ?_⟩
  have := toU8_le_add_of_lt (x := x) (n := n) (a := 0) (by push_cast; linarith)
  omega

/-! ## `Real.roundHA` -/

/-- rounding a value within a quarter (indeed: less than a half) of a natural gives that natural -/
theorem roundHA_natCast_add {n : ℕ} {e : ℝ} (he : |e| < 1 / 2) : Real.roundHA ((n : ℝ) + e) = n := by
  have ⟨h1, h2⟩ := abs_lt.mp he
  unfold Real.roundHA
  split_ifs with h
  · have : ⌊(n : ℝ) + e + 1 / 2⌋ = (n : ℤ) := by
      rw [Int.floor_eq_iff]; push_cast; constructor <;> linarith
    rw [this]; simp
  · have hn : (n : ℝ) = 0 := by
      have h' : (n : ℝ) < 1 / 2 := by linarith
      have : n < 1 := by
        have : (n : ℝ) < 1 := by linarith
        exact_mod_cast this
      have : n = 0 := by omega
      simp [this]
    have : ⌊-((n : ℝ) + e) + 1 / 2⌋ = 0 := by
      rw [Int.floor_eq_iff]; push_cast; constructor <;> linarith
    rw [this, hn]; simp

@[simp] theorem roundHA_natCast (n : ℕ) : Real.roundHA (n : ℝ) = n := by
  simpa using roundHA_natCast_add (n := n) (e := 0) (by norm_num)

theorem roundHA_zero : Real.roundHA 0 = 0 := by
  simpa using roundHA_natCast 0

/-- the rounding quantiser `(x.round() as u8)` has margin: a perturbation below one half of an
8-bit value is absorbed -/
theorem toU8_roundHA_natCast_add {n : ℕ} (hn : n ≤ 255) {e : ℝ} (he : |e| < 1 / 2) :
    Real.toU8 (Real.roundHA ((n : ℝ) + e)) = n := by
  rw [roundHA_natCast_add he, toU8_natCast hn]

theorem roundHA_mono : Monotone Real.roundHA := by
  intro x y hxy
  unfold Real.roundHA
  split_ifs with hx hy hy
  · exact_mod_cast Int.floor_le_floor (by linarith)
  · linarith
  · have h1 : (0 : ℤ) ≤ ⌊-x + 1 / 2⌋ := Int.floor_nonneg.mpr (by linarith)
    have h2 : (0 : ℤ) ≤ ⌊y + 1 / 2⌋ := Int.floor_nonneg.mpr (by linarith)
    have h1' : (0 : ℝ) ≤ (⌊-x + 1 / 2⌋ : ℝ) := by exact_mod_cast h1
    have h2' : (0 : ℝ) ≤ (⌊y + 1 / 2⌋ : ℝ) := by exact_mod_cast h2
    linarith
  · have : ⌊-y + 1 / 2⌋ ≤ ⌊-x + 1 / 2⌋ := Int.floor_le_floor (by linarith)
    have : (⌊-y + 1 / 2⌋ : ℝ) ≤ (⌊-x + 1 / 2⌋ : ℝ) := by exact_mod_cast this
    linarith

/-! ## casts of `max`/`min` of naturals -/

theorem cast_max (a b : ℕ) : max (a : ℝ) (b : ℝ) = ((max a b : ℕ) : ℝ) := (Nat.cast_max a b).symm
theorem cast_min (a b : ℕ) : min (a : ℝ) (b : ℝ) = ((min a b : ℕ) : ℝ) := (Nat.cast_min a b).symm

/-- the largest of three 8-bit channels, as a real, is one of them and dominates all -/
theorem max3_cases (r g b : ℝ) :
    (max b (max r g) = r ∨ max b (max r g) = g ∨ max b (max r g) = b) ∧
    r ≤ max b (max r g) ∧ g ≤ max b (max r g) ∧ b ≤ max b (max r g) := by
  refine ⟨?_, ?_, ?_, ?_⟩
  · rcases max_choice b (max r g) with h | h
    · exact Or.inr (Or.inr h)
    · rcases max_choice r g with h' | h'
      · exact Or.inl (by rw [h, h'])
      · exact Or.inr (Or.inl (by rw [h, h']))
  · exact le_max_of_le_right (le_max_left _ _)
  · exact le_max_of_le_right (le_max_right _ _)
  · exact le_max_left _ _

theorem min3_cases (r g b : ℝ) :
    (min b (min r g) = r ∨ min b (min r g) = g ∨ min b (min r g) = b) ∧
    min b (min r g) ≤ r ∧ min b (min r g) ≤ g ∧ min b (min r g) ≤ b := by
  refine ⟨?_, ?_, ?_, ?_⟩
  · rcases min_choice b (min r g) with h | h
    · exact Or.inr (Or.inr h)
    · rcases min_choice r g with h' | h'
      · exact Or.inl (by rw [h, h'])
      · exact Or.inr (Or.inl (by rw [h, h']))
  · exact min_le_of_right_le (min_le_left _ _)
  · exact min_le_of_right_le (min_le_right _ _)
  · exact min_le_left _ _

/-- `max` of three is monotone in each argument -/
theorem max3_mono {r g b r' g' b' : ℝ} (hr : r ≤ r') (hg : g ≤ g') (hb : b ≤ b') :
    max b (max r g) ≤ max b' (max r' g') := max_le_max hb (max_le_max hr hg)

theorem min3_mono {r g b r' g' b' : ℝ} (hr : r ≤ r') (hg : g ≤ g') (hb : b ≤ b') :
    min b (min r g) ≤ min b' (min r' g') := min_le_min hb (min_le_min hr hg)

/-- the maximum of three naturals cast to `ℝ` is `0` iff all three are `0` -/
theorem max3_eq_zero_iff (r g b : ℕ) :
    max (b : ℝ) (max (r : ℝ) (g : ℝ)) = 0 ↔ r = 0 ∧ g = 0 ∧ b = 0 := by
  rw [cast_max r g, cast_max b]
  constructor
  · intro h
    have : max b (max r g) = 0 := by exact_mod_cast h
    omega
  · rintro ⟨rfl, rfl, rfl⟩; simp

theorem max3_pos_iff (r g b : ℕ) :
    0 < max (b : ℝ) (max (r : ℝ) (g : ℝ)) ↔ 0 < r ∨ 0 < g ∨ 0 < b := by
  rw [cast_max r g, cast_max b]
  constructor
  · intro h
    have : 0 < max b (max r g) := by exact_mod_cast h
    omega
  · intro h
    have : 0 < max b (max r g) := by omega
    exact_mod_cast this

end Quant
