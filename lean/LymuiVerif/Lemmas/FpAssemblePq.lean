import LymuiVerif.Lemmas.FpPq
import LymuiVerif.Lemmas.GreyF2
/-!
# Rec.2100 greys: the sandwich of `Lemmas.GreyF2.pq_sandwich` with its proved constant, and the real side of `Eq3`

`Lemmas.GreyF2.pq_sandwich` states the spread of the code's forward PQ curve over `[u, (1 + 3e-4)·u]` as `2e-3` relative
(the tolerance of `Eq3`); its proof establishes `4.3e-4`.  To transfer `Eq3` to the rounded model a margin is needed, so
`pq_sandwich_tight` restates the same argument with the constant `4.3e-4`; `rec2100_grey_real` packages the exact-real
facts about a grey `v ≥ 1` in the form that `Lemmas.FpEnc2.eq3_pert` consumes.
-/
namespace FpAssemblePq
open Gen Lemmas.CurvesD2 Lemmas.GreyF2 Lemmas.FpEnc2 Props.C08

/-- the code's forward PQ curve on `3e-4 ≤ u ≤ x ≤ w`, `w ≤ (1 + 3e-4)·u`: increasing, spread `≤ 4.3e-4` relative
(`Lemmas.GreyF2.pq_sandwich` with the constant its proof establishes) -/
theorem pq_sandwich_tight {u x w : ℝ} (hu : 3e-4 ≤ u) (hux : u ≤ x) (hxw : x ≤ w) (hrel : w ≤ (1 + 3e-4) * u) :
    (F64.pq_eotf u ≤ F64.pq_eotf x ∧ F64.pq_eotf x ≤ F64.pq_eotf w) ∧
    F64.pq_eotf w - F64.pq_eotf u ≤ 43 / 10 ^ 5 * F64.pq_eotf u ∧ 0 ≤ F64.pq_eotf u := by
  have hp0 : (0:ℝ) ≤ 1 / m2 := by unfold m2; norm_num
  have hp1 : (1:ℝ) / m2 ≤ 1 := by unfold m2; norm_num
  have hq0 : (0:ℝ) ≤ 1 / m1 := by unfold m1; norm_num
  have hu0 : (0:ℝ) < u := by linarith
  have hx0 : (0:ℝ) < x := by linarith
  have su := pq_s_lb hu
  have s_ux : u ^ (1 / m2) ≤ x ^ (1 / m2) := Real.rpow_le_rpow hu0.le hux hp0
  have s_xw : x ^ (1 / m2) ≤ w ^ (1 / m2) := Real.rpow_le_rpow hx0.le hxw hp0
  have s_rel : ∀ y, u ≤ y → y ≤ w → y ^ (1 / m2) ≤ (1 + 39 / 10 ^ 7) * u ^ (1 / m2) := by
    intro y _ hyw
    have h1 : y ^ (1 / m2) ≤ ((1 + 3e-4) * u) ^ (1 / m2) :=
      Real.rpow_le_rpow (by linarith) (hyw.trans hrel) hp0
    rw [Real.mul_rpow (by norm_num) hu0.le] at h1
    have h2 : ((1:ℝ) + 3e-4) ^ (1 / m2) ≤ 1 + 1 / m2 * 3e-4 :=
      rpow_one_add_le_one_add_mul_self (by norm_num) hp0 hp1
    have h3 : (1:ℝ) + 1 / m2 * 3e-4 ≤ 1 + 39 / 10 ^ 7 := by unfold m2; norm_num
    have h4 : 0 ≤ u ^ (1 / m2) := by linarith
    calc y ^ (1 / m2) ≤ ((1:ℝ) + 3e-4) ^ (1 / m2) * u ^ (1 / m2) := h1
      _ ≤ (1 + 39 / 10 ^ 7) * u ^ (1 / m2) := mul_le_mul_of_nonneg_right (h2.trans h3) h4
  obtain ⟨hpos, hx1, hx2⟩ := pqH_mono su s_ux (s_rel x hux hxw)
  obtain ⟨_, hw1, hw2⟩ := pqH_mono su (s_ux.trans s_xw) (s_rel w (hux.trans hxw) le_rfl)
  obtain ⟨_, hxw1, _⟩ := pqH_mono (su.trans s_ux) s_xw
    ((s_rel w (hux.trans hxw) le_rfl).trans (mul_le_mul_of_nonneg_left s_ux (by norm_num)))
  rw [pq_closed hu, pq_closed (hu.trans hux), pq_closed (hu.trans (hux.trans hxw))]
  set a := pqH (u ^ (1 / m2)) with ha
  set b := pqH (x ^ (1 / m2)) with hb
  set c := pqH (w ^ (1 / m2)) with hc
  have pa : 0 ≤ a ^ (1 / m1) := Real.rpow_nonneg hpos.le _
  have ab : a ^ (1 / m1) ≤ b ^ (1 / m1) := Real.rpow_le_rpow hpos.le hx1 hq0
  have bc : b ^ (1 / m1) ≤ c ^ (1 / m1) := Real.rpow_le_rpow (hpos.le.trans hx1) hxw1 hq0
  have ca : c ^ (1 / m1) ≤ (1 + 43 / 10 ^ 5) * a ^ (1 / m1) := by
    have h1 : c ^ (1 / m1) ≤ ((1 + 6 / 10 ^ 5) * a) ^ (1 / m1) :=
      Real.rpow_le_rpow (hpos.le.trans hw1) hw2 hq0
    rw [Real.mul_rpow (by norm_num) hpos.le] at h1
    have h2 : ((1:ℝ) + 6 / 10 ^ 5) ^ (1 / m1) ≤ ((1:ℝ) + 6 / 10 ^ 5) ^ ((7 : ℕ) : ℝ) :=
      Real.rpow_le_rpow_of_exponent_le (by norm_num) (by unfold m1; norm_num)
    rw [Real.rpow_natCast] at h2
    have h3 : ((1:ℝ) + 6 / 10 ^ 5) ^ 7 ≤ 1 + 43 / 10 ^ 5 := by norm_num
    calc c ^ (1 / m1) ≤ ((1:ℝ) + 6 / 10 ^ 5) ^ (1 / m1) * a ^ (1 / m1) := h1
      _ ≤ (1 + 43 / 10 ^ 5) * a ^ (1 / m1) := mul_le_mul_of_nonneg_right (h2.trans h3) pa
  refine ⟨⟨by linarith, by linarith⟩, ?_, by positivity⟩
  linarith

/-- **Rec.2100, exact-real model, grey `v ≥ 1`**: the BT.2020 linear components `xb ≤ xg ≤ xr` lie in `[3e-4, 1.1]`
within `3e-4` relative; the code's forward PQ curve is increasing between them with spread `4.3e-4` relative -/
theorem rec2100_grey_real (v : ℕ) (hv : v ≤ 255) (h1 : 1 ≤ v) :
    3e-4 ≤ dot C.XB (gx v) (gy v) (gz v) ∧
    dot C.XB (gx v) (gy v) (gz v) ≤ dot C.XG (gx v) (gy v) (gz v) ∧
    dot C.XG (gx v) (gy v) (gz v) ≤ dot C.rec2020_XR (gx v) (gy v) (gz v) ∧
    dot C.rec2020_XR (gx v) (gy v) (gz v) ≤ 1.1 ∧
    0 ≤ F64.pq_eotf (dot C.XB (gx v) (gy v) (gz v)) ∧
    F64.pq_eotf (dot C.rec2020_XR (gx v) (gy v) (gz v)) - F64.pq_eotf (dot C.XB (gx v) (gy v) (gz v))
      ≤ 43 / 10 ^ 5 * F64.pq_eotf (dot C.XB (gx v) (gy v) (gz v)) ∧
    ∀ y, dot C.XB (gx v) (gy v) (gz v) ≤ y → y ≤ dot C.rec2020_XR (gx v) (gy v) (gz v) →
      F64.pq_eotf (dot C.XB (gx v) (gy v) (gz v)) ≤ F64.pq_eotf y ∧
      F64.pq_eotf y ≤ F64.pq_eotf (dot C.rec2020_XR (gx v) (gy v) (gz v)) := by
  obtain ⟨_, t0, t1⟩ := grey_level v hv
  have hgap := Lemmas.LightnessF2.srgb_dec_level_gap (m := 0) (n := v) (by omega)
  rw [srgb_decode_is_iec, srgb_decode_is_iec] at hgap
  have z : decSrgb (((0 : ℕ) : ℝ) / 255) = 0 := by unfold decSrgb; norm_num
  rw [z] at hgap
  simp only [gx, gy, gz]
  generalize decSrgb ((v : ℝ) / 255) = t at *
  obtain ⟨o1, o2, rel, lb, ub⟩ := grey_args_2020 t t0
  have hu : (3e-4 : ℝ) ≤ dot C.XB (95047 / 100000 * t) (10000001 / 10000000 * t) (108883 / 100000 * t) := by
    norm_num at hgap ⊢; linarith
  have hrel' : dot C.rec2020_XR (95047 / 100000 * t) (10000001 / 10000000 * t) (108883 / 100000 * t)
      ≤ (1 + 3e-4) * dot C.XB (95047 / 100000 * t) (10000001 / 10000000 * t) (108883 / 100000 * t) := by
    linarith
  obtain ⟨-, d, n⟩ := pq_sandwich_tight hu (o1.trans o2) le_rfl hrel'
  refine ⟨hu, o1, o2, by linarith, n, d, fun y hy1 hy2 => ?_⟩
  exact (pq_sandwich_tight hu hy1 hy2 hrel').1

end FpAssemblePq
