import Mathlib.Analysis.Complex.ExponentialBounds
import LymuiVerif.Lemmas.FpHexcone
import LymuiVerif.Lemmas.FpEnc
import LymuiVerif.Lemmas.FpEnc2
import LymuiVerif.Lemmas.FpDefinedImage
import LymuiVerif.Lemmas.FpOkSharp

/-!
# Rec.2100 / SMPTE ST 2084 (PQ) in the rounded-arithmetic reading (`RF M`, every `M : FPModel`): helper lemmas

* real analysis, RELATIVE perturbation of a power in base and exponent, no restriction on the size of the exponent:
  `rpow_rel` (`|q'·log x' − q·log x| ≤ σ ≤ 1 ⟹ |x'^q' − x^q| ≤ (σ + σ²)·x^q`), `log_pert`, `rpow_pert`
  (`σ = Q·(r + 2r²) + δ·|log x|` for a base known to relative `r` and an exponent known to `δ`), bounds of `|log x|`
  (`abs_log_le_of_pow2`: `≤ 0.6932·n` on `[2^-n, 2^n]`; `abs_log_le_of_le_one`), `pow_pert` (the same for `M.pow`, `+2.5e-16`);
* `ym1_close`, `pq_inverse_real`, `pq_inverse_close`: `F64.pq_inverse_eotf` on `[0, 10000]`, relative `5e-11`;
* `inv_lit_close`, `pq_forward_real`, `pq_t_range`, `pq_forward_ratio`, `pq_forward_close`: the code's forward curve `F64.pq_eotf` on
  `[2.9e-6, 1.1]` with a relatively perturbed argument: `7·r + 3e-12`; `pq_forward_zero` (black);
* `rec2100_from_xyz_fp`, `xyz_from_rec2100_fp` (structure, `rfl`), `rec2100_lin_close` (absolute `2.62e-12`, range);
* magnitude-aware path: `srgb_dec_rel` (sRGB decoder on byte levels, RELATIVE `3.4e-14`), `lin2020_rel`, `rec2100_lin_rel`
  (BT.2020 linear components of a non-black colour, RELATIVE `9.1e-12`).
-/
namespace Lemmas.FpPq
open Real

theorem exp_sub_one_le {s σ : ℝ} (hs : |s| ≤ σ) (hσ : σ ≤ 1) : |Real.exp s - 1| ≤ σ + σ ^ 2 := by
  have h := Real.abs_exp_sub_one_sub_id_le (hs.trans hσ)
  have h2 : s ^ 2 ≤ σ ^ 2 := by
    rw [← sq_abs s]; exact pow_le_pow_left₀ (abs_nonneg _) hs 2
  have e : Real.exp s - 1 = (Real.exp s - 1 - s) + s := by ring
  rw [e]
  exact (abs_add_le _ _).trans (by linarith)

theorem log_one_add_le {ρ r : ℝ} (h : |ρ| ≤ r) (hr : r ≤ 1 / 2) : |Real.log (1 + ρ)| ≤ r + 2 * r ^ 2 := by
  obtain ⟨h1, h2⟩ := abs_le.mp h
  have hr0 : 0 ≤ r := le_trans (abs_nonneg _) h
  have hpos : 0 < 1 + ρ := by linarith
  have u := Real.log_le_sub_one_of_pos hpos
  have l := Real.one_sub_inv_le_log_of_pos hpos
  have l2 : -(r + 2 * r ^ 2) ≤ 1 - (1 + ρ)⁻¹ := by
    have : (1 + ρ)⁻¹ ≤ (1 - r)⁻¹ := inv_anti₀ (by linarith) (by linarith)
    have e : (1 - r)⁻¹ ≤ 1 + r + 2 * r ^ 2 := by
      rw [inv_le_iff_one_le_mul₀ (by linarith)]
      nlinarith
    linarith
  rw [abs_le]; constructor
  · linarith
  · nlinarith

/-- a value `x'` within relative distance `r ≤ 1/2` of `x > 0` is positive and its logarithm is within `r + 2r²` -/
theorem log_pert {x x' r : ℝ} (hx : 0 < x) (h : |x' - x| ≤ r * x) (hr : r ≤ 1 / 2) :
    0 < x' ∧ |Real.log x' - Real.log x| ≤ r + 2 * r ^ 2 := by
  have hρ : |(x' - x) / x| ≤ r := by
    rw [abs_div, abs_of_pos hx, div_le_iff₀ hx]; exact h
  have e : x' = x * (1 + (x' - x) / x) := by field_simp; ring
  obtain ⟨h1, h2⟩ := abs_le.mp hρ
  have hpos : 0 < 1 + (x' - x) / x := by linarith
  have hx' : 0 < x' := by rw [e]; exact mul_pos hx hpos
  refine ⟨hx', ?_⟩
  have : Real.log x' - Real.log x = Real.log (1 + (x' - x) / x) := by
    conv_lhs => rw [e]
    rw [Real.log_mul hx.ne' hpos.ne']; ring
  rw [this]
  exact log_one_add_le hρ hr

/-- **relative perturbation of a real power**: if `q'·log x' − q·log x` is at most `σ ≤ 1` in magnitude, then
`x'^q'` is within `(σ + σ²)·x^q` of `x^q` -/
theorem rpow_rel {x x' q q' σ : ℝ} (hx : 0 < x) (hx' : 0 < x')
    (h : |q' * Real.log x' - q * Real.log x| ≤ σ) (hσ : σ ≤ 1) :
    |x' ^ q' - x ^ q| ≤ (σ + σ ^ 2) * x ^ q := by
  rw [Real.rpow_def_of_pos hx, Real.rpow_def_of_pos hx']
  have e : Real.exp (Real.log x' * q') - Real.exp (Real.log x * q)
      = Real.exp (Real.log x * q) * (Real.exp (q' * Real.log x' - q * Real.log x) - 1) := by
    rw [mul_sub, ← Real.exp_add]; congr 1
    · congr 1; ring
    · ring
  rw [e, abs_mul, abs_of_pos (Real.exp_pos _), mul_comm]
  exact mul_le_mul_of_nonneg_right (exp_sub_one_le h hσ) (Real.exp_pos _).le

/-- perturbed base (relative `r`) AND perturbed exponent (`|q' − q| ≤ dq`, `|q'| ≤ Q`), `|log x| ≤ Lg` -/
theorem rpow_pert {x x' q q' r dq Lg Q σ : ℝ} (hx : 0 < x) (h : |x' - x| ≤ r * x) (hr : r ≤ 1 / 2)
    (hq : |q' - q| ≤ dq) (hQ : |q'| ≤ Q) (hL : |Real.log x| ≤ Lg)
    (hσ : Q * (r + 2 * r ^ 2) + dq * Lg ≤ σ) (hσ1 : σ ≤ 1) :
    0 < x' ∧ |x' ^ q' - x ^ q| ≤ (σ + σ ^ 2) * x ^ q := by
  obtain ⟨hx', hl⟩ := log_pert hx h hr
  refine ⟨hx', rpow_rel hx hx' ?_ hσ1⟩
  have e : q' * Real.log x' - q * Real.log x = q' * (Real.log x' - Real.log x) + (q' - q) * Real.log x := by ring
  rw [e]
  have hr0 : 0 ≤ r + 2 * r ^ 2 := le_trans (abs_nonneg _) hl
  have hdq : 0 ≤ dq := le_trans (abs_nonneg _) hq
  have t1 : |q' * (Real.log x' - Real.log x)| ≤ Q * (r + 2 * r ^ 2) := by
    rw [abs_mul]; exact mul_le_mul hQ hl (abs_nonneg _) (le_trans (abs_nonneg _) hQ)
  have t2 : |(q' - q) * Real.log x| ≤ dq * Lg := by
    rw [abs_mul]; exact mul_le_mul hq hL (abs_nonneg _) hdq
  exact (abs_add_le _ _).trans (by linarith)

/-- `|log x| ≤ 0.6932·n` on `[2^-n, 2^n]` -/
theorem abs_log_le_of_pow2 {x : ℝ} (n : ℕ) (h1 : 1 / 2 ^ n ≤ x) (h2 : x ≤ 2 ^ n) : |Real.log x| ≤ 0.6932 * n := by
  have hx : 0 < x := lt_of_lt_of_le (by positivity) h1
  have l2 := Real.log_two_lt_d9
  have l2' := Real.log_two_gt_d9
  have u : Real.log x ≤ n * Real.log 2 := by
    have := Real.log_le_log hx h2
    rwa [Real.log_pow] at this
  have l : -(n * Real.log 2) ≤ Real.log x := by
    have := Real.log_le_log (by positivity) h1
    rwa [one_div, Real.log_inv, Real.log_pow] at this
  have hn : (0:ℝ) ≤ n := Nat.cast_nonneg n
  rw [abs_le]; constructor <;> nlinarith


section fp
open FpErr FpLin Gen
variable (M : FPModel)

/-- `M.pow` with a relatively perturbed base and a perturbed exponent -/
theorem pow_pert {x x' q q' r dq Lg Q σ : ℝ} (hx : 0 < x) (h : |x' - x| ≤ r * x) (hr : r ≤ 1 / 2)
    (hq : |q' - q| ≤ dq) (hQ : |q'| ≤ Q) (hL : |Real.log x| ≤ Lg)
    (hσ : Q * (r + 2 * r ^ 2) + dq * Lg ≤ σ) (hσ1 : σ ≤ 0.01) :
    0 < x' ∧ |M.pow x' q' - x ^ q| ≤ (σ + σ ^ 2 + 2.5e-16) * x ^ q + FP.eta := by
  obtain ⟨hx', hp⟩ := rpow_pert hx h hr hq hQ hL hσ (by linarith)
  refine ⟨hx', ?_⟩
  have pe := M.pow_err x' q' hx'.le
  have hxq : 0 < x ^ q := Real.rpow_pos_of_pos hx q
  have hσ0 : 0 ≤ σ := by
    have h1 : 0 ≤ r := by
      by_contra hc; rw [not_le] at hc
      have := le_trans (abs_nonneg _) h; nlinarith
    have h2 : 0 ≤ Q := le_trans (abs_nonneg _) hQ
    have h3 : 0 ≤ dq := le_trans (abs_nonneg _) hq
    have h4 : 0 ≤ Lg := le_trans (abs_nonneg _) hL
    have : 0 ≤ Q * (r + 2 * r ^ 2) + dq * Lg := by positivity
    linarith
  have hb : |x' ^ q'| ≤ 1.0101 * x ^ q := by
    rw [abs_of_pos (Real.rpow_pos_of_pos hx' q')]
    have := (abs_le.mp hp).2
    have hs : σ + σ ^ 2 ≤ 0.0101 := by nlinarith
    have := mul_le_mul_of_nonneg_right hs hxq.le
    linarith
  have hu := FP.u_lt
  have hup := FP.u_pos
  have e : M.pow x' q' - x ^ q = (M.pow x' q' - x' ^ q') + (x' ^ q' - x ^ q) := by ring
  rw [e]
  refine (abs_add_le _ _).trans ?_
  have : 2 * FP.u * |x' ^ q'| ≤ 2.5e-16 * x ^ q := by
    calc 2 * FP.u * |x' ^ q'| ≤ 2 * FP.u * (1.0101 * x ^ q) := mul_le_mul_of_nonneg_left hb (by linarith)
      _ ≤ 2.5e-16 * x ^ q := by nlinarith
  linarith


/-- `|log x| ≤ 1/a − 1` on `[a, 1]` -/
theorem abs_log_le_of_le_one {x a : ℝ} (ha : 0 < a) (h1 : a ≤ x) (h2 : x ≤ 1) : |Real.log x| ≤ 1 / a - 1 := by
  have hx : 0 < x := lt_of_lt_of_le ha h1
  have l := Real.one_sub_inv_le_log_of_pos hx
  have u := Real.log_nonpos hx.le h2
  have : x⁻¹ ≤ 1 / a := by rw [one_div]; exact inv_anti₀ ha h1
  rw [abs_le]; constructor <;> linarith

/-! ## ST 2084 inverse EOTF (`F64.pq_inverse_eotf`) in `RF M` -/

set_option exponentiation.threshold 2000 in
/-- first stage: `powf(Y, m1)` for `Y ∈ [0,1]` after the rounding of `Y` and of the exponent literal -/
theorem ym1_close {Y : ℝ} (h0 : 0 ≤ Y) (h1 : Y ≤ 1) :
    |M.pow (M.rnd Y) (M.rnd (((1305:ℕ):ℝ) / ((8192:ℕ):ℝ))) - Y ^ (((1305:ℕ):ℝ) / ((8192:ℕ):ℝ))| ≤ 1.1e-14 := by
  have lq := lit_close M 1305 8192 (B := 0.16) (by norm_num) (by norm_num)
  obtain ⟨lq1, lq2⟩ := abs_le.mp lq
  generalize M.rnd (((1305:ℕ):ℝ) / ((8192:ℕ):ℝ)) = q' at *
  have e16 : FP.eps = 1.2e-16 := rfl
  rw [e16] at lq lq1 lq2
  have hq'lo : ((3:ℕ):ℝ) / ((20:ℕ):ℝ) ≤ q' := by norm_num at lq1 ⊢; linarith
  have hq'hi : q' ≤ 0.16 := by norm_num at lq2 ⊢; linarith
  have hm1 : ((3:ℕ):ℝ) / ((20:ℕ):ℝ) ≤ ((1305:ℕ):ℝ) / ((8192:ℕ):ℝ) := by norm_num
  have het := FP.eta_lt
  have hetp := FP.eta_pos
  rcases le_or_gt (1e-100 : ℝ) Y with hY | hY
  · -- relative regime
    have hYp : 0 < Y := lt_of_lt_of_le (by norm_num) hY
    have hy := rnd_abs M (x := Y) (B := Y) (by rw [abs_of_nonneg h0]) (le_trans (by norm_num) hY)
    rw [e16] at hy
    have hL := abs_log_le_of_pow2 (x := Y) 333 (le_trans (by norm_num) hY) (h1.trans (one_le_pow₀ (by norm_num)))
    have hQ : |q'| ≤ 0.16 := by rw [abs_le]; constructor <;> linarith
    obtain ⟨-, hp⟩ := pow_pert M (σ := 5e-15) hYp hy (by norm_num) lq hQ hL (by norm_num) (by norm_num)
    have hT : Y ^ (((1305:ℕ):ℝ) / ((8192:ℕ):ℝ)) ≤ 1 := Real.rpow_le_one h0 h1 (by norm_num)
    have hT0 : 0 ≤ Y ^ (((1305:ℕ):ℝ) / ((8192:ℕ):ℝ)) := Real.rpow_nonneg h0 _
    refine hp.trans ?_
    norm_num at het ⊢
    nlinarith
  · -- tiny regime: both powers are below 1e-14
    have hy0 : 0 ≤ M.rnd Y := rnd_nonneg M h0
    have hy1 : M.rnd Y ≤ 1.01e-100 := by
      have := rnd_abs M (x := Y) (B := 1e-100) (by rw [abs_of_nonneg h0]; exact hY.le) (by norm_num)
      rw [e16] at this
      have := (abs_le.mp this).2
      norm_num at this ⊢; linarith
    have small : ∀ z p : ℝ, 0 ≤ z → z ≤ 1.01e-100 → ((3:ℕ):ℝ) / ((20:ℕ):ℝ) ≤ p → z ^ p ≤ 1e-14 := by
      intro z p hz0 hz1 hp
      calc z ^ p ≤ (1.01e-100 : ℝ) ^ p := Real.rpow_le_rpow hz0 hz1 (le_trans (by norm_num) hp)
        _ ≤ (1.01e-100 : ℝ) ^ (((3:ℕ):ℝ) / ((20:ℕ):ℝ)) :=
            Real.rpow_le_rpow_of_exponent_ge (by norm_num) (by norm_num) hp
        _ ≤ 1e-14 := Lemmas.CurvesD2.rpow_div_le 3 20 (by norm_num) (by norm_num) (by norm_num) (by norm_num)
    have s1 := small (M.rnd Y) q' hy0 hy1 hq'lo
    have s2 := small Y _ h0 (hY.le.trans (by norm_num)) hm1
    have s1' : 0 ≤ M.rnd Y ^ q' := Real.rpow_nonneg hy0 _
    have s2' : 0 ≤ Y ^ (((1305:ℕ):ℝ) / ((8192:ℕ):ℝ)) := Real.rpow_nonneg h0 _
    have pe := M.pow_err (M.rnd Y) q' hy0
    rw [abs_of_nonneg s1'] at pe
    have pn := M.pow_nonneg (M.rnd Y) q' hy0
    have hu := FP.u_lt
    have hup := FP.u_pos
    obtain ⟨pe1, pe2⟩ := abs_le.mp pe
    rw [abs_le]; constructor
    · linarith
    · norm_num at het ⊢
      nlinarith


/-- the exact-real ST 2084 inverse in the shape of the generated code -/
theorem pq_inverse_real (L : ℝ) (hL : 0 ≤ L) :
    F64.pq_inverse_eotf L =
      ((((107:ℕ):ℝ) / ((128:ℕ):ℝ) + ((2413:ℕ):ℝ) / ((128:ℕ):ℝ) * (L / ((10000:ℕ):ℝ)) ^ (((1305:ℕ):ℝ) / ((8192:ℕ):ℝ))) /
        (((1:ℕ):ℝ) + ((299:ℕ):ℝ) / ((16:ℕ):ℝ) * (L / ((10000:ℕ):ℝ)) ^ (((1305:ℕ):ℝ) / ((8192:ℕ):ℝ)))) ^ (((2523:ℕ):ℝ) / ((32:ℕ):ℝ)) := by
  have h0 : (0 : ℝ) ≤ (L / ((10000:ℕ):ℝ)) ^ (((1305:ℕ):ℝ) / ((8192:ℕ):ℝ)) := Real.rpow_nonneg (by positivity) _
  have hd : ((1:ℕ):ℝ) / ((1:ℕ):ℝ) + ((299:ℕ):ℝ) / ((16:ℕ):ℝ) * (L / (((10000:ℕ):ℝ) / ((1:ℕ):ℝ))) ^ (((1305:ℕ):ℝ) / ((8192:ℕ):ℝ)) ≠ ((0:ℕ):ℝ) / ((1:ℕ):ℝ) := by
    simp only [Nat.cast_one, div_one, Nat.cast_zero]
    have : (0:ℝ) < 1 + ((299:ℕ):ℝ) / ((16:ℕ):ℝ) * (L / ((10000:ℕ):ℝ)) ^ (((1305:ℕ):ℝ) / ((8192:ℕ):ℝ)) := by positivity
    exact this.ne'
  simp only [F64.pq_inverse_eotf, FltReal.beq_eq, FltReal.lit_eq, FltReal.pow_eq, decide_eq_true_eq, if_neg hd]
  simp only [Nat.cast_one, div_one]

/-- **ST 2084 inverse EOTF in `RF M`** on `[0, 10000]`: relative error at most `5e-11` against the exact-real model;
the exact value lies in `[1e-8, 1]` -/
theorem pq_inverse_close (l : RF M) (h0 : 0 ≤ l.val) (h1 : l.val ≤ 10000) :
    |(F64.pq_inverse_eotf l).val - F64.pq_inverse_eotf (l.val : ℝ)| ≤ 5e-11 * F64.pq_inverse_eotf (l.val : ℝ) ∧
    1e-8 ≤ F64.pq_inverse_eotf (l.val : ℝ) ∧ F64.pq_inverse_eotf (l.val : ℝ) ≤ 1 := by
  rw [pq_inverse_real _ h0]
  simp only [F64.pq_inverse_eotf, apply_ite RF.val, FltRF.lit_val, FltRF.add_val, FltRF.mul_val, FltRF.div_val,
    FltRF.pow_val, FltRF.beq_eq, decide_eq_true_eq]
  rw [lit_int M 10000 (by norm_num), lit_int M 1 (by norm_num), lit_int M 0 (by norm_num)]
  have hY0 : 0 ≤ l.val / ((10000:ℕ):ℝ) := by positivity
  have hY1 : l.val / ((10000:ℕ):ℝ) ≤ 1 := by rw [div_le_one (by norm_num)]; push_cast; exact h1
  have hT := ym1_close M hY0 hY1
  have hT0 : 0 ≤ (l.val / ((10000:ℕ):ℝ)) ^ (((1305:ℕ):ℝ) / ((8192:ℕ):ℝ)) := Real.rpow_nonneg hY0 _
  have hT1 : (l.val / ((10000:ℕ):ℝ)) ^ (((1305:ℕ):ℝ) / ((8192:ℕ):ℝ)) ≤ 1 := Real.rpow_le_one hY0 hY1 (by norm_num)
  generalize (l.val / ((10000:ℕ):ℝ)) ^ (((1305:ℕ):ℝ) / ((8192:ℕ):ℝ)) = T at *
  generalize M.pow (M.rnd (l.val / ((10000:ℕ):ℝ))) (M.rnd (((1305:ℕ):ℝ) / ((8192:ℕ):ℝ))) = t at *
  have Tn : Near t T 1.1e-14 1 := ⟨hT, by rw [abs_of_nonneg hT0]; exact hT1, le_rfl⟩
  have N := (Near.lit M 107 128 (B := 1) (by norm_num) le_rfl).add M
    ((Near.lit M 2413 128 (B := 19) (by norm_num) (by norm_num)).mul M Tn)
  have D := (Near.nat (n := 1) (B := 1) (by norm_num) le_rfl).add M
    ((Near.lit M 299 16 (B := 19) (by norm_num) (by norm_num)).mul M Tn)
  have hDlo : (1:ℝ) ≤ ((1:ℕ):ℝ) + ((299:ℕ):ℝ) / ((16:ℕ):ℝ) * T := by push_cast; nlinarith
  have hNpos : (0:ℝ) ≤ ((107:ℕ):ℝ) / ((128:ℕ):ℝ) + ((2413:ℕ):ℝ) / ((128:ℕ):ℝ) * T := by positivity
  have hDpos : (0:ℝ) < ((1:ℕ):ℝ) + ((299:ℕ):ℝ) / ((16:ℕ):ℝ) * T := by linarith
  -- the exact quotient lies in [c1, 1]
  have hQlo : (0.8359:ℝ) ≤ (((107:ℕ):ℝ) / ((128:ℕ):ℝ) + ((2413:ℕ):ℝ) / ((128:ℕ):ℝ) * T) / (((1:ℕ):ℝ) + ((299:ℕ):ℝ) / ((16:ℕ):ℝ) * T) := by
    rw [le_div_iff₀ hDpos]; push_cast; nlinarith
  have hQhi : (((107:ℕ):ℝ) / ((128:ℕ):ℝ) + ((2413:ℕ):ℝ) / ((128:ℕ):ℝ) * T) / (((1:ℕ):ℝ) + ((299:ℕ):ℝ) / ((16:ℕ):ℝ) * T) ≤ 1 := by
    rw [div_le_one hDpos]; push_cast; nlinarith
  have e16 : FP.eps = 1.2e-16 := rfl
  have hDe : (0 + (FP.eps * 19 * 1 + 1.1e-14 * 19 + FP.eps * 19 * 1.1e-14 + FP.eps * (19 * 1 + (FP.eps * 19 * 1 + 1.1e-14 * 19 + FP.eps * 19 * 1.1e-14))) +
      FP.eps * (1 + 19 * 1 + (0 + (FP.eps * 19 * 1 + 1.1e-14 * 19 + FP.eps * 19 * 1.1e-14 + FP.eps * (19 * 1 + (FP.eps * 19 * 1 + 1.1e-14 * 19 + FP.eps * 19 * 1.1e-14)))))) ≤ 2.2e-13 := by
    rw [e16]; norm_num
  have hNe : (FP.eps * 1 + (FP.eps * 19 * 1 + 1.1e-14 * 19 + FP.eps * 19 * 1.1e-14 + FP.eps * (19 * 1 + (FP.eps * 19 * 1 + 1.1e-14 * 19 + FP.eps * 19 * 1.1e-14))) +
      FP.eps * (1 + 19 * 1 + (FP.eps * 1 + (FP.eps * 19 * 1 + 1.1e-14 * 19 + FP.eps * 19 * 1.1e-14 + FP.eps * (19 * 1 + (FP.eps * 19 * 1 + 1.1e-14 * 19 + FP.eps * 19 * 1.1e-14)))))) ≤ 2.2e-13 := by
    rw [e16]; norm_num
  have N' := N.err.trans hNe
  have D' := D.err.trans hDe
  generalize M.rnd (M.rnd (((107:ℕ):ℝ) / ((128:ℕ):ℝ)) + M.rnd (M.rnd (((2413:ℕ):ℝ) / ((128:ℕ):ℝ)) * t)) = num at *
  generalize M.rnd (((1:ℕ):ℝ) + M.rnd (M.rnd (((299:ℕ):ℝ) / ((16:ℕ):ℝ)) * t)) = den at *
  have hden : den ≠ ((0:ℕ):ℝ) := by
    have := (abs_le.mp D').1
    push_cast at *
    intro h; rw [h] at this; linarith
  rw [if_neg hden]
  have hq := FpHexcone.div_close_q M N' D' (m := 1) (Bq := 1) (by rw [abs_of_pos hDpos]; exact hDlo) (by norm_num)
    (by rw [abs_of_nonneg (div_nonneg hNpos hDpos.le)]; exact hQhi) (by norm_num)
  generalize (((107:ℕ):ℝ) / ((128:ℕ):ℝ) + ((2413:ℕ):ℝ) / ((128:ℕ):ℝ) * T) / (((1:ℕ):ℝ) + ((299:ℕ):ℝ) / ((16:ℕ):ℝ) * T) = Q at *
  have hq' : |M.rnd (num / den) - Q| ≤ 5.3e-13 * Q := by
    refine hq.trans ?_
    rw [e16]
    have : (4.42e-13 : ℝ) ≤ 5.3e-13 * Q := by nlinarith
    refine le_trans ?_ this
    norm_num
  have lq := lit_close M 2523 32 (B := 79) (by norm_num) (by norm_num)
  have hQ' : |M.rnd (((2523:ℕ):ℝ) / ((32:ℕ):ℝ))| ≤ 79.1 := by
    have := abs_sub_abs_le_abs_sub (M.rnd (((2523:ℕ):ℝ) / ((32:ℕ):ℝ))) (((2523:ℕ):ℝ) / ((32:ℕ):ℝ))
    rw [abs_of_nonneg (by positivity : (0:ℝ) ≤ ((2523:ℕ):ℝ) / ((32:ℕ):ℝ))] at this
    rw [e16] at lq
    norm_num at this lq ⊢; linarith
  have hLg := abs_log_le_of_le_one (x := Q) (a := 0.8359) (by norm_num) hQlo hQhi
  have hQp : 0 < Q := lt_of_lt_of_le (by norm_num) hQlo
  obtain ⟨-, hp⟩ := pow_pert M (σ := 4.3e-11) hQp hq' (by norm_num) lq hQ' hLg (by rw [e16]; norm_num) (by norm_num)
  -- lower bound of the exact value
  have hlow : (1e-8 : ℝ) ≤ Q ^ (((2523:ℕ):ℝ) / ((32:ℕ):ℝ)) := by
    calc (1e-8 : ℝ) ≤ (0.8359:ℝ) ^ (79:ℕ) := by norm_num
      _ ≤ Q ^ (79:ℕ) := pow_le_pow_left₀ (by norm_num) hQlo 79
      _ = Q ^ ((79:ℕ):ℝ) := (Real.rpow_natCast Q 79).symm
      _ ≤ Q ^ (((2523:ℕ):ℝ) / ((32:ℕ):ℝ)) := Real.rpow_le_rpow_of_exponent_ge hQp hQhi (by norm_num)
  have hhigh : Q ^ (((2523:ℕ):ℝ) / ((32:ℕ):ℝ)) ≤ 1 := Real.rpow_le_one hQp.le hQhi (by norm_num)
  refine ⟨?_, hlow, hhigh⟩
  refine hp.trans ?_
  have het := FP.eta_lt
  norm_num at het ⊢
  nlinarith


/-! ## the code's forward PQ curve (`F64.pq_eotf`) in `RF M` -/

/-- the rounded reciprocal `1/(n/d)` of an exponent literal -/
theorem inv_lit_close (n d : ℕ) {lo hi : ℝ} (hlo : 0 < lo) (h1 : lo ≤ (n:ℝ)/d) (h2 : (n:ℝ)/d ≤ hi) (hhi : 1e-100 ≤ hi)
    (hlo' : FP.eps * hi < lo) (hq : 1e-100 ≤ 1 / lo):
    |M.rnd (((1:ℕ):ℝ) / M.rnd ((n:ℝ)/d)) - ((1:ℕ):ℝ) / ((n:ℝ)/d)|
      ≤ (FP.eps * hi) / (lo * (lo - FP.eps * hi)) + FP.eps * (1 / lo + (FP.eps * hi) / (lo * (lo - FP.eps * hi))) := by
  have l3 := lit_close M n d (B := hi) h2 (le_trans (by norm_num) hhi)
  have a0 : |((1:ℕ):ℝ) - ((1:ℕ):ℝ)| ≤ 0 := by simp
  have hy : (0:ℝ) < (n:ℝ)/d := lt_of_lt_of_le hlo h1
  have d1 := div_close M a0 l3 (Bx := 1) (m := lo) (Bq := 1 / lo) (by simp)
    (by rw [abs_of_pos hy]; exact h1) hlo'
    (by rw [abs_of_nonneg (by positivity)]; push_cast; exact one_div_le_one_div_of_le hlo h1) (le_trans (by norm_num) hq)
  refine d1.trans (le_of_eq ?_)
  ring

/-- the exact-real forward curve of the code (NOT the ST 2084 EOTF: recorded finding) in the shape of the generated code -/
theorem pq_forward_real (E : ℝ) (hE : 0 < E) :
    F64.pq_eotf E = ((10000:ℕ):ℝ) *
      (max (E ^ (((1:ℕ):ℝ) / (((2523:ℕ):ℝ) / ((32:ℕ):ℝ))) - ((107:ℕ):ℝ) / ((128:ℕ):ℝ)) 0 /
        ((((2413:ℕ):ℝ) / ((128:ℕ):ℝ) - ((299:ℕ):ℝ) / ((16:ℕ):ℝ)) * E ^ (((1:ℕ):ℝ) / (((2523:ℕ):ℝ) / ((32:ℕ):ℝ)))))
        ^ (((1:ℕ):ℝ) / (((1305:ℕ):ℝ) / ((8192:ℕ):ℝ))) := by
  have h0 : (0 : ℝ) < E ^ (((1:ℕ):ℝ) / ((1:ℕ):ℝ) / (((2523:ℕ):ℝ) / ((32:ℕ):ℝ))) := Real.rpow_pos_of_pos hE _
  have hd : (((2413:ℕ):ℝ) / ((128:ℕ):ℝ) - ((299:ℕ):ℝ) / ((16:ℕ):ℝ)) * E ^ (((1:ℕ):ℝ) / ((1:ℕ):ℝ) / (((2523:ℕ):ℝ) / ((32:ℕ):ℝ)))
      ≠ ((0:ℕ):ℝ) / ((1:ℕ):ℝ) := by
    simp only [Nat.cast_zero, zero_div]
    have : (0:ℝ) < ((2413:ℕ):ℝ) / ((128:ℕ):ℝ) - ((299:ℕ):ℝ) / ((16:ℕ):ℝ) := by norm_num
    exact (mul_pos this h0).ne'
  simp only [F64.pq_eotf, FltReal.beq_eq, FltReal.lit_eq, FltReal.pow_eq, FltReal.max_eq, decide_eq_true_eq, if_neg hd]
  simp only [Nat.cast_one, div_one, Nat.cast_zero]


set_option exponentiation.threshold 3000 in
/-- range of `E^(1/m2)` on `[2.9e-6, 1.1]` -/
theorem pq_t_range {E : ℝ} (hE0 : 2.9e-6 ≤ E) (hE1 : E ≤ 1.1) :
    0.85 ≤ E ^ (((1:ℕ):ℝ) / (((2523:ℕ):ℝ) / ((32:ℕ):ℝ))) ∧ E ^ (((1:ℕ):ℝ) / (((2523:ℕ):ℝ) / ((32:ℕ):ℝ))) ≤ 1.0013 := by
  have ex : ((1:ℕ):ℝ) / (((2523:ℕ):ℝ) / ((32:ℕ):ℝ)) = ((32:ℕ):ℝ) / ((2523:ℕ):ℝ) := by norm_num
  have hE : 0 < E := lt_of_lt_of_le (by norm_num) hE0
  rw [ex]
  constructor
  · calc (0.85:ℝ) ≤ (2.9e-6:ℝ) ^ (((32:ℕ):ℝ) / ((2523:ℕ):ℝ)) :=
          Lemmas.CurvesD2.le_rpow_div 32 2523 (by norm_num) (by norm_num) (by norm_num) (by norm_num)
      _ ≤ E ^ (((32:ℕ):ℝ) / ((2523:ℕ):ℝ)) := Real.rpow_le_rpow (by norm_num) hE0 (by norm_num)
  · rcases le_or_gt E 1 with h | h
    · exact (Real.rpow_le_one hE.le h (by norm_num)).trans (by norm_num)
    · have := rpow_one_add_le_one_add_mul_self (s := E - 1) (by linarith) (p := ((32:ℕ):ℝ) / ((2523:ℕ):ℝ))
        (by norm_num) (by norm_num)
      rw [add_sub_cancel] at this
      refine this.trans ?_
      have : ((32:ℕ):ℝ) / ((2523:ℕ):ℝ) * (E - 1) ≤ ((32:ℕ):ℝ) / ((2523:ℕ):ℝ) * 0.1 :=
        mul_le_mul_of_nonneg_left (by linarith) (by norm_num)
      norm_num at this ⊢; linarith

/-- middle stage of the forward curve: numerator, divider and their quotient, from a computed `t ≈ T = E^(1/m2)` -/
theorem pq_forward_ratio {t T r : ℝ} (hTlo : 0.85 ≤ T) (hThi : T ≤ 1.0013) (hr0 : 0 ≤ r) (hr : r ≤ 1e-5)
    (ht' : |t - T| ≤ 0.0132 * r + 3.1e-16) :
    M.rnd (M.rnd (M.rnd (((2413:ℕ):ℝ) / ((128:ℕ):ℝ)) - M.rnd (((299:ℕ):ℝ) / ((16:ℕ):ℝ))) * t) ≠ ((0:ℕ):ℝ) ∧
    0.1 ≤ (T - ((107:ℕ):ℝ) / ((128:ℕ):ℝ)) / (0.1640625 * T) ∧ (T - ((107:ℕ):ℝ) / ((128:ℕ):ℝ)) / (0.1640625 * T) ≤ 1.01 ∧
    |M.rnd (max (M.rnd (t - M.rnd (((107:ℕ):ℝ) / ((128:ℕ):ℝ)))) ((0:ℕ):ℝ) /
        M.rnd (M.rnd (M.rnd (((2413:ℕ):ℝ) / ((128:ℕ):ℝ)) - M.rnd (((299:ℕ):ℝ) / ((16:ℕ):ℝ))) * t))
      - (T - ((107:ℕ):ℝ) / ((128:ℕ):ℝ)) / (0.1640625 * T)|
      ≤ (1.11 * r + 4e-13) * ((T - ((107:ℕ):ℝ) / ((128:ℕ):ℝ)) / (0.1640625 * T)) := by
  have e16 : FP.eps = 1.2e-16 := rfl
  have hrr : r * r ≤ 1e-5 * r := mul_le_mul_of_nonneg_right hr hr0
  -- numerator
  have hc1 := lit_close M 107 128 (B := 1) (by norm_num) (by norm_num)
  have hn0 := sub_close M ht' hc1 (B := 1) (by rw [abs_le]; constructor <;> norm_num <;> linarith) (by norm_num)
  have hn : |max (M.rnd (t - M.rnd (((107:ℕ):ℝ) / ((128:ℕ):ℝ)))) ((0:ℕ):ℝ) - (T - ((107:ℕ):ℝ) / ((128:ℕ):ℝ))|
      ≤ 0.0132 * r + 5.6e-16 := by
    have hN : max (T - ((107:ℕ):ℝ) / ((128:ℕ):ℝ)) 0 = T - ((107:ℕ):ℝ) / ((128:ℕ):ℝ) :=
      max_eq_left (by norm_num; linarith)
    rw [Nat.cast_zero]
    conv_lhs => rw [← hN]
    refine (abs_max_sub_max_le_abs _ _ _).trans (hn0.trans ?_)
    rw [e16]; norm_num; linarith
  clear hn0 hc1
  generalize max (M.rnd (t - M.rnd (((107:ℕ):ℝ) / ((128:ℕ):ℝ)))) ((0:ℕ):ℝ) = num at *
  -- divider
  have hc2 := lit_close M 2413 128 (B := 19) (by norm_num) (by norm_num)
  have hc3 := lit_close M 299 16 (B := 19) (by norm_num) (by norm_num)
  have hk0 := sub_close M hc2 hc3 (B := 1) (by rw [abs_le]; constructor <;> norm_num) (by norm_num)
  have hk : |M.rnd (M.rnd (((2413:ℕ):ℝ) / ((128:ℕ):ℝ)) - M.rnd (((299:ℕ):ℝ) / ((16:ℕ):ℝ))) - 0.1640625| ≤ 4.7e-15 := by
    have hKv : ((2413:ℕ):ℝ) / ((128:ℕ):ℝ) - ((299:ℕ):ℝ) / ((16:ℕ):ℝ) = 0.1640625 := by norm_num
    rw [hKv] at hk0
    refine hk0.trans ?_; rw [e16]; norm_num
  clear hk0 hc2 hc3
  generalize M.rnd (M.rnd (((2413:ℕ):ℝ) / ((128:ℕ):ℝ)) - M.rnd (((299:ℕ):ℝ) / ((16:ℕ):ℝ))) = k at *
  have hdv0 := mul_close M hk ht' (Bx := 0.1640625) (By := 1.0013) (by norm_num)
    (by rw [abs_of_nonneg (by linarith)]; exact hThi) (by norm_num)
  have hdv : |M.rnd (k * t) - 0.1640625 * T| ≤ 0.0022 * r + 4.9e-15 := by
    refine hdv0.trans ?_
    rw [e16]; norm_num; linarith
  clear hdv0
  have hdvne : M.rnd (k * t) ≠ ((0:ℕ):ℝ) := by
    have := (abs_le.mp hdv).1
    intro h; rw [h] at this; push_cast at this; linarith
  refine ⟨hdvne, ?_⟩
  generalize M.rnd (k * t) = dv at *
  have hDpos : (0:ℝ) < 0.1640625 * T := by linarith
  have hDlo : (0.139:ℝ) ≤ |0.1640625 * T| := by rw [abs_of_pos hDpos]; linarith
  have hRhi : (T - ((107:ℕ):ℝ) / ((128:ℕ):ℝ)) / (0.1640625 * T) ≤ 1.01 := by
    rw [div_le_iff₀ hDpos]; norm_num; linarith
  have hRlo : 0.1 ≤ (T - ((107:ℕ):ℝ) / ((128:ℕ):ℝ)) / (0.1640625 * T) := by
    rw [le_div_iff₀ hDpos]; norm_num; linarith
  refine ⟨hRlo, hRhi, ?_⟩
  have hR0 := FpHexcone.div_close_q M hn hdv (m := 0.139) (Bq := 1.01) hDlo (by linarith)
    (by rw [abs_of_nonneg (by linarith)]; exact hRhi) (by norm_num)
  generalize (T - ((107:ℕ):ℝ) / ((128:ℕ):ℝ)) / (0.1640625 * T) = R at *
  have hden : (0.13899:ℝ) ≤ 0.139 - (0.0022 * r + 4.9e-15) := by linarith
  have hnum : 0.0132 * r + 5.6e-16 + (0.0022 * r + 4.9e-15) * 1.01 ≤ 0.015422 * r + 5.51e-15 := by linarith
  have hfr : (0.0132 * r + 5.6e-16 + (0.0022 * r + 4.9e-15) * 1.01) / (0.139 - (0.0022 * r + 4.9e-15))
      ≤ 0.11096 * r + 3.97e-14 := by
    calc _ ≤ (0.015422 * r + 5.51e-15) / (0.139 - (0.0022 * r + 4.9e-15)) :=
          div_le_div_of_nonneg_right hnum (by linarith)
      _ ≤ (0.015422 * r + 5.51e-15) / 0.13899 := div_le_div_of_nonneg_left (by linarith) (by norm_num) hden
      _ ≤ 0.11096 * r + 3.97e-14 := by rw [div_le_iff₀ (by norm_num)]; linarith
  refine hR0.trans ?_
  rw [e16]
  have h1 : (0.111 * r + 4e-14 : ℝ) ≤ (1.11 * r + 4e-13) * R := by
    have : (1.11 * r + 4e-13) * 0.1 ≤ (1.11 * r + 4e-13) * R := mul_le_mul_of_nonneg_left hRlo (by linarith)
    linarith
  refine le_trans ?_ h1
  linarith

/-- **the code's forward PQ curve in `RF M`** on `[2.9e-6, 1.1]`, the argument known with relative error `r ≤ 1e-5`:
relative error at most `7·r + 3e-12` against the exact-real model (whose value lies in `[1e-3, 10800]`).  The factor `7`
is the amplification `(1/m1)·(1/m2)·T/(T − c1)` (with slack) at the foot `E = 2.9e-6` of the range (`T = E^(1/m2) ≥ 0.85`,
`T − c1 ≥ 0.014`); it falls below `0.6` at `E = 1`. -/
theorem pq_forward_close (e : RF M) (E r : ℝ) (hE0 : 2.9e-6 ≤ E) (hE1 : E ≤ 1.1) (her : |e.val - E| ≤ r * E)
    (hr0 : 0 ≤ r) (hr : r ≤ 1e-5) :
    |(F64.pq_eotf e).val - F64.pq_eotf E| ≤ (7 * r + 3e-12) * F64.pq_eotf E ∧
    1e-3 ≤ F64.pq_eotf E ∧ F64.pq_eotf E ≤ 10800 := by
  have hE : 0 < E := lt_of_lt_of_le (by norm_num) hE0
  have e16 : FP.eps = 1.2e-16 := rfl
  have het := FP.eta_lt
  have hetp := FP.eta_pos
  have hrr : r * r ≤ 1e-5 * r := mul_le_mul_of_nonneg_right hr hr0
  rw [pq_forward_real E hE]
  simp only [F64.pq_eotf, apply_ite RF.val, FltRF.lit_val, FltRF.sub_val, FltRF.mul_val, FltRF.div_val,
    FltRF.pow_val, FltRF.max_val, FltRF.beq_eq, decide_eq_true_eq]
  rw [lit_int M 10000 (by norm_num), lit_int M 1 (by norm_num), lit_int M 0 (by norm_num)]
  -- exponents
  have x1 := inv_lit_close M 2523 32 (lo := 78) (hi := 79) (by norm_num) (by norm_num) (by norm_num) (by norm_num)
    (by rw [e16]; norm_num) (by norm_num)
  have x1' : |M.rnd (((1:ℕ):ℝ) / M.rnd (((2523:ℕ):ℝ) / ((32:ℕ):ℝ))) - ((1:ℕ):ℝ) / (((2523:ℕ):ℝ) / ((32:ℕ):ℝ))| ≤ 3.3e-18 := by
    refine x1.trans ?_; rw [e16]; norm_num
  have x2 := inv_lit_close M 1305 8192 (lo := 0.159) (hi := 0.16) (by norm_num) (by norm_num) (by norm_num) (by norm_num)
    (by rw [e16]; norm_num) (by norm_num)
  have x2' : |M.rnd (((1:ℕ):ℝ) / M.rnd (((1305:ℕ):ℝ) / ((8192:ℕ):ℝ))) - ((1:ℕ):ℝ) / (((1305:ℕ):ℝ) / ((8192:ℕ):ℝ))| ≤ 1.6e-15 := by
    refine x2.trans ?_; rw [e16]; norm_num
  clear x1 x2
  have hq1 : |M.rnd (((1:ℕ):ℝ) / M.rnd (((2523:ℕ):ℝ) / ((32:ℕ):ℝ)))| ≤ 0.013 := by
    have := abs_sub_abs_le_abs_sub (M.rnd (((1:ℕ):ℝ) / M.rnd (((2523:ℕ):ℝ) / ((32:ℕ):ℝ)))) (((1:ℕ):ℝ) / (((2523:ℕ):ℝ) / ((32:ℕ):ℝ)))
    rw [abs_of_nonneg (by positivity : (0:ℝ) ≤ ((1:ℕ):ℝ) / (((2523:ℕ):ℝ) / ((32:ℕ):ℝ)))] at this
    norm_num at this x1' ⊢; linarith
  have hq2 : |M.rnd (((1:ℕ):ℝ) / M.rnd (((1305:ℕ):ℝ) / ((8192:ℕ):ℝ)))| ≤ 6.28 := by
    have := abs_sub_abs_le_abs_sub (M.rnd (((1:ℕ):ℝ) / M.rnd (((1305:ℕ):ℝ) / ((8192:ℕ):ℝ)))) (((1:ℕ):ℝ) / (((1305:ℕ):ℝ) / ((8192:ℕ):ℝ)))
    rw [abs_of_nonneg (by positivity : (0:ℝ) ≤ ((1:ℕ):ℝ) / (((1305:ℕ):ℝ) / ((8192:ℕ):ℝ)))] at this
    norm_num at this x2' ⊢; linarith
  generalize M.rnd (((1:ℕ):ℝ) / M.rnd (((2523:ℕ):ℝ) / ((32:ℕ):ℝ))) = q1' at *
  generalize M.rnd (((1:ℕ):ℝ) / M.rnd (((1305:ℕ):ℝ) / ((8192:ℕ):ℝ))) = q2' at *
  -- T = E^(1/m2)
  obtain ⟨hTlo, hThi⟩ := pq_t_range hE0 hE1
  have hLg := abs_log_le_of_pow2 (x := E) 19 (le_trans (by norm_num) hE0) (hE1.trans (by norm_num))
  obtain ⟨-, ht⟩ := pow_pert M (σ := 0.0131 * r + 5e-17) hE her (by linarith) x1' hq1 hLg (by norm_num; linarith) (by linarith)
  generalize E ^ (((1:ℕ):ℝ) / (((2523:ℕ):ℝ) / ((32:ℕ):ℝ))) = T at *
  have ht' : |M.pow e.val q1' - T| ≤ 0.0132 * r + 3.1e-16 := by
    refine ht.trans ?_
    have hs : (0.0131 * r + 5e-17 + (0.0131 * r + 5e-17) ^ 2 + 2.5e-16) ≤ 0.01311 * r + 3.01e-16 := by nlinarith
    have : (0.0131 * r + 5e-17 + (0.0131 * r + 5e-17) ^ 2 + 2.5e-16) * T ≤ (0.01311 * r + 3.01e-16) * 1.0013 :=
      mul_le_mul hs hThi (by linarith) (by linarith)
    norm_num at het ⊢
    linarith
  clear ht
  generalize M.pow e.val q1' = t at *
  have hKv : ((2413:ℕ):ℝ) / ((128:ℕ):ℝ) - ((299:ℕ):ℝ) / ((16:ℕ):ℝ) = 0.1640625 := by norm_num
  have hN : max (T - ((107:ℕ):ℝ) / ((128:ℕ):ℝ)) 0 = T - ((107:ℕ):ℝ) / ((128:ℕ):ℝ) :=
    max_eq_left (by norm_num; linarith)
  rw [hKv, hN]
  obtain ⟨hdvne, hRlo, hRhi, hR'⟩ := pq_forward_ratio M hTlo hThi hr0 hr ht'
  rw [if_neg hdvne]
  generalize M.rnd (max (M.rnd (t - M.rnd (((107:ℕ):ℝ) / ((128:ℕ):ℝ)))) ((0:ℕ):ℝ) /
        M.rnd (M.rnd (M.rnd (((2413:ℕ):ℝ) / ((128:ℕ):ℝ)) - M.rnd (((299:ℕ):ℝ) / ((16:ℕ):ℝ))) * t)) = rat at *
  generalize (T - ((107:ℕ):ℝ) / ((128:ℕ):ℝ)) / (0.1640625 * T) = R at *
  have hRp : 0 < R := by linarith
  have hLg2 := abs_log_le_of_pow2 (x := R) 4 (le_trans (by norm_num) hRlo) (hRhi.trans (by norm_num))
  obtain ⟨hrp, hp⟩ := pow_pert M (σ := 6.98 * r + 2.52e-12) hRp hR' (by linarith) x2' hq2 hLg2 (by nlinarith) (by linarith)
  -- bounds of the exact power
  have hq7 : ((1:ℕ):ℝ) / (((1305:ℕ):ℝ) / ((8192:ℕ):ℝ)) ≤ ((7:ℕ):ℝ) := by norm_num
  have hq0 : (0:ℝ) ≤ ((1:ℕ):ℝ) / (((1305:ℕ):ℝ) / ((8192:ℕ):ℝ)) := by norm_num
  have hPlo : (1e-7:ℝ) ≤ R ^ (((1:ℕ):ℝ) / (((1305:ℕ):ℝ) / ((8192:ℕ):ℝ))) := by
    rcases le_or_gt R 1 with h | h
    · calc (1e-7:ℝ) = (0.1:ℝ) ^ (7:ℕ) := by norm_num
        _ ≤ R ^ (7:ℕ) := pow_le_pow_left₀ (by norm_num) hRlo 7
        _ = R ^ ((7:ℕ):ℝ) := (Real.rpow_natCast R 7).symm
        _ ≤ _ := Real.rpow_le_rpow_of_exponent_ge hRp h hq7
    · exact le_trans (by norm_num) (Real.one_le_rpow h.le hq0)
  have hPhi : R ^ (((1:ℕ):ℝ) / (((1305:ℕ):ℝ) / ((8192:ℕ):ℝ))) ≤ 1.08 := by
    rcases le_or_gt R 1 with h | h
    · exact (Real.rpow_le_one hRp.le h hq0).trans (by norm_num)
    · calc _ ≤ R ^ ((7:ℕ):ℝ) := Real.rpow_le_rpow_of_exponent_le h.le hq7
        _ = R ^ (7:ℕ) := Real.rpow_natCast R 7
        _ ≤ (1.01:ℝ) ^ (7:ℕ) := pow_le_pow_left₀ hRp.le hRhi 7
        _ ≤ 1.08 := by norm_num
  generalize R ^ (((1:ℕ):ℝ) / (((1305:ℕ):ℝ) / ((8192:ℕ):ℝ))) = P at *
  have hp' : |M.pow rat q2' - P| ≤ (6.981 * r + 2.5208e-12) * P := by
    refine hp.trans ?_
    have hs : (6.98 * r + 2.52e-12 + (6.98 * r + 2.52e-12) ^ 2 + 2.5e-16) ≤ 6.9805 * r + 2.5207e-12 := by nlinarith
    have := mul_le_mul_of_nonneg_right hs (by linarith : (0:ℝ) ≤ P)
    norm_num at het ⊢
    nlinarith
  clear hp
  generalize M.pow rat q2' = p at *
  refine ⟨?_, by push_cast; linarith, by push_cast; linarith⟩
  obtain ⟨hp1, hp2⟩ := abs_le.mp hp'
  have hsm : (6.981 * r + 2.5208e-12) * P ≤ 1e-4 * P := mul_le_mul_of_nonneg_right (by linarith) (by linarith)
  have hpabs : |((10000:ℕ):ℝ) * p| ≤ 10001 * P := by
    rw [abs_le]; push_cast; constructor <;> linarith
  have hrn := rnd_abs M hpabs (by linarith)
  have tri : M.rnd (((10000:ℕ):ℝ) * p) - ((10000:ℕ):ℝ) * P
      = (M.rnd (((10000:ℕ):ℝ) * p) - ((10000:ℕ):ℝ) * p) + ((10000:ℕ):ℝ) * (p - P) := by ring
  rw [tri]
  refine (abs_add_le _ _).trans ?_
  rw [abs_mul, abs_of_nonneg (by positivity : (0:ℝ) ≤ ((10000:ℕ):ℝ))]
  rw [e16] at hrn
  push_cast at hrn ⊢
  have : (10000:ℝ) * |p - P| ≤ 10000 * ((6.981 * r + 2.5208e-12) * P) := mul_le_mul_of_nonneg_left hp' (by norm_num)
  nlinarith


end fp

section rec2100
open FpErr FpLin Gen Lemmas.Matrix Lemmas.XyzDispatch Lemmas.FpXyz
variable (M : FPModel)

/-- **black**: `pq_eotf 0` in `RF M` lies in `[0, 1e-230]` (it is `0` when the model's `powf(0, ·)` is exactly `0`; the error
bound of `powf` alone allows `powf(0, y) ∈ [0, 2^-1075]`), the exact-real value is `0` -/
theorem pq_forward_zero (e : RF M) (he : e.val = 0) :
    0 ≤ (F64.pq_eotf e).val ∧ (F64.pq_eotf e).val ≤ 1e-230 := by
  have e16 : FP.eps = 1.2e-16 := rfl
  have het := FP.eta_lt
  have hetp := FP.eta_pos
  have hu := FP.u_lt
  have hup := FP.u_pos
  simp only [F64.pq_eotf, apply_ite RF.val, FltRF.lit_val, FltRF.sub_val, FltRF.mul_val, FltRF.div_val,
    FltRF.pow_val, FltRF.max_val, FltRF.beq_eq, decide_eq_true_eq, he]
  rw [lit_int M 10000 (by norm_num), lit_int M 1 (by norm_num), lit_int M 0 (by norm_num)]
  have x1 := inv_lit_close M 2523 32 (lo := 78) (hi := 79) (by norm_num) (by norm_num) (by norm_num) (by norm_num)
    (by rw [e16]; norm_num) (by norm_num)
  have hq1 : 0 < M.rnd (((1:ℕ):ℝ) / M.rnd (((2523:ℕ):ℝ) / ((32:ℕ):ℝ))) := by
    have := (abs_le.mp (x1.trans (by rw [e16]; norm_num : _ ≤ (3.3e-18:ℝ)))).1
    norm_num at this ⊢; linarith
  have x2 := inv_lit_close M 1305 8192 (lo := 0.159) (hi := 0.16) (by norm_num) (by norm_num) (by norm_num) (by norm_num)
    (by rw [e16]; norm_num) (by norm_num)
  have hq2 : 0 < M.rnd (((1:ℕ):ℝ) / M.rnd (((1305:ℕ):ℝ) / ((8192:ℕ):ℝ))) := by
    have := (abs_le.mp (x2.trans (by rw [e16]; norm_num : _ ≤ (1.6e-15:ℝ)))).1
    norm_num at this ⊢; linarith
  clear x1 x2
  generalize M.rnd (((1:ℕ):ℝ) / M.rnd (((2523:ℕ):ℝ) / ((32:ℕ):ℝ))) = q1' at *
  generalize M.rnd (((1:ℕ):ℝ) / M.rnd (((1305:ℕ):ℝ) / ((8192:ℕ):ℝ))) = q2' at *
  have pz : ∀ q : ℝ, 0 < q → 0 ≤ M.pow 0 q ∧ M.pow 0 q ≤ FP.eta := by
    intro q hq
    have pe := M.pow_err 0 q le_rfl
    rw [Real.zero_rpow hq.ne', abs_zero, mul_zero, zero_add, sub_zero] at pe
    exact ⟨M.pow_nonneg 0 q le_rfl, (le_abs_self _).trans pe⟩
  obtain ⟨t0, t1⟩ := pz q1' hq1
  generalize M.pow 0 q1' = t at *
  have hc1 := lit_close M 107 128 (B := 1) (by norm_num) (by norm_num)
  have hneg : M.rnd (t - M.rnd (((107:ℕ):ℝ) / ((128:ℕ):ℝ))) ≤ 0 := by
    apply rnd_nonpos
    have := (abs_le.mp hc1).1
    rw [e16] at this
    norm_num at this het ⊢; linarith
  rw [Nat.cast_zero, max_eq_right hneg, zero_div, rnd_zero]
  split_ifs with h
  · norm_num
  · obtain ⟨p0, p1⟩ := pz q2' hq2
    generalize M.pow 0 q2' = p at *
    refine ⟨rnd_nonneg M (by positivity), ?_⟩
    have := (abs_le.mp (M.rnd_err (((10000:ℕ):ℝ) * p))).2
    rw [abs_of_nonneg (by positivity)] at this
    push_cast at this ⊢
    have h3 : FP.u * (10000 * p) ≤ 1 * (10000 * p) := mul_le_mul_of_nonneg_right (by linarith) (by positivity)
    norm_num at het ⊢
    linarith

theorem pq_forward_real_zero : F64.pq_eotf (0 : ℝ) = 0 := by
  simp only [F64.pq_eotf, FltReal.beq_eq, FltReal.lit_eq, FltReal.pow_eq, FltReal.max_eq, decide_eq_true_eq]
  norm_num

/-! ## Rec.2100 conversions -/

theorem rec2100_from_xyz_fp (x : Xyz (RF M)) :
    Rec2100.from_Xyz x =
      ⟨F64.pq_eotf (dotF' M (x.x, x.y, x.z) C.rec2020_XR), F64.pq_eotf (dotF' M (x.x, x.y, x.z) C.XG),
       F64.pq_eotf (dotF' M (x.x, x.y, x.z) C.XB)⟩ := rfl

theorem xyz_from_rec2100_fp (s : Rec2100 (RF M)) :
    Xyz.from_Rec2100 s =
      ⟨dotF' M (F64.pq_inverse_eotf s.r, F64.pq_inverse_eotf s.g, F64.pq_inverse_eotf s.b) C.XX,
       dotF' M (F64.pq_inverse_eotf s.r, F64.pq_inverse_eotf s.g, F64.pq_inverse_eotf s.b) C.XY,
       dotF' M (F64.pq_inverse_eotf s.r, F64.pq_inverse_eotf s.g, F64.pq_inverse_eotf s.b) C.XZ⟩ := rfl

/-- the computed BT.2020 linear components of a non-black 8-bit colour against the exact ones: absolute `2.62e-12`,
the exact ones in `[3e-6, 1.001]` -/
theorem rec2100_lin_close (c : Rgb) (hr : c.r ≤ 255) (hg : c.g ≤ 255) (hb : c.b ≤ 255)
    (hnb : ¬ (c.r = 0 ∧ c.g = 0 ∧ c.b = 0)) :
    (|(dotF' M (xyzF M .D65 c) C.rec2020_XR).val - dot C.rec2020_XR (mulVec (fwd .D65) (lin .D65 c))| ≤ 2.62e-12 ∧
      3e-6 ≤ dot C.rec2020_XR (mulVec (fwd .D65) (lin .D65 c)) ∧ dot C.rec2020_XR (mulVec (fwd .D65) (lin .D65 c)) ≤ 1.001) ∧
    (|(dotF' M (xyzF M .D65 c) C.XG).val - dot C.XG (mulVec (fwd .D65) (lin .D65 c))| ≤ 2.62e-12 ∧
      3e-6 ≤ dot C.XG (mulVec (fwd .D65) (lin .D65 c)) ∧ dot C.XG (mulVec (fwd .D65) (lin .D65 c)) ≤ 1.001) ∧
    (|(dotF' M (xyzF M .D65 c) C.XB).val - dot C.XB (mulVec (fwd .D65) (lin .D65 c))| ≤ 2.62e-12 ∧
      3e-6 ≤ dot C.XB (mulVec (fwd .D65) (lin .D65 c)) ∧ dot C.XB (mulVec (fwd .D65) (lin .D65 c)) ≤ 1.001) := by
  obtain ⟨f1, f2, f3⟩ := xyz_fp_close M .D65 c hr hg hb
  have b1 := xyz_range .D65 c hr hg hb 0
  have b2 := xyz_range .D65 c hr hg hb 1
  have b3 := xyz_range .D65 c hr hg hb 2
  simp only [V3.get] at b1 b2 b3
  obtain ⟨r1, r2, r3⟩ := FpEnc.rec2020_rows M
  have q1 := dot3_close' M r1 (v := xyzF M .D65 c) (x := mulVec (fwd .D65) (lin .D65 c)) f1 f2 f3 b1 b2 b3 (by norm_num)
  have q2 := dot3_close' M r2 (v := xyzF M .D65 c) (x := mulVec (fwd .D65) (lin .D65 c)) f1 f2 f3 b1 b2 b3 (by norm_num)
  have q3 := dot3_close' M r3 (v := xyzF M .D65 c) (x := mulVec (fwd .D65) (lin .D65 c)) f1 f2 f3 b1 b2 b3 (by norm_num)
  have n1 := dec_level_nonneg .D65 c.r
  have n2 := dec_level_nonneg .D65 c.g
  have n3 := dec_level_nonneg .D65 c.b
  obtain ⟨g1, g2, g3⟩ := Lemmas.FpDefined.rec2020_lin_lower (lin .D65 c) n1 n2 n3
  obtain ⟨u1, u2, u3⟩ := FpEnc.rec2020_lin_range (lin .D65 c) n1 (dec_level_le_one .D65 hr) n2 (dec_level_le_one .D65 hg)
    n3 (dec_level_le_one .D65 hb)
  have hsum : 3 / 10 ^ 4 ≤ (lin .D65 c).1 + (lin .D65 c).2.1 + (lin .D65 c).2.2 := by
    show 3 / 10 ^ 4 ≤ dec .D65 ((c.r : ℝ) / 255) + dec .D65 ((c.g : ℝ) / 255) + dec .D65 ((c.b : ℝ) / 255)
    have : 1 ≤ c.r ∨ 1 ≤ c.g ∨ 1 ≤ c.b := by omega
    rcases this with h | h | h
    · have := Lemmas.FpDefined.dec_level_ge_d65 c.r h; linarith
    · have := Lemmas.FpDefined.dec_level_ge_d65 c.g h; linarith
    · have := Lemmas.FpDefined.dec_level_ge_d65 c.b h; linarith
  refine ⟨⟨q1.trans (by norm_num), ?_, u1.2⟩, ⟨q2.trans (by norm_num), ?_, u2.2⟩, ⟨q3.trans (by norm_num), ?_, u3.2⟩⟩ <;>
    norm_num at * <;> linarith


end rec2100

/-! ## magnitude-aware (relative) analysis of the path 8-bit colour → BT.2020 linear components -/
section relative
open FpErr Gen Lemmas.Matrix Lemmas.XyzDispatch Lemmas.FpXyz Lemmas.FpOkSharp
variable (M : FPModel)

/-- **sRGB decoder on a byte level, RELATIVE error**: `3.4e-14` -/
theorem srgb_dec_rel (n : ℕ) (hn : n ≤ 255) (t : RF M) (ht : t.val = M.rnd ((n:ℝ)/255)) :
    |(F64.compute_srgb_gamma_expanded t).val - F64.compute_srgb_gamma_expanded ((n:ℝ)/255)|
      ≤ 3.4e-14 * F64.compute_srgb_gamma_expanded ((n:ℝ)/255) := by
  have hn' : (n:ℝ) ≤ 255 := by exact_mod_cast hn
  have hn0 : (0:ℝ) ≤ n := Nat.cast_nonneg n
  have e16 : FP.eps = 1.2e-16 := rfl
  have bx : |(n:ℝ)/255| ≤ 1 := by rw [abs_of_nonneg (by positivity)]; linarith
  have et := rnd_abs M bx (by norm_num)
  rw [← ht] at et
  rcases Nat.eq_zero_or_pos n with h0 | hpos
  · subst h0
    have ht0 : t.val = 0 := by rw [ht]; simp [rnd_zero]
    have hc : (0:ℝ) ≤ M.rnd (((809:ℕ):ℝ) / ((20000:ℕ):ℝ)) := rnd_nonneg M (by positivity)
    have e0 : ((0:ℕ):ℝ)/255 = 0 := by simp
    rw [e0, Lemmas.Curves.srgb_dec_zero]
    simp only [F64.compute_srgb_gamma_expanded, FltRF.le_eq, FltRF.lit_val, ht0, hc, decide_true,
      if_true, FltRF.div_val, zero_div, rnd_zero]
    norm_num
  have h1n : (1:ℝ) ≤ n := by exact_mod_cast hpos
  by_cases h10 : n ≤ 10
  · have h10' : (n:ℝ) ≤ 10 := by exact_mod_cast h10
    have hc : t.val ≤ M.rnd (((809:ℕ):ℝ) / ((20000:ℕ):ℝ)) := by
      rw [ht]; apply M.rnd_mono; push_cast; linarith
    rw [Lemmas.Curves.srgb_dec_lin (by linarith)]
    simp only [F64.compute_srgb_gamma_expanded, FltRF.le_eq, FltRF.lit_val, hc, decide_true, if_true, FltRF.div_val]
    have hy0 : (1:ℝ)/255 ≤ (n:ℝ)/255 := div_le_div_of_nonneg_right h1n (by norm_num)
    have et' : |t.val - (n:ℝ)/255| ≤ FP.eps * ((n:ℝ)/255) := by
      rw [ht]; exact rnd_abs M (by rw [abs_of_nonneg (by positivity)]) (le_trans (by norm_num) hy0)
    have l1 := lit_close M 323 25 (B := 13) (by norm_num) (by norm_num)
    have e : (n:ℝ) / 255 / 12.92 = (n:ℝ) / 255 / (((323:ℕ):ℝ) / ((25:ℕ):ℝ)) := by norm_num
    rw [e]
    have hq0 : (1e-200:ℝ) ≤ (n:ℝ) / 255 / (((323:ℕ):ℝ) / ((25:ℕ):ℝ)) := by
      rw [le_div_iff₀ (by norm_num)]; norm_num at hy0 ⊢; linarith
    have d1 := FpHexcone.div_close_q M et' l1 (m := 12.9) (Bq := (n:ℝ) / 255 / (((323:ℕ):ℝ) / ((25:ℕ):ℝ)))
      (by rw [abs_of_nonneg (by positivity)]; norm_num) (by rw [e16]; norm_num)
      (by rw [abs_of_nonneg (by positivity)]) hq0
    refine d1.trans ?_
    have hy : (n:ℝ)/255 = 12.92 * ((n:ℝ) / 255 / (((323:ℕ):ℝ) / ((25:ℕ):ℝ))) := by
      push_cast; field_simp; ring
    generalize (n:ℝ) / 255 / (((323:ℕ):ℝ) / ((25:ℕ):ℝ)) = L at *
    rw [hy, e16]
    have hL : 0 ≤ L := le_trans (by norm_num) hq0
    have hfr : (1.2e-16 * (12.92 * L) + 1.2e-16 * 13 * L) / (12.9 - 1.2e-16 * 13) ≤ 3e-16 * L := by
      rw [div_le_iff₀ (by norm_num)]; nlinarith
    nlinarith
  · rw [not_le] at h10
    have h11 : (11:ℝ) ≤ n := by exact_mod_cast h10
    have hlv : (11:ℝ)/255 ≤ (n:ℝ)/255 := by apply div_le_div_of_nonneg_right h11 (by norm_num)
    have l0 := lit_close M 809 20000 (B := 1) (by norm_num) (by norm_num)
    have hc : ¬ t.val ≤ M.rnd (((809:ℕ):ℝ) / ((20000:ℕ):ℝ)) := by
      rw [not_le]
      rw [abs_le] at l0 et
      unfold FP.eps at *
      push_cast at *
      linarith [l0.2, et.1]
    rw [Lemmas.Curves.srgb_dec_pow (by linarith)]
    simp only [F64.compute_srgb_gamma_expanded, FltRF.le_eq, FltRF.lit_val, hc, decide_false, if_false, FltRF.div_val, FltRF.add_val, FltRF.pow_val, Bool.false_eq_true]
    have l1 := lit_close M 11 200 (B := 1) (by norm_num) (by norm_num)
    have l2 := lit_close M 211 200 (B := 2) (by norm_num) (by norm_num)
    have l3 := lit_close M 12 5 (B := 3) (by norm_num) (by norm_num)
    have bs : |(n:ℝ)/255 + ((11:ℕ):ℝ)/((200:ℕ):ℝ)| ≤ 2 := by
      rw [abs_of_nonneg (by positivity)]; push_cast; linarith [abs_le.mp bx]
    have a1 := add_close M et l1 bs (by norm_num)
    have d1 := div_close M a1 l2 bs (m := 1) (Bq := 1) (by rw [abs_of_nonneg (by positivity)]; norm_num)
      (by norm_num [FP.eps])
      (by rw [abs_div, abs_of_nonneg (by positivity : (0:ℝ) ≤ (n:ℝ)/255 + ((11:ℕ):ℝ)/((200:ℕ):ℝ)),
            abs_of_nonneg (by positivity : (0:ℝ) ≤ ((211:ℕ):ℝ)/((200:ℕ):ℝ)), div_le_one (by positivity)]
          push_cast; linarith [abs_le.mp bx]) (by norm_num)
    have ex : ((n:ℝ)/255 + 55e-3) / 1.055 = ((n:ℝ)/255 + ((11:ℕ):ℝ)/((200:ℕ):ℝ)) / (((211:ℕ):ℝ)/((200:ℕ):ℝ)) := by
      norm_num
    have ey : (2.4:ℝ) = ((12:ℕ):ℝ)/((5:ℕ):ℝ) := by norm_num
    rw [ex, ey]
    set X : ℝ := ((n:ℝ)/255 + ((11:ℕ):ℝ)/((200:ℕ):ℝ)) / (((211:ℕ):ℝ)/((200:ℕ):ℝ)) with hX
    have hXlo : 0.093 ≤ X := by
      rw [hX, le_div_iff₀ (by positivity)]; push_cast; linarith
    have hXhi : X ≤ 1 := by
      rw [hX, div_le_one (by positivity)]; push_cast; linarith [abs_le.mp bx]
    have d1' : |M.rnd (M.rnd (t.val + M.rnd (((11:ℕ):ℝ) / ((200:ℕ):ℝ))) / M.rnd (((211:ℕ):ℝ) / ((200:ℕ):ℝ))) - X| ≤ 1.3e-14 * X := by
      refine d1.trans ?_
      have : (1.2e-15:ℝ) ≤ 1.3e-14 * X := by nlinarith
      refine le_trans ?_ this
      rw [e16]; norm_num
    have hq' : |M.rnd (((12:ℕ):ℝ) / ((5:ℕ):ℝ))| ≤ 2.41 := by
      have := abs_sub_abs_le_abs_sub (M.rnd (((12:ℕ):ℝ) / ((5:ℕ):ℝ))) (((12:ℕ):ℝ) / ((5:ℕ):ℝ))
      rw [abs_of_nonneg (by positivity : (0:ℝ) ≤ ((12:ℕ):ℝ) / ((5:ℕ):ℝ))] at this
      rw [e16] at l3
      norm_num at this l3 ⊢; linarith
    have hLg := abs_log_le_of_pow2 (x := X) 4 (le_trans (by norm_num) hXlo) (hXhi.trans (by norm_num))
    have hXp : 0 < X := by linarith
    obtain ⟨-, hp⟩ := pow_pert M (σ := 3.3e-14) hXp d1' (by norm_num) l3 hq' hLg (by rw [e16]; norm_num) (by norm_num)
    refine hp.trans ?_
    have hlow : (8e-4:ℝ) ≤ X ^ (((12:ℕ):ℝ) / ((5:ℕ):ℝ)) := by
      calc (8e-4:ℝ) ≤ (0.093:ℝ) ^ (3:ℕ) := by norm_num
        _ ≤ X ^ (3:ℕ) := pow_le_pow_left₀ (by norm_num) hXlo 3
        _ = X ^ ((3:ℕ):ℝ) := (Real.rpow_natCast X 3).symm
        _ ≤ _ := Real.rpow_le_rpow_of_exponent_ge hXp hXhi (by norm_num)
    have het := FP.eta_lt
    norm_num at het ⊢
    nlinarith

theorem dot3E_scale (K1 K2 K3 t e X : ℝ) : dot3E K1 K2 K3 (t * e) (t * X) = t * dot3E K1 K2 K3 e X := by
  unfold dot3E mulE; ring

/-- the real D65 XYZ of a non-negative linear triple has components of magnitude at most `1.09·(l₁+l₂+l₃)` -/
theorem fwd65_range_sum (l : V3) (h0 : 0 ≤ l.1) (h1 : 0 ≤ l.2.1) (h2 : 0 ≤ l.2.2) :
    |(mulVec (fwd .D65) l).1| ≤ (l.1 + l.2.1 + l.2.2) * 1.09 ∧ |(mulVec (fwd .D65) l).2.1| ≤ (l.1 + l.2.1 + l.2.2) * 1.09 ∧
    |(mulVec (fwd .D65) l).2.2| ≤ (l.1 + l.2.1 + l.2.2) * 1.09 := by
  obtain ⟨l0, l1, l2⟩ := l
  simp only at h0 h1 h2
  simp only [Lemmas.Matrix.dot, Lemmas.Matrix.mulVec, fwd, C.X65, C.Y65, C.Z65, FltReal.lit_eq]
  refine ⟨?_, ?_, ?_⟩ <;> rw [abs_le] <;> constructor <;> norm_num <;> linarith

/-- **BT.2020 linear components of a non-black 8-bit colour, magnitude-aware**: the computed component is within
`9.1e-14·S` of the exact one, `S` the sum of the three linear sRGB components (the exact component is `≥ 0.01·S`) -/
theorem lin2020_rel (c : Rgb) (hr : c.r ≤ 255) (hg : c.g ≤ 255) (hb : c.b ≤ 255)
    (hnb : ¬ (c.r = 0 ∧ c.g = 0 ∧ c.b = 0)) :
    |(dotF' M (xyzF M .D65 c) C.rec2020_XR).val - dot C.rec2020_XR (mulVec (fwd .D65) (lin .D65 c))|
      ≤ ((lin .D65 c).1 + (lin .D65 c).2.1 + (lin .D65 c).2.2) * 9.1e-14 ∧
    |(dotF' M (xyzF M .D65 c) C.XG).val - dot C.XG (mulVec (fwd .D65) (lin .D65 c))|
      ≤ ((lin .D65 c).1 + (lin .D65 c).2.1 + (lin .D65 c).2.2) * 9.1e-14 ∧
    |(dotF' M (xyzF M .D65 c) C.XB).val - dot C.XB (mulVec (fwd .D65) (lin .D65 c))|
      ≤ ((lin .D65 c).1 + (lin .D65 c).2.1 + (lin .D65 c).2.2) * 9.1e-14 := by
  have n1 := dec_level_nonneg .D65 c.r
  have n2 := dec_level_nonneg .D65 c.g
  have n3 := dec_level_nonneg .D65 c.b
  have hsum : 3 / 10 ^ 4 ≤ (lin .D65 c).1 + (lin .D65 c).2.1 + (lin .D65 c).2.2 := by
    show 3 / 10 ^ 4 ≤ dec .D65 ((c.r : ℝ) / 255) + dec .D65 ((c.g : ℝ) / 255) + dec .D65 ((c.b : ℝ) / 255)
    have : 1 ≤ c.r ∨ 1 ≤ c.g ∨ 1 ≤ c.b := by omega
    rcases this with h | h | h
    · have := Lemmas.FpDefined.dec_level_ge_d65 c.r h; linarith
    · have := Lemmas.FpDefined.dec_level_ge_d65 c.g h; linarith
    · have := Lemmas.FpDefined.dec_level_ge_d65 c.b h; linarith
  have d1 : |(linF M .D65 c).1.val - (lin .D65 c).1| ≤ (lin .D65 c).1 * 3.4e-14 := by
    rw [mul_comm]; exact srgb_dec_rel M c.r hr _ (lvlF_val M c.r)
  have d2 : |(linF M .D65 c).2.1.val - (lin .D65 c).2.1| ≤ (lin .D65 c).2.1 * 3.4e-14 := by
    rw [mul_comm]; exact srgb_dec_rel M c.g hg _ (lvlF_val M c.g)
  have d3 : |(linF M .D65 c).2.2.val - (lin .D65 c).2.2| ≤ (lin .D65 c).2.2 * 3.4e-14 := by
    rw [mul_comm]; exact srgb_dec_rel M c.b hb _ (lvlF_val M c.b)
  have m1 : (lin .D65 c).1 = dec .D65 ((c.r : ℝ) / 255) := rfl
  have m2 : (lin .D65 c).2.1 = dec .D65 ((c.g : ℝ) / 255) := rfl
  have m3 : (lin .D65 c).2.2 = dec .D65 ((c.b : ℝ) / 255) := rfl
  rw [← m1] at n1; rw [← m2] at n2; rw [← m3] at n3
  obtain ⟨b1, b2, b3⟩ := fwd65_range_sum (lin .D65 c) n1 n2 n3
  generalize hS : (lin .D65 c).1 + (lin .D65 c).2.1 + (lin .D65 c).2.2 = S at *
  have hS0 : 0 ≤ S := by linarith
  have d1' : |(linF M .D65 c).1.val - (lin .D65 c).1| ≤ S * 3.4e-14 :=
    d1.trans (mul_le_mul_of_nonneg_right (by linarith) (by norm_num))
  have d2' : |(linF M .D65 c).2.1.val - (lin .D65 c).2.1| ≤ S * 3.4e-14 :=
    d2.trans (mul_le_mul_of_nonneg_right (by linarith) (by norm_num))
  have d3' : |(linF M .D65 c).2.2.val - (lin .D65 c).2.2| ≤ S * 3.4e-14 :=
    d3.trans (mul_le_mul_of_nonneg_right (by linarith) (by norm_num))
  have c1 : |(lin .D65 c).1| ≤ S * 1 := by rw [abs_of_nonneg n1]; linarith
  have c2 : |(lin .D65 c).2.1| ≤ S * 1 := by rw [abs_of_nonneg n2]; linarith
  have c3 : |(lin .D65 c).2.2| ≤ S * 1 := by rw [abs_of_nonneg n3]; linarith
  have e16 : FP.eps = 1.2e-16 := rfl
  obtain ⟨r1, r2, r3⟩ := fwd65_rows M
  have hSX : (1e-100:ℝ) ≤ S * 1 := by norm_num at hsum ⊢; linarith
  have x1 := dot3w M r1.1 r1.2.1 r1.2.2 (v := linF M .D65 c) (x := lin .D65 c) d1' d2' d3' c1 c2 c3 hSX
  have x2 := dot3w M r2.1 r2.2.1 r2.2.2 (v := linF M .D65 c) (x := lin .D65 c) d1' d2' d3' c1 c2 c3 hSX
  have x3 := dot3w M r3.1 r3.2.1 r3.2.2 (v := linF M .D65 c) (x := lin .D65 c) d1' d2' d3' c1 c2 c3 hSX
  rw [dot3E_scale] at x1 x2 x3
  have k1 : dot3E 0.4125 0.3576 0.1805 3.4e-14 1 ≤ 3.8e-14 := by simp only [dot3E, mulE, e16]; norm_num
  have k2 : dot3E 0.2127 0.7152 0.0722 3.4e-14 1 ≤ 3.8e-14 := by simp only [dot3E, mulE, e16]; norm_num
  have k3 : dot3E 0.0194 0.1192 0.9504 3.4e-14 1 ≤ 3.8e-14 := by simp only [dot3E, mulE, e16]; norm_num
  have y1 : |(xyzF M .D65 c).1.val - (mulVec (fwd .D65) (lin .D65 c)).1| ≤ S * 3.8e-14 :=
    x1.trans (mul_le_mul_of_nonneg_left k1 hS0)
  have y2 : |(xyzF M .D65 c).2.1.val - (mulVec (fwd .D65) (lin .D65 c)).2.1| ≤ S * 3.8e-14 :=
    x2.trans (mul_le_mul_of_nonneg_left k2 hS0)
  have y3 : |(xyzF M .D65 c).2.2.val - (mulVec (fwd .D65) (lin .D65 c)).2.2| ≤ S * 3.8e-14 :=
    x3.trans (mul_le_mul_of_nonneg_left k3 hS0)
  obtain ⟨w1, w2, w3⟩ := rec2020_rows_w M
  have hSX' : (1e-100:ℝ) ≤ S * 1.09 := by norm_num at hsum ⊢; linarith
  have z1 := dot3w' M w1.1 w1.2.1 w1.2.2 y1 y2 y3 b1 b2 b3 hSX'
  have z2 := dot3w' M w2.1 w2.2.1 w2.2.2 y1 y2 y3 b1 b2 b3 hSX'
  have z3 := dot3w' M w3.1 w3.2.1 w3.2.2 y1 y2 y3 b1 b2 b3 hSX'
  rw [dot3E_scale] at z1 z2 z3
  have j1 : dot3E 1.7167 0.3557 0.2534 3.8e-14 1.09 ≤ 9.1e-14 := by simp only [dot3E, mulE, e16]; norm_num
  have j2 : dot3E 0.6667 1.6165 0.0158 3.8e-14 1.09 ≤ 9.1e-14 := by simp only [dot3E, mulE, e16]; norm_num
  have j3 : dot3E 0.0177 0.0428 0.9422 3.8e-14 1.09 ≤ 9.1e-14 := by simp only [dot3E, mulE, e16]; norm_num
  exact ⟨z1.trans (mul_le_mul_of_nonneg_left j1 hS0), z2.trans (mul_le_mul_of_nonneg_left j2 hS0),
    z3.trans (mul_le_mul_of_nonneg_left j3 hS0)⟩


/-- the computed BT.2020 linear components of a non-black 8-bit colour: RELATIVE error `9.1e-12`, exact value in `[3e-6, 1.001]` -/
theorem rec2100_lin_rel (c : Rgb) (hr : c.r ≤ 255) (hg : c.g ≤ 255) (hb : c.b ≤ 255)
    (hnb : ¬ (c.r = 0 ∧ c.g = 0 ∧ c.b = 0)) :
    (|(dotF' M (xyzF M .D65 c) C.rec2020_XR).val - dot C.rec2020_XR (mulVec (fwd .D65) (lin .D65 c))|
        ≤ 9.1e-12 * dot C.rec2020_XR (mulVec (fwd .D65) (lin .D65 c)) ∧
      3e-6 ≤ dot C.rec2020_XR (mulVec (fwd .D65) (lin .D65 c)) ∧ dot C.rec2020_XR (mulVec (fwd .D65) (lin .D65 c)) ≤ 1.001) ∧
    (|(dotF' M (xyzF M .D65 c) C.XG).val - dot C.XG (mulVec (fwd .D65) (lin .D65 c))|
        ≤ 9.1e-12 * dot C.XG (mulVec (fwd .D65) (lin .D65 c)) ∧
      3e-6 ≤ dot C.XG (mulVec (fwd .D65) (lin .D65 c)) ∧ dot C.XG (mulVec (fwd .D65) (lin .D65 c)) ≤ 1.001) ∧
    (|(dotF' M (xyzF M .D65 c) C.XB).val - dot C.XB (mulVec (fwd .D65) (lin .D65 c))|
        ≤ 9.1e-12 * dot C.XB (mulVec (fwd .D65) (lin .D65 c)) ∧
      3e-6 ≤ dot C.XB (mulVec (fwd .D65) (lin .D65 c)) ∧ dot C.XB (mulVec (fwd .D65) (lin .D65 c)) ≤ 1.001) := by
  obtain ⟨⟨-, l1, u1⟩, ⟨-, l2, u2⟩, ⟨-, l3, u3⟩⟩ := rec2100_lin_close M c hr hg hb hnb
  obtain ⟨a1, a2, a3⟩ := lin2020_rel M c hr hg hb hnb
  obtain ⟨g1, g2, g3⟩ := Lemmas.FpDefined.rec2020_lin_lower (lin .D65 c) (dec_level_nonneg .D65 c.r)
    (dec_level_nonneg .D65 c.g) (dec_level_nonneg .D65 c.b)
  refine ⟨⟨a1.trans ?_, l1, u1⟩, ⟨a2.trans ?_, l2, u2⟩, ⟨a3.trans ?_, l3, u3⟩⟩ <;> linarith

end relative
end Lemmas.FpPq
