import LymuiVerif.Lemmas.FpMisc
import LymuiVerif.Lemmas.FpHexcone
import LymuiVerif.Lemmas.HexconeRT
import LymuiVerif.Props.C09_fp
/-!
# Hexcone models in the rounded-arithmetic reading `RF M`: the reverse direction and the round trip

`Rgb::from(Hsl)`, `Rgb::from(Hsv)`, `Rgb::from(Hwb)` evaluated in `RF M` on a whole-degree hue `k < 360` and on
saturation / lightness / value that are within `1e-9` of exact percentages `S`, `L`, `V`: every channel is the
quantiser (`round() as u8` for HSL, `as u8` for HSV / HWB) applied to a value within `1e-8` of `255 ·` the exact
sector formula (`Props.C09.hslSector`, `hsvSector`) at `(k, S, L)`.

The sextant `⌊h/60⌋` is decided as in ℝ (`FpMisc.sector_idx`); `%`, `floor`, `abs`, `as i64`, the comparisons are exact.
The grey shortcuts (`h == 0 && s == 0`, resp. `s == 0`) are exact tests on the computed saturation; if the computed
saturation is `0` the exact one is `≤ 1e-9` and the shortcut value is within `1e-8` of the sector formula.
-/
set_option linter.unusedVariables false
set_option linter.unusedSimpArgs false
namespace FpHexRev
open FpErr FpLin FpMisc Gen Props.C09

/-! ## pieces of the generated reverse conversions (generic carrier), and the bridge to the generated code -/
section defs
variable {α : Type} [Flt α]

/-- selection of the sextant: `a` the dominant, `x` the intermediate, `z` the smallest component -/
def sel {β : Type} (j : ℕ) (a x z : β) : β × β × β :=
  match j with
  | 0 => (a, x, z) | 1 => (x, a, z) | 2 => (z, a, x) | 3 => (z, x, a) | 4 => (x, z, a) | _ => (a, z, x)

/-- chroma of `Rgb::from(Hsl)` -/
def hslC (s l : α) : α :=
  (((Flt.lit 0x3FF0000000000000 1 1) - (Flt.abs (((Flt.lit 0x4000000000000000 2 1) * (l / (Flt.lit 0x4059000000000000 100 1))) - (Flt.lit 0x3FF0000000000000 1 1)))) * (s / (Flt.lit 0x4059000000000000 100 1)))
/-- offset `m` of `Rgb::from(Hsl)` -/
def hslM (s l : α) : α :=
  ((l / (Flt.lit 0x4059000000000000 100 1)) - ((hslC s l) / (Flt.lit 0x4000000000000000 2 1)))
/-- second component `x` of `Hsl::compute_rgb_value` -/
def hslX (h c : α) : α :=
  (c * ((Flt.lit 0x3FF0000000000000 1 1) - (Flt.abs ((Flt.rem (h / (Flt.lit 0x404E000000000000 60 1)) (Flt.lit 0x4000000000000000 2 1)) - (Flt.lit 0x3FF0000000000000 1 1)))))
/-- value handed to `round() as u8` -/
def preR (v m : α) : α := ((v + m) * (Flt.lit 0x406FE00000000000 255 1))
/-- the literal `0.0` -/
def zero : α := (Flt.lit 0x0000000000000000 0 1)
end defs

variable (M : FPModel)

/-- the generated `Rgb::from(Hsl)` in `RF M`, the two identical non-grey branches merged -/
theorem from_Hsl_rf (x : Hsl (RF M)) :
    Rgb.from_Hsl x =
      if x.h.val = 0 ∧ x.s.val = 0 then
        ⟨Hsl.compute_shade_of_grey x, Hsl.compute_shade_of_grey x, Hsl.compute_shade_of_grey x⟩
      else
        ⟨Real.toU8 (Real.roundHA (preR (Hsl.compute_rgb_value x (hslC x.s x.l)).1 (hslM x.s x.l)).val),
         Real.toU8 (Real.roundHA (preR (Hsl.compute_rgb_value x (hslC x.s x.l)).2.1 (hslM x.s x.l)).val),
         Real.toU8 (Real.roundHA (preR (Hsl.compute_rgb_value x (hslC x.s x.l)).2.2 (hslM x.s x.l)).val)⟩ := by
  unfold Rgb.from_Hsl
  simp only [FltRF.beq_eq, FltRF.lit_val, Nat.cast_zero, Nat.cast_one, zero_div, rnd_zero M, decide_eq_true_eq]
  by_cases a : x.h.val = 0 <;> by_cases b : x.s.val = 0 <;>
    simp only [a, b, if_true, if_false, and_self, and_false, false_and, true_and] <;> rfl

/-- the generated `Hsl::compute_rgb_value` in `RF M` on a whole-degree hue: the sextant table -/
theorem compute_rgb_value_rf (h s l C : RF M) (k : ℕ) (hk : k < 360) (hh : h.val = k) :
    ∃ j : ℕ, j < 6 ∧ (j : ℝ) ≤ (k : ℝ) / 60 ∧ (k : ℝ) / 60 < j + 1 ∧
      Hsl.compute_rgb_value (⟨h, s, l⟩ : Hsl (RF M)) C = sel j C (hslX h C) zero := by
  obtain ⟨j, hj, a1, a2, a3, a4, a5⟩ := sector_idx M k hk
  have hfl : ⌊M.rnd ((k : ℝ) / 60)⌋ = (j : ℤ) := by
    rw [Int.floor_eq_iff]; exact ⟨by exact_mod_cast a3, by exact_mod_cast a4⟩
  refine ⟨j, hj, a1, a2, ?_⟩
  unfold Hsl.compute_rgb_value hslX zero
  simp only [FltRF.lt_eq, FltRF.le_eq, FltRF.floor_val, FltRF.div_val, FltRF.lit_val, hh,
    lit_int M 60 (by norm_num), lit_int M 1 (by norm_num), lit_int M 2 (by norm_num), lit_int M 3 (by norm_num),
    lit_int M 4 (by norm_num), lit_int M 5 (by norm_num), lit_int M 6 (by norm_num)]
  simp only [Nat.cast_ofNat, Nat.cast_one, hfl]
  interval_cases j <;> norm_num [sel]

/-! ## real-level readings of the pieces -/

/-- `hslC` in `RF M` -/
noncomputable def rC (s l : ℝ) : ℝ := M.rnd (M.rnd (1 - |M.rnd (M.rnd (2 * M.rnd (l / 100)) - 1)|) * M.rnd (s / 100))
/-- `hslM` in `RF M` -/
noncomputable def rM (s l : ℝ) : ℝ := M.rnd (M.rnd (l / 100) - M.rnd (rC M s l / 2))
/-- `hslX` in `RF M` -/
noncomputable def rX (h c : ℝ) : ℝ :=
  M.rnd (c * M.rnd (1 - |M.rnd ((M.rnd (h / 60) - 2 * (Real.truncZ (M.rnd (h / 60) / 2) : ℝ)) - 1)|))
/-- `preR` in `RF M` -/
noncomputable def rPre (v m : ℝ) : ℝ := M.rnd (M.rnd (v + m) * 255)

theorem hslC_val (s l : RF M) : (hslC s l).val = rC M s.val l.val := by
  simp only [hslC, rC, FltRF.sub_val, FltRF.mul_val, FltRF.div_val, FltRF.abs_val, FltRF.lit_val,
    lit_int M 1 (by norm_num), lit_int M 2 (by norm_num), lit_int M 100 (by norm_num)]
  simp only [Nat.cast_ofNat, Nat.cast_one]

theorem hslM_val (s l : RF M) : (hslM s l).val = rM M s.val l.val := by
  simp only [hslM, rM, hslC_val, FltRF.sub_val, FltRF.div_val, FltRF.lit_val,
    lit_int M 2 (by norm_num), lit_int M 100 (by norm_num)]
  simp only [Nat.cast_ofNat]

theorem hslX_val (h c : RF M) : (hslX h c).val = rX M h.val c.val := by
  simp only [hslX, rX, FltRF.sub_val, FltRF.mul_val, FltRF.div_val, FltRF.abs_val, FltRF.rem_val, FltRF.lit_val,
    lit_int M 1 (by norm_num), lit_int M 2 (by norm_num), lit_int M 60 (by norm_num)]
  simp only [Nat.cast_ofNat, Nat.cast_one]

theorem preR_val (v m : RF M) : (preR v m).val = rPre M v.val m.val := by
  simp only [preR, rPre, FltRF.add_val, FltRF.mul_val, FltRF.lit_val, lit_int M 255 (by norm_num)]
  simp only [Nat.cast_ofNat]

theorem zero_val : (zero : RF M).val = 0 := by
  simp only [zero, FltRF.lit_val, Nat.cast_zero, Nat.cast_one, zero_div, rnd_zero M]

/-! ## error analysis of the HSL pieces -/

/-- a percentage (known within `1e-9`) divided by `100.0` -/
theorem pct_near {x X : ℝ} (hx : |x - X| ≤ 1e-9) (h0 : 0 ≤ X) (h1 : X ≤ 100) :
    Near (M.rnd (x / 100)) (X / 100) 1.1e-11 1 := by
  have n : Near x X 1e-9 100 := ⟨hx, by rw [abs_of_nonneg h0]; exact h1, by norm_num⟩
  have d := n.div_const M (c := 100) (B' := 1) (by norm_num) (by norm_num) le_rfl
  exact d.mono (by norm_num [FP.eps]) le_rfl

theorem one_near : Near (1 : ℝ) 1 0 1 := Near.exact (by norm_num) le_rfl
theorem two_near : Near (2 : ℝ) 2 0 2 := Near.exact (by norm_num) (by norm_num)

/-- the factor `1 - |2l - 1|` lies in `[0,1]` -/
theorem tent_range {L : ℝ} (hL0 : 0 ≤ L) (hL1 : L ≤ 100) :
    0 ≤ 1 - |2 * (L / 100) - 1| ∧ 1 - |2 * (L / 100) - 1| ≤ 1 := by
  have : |2 * (L / 100) - 1| ≤ 1 := by rw [abs_le]; constructor <;> linarith
  exact ⟨by linarith, by linarith [abs_nonneg (2 * (L / 100) - 1)]⟩

section hsl
variable {s l S L : ℝ} (hs : |s - S| ≤ 1e-9) (hS0 : 0 ≤ S) (hS1 : S ≤ 100)
  (hl : |l - L| ≤ 1e-9) (hL0 : 0 ≤ L) (hL1 : L ≤ 100)
include hs hS0 hS1 hl hL0 hL1

theorem rC_near : Near (rC M s l) ((1 - |2 * (L / 100) - 1|) * (S / 100)) 4e-11 1 := by
  have nl := pct_near M hl hL0 hL1
  have ns := pct_near M hs hS0 hS1
  obtain ⟨t0, t1⟩ := tent_range hL0 hL1
  have a := ((two_near.mul M nl).sub M one_near).remag (B' := 1)
    (by rw [abs_le]; constructor <;> linarith) le_rfl
  have b := (one_near.sub M a.abs').remag (B' := 1) (by rw [abs_of_nonneg t0]; exact t1) le_rfl
  have c := b.mul M ns
  exact c.mono (by norm_num [FP.eps]) (by norm_num)

theorem rM_near : Near (rM M s l) (L / 100 - (1 - |2 * (L / 100) - 1|) * (S / 100) / 2) 4e-11 2 := by
  have nl := pct_near M hl hL0 hL1
  have nc := rC_near M hs hS0 hS1 hl hL0 hL1
  have h := nl.sub M (nc.div_const M (c := 2) (B' := 1) (by norm_num) (by norm_num) le_rfl)
  exact h.mono (by norm_num [FP.eps]) (by norm_num)
end hsl

/-- the pre-quantisation value `(v + m) * 255.0` -/
theorem rPre_near {v V m' m : ℝ} (hv : Near v V 5e-11 1) (hm : Near m' m 4e-11 2) :
    Near (rPre M v m') ((V + m) * 255) 3e-8 765 := by
  have n255 : Near (255 : ℝ) 255 0 255 := Near.exact (by norm_num) (by norm_num)
  exact ((hv.add M hm).mul M n255).mono (by norm_num [FP.eps]) (by norm_num)

/-- uniqueness of the sextant index -/
theorem sextant_unique {H : ℝ} {j j' : ℕ} (a1 : (j : ℝ) ≤ H) (a2 : H < j + 1) (b1 : (j' : ℝ) ≤ H) (b2 : H < j' + 1) :
    j' = j := by
  have h1 : (j : ℝ) < j' + 1 := by linarith
  have h2 : (j' : ℝ) < j + 1 := by linarith
  have h1' : j < j' + 1 := by exact_mod_cast h1
  have h2' : j' < j + 1 := by exact_mod_cast h2
  omega

/-- `⌊x/2⌋` for `x` in the unit interval `[j, j+1)` -/
theorem floor_half {x : ℝ} {j : ℕ} (a1 : (j : ℝ) ≤ x) (a2 : x < j + 1) : ⌊x / 2⌋ = ((j / 2 : ℕ) : ℤ) := by
  have e : (j : ℝ) = 2 * ((j / 2 : ℕ) : ℝ) + ((j % 2 : ℕ) : ℝ) := by exact_mod_cast (Nat.div_add_mod j 2).symm
  have hm : j % 2 ≤ 1 := by omega
  have hm' : ((j % 2 : ℕ) : ℝ) ≤ 1 := by exact_mod_cast hm
  have hm0 : (0 : ℝ) ≤ ((j % 2 : ℕ) : ℝ) := Nat.cast_nonneg _
  rw [Int.floor_eq_iff]; simp only [Int.cast_natCast]; constructor <;> linarith

/-- the second component `x = c (1 - |h/60 mod 2 - 1|)` -/
theorem rX_near {c Cx : ℝ} (hc : Near c Cx 4e-11 1) (k : ℕ) (hk : k < 360) (j : ℕ)
    (a1 : (j : ℝ) ≤ (k : ℝ) / 60) (a2 : (k : ℝ) / 60 < j + 1) :
    Near (rX M k c) (Cx * (1 - |(k : ℝ) / 60 - 2 * ((j / 2 : ℕ) : ℝ) - 1|)) 5e-11 1 := by
  obtain ⟨j', hj', b1, b2, b3, b4, b5⟩ := sector_idx M k hk
  obtain rfl := sextant_unique a1 a2 b1 b2
  have h0 : 0 ≤ M.rnd ((k : ℝ) / 60) / 2 := by
    have : (0 : ℝ) ≤ (j' : ℝ) := Nat.cast_nonneg _
    linarith
  have ht : Real.truncZ (M.rnd ((k : ℝ) / 60) / 2) = ((j' / 2 : ℕ) : ℤ) := by
    rw [QuantA2.truncZ_nonneg h0, floor_half b3 b4]
  have e : (j' : ℝ) = 2 * ((j' / 2 : ℕ) : ℝ) + ((j' % 2 : ℕ) : ℝ) := by exact_mod_cast (Nat.div_add_mod j' 2).symm
  have hm : j' % 2 ≤ 1 := by omega
  have hm' : ((j' % 2 : ℕ) : ℝ) ≤ 1 := by exact_mod_cast hm
  have hm0 : (0 : ℝ) ≤ ((j' % 2 : ℕ) : ℝ) := Nat.cast_nonneg _
  have nrem : Near (M.rnd ((k : ℝ) / 60) - 2 * (((j' / 2 : ℕ) : ℤ) : ℝ)) ((k : ℝ) / 60 - 2 * ((j' / 2 : ℕ) : ℝ)) 1e-15 2 := by
    refine ⟨?_, ?_, by norm_num⟩
    · simp only [Int.cast_natCast]
      rw [show M.rnd ((k : ℝ) / 60) - 2 * ((j' / 2 : ℕ) : ℝ) - ((k : ℝ) / 60 - 2 * ((j' / 2 : ℕ) : ℝ)) =
        M.rnd ((k : ℝ) / 60) - (k : ℝ) / 60 by ring]
      exact b5
    · rw [abs_le]; constructor <;> linarith
  have a := (nrem.sub M one_near).remag (B' := 1) (by rw [abs_le]; constructor <;> linarith) le_rfl
  have t : 0 ≤ 1 - |(k : ℝ) / 60 - 2 * ((j' / 2 : ℕ) : ℝ) - 1| ∧ 1 - |(k : ℝ) / 60 - 2 * ((j' / 2 : ℕ) : ℝ) - 1| ≤ 1 := by
    have : |(k : ℝ) / 60 - 2 * ((j' / 2 : ℕ) : ℝ) - 1| ≤ 1 := by rw [abs_le]; constructor <;> linarith
    exact ⟨by linarith, by linarith [abs_nonneg ((k : ℝ) / 60 - 2 * ((j' / 2 : ℕ) : ℝ) - 1)]⟩
  have b := (one_near.sub M a.abs').remag (B' := 1) (by rw [abs_of_nonneg t.1]; exact t.2) le_rfl
  have c' := hc.mul M b
  unfold rX
  rw [ht]
  exact c'.mono (by norm_num [FP.eps]) (by norm_num)

/-! ## the exact sector formula, sextant by sextant -/

theorem hslSector_sel (k j : ℕ) (hj : j < 6) (a1 : (j : ℝ) ≤ (k : ℝ) / 60) (a2 : (k : ℝ) / 60 < j + 1) (S L : ℝ) :
    hslSector k S L =
      sel j ((1 - |2 * (L / 100) - 1|) * (S / 100) + (L / 100 - (1 - |2 * (L / 100) - 1|) * (S / 100) / 2))
        ((1 - |2 * (L / 100) - 1|) * (S / 100) * (1 - |(k : ℝ) / 60 - 2 * ((j / 2 : ℕ) : ℝ) - 1|) +
          (L / 100 - (1 - |2 * (L / 100) - 1|) * (S / 100) / 2))
        (L / 100 - (1 - |2 * (L / 100) - 1|) * (S / 100) / 2) := by
  unfold hslSector
  simp only []
  have hf : (⌊(k : ℝ) / 60 / 2⌋ : ℝ) = ((j / 2 : ℕ) : ℝ) := by
    rw [floor_half a1 a2]; simp only [Int.cast_natCast]
  rw [hf]
  interval_cases j <;> norm_num at a1 a2 <;> simp only [sel] <;>
    split_ifs <;> first | rfl | (exfalso; linarith)

/-- with a negligible saturation every channel of the sector formula is the lightness -/
theorem hslSector_grey_close (k : ℕ) (hk : k < 360) {S L : ℝ} (hS0 : 0 ≤ S) (hS1 : S ≤ 1e-9) (hL0 : 0 ≤ L) (hL1 : L ≤ 100) :
    |L / 100 * 255 - 255 * (hslSector k S L).1| ≤ 2e-9 ∧ |L / 100 * 255 - 255 * (hslSector k S L).2.1| ≤ 2e-9 ∧
      |L / 100 * 255 - 255 * (hslSector k S L).2.2| ≤ 2e-9 := by
  have hk' : ((k : ℕ) : ℝ) < 360 := by exact_mod_cast hk
  rw [HexconeRT.hslSector_T _ _ _ (Nat.cast_nonneg k) hk']
  obtain ⟨t0, t1⟩ := tent_range hL0 hL1
  have hC0 : 0 ≤ (1 - |2 * (L / 100) - 1|) * (S / 100) := mul_nonneg t0 (by positivity)
  have hC1 : (1 - |2 * (L / 100) - 1|) * (S / 100) ≤ 1e-11 := by
    calc (1 - |2 * (L / 100) - 1|) * (S / 100) ≤ 1 * (S / 100) := mul_le_mul_of_nonneg_right t1 (by positivity)
      _ ≤ 1e-11 := by linarith
  generalize (1 - |2 * (L / 100) - 1|) * (S / 100) = C at *
  obtain ⟨r0, r1⟩ := HexconeRT.Tr_range ((k : ℝ) / 60)
  obtain ⟨g0, g1⟩ := HexconeRT.Tg_range ((k : ℝ) / 60)
  obtain ⟨b0, b1⟩ := HexconeRT.Tb_range ((k : ℝ) / 60)
  simp only []
  refine ⟨?_, ?_, ?_⟩ <;> rw [abs_le] <;> constructor <;> nlinarith

/-! ## `Rgb::from(Hsl)` in `RF M` -/

theorem shade_of_grey_val (x : Hsl (RF M)) :
    Hsl.compute_shade_of_grey x = Real.toU8 (Real.roundHA (M.rnd (M.rnd (x.l.val / 100) * 255))) := by
  simp only [Hsl.compute_shade_of_grey, FltRF.toU8_eq, FltRF.round_val, FltRF.mul_val, FltRF.div_val, FltRF.lit_val,
    lit_int M 100 (by norm_num), lit_int M 255 (by norm_num)]
  simp only [Nat.cast_ofNat]

/-- **reverse HSL, rounded model**: on a whole-degree hue `k < 360` and saturation / lightness within `1e-9` of
percentages `S`, `L`, every channel of the generated `Rgb::from(Hsl)` is `round() as u8` of a value within `3e-8` of
`255 ·` the exact sector formula at `(k, S, L)`. -/
theorem from_Hsl_near (h s l : RF M) (k : ℕ) (hk : k < 360) (hh : h.val = k) {S L : ℝ}
    (hs : |s.val - S| ≤ 1e-9) (hS0 : 0 ≤ S) (hS1 : S ≤ 100) (hl : |l.val - L| ≤ 1e-9) (hL0 : 0 ≤ L) (hL1 : L ≤ 100) :
    ∃ y1 y2 y3 : ℝ,
      Rgb.from_Hsl (⟨h, s, l⟩ : Hsl (RF M)) =
        ⟨Real.toU8 (Real.roundHA y1), Real.toU8 (Real.roundHA y2), Real.toU8 (Real.roundHA y3)⟩ ∧
      |y1 - 255 * (hslSector k S L).1| ≤ 3e-8 ∧ |y2 - 255 * (hslSector k S L).2.1| ≤ 3e-8 ∧
      |y3 - 255 * (hslSector k S L).2.2| ≤ 3e-8 := by
  rw [from_Hsl_rf]
  simp only []
  by_cases g : h.val = 0 ∧ s.val = 0
  · rw [if_pos g, shade_of_grey_val]
    simp only []
    have hS' : S ≤ 1e-9 := by
      have := (abs_le.mp hs).1; rw [g.2] at this; linarith
    have nl := pct_near M hl hL0 hL1
    have n255 : Near (255 : ℝ) 255 0 255 := Near.exact (by norm_num) (by norm_num)
    have ny := (nl.mul M n255).err
    have ny' : |M.rnd (M.rnd (l.val / 100) * 255) - L / 100 * 255| ≤ 3e-9 := le_trans ny (by norm_num [FP.eps])
    obtain ⟨c1, c2, c3⟩ := hslSector_grey_close k hk hS0 hS' hL0 hL1
    refine ⟨_, _, _, rfl, ?_, ?_, ?_⟩
    · have := abs_sub_le (M.rnd (M.rnd (l.val / 100) * 255)) (L / 100 * 255) (255 * (hslSector k S L).1); linarith
    · have := abs_sub_le (M.rnd (M.rnd (l.val / 100) * 255)) (L / 100 * 255) (255 * (hslSector k S L).2.1); linarith
    · have := abs_sub_le (M.rnd (M.rnd (l.val / 100) * 255)) (L / 100 * 255) (255 * (hslSector k S L).2.2); linarith
  · rw [if_neg g]
    obtain ⟨j, hj, a1, a2, hv⟩ := compute_rgb_value_rf M h s l (hslC s l) k hk hh
    rw [hv, hslSector_sel k j hj a1 a2]
    have nC := rC_near M hs hS0 hS1 hl hL0 hL1
    have nM := rM_near M hs hS0 hS1 hl hL0 hL1
    have nX := rX_near M nC k hk j a1 a2
    have nZ : Near (0 : ℝ) 0 5e-11 1 := Near.zero.mono (by norm_num) le_rfl
    have cC := (rPre_near M (nC.mono (by norm_num) le_rfl) nM).err
    have cX := (rPre_near M nX nM).err
    have cZ := (rPre_near M nZ nM).err
    rw [zero_add] at cZ
    rw [show ∀ a b : ℝ, (a + b) * 255 = 255 * (a + b) from fun a b => mul_comm _ _] at cC cX
    rw [show ∀ a : ℝ, a * 255 = 255 * a from fun a => mul_comm _ _] at cZ
    refine ⟨_, _, _, rfl, ?_⟩
    interval_cases j <;> simp only [sel, preR_val, hslC_val, hslM_val, hslX_val, zero_val, hh] <;>
      first
      | exact ⟨cC, cX, cZ⟩ | exact ⟨cX, cC, cZ⟩ | exact ⟨cZ, cC, cX⟩
      | exact ⟨cZ, cX, cC⟩ | exact ⟨cX, cZ, cC⟩ | exact ⟨cC, cZ, cX⟩

/-! ## `Rgb::from(Hsv)` in `RF M` -/
section defs
variable {α : Type} [Flt α]
/-- selection of the sextant for the `p/q/t` form -/
def hsel {β : Type} (j : ℕ) (v p q t : β) : β × β × β :=
  match j with
  | 0 => (v, t, p) | 1 => (q, v, p) | 2 => (p, v, t) | 3 => (p, q, v) | 4 => (t, p, v) | _ => (v, p, q)
/-- fractional part of `h/60` as the code computes it -/
def hsvF (h : α) : α := ((h / (Flt.lit 0x404E000000000000 60 1)) - (Flt.ofInt (Flt.toI64 (h / (Flt.lit 0x404E000000000000 60 1)))))
def hsvV (v : α) : α := (v / (Flt.lit 0x4059000000000000 100 1))
def hsvP (s v : α) : α := ((hsvV v) * ((Flt.lit 0x3FF0000000000000 1 1) - (s / (Flt.lit 0x4059000000000000 100 1))))
def hsvQ (h s v : α) : α := ((hsvV v) * ((Flt.lit 0x3FF0000000000000 1 1) - ((s / (Flt.lit 0x4059000000000000 100 1)) * (hsvF h))))
def hsvT (h s v : α) : α := ((hsvV v) * ((Flt.lit 0x3FF0000000000000 1 1) - (((Flt.lit 0x3FF0000000000000 1 1) - (hsvF h)) * (s / (Flt.lit 0x4059000000000000 100 1)))))
/-- value handed to `as u8` -/
def preT (x : α) : α := (x * (Flt.lit 0x406FE00000000000 255 1))
end defs

/-- the generated `Rgb::from(Hsv)` in `RF M` on a whole-degree hue: grey shortcut or the sextant table -/
theorem from_Hsv_rf (h s v : RF M) (k : ℕ) (hk : k < 360) (hh : h.val = k) :
    ∃ j : ℕ, j < 6 ∧ (j : ℝ) ≤ (k : ℝ) / 60 ∧ (k : ℝ) / 60 < j + 1 ∧
      Rgb.from_Hsv (⟨h, s, v⟩ : Hsv (RF M)) =
        if s.val = 0 then
          ⟨Real.toU8 (preT (hsvV v)).val, Real.toU8 (preT (hsvV v)).val, Real.toU8 (preT (hsvV v)).val⟩
        else
          ⟨Real.toU8 (preT (hsel j (hsvV v) (hsvP s v) (hsvQ h s v) (hsvT h s v)).1).val,
           Real.toU8 (preT (hsel j (hsvV v) (hsvP s v) (hsvQ h s v) (hsvT h s v)).2.1).val,
           Real.toU8 (preT (hsel j (hsvV v) (hsvP s v) (hsvQ h s v) (hsvT h s v)).2.2).val⟩ := by
  obtain ⟨j, hj, a1, a2, a3, a4, a5⟩ := sector_idx M k hk
  have h0 : 0 ≤ M.rnd ((k : ℝ) / 60) := le_trans (Nat.cast_nonneg j) a3
  have hfl : Real.truncZ (M.rnd ((k : ℝ) / 60)) = (j : ℤ) := by
    rw [QuantA2.truncZ_nonneg h0, Int.floor_eq_iff]; exact ⟨by exact_mod_cast a3, by exact_mod_cast a4⟩
  refine ⟨j, hj, a1, a2, ?_⟩
  unfold Rgb.from_Hsv
  simp only [FltRF.beq_eq, FltRF.lit_val, Nat.cast_zero, Nat.cast_one, zero_div, rnd_zero M, decide_eq_true_eq]
  by_cases g : s.val = 0
  · simp only [g, if_true]; rfl
  · simp only [g, if_false]
    have hi : Flt.toI64 (h / (Flt.lit 0x404E000000000000 60 1 : RF M)) = (j : ℤ) := by
      simp only [FltRF.toI64_eq, FltRF.div_val, FltRF.lit_val, lit_int M 60 (by norm_num), hh]
      simp only [Nat.cast_ofNat]; exact hfl
    simp only [hi]
    interval_cases j <;> simp [hsel, Rgb.new, hsvV, hsvP, hsvQ, hsvT, hsvF, preT, hi]

/-- `hsvF` in `RF M` -/
noncomputable def rF (h : ℝ) : ℝ := M.rnd (M.rnd (h / 60) - ((Real.truncZ (M.rnd (h / 60)) : ℤ) : ℝ))
noncomputable def rV (v : ℝ) : ℝ := M.rnd (v / 100)
noncomputable def rP (s v : ℝ) : ℝ := M.rnd (rV M v * M.rnd (1 - M.rnd (s / 100)))
noncomputable def rQ (h s v : ℝ) : ℝ := M.rnd (rV M v * M.rnd (1 - M.rnd (M.rnd (s / 100) * rF M h)))
noncomputable def rT (h s v : ℝ) : ℝ := M.rnd (rV M v * M.rnd (1 - M.rnd (M.rnd (1 - rF M h) * M.rnd (s / 100))))
noncomputable def rPreT (x : ℝ) : ℝ := M.rnd (x * 255)

theorem hsvF_val (h : RF M) : (hsvF h).val = rF M h.val := by
  simp only [hsvF, rF, FltRF.sub_val, FltRF.div_val, FltRF.ofInt_val, FltRF.toI64_eq, FltRF.lit_val, lit_int M 60 (by norm_num)]
  simp only [Nat.cast_ofNat]
theorem hsvV_val (v : RF M) : (hsvV v).val = rV M v.val := by
  simp only [hsvV, rV, FltRF.div_val, FltRF.lit_val, lit_int M 100 (by norm_num)]
  simp only [Nat.cast_ofNat]
theorem hsvP_val (s v : RF M) : (hsvP s v).val = rP M s.val v.val := by
  simp only [hsvP, rP, hsvV_val, FltRF.sub_val, FltRF.mul_val, FltRF.div_val, FltRF.lit_val, lit_int M 100 (by norm_num),
    lit_int M 1 (by norm_num)]
  simp only [Nat.cast_ofNat, Nat.cast_one]
theorem hsvQ_val (h s v : RF M) : (hsvQ h s v).val = rQ M h.val s.val v.val := by
  simp only [hsvQ, rQ, hsvV_val, hsvF_val, FltRF.sub_val, FltRF.mul_val, FltRF.div_val, FltRF.lit_val, lit_int M 100 (by norm_num),
    lit_int M 1 (by norm_num)]
  simp only [Nat.cast_ofNat, Nat.cast_one]
theorem hsvT_val (h s v : RF M) : (hsvT h s v).val = rT M h.val s.val v.val := by
  simp only [hsvT, rT, hsvV_val, hsvF_val, FltRF.sub_val, FltRF.mul_val, FltRF.div_val, FltRF.lit_val, lit_int M 100 (by norm_num),
    lit_int M 1 (by norm_num)]
  simp only [Nat.cast_ofNat, Nat.cast_one]
theorem preT_val (x : RF M) : (preT x).val = rPreT M x.val := by
  simp only [preT, rPreT, FltRF.mul_val, FltRF.lit_val, lit_int M 255 (by norm_num)]
  simp only [Nat.cast_ofNat]

/-- the fractional part of `k/60` -/
theorem rF_near (k : ℕ) (hk : k < 360) (j : ℕ) (a1 : (j : ℝ) ≤ (k : ℝ) / 60) (a2 : (k : ℝ) / 60 < j + 1) :
    Near (rF M k) ((k : ℝ) / 60 - j) 2e-15 1 := by
  obtain ⟨j', hj', b1, b2, b3, b4, b5⟩ := sector_idx M k hk
  obtain rfl := sextant_unique a1 a2 b1 b2
  have h0 : 0 ≤ M.rnd ((k : ℝ) / 60) := le_trans (Nat.cast_nonneg j') b3
  have hfl : Real.truncZ (M.rnd ((k : ℝ) / 60)) = (j' : ℤ) := by
    rw [QuantA2.truncZ_nonneg h0, Int.floor_eq_iff]; exact ⟨by exact_mod_cast b3, by exact_mod_cast b4⟩
  have n : Near (M.rnd ((k : ℝ) / 60) - (((j' : ℤ)) : ℝ)) ((k : ℝ) / 60 - j') 1e-15 1 := by
    refine ⟨?_, ?_, le_rfl⟩
    · simp only [Int.cast_natCast]
      rw [show M.rnd ((k : ℝ) / 60) - (j' : ℝ) - ((k : ℝ) / 60 - j') = M.rnd ((k : ℝ) / 60) - (k : ℝ) / 60 by ring]
      exact b5
    · rw [abs_le]; constructor <;> linarith
  unfold rF
  rw [hfl]
  exact (n.rnd M).mono (by norm_num [FP.eps]) le_rfl

section hsv
variable {s v S V : ℝ} (hs : |s - S| ≤ 1e-9) (hS0 : 0 ≤ S) (hS1 : S ≤ 100)
  (hv : |v - V| ≤ 1e-9) (hV0 : 0 ≤ V) (hV1 : V ≤ 100)
  (k : ℕ) (hk : k < 360) (j : ℕ) (a1 : (j : ℝ) ≤ (k : ℝ) / 60) (a2 : (k : ℝ) / 60 < j + 1)
include hs hS0 hS1 hv hV0 hV1

theorem rP_near : Near (rP M s v) (V / 100 * (1 - S / 100)) 3e-11 1 := by
  have nv := pct_near M hv hV0 hV1
  have ns := pct_near M hs hS0 hS1
  have a := (one_near.sub M ns).remag (B' := 1) (by rw [abs_le]; constructor <;> linarith) le_rfl
  exact (nv.mul M a).mono (by norm_num [FP.eps]) (by norm_num)

include hk a1 a2
theorem rQ_near : Near (rQ M k s v) (V / 100 * (1 - S / 100 * ((k : ℝ) / 60 - j))) 3e-11 1 := by
  have nv := pct_near M hv hV0 hV1
  have ns := pct_near M hs hS0 hS1
  have nf := rF_near M k hk j a1 a2
  have hm : |1 - S / 100 * ((k : ℝ) / 60 - j)| ≤ 1 := by
    have h1 : 0 ≤ S / 100 * ((k : ℝ) / 60 - j) := mul_nonneg (by positivity) (by linarith)
    have h2 : S / 100 * ((k : ℝ) / 60 - j) ≤ 1 * 1 := mul_le_mul (by linarith) (by linarith) (by linarith) (by norm_num)
    rw [abs_le]; constructor <;> linarith
  have a := (one_near.sub M (ns.mul M nf)).remag (B' := 1) hm le_rfl
  exact (nv.mul M a).mono (by norm_num [FP.eps]) (by norm_num)

theorem rT_near : Near (rT M k s v) (V / 100 * (1 - (1 - ((k : ℝ) / 60 - j)) * (S / 100))) 3e-11 1 := by
  have nv := pct_near M hv hV0 hV1
  have ns := pct_near M hs hS0 hS1
  have nf := rF_near M k hk j a1 a2
  have b := (one_near.sub M nf).remag (B' := 1) (by rw [abs_le]; constructor <;> linarith) le_rfl
  have hm : |1 - (1 - ((k : ℝ) / 60 - j)) * (S / 100)| ≤ 1 := by
    have h1 : 0 ≤ (1 - ((k : ℝ) / 60 - j)) * (S / 100) := mul_nonneg (by linarith) (by positivity)
    have h2 : (1 - ((k : ℝ) / 60 - j)) * (S / 100) ≤ 1 * 1 := mul_le_mul (by linarith) (by linarith) (by positivity) (by norm_num)
    rw [abs_le]; constructor <;> linarith
  have a := (one_near.sub M (b.mul M ns)).remag (B' := 1) hm le_rfl
  exact (nv.mul M a).mono (by norm_num [FP.eps]) (by norm_num)
end hsv

/-- the pre-quantisation value `x * 255.0` -/
theorem rPreT_near {x X : ℝ} (hx : Near x X 3e-11 1) : Near (rPreT M x) (X * 255) 1e-8 255 := by
  have n255 : Near (255 : ℝ) 255 0 255 := Near.exact (by norm_num) (by norm_num)
  exact (hx.mul M n255).mono (by norm_num [FP.eps]) (by norm_num)

theorem hsvSector_sel (k j : ℕ) (hj : j < 6) (a1 : (j : ℝ) ≤ (k : ℝ) / 60) (a2 : (k : ℝ) / 60 < j + 1) (S V : ℝ) :
    hsvSector k S V =
      hsel j (V / 100) (V / 100 * (1 - S / 100)) (V / 100 * (1 - S / 100 * ((k : ℝ) / 60 - j)))
        (V / 100 * (1 - (1 - ((k : ℝ) / 60 - j)) * (S / 100))) := by
  have hfl : ⌊(k : ℝ) / 60⌋ = (j : ℤ) := by
    rw [Int.floor_eq_iff]; exact ⟨by exact_mod_cast a1, by exact_mod_cast a2⟩
  unfold hsvSector
  simp only [hfl, Int.cast_natCast]
  interval_cases j <;> simp [hsel]

/-- with a negligible saturation every channel of the sector formula is the value -/
theorem hsvSector_grey_close (k : ℕ) (hk : k < 360) {S V : ℝ} (hS0 : 0 ≤ S) (hS1 : S ≤ 1e-9) (hV0 : 0 ≤ V) (hV1 : V ≤ 100) :
    |V / 100 * 255 - 255 * (hsvSector k S V).1| ≤ 3e-9 ∧ |V / 100 * 255 - 255 * (hsvSector k S V).2.1| ≤ 3e-9 ∧
      |V / 100 * 255 - 255 * (hsvSector k S V).2.2| ≤ 3e-9 := by
  have hk' : ((k : ℕ) : ℝ) < 360 := by exact_mod_cast hk
  rw [HexconeRT.hsvSector_T _ _ _ (Nat.cast_nonneg k) hk']
  have hC0 : 0 ≤ V / 100 * (S / 100) := by positivity
  have hC1 : V / 100 * (S / 100) ≤ 1e-11 := by
    calc V / 100 * (S / 100) ≤ 1 * (S / 100) := mul_le_mul_of_nonneg_right (by linarith) (by positivity)
      _ ≤ 1e-11 := by linarith
  have e : V / 100 * (1 - S / 100) = V / 100 - V / 100 * (S / 100) := by ring
  rw [e]
  generalize V / 100 * (S / 100) = C at *
  obtain ⟨r0, r1⟩ := HexconeRT.Tr_range ((k : ℝ) / 60)
  obtain ⟨g0, g1⟩ := HexconeRT.Tg_range ((k : ℝ) / 60)
  obtain ⟨b0, b1⟩ := HexconeRT.Tb_range ((k : ℝ) / 60)
  simp only []
  refine ⟨?_, ?_, ?_⟩ <;> rw [abs_le] <;> constructor <;> nlinarith

/-- **reverse HSV, rounded model**: on a whole-degree hue `k < 360` and saturation / value within `1e-9` of
percentages `S`, `V`, every channel of the generated `Rgb::from(Hsv)` is `as u8` of a value within `3e-8` of
`255 ·` the exact sector formula at `(k, S, V)`. -/
theorem from_Hsv_near (h s v : RF M) (k : ℕ) (hk : k < 360) (hh : h.val = k) {S V : ℝ}
    (hs : |s.val - S| ≤ 1e-9) (hS0 : 0 ≤ S) (hS1 : S ≤ 100) (hv : |v.val - V| ≤ 1e-9) (hV0 : 0 ≤ V) (hV1 : V ≤ 100) :
    ∃ y1 y2 y3 : ℝ,
      Rgb.from_Hsv (⟨h, s, v⟩ : Hsv (RF M)) = ⟨Real.toU8 y1, Real.toU8 y2, Real.toU8 y3⟩ ∧
      |y1 - 255 * (hsvSector k S V).1| ≤ 3e-8 ∧ |y2 - 255 * (hsvSector k S V).2.1| ≤ 3e-8 ∧
      |y3 - 255 * (hsvSector k S V).2.2| ≤ 3e-8 := by
  obtain ⟨j, hj, a1, a2, hv'⟩ := from_Hsv_rf M h s v k hk hh
  rw [hv']
  have nv := pct_near M hv hV0 hV1
  by_cases g : s.val = 0
  · rw [if_pos g]
    have hS' : S ≤ 1e-9 := by
      have := (abs_le.mp hs).1; rw [g] at this; linarith
    have ny := (rPreT_near M (nv.mono (by norm_num) le_rfl)).err
    obtain ⟨c1, c2, c3⟩ := hsvSector_grey_close k hk hS0 hS' hV0 hV1
    refine ⟨_, _, _, rfl, ?_⟩
    simp only [preT_val, hsvV_val]
    unfold rV
    refine ⟨?_, ?_, ?_⟩
    · have := abs_sub_le (rPreT M (M.rnd (v.val / 100))) (V / 100 * 255) (255 * (hsvSector k S V).1); linarith
    · have := abs_sub_le (rPreT M (M.rnd (v.val / 100))) (V / 100 * 255) (255 * (hsvSector k S V).2.1); linarith
    · have := abs_sub_le (rPreT M (M.rnd (v.val / 100))) (V / 100 * 255) (255 * (hsvSector k S V).2.2); linarith
  · rw [if_neg g, hsvSector_sel k j hj a1 a2]
    have cV := (rPreT_near M (nv.mono (by norm_num) le_rfl)).err.trans (by norm_num : (1e-8 : ℝ) ≤ 3e-8)
    have cP := (rPreT_near M (rP_near M hs hS0 hS1 hv hV0 hV1)).err.trans (by norm_num : (1e-8 : ℝ) ≤ 3e-8)
    have cQ := (rPreT_near M (rQ_near M hs hS0 hS1 hv hV0 hV1 k hk j a1 a2)).err.trans (by norm_num : (1e-8 : ℝ) ≤ 3e-8)
    have cT := (rPreT_near M (rT_near M hs hS0 hS1 hv hV0 hV1 k hk j a1 a2)).err.trans (by norm_num : (1e-8 : ℝ) ≤ 3e-8)
    rw [show ∀ a : ℝ, a * 255 = 255 * a from fun a => mul_comm _ _] at cV cP cQ cT
    refine ⟨_, _, _, rfl, ?_⟩
    interval_cases j <;> simp only [hsel, preT_val, hsvV_val, hsvP_val, hsvQ_val, hsvT_val, hh] <;>
      first
      | exact ⟨cV, cT, cP⟩ | exact ⟨cQ, cV, cP⟩ | exact ⟨cP, cV, cT⟩
      | exact ⟨cP, cQ, cV⟩ | exact ⟨cT, cP, cV⟩ | exact ⟨cV, cP, cQ⟩

/-! ## `Rgb::from(Hwb)` in `RF M` -/
section defs
variable {α : Type} [Flt α]
/-- the HSV saturation (percent) that `Rgb::from(Hwb)` derives -/
def hwbS (w b : α) : α :=
  (((Flt.lit 0x3FF0000000000000 1 1) - ((w / (Flt.lit 0x4059000000000000 100 1)) / ((Flt.lit 0x3FF0000000000000 1 1) - (b / (Flt.lit 0x4059000000000000 100 1))))) * (Flt.lit 0x4059000000000000 100 1))
/-- the HSV value (percent) that `Rgb::from(Hwb)` derives -/
def hwbV (b : α) : α :=
  (((Flt.lit 0x3FF0000000000000 1 1) - (b / (Flt.lit 0x4059000000000000 100 1))) * (Flt.lit 0x4059000000000000 100 1))

theorem from_Hwb_eq (h w b : α) :
    Rgb.from_Hwb (⟨h, w, b⟩ : Hwb α) = Rgb.from_Hsv (⟨h, hwbS w b, hwbV b⟩ : Hsv α) := rfl
end defs

theorem hwbS_val (w b : RF M) :
    (hwbS w b).val = M.rnd (M.rnd (1 - M.rnd (M.rnd (w.val / 100) / M.rnd (1 - M.rnd (b.val / 100)))) * 100) := by
  simp only [hwbS, FltRF.sub_val, FltRF.mul_val, FltRF.div_val, FltRF.lit_val, lit_int M 100 (by norm_num),
    lit_int M 1 (by norm_num)]
  simp only [Nat.cast_ofNat, Nat.cast_one]
theorem hwbV_val (b : RF M) : (hwbV b).val = M.rnd (M.rnd (1 - M.rnd (b.val / 100)) * 100) := by
  simp only [hwbV, FltRF.sub_val, FltRF.mul_val, FltRF.div_val, FltRF.lit_val, lit_int M 100 (by norm_num),
    lit_int M 1 (by norm_num)]
  simp only [Nat.cast_ofNat, Nat.cast_one]

/-- a percentage known within `1e-12`, divided by `100.0` -/
theorem pct_near12 {x X : ℝ} (hx : |x - X| ≤ 1e-12) (h0 : 0 ≤ X) (h1 : X ≤ 100) :
    Near (M.rnd (x / 100)) (X / 100) 1.1e-14 1 := by
  have n : Near x X 1e-12 100 := ⟨hx, by rw [abs_of_nonneg h0]; exact h1, by norm_num⟩
  have d := n.div_const M (c := 100) (B' := 1) (by norm_num) (by norm_num) le_rfl
  exact d.mono (by norm_num [FP.eps]) le_rfl

/-- the HSV saturation and value derived from whiteness / blackness known within `1e-12`, away from black
(`1 - B ≥ 1/255`: the divisor of `w / (1 - b)` is bounded away from zero): within `1e-9` of the exact ones -/
theorem hwb_sv_near {w b W B : ℝ} (hw : |w - W| ≤ 1e-12) (hb : |b - B| ≤ 1e-12) (hW0 : 0 ≤ W) (hB0 : 0 ≤ B)
    (hWB : W + B ≤ 100) (hB1 : 100 / 255 ≤ 100 - B) :
    |M.rnd (M.rnd (1 - M.rnd (M.rnd (w / 100) / M.rnd (1 - M.rnd (b / 100)))) * 100) -
        (1 - W / 100 / (1 - B / 100)) * 100| ≤ 1e-9 ∧
    |M.rnd (M.rnd (1 - M.rnd (b / 100)) * 100) - (1 - B / 100) * 100| ≤ 1e-9 := by
  have nw := pct_near12 M hw hW0 (by linarith)
  have nb := pct_near12 M hb hB0 (by linarith)
  have n1b := (one_near.sub M nb).remag (B' := 1) (by rw [abs_le]; constructor <;> linarith) le_rfl
  have n100 : Near (100 : ℝ) 100 0 100 := Near.exact (by norm_num) (by norm_num)
  have hd : 1 / 255 ≤ 1 - B / 100 := by linarith
  have hdpos : 0 < 1 - B / 100 := by linarith
  have hq0 : 0 ≤ W / 100 / (1 - B / 100) := div_nonneg (by positivity) hdpos.le
  have hq1 : W / 100 / (1 - B / 100) ≤ 1 := by rw [div_le_one hdpos]; linarith
  have hq : |W / 100 / (1 - B / 100)| ≤ 1 := by rw [abs_of_nonneg hq0]; exact hq1
  have q := FpHexcone.div_close_q M nw.err n1b.err (m := 1 / 255) (Bq := 1)
    (by rw [abs_of_pos hdpos]; exact hd) (by norm_num [FP.eps]) hq (by norm_num)
  have nq : Near (M.rnd (M.rnd (w / 100) / M.rnd (1 - M.rnd (b / 100)))) (W / 100 / (1 - B / 100)) 6e-12 1 :=
    ⟨q.trans (by norm_num [FP.eps]), hq, le_rfl⟩
  have ns1 := (one_near.sub M nq).remag (B' := 1) (by rw [abs_le]; constructor <;> linarith) le_rfl
  exact ⟨(ns1.mul M n100).err.trans (by norm_num [FP.eps]), (n1b.mul M n100).err.trans (by norm_num [FP.eps])⟩

/-- **reverse HWB, rounded model**: on a whole-degree hue `k < 360`, whiteness / blackness within `1e-12` of
percentages `W`, `B` with `W + B ≤ 100` and `B ≤ 100 - 100/255` (not black: the guard of the division `w / (1 - b)`),
every channel of the generated `Rgb::from(Hwb)` is `as u8` of a value within `3e-8` of `255 ·` the exact sector formula
at the derived saturation and value. -/
theorem from_Hwb_near (h w b : RF M) (k : ℕ) (hk : k < 360) (hh : h.val = k) {W B : ℝ}
    (hw : |w.val - W| ≤ 1e-12) (hb : |b.val - B| ≤ 1e-12) (hW0 : 0 ≤ W) (hB0 : 0 ≤ B)
    (hWB : W + B ≤ 100) (hB1 : 100 / 255 ≤ 100 - B) :
    ∃ y1 y2 y3 : ℝ,
      Rgb.from_Hwb (⟨h, w, b⟩ : Hwb (RF M)) = ⟨Real.toU8 y1, Real.toU8 y2, Real.toU8 y3⟩ ∧
      |y1 - 255 * (hsvSector k ((1 - W / 100 / (1 - B / 100)) * 100) ((1 - B / 100) * 100)).1| ≤ 3e-8 ∧
      |y2 - 255 * (hsvSector k ((1 - W / 100 / (1 - B / 100)) * 100) ((1 - B / 100) * 100)).2.1| ≤ 3e-8 ∧
      |y3 - 255 * (hsvSector k ((1 - W / 100 / (1 - B / 100)) * 100) ((1 - B / 100) * 100)).2.2| ≤ 3e-8 := by
  obtain ⟨es, ev⟩ := hwb_sv_near M hw hb hW0 hB0 hWB hB1
  rw [← hwbS_val] at es
  rw [← hwbV_val] at ev
  rw [from_Hwb_eq]
  have hdpos : 0 < 1 - B / 100 := by linarith
  have hq0 : 0 ≤ W / 100 / (1 - B / 100) := div_nonneg (by positivity) hdpos.le
  have hq1 : W / 100 / (1 - B / 100) ≤ 1 := by rw [div_le_one hdpos]; linarith
  exact from_Hsv_near M h (hwbS w b) (hwbV b) k hk hh es (by nlinarith) (by nlinarith) ev (by nlinarith) (by nlinarith)

/-! ## the round trip: the hue of the rounded model and the waves -/

/-- the hue of the rounded model is a whole number `k < 360` of degrees, and every 1-Lipschitz wave `T` with
`T 0 = T 6` evaluated at `k/60` is within `1/120 + 1e-13` of its value at the exact hexcone angle (half a degree of
rounding, at a tie of `round` possibly on the other side, plus `1e-12` degrees of rounding error before `round`) -/
theorem hue_T_close (c : Rgb) (hr : c.r ≤ 255) (hg : c.g ≤ 255) (hb : c.b ≤ 255) :
    ∃ k : ℕ, k < 360 ∧ (F64.from_Rgb (α := RF M) c).val = k ∧
      ∀ T : ℝ → ℝ, (∀ x y, |T x - T y| ≤ |x - y|) → T 0 = T 6 →
        |T ((k : ℝ) / 60) - T (hexAngle c / 60)| ≤ 1 / 120 + 1e-13 := by
  obtain ⟨e, he, k0, hk0, hk360, hval⟩ := hue_sharp_fp M c hr hg hb
  obtain ⟨a0, a1⟩ := hexAngle_range c
  have he' := abs_le.mp he
  obtain ⟨k', hk', h1, h2⟩ := FpHexcone.roundHA_nat' (x := hexAngle c + e) (by linarith [he'.1])
  have : k' = k0 := by exact_mod_cast hk'.symm.trans hk0
  subst this
  refine ⟨k' % 360, Nat.mod_lt _ (by norm_num), hval, ?_⟩
  intro T hlip hw
  have e1 : T (((k' % 360 : ℕ) : ℝ) / 60) = T ((k' : ℝ) / 60) := by
    rcases Nat.lt_or_eq_of_le hk360 with hlt | heq
    · rw [Nat.mod_eq_of_lt hlt]
    · subst heq
      norm_num
      exact hw
  rw [e1]
  refine le_trans (hlip _ _) ?_
  rw [abs_le]; constructor <;> linarith [he'.1, he'.2]

/-- from the pre-quantisation value of the rounded model to the original channel: within `2.2` -/
theorem chan_close {y cm cM Tk Ta : ℝ} {n : ℕ} (hy : |y - 255 * (cm / 255 + (cM - cm) / 255 * Tk)| ≤ 3e-8)
    (hn : (n : ℝ) = cm + (cM - cm) * Ta) (hT : |Tk - Ta| ≤ 1 / 120 + 1e-13) (h0 : 0 ≤ cm) (h1 : cm ≤ cM) (h2 : cM ≤ 255) :
    |y - n| ≤ 2.2 := by
  rw [hn]
  have e : 255 * (cm / 255 + (cM - cm) / 255 * Tk) = cm + (cM - cm) * Tk := by ring
  rw [e] at hy
  rw [abs_le] at hy hT ⊢
  have hd0 : 0 ≤ cM - cm := by linarith
  have hd1 : cM - cm ≤ 255 := by linarith
  constructor <;> nlinarith

end FpHexRev
