import LymuiVerif.Lemmas.FpCie
import LymuiVerif.Lemmas.FpXyz
import LymuiVerif.Lemmas.RequantF1a
import LymuiVerif.Lemmas.CieRtF1b
/-!
# The computed XYZ of an 8-bit colour, and re-quantisation stability, in `RF M` (used by `Props.C02_fp_cie`)

* `xyz_d65_fp`: the computed `Xyz.from_rgb c D65` has components in `[0, 1.1]` (exactly non-negative: every
  coefficient and every linear-light value is non-negative and rounding is monotone), within `2e-13` of the
  real model's.
* `xyz_cone_fp`: for a non-black colour the computed luminance is at least `2e-5` and `X ≤ 2.6·Y`,
  `Z ≤ 13.3·Y` (real model: `2.5`, `13.2` on the sRGB cone).
* `as_rgb_fp_of_near`: **re-quantisation is stable in every model**: a COMPUTED XYZ (any value of `RF M`)
  within `1e-5` of the real-model XYZ of an 8-bit colour `c` is converted by `as_rgb · D65`, evaluated in
  `RF M`, to exactly `c`.  (Real-model margin: `Lemmas.RequantF1a.requant_pre_close`, 0.3 of a level for a
  distance `≤ 1.7e-5`; the computed pre-quantisation values differ from the real ones by at most 0.02,
  `Lemmas.FpXyz.srgb_enc_fp`; the linear values stay `≥ 6e-5` clear of the encoder's threshold.)
-/
namespace FpCieXyz
open Gen FpErr FpLin FpCie Lemmas.Matrix Lemmas.XyzDispatch Lemmas.FpXyz

section
variable (M : FPModel)

/-- levels `≤ 10` decode to at most `0.00304`, levels `≥ 11` to more than `0.0033`: a linear value within
`6e-5` of a decoded level is clear of the encoder threshold `0.0031308` -/
theorem srgb_lin_gap_wide (n : ℕ) (hn : n ≤ 255) (v : ℝ)
    (hv : |v - F64.compute_srgb_gamma_expanded ((n:ℝ)/255)| ≤ 6e-5) :
    (v ≤ 0.0031 ∨ 0.0032 ≤ v) ∧ -1 ≤ v ∧ v ≤ 1.1 := by
  obtain ⟨hv1, hv2⟩ := abs_le.mp hv
  have hn' : (n:ℝ) ≤ 255 := by exact_mod_cast hn
  have hn0 : (0:ℝ) ≤ n := Nat.cast_nonneg n
  have h01 := dec_level_le_one .D65 hn
  have h00 := dec_level_nonneg .D65 n
  simp only [dec] at h01 h00
  refine ⟨?_, by linarith, by linarith⟩
  by_cases h10 : n ≤ 10
  · left
    have h10' : (n:ℝ) ≤ 10 := by exact_mod_cast h10
    rw [Lemmas.Curves.srgb_dec_lin (by linarith)] at hv2
    have : (n:ℝ) / 255 / 12.92 ≤ 0.00304 := by
      rw [div_div, div_le_iff₀ (by norm_num)]; linarith
    linarith
  · right
    rw [not_le] at h10
    have h11 : (11:ℝ) ≤ n := by exact_mod_cast h10
    have hlv : (11:ℝ)/255 ≤ (n:ℝ)/255 := by apply div_le_div_of_nonneg_right h11 (by norm_num)
    rw [Lemmas.Curves.srgb_dec_pow (by linarith)] at hv1
    have f : (0.0033:ℝ) < (((11:ℝ)/255 + 0.055) / 1.055) ^ (2.4:ℝ) := by
      rw [show (2.4:ℝ) = ((12:ℕ):ℝ)/((5:ℕ):ℝ) by norm_num]
      exact Lemmas.Rpow.lt_rpow_of_pow_lt (by norm_num) (by norm_num) 12 5 (by norm_num) (by norm_num)
    have g : (((11:ℝ)/255 + 0.055) / 1.055) ^ (2.4:ℝ) ≤ (((n:ℝ)/255 + 0.055) / 1.055) ^ (2.4:ℝ) :=
      Real.rpow_le_rpow (by norm_num) (div_le_div_of_nonneg_right (by linarith) (by norm_num)) (by norm_num)
    linarith

/-- the real D65 forward product of a vector of the unit cube lies in `[0, 1.09]³` -/
theorem fwd_range_d65 (l : V3) (h0 : 0 ≤ l.1) (h0' : l.1 ≤ 1) (h1 : 0 ≤ l.2.1) (h1' : l.2.1 ≤ 1)
    (h2 : 0 ≤ l.2.2) (h2' : l.2.2 ≤ 1) (i : Fin 3) :
    0 ≤ V3.get (mulVec (fwd .D65) l) i ∧ V3.get (mulVec (fwd .D65) l) i ≤ 109 / 100 := by
  obtain ⟨l0, l1, l2⟩ := l
  simp only at h0 h0' h1 h1' h2 h2'
  fin_cases i <;> unfold_consts <;> constructor <;> norm_num <;> linarith

/-- the computed linear-light value of a byte is non-negative -/
theorem dec_nonneg_fp (n : ℕ) (hn : n ≤ 255) : 0 ≤ (decF M .D65 (lvlF M n)).val := by
  rcases Nat.eq_zero_or_pos n with h | h
  · rw [h, dec_zero_fp]
  · have d := dec_fp M .D65 n hn
    have h1 : dec .D65 (((1 : ℕ) : ℝ) / 255) ≤ dec .D65 ((n : ℝ) / 255) := by
      rcases Nat.eq_or_lt_of_le h with h' | h'
      · rw [← h']
      · exact (dec_level_lt .D65 h').le
    have h2 : dec .D65 (((1 : ℕ) : ℝ) / 255) = ((1 : ℕ) : ℝ) / 255 / 12.92 := by
      simp only [dec]; rw [Lemmas.Curves.srgb_dec_lin (by norm_num)]
    rw [h2] at h1
    have := (abs_le.mp d).1
    norm_num at h1 this ⊢
    linarith

theorem dotF_nonneg (m v : RF M × RF M × RF M) (m1 : 0 ≤ m.1.val) (m2 : 0 ≤ m.2.1.val) (m3 : 0 ≤ m.2.2.val)
    (v1 : 0 ≤ v.1.val) (v2 : 0 ≤ v.2.1.val) (v3 : 0 ≤ v.2.2.val) : 0 ≤ (dotF M m v).val := by
  simp only [dotF, FltRF.add_val, FltRF.mul_val]
  exact rnd_nonneg M (add_nonneg (rnd_nonneg M (add_nonneg (rnd_nonneg M (mul_nonneg m1 v1))
    (rnd_nonneg M (mul_nonneg m2 v2)))) (rnd_nonneg M (mul_nonneg m3 v3)))

/-- **the computed XYZ of an 8-bit colour (D65)**: components in `[0, 1.1]`, within `2e-13` of the real model -/
theorem xyz_d65_fp (c : Rgb) (hr : c.r ≤ 255) (hg : c.g ≤ 255) (hb : c.b ≤ 255) :
    let x := Xyz.from_rgb (α := RF M) c .D65
    let xr := Xyz.from_rgb (α := ℝ) c .D65
    (0 ≤ x.x.val ∧ x.x.val ≤ 11 / 10 ∧ |x.x.val - xr.x| ≤ 2e-13) ∧
    (0 ≤ x.y.val ∧ x.y.val ≤ 11 / 10 ∧ |x.y.val - xr.y| ≤ 2e-13) ∧
    (0 ≤ x.z.val ∧ x.z.val ≤ 11 / 10 ∧ |x.z.val - xr.z| ≤ 2e-13) := by
  intro x xr
  obtain ⟨f1, f2, f3⟩ := xyz_fp_close M .D65 c hr hg hb
  have hrng := fwd_range_d65 (lin .D65 c) (dec_level_nonneg .D65 c.r) (dec_level_le_one .D65 hr)
    (dec_level_nonneg .D65 c.g) (dec_level_le_one .D65 hg) (dec_level_nonneg .D65 c.b) (dec_level_le_one .D65 hb)
  have g1 := hrng 0
  have g2 := hrng 1
  have g3 := hrng 2
  simp only [V3.get] at g1 g2 g3
  have l1 := dec_nonneg_fp M c.r hr
  have l2 := dec_nonneg_fp M c.g hg
  have l3 := dec_nonneg_fp M c.b hb
  have pos : ∀ (b : UInt64) (n d : ℕ), 0 ≤ (Flt.lit b n d : RF M).val := by
    intro b n d; simp only [FltRF.lit_val]; exact rnd_nonneg M (by positivity)
  have n1 : 0 ≤ (xyzF M .D65 c).1.val := by
    apply dotF_nonneg M _ _ _ _ _ l1 l2 l3 <;> simp only [fwdF, C.X65] <;> apply pos
  have n2 : 0 ≤ (xyzF M .D65 c).2.1.val := by
    apply dotF_nonneg M _ _ _ _ _ l1 l2 l3 <;> simp only [fwdF, C.Y65] <;> apply pos
  have n3 : 0 ≤ (xyzF M .D65 c).2.2.val := by
    apply dotF_nonneg M _ _ _ _ _ l1 l2 l3 <;> simp only [fwdF, C.Z65] <;> apply pos
  have ex : x = ⟨(xyzF M .D65 c).1, (xyzF M .D65 c).2.1, (xyzF M .D65 c).2.2⟩ := from_rgb_eq_fp' M .D65 c
  have exr : xr = toXyz (mulVec (fwd .D65) (lin .D65 c)) := from_rgb_eq .D65 c
  rw [ex, exr]
  simp only [toXyz]
  obtain ⟨a1, a2⟩ := abs_le.mp f1
  obtain ⟨a3, a4⟩ := abs_le.mp f2
  obtain ⟨a5, a6⟩ := abs_le.mp f3
  refine ⟨⟨n1, ?_, f1⟩, ⟨n2, ?_, f2⟩, ⟨n3, ?_, f3⟩⟩ <;> norm_num at * <;> linarith

/-- **re-quantisation is stable in every model** (D65): a computed XYZ within `1e-5` of the real-model XYZ of
an 8-bit colour converts back, in `RF M`, to exactly that colour -/
theorem as_rgb_fp_of_near (c : Rgb) (hr : c.r ≤ 255) (hg : c.g ≤ 255) (hb : c.b ≤ 255) (x : Xyz (RF M))
    (hx : Lemmas.RequantF1a.Near 1e-5 (⟨x.x.val, x.y.val, x.z.val⟩ : Xyz ℝ) (Xyz.from_rgb c XyzKind.D65)) :
    Xyz.as_rgb x XyzKind.D65 = c := by
  set xr : Xyz ℝ := ⟨x.x.val, x.y.val, x.z.val⟩ with hxr
  have hpre := fun i => Lemmas.RequantF1a.requant_pre_close c hr hg hb xr (hx.mono (by norm_num)) i
  have hlin := fun i => Lemmas.RequantF1a.lin_close .D65 3e-7 (roundtrip_lin .D65) c hr hg hb xr 1e-5 hx i
  -- magnitude of the computed XYZ
  have hx' := hx
  rw [from_rgb_eq] at hx'
  obtain ⟨x1, x2, x3⟩ := hx'
  simp only [toXyz, xr] at x1 x2 x3
  have hrng := fwd_range_d65 (lin .D65 c) (dec_level_nonneg .D65 c.r) (dec_level_le_one .D65 hr)
    (dec_level_nonneg .D65 c.g) (dec_level_le_one .D65 hg) (dec_level_nonneg .D65 c.b) (dec_level_le_one .D65 hb)
  have g1 := hrng 0
  have g2 := hrng 1
  have g3 := hrng 2
  simp only [V3.get] at g1 g2 g3
  have b1 : |(ofXyz xr).1| ≤ 3 := by
    simp only [ofXyz, xr]; rw [abs_le]; obtain ⟨a1, a2⟩ := abs_le.mp x1; constructor <;> norm_num at * <;> linarith
  have b2 : |(ofXyz xr).2.1| ≤ 3 := by
    simp only [ofXyz, xr]; rw [abs_le]; obtain ⟨a1, a2⟩ := abs_le.mp x2; constructor <;> norm_num at * <;> linarith
  have b3 : |(ofXyz xr).2.2| ≤ 3 := by
    simp only [ofXyz, xr]; rw [abs_le]; obtain ⟨a1, a2⟩ := abs_le.mp x3; constructor <;> norm_num at * <;> linarith
  obtain ⟨r1, r2, r3⟩ := rev_rows M .D65
  have z : ∀ t : ℝ, |t - t| ≤ 0 := fun t => by simp
  have q1 := dot3_close' M r1 (v := (x.x, x.y, x.z)) (x := ofXyz xr) (e := 0) (z _) (z _) (z _) b1 b2 b3 (by norm_num)
  have q2 := dot3_close' M r2 (v := (x.x, x.y, x.z)) (x := ofXyz xr) (e := 0) (z _) (z _) (z _) b1 b2 b3 (by norm_num)
  have q3 := dot3_close' M r3 (v := (x.x, x.y, x.z)) (x := ofXyz xr) (e := 0) (z _) (z _) (z _) b1 b2 b3 (by norm_num)
  have l1 := hlin 0
  have l2 := hlin 1
  have l3 := hlin 2
  have p1 := hpre 0
  have p2 := hpre 1
  have p3 := hpre 2
  simp only [V3.get, mulVec, lin, Lemmas.RequantF1a.revNorm, pre, chan, enc] at l1 l2 l3 p1 p2 p3
  obtain ⟨s1, s2, s3⟩ := srgb_lin_gap_wide c.r hr _ (l1.trans (by norm_num))
  obtain ⟨t1, t2, t3⟩ := srgb_lin_gap_wide c.g hg _ (l2.trans (by norm_num))
  obtain ⟨u1, u2, u3⟩ := srgb_lin_gap_wide c.b hb _ (l3.trans (by norm_num))
  have e1 := srgb_enc_fp M _ _ _ (lit255_val M) (q1.trans (by norm_num)) s1 s2 s3
  have e2 := srgb_enc_fp M _ _ _ (lit255_val M) (q2.trans (by norm_num)) t1 t2 t3
  have e3 := srgb_enc_fp M _ _ _ (lit255_val M) (q3.trans (by norm_num)) u1 u2 u3
  rw [as_rgb_eq_fp]
  have k1 : |(preF M .D65 (x.x, x.y, x.z)).1.val - (c.r : ℝ)| < 1 / 2 := by
    have := abs_sub_le (preF M .D65 (x.x, x.y, x.z)).1.val
      (F64.apply_srgb_gamma_correction (dot (rev .D65).1 (ofXyz xr)) * 255) (c.r : ℝ)
    have e1' : |(preF M .D65 (x.x, x.y, x.z)).1.val -
        F64.apply_srgb_gamma_correction (dot (rev .D65).1 (ofXyz xr)) * 255| ≤ 0.02 := e1
    norm_num at p1 e1' this ⊢
    linarith
  have k2 : |(preF M .D65 (x.x, x.y, x.z)).2.1.val - (c.g : ℝ)| < 1 / 2 := by
    have := abs_sub_le (preF M .D65 (x.x, x.y, x.z)).2.1.val
      (F64.apply_srgb_gamma_correction (dot (rev .D65).2.1 (ofXyz xr)) * 255) (c.g : ℝ)
    have e2' : |(preF M .D65 (x.x, x.y, x.z)).2.1.val -
        F64.apply_srgb_gamma_correction (dot (rev .D65).2.1 (ofXyz xr)) * 255| ≤ 0.02 := e2
    norm_num at p2 e2' this ⊢
    linarith
  have k3 : |(preF M .D65 (x.x, x.y, x.z)).2.2.val - (c.b : ℝ)| < 1 / 2 := by
    have := abs_sub_le (preF M .D65 (x.x, x.y, x.z)).2.2.val
      (F64.apply_srgb_gamma_correction (dot (rev .D65).2.2 (ofXyz xr)) * 255) (c.b : ℝ)
    have e3' : |(preF M .D65 (x.x, x.y, x.z)).2.2.val -
        F64.apply_srgb_gamma_correction (dot (rev .D65).2.2 (ofXyz xr)) * 255| ≤ 0.02 := e3
    norm_num at p3 e3' this ⊢
    linarith
  rw [Lemmas.Curves.quant_eq c.r hr _ k1, Lemmas.Curves.quant_eq c.g hg _ k2, Lemmas.Curves.quant_eq c.b hb _ k3]

/-- every 8-bit colour other than black has luminance at least `2e-5` (real model; the darkest is `(0,0,1)`:
`0.072175·(1/255)/12.92 ≈ 2.19e-5`) -/
theorem y_lower_of_ne_black (c : Rgb) (h : ¬ (c.r = 0 ∧ c.g = 0 ∧ c.b = 0)) :
    2 / 10 ^ 5 ≤ (Xyz.from_rgb c XyzKind.D65 : Xyz ℝ).y := by
  rw [from_rgb_eq]
  have r0 := dec_level_nonneg .D65 c.r
  have g0 := dec_level_nonneg .D65 c.g
  have b0 := dec_level_nonneg .D65 c.b
  have pos : ∀ n : ℕ, n ≠ 0 → 1 / 255 / 12.92 ≤ dec .D65 ((n : ℝ) / 255) := by
    intro n hn
    have hp := Nat.pos_of_ne_zero hn
    have h1 : dec .D65 (((1 : ℕ) : ℝ) / 255) ≤ dec .D65 ((n : ℝ) / 255) := by
      rcases Nat.eq_or_lt_of_le hp with h' | h'
      · rw [← h']
      · exact (dec_level_lt .D65 h').le
    have h2 : dec .D65 (((1 : ℕ) : ℝ) / 255) = ((1 : ℕ) : ℝ) / 255 / 12.92 := by
      simp only [dec]; rw [Lemmas.Curves.srgb_dec_lin (by norm_num)]
    rw [h2] at h1
    simpa using h1
  simp only [toXyz, mulVec, dot, lin, fwd, C.Y65, FltReal.lit_eq]
  by_cases h1 : c.r = 0
  · by_cases h2 : c.g = 0
    · have h3 : c.b ≠ 0 := fun h3 => h ⟨h1, h2, h3⟩
      have := pos _ h3
      norm_num at this ⊢; nlinarith
    · have := pos _ h2
      norm_num at this ⊢; nlinarith
  · have := pos _ h1
    norm_num at this ⊢; nlinarith

/-- the computed XYZ of a non-black 8-bit colour: `Y ≥ 1.9e-5`, `X ≤ 2.6·Y`, `Z ≤ 13.3·Y` -/
theorem xyz_cone_fp (c : Rgb) (hr : c.r ≤ 255) (hg : c.g ≤ 255) (hb : c.b ≤ 255)
    (h : ¬ (c.r = 0 ∧ c.g = 0 ∧ c.b = 0)) :
    let x := Xyz.from_rgb (α := RF M) c .D65
    19 / 10 ^ 6 ≤ x.y.val ∧ x.x.val ≤ 26 / 10 * x.y.val ∧ x.z.val ≤ 133 / 10 * x.y.val := by
  intro x
  obtain ⟨⟨-, -, a2⟩, ⟨-, -, b2⟩, ⟨-, -, c2⟩⟩ := xyz_d65_fp M c hr hg hb
  have hy := y_lower_of_ne_black c h
  obtain ⟨k1, k2⟩ := Lemmas.CieRtF1b.srgb_cone_ratios c
  obtain ⟨a3, a4⟩ := abs_le.mp a2
  obtain ⟨b3, b4⟩ := abs_le.mp b2
  obtain ⟨c3, c4⟩ := abs_le.mp c2
  refine ⟨?_, ?_, ?_⟩ <;> norm_num at * <;> linarith

/-- **xyY round trip in `RF M`**: `X, Z ≥ 0`, `Y ≥ 1e-5`, all `≤ 1.1`, `X ≤ 2.6·Y`, `Z ≤ 13.3·Y` (so that the
chromaticity `y ≥ 0.059` is away from the code's guard `y == 0` and the divisions by it are well
conditioned): `X`, `Z` come back within `2e-12`, `Y` exactly -/
theorem xyy_roundtrip_fp (x : Xyz (RF M)) (hx0 : 0 ≤ x.x.val) (hy0 : 1 / 10 ^ 5 ≤ x.y.val) (hy1 : x.y.val ≤ 11 / 10)
    (hz0 : 0 ≤ x.z.val) (hxc : x.x.val ≤ 26 / 10 * x.y.val) (hzc : x.z.val ≤ 133 / 10 * x.y.val) :
    |(Xyz.from_Xyy (Xyy.from_Xyz x)).x.val - x.x.val| ≤ 2 / 10 ^ 12 ∧
    (Xyz.from_Xyy (Xyy.from_Xyz x)).y.val = x.y.val ∧
    |(Xyz.from_Xyy (Xyy.from_Xyz x)).z.val - x.z.val| ≤ 2 / 10 ^ 12 := by
  set X := x.x.val with hX
  set Y := x.y.val with hY
  set Z := x.z.val with hZ
  have hYp : 0 < Y := by linarith
  have hS0 : 0 < X + Y + Z := by linarith
  have hS : 1e-100 ≤ X + Y + Z := by norm_num at hy0 ⊢; linarith
  have hn : ¬ (x.x.val = 0 ∧ x.y.val = 0 ∧ x.z.val = 0) := fun h => by rw [← hY] at h; linarith [h.2.1]
  have e : Xyy.from_Xyz x = ⟨x.x / ((x.x + x.y) + x.z), x.y / ((x.x + x.y) + x.z), x.y⟩ := by
    simp only [Xyy.from_Xyz, Xyy.get_fields_from_xyz, Xyy.compute_xyy, is_null_fp, hn, decide_false,
      Bool.false_eq_true, if_false, Option.getD_some]
  have cx := chroma_fp M hx0 (by linarith) hz0 hS hx0 (by linarith)
  have cy := chroma_fp M hx0 (by linarith : 0 ≤ Y) hz0 hS hYp.le (by linarith)
  have qy : 59 / 1000 ≤ Y / (X + Y + Z) := by rw [le_div_iff₀ hS0]; linarith
  have qy1 : Y / (X + Y + Z) ≤ 1 := by rw [div_le_one hS0]; linarith
  have qx0 : 0 ≤ X / (X + Y + Z) := div_nonneg hx0 hS0.le
  have qx1 : X / (X + Y + Z) ≤ 1 := by rw [div_le_one hS0]; linarith
  set xc := M.rnd (X / M.rnd (M.rnd (X + Y) + Z)) with hxc'
  set yc := M.rnd (Y / M.rnd (M.rnd (X + Y) + Z)) with hyc'
  have hycne : ¬ yc = 0 := by
    have := (abs_le.mp cy).1; intro h0; rw [h0] at this; norm_num at this; linarith
  have nxc : Near xc (X / (X + Y + Z)) (1 / 10 ^ 15) 1 := ⟨cx, by rw [abs_of_nonneg qx0]; exact qx1, le_rfl⟩
  have nyc : Near yc (Y / (X + Y + Z)) (1 / 10 ^ 15) 1 :=
    ⟨cy, by rw [abs_of_nonneg (by linarith)]; exact qy1, le_rfl⟩
  have nY : Near Y Y 0 (11 / 10) := Near.exact (by rw [abs_of_pos hYp]; exact hy1) (by norm_num)
  have n1 : Near ((1 : ℕ) : ℝ) 1 0 1 := ⟨by simp, by simp, le_rfl⟩
  have hm : (59 / 1000 : ℝ) ≤ |Y / (X + Y + Z)| := by rw [abs_of_nonneg (by linarith)]; exact qy
  have hXb : X ≤ 286 / 100 := by linarith
  have hZb : Z ≤ 1463 / 100 := by linarith
  have tX : X / (X + Y + Z) * Y / (Y / (X + Y + Z)) = X := by field_simp
  have tZ : (1 - X / (X + Y + Z) - Y / (X + Y + Z)) * Y / (Y / (X + Y + Z)) = Z := by field_simp; ring
  rw [e]
  unfold Xyz.from_Xyy
  simp only [FltRF.beq_eq, FltRF.lit_val, lit_zero, FltRF.div_val, FltRF.add_val, decide_eq_true_eq]
  rw [if_neg hycne]
  simp only [FltRF.div_val, FltRF.mul_val, FltRF.sub_val, FltRF.add_val, FltRF.lit_val]
  rw [lit_int M 1 (by norm_num)]
  refine ⟨?_, rfl, ?_⟩
  · have n := (nxc.mul M nY).div M nyc (m := 59 / 1000) (Bq := 3) hm (by norm_num)
      (by rw [tX, abs_of_nonneg hx0]; linarith) (by norm_num)
    exact n.finish tX (by norm_num [FP.eps])
  · have n := (((n1.sub M nxc).sub M nyc).mul M nY).div M nyc (m := 59 / 1000) (Bq := 15) hm (by norm_num [FP.eps])
      (by rw [tZ, abs_of_nonneg hz0]; linarith) (by norm_num)
    exact n.finish tZ (by norm_num [FP.eps])


/-- **xyY round trip of black in `RF M`**: `(0,0,0)` takes the `is_null` guard (white-point chromaticity,
`Y = 0`); the reverse tests the chromaticity `y == 0` (false: `rnd 0.32902 ≥ 0.3`) and returns exact zeros -/
theorem xyy_roundtrip_black_fp (x : Xyz (RF M)) (h1 : x.x.val = 0) (h2 : x.y.val = 0) (h3 : x.z.val = 0) :
    (Xyz.from_Xyy (Xyy.from_Xyz x)).x.val = 0 ∧ (Xyz.from_Xyy (Xyy.from_Xyz x)).y.val = 0 ∧
    (Xyz.from_Xyy (Xyy.from_Xyz x)).z.val = 0 := by
  have e : Xyy.from_Xyz x = ⟨C.CHROMA_X, C.CHROMA_Y, x.y⟩ := by
    simp only [Xyy.from_Xyz, Xyy.get_fields_from_xyz, Xyy.compute_xyy, is_null_fp, h1, h2, h3, and_self,
      decide_true, if_true, Option.getD_none]
  have hy : ¬ M.rnd (((16451 : ℕ) : ℝ) / ((50000 : ℕ) : ℝ)) = 0 := by
    have := (abs_le.mp (lit_close M 16451 50000 (B := 1) (by norm_num) (by norm_num))).1
    intro h0; rw [h0] at this; norm_num [FP.eps] at this
  rw [e]
  unfold Xyz.from_Xyy
  simp only [C.CHROMA_Y, FltRF.beq_eq, FltRF.lit_val, lit_zero, decide_eq_true_eq]
  rw [if_neg hy]
  simp only [FltRF.div_val, FltRF.mul_val, h2, mul_zero, rnd_zero, zero_div, and_self]

end
end FpCieXyz
