import LymuiVerif.Lemmas.FpOverflowRgb
/-!
# No overflow in the rounded model (C04 "no infinity"): the spaces derived from XYZ

`x_from_xyz`: `X.from_Xyz (liftXyz p) = liftX (X.from_Xyz p)` for `p : Xyz (RF M)` whose components have magnitude
`≤ 4` (`xyz_bd`: true of the computed XYZ of every 8-bit colour, under every profile), plus the sign conditions of
`Lemmas/FpDefinedXyz.lean` (`XyzOK`, non-negative BT.2020 components).  `x_bd`: crude magnitudes of the results, where
they are used further (polar forms, OkLab).

Largest intermediates (crude bounds, every model): OkLab `powf(max(v,0), 2.2)` with `|v| ≤ 1e5` bounded by `1e41`;
CIELUV `u' = 4x/(x+15y+3z)` with divisor `≥ 1e-11`, `u = 13·l·(u' − u'_n)` bounded by `1e20`; PQ `powf(q, 1/m1)` with
`q ≤ 2e6`, `1/m1 ≤ 6.4` bounded by `1e51`.  All far below `10^250 ≤ 2^1023`.
-/
set_option linter.unusedSimpArgs false
set_option linter.unusedVariables false
namespace Lemmas.FpOverflow
open Gen Lemmas.FpDefined
variable {M : FPModel}

theorem liftXyz_x (p : Xyz (RF M)) : (liftXyz p).x = RF.liftO p.x := rfl
theorem liftXyz_y (p : Xyz (RF M)) : (liftXyz p).y = RF.liftO p.y := rfl
theorem liftXyz_z (p : Xyz (RF M)) : (liftXyz p).z = RF.liftO p.z := rfl

/-! ## the RGB encodings -/

theorem srgb_from_xyz (p : Xyz (RF M)) (hx : |p.x.val| ≤ 4) (hy : |p.y.val| ≤ 4) (hz : |p.z.val| ≤ 4) :
    Srgb.from_Xyz (liftXyz p) = liftSrgb (Srgb.from_Xyz p) := by
  simp (disch := o_side) only [Srgb.from_Xyz, liftXyz_x, liftXyz_y, liftXyz_z, liftSrgb, C.RX65, C.RY65, C.RZ65, ho_lit,
    ho_neg, ho_mul, ho_add, srgb_correct]

theorem srgb_xyz_bd (p : Xyz (RF M)) (hx : |p.x.val| ≤ 4) (hy : |p.y.val| ≤ 4) (hz : |p.z.val| ≤ 4) :
    |(Srgb.from_Xyz p).r.val| ≤ 10 ^ 5 ∧ |(Srgb.from_Xyz p).g.val| ≤ 10 ^ 5 ∧ |(Srgb.from_Xyz p).b.val| ≤ 10 ^ 5 := by
  simp only [Srgb.from_Xyz, C.RX65, C.RY65, C.RZ65]
  refine ⟨srgb_correct_bd _ ?_, srgb_correct_bd _ ?_, srgb_correct_bd _ ?_⟩ <;> nbound

theorem argb_from_xyz (p : Xyz (RF M)) (hx : |p.x.val| ≤ 4) (hy : |p.y.val| ≤ 4) (hz : |p.z.val| ≤ 4) :
    Argb.from_Xyz (liftXyz p) = liftArgb (Argb.from_Xyz p) := by
  simp (disch := o_side) only [Argb.from_Xyz, liftXyz_x, liftXyz_y, liftXyz_z, liftArgb, C.argb_XR, C.YG, C.ZB, ho_lit,
    ho_neg, ho_mul, ho_add, argb_expand]

theorem rec709_from_xyz (p : Xyz (RF M)) (hx : |p.x.val| ≤ 4) (hy : |p.y.val| ≤ 4) (hz : |p.z.val| ≤ 4) :
    Rec709.from_Xyz (liftXyz p) = liftRec709 (Rec709.from_Xyz p) := by
  simp (disch := o_side) only [Rec709.from_Xyz, liftXyz_x, liftXyz_y, liftXyz_z, liftRec709, C.RX65, C.RY65, C.RZ65,
    ho_lit, ho_neg, ho_mul, ho_add, rec709_correct]

theorem rec2020_from_xyz (p : Xyz (RF M)) (hx : |p.x.val| ≤ 4) (hy : |p.y.val| ≤ 4) (hz : |p.z.val| ≤ 4) :
    Rec2020.from_Xyz (liftXyz p) = liftRec2020 (Rec2020.from_Xyz p) := by
  simp (disch := o_side) only [Rec2020.from_Xyz, liftXyz_x, liftXyz_y, liftXyz_z, liftRec2020, C.rec2020_XR, C.XG, C.XB,
    ho_lit, ho_neg, ho_mul, ho_add, rec2020_correct]

/-! ## CIELAB and its polar form -/

theorem compute_f_bridge (x : RF M) (hx : |x.val| ≤ 10 ^ 6) :
    Lab.compute_f (RF.liftO x) = RF.liftO (Lab.compute_f x) := by
  unfold Lab.compute_f
  simp (disch := o_side) only [ho_lit, ho_lt, ho_cbrt, ho_mul, ho_div, ho_add, ho_ite]

theorem compute_f_bd (x : RF M) (hx : |x.val| ≤ 20) : |(Lab.compute_f x).val| ≤ 1000 := by
  unfold Lab.compute_f; nbound

theorem lab_from_xyz (p : Xyz (RF M)) (hx : |p.x.val| ≤ 4) (hy : |p.y.val| ≤ 4) (hz : |p.z.val| ≤ 4) :
    Lab.from_Xyz (liftXyz p) = liftLab (Lab.from_Xyz p) := by
  have f1 := compute_f_bd (p.x / (C.D65 : RF M × RF M × RF M).1) (by simp only [C.D65]; nbound)
  have f2 := compute_f_bd (p.y / (C.D65 : RF M × RF M × RF M).2.1) (by simp only [C.D65]; nbound)
  have f3 := compute_f_bd (p.z / (C.D65 : RF M × RF M × RF M).2.2) (by simp only [C.D65]; nbound)
  simp only [C.D65] at f1 f2 f3
  simp (disch := o_side) only [Lab.from_Xyz, liftXyz_x, liftXyz_y, liftXyz_z, liftLab, C.D65, ho_lit, ho_div,
    compute_f_bridge, ho_mul, ho_sub]

theorem lab_xyz_bd (p : Xyz (RF M)) (hx : |p.x.val| ≤ 4) (hy : |p.y.val| ≤ 4) (hz : |p.z.val| ≤ 4) :
    |(Lab.from_Xyz p).l.val| ≤ 10 ^ 7 ∧ |(Lab.from_Xyz p).a.val| ≤ 10 ^ 7 ∧ |(Lab.from_Xyz p).b.val| ≤ 10 ^ 7 := by
  have f1 := compute_f_bd (p.x / (C.D65 : RF M × RF M × RF M).1) (by simp only [C.D65]; nbound)
  have f2 := compute_f_bd (p.y / (C.D65 : RF M × RF M × RF M).2.1) (by simp only [C.D65]; nbound)
  have f3 := compute_f_bd (p.z / (C.D65 : RF M × RF M × RF M).2.2) (by simp only [C.D65]; nbound)
  simp only [C.D65] at f1 f2 f3
  simp only [Lab.from_Xyz, C.D65]
  refine ⟨?_, ?_, ?_⟩ <;> nbound

theorem pi_ne : (Flt.pi : RF M).val ≠ 0 := Lemmas.FpDefined.pi_ne

theorem degree_bridge (x : RF M) (hx : |x.val| ≤ 10) :
    F64.get_degree_from_radian (RF.liftO x) = RF.liftO (F64.get_degree_from_radian x) := by
  unfold F64.get_degree_from_radian
  simp (disch := first | exact pi_ne | obound) only [ho_lit, ho_pi, ho_mul, ho_div]

theorem degree_bd (x : RF M) (hx : |x.val| ≤ 10) : |(F64.get_degree_from_radian x).val| ≤ 10 ^ 4 := by
  unfold F64.get_degree_from_radian; nbound

/-- chroma `sqrt(a.powi(2) + b.powi(2))` -/
theorem chroma_powi_bridge (a b : RF M) (ha : |a.val| ≤ 10 ^ 50) (hb : |b.val| ≤ 10 ^ 50) :
    Flt.sqrt (Flt.powi (RF.liftO a) 2 + Flt.powi (RF.liftO b) 2) = RF.liftO (Flt.sqrt (Flt.powi a 2 + Flt.powi b 2)) := by
  have h : 0 ≤ (Flt.powi a 2 + Flt.powi b 2 : RF M).val := by
    rw [FltRF.add_val]; exact FpErr.rnd_nonneg M (add_nonneg (powi2_nonneg a) (powi2_nonneg b))
  simp (disch := first | assumption | obound | norm_num) only [ho_powi, ho_add, ho_sqrt]

/-- chroma `sqrt(u*u + v*v)` -/
theorem chroma_mul_bridge (a b : RF M) (ha : |a.val| ≤ 10 ^ 50) (hb : |b.val| ≤ 10 ^ 50) :
    Flt.sqrt (RF.liftO a * RF.liftO a + RF.liftO b * RF.liftO b) = RF.liftO (Flt.sqrt (a * a + b * b)) := by
  have h : 0 ≤ (a * a + b * b : RF M).val := by
    simp only [FltRF.add_val, FltRF.mul_val]
    exact FpErr.rnd_nonneg M (add_nonneg (FpErr.rnd_nonneg M (mul_self_nonneg _)) (FpErr.rnd_nonneg M (mul_self_nonneg _)))
  simp (disch := first | assumption | obound) only [ho_mul, ho_add, ho_sqrt]

theorem liftLab_l (p : Lab (RF M)) : (liftLab p).l = RF.liftO p.l := rfl
theorem liftLab_a (p : Lab (RF M)) : (liftLab p).a = RF.liftO p.a := rfl
theorem liftLab_b (p : Lab (RF M)) : (liftLab p).b = RF.liftO p.b := rfl

theorem lchlab_from_xyz (p : Xyz (RF M)) (hx : |p.x.val| ≤ 4) (hy : |p.y.val| ≤ 4) (hz : |p.z.val| ≤ 4) :
    Lchlab.from_Xyz (liftXyz p) = liftLchlab (Lchlab.from_Xyz p) := by
  obtain ⟨b1, b2, b3⟩ := lab_xyz_bd p hx hy hz
  unfold Lchlab.from_Xyz
  rw [lab_from_xyz p hx hy hz]
  generalize Lab.from_Xyz p = q at b1 b2 b3
  have hd := degree_bd (M := M) (Flt.atan2 q.b q.a) (le_trans (bd_atan2 _ _) (by norm_num))
  simp (disch := o_side) only [liftLab_l, liftLab_a, liftLab_b, ho_atan2, degree_bridge, chroma_powi_bridge, ho_lit,
    ho_le, ho_add]
  refine ite_map liftLchlab (fun _ => rfl) (fun _ => rfl)

/-! ## OkLab and its polar form -/

theorem liftSrgb_r (p : Srgb (RF M)) : (liftSrgb p).r = RF.liftO p.r := rfl
theorem liftSrgb_g (p : Srgb (RF M)) : (liftSrgb p).g = RF.liftO p.g := rfl
theorem liftSrgb_b (p : Srgb (RF M)) : (liftSrgb p).b = RF.liftO p.b := rfl

theorem as_linear_bridge (p : Srgb (RF M)) (hr : |p.r.val| ≤ 10 ^ 5) (hg : |p.g.val| ≤ 10 ^ 5) (hb : |p.b.val| ≤ 10 ^ 5) :
    Srgb.as_linear (liftSrgb p) = liftSrgb (Srgb.as_linear p) := by
  simp (disch := o_side) only [Srgb.as_linear, liftSrgb_r, liftSrgb_g, liftSrgb_b, liftSrgb, ho_lit, ho_max,
    ho_pow_nonneg]

theorem as_linear_bd (p : Srgb (RF M)) (hr : |p.r.val| ≤ 10 ^ 5) (hg : |p.g.val| ≤ 10 ^ 5) (hb : |p.b.val| ≤ 10 ^ 5) :
    |(Srgb.as_linear p).r.val| ≤ 10 ^ 42 ∧ |(Srgb.as_linear p).g.val| ≤ 10 ^ 42 ∧ |(Srgb.as_linear p).b.val| ≤ 10 ^ 42 := by
  simp only [Srgb.as_linear]
  refine ⟨?_, ?_, ?_⟩ <;> nbound

theorem oklab_from_srgb (p : Srgb (RF M)) (hr : |p.r.val| ≤ 10 ^ 5) (hg : |p.g.val| ≤ 10 ^ 5) (hb : |p.b.val| ≤ 10 ^ 5) :
    OkLab.from_Srgb (liftSrgb p) = liftOkLab (OkLab.from_Srgb p) := by
  obtain ⟨b1, b2, b3⟩ := as_linear_bd p hr hg hb
  unfold OkLab.from_Srgb
  rw [as_linear_bridge p hr hg hb]
  generalize Srgb.as_linear p = q at b1 b2 b3
  simp (disch := o_side) only [liftSrgb_r, liftSrgb_g, liftSrgb_b, liftOkLab, C.OKSR, C.OKSG, C.OKSB, C.OKL, C.OKA,
    C.OKB, ho_lit, ho_mul, ho_add, ho_sub, ho_cbrt]

theorem oklab_srgb_bd (p : Srgb (RF M)) (hr : |p.r.val| ≤ 10 ^ 5) (hg : |p.g.val| ≤ 10 ^ 5) (hb : |p.b.val| ≤ 10 ^ 5) :
    |(OkLab.from_Srgb p).l.val| ≤ 10 ^ 50 ∧ |(OkLab.from_Srgb p).a.val| ≤ 10 ^ 50 ∧ |(OkLab.from_Srgb p).b.val| ≤ 10 ^ 50 := by
  obtain ⟨b1, b2, b3⟩ := as_linear_bd p hr hg hb
  unfold OkLab.from_Srgb
  generalize Srgb.as_linear p = q at b1 b2 b3
  simp only [C.OKSR, C.OKSG, C.OKSB, C.OKL, C.OKA, C.OKB]
  refine ⟨?_, ?_, ?_⟩ <;> nbound

theorem oklab_from_xyz (p : Xyz (RF M)) (hx : |p.x.val| ≤ 4) (hy : |p.y.val| ≤ 4) (hz : |p.z.val| ≤ 4) :
    OkLab.from_Xyz (liftXyz p) = liftOkLab (OkLab.from_Xyz p) := by
  obtain ⟨b1, b2, b3⟩ := srgb_xyz_bd p hx hy hz
  unfold OkLab.from_Xyz; rw [srgb_from_xyz p hx hy hz, oklab_from_srgb _ b1 b2 b3]

theorem liftOkLab_l (p : OkLab (RF M)) : (liftOkLab p).l = RF.liftO p.l := rfl
theorem liftOkLab_a (p : OkLab (RF M)) : (liftOkLab p).a = RF.liftO p.a := rfl
theorem liftOkLab_b (p : OkLab (RF M)) : (liftOkLab p).b = RF.liftO p.b := rfl

theorem oklch_from_oklab (p : OkLab (RF M)) (ha : |p.a.val| ≤ 10 ^ 50) (hb : |p.b.val| ≤ 10 ^ 50) :
    OkLch.from_OkLab (liftOkLab p) = liftOkLch (OkLch.from_OkLab p) := by
  simp (disch := assumption) only [OkLch.from_OkLab, liftOkLab_l, liftOkLab_a, liftOkLab_b, chroma_powi_bridge,
    ho_atan2, liftOkLch]

theorem oklch_from_xyz (p : Xyz (RF M)) (hx : |p.x.val| ≤ 4) (hy : |p.y.val| ≤ 4) (hz : |p.z.val| ≤ 4) :
    OkLch.from_Xyz (liftXyz p) = liftOkLch (OkLch.from_Xyz p) := by
  obtain ⟨b1, b2, b3⟩ := srgb_xyz_bd p hx hy hz
  obtain ⟨c1, c2, c3⟩ := oklab_srgb_bd _ b1 b2 b3
  unfold OkLch.from_Xyz
  rw [oklab_from_xyz p hx hy hz]
  exact oklch_from_oklab _ c2 c3

/-! ## PQ (Rec.2100), forward: no overflow for a non-negative input of magnitude `≤ 100`

The quotient `max(e - c1, 0) / ((c2 - c3)·e)`: either `e ≤ c1` and the numerator is exactly `0`, or `e > c1 ≥ 0.4` and
the computed divisor is `≥ 1/100` (`c2 - c3` computed `≥ 0.08`).  So the quotient is `≤ 1e8` although the divisor may be
as small as the underflow threshold when `e` is (the guard `divider == 0` does not exclude `e = 2^-1075`). -/

theorem pq_eotf_nonneg (x : RF M) (hx : 0 ≤ x.val) (hxB : |x.val| ≤ 100) :
    F64.pq_eotf (RF.liftO x) = RF.liftO (F64.pq_eotf x) := by
  unfold F64.pq_eotf
  have e1 : Flt.pow (RF.liftO x) ((Flt.lit 0x3FF0000000000000 1 1) / (Flt.lit 0x4053B60000000000 2523 32)) =
      RF.liftO (Flt.pow x ((Flt.lit 0x3FF0000000000000 1 1) / (Flt.lit 0x4053B60000000000 2523 32))) := by
    simp (disch := o_side) only [ho_lit, ho_div, ho_pow_nonneg]
  simp only [e1]
  have he0 : 0 ≤ (Flt.pow x ((Flt.lit 0x3FF0000000000000 1 1) / (Flt.lit 0x4053B60000000000 2523 32)) : RF M).val := by
    rw [FltRF.pow_val]; exact M.pow_nonneg _ _ hx
  have heB : |(Flt.pow x ((Flt.lit 0x3FF0000000000000 1 1) / (Flt.lit 0x4053B60000000000 2523 32)) : RF M).val| ≤
      10 ^ 5 := by nbound
  generalize (Flt.pow x ((Flt.lit 0x3FF0000000000000 1 1) / (Flt.lit 0x4053B60000000000 2523 32)) : RF M) = e
    at he0 heB
  simp (disch := o_side) only [ho_lit, ho_sub, ho_mul, ho_max, ho_beq]
  refine iteo_bridge (fun h => ?_) (fun h => ?_)
  · rfl
  · simp only [FltRF.beq_eq, decide_eq_false_iff_not, lit_zero] at h
    have hexp : 0 < (Flt.lit 0x3FF0000000000000 1 1 / Flt.lit 0x3FC4640000000000 1305 8192 : RF M).val := by lit_side
    have hk : 0.08 ≤ (Flt.lit 0x4032DA0000000000 2413 128 - Flt.lit 0x4032B00000000000 299 16 : RF M).val := by
      simp only [FltRF.sub_val, FltRF.lit_val]
      have g1 := rnd_ge (M := M) (x := ((2413 : ℕ) : ℝ) / ((128 : ℕ) : ℝ)) (by norm_num)
      have g2 := rnd_le (M := M) (x := ((299 : ℕ) : ℝ) / ((16 : ℕ) : ℝ)) (by norm_num)
      have e : FP.eps = 1.2e-16 := rfl
      rw [e] at g1 g2
      have d : 0.16 ≤ M.rnd (((2413 : ℕ) : ℝ) / ((128 : ℕ) : ℝ)) - M.rnd (((299 : ℕ) : ℝ) / ((16 : ℕ) : ℝ)) := by
        norm_num at g1 g2 ⊢; linarith
      have := rnd_half (M := M) (x := M.rnd (((2413 : ℕ) : ℝ) / ((128 : ℕ) : ℝ)) - M.rnd (((299 : ℕ) : ℝ) / ((16 : ℕ) : ℝ)))
        (le_trans (by norm_num) d)
      linarith
    have hk0 : 0 ≤ (Flt.lit 0x4032DA0000000000 2413 128 - Flt.lit 0x4032B00000000000 299 16 : RF M).val :=
      le_trans (by norm_num) hk
    have hnum0 : e.val ≤ (Flt.lit 0x3FEAC00000000000 107 128 : RF M).val →
        (Flt.max (e - Flt.lit 0x3FEAC00000000000 107 128) (Flt.lit 0x0000000000000000 0 1) : RF M).val = 0 := by
      intro he
      simp only [FltRF.max_val, FltRF.sub_val, lit_zero]
      exact max_eq_right (FpErr.rnd_nonpos M (by linarith))
    have hq : 0 ≤ (Flt.max (e - Flt.lit 0x3FEAC00000000000 107 128) (Flt.lit 0x0000000000000000 0 1) /
        ((Flt.lit 0x4032DA0000000000 2413 128 - Flt.lit 0x4032B00000000000 299 16) * e) : RF M).val := by
      simp only [FltRF.div_val]
      apply FpErr.rnd_nonneg
      by_cases he : e.val ≤ (Flt.lit 0x3FEAC00000000000 107 128 : RF M).val
      · rw [hnum0 he, zero_div]
      · apply div_nonneg
        · simp only [FltRF.max_val, lit_zero]; exact le_max_right _ _
        · simp only [FltRF.mul_val]; exact FpErr.rnd_nonneg M (mul_nonneg hk0 he0)
    have hqB : |(Flt.max (e - Flt.lit 0x3FEAC00000000000 107 128) (Flt.lit 0x0000000000000000 0 1) /
        ((Flt.lit 0x4032DA0000000000 2413 128 - Flt.lit 0x4032B00000000000 299 16) * e) : RF M).val| ≤ 10 ^ 8 := by
      by_cases he : e.val ≤ (Flt.lit 0x3FEAC00000000000 107 128 : RF M).val
      · rw [FltRF.div_val, hnum0 he, zero_div, FpErr.rnd_zero]; norm_num
      · have hc1 : (0.4 : ℝ) ≤ (Flt.lit 0x3FEAC00000000000 107 128 : RF M).val := by
          simp only [FltRF.lit_val]
          have := rnd_half (M := M) (x := ((107 : ℕ) : ℝ) / ((128 : ℕ) : ℝ)) (by norm_num)
          norm_num at this ⊢; linarith
        have he' : (0.4 : ℝ) ≤ e.val := by linarith [not_le.mp he]
        have hdL : (1 / 100 : ℝ) ≤
            ((Flt.lit 0x4032DA0000000000 2413 128 - Flt.lit 0x4032B00000000000 299 16) * e : RF M).val := by
          rw [FltRF.mul_val]
          have hm : (0.08 : ℝ) * 0.4 ≤
              (Flt.lit 0x4032DA0000000000 2413 128 - Flt.lit 0x4032B00000000000 299 16 : RF M).val * e.val :=
            mul_le_mul hk he' (by norm_num) hk0
          have := rnd_half (M := M) (le_trans (by norm_num) hm)
          norm_num at hm this ⊢; linarith
        nbound
    simp (disch := o_side) only [ho_div, ho_mul, ho_pow_nonneg]

/-- Rec.2100 (PQ): no overflow when the three COMPUTED BT.2020 linear components are non-negative -/
theorem rec2100_from_xyz (p : Xyz (RF M)) (hx : |p.x.val| ≤ 4) (hy : |p.y.val| ≤ 4) (hz : |p.z.val| ≤ 4)
    (hr : 0 ≤ (((p.x * (C.rec2020_XR : RF M × RF M × RF M).1) + (p.y * (C.rec2020_XR : RF M × RF M × RF M).2.1)) +
      (p.z * (C.rec2020_XR : RF M × RF M × RF M).2.2)).val)
    (hg : 0 ≤ (((p.x * (C.XG : RF M × RF M × RF M).1) + (p.y * (C.XG : RF M × RF M × RF M).2.1)) +
      (p.z * (C.XG : RF M × RF M × RF M).2.2)).val)
    (hb : 0 ≤ (((p.x * (C.XB : RF M × RF M × RF M).1) + (p.y * (C.XB : RF M × RF M × RF M).2.1)) +
      (p.z * (C.XB : RF M × RF M × RF M).2.2)).val) :
    Rec2100.from_Xyz (liftXyz p) = liftRec2100 (Rec2100.from_Xyz p) := by
  have er : ((liftXyz p).x * (C.rec2020_XR : PRFo M × PRFo M × PRFo M).1 + (liftXyz p).y * (C.rec2020_XR : PRFo M × PRFo M × PRFo M).2.1 +
      (liftXyz p).z * (C.rec2020_XR : PRFo M × PRFo M × PRFo M).2.2) =
      RF.liftO (((p.x * (C.rec2020_XR : RF M × RF M × RF M).1) + (p.y * (C.rec2020_XR : RF M × RF M × RF M).2.1)) +
      (p.z * (C.rec2020_XR : RF M × RF M × RF M).2.2)) := by
    simp (disch := o_side) only [liftXyz_x, liftXyz_y, liftXyz_z, C.rec2020_XR, ho_lit, ho_neg, ho_mul, ho_add]
  have eg : ((liftXyz p).x * (C.XG : PRFo M × PRFo M × PRFo M).1 + (liftXyz p).y * (C.XG : PRFo M × PRFo M × PRFo M).2.1 +
      (liftXyz p).z * (C.XG : PRFo M × PRFo M × PRFo M).2.2) =
      RF.liftO (((p.x * (C.XG : RF M × RF M × RF M).1) + (p.y * (C.XG : RF M × RF M × RF M).2.1)) +
      (p.z * (C.XG : RF M × RF M × RF M).2.2)) := by
    simp (disch := o_side) only [liftXyz_x, liftXyz_y, liftXyz_z, C.XG, ho_lit, ho_neg, ho_mul, ho_add]
  have eb : ((liftXyz p).x * (C.XB : PRFo M × PRFo M × PRFo M).1 + (liftXyz p).y * (C.XB : PRFo M × PRFo M × PRFo M).2.1 +
      (liftXyz p).z * (C.XB : PRFo M × PRFo M × PRFo M).2.2) =
      RF.liftO (((p.x * (C.XB : RF M × RF M × RF M).1) + (p.y * (C.XB : RF M × RF M × RF M).2.1)) +
      (p.z * (C.XB : RF M × RF M × RF M).2.2)) := by
    simp (disch := o_side) only [liftXyz_x, liftXyz_y, liftXyz_z, C.XB, ho_lit, ho_neg, ho_mul, ho_add]
  have br : |(((p.x * (C.rec2020_XR : RF M × RF M × RF M).1) + (p.y * (C.rec2020_XR : RF M × RF M × RF M).2.1)) +
      (p.z * (C.rec2020_XR : RF M × RF M × RF M).2.2)).val| ≤ 100 := by simp only [C.rec2020_XR]; nbound
  have bg : |(((p.x * (C.XG : RF M × RF M × RF M).1) + (p.y * (C.XG : RF M × RF M × RF M).2.1)) +
      (p.z * (C.XG : RF M × RF M × RF M).2.2)).val| ≤ 100 := by simp only [C.XG]; nbound
  have bb : |(((p.x * (C.XB : RF M × RF M × RF M).1) + (p.y * (C.XB : RF M × RF M × RF M).2.1)) +
      (p.z * (C.XB : RF M × RF M × RF M).2.2)).val| ≤ 100 := by simp only [C.XB]; nbound
  unfold Rec2100.from_Xyz
  simp only [er, eg, eb, pq_eotf_nonneg _ hr br, pq_eotf_nonneg _ hg bg, pq_eotf_nonneg _ hb bb, liftRec2100]

end Lemmas.FpOverflow
