import LymuiVerif.Lemmas.FpOverflowXyz
/-!
# No overflow in the rounded model (C04 "no infinity"): the spaces that divide by a computed combination of X, Y, Z

CIELUV, LCh(uv), HCL, Hunter Lab, xyY of an XYZ that is exactly black or non-negative with luminance `≥ 1e-10`
(`XyzOK`, true of the computed XYZ of every 8-bit colour) and of magnitude `≤ 4`.  The computed divisors are bounded
away from zero QUANTITATIVELY, in every model: `x + 15y + 3z ≥ y/8 ≥ 1e-11`, `x + y + z ≥ y/4 ≥ 2e-11`,
`sqrt(y/Yn) ≥ 5e-8`; black is caught by the code's guards.  Hence the quotients are `≤ 1e13`, `≤ 1e12`, `≤ 1e10`.
-/
set_option linter.unusedSimpArgs false
set_option linter.unusedVariables false
namespace Lemmas.FpOverflow
open Gen Lemmas.FpDefined
variable {M : FPModel}

/-- the computed `x + a·y + b·z` is `≥ y/8` when `y` is a normal positive number, `a ≥ 1`, `x, z, b ≥ 0` -/
theorem den_lower (x y z a b : RF M) (hx : 0 ≤ x.val) (hy : 1 / 10 ^ 100 ≤ y.val) (hz : 0 ≤ z.val)
    (ha : 1 ≤ a.val) (hb : 0 ≤ b.val) : y.val / 8 ≤ ((x + a * y) + b * z : RF M).val := by
  simp only [FltRF.add_val, FltRF.mul_val]
  have hy0 : 0 ≤ y.val := le_trans (by norm_num) hy
  have h1 : y.val ≤ a.val * y.val := by nlinarith
  have h2 : y.val / 2 ≤ M.rnd (a.val * y.val) := by
    have := rnd_half (M := M) (x := a.val * y.val) (le_trans (by norm_num) (le_trans hy h1)); linarith
  have h3 : y.val / 2 ≤ x.val + M.rnd (a.val * y.val) := by linarith
  have h4 : y.val / 4 ≤ M.rnd (x.val + M.rnd (a.val * y.val)) := by
    have := rnd_half (M := M) (x := x.val + M.rnd (a.val * y.val)) (by norm_num at hy ⊢; linarith); linarith
  have h5 : 0 ≤ M.rnd (b.val * z.val) := FpErr.rnd_nonneg M (mul_nonneg hb hz)
  have := rnd_half (M := M) (x := M.rnd (x.val + M.rnd (a.val * y.val)) + M.rnd (b.val * z.val))
    (by norm_num at hy ⊢; linarith)
  linarith

/-- the divisor of `compute_compounds` is exactly `0` (black) or `≥ 1e-11` -/
theorem compounds_den (x y z : RF M)
    (h : (x.val = 0 ∧ y.val = 0 ∧ z.val = 0) ∨ (0 ≤ x.val ∧ 1 / 10 ^ 10 ≤ y.val ∧ 0 ≤ z.val)) :
    ((x + Flt.lit 0x402E000000000000 15 1 * y) + Flt.lit 0x4008000000000000 3 1 * z : RF M).val = 0 ∨
    (1 / 10 ^ 11 : ℝ) ≤ |((x + Flt.lit 0x402E000000000000 15 1 * y) + Flt.lit 0x4008000000000000 3 1 * z : RF M).val| := by
  rcases h with ⟨h1, h2, h3⟩ | ⟨h1, h2, h3⟩
  · left
    simp only [FltRF.add_val, FltRF.mul_val, h1, h2, h3, mul_zero, add_zero, FpErr.rnd_zero]
  · right
    have := den_lower x y z (Flt.lit 0x402E000000000000 15 1) (Flt.lit 0x4008000000000000 3 1) h1
      (le_trans (by norm_num) h2) h3 (by rw [lit_int_val _ 15 (by norm_num)]; norm_num) (lit_nonneg _ _ _)
    refine le_trans ?_ (le_abs_self _)
    norm_num at h2 this ⊢; linarith

theorem compounds_bridge (x y z : RF M) (hxB : |x.val| ≤ 4) (hyB : |y.val| ≤ 4) (hzB : |z.val| ≤ 4)
    (h : (x.val = 0 ∧ y.val = 0 ∧ z.val = 0) ∨ (0 ≤ x.val ∧ 1 / 10 ^ 10 ≤ y.val ∧ 0 ≤ z.val)) :
    Luv.compute_compounds (RF.liftO x) (RF.liftO y) (RF.liftO z) = liftPair (Luv.compute_compounds x y z) := by
  have hdd := compounds_den x y z h
  unfold Luv.compute_compounds
  simp (disch := o_side) only [ho_lit, ho_beq, ho_mul, ho_add]
  have D : ((x + Flt.lit 0x402E000000000000 15 1 * y) + Flt.lit 0x4008000000000000 3 1 * z : RF M).val ≠ 0 →
      (RF.liftO (Flt.lit 0x4010000000000000 4 1 * x) /
          RF.liftO ((x + Flt.lit 0x402E000000000000 15 1 * y) + Flt.lit 0x4008000000000000 3 1 * z),
        RF.liftO (Flt.lit 0x4022000000000000 9 1 * y) /
          RF.liftO ((x + Flt.lit 0x402E000000000000 15 1 * y) + Flt.lit 0x4008000000000000 3 1 * z)) =
      liftPair (Flt.lit 0x4010000000000000 4 1 * x / ((x + Flt.lit 0x402E000000000000 15 1 * y) + Flt.lit 0x4008000000000000 3 1 * z),
        Flt.lit 0x4022000000000000 9 1 * y / ((x + Flt.lit 0x402E000000000000 15 1 * y) + Flt.lit 0x4008000000000000 3 1 * z)) := by
    intro hd; simp (disch := first | assumption | obound) only [ho_div, liftPair]
  have hden : (¬ (x.val = 0 ∧ y.val = 0 ∧ z.val = 0)) →
      ((x + Flt.lit 0x402E000000000000 15 1 * y) + Flt.lit 0x4008000000000000 3 1 * z : RF M).val ≠ 0 := by
    intro hn
    rcases h with h | ⟨h1, h2, h3⟩
    · exact absurd h hn
    · refine (den_pos x y z _ _ h1 (le_trans (by norm_num) h2) h3 ?_ (lit_nonneg _ _ _)).ne'
      rw [lit_int_val _ 15 (by norm_num)]; norm_num
  refine ite_map liftPair (fun c1 => ite_map liftPair (fun c2 => ite_map liftPair (fun _ => rfl) (fun c3 => D (hden ?_)))
    (fun c2 => D (hden ?_))) (fun c1 => D (hden ?_))
  · simp only [FltRF.beq_eq, decide_eq_false_iff_not, lit_zero] at c3; tauto
  · simp only [FltRF.beq_eq, decide_eq_false_iff_not, lit_zero] at c2; tauto
  · simp only [FltRF.beq_eq, decide_eq_false_iff_not, lit_zero] at c1; tauto

/-- `u'`, `v'` have magnitude `≤ 1e14` -/
theorem compounds_bd (x y z : RF M) (hxB : |x.val| ≤ 4) (hyB : |y.val| ≤ 4) (hzB : |z.val| ≤ 4)
    (h : (x.val = 0 ∧ y.val = 0 ∧ z.val = 0) ∨ (0 ≤ x.val ∧ 1 / 10 ^ 10 ≤ y.val ∧ 0 ≤ z.val)) :
    |(Luv.compute_compounds x y z).1.val| ≤ 10 ^ 14 ∧ |(Luv.compute_compounds x y z).2.val| ≤ 10 ^ 14 := by
  have hdd := compounds_den x y z h
  unfold Luv.compute_compounds
  constructor <;> split_ifs <;> dsimp only <;> nbound

theorem white_ok : ((C.D65 : RF M × RF M × RF M).1.val = 0 ∧ (C.D65 : RF M × RF M × RF M).2.1.val = 0 ∧
      (C.D65 : RF M × RF M × RF M).2.2.val = 0) ∨
    (0 ≤ (C.D65 : RF M × RF M × RF M).1.val ∧ 1 / 10 ^ 10 ≤ (C.D65 : RF M × RF M × RF M).2.1.val ∧
      0 ≤ (C.D65 : RF M × RF M × RF M).2.2.val) := by
  right
  simp only [C.D65]
  refine ⟨lit_nonneg _ _ _, ?_, lit_nonneg _ _ _⟩
  rw [lit_int_val _ 1 (by norm_num)]; norm_num

theorem white_bd : |(C.D65 : RF M × RF M × RF M).1.val| ≤ 4 ∧ |(C.D65 : RF M × RF M × RF M).2.1.val| ≤ 4 ∧
    |(C.D65 : RF M × RF M × RF M).2.2.val| ≤ 4 := by
  simp only [C.D65]
  refine ⟨?_, ?_, ?_⟩ <;> nbound

/-- the white-point compounds (constants of the code) -/
theorem compounds_white_bridge :
    Luv.compute_compounds (C.D65 : PRFo M × PRFo M × PRFo M).1 (C.D65 : PRFo M × PRFo M × PRFo M).2.1
        (C.D65 : PRFo M × PRFo M × PRFo M).2.2 =
      liftPair (Luv.compute_compounds (C.D65 : RF M × RF M × RF M).1 (C.D65 : RF M × RF M × RF M).2.1
        (C.D65 : RF M × RF M × RF M).2.2) := by
  obtain ⟨w1, w2, w3⟩ := white_bd (M := M)
  have e1 : (C.D65 : PRFo M × PRFo M × PRFo M).1 = RF.liftO (C.D65 : RF M × RF M × RF M).1 := by
    simp (disch := o_side) only [C.D65, ho_lit]
  have e2 : (C.D65 : PRFo M × PRFo M × PRFo M).2.1 = RF.liftO (C.D65 : RF M × RF M × RF M).2.1 := by
    simp (disch := o_side) only [C.D65, ho_lit]
  have e3 : (C.D65 : PRFo M × PRFo M × PRFo M).2.2 = RF.liftO (C.D65 : RF M × RF M × RF M).2.2 := by
    simp (disch := o_side) only [C.D65, ho_lit]
  rw [e1, e2, e3]
  exact compounds_bridge _ _ _ w1 w2 w3 white_ok

theorem liftPair_1 (p : RF M × RF M) : (liftPair p).1 = RF.liftO p.1 := rfl
theorem liftPair_2 (p : RF M × RF M) : (liftPair p).2 = RF.liftO p.2 := rfl

/-- `XyzOK` with the magnitudes -/
theorem ok100 {p : Xyz (RF M)} (h : XyzOK p) :
    (p.x.val = 0 ∧ p.y.val = 0 ∧ p.z.val = 0) ∨ (0 ≤ p.x.val ∧ 1 / 10 ^ 10 ≤ p.y.val ∧ 0 ≤ p.z.val) := h

theorem luv_from_xyz (p : Xyz (RF M)) (hx : |p.x.val| ≤ 4) (hy : |p.y.val| ≤ 4) (hz : |p.z.val| ≤ 4) (h : XyzOK p) :
    Luv.from_Xyz (liftXyz p) = liftLuv (Luv.from_Xyz p) := by
  obtain ⟨w1, w2, w3⟩ := white_bd (M := M)
  obtain ⟨c1, c2⟩ := compounds_bd p.x p.y p.z hx hy hz h
  obtain ⟨d1, d2⟩ := compounds_bd _ _ _ w1 w2 w3 (white_ok (M := M))
  unfold Luv.from_Xyz
  rw [compounds_white_bridge]
  simp only [liftXyz_x, liftXyz_y, liftXyz_z, compounds_bridge _ _ _ hx hy hz h]
  generalize Luv.compute_compounds p.x p.y p.z = v10 at c1 c2
  generalize Luv.compute_compounds (C.D65 : RF M × RF M × RF M).1 (C.D65 : RF M × RF M × RF M).2.1
        (C.D65 : RF M × RF M × RF M).2.2 = v16 at d1 d2
  simp (disch := o_side) only [C.D65, C.EPSILON, C.KAPPA, liftPair_1, liftPair_2, ho_lit, ho_div, ho_lt, ho_sub]
  refine ite_map liftLuv (fun c => ?_) (fun c => ?_)
  · simp only [FltRF.lt_eq, decide_eq_true_eq] at c
    have hb : 0 < (p.y / Flt.lit 0x3FF0000000000000 1 1 : RF M).val := lt_of_le_of_lt (lit_nonneg _ _ _) c
    simp (disch := o_side) only [ho_div, ho_pow_pos, ho_mul, ho_sub, liftLuv]
  · simp (disch := o_side) only [ho_mul, liftLuv]

theorem luv_xyz_bd (p : Xyz (RF M)) (hx : |p.x.val| ≤ 4) (hy : |p.y.val| ≤ 4) (hz : |p.z.val| ≤ 4) (h : XyzOK p) :
    |(Luv.from_Xyz p).l.val| ≤ 10 ^ 50 ∧ |(Luv.from_Xyz p).u.val| ≤ 10 ^ 50 ∧ |(Luv.from_Xyz p).v.val| ≤ 10 ^ 50 := by
  obtain ⟨w1, w2, w3⟩ := white_bd (M := M)
  obtain ⟨c1, c2⟩ := compounds_bd p.x p.y p.z hx hy hz h
  obtain ⟨d1, d2⟩ := compounds_bd _ _ _ w1 w2 w3 (white_ok (M := M))
  unfold Luv.from_Xyz
  generalize Luv.compute_compounds p.x p.y p.z = v10 at c1 c2
  generalize Luv.compute_compounds (C.D65 : RF M × RF M × RF M).1 (C.D65 : RF M × RF M × RF M).2.1
        (C.D65 : RF M × RF M × RF M).2.2 = v16 at d1 d2
  simp only [C.D65, C.EPSILON, C.KAPPA]
  have key : ∀ (cnd : Bool) (a b : Luv (RF M)),
      (cnd = true → |a.l.val| ≤ 10 ^ 50 ∧ |a.u.val| ≤ 10 ^ 50 ∧ |a.v.val| ≤ 10 ^ 50) →
      (|b.l.val| ≤ 10 ^ 50 ∧ |b.u.val| ≤ 10 ^ 50 ∧ |b.v.val| ≤ 10 ^ 50) →
      |(if cnd = true then a else b).l.val| ≤ 10 ^ 50 ∧ |(if cnd = true then a else b).u.val| ≤ 10 ^ 50 ∧
        |(if cnd = true then a else b).v.val| ≤ 10 ^ 50 := by
    intro cnd a b ha hb
    cases cnd
    · simpa using hb
    · simpa using ha rfl
  refine key _ _ _ (fun c => ?_) ?_
  · simp only [FltRF.lt_eq, decide_eq_true_eq] at c
    have hb : 0 < (p.y / Flt.lit 0x3FF0000000000000 1 1 : RF M).val := lt_of_le_of_lt (lit_nonneg _ _ _) c
    refine ⟨?_, ?_, ?_⟩ <;> (try dsimp only) <;> nbound
  · refine ⟨?_, ?_, ?_⟩ <;> (try dsimp only) <;> nbound

theorem liftLuv_l (p : Luv (RF M)) : (liftLuv p).l = RF.liftO p.l := rfl
theorem liftLuv_u (p : Luv (RF M)) : (liftLuv p).u = RF.liftO p.u := rfl
theorem liftLuv_v (p : Luv (RF M)) : (liftLuv p).v = RF.liftO p.v := rfl

theorem lchuv_from_luv_part (q : Luv (RF M)) (hu : |q.u.val| ≤ 10 ^ 50) (hv : |q.v.val| ≤ 10 ^ 50) :
    (let h_3 : PRFo M := F64.get_degree_from_radian (Flt.atan2 (liftLuv q).v (liftLuv q).u)
     if Flt.lt (Flt.lit 0x0000000000000000 0 1) h_3 = true then
       ({ l := (liftLuv q).l, c := Flt.sqrt (Flt.powi (liftLuv q).u 2 + Flt.powi (liftLuv q).v 2), h := h_3 } : Lchuv (PRFo M))
     else { l := (liftLuv q).l, c := Flt.sqrt (Flt.powi (liftLuv q).u 2 + Flt.powi (liftLuv q).v 2),
            h := h_3 + Flt.lit 0x4076800000000000 360 1 }) =
    liftLchuv (let h_3 : RF M := F64.get_degree_from_radian (Flt.atan2 q.v q.u)
     if Flt.lt (Flt.lit 0x0000000000000000 0 1) h_3 = true then
       ({ l := q.l, c := Flt.sqrt (Flt.powi q.u 2 + Flt.powi q.v 2), h := h_3 } : Lchuv (RF M))
     else { l := q.l, c := Flt.sqrt (Flt.powi q.u 2 + Flt.powi q.v 2), h := h_3 + Flt.lit 0x4076800000000000 360 1 }) := by
  have hd := degree_bd (M := M) (Flt.atan2 q.v q.u) (le_trans (bd_atan2 _ _) (by norm_num))
  simp (disch := o_side) only [liftLuv_l, liftLuv_u, liftLuv_v, ho_atan2, degree_bridge, chroma_powi_bridge, ho_lit,
    ho_lt, ho_add]
  refine ite_map liftLchuv (fun _ => rfl) (fun _ => rfl)

theorem lchuv_from_xyz (p : Xyz (RF M)) (hx : |p.x.val| ≤ 4) (hy : |p.y.val| ≤ 4) (hz : |p.z.val| ≤ 4) (h : XyzOK p) :
    Lchuv.from_Xyz (liftXyz p) = liftLchuv (Lchuv.from_Xyz p) := by
  obtain ⟨-, b2, b3⟩ := luv_xyz_bd p hx hy hz h
  unfold Lchuv.from_Xyz
  rw [luv_from_xyz p hx hy hz h]
  exact lchuv_from_luv_part _ b2 b3

theorem hue_from_luv (q : Luv (RF M)) : F64.from_Luv (liftLuv q) = RF.liftO (F64.from_Luv q) := by
  have hd := degree_bd (M := M) (Flt.atan2 q.v q.u) (le_trans (bd_atan2 _ _) (by norm_num))
  unfold F64.from_Luv
  simp (disch := o_side) only [liftLuv_u, liftLuv_v, ho_atan2, degree_bridge, ho_lit, ho_lt, ho_sub, ho_add]
  refine iteo_bridge (fun _ => rfl) (fun _ => iteo_bridge (fun _ => rfl) (fun _ => rfl))

theorem hcl_from_luv (q : Luv (RF M)) (hu : |q.u.val| ≤ 10 ^ 50) (hv : |q.v.val| ≤ 10 ^ 50) :
    Hcl.from_Luv (liftLuv q) = liftHcl (Hcl.from_Luv q) := by
  unfold Hcl.from_Luv
  rw [hue_from_luv]
  simp (disch := assumption) only [liftLuv_l, liftLuv_u, liftLuv_v, chroma_mul_bridge, liftHcl]

theorem hcl_from_xyz (p : Xyz (RF M)) (hx : |p.x.val| ≤ 4) (hy : |p.y.val| ≤ 4) (hz : |p.z.val| ≤ 4) (h : XyzOK p) :
    Hcl.from_Xyz (liftXyz p) = liftHcl (Hcl.from_Xyz p) := by
  obtain ⟨-, b2, b3⟩ := luv_xyz_bd p hx hy hz h
  unfold Hcl.from_Xyz; rw [luv_from_xyz p hx hy hz h, hcl_from_luv _ b2 b3]

/-- Hunter Lab: `y == 0` is the guard; otherwise the computed `sqrt(y / Yn)` is `≥ 5e-8`, so the two quotients are
`≤ 1e10` -/
theorem hlab_from_xyz (p : Xyz (RF M)) (hx : |p.x.val| ≤ 4) (hy : |p.y.val| ≤ 4) (hz : |p.z.val| ≤ 4)
    (h : p.y.val = 0 ∨ 1 / 10 ^ 10 ≤ p.y.val) :
    Hlab.from_Xyz (liftXyz p) = liftHlab (Hlab.from_Xyz p) := by
  unfold Hlab.from_Xyz
  have z0 : (Flt.lit 0x0000000000000000 0 1 : PRFo M) = RF.liftO (Flt.lit 0x0000000000000000 0 1) := by
    apply ho_lit; obound
  simp only [liftXyz_x, liftXyz_y, liftXyz_z, z0, ho_beq]
  refine ite_map liftHlab (fun _ => rfl) (fun c => ?_)
  simp only [FltRF.beq_eq, decide_eq_false_iff_not, lit_zero] at c
  have hy1 : 1 / 10 ^ 10 ≤ p.y.val := h.resolve_left c
  have hq : 1 / 10 ^ 13 ≤ (p.y / (C.YN : RF M)).val := by
    simp only [C.YN, FltRF.div_val]
    rw [lit_int_val _ 100 (by norm_num)]
    have : 1 / 10 ^ 12 ≤ p.y.val / ((100 : ℕ) : ℝ) := by
      push_cast; rw [le_div_iff₀ (by norm_num)]; norm_num at hy1 ⊢; linarith
    have := rnd_half (M := M) (x := p.y.val / ((100 : ℕ) : ℝ)) (le_trans (by norm_num) this)
    norm_num at *; linarith
  have hq0 : 0 ≤ (p.y / (C.YN : RF M)).val := le_trans (by norm_num) hq
  have hsL : (1 / 10 ^ 8 : ℝ) ≤ (Flt.sqrt (p.y / (C.YN : RF M)) : RF M).val := by
    rw [FltRF.sqrt_val]
    have h1 : (1 / 10 ^ 7 : ℝ) ≤ Real.sqrt (p.y / (C.YN : RF M)).val := by
      rw [show (1 / 10 ^ 7 : ℝ) = Real.sqrt ((1 / 10 ^ 7) ^ 2) by rw [Real.sqrt_sq (by norm_num)]]
      exact Real.sqrt_le_sqrt (le_trans (by norm_num) hq)
    have := rnd_half (M := M) (le_trans (by norm_num) h1)
    norm_num at h1 this ⊢; linarith
  have hs : (Flt.sqrt (p.y / (C.YN : RF M)) : RF M).val ≠ 0 := (lt_of_lt_of_le (by norm_num) hsL).ne'
  have hyn : (C.YN : RF M).val ≠ 0 := by simp only [C.YN]; lit_side
  have hxn : (C.XN : RF M).val ≠ 0 := by simp only [C.XN]; lit_side
  have hzn : (C.ZN : RF M).val ≠ 0 := by simp only [C.ZN]; lit_side
  have hynL : (1 : ℝ) ≤ (C.YN : RF M).val := by
    simp only [C.YN]; rw [lit_int_val _ 100 (by norm_num)]; norm_num
  have hxnL : (1 : ℝ) ≤ (C.XN : RF M).val := by
    simp only [C.XN, FltRF.lit_val]
    have := rnd_half (M := M) (x := ((95047 : ℕ) : ℝ) / ((1000 : ℕ) : ℝ)) (by norm_num)
    norm_num at this ⊢; linarith
  have hznL : (1 : ℝ) ≤ (C.ZN : RF M).val := by
    simp only [C.ZN, FltRF.lit_val]
    have := rnd_half (M := M) (x := ((108883 : ℕ) : ℝ) / ((1000 : ℕ) : ℝ)) (by norm_num)
    norm_num at this ⊢; linarith
  have hynB : |(C.YN : RF M).val| ≤ 1000 := by simp only [C.YN]; nbound
  have hxnB : |(C.XN : RF M).val| ≤ 1000 := by simp only [C.XN]; nbound
  have hznB : |(C.ZN : RF M).val| ≤ 1000 := by simp only [C.ZN]; nbound
  have eyn : (C.YN : PRFo M) = RF.liftO (C.YN : RF M) := by simp (disch := o_side) only [C.YN, ho_lit]
  have exn : (C.XN : PRFo M) = RF.liftO (C.XN : RF M) := by simp (disch := o_side) only [C.XN, ho_lit]
  have ezn : (C.ZN : PRFo M) = RF.liftO (C.ZN : RF M) := by simp (disch := o_side) only [C.ZN, ho_lit]
  have ek : (Hlab.get_ka_kb : PRFo M × PRFo M) = liftPair (Hlab.get_ka_kb : RF M × RF M) := by
    simp (disch := o_side) only [Hlab.get_ka_kb, eyn, exn, ezn, ho_lit, ho_div, ho_add, ho_mul, liftPair]
  have k1 : |(Hlab.get_ka_kb : RF M × RF M).1.val| ≤ 10 ^ 5 := by simp only [Hlab.get_ka_kb]; nbound
  have k2 : |(Hlab.get_ka_kb : RF M × RF M).2.val| ≤ 10 ^ 5 := by simp only [Hlab.get_ka_kb]; nbound
  rw [ek]
  generalize (Hlab.get_ka_kb : RF M × RF M) = kk at k1 k2
  generalize (C.YN : RF M) = yn at *
  generalize (C.XN : RF M) = xn at *
  generalize (C.ZN : RF M) = zn at *
  simp (disch := o_side) only [eyn, exn, ezn, liftPair_1, liftPair_2, ho_lit, ho_div, ho_sqrt, ho_mul, ho_sub, liftHlab]

theorem is_null_bridge (p : Xyz (RF M)) : Xyz.is_null (liftXyz p) = Xyz.is_null p := by
  have z0 : (Flt.lit 0x0000000000000000 0 1 : PRFo M) = RF.liftO (Flt.lit 0x0000000000000000 0 1) := by
    apply ho_lit; obound
  simp only [Xyz.is_null, liftXyz_x, liftXyz_y, liftXyz_z, z0, ho_beq]

/-- xyY: `is_null` is the guard; otherwise the computed `x + y + z` is `≥ y/4 ≥ 2e-11` -/
theorem xyy_from_xyz (p : Xyz (RF M)) (hx : |p.x.val| ≤ 4) (hy : |p.y.val| ≤ 4) (hz : |p.z.val| ≤ 4) (h : XyzOK p) :
    Xyy.from_Xyz (liftXyz p) = liftXyy (Xyy.from_Xyz p) := by
  unfold Xyy.from_Xyz Xyy.get_fields_from_xyz Xyy.compute_xyy
  simp only [is_null_bridge]
  by_cases hn : Xyz.is_null p = true
  · simp (disch := o_side) only [hn, if_true, Option.getD_none, C.CHROMA_X, C.CHROMA_Y, ho_lit, liftXyy, liftXyz_y]
  · have hdenL : (1 / 10 ^ 11 : ℝ) ≤ ((p.x + p.y) + p.z : RF M).val := by
      rcases h with ⟨h1, h2, h3⟩ | ⟨h1, h2, h3⟩
      · exfalso; apply hn
        simp only [Xyz.is_null, FltRF.beq_eq, lit_zero, h1, h2, h3, decide_true, if_true]
      · simp only [FltRF.add_val]
        have a1 : p.y.val / 2 ≤ M.rnd (p.x.val + p.y.val) := by
          have := rnd_half (M := M) (x := p.x.val + p.y.val) (by norm_num at h2 ⊢; linarith); linarith
        have := rnd_half (M := M) (x := M.rnd (p.x.val + p.y.val) + p.z.val) (by norm_num at h2 ⊢; linarith)
        norm_num at h2 this ⊢; linarith
    have hden : ((p.x + p.y) + p.z : RF M).val ≠ 0 := (lt_of_lt_of_le (by norm_num) hdenL).ne'
    simp (disch := first | assumption | obound) only [hn, Bool.false_eq_true, if_false, Option.getD_some, liftXyz_x,
      liftXyz_y, liftXyz_z, ho_add, ho_div, liftXyy]

end Lemmas.FpOverflow
