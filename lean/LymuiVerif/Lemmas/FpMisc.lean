import LymuiVerif.Lemmas.FpLinear
import LymuiVerif.Lemmas.Quant
import LymuiVerif.Lemmas.QuantA2
/-!
# Small general-purpose lemmas for the rounded-arithmetic reading

* `Near.abs'`: `abs` is exact in `RF M` and 1-Lipschitz.
* `round_near'`, `trunc_near'`: the two 8-bit quantisers applied to a value within `2.2` of an 8-bit value
  (no range hypothesis on the value: saturation at `0` and `255` is covered).
* `sector_idx`: the sextant of a whole-degree hue computed as `h / 60.0` in `RF M` is the exact one.
-/
namespace FpMisc
open FpErr FpLin

/-- `abs` is an exact operation and 1-Lipschitz -/
theorem _root_.FpLin.Near.abs' {a x e B : ℝ} (h : Near a x e B) : Near |a| |x| e B :=
  ⟨le_trans (abs_abs_sub_abs_le_abs_sub a x) h.err, by rw [abs_abs]; exact h.mag, h.one⟩

/-- the exact value `0` (the literal `0.0`) -/
theorem _root_.FpLin.Near.zero : Near (0 : ℝ) 0 0 1 := ⟨by simp, by simp, le_rfl⟩

/-- rounding quantiser `x.round() as u8` near an 8-bit value: within `2.2` before, within `2` after -/
theorem round_near' {y : ℝ} {n : ℕ} (hn : n ≤ 255) (h : |y - n| ≤ 2.2) :
    Real.toU8 (Real.roundHA y) ≤ n + 2 ∧ n ≤ Real.toU8 (Real.roundHA y) + 2 := by
  rw [abs_le] at h
  rcases le_or_gt 0 y with hy0 | hy0
  · obtain ⟨k, hk, h1, h2⟩ := QuantA2.roundHA_nat hy0
    rw [hk, QuantA2.toU8_eq_min, Nat.floor_natCast]
    have a1 : (k : ℝ) < n + 3 := by linarith [h.2]
    have a2 : (n : ℝ) < k + 3 := by linarith [h.1]
    have a1' : k < n + 3 := by exact_mod_cast a1
    have a2' : n < k + 3 := by exact_mod_cast a2
    omega
  · have hr : Real.roundHA y ≤ 0 := by
      unfold Real.roundHA
      rw [if_neg (not_le.mpr hy0)]
      have : (0 : ℤ) ≤ ⌊-y + 1 / 2⌋ := Int.floor_nonneg.mpr (by linarith)
      have : (0 : ℝ) ≤ (⌊-y + 1 / 2⌋ : ℝ) := by exact_mod_cast this
      linarith
    rw [Quant.toU8_of_nonpos hr]
    have : (n : ℝ) < 3 := by linarith [h.1]
    have : n < 3 := by exact_mod_cast this
    omega

/-- truncating quantiser `x as u8` near an 8-bit value: within `2.2` before, at most `2` above / `3` below after -/
theorem trunc_near' {y : ℝ} {n : ℕ} (hn : n ≤ 255) (h : |y - n| ≤ 2.2) :
    Real.toU8 y ≤ n + 2 ∧ n ≤ Real.toU8 y + 3 := by
  rw [abs_le] at h
  constructor
  · exact Quant.toU8_le_add_of_lt (by push_cast; linarith [h.2])
  · exact Quant.le_toU8_add_of_sub_lt hn (by push_cast; linarith [h.1])

variable (M : FPModel)

/-- the sextant of a whole-degree hue `k < 360`: `j = k / 60`; the quotient `k / 60.0` computed in `RF M`
lies in the same unit interval `[j, j+1)` as the exact quotient (a whole multiple of 60 gives a whole number, which is
exact; every other `k` is at least `1/60` away from the next whole number) -/
theorem sector_idx (k : ℕ) (hk : k < 360) :
    ∃ j : ℕ, j < 6 ∧ (j : ℝ) ≤ (k : ℝ) / 60 ∧ (k : ℝ) / 60 < j + 1 ∧
      (j : ℝ) ≤ M.rnd ((k : ℝ) / 60) ∧ M.rnd ((k : ℝ) / 60) < j + 1 ∧
      |M.rnd ((k : ℝ) / 60) - (k : ℝ) / 60| ≤ 1e-15 := by
  have hk' : (k : ℝ) < 360 := by exact_mod_cast hk
  have hk0 : (0 : ℝ) ≤ k := Nat.cast_nonneg k
  have hq : |(k : ℝ) / 60| ≤ 6 := by rw [abs_of_nonneg (by positivity)]; linarith
  have hr := rnd_abs M hq (by norm_num)
  have hr' : |M.rnd ((k : ℝ) / 60) - (k : ℝ) / 60| ≤ 1e-15 := le_trans hr (by norm_num [FP.eps])
  have hdm : (k : ℝ) = 60 * ((k / 60 : ℕ) : ℝ) + ((k % 60 : ℕ) : ℝ) := by exact_mod_cast (Nat.div_add_mod k 60).symm
  have hm : k % 60 ≤ 59 := by omega
  have hm' : ((k % 60 : ℕ) : ℝ) ≤ 59 := by exact_mod_cast hm
  have hm0 : (0 : ℝ) ≤ ((k % 60 : ℕ) : ℝ) := Nat.cast_nonneg _
  refine ⟨k / 60, by omega, by linarith, by linarith, ?_, ?_, hr'⟩
  · have h6 : k / 60 ≤ 2 ^ 53 := le_trans (by omega : k / 60 ≤ 6) (by norm_num)
    exact nat_le_rnd M (k / 60) h6 (by linarith)
  · have := (abs_le.mp hr').2
    linarith

end FpMisc
