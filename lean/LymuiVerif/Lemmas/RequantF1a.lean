import LymuiVerif.Lemmas.XyzDispatch
import LymuiVerif.Lemmas.CurvesF1a
/-!
# Re-quantisation is stable: an XYZ close to the XYZ of an 8-bit colour converts back to that colour

`requant_stable` : if every component of `x'` is within `1.7e-5` of `Xyz.from_rgb c XyzKind.D65`
then `Xyz.as_rgb x' XyzKind.D65 = c` (same for D50; for the Adobe profile the admissible distance
is `3.1e-7`, because the Adobe encode `v ↦ v^(256/563)` has infinite slope at 0).

Route: `R·x' = R·(M·lin) + R·(x' − x) = lin + δ`, `|δ| ≤ (residual of R·M − I) + ‖R row‖₁·ε`, then the
wide stability lemmas of `Lemmas.CurvesF1a`, then the quantiser.  Everything is stated about the
GENERATED `Xyz.from_rgb` / `Xyz.as_rgb` (through `Lemmas.XyzDispatch.from_rgb_eq` / `as_rgb_eq`) and
the generated matrix literals.

Limits (for the record): for the sRGB curve the absolute limit is `0.5/(12.92·255)/5.2761 ≈ 2.87e-5`;
`1.7e-5` is what keeps levels 0..10 on the linear segment of the encoder (`9e-5` in linear light).
For Adobe the limit is `((0.5/255)^(563/256) − 1.4e-7)/2.951 ≈ 3.3e-7`.
-/
namespace Lemmas.RequantF1a
open Gen Lemmas.Matrix Lemmas.XyzDispatch

/-- sup-norm closeness of two XYZ triples -/
def Near (ε : ℝ) (a b : Xyz ℝ) : Prop :=
  |a.x - b.x| ≤ ε ∧ |a.y - b.y| ≤ ε ∧ |a.z - b.z| ≤ ε

theorem Near.mono {ε ε' : ℝ} {a b : Xyz ℝ} (h : Near ε a b) (hε : ε ≤ ε') : Near ε' a b :=
  ⟨h.1.trans hε, h.2.1.trans hε, h.2.2.trans hε⟩

theorem Near.refl {ε : ℝ} (hε : 0 ≤ ε) (a : Xyz ℝ) : Near ε a a := by
  simp [Near, hε]

/-- largest row ℓ¹-norm of the generated reverse rows of a profile -/
noncomputable def revNorm : XyzKind → ℝ
  | .D65 => 5.2761241
  | .D50 => 5.2413374
  | .Adobe => 2.9510098

theorem revNorm_nonneg (k : XyzKind) : 0 ≤ revNorm k := by
  cases k <;> norm_num [revNorm]

/-- the reverse rows are `revNorm`-Lipschitz from the sup norm to each component -/
theorem rev_perturb (k : XyzKind) (v w : V3) (ε : ℝ) (h1 : |w.1 - v.1| ≤ ε) (h2 : |w.2.1 - v.2.1| ≤ ε)
    (h3 : |w.2.2 - v.2.2| ≤ ε) (i : Fin 3) :
    |V3.get (mulVec (rev k) w) i - V3.get (mulVec (rev k) v) i| ≤ revNorm k * ε := by
  obtain ⟨v0, v1, v2⟩ := v
  obtain ⟨w0, w1, w2⟩ := w
  simp only at h1 h2 h3
  rw [abs_le] at h1 h2 h3
  obtain ⟨a1, b1⟩ := h1
  obtain ⟨a2, b2⟩ := h2
  obtain ⟨a3, b3⟩ := h3
  cases k <;> fin_cases i <;> simp only [revNorm] <;> unfold_consts <;>
    rw [abs_le] <;> constructor <;> norm_num <;> linarith

/-- tighter residual of `R_A·M_A − I` on the unit cube for the Adobe rows: `1.4e-7` per component -/
theorem roundtrip_lin_adobe (l : V3) (i : Fin 3)
    (h0 : 0 ≤ l.1) (h0' : l.1 ≤ 1) (h1 : 0 ≤ l.2.1) (h1' : l.2.1 ≤ 1)
    (h2 : 0 ≤ l.2.2) (h2' : l.2.2 ≤ 1) :
    |V3.get (mulVec (rev .Adobe) (mulVec (fwd .Adobe) l)) i - V3.get l i| ≤ 1.4e-7 := by
  obtain ⟨l0, l1, l2⟩ := l
  simp only at h0 h0' h1 h1' h2 h2'
  fin_cases i <;> unfold_consts <;> rw [abs_le] <;> constructor <;> norm_num <;> linarith

/-- **linear-light form**: the reverse rows applied to an XYZ within `ε` of `from_rgb c k` give the
linear-light channels of `c` up to `res + revNorm k · ε`, `res` being the residual of `R·M − I`. -/
theorem lin_close (k : XyzKind) (res : ℝ)
    (hres : ∀ (l : V3) (i : Fin 3), 0 ≤ l.1 → l.1 ≤ 1 → 0 ≤ l.2.1 → l.2.1 ≤ 1 → 0 ≤ l.2.2 → l.2.2 ≤ 1 →
      |V3.get (mulVec (rev k) (mulVec (fwd k) l)) i - V3.get l i| ≤ res)
    (c : Rgb) (hr : c.r ≤ 255) (hg : c.g ≤ 255) (hb : c.b ≤ 255)
    (x' : Xyz ℝ) (ε : ℝ) (hx : Near ε x' (Xyz.from_rgb c k)) (i : Fin 3) :
    |V3.get (mulVec (rev k) (ofXyz x')) i - V3.get (lin k c) i| ≤ res + revNorm k * ε := by
  rw [from_rgb_eq] at hx
  obtain ⟨hx1, hx2, hx3⟩ := hx
  have hl := hres (lin k c) i (dec_level_nonneg k c.r) (dec_level_le_one k hr)
    (dec_level_nonneg k c.g) (dec_level_le_one k hg) (dec_level_nonneg k c.b) (dec_level_le_one k hb)
  have hp := rev_perturb k (mulVec (fwd k) (lin k c)) (ofXyz x') ε hx1 hx2 hx3 i
  rw [abs_le] at hl hp ⊢
  constructor <;> linarith [hl.1, hl.2, hp.1, hp.2]

/-- **pre-quantisation form, generic**: given a stability lemma for the curve pair of profile `k`
with tolerance `δ0` and accuracy `η`, and `res + revNorm k · ε ≤ δ0`, every pre-quantisation value of
`as_rgb x' k` is within `η` of the original level. -/
theorem pre_close_of_stable (k : XyzKind) (res δ0 η ε : ℝ)
    (hres : ∀ (l : V3) (i : Fin 3), 0 ≤ l.1 → l.1 ≤ 1 → 0 ≤ l.2.1 → l.2.1 ≤ 1 → 0 ≤ l.2.2 → l.2.2 ≤ 1 →
      |V3.get (mulVec (rev k) (mulVec (fwd k) l)) i - V3.get l i| ≤ res)
    (hstab : ∀ n : ℕ, n ≤ 255 → ∀ δ : ℝ, |δ| ≤ δ0 → |enc k (dec k ((n : ℝ) / 255) + δ) * 255 - n| ≤ η)
    (hε : res + revNorm k * ε ≤ δ0)
    (c : Rgb) (hr : c.r ≤ 255) (hg : c.g ≤ 255) (hb : c.b ≤ 255)
    (x' : Xyz ℝ) (hx : Near ε x' (Xyz.from_rgb c k)) (i : Fin 3) :
    |V3.get (pre k x') i - (chan c i : ℝ)| ≤ η := by
  have hl := fun j => (lin_close k res hres c hr hg hb x' ε hx j).trans hε
  fin_cases i
  · have h := hstab c.r hr _ (hl 0)
    simpa [pre, V3.get, chan, lin] using h
  · have h := hstab c.g hg _ (hl 1)
    simpa [pre, V3.get, chan, lin] using h
  · have h := hstab c.b hb _ (hl 2)
    simpa [pre, V3.get, chan, lin] using h

/-- the quantiser of `as_rgb`: if every pre-quantisation value (perturbed by `e`) is within 1/2 of the
level of `c`, the result is `c` -/
theorem as_rgb_of_pre (k : XyzKind) (x : Xyz ℝ) (c : Rgb) (hr : c.r ≤ 255) (hg : c.g ≤ 255)
    (hb : c.b ≤ 255) (h : ∀ i, |V3.get (pre k x) i - (chan c i : ℝ)| < 1 / 2) :
    Xyz.as_rgb x k = c := by
  rw [as_rgb_eq]
  have q1 := Curves.quant_eq c.r hr _ (h 0)
  have q2 := Curves.quant_eq c.g hg _ (h 1)
  have q3 := Curves.quant_eq c.b hb _ (h 2)
  simp only [pre, V3.get] at q1 q2 q3
  simp only [quant, q1, q2, q3]

/-! ## the sRGB-curve profiles (D65, D50): ε = 1.7e-5 -/

/-- pre-quantisation values within 0.3 of the levels, for `x'` within `1.7e-5` of `from_rgb c D65` -/
theorem requant_pre_close (c : Rgb) (hr : c.r ≤ 255) (hg : c.g ≤ 255) (hb : c.b ≤ 255)
    (x' : Xyz ℝ) (hx : Near 1.7e-5 x' (Xyz.from_rgb c XyzKind.D65)) (i : Fin 3) :
    |V3.get (pre .D65 x') i - (chan c i : ℝ)| ≤ 0.3 :=
  pre_close_of_stable .D65 3e-7 9e-5 0.3 1.7e-5 (roundtrip_lin .D65)
    (fun n hn δ hδ => CurvesF1a.srgb_stable_wide n hn δ hδ) (by norm_num [revNorm]) c hr hg hb x' hx i

theorem requant_pre_close_d50 (c : Rgb) (hr : c.r ≤ 255) (hg : c.g ≤ 255) (hb : c.b ≤ 255)
    (x' : Xyz ℝ) (hx : Near 1.7e-5 x' (Xyz.from_rgb c XyzKind.D50)) (i : Fin 3) :
    |V3.get (pre .D50 x') i - (chan c i : ℝ)| ≤ 0.3 :=
  pre_close_of_stable .D50 3e-7 9e-5 0.3 1.7e-5 (roundtrip_lin .D50)
    (fun n hn δ hδ => CurvesF1a.srgb_stable_wide n hn δ hδ) (by norm_num [revNorm]) c hr hg hb x' hx i

/-- **requant_stable (D65)**: every XYZ within `1.7e-5` (each component) of the XYZ of an 8-bit colour
`c` converts back to exactly `c`. -/
theorem requant_stable (c : Rgb) (hr : c.r ≤ 255) (hg : c.g ≤ 255) (hb : c.b ≤ 255)
    (x' : Xyz ℝ) (hx : |x'.x - (Xyz.from_rgb (α := ℝ) c XyzKind.D65).x| ≤ 1.7e-5)
    (hy : |x'.y - (Xyz.from_rgb (α := ℝ) c XyzKind.D65).y| ≤ 1.7e-5)
    (hz : |x'.z - (Xyz.from_rgb (α := ℝ) c XyzKind.D65).z| ≤ 1.7e-5) :
    Xyz.as_rgb x' XyzKind.D65 = c :=
  as_rgb_of_pre .D65 x' c hr hg hb fun i =>
    lt_of_le_of_lt (requant_pre_close c hr hg hb x' ⟨hx, hy, hz⟩ i) (by norm_num)

/-- the same with the closeness packaged as `Near` -/
theorem requant_stable_near (c : Rgb) (hr : c.r ≤ 255) (hg : c.g ≤ 255) (hb : c.b ≤ 255)
    (x' : Xyz ℝ) (hx : Near 1.7e-5 x' (Xyz.from_rgb c XyzKind.D65)) :
    Xyz.as_rgb x' XyzKind.D65 = c :=
  requant_stable c hr hg hb x' hx.1 hx.2.1 hx.2.2

/-- **requant_stable (D50)** -/
theorem requant_stable_d50 (c : Rgb) (hr : c.r ≤ 255) (hg : c.g ≤ 255) (hb : c.b ≤ 255)
    (x' : Xyz ℝ) (hx : Near 1.7e-5 x' (Xyz.from_rgb c XyzKind.D50)) :
    Xyz.as_rgb x' XyzKind.D50 = c :=
  as_rgb_of_pre .D50 x' c hr hg hb fun i =>
    lt_of_le_of_lt (requant_pre_close_d50 c hr hg hb x' hx i) (by norm_num)

/-! ## the Adobe profile: ε = 3.1e-7 -/

/-- pre-quantisation values within 0.49 of the levels, for `x'` within `3.1e-7` of `from_rgb c Adobe` -/
theorem requant_pre_close_adobe (c : Rgb) (hr : c.r ≤ 255) (hg : c.g ≤ 255) (hb : c.b ≤ 255)
    (x' : Xyz ℝ) (hx : Near 3.1e-7 x' (Xyz.from_rgb c XyzKind.Adobe)) (i : Fin 3) :
    |V3.get (pre .Adobe x') i - (chan c i : ℝ)| ≤ 0.49 :=
  pre_close_of_stable .Adobe 1.4e-7 1.06e-6 0.49 3.1e-7 roundtrip_lin_adobe
    (fun n hn δ hδ => CurvesF1a.argb_stable_wide n hn δ hδ) (by norm_num [revNorm]) c hr hg hb x' hx i

/-- **requant_stable (Adobe)**: every XYZ within `3.1e-7` of the Adobe-profile XYZ of an 8-bit colour
converts back (Adobe profile) to exactly that colour.  The admissible distance is 55 times smaller
than for sRGB because a black channel sits at the infinite-slope point of the Adobe encode:
`255·δ^(256/563) < 0.5` needs `δ < 1.1067e-6` in linear light. -/
theorem requant_stable_adobe (c : Rgb) (hr : c.r ≤ 255) (hg : c.g ≤ 255) (hb : c.b ≤ 255)
    (x' : Xyz ℝ) (hx : |x'.x - (Xyz.from_rgb (α := ℝ) c XyzKind.Adobe).x| ≤ 3.1e-7)
    (hy : |x'.y - (Xyz.from_rgb (α := ℝ) c XyzKind.Adobe).y| ≤ 3.1e-7)
    (hz : |x'.z - (Xyz.from_rgb (α := ℝ) c XyzKind.Adobe).z| ≤ 3.1e-7) :
    Xyz.as_rgb x' XyzKind.Adobe = c :=
  as_rgb_of_pre .Adobe x' c hr hg hb fun i =>
    lt_of_le_of_lt (requant_pre_close_adobe c hr hg hb x' ⟨hx, hy, hz⟩ i) (by norm_num)

/-! ## near-maximal tolerance for the sRGB-curve profiles: ε = 2.74e-5 (limit ≈ 2.87e-5) -/

/-- pre-quantisation values within 0.495 of the levels, for `x'` within `2.74e-5` of `from_rgb c D65` -/
theorem requant_pre_close_max (c : Rgb) (hr : c.r ≤ 255) (hg : c.g ≤ 255) (hb : c.b ≤ 255)
    (x' : Xyz ℝ) (hx : Near 2.74e-5 x' (Xyz.from_rgb c XyzKind.D65)) (i : Fin 3) :
    |V3.get (pre .D65 x') i - (chan c i : ℝ)| ≤ 0.495 :=
  pre_close_of_stable .D65 3e-7 1.45e-4 0.495 2.74e-5 (roundtrip_lin .D65)
    (fun n hn δ hδ => CurvesF1a.srgb_stable_max n hn δ hδ) (by norm_num [revNorm]) c hr hg hb x' hx i

/-- **requant_stable, near-maximal form (D65)**: tolerance `2.74e-5` per component.  Beyond
`0.5/(12.92·255)/5.2761241 ≈ 2.876e-5` the statement is false in general (a channel at level 0..10 can
move by half a level). -/
theorem requant_stable_max (c : Rgb) (hr : c.r ≤ 255) (hg : c.g ≤ 255) (hb : c.b ≤ 255)
    (x' : Xyz ℝ) (hx : Near 2.74e-5 x' (Xyz.from_rgb c XyzKind.D65)) :
    Xyz.as_rgb x' XyzKind.D65 = c :=
  as_rgb_of_pre .D65 x' c hr hg hb fun i =>
    lt_of_le_of_lt (requant_pre_close_max c hr hg hb x' hx i) (by norm_num)

end Lemmas.RequantF1a
