import LymuiVerif.Lemmas.FpDefinedXyz
import LymuiVerif.Lemmas.FpCieXyz
import LymuiVerif.Lemmas.FpEnc
/-!
# Definedness in the rounded model (C04 in floating point): sign facts about the COMPUTED XYZ of an 8-bit colour

* `xyz_ok`: the computed D65 XYZ of an 8-bit colour is exactly `(0,0,0)` (black) or non-negative with luminance
  `≥ 1.9e-5` (`FpCieXyz.xyz_d65_fp`, `xyz_cone_fp`, `FpXyz.xyz_black_fp`).
* `rec2100_lin_nonneg_fp`: the three computed BT.2020 linear components of that XYZ are `≥ 0` in every model: `0` for
  black; otherwise the exact-real value is at least `0.01·(l_r + l_g + l_b) ≥ 6e-10` (the combined matrix
  BT.2020⁻¹·sRGB has entries `≥ 0.0114`, a non-zero level decodes to `≥ 6e-8`), and the computed value is within
  `2.7e-12` of it.  This is the residue that could have been negative after rounding; it is not.
-/
set_option linter.unusedSimpArgs false
set_option linter.unusedVariables false
namespace Lemmas.FpDefined
open Gen FpErr Lemmas.Matrix Lemmas.XyzDispatch Lemmas.FpXyz
variable {M : FPModel}

theorem xyz_ok (c : Rgb) (hr : c.r ≤ 255) (hg : c.g ≤ 255) (hb : c.b ≤ 255) :
    XyzOK (Xyz.from_rgb (α := RF M) c XyzKind.D65) := by
  by_cases h : c.r = 0 ∧ c.g = 0 ∧ c.b = 0
  · left
    obtain ⟨h1, h2, h3⟩ := h
    have e : c = ⟨0, 0, 0⟩ := by cases c; simp_all
    rw [e, from_rgb_eq_fp']
    exact xyz_black_fp M .D65
  · right
    obtain ⟨⟨a, -, -⟩, -, ⟨b, -, -⟩⟩ := FpCieXyz.xyz_d65_fp M c hr hg hb
    obtain ⟨y, -, -⟩ := FpCieXyz.xyz_cone_fp M c hr hg hb h
    exact ⟨a, le_trans (by norm_num) y, b⟩

/-- real model, every profile: the luminance of a non-negative linear triple is at least `0.01` times its sum -/
theorem y_lin_lower (k : XyzKind) (l : V3) (h0 : 0 ≤ l.1) (h1 : 0 ≤ l.2.1) (h2 : 0 ≤ l.2.2) :
    0.01 * (l.1 + l.2.1 + l.2.2) ≤ (mulVec (fwd k) l).2.1 := by
  obtain ⟨l0, l1, l2⟩ := l
  simp only at h0 h1 h2
  cases k <;>
  simp only [Lemmas.Matrix.dot, Lemmas.Matrix.mulVec, fwd, C.Y65, C.Y50, C.AY, FltReal.lit_eq] <;>
  norm_num <;> linarith

/-- **the computed XYZ of an 8-bit colour, under every profile**: exactly `(0,0,0)` or non-negative with `Y ≥ 1e-10` -/
theorem xyz_ok_any (c : Rgb) (k : XyzKind) (hr : c.r ≤ 255) (hg : c.g ≤ 255) (hb : c.b ≤ 255) :
    XyzOK (Xyz.from_rgb (α := RF M) c k) := by
  rw [from_rgb_eq_fp']
  by_cases h : c.r = 0 ∧ c.g = 0 ∧ c.b = 0
  · left
    obtain ⟨h1, h2, h3⟩ := h
    have e : c = ⟨0, 0, 0⟩ := by cases c; simp_all
    rw [e]
    exact xyz_black_fp M k
  · right
    obtain ⟨a, -, b⟩ := FpGrey.xyzF_nonneg M k c hr hg hb
    obtain ⟨-, f2, -⟩ := xyz_fp_close M k c hr hg hb
    have n1 := dec_level_nonneg k c.r
    have n2 := dec_level_nonneg k c.g
    have n3 := dec_level_nonneg k c.b
    have g := y_lin_lower k (lin k c) n1 n2 n3
    have hsum : 6e-8 ≤ (lin k c).1 + (lin k c).2.1 + (lin k c).2.2 := by
      show 6e-8 ≤ dec k ((c.r : ℝ) / 255) + dec k ((c.g : ℝ) / 255) + dec k ((c.b : ℝ) / 255)
      have : 1 ≤ c.r ∨ 1 ≤ c.g ∨ 1 ≤ c.b := by omega
      rcases this with h | h | h
      · have := FpGrey.dec_level_ge k c.r h; linarith
      · have := FpGrey.dec_level_ge k c.g h; linarith
      · have := FpGrey.dec_level_ge k c.b h; linarith
    refine ⟨a, ?_, b⟩
    have := (abs_le.mp f2).1
    norm_num at *; linarith

/-- real model: a BT.2020 linear component of a non-negative linear-sRGB triple is at least `0.01` times its sum -/
theorem rec2020_lin_lower (l : V3) (h0 : 0 ≤ l.1) (h1 : 0 ≤ l.2.1) (h2 : 0 ≤ l.2.2) :
    0.01 * (l.1 + l.2.1 + l.2.2) ≤ dot C.rec2020_XR (mulVec (fwd .D65) l) ∧
    0.01 * (l.1 + l.2.1 + l.2.2) ≤ dot C.XG (mulVec (fwd .D65) l) ∧
    0.01 * (l.1 + l.2.1 + l.2.2) ≤ dot C.XB (mulVec (fwd .D65) l) := by
  obtain ⟨l0, l1, l2⟩ := l
  simp only at h0 h1 h2
  simp only [Lemmas.Matrix.dot, Lemmas.Matrix.mulVec, fwd, C.rec2020_XR, C.XG, C.XB, C.X65, C.Y65, C.Z65, FltReal.lit_eq]
  norm_num
  refine ⟨?_, ?_, ?_⟩ <;> linarith

/-- **the computed BT.2020 linear components of an 8-bit colour are non-negative in every model** -/
theorem rec2100_lin_nonneg_fp (c : Rgb) (hr : c.r ≤ 255) (hg : c.g ≤ 255) (hb : c.b ≤ 255) :
    let p := Xyz.from_rgb (α := RF M) c XyzKind.D65
    0 ≤ (((p.x * (C.rec2020_XR : RF M × RF M × RF M).1) + (p.y * (C.rec2020_XR : RF M × RF M × RF M).2.1)) +
      (p.z * (C.rec2020_XR : RF M × RF M × RF M).2.2)).val ∧
    0 ≤ (((p.x * (C.XG : RF M × RF M × RF M).1) + (p.y * (C.XG : RF M × RF M × RF M).2.1)) +
      (p.z * (C.XG : RF M × RF M × RF M).2.2)).val ∧
    0 ≤ (((p.x * (C.XB : RF M × RF M × RF M).1) + (p.y * (C.XB : RF M × RF M × RF M).2.1)) +
      (p.z * (C.XB : RF M × RF M × RF M).2.2)).val := by
  intro p
  show 0 ≤ (dotF' M (p.x, p.y, p.z) C.rec2020_XR).val ∧ 0 ≤ (dotF' M (p.x, p.y, p.z) C.XG).val ∧
    0 ≤ (dotF' M (p.x, p.y, p.z) C.XB).val
  by_cases h : c.r = 0 ∧ c.g = 0 ∧ c.b = 0
  · obtain ⟨h1, h2, h3⟩ := h
    have e : c = ⟨0, 0, 0⟩ := by cases c; simp_all
    have hp : p = ⟨(xyzF M .D65 ⟨0, 0, 0⟩).1, (xyzF M .D65 ⟨0, 0, 0⟩).2.1, (xyzF M .D65 ⟨0, 0, 0⟩).2.2⟩ := by
      show Xyz.from_rgb (α := RF M) c XyzKind.D65 = _
      rw [e, from_rgb_eq_fp']
    obtain ⟨z1, z2, z3⟩ := xyz_black_fp M .D65
    have d : ∀ m, (dotF' M (p.x, p.y, p.z) m).val = 0 := fun m => by
      rw [dotF'_val, hp]; exact dotF_zero M m _ z1 z2 z3
    exact ⟨(d _).ge, (d _).ge, (d _).ge⟩
  · obtain ⟨f1, f2, f3⟩ := xyz_fp_close M .D65 c hr hg hb
    have b1 := xyz_range .D65 c hr hg hb 0
    have b2 := xyz_range .D65 c hr hg hb 1
    have b3 := xyz_range .D65 c hr hg hb 2
    simp only [V3.get] at b1 b2 b3
    obtain ⟨r1, r2, r3⟩ := FpEnc.rec2020_rows M
    have q1 := dot3_close' M r1 (v := xyzF M .D65 c) (x := mulVec (fwd .D65) (lin .D65 c)) f1 f2 f3 b1 b2 b3 (by norm_num)
    have q2 := dot3_close' M r2 (v := xyzF M .D65 c) (x := mulVec (fwd .D65) (lin .D65 c)) f1 f2 f3 b1 b2 b3 (by norm_num)
    have q3 := dot3_close' M r3 (v := xyzF M .D65 c) (x := mulVec (fwd .D65) (lin .D65 c)) f1 f2 f3 b1 b2 b3 (by norm_num)
    have n1 := dec_level_nonneg .D65 c.r
    have n2 := dec_level_nonneg .D65 c.g
    have n3 := dec_level_nonneg .D65 c.b
    obtain ⟨g1, g2, g3⟩ := rec2020_lin_lower (lin .D65 c) n1 n2 n3
    have hsum : 6e-8 ≤ (lin .D65 c).1 + (lin .D65 c).2.1 + (lin .D65 c).2.2 := by
      show 6e-8 ≤ dec .D65 ((c.r : ℝ) / 255) + dec .D65 ((c.g : ℝ) / 255) + dec .D65 ((c.b : ℝ) / 255)
      have : 1 ≤ c.r ∨ 1 ≤ c.g ∨ 1 ≤ c.b := by omega
      rcases this with h | h | h
      · have := FpGrey.dec_level_ge .D65 c.r h; linarith
      · have := FpGrey.dec_level_ge .D65 c.g h; linarith
      · have := FpGrey.dec_level_ge .D65 c.b h; linarith
    have hp : p = ⟨(xyzF M .D65 c).1, (xyzF M .D65 c).2.1, (xyzF M .D65 c).2.2⟩ := from_rgb_eq_fp' M .D65 c
    rw [hp]
    have a1 := (abs_le.mp q1).1
    have a2 := (abs_le.mp q2).1
    have a3 := (abs_le.mp q3).1
    refine ⟨?_, ?_, ?_⟩ <;> norm_num at * <;> linarith

end Lemmas.FpDefined
