import LymuiVerif.Props.C07
/-!
# OkLab: propagation of the inverse-table residue through the cube (used by Props.C02_cie)

`ottossonInv (ottosson lin) = R2·(R1·M2·cbrt(M1·lin))³`.  With `p = cbrt(M1·lin)`, `q = (R1·M2)·p = p + E·p`
(`E = R1·M2 − I`, entries ≤ 6.3e-8), `q³ = p³ + d`, `R2·(M1·lin + d) = lin + (R2·M1 − I)·lin + R2·d`.
The map is homogeneous of degree one, so the bound is proportional to the size `B` of the box.
-/
noncomputable section
namespace Lemmas.OkLabF1b
open Props.C07 Lemmas.CurvesD2

/-- `Real.cbrt` is monotone on the non-negative reals -/
theorem cbrt_le_cbrt {a b : ℝ} (ha : 0 ≤ a) (hab : a ≤ b) : Real.cbrt a ≤ Real.cbrt b := by
  rw [cbrt_of_nonneg ha, cbrt_of_nonneg (ha.trans hab)]
  exact Real.rpow_le_rpow ha hab (by norm_num)

theorem cbrt_nonneg {a : ℝ} (ha : 0 ≤ a) : 0 ≤ Real.cbrt a := by
  rw [cbrt_of_nonneg ha]; exact Real.rpow_nonneg ha _

/-- stage 1: `M1` maps the box `[0,B]³` into itself (positive entries, row sums ≤ 1) -/
theorem lms_box {r g b B : ℝ} (hr : 0 ≤ r ∧ r ≤ B) (hg : 0 ≤ g ∧ g ≤ B) (hb : 0 ≤ b ∧ b ≤ B) :
    (0 ≤ (mulVec M1 (r, g, b)).1 ∧ (mulVec M1 (r, g, b)).1 ≤ B) ∧
    (0 ≤ (mulVec M1 (r, g, b)).2.1 ∧ (mulVec M1 (r, g, b)).2.1 ≤ B) ∧
    (0 ≤ (mulVec M1 (r, g, b)).2.2 ∧ (mulVec M1 (r, g, b)).2.2 ≤ B) := by
  obtain ⟨r0, r1⟩ := hr; obtain ⟨g0, g1⟩ := hg; obtain ⟨b0, b1⟩ := hb
  simp only [mulVec, row, M1]
  norm_num
  refine ⟨⟨?_, ?_⟩, ⟨?_, ?_⟩, ⟨?_, ?_⟩⟩ <;> linarith

/-- stage 2: `(R1·M2)·p` is `p` up to the table residue, signed bounds, on `[0,P]³` -/
theorem table_residue {p1 p2 p3 P : ℝ} (h1 : 0 ≤ p1 ∧ p1 ≤ P) (h2 : 0 ≤ p2 ∧ p2 ≤ P) (h3 : 0 ≤ p3 ∧ p3 ≤ P) :
    (-(35 / 10 ^ 9) * P ≤ (mulVec R1 (mulVec M2 (p1, p2, p3))).1 - p1 ∧
      (mulVec R1 (mulVec M2 (p1, p2, p3))).1 - p1 ≤ 366 / 10 ^ 10 * P) ∧
    (-(119 / 10 ^ 10) * P ≤ (mulVec R1 (mulVec M2 (p1, p2, p3))).2.1 - p2 ∧
      (mulVec R1 (mulVec M2 (p1, p2, p3))).2.1 - p2 ≤ 3 / 10 ^ 9 * P) ∧
    (-(652 / 10 ^ 10) * P ≤ (mulVec R1 (mulVec M2 (p1, p2, p3))).2.2 - p3 ∧
      (mulVec R1 (mulVec M2 (p1, p2, p3))).2.2 - p3 ≤ 105 / 10 ^ 10 * P) := by
  obtain ⟨a0, a1⟩ := h1; obtain ⟨b0, b1⟩ := h2; obtain ⟨c0, c1⟩ := h3
  simp only [mulVec, row, R1, M2]
  norm_num
  refine ⟨⟨?_, ?_⟩, ⟨?_, ?_⟩, ⟨?_, ?_⟩⟩ <;> linarith

/-- stage 3: the cube of a relative perturbation: `0 ≤ p ≤ P`, `a ≤ q − p ≤ b`, `|a|, |b| ≤ 1e-7·P`
give `3.000001·P²·a ≤ q³ − p³ ≤ 3.000001·P²·b` -/
theorem cube_perturb {p q P a b : ℝ} (hp0 : 0 ≤ p) (hpP : p ≤ P) (ha : a ≤ q - p) (hb : q - p ≤ b)
    (ha0 : a ≤ 0) (hb0 : 0 ≤ b) (ha1 : -(1 / 10 ^ 7) * P ≤ a) (hb1 : b ≤ 1 / 10 ^ 7 * P) :
    3000001 / 1000000 * P ^ 2 * a ≤ q ^ 3 - p ^ 3 ∧ q ^ 3 - p ^ 3 ≤ 3000001 / 1000000 * P ^ 2 * b := by
  have hP : 0 ≤ P := hp0.trans hpP
  have e : q ^ 3 - p ^ 3 = (q - p) * (q ^ 2 + q * p + p ^ 2) := by ring
  have hW0 : 0 ≤ q ^ 2 + q * p + p ^ 2 := by nlinarith [sq_nonneg (q + p / 2), sq_nonneg p]
  have hq1 : q ≤ (1 + 1 / 10 ^ 7) * P := by linarith
  have hq0 : -(1 / 10 ^ 7) * P ≤ q := by linarith
  have hqq : q ^ 2 ≤ ((1 + 1 / 10 ^ 7) * P) ^ 2 := by
    apply sq_le_sq'
    · nlinarith
    · exact hq1
  have hqp : q * p ≤ (1 + 1 / 10 ^ 7) * P * P := by
    rcases le_or_gt 0 q with h | h
    · exact mul_le_mul hq1 hpP hp0 (by positivity)
    · have : q * p ≤ 0 := mul_nonpos_of_nonpos_of_nonneg h.le hp0
      have : 0 ≤ (1 + 1 / 10 ^ 7) * P * P := by positivity
      linarith
  have hpp : p ^ 2 ≤ P ^ 2 := pow_le_pow_left₀ hp0 hpP 2
  have hW1 : q ^ 2 + q * p + p ^ 2 ≤ 3000001 / 1000000 * P ^ 2 := by
    have : ((1 + 1 / 10 ^ 7) * P) ^ 2 + (1 + 1 / 10 ^ 7) * P * P + P ^ 2 ≤ 3000001 / 1000000 * P ^ 2 := by
      have : 0 ≤ P ^ 2 := sq_nonneg P
      nlinarith
    linarith
  rw [e]
  constructor
  · -- a·Wmax ≤ a·W ≤ (q-p)·W
    have s1 : a * (q ^ 2 + q * p + p ^ 2) ≤ (q - p) * (q ^ 2 + q * p + p ^ 2) :=
      mul_le_mul_of_nonneg_right ha hW0
    have s2 : a * (3000001 / 1000000 * P ^ 2) ≤ a * (q ^ 2 + q * p + p ^ 2) :=
      mul_le_mul_of_nonpos_left hW1 ha0
    linarith
  · have s1 : (q - p) * (q ^ 2 + q * p + p ^ 2) ≤ b * (q ^ 2 + q * p + p ^ 2) :=
      mul_le_mul_of_nonneg_right hb hW0
    have s2 : b * (q ^ 2 + q * p + p ^ 2) ≤ b * (3000001 / 1000000 * P ^ 2) :=
      mul_le_mul_of_nonneg_left hW1 hb0
    linarith

/-- stage 4: `R2·(M1·lin + d) − lin`, linear in `lin ∈ [0,B]³` and in the signed perturbation `d` -/
theorem final_stage {r g b d1 d2 d3 B : ℝ} (hr : 0 ≤ r ∧ r ≤ B) (hg : 0 ≤ g ∧ g ≤ B) (hb : 0 ≤ b ∧ b ≤ B)
    (k1 : -(1051 / 10 ^ 10) * B ≤ d1 ∧ d1 ≤ 1099 / 10 ^ 10 * B)
    (k2 : -(358 / 10 ^ 10) * B ≤ d2 ∧ d2 ≤ 91 / 10 ^ 10 * B)
    (k3 : -(1957 / 10 ^ 10) * B ≤ d3 ∧ d3 ≤ 316 / 10 ^ 10 * B) :
    (-(51 / 10 ^ 8) * B ≤ (mulVec R2 ((mulVec M1 (r, g, b)).1 + d1, (mulVec M1 (r, g, b)).2.1 + d2,
        (mulVec M1 (r, g, b)).2.2 + d3)).1 - r ∧
      (mulVec R2 ((mulVec M1 (r, g, b)).1 + d1, (mulVec M1 (r, g, b)).2.1 + d2,
        (mulVec M1 (r, g, b)).2.2 + d3)).1 - r ≤ 58 / 10 ^ 8 * B) ∧
    (-(25 / 10 ^ 8) * B ≤ (mulVec R2 ((mulVec M1 (r, g, b)).1 + d1, (mulVec M1 (r, g, b)).2.1 + d2,
        (mulVec M1 (r, g, b)).2.2 + d3)).2.1 - g ∧
      (mulVec R2 ((mulVec M1 (r, g, b)).1 + d1, (mulVec M1 (r, g, b)).2.1 + d2,
        (mulVec M1 (r, g, b)).2.2 + d3)).2.1 - g ≤ 23 / 10 ^ 8 * B) ∧
    (-(35 / 10 ^ 8) * B ≤ (mulVec R2 ((mulVec M1 (r, g, b)).1 + d1, (mulVec M1 (r, g, b)).2.1 + d2,
        (mulVec M1 (r, g, b)).2.2 + d3)).2.2 - b ∧
      (mulVec R2 ((mulVec M1 (r, g, b)).1 + d1, (mulVec M1 (r, g, b)).2.1 + d2,
        (mulVec M1 (r, g, b)).2.2 + d3)).2.2 - b ≤ 8 / 10 ^ 8 * B) := by
  obtain ⟨r0, r1⟩ := hr; obtain ⟨g0, g1⟩ := hg; obtain ⟨b0, b1⟩ := hb
  obtain ⟨k1a, k1b⟩ := k1; obtain ⟨k2a, k2b⟩ := k2; obtain ⟨k3a, k3b⟩ := k3
  simp only [mulVec, row, R2, M1]
  norm_num
  refine ⟨⟨?_, ?_⟩, ⟨?_, ?_⟩, ⟨?_, ?_⟩⟩ <;> linarith

/-- **OkLab in linear light**: Ottosson's inverse transform applied to Ottosson's forward transform (the
published, rounded tables) returns every `lin ∈ [0,B]³` within `5.8e-7·B` per component
(signed: R `[-5.1e-7, 5.8e-7]·B`, G `[-2.5e-7, 2.3e-7]·B`, B `[-3.5e-7, 0.8e-7]·B`). -/
theorem ottosson_roundtrip {r g b B : ℝ} (hr : 0 ≤ r ∧ r ≤ B) (hg : 0 ≤ g ∧ g ≤ B) (hb : 0 ≤ b ∧ b ≤ B) :
    (-(51 / 10 ^ 8) * B ≤ (ottossonInv (ottosson (r, g, b))).1 - r ∧
      (ottossonInv (ottosson (r, g, b))).1 - r ≤ 58 / 10 ^ 8 * B) ∧
    (-(25 / 10 ^ 8) * B ≤ (ottossonInv (ottosson (r, g, b))).2.1 - g ∧
      (ottossonInv (ottosson (r, g, b))).2.1 - g ≤ 23 / 10 ^ 8 * B) ∧
    (-(35 / 10 ^ 8) * B ≤ (ottossonInv (ottosson (r, g, b))).2.2 - b ∧
      (ottossonInv (ottosson (r, g, b))).2.2 - b ≤ 8 / 10 ^ 8 * B) := by
  have hB : 0 ≤ B := hr.1.trans hr.2
  obtain ⟨⟨l0, l1⟩, ⟨m0, m1⟩, ⟨s0, s1⟩⟩ := lms_box hr hg hb
  have hP0 : 0 ≤ Real.cbrt B := cbrt_nonneg hB
  have hP3 : Real.cbrt B ^ 2 * Real.cbrt B = B := by rw [← pow_succ]; exact Lemmas.CurvesD2.cube_cbrt B
  have p1 := And.intro (cbrt_nonneg l0) (cbrt_le_cbrt l0 l1)
  have p2 := And.intro (cbrt_nonneg m0) (cbrt_le_cbrt m0 m1)
  have p3 := And.intro (cbrt_nonneg s0) (cbrt_le_cbrt s0 s1)
  obtain ⟨⟨a1, b1⟩, ⟨a2, b2⟩, ⟨a3, b3⟩⟩ := table_residue p1 p2 p3
  have c1 := cube_perturb p1.1 p1.2 a1 b1 (by linarith) (by positivity) (by linarith) (by linarith)
  have c2 := cube_perturb p2.1 p2.2 a2 b2 (by linarith) (by positivity) (by linarith) (by linarith)
  have c3 := cube_perturb p3.1 p3.2 a3 b3 (by linarith) (by positivity) (by linarith) (by linarith)
  rw [Lemmas.CurvesD2.cube_cbrt] at c1 c2 c3
  have t : ∀ k : ℝ, 3000001 / 1000000 * Real.cbrt B ^ 2 * (k * Real.cbrt B) = 3000001 / 1000000 * k * B := by
    intro k
    have h3 := hP3
    generalize Real.cbrt B = P at h3 ⊢
    rw [← h3]; ring
  simp only [t] at c1 c2 c3
  have e : ∀ l m s : ℝ, ∀ q : Vec3, mulVec R2 (cube3 q) = mulVec R2 (l + (q.1 ^ 3 - l), m + (q.2.1 ^ 3 - m),
      s + (q.2.2 ^ 3 - s)) := by
    intro l m s q; simp only [cube3, add_sub_cancel]
  have e' : ottossonInv (ottosson (r, g, b)) =
      mulVec R2 (cube3 (mulVec R1 (mulVec M2 (cbrt3 (mulVec M1 (r, g, b)))))) := rfl
  rw [e', e (mulVec M1 (r, g, b)).1 (mulVec M1 (r, g, b)).2.1 (mulVec M1 (r, g, b)).2.2]
  have u1 : -(1051 / 10 ^ 10) * B ≤ 3000001 / 1000000 * -(35 / 10 ^ 9) * B := by linarith
  have v1 : 3000001 / 1000000 * (366 / 10 ^ 10) * B ≤ 1099 / 10 ^ 10 * B := by linarith
  have u2 : -(358 / 10 ^ 10) * B ≤ 3000001 / 1000000 * -(119 / 10 ^ 10) * B := by linarith
  have v2 : 3000001 / 1000000 * (3 / 10 ^ 9) * B ≤ 91 / 10 ^ 10 * B := by linarith
  have u3 : -(1957 / 10 ^ 10) * B ≤ 3000001 / 1000000 * -(652 / 10 ^ 10) * B := by linarith
  have v3 : 3000001 / 1000000 * (105 / 10 ^ 10) * B ≤ 316 / 10 ^ 10 * B := by linarith
  have k1 := And.intro (le_trans u1 c1.1) (le_trans c1.2 v1)
  have k2 := And.intro (le_trans u2 c2.1) (le_trans c2.2 v2)
  have k3 := And.intro (le_trans u3 c3.1) (le_trans c3.2 v3)
  exact final_stage hr hg hb k1 k2 k3

end Lemmas.OkLabF1b
