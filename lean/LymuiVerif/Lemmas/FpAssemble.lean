import LymuiVerif.Props.C06_fp_luv
import LymuiVerif.Lemmas.FpMono
import LymuiVerif.Lemmas.DerivedF2
import LymuiVerif.Lemmas.FpEnc
/-!
# Assembly lemmas for the unconditional forward clause of C06 and the XYZ-derived ranges of C13 in `RF M`

All lemmas hold for every `M : FPModel`.

* real analysis: `fSpec_lip` (the exact CIE `f` is `841/108`-Lipschitz on `[0, ∞)`), `fSpec_le`.
* `lab_cie_fp`: CIELAB computed in `RF M` against the CIE formulae (exact constants) at the same XYZ, for every
  XYZ of `[0, 1.1]³`, WITHOUT any condition on the branch taken: either branch of the computed `f` is within
  `3.4e-7 + 4e-15` of the exact CIE `f` (`FpCie.fwd_f_fp`, `FpCie.fwd_spec`).
* `luv_cie_fp`: the same for CIELUV (`FpLuv.lum_fwd_fp`, `FpLuv.lfwd_spec`), in gamut `X ≤ 5Y + Z`.
* `cieluv_lip`, `hunter_lip` (with `quot_pert`, `sqrt_pert`, `hterm_pert`, `lstar_le_kappa`): the CIELUV and Hunter formulae move
  by at most `1e-7` under a componentwise perturbation `2e-13` of XYZ on the cone of the non-black 8-bit colours (used for the
  comparison with the formulae at the exact-real XYZ).
* `black_fp`: the computed XYZ of black is exactly `(0, 0, 0)`.
* ranges: `labLF_range`, `luvLF_range`, `hunterF_range` (the three lightness closed forms of `Lemmas/FpMono.lean`
  on `[0, 1.0000001 + 3e-13]`), `yF_range`, `argb_enc_range` (Adobe encoder of a linear value `≤ 1.00024`), `argb_range_colour`.
-/
namespace FpAssemble
open Gen FpErr FpLin FpCie FpLuv Lemmas.Cie Props.C06

/-! ## the exact CIE `f`: Lipschitz bound and range -/

theorem fSpec_at_eps : fSpec (216 / 24389) = 6 / 29 := by
  rw [fSpec_low le_rfl]; norm_num

/-- `fSpec` is non-decreasing with slope at most `841/108 = 7.787…` on `[0, ∞)` -/
theorem fSpec_lip_le {s t : ℝ} (hs : 0 ≤ s) (hst : s ≤ t) :
    0 ≤ fSpec t - fSpec s ∧ fSpec t - fSpec s ≤ 841 / 108 * (t - s) := by
  have cube : ∀ p q : ℝ, 6 / 29 ≤ p → p ≤ q → q - p ≤ 841 / 108 * (q ^ 3 - p ^ 3) := by
    intro p q hp hpq
    have e : q ^ 3 - p ^ 3 = (q - p) * (q ^ 2 + q * p + p ^ 2) := by ring
    have h1 : 108 / 841 ≤ q ^ 2 + q * p + p ^ 2 := by nlinarith
    have h2 : (q - p) * (108 / 841) ≤ (q - p) * (q ^ 2 + q * p + p ^ 2) :=
      mul_le_mul_of_nonneg_left h1 (by linarith)
    rw [e]; linarith
  have ht : 0 ≤ t := hs.trans hst
  rcases le_or_gt t (216 / 24389) with h2 | h2
  · rw [fSpec_low h2, fSpec_low (hst.trans h2)]
    constructor <;> linarith
  · obtain ⟨q1, q3⟩ := fSpec_high_gt h2
    rcases le_or_gt s (216 / 24389) with h1 | h1
    · have c := cube (6 / 29) (fSpec t) le_rfl q1.le
      rw [q3] at c
      rw [fSpec_low h1]
      constructor
      · linarith
      · norm_num at c ⊢; linarith
    · obtain ⟨p1, p3⟩ := fSpec_high_gt h1
      have hpq : fSpec s ≤ fSpec t := by
        rw [fSpec_high h1, fSpec_high h2]
        exact Real.rpow_le_rpow hs hst (by norm_num)
      have c := cube (fSpec s) (fSpec t) p1.le hpq
      rw [q3, p3] at c
      exact ⟨by linarith, c⟩

theorem fSpec_lip {s t : ℝ} (hs : 0 ≤ s) (ht : 0 ≤ t) : |fSpec s - fSpec t| ≤ 8 * |s - t| := by
  rcases le_total s t with h | h
  · obtain ⟨k1, k2⟩ := fSpec_lip_le hs h
    rw [abs_sub_comm, abs_of_nonneg k1, abs_sub_comm, abs_of_nonneg (by linarith)]; linarith
  · obtain ⟨k1, k2⟩ := fSpec_lip_le ht h
    rw [abs_of_nonneg k1, abs_of_nonneg (by linarith)]; linarith

/-- `16/116 ≤ fSpec t ≤ 1.07` on `[0, 1.2]` -/
theorem fSpec_range {t : ℝ} (h0 : 0 ≤ t) (h1 : t ≤ 12 / 10) : 16 / 116 ≤ fSpec t ∧ fSpec t ≤ 107 / 100 := by
  rcases le_or_gt t (216 / 24389) with h | h
  · rw [fSpec_low h]; constructor <;> linarith
  · obtain ⟨k1, -⟩ := fSpec_high_gt h
    refine ⟨by linarith, ?_⟩
    rw [fSpec_high h]
    exact rpow_third_le (by norm_num) h0 (by norm_num; linarith)

/-! ## the CIE formulae under a perturbation `≤ 2e-13` of XYZ (cone of the non-black 8-bit colours) -/

/-- the CIE lightness is at most `κ·Y` (tangent at the junction: `κ s³ − 116 s + 16 = κ (s − 6/29)² (s + 12/29) ≥ 0`) -/
theorem lstar_le_kappa {Y : ℝ} (_hY : 0 ≤ Y) : 116 * fSpec Y - 16 ≤ 24389 / 27 * Y := by
  rcases le_or_gt Y (216 / 24389) with h | h
  · rw [fSpec_low h]; linarith
  · obtain ⟨k1, k3⟩ := fSpec_high_gt h
    have c := cubic_factor (fSpec Y)
    have : 0 ≤ 24389 / 27 * (fSpec Y - 6 / 29) ^ 2 * (fSpec Y + 12 / 29) :=
      mul_nonneg (by positivity) (by linarith)
    rw [k3] at c; linarith

theorem lstar_nonneg {Y : ℝ} (hY : 0 ≤ Y) : 0 ≤ 116 * fSpec Y - 16 := by
  have h := (fSpec_lip_le le_rfl hY).1
  rw [fSpec_low (by norm_num : (0 : ℝ) ≤ 216 / 24389)] at h
  linarith

/-- a quotient `n/D` with `|n| ≤ k·D` under perturbations `k·δ` of `n` and `19·δ` of `D` -/
theorem quot_pert {n n' D D' k δ : ℝ} (hD : 0 < D) (hD' : 0 < D') (hn : |n' - n| ≤ k * δ)
    (hDd : |D' - D| ≤ 19 * δ) (hnD : |n| ≤ k * D) : |n' / D' - n / D| ≤ 20 * k * δ / D' := by
  have e : n' / D' - n / D = ((n' - n) * D - n * (D' - D)) / (D' * D) := by field_simp; ring
  rw [e, abs_div, abs_of_pos (mul_pos hD' hD), div_le_div_iff₀ (mul_pos hD' hD) hD']
  have hkD : 0 ≤ k * D := le_trans (abs_nonneg _) hnD
  have h1 : |(n' - n) * D - n * (D' - D)| ≤ k * δ * D + k * D * (19 * δ) := by
    refine (abs_sub _ _).trans ?_
    rw [abs_mul, abs_mul, abs_of_pos hD]
    exact add_le_add (mul_le_mul_of_nonneg_right hn hD.le) (mul_le_mul hnD hDd (abs_nonneg _) hkD)
  calc |(n' - n) * D - n * (D' - D)| * D' ≤ (k * δ * D + k * D * (19 * δ)) * D' :=
        mul_le_mul_of_nonneg_right h1 hD'.le
    _ = 20 * k * δ * (D' * D) := by ring

/-- **the CIELUV formulae are stable on the cone**: XYZ and X'Y'Z' non-negative, componentwise within `2e-13`,
`Y' ≥ 1.9e-5`, `X' ≤ 5Y' + Z'`: `L*` moves by at most `2e-10`, `u*`, `v*` by at most `1e-7` -/
theorem cieluv_lip {X Y Z X' Y' Z' : ℝ} (hX : 0 ≤ X) (hY : 0 ≤ Y) (hZ : 0 ≤ Z)
    (hX' : 0 ≤ X') (hY' : 19 / 10 ^ 6 ≤ Y') (hZ' : 0 ≤ Z')
    (dX : |X' - X| ≤ 2e-13) (dY : |Y' - Y| ≤ 2e-13) (dZ : |Z' - Z| ≤ 2e-13) (hg : X' ≤ 5 * Y' + Z') :
    |(cieluv X' Y' Z').l - (cieluv X Y Z).l| ≤ 2 / 10 ^ 10 ∧
    |(cieluv X' Y' Z').u - (cieluv X Y Z).u| ≤ 1 / 10 ^ 7 ∧
    |(cieluv X' Y' Z').v - (cieluv X Y Z).v| ≤ 1 / 10 ^ 7 := by
  obtain ⟨x1, x2⟩ := abs_le.mp dX
  obtain ⟨y1, y2⟩ := abs_le.mp dY
  obtain ⟨z1, z2⟩ := abs_le.mp dZ
  have hYp' : 0 < Y' := lt_of_lt_of_le (by norm_num) hY'
  have hYp : 0 < Y := by norm_num at y2 hY' ⊢; linarith
  have hD : 0 < X + 15 * Y + 3 * Z := by positivity
  have hD' : 0 < X' + 15 * Y' + 3 * Z' := by positivity
  simp only [cieluv, if_neg hD.ne', if_neg hD'.ne', lstar_eq, cieF_eq_fSpec, Yn, div_one]
  have hA : |(116 * fSpec Y' - 16) - (116 * fSpec Y - 16)| ≤ 928 * 2e-13 := by
    have l := fSpec_lip hYp'.le hY
    have e : (116 * fSpec Y' - 16) - (116 * fSpec Y - 16) = 116 * (fSpec Y' - fSpec Y) := by ring
    rw [e, abs_mul, abs_of_pos (by norm_num : (0 : ℝ) < 116)]
    linarith
  have hA0 := lstar_nonneg hY
  have hAk := lstar_le_kappa hY
  set A := 116 * fSpec Y - 16 with hAdef
  set A' := 116 * fSpec Y' - 16 with hA'def
  have hDd : |(X' + 15 * Y' + 3 * Z') - (X + 15 * Y + 3 * Z)| ≤ 19 * 2e-13 := by
    rw [abs_le]; constructor <;> linarith
  have hAD : A / (X' + 15 * Y' + 3 * Z') ≤ 121 := by
    rw [div_le_iff₀ hD']; norm_num at y1 y2 hY' ⊢; nlinarith
  have qu : |uPrime X' Y' Z' - uPrime X Y Z| ≤ 20 * 4 * 2e-13 / (X' + 15 * Y' + 3 * Z') := by
    unfold uPrime
    refine quot_pert hD hD' ?_ hDd ?_
    · rw [show 4 * X' - 4 * X = 4 * (X' - X) by ring, abs_mul, abs_of_pos (by norm_num : (0 : ℝ) < 4)]
      exact mul_le_mul_of_nonneg_left dX (by norm_num)
    · rw [abs_of_nonneg (by positivity)]; nlinarith
  have qv : |vPrime X' Y' Z' - vPrime X Y Z| ≤ 20 * 9 * 2e-13 / (X' + 15 * Y' + 3 * Z') := by
    unfold vPrime
    refine quot_pert hD hD' ?_ hDd ?_
    · rw [show 9 * Y' - 9 * Y = 9 * (Y' - Y) by ring, abs_mul, abs_of_pos (by norm_num : (0 : ℝ) < 9)]
      exact mul_le_mul_of_nonneg_left dY (by norm_num)
    · rw [abs_of_nonneg (by positivity)]; nlinarith
  have hu0 : uPrime Xn 1 Zn = 380188 / 1921696 := by unfold uPrime Xn Zn; norm_num
  have hv0 : vPrime Xn 1 Zn = 900000 / 1921696 := by unfold vPrime Xn Zn; norm_num
  have hu1 : 0 ≤ uPrime X' Y' Z' := by unfold uPrime; positivity
  have hu2 : uPrime X' Y' Z' ≤ 1 := by unfold uPrime; rw [div_le_one hD']; linarith
  have hv1 : 0 ≤ vPrime X' Y' Z' := by unfold vPrime; positivity
  have hv2 : vPrime X' Y' Z' ≤ 3 / 5 := by unfold vPrime; rw [div_le_iff₀ hD']; linarith
  have du : |uPrime X' Y' Z' - uPrime Xn 1 Zn| ≤ 1 := by rw [hu0, abs_le]; constructor <;> linarith
  have dv : |vPrime X' Y' Z' - vPrime Xn 1 Zn| ≤ 1 := by rw [hv0, abs_le]; constructor <;> linarith
  have key : ∀ (U' U N k : ℝ), |U' - N| ≤ 1 → |U' - U| ≤ 20 * k * 2e-13 / (X' + 15 * Y' + 3 * Z') → 0 ≤ k → k ≤ 9 →
      |13 * A' * (U' - N) - 13 * A * (U - N)| ≤ 1 / 10 ^ 7 := by
    intro U' U N k h1 h2 hk0 hk9
    have e : 13 * A' * (U' - N) - 13 * A * (U - N) = 13 * ((A' - A) * (U' - N) + A * (U' - U)) := by ring
    have t1 : |(A' - A) * (U' - N)| ≤ 928 * 2e-13 * 1 := by
      rw [abs_mul]; exact mul_le_mul hA h1 (abs_nonneg _) (by norm_num)
    have t2 : |A * (U' - U)| ≤ 20 * k * 2e-13 * 121 := by
      rw [abs_mul, abs_of_nonneg hA0]
      calc A * |U' - U| ≤ A * (20 * k * 2e-13 / (X' + 15 * Y' + 3 * Z')) := mul_le_mul_of_nonneg_left h2 hA0
        _ = 20 * k * 2e-13 * (A / (X' + 15 * Y' + 3 * Z')) := by ring
        _ ≤ 20 * k * 2e-13 * 121 := mul_le_mul_of_nonneg_left hAD (by positivity)
    rw [e, abs_mul, abs_of_pos (by norm_num : (0 : ℝ) < 13)]
    have := abs_add_le ((A' - A) * (U' - N)) (A * (U' - U))
    norm_num at t1 t2 this ⊢
    nlinarith
  exact ⟨hA.trans (by norm_num), key _ _ _ 4 du qu (by norm_num) (by norm_num),
    key _ _ _ 9 dv qv (by norm_num) (by norm_num)⟩

/-- the square root under a perturbation: `|√Y' − √Y| ≤ δ/√Y'` and `√Y·|√Y' − √Y| ≤ δ` -/
theorem sqrt_pert {Y Y' δ : ℝ} (hY : 0 < Y) (hY' : 0 < Y') (d : |Y' - Y| ≤ δ) :
    |√Y' - √Y| ≤ δ / √Y' ∧ √Y * |√Y' - √Y| ≤ δ := by
  have s := Real.sqrt_pos.mpr hY
  have s' := Real.sqrt_pos.mpr hY'
  have e : Y' - Y = (√Y' - √Y) * (√Y' + √Y) := by
    have := Real.sq_sqrt hY.le
    have := Real.sq_sqrt hY'.le
    nlinarith
  rw [e, abs_mul, abs_of_pos (by linarith : 0 < √Y' + √Y)] at d
  have h0 := abs_nonneg (√Y' - √Y)
  constructor
  · rw [le_div_iff₀ s']; nlinarith
  · nlinarith

/-- one chromatic term `N/√Y` of the Hunter formulae under a perturbation -/
theorem hterm_pert {N N' s s' δ c1 c2 : ℝ} (hs : 0 < s) (hs' : 0 < s') (hc2 : 0 ≤ c2)
    (dN : |N' - N| ≤ c1 * δ) (hN : |N| ≤ c2 * s ^ 2) (ds2 : s * |s' - s| ≤ δ) :
    |N' / s' - N / s| ≤ (c1 + c2) * δ / s' := by
  have e : N' / s' - N / s = (N' - N) / s' + N * (s - s') / (s * s') := by field_simp; ring
  have t1 : |(N' - N) / s'| ≤ c1 * δ / s' := by
    rw [abs_div, abs_of_pos hs']; exact div_le_div_of_nonneg_right dN hs'.le
  have t2 : |N * (s - s') / (s * s')| ≤ c2 * δ / s' := by
    rw [abs_div, abs_mul, abs_of_pos (mul_pos hs hs'), div_le_div_iff₀ (mul_pos hs hs') hs', abs_sub_comm s s']
    have h1 : |N| * |s' - s| ≤ c2 * s ^ 2 * |s' - s| := mul_le_mul_of_nonneg_right hN (abs_nonneg _)
    have h2 : c2 * s * (s * |s' - s|) ≤ c2 * s * δ := mul_le_mul_of_nonneg_left ds2 (by positivity)
    calc |N| * |s' - s| * s' ≤ c2 * s ^ 2 * |s' - s| * s' := mul_le_mul_of_nonneg_right h1 hs'.le
      _ = c2 * s * (s * |s' - s|) * s' := by ring
      _ ≤ c2 * s * δ * s' := mul_le_mul_of_nonneg_right h2 hs'.le
      _ = c2 * δ * (s * s') := by ring
  rw [e]
  refine (abs_add_le _ _).trans ?_
  have : (c1 + c2) * δ / s' = c1 * δ / s' + c2 * δ / s' := by ring
  rw [this]; exact add_le_add t1 t2

/-- **the Hunter formulae are stable on the cone** `X ≤ 2.6·Y`, `Z ≤ 13.3·Y`: XYZ and X'Y'Z' componentwise within
`2e-13`, `Y' ≥ 1.9e-5`: `L` moves by at most `1e-8`, `a`, `b` by at most `1e-7` -/
theorem hunter_lip {X Y Z X' Y' Z' : ℝ} (hX : 0 ≤ X) (hZ : 0 ≤ Z) (hxc : X ≤ 26 / 10 * Y) (hzc : Z ≤ 133 / 10 * Y)
    (hY' : 19 / 10 ^ 6 ≤ Y') (dX : |X' - X| ≤ 2e-13) (dY : |Y' - Y| ≤ 2e-13) (dZ : |Z' - Z| ≤ 2e-13) :
    |(hunter X' Y' Z').l - (hunter X Y Z).l| ≤ 1 / 10 ^ 8 ∧
    |(hunter X' Y' Z').a - (hunter X Y Z).a| ≤ 1 / 10 ^ 7 ∧
    |(hunter X' Y' Z').b - (hunter X Y Z).b| ≤ 1 / 10 ^ 7 := by
  obtain ⟨x1, x2⟩ := abs_le.mp dX
  obtain ⟨y1, y2⟩ := abs_le.mp dY
  obtain ⟨z1, z2⟩ := abs_le.mp dZ
  have hYp' : 0 < Y' := lt_of_lt_of_le (by norm_num) hY'
  have hYp : 0 < Y := by norm_num at y2 hY' ⊢; linarith
  obtain ⟨sp1, sp2⟩ := sqrt_pert hYp hYp' dY
  have s := Real.sqrt_pos.mpr hYp
  have s' : 43 / 10 ^ 4 ≤ √Y' := by
    apply Real.le_sqrt_of_sq_le; norm_num at hY' ⊢; linarith
  have s'p : 0 < √Y' := lt_of_lt_of_le (by norm_num) s'
  have sq : √Y ^ 2 = Y := Real.sq_sqrt hYp.le
  have inv : (2e-13 : ℝ) / √Y' ≤ 2e-13 / (43 / 10 ^ 4) := div_le_div_of_nonneg_left (by norm_num) (by norm_num) s'
  simp only [hunter, Yn, div_one]
  refine ⟨?_, ?_, ?_⟩
  · rw [show 100 * √Y' - 100 * √Y = 100 * (√Y' - √Y) by ring, abs_mul, abs_of_pos (by norm_num : (0 : ℝ) < 100)]
    norm_num at inv sp1 ⊢; linarith
  · have h := hterm_pert (N := X / Xn - Y) (N' := X' / Xn - Y') (c1 := 21 / 10) (c2 := 4) s s'p (by norm_num)
      (by
        rw [show X' / Xn - Y' - (X / Xn - Y) = (X' - X) / Xn - (Y' - Y) by ring]
        refine (abs_sub _ _).trans ?_
        rw [abs_div, abs_of_pos (by unfold Xn; norm_num : (0 : ℝ) < Xn)]
        have : |X' - X| / Xn ≤ 2e-13 / Xn := div_le_div_of_nonneg_right dX (by unfold Xn; norm_num)
        unfold Xn at this ⊢; norm_num at this dY ⊢; linarith)
      (by
        rw [sq, abs_le]; unfold Xn
        have : 0 ≤ X / (95047 / 100000) := by positivity
        have : X / (95047 / 100000) ≤ 26 / 10 * Y / (95047 / 100000) := div_le_div_of_nonneg_right hxc (by norm_num)
        constructor <;> norm_num at this ⊢ <;> linarith)
      sp2
    rw [show Ka * ((X' / Xn - Y') / √Y') - Ka * ((X / Xn - Y) / √Y) =
      Ka * ((X' / Xn - Y') / √Y' - (X / Xn - Y) / √Y) by ring, abs_mul]
    have hK : |Ka| ≤ 173 := by unfold Ka Xn Yn; rw [abs_of_pos (by norm_num)]; norm_num
    have h' : |(X' / Xn - Y') / √Y' - (X / Xn - Y) / √Y| ≤ 3 / 10 ^ 10 := by
      refine h.trans ?_
      rw [show (21 / 10 + 4 : ℝ) * 2e-13 / √Y' = (21 / 10 + 4) * (2e-13 / √Y') by ring]
      norm_num at inv ⊢; linarith
    calc |Ka| * |(X' / Xn - Y') / √Y' - (X / Xn - Y) / √Y| ≤ 173 * (3 / 10 ^ 10) :=
          mul_le_mul hK h' (abs_nonneg _) (by norm_num)
      _ ≤ 1 / 10 ^ 7 := by norm_num
  · have h := hterm_pert (N := Y - Z / Zn) (N' := Y' - Z' / Zn) (c1 := 2) (c2 := 14) s s'p (by norm_num)
      (by
        rw [show Y' - Z' / Zn - (Y - Z / Zn) = (Y' - Y) - (Z' - Z) / Zn by ring]
        refine (abs_sub _ _).trans ?_
        rw [abs_div, abs_of_pos (by unfold Zn; norm_num : (0 : ℝ) < Zn)]
        have : |Z' - Z| / Zn ≤ 2e-13 / Zn := div_le_div_of_nonneg_right dZ (by unfold Zn; norm_num)
        unfold Zn at this ⊢; norm_num at this dY ⊢; linarith)
      (by
        rw [sq, abs_le]; unfold Zn
        have : 0 ≤ Z / (108883 / 100000) := by positivity
        have : Z / (108883 / 100000) ≤ 133 / 10 * Y / (108883 / 100000) := div_le_div_of_nonneg_right hzc (by norm_num)
        constructor <;> norm_num at this ⊢ <;> linarith)
      sp2
    rw [show Kb * ((Y' - Z' / Zn) / √Y') - Kb * ((Y - Z / Zn) / √Y) =
      Kb * ((Y' - Z' / Zn) / √Y' - (Y - Z / Zn) / √Y) by ring, abs_mul]
    have hK : |Kb| ≤ 68 := by unfold Kb Zn Yn; rw [abs_of_pos (by norm_num)]; norm_num
    have h' : |(Y' - Z' / Zn) / √Y' - (Y - Z / Zn) / √Y| ≤ 8 / 10 ^ 10 := by
      refine h.trans ?_
      rw [show (2 + 14 : ℝ) * 2e-13 / √Y' = (2 + 14) * (2e-13 / √Y') by ring]
      norm_num at inv ⊢; linarith
    calc |Kb| * |(Y' - Z' / Zn) / √Y' - (Y - Z / Zn) / √Y| ≤ 68 * (8 / 10 ^ 10) :=
          mul_le_mul hK h' (abs_nonneg _) (by norm_num)
      _ ≤ 1 / 10 ^ 7 := by norm_num

/-! ## CIELAB in `RF M` against the CIE formulae, branch-free -/
section fp
variable (M : FPModel)

/-- one computed `f` value of `Lab::from(Xyz)`: the component `X ∈ [0, 1.1]` divided by the rounded white-point
literal `n/d ∈ [0.95, 1.1]`, then `Lab::compute_f`: within `3.5e-7` of the exact CIE `f` at `X/(n/d)` — whichever
branch the computed comparison selects -/
theorem f_cie_fp (n d : ℕ) (hl : 95 / 100 ≤ (n : ℝ) / d) (hu : (n : ℝ) / d ≤ 11 / 10) (X : RF M)
    (h0 : 0 ≤ X.val) (h1 : X.val ≤ 11 / 10) (t : RF M) (ht : t.val = M.rnd (X.val / M.rnd ((n : ℝ) / d))) :
    Near (Lab.compute_f t).val (fSpec (X.val / ((n : ℝ) / d))) (35 / 10 ^ 8) (11 / 10) := by
  obtain ⟨r0, r1, -, r3, -, r5, r6⟩ := ratio_fp M n d hl hu h0 h1
  rw [← ht] at r0 r1 r3
  have f := fwd_f_fp M t r0 r1
  obtain ⟨s1, -⟩ := fwd_spec r0 f
  have l := fSpec_lip r0 r5
  obtain ⟨g0, g1⟩ := fSpec_range r5 (by linarith)
  refine ⟨?_, by rw [abs_of_nonneg (by linarith)]; linarith, by norm_num⟩
  have := abs_sub_le (Lab.compute_f t).val (fSpec t.val) (fSpec (X.val / ((n : ℝ) / d)))
  norm_num at s1 l r3 this ⊢
  linarith

/-- **CIELAB computed in `RF M` against the CIE formulae** (`Props.C06.cielab`, exact `ε = 216/24389`,
`κ = 24389/27`) at the same XYZ, every XYZ of `[0, 1.1]³` (black included), NO side condition: `L*` within `5e-5`,
`a*` within `4e-4`, `b*` within `2e-4`. -/
theorem lab_cie_fp (x : Xyz (RF M)) (hx0 : 0 ≤ x.x.val) (hx1 : x.x.val ≤ 11 / 10)
    (hy0 : 0 ≤ x.y.val) (hy1 : x.y.val ≤ 11 / 10) (hz0 : 0 ≤ x.z.val) (hz1 : x.z.val ≤ 11 / 10) :
    |(Lab.from_Xyz x).l.val - (cielab x.x.val x.y.val x.z.val).l| ≤ 5 / 10 ^ 5 ∧
    |(Lab.from_Xyz x).a.val - (cielab x.x.val x.y.val x.z.val).a| ≤ 4 / 10 ^ 4 ∧
    |(Lab.from_Xyz x).b.val - (cielab x.x.val x.y.val x.z.val).b| ≤ 2 / 10 ^ 4 := by
  have nx := f_cie_fp M 95047 100000 (by norm_num) (by norm_num) x.x hx0 hx1
    (x.x / (C.D65 : RF M × RF M × RF M).1) rfl
  have ny := f_cie_fp M 1 1 (by norm_num) (by norm_num) x.y hy0 hy1
    (x.y / (C.D65 : RF M × RF M × RF M).2.1) rfl
  have nz := f_cie_fp M 108883 100000 (by norm_num) (by norm_num) x.z hz0 hz1
    (x.z / (C.D65 : RF M × RF M × RF M).2.2) rfl
  simp only [Lab.from_Xyz, FltRF.sub_val, FltRF.mul_val, FltRF.lit_val]
  rw [lit_int M 16 (by norm_num), lit_int M 116 (by norm_num), lit_int M 500 (by norm_num),
    lit_int M 200 (by norm_num)]
  have n116 : Near ((116 : ℕ) : ℝ) 116 0 116 := Near.exact (by norm_num) (by norm_num)
  have n16 : Near ((16 : ℕ) : ℝ) 16 0 16 := Near.exact (by norm_num) (by norm_num)
  have n500 : Near ((500 : ℕ) : ℝ) 500 0 500 := Near.exact (by norm_num) (by norm_num)
  have n200 : Near ((200 : ℕ) : ℝ) 200 0 200 := Near.exact (by norm_num) (by norm_num)
  refine ⟨((n116.mul M ny).sub M n16).finish ?_ (by norm_num [FP.eps]),
    (n500.mul M (nx.sub M ny)).finish ?_ (by norm_num [FP.eps]),
    (n200.mul M (ny.sub M nz)).finish ?_ (by norm_num [FP.eps])⟩
  · simp only [cielab, cieF_eq_fSpec, Xn, Yn, Zn]; push_cast; ring_nf
  · simp only [cielab, cieF_eq_fSpec, Xn, Yn, Zn]; push_cast; ring_nf
  · simp only [cielab, cieF_eq_fSpec, Xn, Yn, Zn]; push_cast; ring_nf

/-! ## CIELUV in `RF M` against the CIE formulae, branch-free -/

/-- the computed lightness of `Luv::from(Xyz)`, luminance `Y ∈ [0, 1.1]`: within `4e-5` of the CIE lightness
`116·f(Y) − 16` whichever branch the computed comparison selects (the library's two branch formulas differ by
`3.3e-5` at the threshold) -/
theorem lum_cie_fp {Y : ℝ} (h0 : 0 ≤ Y) (h1 : Y ≤ 11 / 10) :
    Near (lumF M (M.rnd Y)) (116 * fSpec Y - 16) (4 / 10 ^ 5) 109 := by
  have ry := rnd_abs M (x := Y) (B := 11 / 10) (by rw [abs_of_nonneg h0]; exact h1) (by norm_num)
  obtain ⟨ry1, ry2⟩ := abs_le.mp ry
  have y0 : 0 ≤ M.rnd Y := rnd_nonneg M h0
  have y1 : M.rnd Y ≤ 112 / 100 := by norm_num [FP.eps] at ry2 ⊢; linarith
  have hL := lum_fwd_fp M y0 y1
  obtain ⟨s1, -⟩ := lfwd_spec y0 hL
  have l := fSpec_lip y0 h0
  obtain ⟨g0, g1⟩ := fSpec_range h0 (by linarith)
  refine ⟨?_, by rw [abs_le]; constructor <;> linarith, by norm_num⟩
  have e : lumF M (M.rnd Y) - (116 * fSpec Y - 16)
      = 116 * (((lumF M (M.rnd Y) + 16) / 116 - fSpec (M.rnd Y)) + (fSpec (M.rnd Y) - fSpec Y)) := by ring
  rw [e, abs_mul, abs_of_pos (by norm_num : (0 : ℝ) < 116)]
  have := abs_add_le ((lumF M (M.rnd Y) + 16) / 116 - fSpec (M.rnd Y)) (fSpec (M.rnd Y) - fSpec Y)
  norm_num [FP.eps] at s1 l ry this ⊢
  linarith

/-- **CIELUV computed in `RF M` against the CIE formulae** (`Props.C06.cieluv`) at the same XYZ: `X, Z ≥ 0`,
`Y ∈ [1e-5, 1.1]`, in gamut `X ≤ 5Y + Z` (`u' ≤ 1`; true on the cone of the 8-bit colours), NO side condition on
the branch: `L*` within `4e-5`, `u*`, `v*` within `6e-4`. -/
theorem luv_cie_fp (x : Xyz (RF M)) (hx0 : 0 ≤ x.x.val) (hy0 : 1 / 10 ^ 5 ≤ x.y.val)
    (hy1 : x.y.val ≤ 11 / 10) (hz0 : 0 ≤ x.z.val) (hg : x.x.val ≤ 5 * x.y.val + x.z.val) :
    |(Luv.from_Xyz x).l.val - (cieluv x.x.val x.y.val x.z.val).l| ≤ 4 / 10 ^ 5 ∧
    |(Luv.from_Xyz x).u.val - (cieluv x.x.val x.y.val x.z.val).u| ≤ 6 / 10 ^ 4 ∧
    |(Luv.from_Xyz x).v.val - (cieluv x.x.val x.y.val x.z.val).v| ≤ 6 / 10 ^ 4 := by
  have hYp : 0 < x.y.val := lt_of_lt_of_le (by norm_num) hy0
  have hne : ¬ (x.x.val = 0 ∧ x.y.val = 0 ∧ x.z.val = 0) := fun h => hYp.ne' h.2.1
  have hD : 0 < x.x.val + 15 * x.y.val + 3 * x.z.val := by positivity
  obtain ⟨f1, f2, f3⟩ := from_xyz_fp M x hne
  rw [f1, f2, f3]
  simp only [cieluv, if_neg hD.ne', lstar_eq, cieF_eq_fSpec, Yn, div_one]
  have nL := lum_cie_fp M hYp.le hy1
  have n13 : Near (13 : ℝ) 13 0 13 := Near.exact (by norm_num) (by norm_num)
  have hu0 : uPrime Xn 1 Zn = 380188 / 1921696 := by unfold uPrime Xn Zn; norm_num
  have hv0 : vPrime Xn 1 Zn = 900000 / 1921696 := by unfold vPrime Xn Zn; norm_num
  have hu1 : 0 ≤ uPrime x.x.val x.y.val x.z.val := by unfold uPrime; positivity
  have hu2 : uPrime x.x.val x.y.val x.z.val ≤ 1 := by unfold uPrime; rw [div_le_one hD]; linarith
  have hv1 : 0 ≤ vPrime x.x.val x.y.val x.z.val := by unfold vPrime; positivity
  have hv2 : vPrime x.x.val x.y.val x.z.val ≤ 3 / 5 := by unfold vPrime; rw [div_le_iff₀ hD]; linarith
  have du : |uPrime x.x.val x.y.val x.z.val - uPrime Xn 1 Zn| ≤ 1 := by rw [hu0, abs_le]; constructor <;> linarith
  have dv : |vPrime x.x.val x.y.val x.z.val - vPrime Xn 1 Zn| ≤ 1 := by rw [hv0, abs_le]; constructor <;> linarith
  have nu : Near (upF M x.x.val x.y.val x.z.val) (uPrime x.x.val x.y.val x.z.val) (1 / 10 ^ 14) 1 :=
    ⟨up_fp M hx0 hy0 hz0, by rw [abs_of_nonneg hu1]; exact hu2, le_rfl⟩
  have nv : Near (vpF M x.x.val x.y.val x.z.val) (vPrime x.x.val x.y.val x.z.val) (1 / 10 ^ 14) 1 :=
    ⟨vp_fp M hx0 hy0 hz0, by rw [abs_of_nonneg hv1]; linarith, le_rfl⟩
  obtain ⟨w1, w2⟩ := white_uv M
  simp only [Yn] at w1 w2
  have nun : Near (upF M (wX M) 1 (wZ M)) (uPrime Xn 1 Zn) (1 / 10 ^ 15) 1 :=
    ⟨w1, by rw [hu0, abs_of_pos (by norm_num)]; norm_num, le_rfl⟩
  have nvn : Near (vpF M (wX M) 1 (wZ M)) (vPrime Xn 1 Zn) (1 / 10 ^ 15) 1 :=
    ⟨w2, by rw [hv0, abs_of_pos (by norm_num)]; norm_num, le_rfl⟩
  exact ⟨nL.err, ((n13.mul M nL).mul M ((nu.sub M nun).remag du le_rfl)).finish rfl (by norm_num [FP.eps]),
    ((n13.mul M nL).mul M ((nv.sub M nvn).remag dv le_rfl)).finish rfl (by norm_num [FP.eps])⟩

/-! ## black -/

/-- the computed XYZ of black is exactly `(0, 0, 0)` in every model and every profile -/
theorem black_fp (k : XyzKind) :
    (Xyz.from_rgb (α := RF M) ⟨0, 0, 0⟩ k).x.val = 0 ∧ (Xyz.from_rgb (α := RF M) ⟨0, 0, 0⟩ k).y.val = 0 ∧
    (Xyz.from_rgb (α := RF M) ⟨0, 0, 0⟩ k).z.val = 0 := by
  rw [Lemmas.FpXyz.from_rgb_eq_fp']
  exact Lemmas.FpXyz.xyz_black_fp M k

theorem eq_black {c : Rgb} (h : c.r = 0 ∧ c.g = 0 ∧ c.b = 0) : c = ⟨0, 0, 0⟩ := by
  cases c; simp_all

/-! ## ranges of the three computed lightness functions (closed forms of `Lemmas/FpMono.lean`) -/
open Lemmas.FpMono

/-- the rounded luminance stays below `1.00000010001` -/
theorem rnd_y_le {y : ℝ} (h0 : 0 ≤ y) (h1 : y ≤ 10000001 / 10000000 + 3 / 10 ^ 13) :
    0 ≤ M.rnd y ∧ M.rnd y ≤ 100000010001 / 10 ^ 11 := by
  refine ⟨rnd_nonneg M h0, ?_⟩
  have := (abs_le.mp (rnd_abs M (x := y) (B := 2) (by rw [abs_of_nonneg h0]; linarith) (by norm_num))).2
  norm_num [FP.eps] at this ⊢; linarith

/-- **CIELAB lightness computed in `RF M`**, computed luminance `y ∈ [0, 1.0000001 + 3e-13]`:
`L* ∈ [−1e-12, 100 + 5e-6]`.  The lower end is NOT `0` in every model: for black the code computes
`116·rnd(rnd(0·7.787) + rnd(16/116)) − 16`, and `rnd(116·rnd(16/116))` may be `16(1 − 2u)`. -/
theorem labLF_range {y : ℝ} (h0 : 0 ≤ y) (h1 : y ≤ 10000001 / 10000000 + 3 / 10 ^ 13) :
    -(1 / 10 ^ 12) ≤ labLF M y ∧ labLF M y ≤ 100 + 5 / 10 ^ 6 := by
  obtain ⟨c1, c2⟩ := abs_le.mp (labLF_close M h0 (by linarith))
  obtain ⟨t0, t1⟩ := rnd_y_le M h0 h1
  obtain ⟨θ1, θ2⟩ := abs_le.mp (thF_close M)
  have f : 16 / 116 ≤ fTh (thF M) (M.rnd y) ∧ fTh (thF M) (M.rnd y) ≤ 100000004 / 100000000 := by
    unfold fTh
    split_ifs with h
    · rw [cbrt_of_nonneg t0]
      have k : (1 / 5 : ℝ) ≤ (M.rnd y) ^ ((1 : ℝ) / 3) := le_rpow_third t0 (by norm_num; linarith)
      exact ⟨by linarith, rpow_third_le (by norm_num) t0 (by norm_num; linarith)⟩
    · rw [not_lt] at h
      constructor <;> linarith
  constructor <;> linarith [f.1, f.2]

/-- **CIELUV lightness computed in `RF M`**: `L* ∈ [0, 100 + 5e-6]`, the lower end EXACT (the linear branch is a
rounded product of non-negative numbers; the cube-root branch is at least `7.2`) -/
theorem luvLF_range {y : ℝ} (h0 : 0 ≤ y) (h1 : y ≤ 10000001 / 10000000 + 3 / 10 ^ 13) :
    0 ≤ luvLF M y ∧ luvLF M y ≤ 100 + 5 / 10 ^ 6 := by
  obtain ⟨c1, c2⟩ := abs_le.mp (luvLF_close M h0 (by linarith))
  obtain ⟨t0, t1⟩ := rnd_y_le M h0 h1
  obtain ⟨θ1, θ2⟩ := abs_le.mp (thF_close M)
  by_cases h : thF M < M.rnd y
  · have e : lTh (thF M) (M.rnd y) = 116 * (M.rnd y) ^ ((1 : ℝ) / 3) - 16 := by unfold lTh; rw [if_pos h]
    rw [e] at c1 c2
    have k : (1 / 5 : ℝ) ≤ (M.rnd y) ^ ((1 : ℝ) / 3) := le_rpow_third t0 (by norm_num; linarith)
    have k2 : (M.rnd y) ^ ((1 : ℝ) / 3) ≤ 100000004 / 100000000 :=
      rpow_third_le (by norm_num) t0 (by norm_num; linarith)
    constructor <;> linarith
  · have e : lTh (thF M) (M.rnd y) = 9033 / 10 * M.rnd y := by unfold lTh; rw [if_neg h]
    rw [e] at c1 c2
    rw [not_lt] at h
    refine ⟨?_, by linarith⟩
    unfold luvLF
    rw [if_neg (not_lt.mpr h)]
    exact rnd_nonneg M (mul_nonneg (rnd_nonneg M (by positivity)) t0)

/-- **Hunter lightness computed in `RF M`**: `L ∈ [0, 100 + 6e-6]`, the lower end exact -/
theorem hunterF_range {y : ℝ} (h0 : 0 ≤ y) (h1 : y ≤ 10000001 / 10000000 + 3 / 10 ^ 13) :
    0 ≤ hunterF M y ∧ hunterF M y ≤ 100 + 6 / 10 ^ 6 := by
  unfold hunterF
  split_ifs with h
  · constructor <;> norm_num
  · have q0 : 0 ≤ y / 100 := by positivity
    have a1 : |y / 100| ≤ 1 := by rw [abs_of_nonneg q0]; linarith
    have r1 := (abs_le.mp (rnd_abs M a1 (by norm_num))).2
    have u1 : M.rnd (y / 100) ≤ (10000000501 / 10 ^ 11 : ℝ) ^ 2 := by
      norm_num [FP.eps] at r1 ⊢; linarith
    have s0 := Real.sqrt_nonneg (M.rnd (y / 100))
    have s1 : √(M.rnd (y / 100)) ≤ 10000000501 / 10 ^ 11 := by
      rw [← Real.sqrt_sq (by norm_num : (0 : ℝ) ≤ 10000000501 / 10 ^ 11)]; exact Real.sqrt_le_sqrt u1
    have r2 := (abs_le.mp (rnd_abs M (x := √(M.rnd (y / 100))) (B := 1) (by rw [abs_of_nonneg s0]; linarith)
      (by norm_num))).2
    have p0 : 0 ≤ M.rnd (√(M.rnd (y / 100))) := rnd_nonneg M s0
    have r3 := (abs_le.mp (rnd_abs M (x := 1000 * M.rnd (√(M.rnd (y / 100)))) (B := 101)
      (by rw [abs_of_nonneg (by positivity)]; norm_num [FP.eps] at r2 ⊢; linarith) (by norm_num))).2
    refine ⟨rnd_nonneg M (by positivity), ?_⟩
    norm_num [FP.eps] at r2 r3 ⊢; linarith

/-! ## the Adobe encoder on `(-∞, 1.00024]` -/

/-- `F64::compute_argb_gamma_expanded` in `RF M` of a linear value `≤ 1.00024`: in `[0, 1.0003]`, the lower end exact
(the clamp returns the literal `0`, `M.pow` of a positive base is non-negative: `FPModel.pow_nonneg`) -/
theorem argb_enc_range (a : RF M) (ha : a.val ≤ 100024 / 100000) :
    0 ≤ (F64.compute_argb_gamma_expanded a).val ∧ (F64.compute_argb_gamma_expanded a).val ≤ 1 + 3 / 10 ^ 4 := by
  have z : M.rnd (((0:ℕ):ℝ) / ((1:ℕ):ℝ)) = 0 := by
    have := lit_int M 0 (by norm_num); simpa using this
  have ip := Lemmas.FpXyz.inv_exp_close M 563 256 (by norm_num) (by norm_num)
  by_cases hc : a.val ≤ 0
  · simp only [F64.compute_argb_gamma_expanded, FltRF.le_eq, FltRF.lit_val, z, hc, decide_true, if_true]
    norm_num
  · have hpos : 0 < a.val := not_le.mp hc
    simp only [F64.compute_argb_gamma_expanded, FltRF.le_eq, FltRF.lit_val, z, hc, decide_false, if_false,
      FltRF.pow_val, FltRF.div_val, Bool.false_eq_true]
    obtain ⟨hy1, hy2⟩ := abs_le.mp ip
    have hp'0 : 0 ≤ M.rnd (M.rnd (((1:ℕ):ℝ) / ((1:ℕ):ℝ)) / M.rnd (((563:ℕ):ℝ) / ((256:ℕ):ℝ))) := by
      norm_num [FP.eps] at hy1 ⊢; linarith
    have hp'1 : M.rnd (M.rnd (((1:ℕ):ℝ) / ((1:ℕ):ℝ)) / M.rnd (((563:ℕ):ℝ) / ((256:ℕ):ℝ))) ≤ 1 := by
      norm_num [FP.eps] at hy2 ⊢; linarith
    generalize M.rnd (M.rnd (((1:ℕ):ℝ) / ((1:ℕ):ℝ)) / M.rnd (((563:ℕ):ℝ) / ((256:ℕ):ℝ))) = p' at *
    have hB : a.val ^ p' ≤ 100024 / 100000 :=
      Lemmas.DerivedF2.rpow_le_of_le_one_exp hpos.le (by norm_num) ha hp'0 hp'1
    have p1 := (abs_le.mp (Lemmas.FpXyz.pow_close M hpos.le hB (by norm_num))).2
    refine ⟨M.pow_nonneg _ _ hpos.le, ?_⟩
    norm_num [FP.eps] at p1 ⊢; linarith

/-- the computed luminance (D65) of an 8-bit colour lies in `[0, 1.0000001 + 2e-13]` -/
theorem yF_range (c : Rgb) (hr : c.r ≤ 255) (hg : c.g ≤ 255) (hb : c.b ≤ 255) :
    0 ≤ (Xyz.from_rgb (α := RF M) c XyzKind.D65).y.val ∧
    (Xyz.from_rgb (α := RF M) c XyzKind.D65).y.val ≤ 10000001 / 10000000 + 3 / 10 ^ 13 := by
  refine ⟨yF_nonneg M c hr hg hb, ?_⟩
  have h1 := Lemmas.LightnessF2.y_d65_le c hr hg hb
  have h2 := (abs_le.mp (yF_close M c hr hg hb)).2
  norm_num at h1 h2 ⊢; linarith

end fp

/-! ## Adobe RGB of an 8-bit colour -/
section argb
variable (M : FPModel)
open Lemmas.Matrix Lemmas.XyzDispatch Lemmas.FpXyz Lemmas.FpEnc

/-- **Adobe RGB channels of every 8-bit colour (Adobe profile) in `RF M`**: in `[0, 1.0003]`, the lower end exact.
The computed linear value is within `2.7e-12` of the real one, which is at most `1.000233` (6-digit inverse table,
`Props.C08.argb_matrix_forward`). -/
theorem argb_range_colour (c : Rgb) (hr : c.r ≤ 255) (hg : c.g ≤ 255) (hb : c.b ≤ 255) :
    (0 ≤ (Argb.from_Xyz (Xyz.from_rgb (α := RF M) c .Adobe)).r.val ∧
      (Argb.from_Xyz (Xyz.from_rgb (α := RF M) c .Adobe)).r.val ≤ 1 + 3 / 10 ^ 4) ∧
    (0 ≤ (Argb.from_Xyz (Xyz.from_rgb (α := RF M) c .Adobe)).g.val ∧
      (Argb.from_Xyz (Xyz.from_rgb (α := RF M) c .Adobe)).g.val ≤ 1 + 3 / 10 ^ 4) ∧
    (0 ≤ (Argb.from_Xyz (Xyz.from_rgb (α := RF M) c .Adobe)).b.val ∧
      (Argb.from_Xyz (Xyz.from_rgb (α := RF M) c .Adobe)).b.val ≤ 1 + 3 / 10 ^ 4) := by
  obtain ⟨f1, f2, f3⟩ := xyz_fp_close M .Adobe c hr hg hb
  have b1 := xyz_range .Adobe c hr hg hb 0
  have b2 := xyz_range .Adobe c hr hg hb 1
  have b3 := xyz_range .Adobe c hr hg hb 2
  simp only [V3.get] at b1 b2 b3
  obtain ⟨r1, r2, r3⟩ := argb_rows M
  have q1 := dot3_close' M r1 (v := xyzF M .Adobe c) (x := mulVec (fwd .Adobe) (lin .Adobe c)) f1 f2 f3 b1 b2 b3 (by norm_num)
  have q2 := dot3_close' M r2 (v := xyzF M .Adobe c) (x := mulVec (fwd .Adobe) (lin .Adobe c)) f1 f2 f3 b1 b2 b3 (by norm_num)
  have q3 := dot3_close' M r3 (v := xyzF M .Adobe c) (x := mulVec (fwd .Adobe) (lin .Adobe c)) f1 f2 f3 b1 b2 b3 (by norm_num)
  have u : ∀ k : ℕ, k ≤ 255 → 0 ≤ Props.C08.decAdobe ((k:ℝ) / 255) ∧ Props.C08.decAdobe ((k:ℝ) / 255) ≤ 1 := by
    intro k hk
    exact Props.C08.decAdobe_unit _ (level_nonneg k) (level_le_one hk)
  obtain ⟨m1, m2, m3⟩ := Props.C08.argb_matrix_forward _ _ _ (u _ hr) (u _ hg) (u _ hb)
  rw [dot_eq_c08, lin_adobe] at q1 q2 q3
  simp only [mulVec, fwd, dot_eq_c08] at q1 q2 q3
  rw [from_rgb_eq_fp', argb_from_xyz_fp]
  dsimp only
  have key : ∀ (k : ℕ) (a : RF M) (t : ℝ), k ≤ 255 → |a.val - t| ≤ 13 * 2e-13 + 2e-14 →
      |t - Props.C08.decAdobe ((k:ℝ) / 255)| ≤ 2.32e-4 * Props.C08.decAdobe ((k:ℝ) / 255) + 5.5e-7 →
      0 ≤ (F64.compute_argb_gamma_expanded a).val ∧ (F64.compute_argb_gamma_expanded a).val ≤ 1 + 3 / 10 ^ 4 := by
    intro k a t hk hat ht
    apply argb_enc_range
    have h1 := (abs_le.mp hat).2
    have h2 := (abs_le.mp ht).2
    have h3 := (u k hk).2
    norm_num at h1 h2 ⊢; linarith
  exact ⟨key _ _ _ hr q1 m1, key _ _ _ hg q2 m2, key _ _ _ hb q3 m3⟩

end argb
end FpAssemble
