import LymuiVerif.Props.C02_curves
import LymuiVerif.Props.C06
import LymuiVerif.Lemmas.RequantF1a
import LymuiVerif.Lemmas.Rec2020F1a
/-!
# Helper facts for the 8-bit round trips of C02 (sRGB, Rec.709, Rec.2020, xyY)

* the D65 XYZ of an 8-bit colour lies in the box `[0,0.9505]×[0,1.0001]×[0,1.089]` (so `‖x‖₁ ≤ 3.04`);
* it has positive luminance unless the colour is black, and black maps to `(0,0,0)`;
* the xyY round trip of black follows the code exactly (chromaticity of the white point, `Y = 0`);
* the Rec.2020 round trip with the tight sliver bound: `8.1e-8·‖x‖₁ + 1.1e-6` for EVERY real XYZ.
-/
namespace Lemmas.RoundtripF1a
open Gen Lemmas.Matrix Lemmas.XyzDispatch Lemmas.RequantF1a

/-- the D65 XYZ of an 8-bit colour lies in the box of the D65 white -/
theorem from_rgb_d65_box (c : Rgb) (hr : c.r ≤ 255) (hg : c.g ≤ 255) (hb : c.b ≤ 255) :
    (0 ≤ (Xyz.from_rgb (α := ℝ) c XyzKind.D65).x ∧ (Xyz.from_rgb (α := ℝ) c XyzKind.D65).x ≤ 0.9505) ∧
    (0 ≤ (Xyz.from_rgb (α := ℝ) c XyzKind.D65).y ∧ (Xyz.from_rgb (α := ℝ) c XyzKind.D65).y ≤ 1.0001) ∧
    (0 ≤ (Xyz.from_rgb (α := ℝ) c XyzKind.D65).z ∧ (Xyz.from_rgb (α := ℝ) c XyzKind.D65).z ≤ 1.089) := by
  rw [from_rgb_eq]
  have a0 := dec_level_nonneg .D65 c.r
  have a1 := dec_level_le_one .D65 hr
  have b0 := dec_level_nonneg .D65 c.g
  have b1 := dec_level_le_one .D65 hg
  have c0 := dec_level_nonneg .D65 c.b
  have c1 := dec_level_le_one .D65 hb
  simp only [lin, toXyz]
  generalize dec .D65 ((c.r : ℝ) / 255) = r at a0 a1
  generalize dec .D65 ((c.g : ℝ) / 255) = g at b0 b1
  generalize dec .D65 ((c.b : ℝ) / 255) = b at c0 c1
  unfold_consts
  norm_num
  refine ⟨⟨?_, ?_⟩, ⟨?_, ?_⟩, ⟨?_, ?_⟩⟩ <;> linarith

/-- `‖x‖₁ ≤ 3.04` for the D65 XYZ of an 8-bit colour -/
theorem norm1_from_rgb_d65 (c : Rgb) (hr : c.r ≤ 255) (hg : c.g ≤ 255) (hb : c.b ≤ 255) :
    Props.C02_curves.norm1 (Xyz.from_rgb (α := ℝ) c XyzKind.D65) ≤ 3.04 := by
  obtain ⟨⟨x0, x1⟩, ⟨y0, y1⟩, ⟨z0, z1⟩⟩ := from_rgb_d65_box c hr hg hb
  unfold Props.C02_curves.norm1
  rw [abs_of_nonneg x0, abs_of_nonneg y0, abs_of_nonneg z0]
  linarith

/-- black maps to the zero XYZ -/
theorem from_rgb_black (k : XyzKind) : Xyz.from_rgb (α := ℝ) ⟨0, 0, 0⟩ k = ⟨0, 0, 0⟩ := by
  rw [from_rgb_eq]
  simp [lin, dec_zero, toXyz, mulVec, dot]

/-- every 8-bit colour other than black has positive D65 luminance -/
theorem from_rgb_d65_y_pos (c : Rgb) (h : c ≠ ⟨0, 0, 0⟩) :
    0 < (Xyz.from_rgb (α := ℝ) c XyzKind.D65).y := by
  rw [from_rgb_eq]
  have a0 := dec_level_nonneg .D65 c.r
  have b0 := dec_level_nonneg .D65 c.g
  have c0 := dec_level_nonneg .D65 c.b
  have pos : ∀ n : ℕ, n ≠ 0 → 0 < dec .D65 ((n : ℝ) / 255) := by
    intro n hn
    have := dec_level_lt .D65 (Nat.pos_of_ne_zero hn)
    simpa [dec_zero] using this
  have hne : c.r ≠ 0 ∨ c.g ≠ 0 ∨ c.b ≠ 0 := by
    by_contra hcon
    push Not at hcon
    apply h
    obtain ⟨r, g, b⟩ := c
    simp only at hcon
    obtain ⟨h1, h2, h3⟩ := hcon
    rw [h1, h2, h3]
  simp only [lin, toXyz]
  rcases hne with h1 | h1 | h1
  · have p := pos _ h1
    generalize dec .D65 ((c.r : ℝ) / 255) = r at a0 p
    generalize dec .D65 ((c.g : ℝ) / 255) = g at b0
    generalize dec .D65 ((c.b : ℝ) / 255) = b at c0
    unfold_consts; norm_num; nlinarith
  · have p := pos _ h1
    generalize dec .D65 ((c.r : ℝ) / 255) = r at a0
    generalize dec .D65 ((c.g : ℝ) / 255) = g at b0 p
    generalize dec .D65 ((c.b : ℝ) / 255) = b at c0
    unfold_consts; norm_num; nlinarith
  · have p := pos _ h1
    generalize dec .D65 ((c.r : ℝ) / 255) = r at a0
    generalize dec .D65 ((c.g : ℝ) / 255) = g at b0
    generalize dec .D65 ((c.b : ℝ) / 255) = b at c0 p
    unfold_consts; norm_num; nlinarith

/-- xyY round trip of black, following the code: forward gives the white-point chromaticity
`(0.31271, 0.32902)` with `Y = 0`; the reverse tests the CHROMATICITY `y == 0` (false here) and computes
`X = x·Y/y = 0`, `Z = (1-x-y)·Y/y = 0`. -/
theorem xyy_roundtrip_black : Xyz.from_Xyy (Xyy.from_Xyz (⟨0, 0, 0⟩ : Xyz ℝ)) = ⟨0, 0, 0⟩ := by
  rw [Props.C06.xyy_black.2]
  simp only [Xyz.from_Xyy, FltReal.beq_eq, FltReal.lit_eq, decide_eq_true_eq]
  norm_num

/-- the xyY round trip is exact on the D65 XYZ of EVERY 8-bit colour (black included) -/
theorem xyy_roundtrip_of_rgb (c : Rgb) :
    Xyz.from_Xyy (Xyy.from_Xyz (Xyz.from_rgb (α := ℝ) c XyzKind.D65)) = Xyz.from_rgb c XyzKind.D65 := by
  by_cases h : c = ⟨0, 0, 0⟩
  · rw [h, from_rgb_black, xyy_roundtrip_black]
  · exact (Props.C06.xyy_hlab_forward_of_rgb c (from_rgb_d65_y_pos c h)).2.2

/-- BT.2020 curve pair of the code on all reals: within `1e-6` (exact outside `[0.018, 0.0181)`) -/
theorem rec2020_dec_enc_all_tight (L : ℝ) :
    |F64.compute_rec2020_gamma_expanded (F64.compute_rec2020_gamma_correction L) - L| ≤ 1e-6 := by
  rcases lt_or_ge L 0.018 with h | h
  · rw [Props.C08.rec2020_dec_enc L (Or.inl h)]; norm_num
  · rcases lt_or_ge L 0.0181 with h' | h'
    · exact (Rec2020F1a.rec2020_dec_enc_sliver_tight L h h').1
    · rw [Props.C08.rec2020_dec_enc L (Or.inr h')]; norm_num

open Props.C08 in
/-- **Rec.2020 round trip, unconditional and tight**: within `8.1e-8·‖x‖₁ + 1.1e-6` for EVERY real XYZ
(`Props.C02_curves.rec2020_roundtrip_all` has `1.11e-4` in place of `1.1e-6`). -/
theorem rec2020_roundtrip_tight (v : Xyz ℝ) :
    |(Xyz.from_Rec2020 (Rec2020.from_Xyz v)).x - v.x| ≤ 8.1e-8 * Props.C02_curves.norm1 v + 1.1e-6 ∧
    |(Xyz.from_Rec2020 (Rec2020.from_Xyz v)).y - v.y| ≤ 8.1e-8 * Props.C02_curves.norm1 v + 1.1e-6 ∧
    |(Xyz.from_Rec2020 (Rec2020.from_Xyz v)).z - v.z| ≤ 8.1e-8 * Props.C02_curves.norm1 v + 1.1e-6 := by
  obtain ⟨m1, m2, m3⟩ := Props.C02_curves.rec2020_matrix_product v.x v.y v.z
  have e1 := rec2020_dec_enc_all_tight (dot C.rec2020_XR v.x v.y v.z)
  have e2 := rec2020_dec_enc_all_tight (dot C.XG v.x v.y v.z)
  have e3 := rec2020_dec_enc_all_tight (dot C.XB v.x v.y v.z)
  simp only [Xyz.from_Rec2020, Rec2020.from_Xyz]
  simp only [Props.C08.dot] at e1 e2 e3 m1 m2 m3
  generalize F64.compute_rec2020_gamma_expanded (F64.compute_rec2020_gamma_correction
    (v.x * (C.rec2020_XR : ℝ × ℝ × ℝ).1 + v.y * (C.rec2020_XR : ℝ × ℝ × ℝ).2.1 + v.z * (C.rec2020_XR : ℝ × ℝ × ℝ).2.2)) = dr at e1 ⊢
  generalize F64.compute_rec2020_gamma_expanded (F64.compute_rec2020_gamma_correction
    (v.x * (C.XG : ℝ × ℝ × ℝ).1 + v.y * (C.XG : ℝ × ℝ × ℝ).2.1 + v.z * (C.XG : ℝ × ℝ × ℝ).2.2)) = dg at e2 ⊢
  generalize F64.compute_rec2020_gamma_expanded (F64.compute_rec2020_gamma_correction
    (v.x * (C.XB : ℝ × ℝ × ℝ).1 + v.y * (C.XB : ℝ × ℝ × ℝ).2.1 + v.z * (C.XB : ℝ × ℝ × ℝ).2.2)) = db at e3 ⊢
  generalize v.x * (C.rec2020_XR : ℝ × ℝ × ℝ).1 + v.y * (C.rec2020_XR : ℝ × ℝ × ℝ).2.1 + v.z * (C.rec2020_XR : ℝ × ℝ × ℝ).2.2 = lr at *
  generalize v.x * (C.XG : ℝ × ℝ × ℝ).1 + v.y * (C.XG : ℝ × ℝ × ℝ).2.1 + v.z * (C.XG : ℝ × ℝ × ℝ).2.2 = lg at *
  generalize v.x * (C.XB : ℝ × ℝ × ℝ).1 + v.y * (C.XB : ℝ × ℝ × ℝ).2.1 + v.z * (C.XB : ℝ × ℝ × ℝ).2.2 = lb at *
  unfold Props.C02_curves.norm1
  rw [abs_le] at e1 e2 e3 m1 m2 m3
  simp only [C.XX, C.XY, C.XZ, FltReal.lit_eq] at m1 m2 m3 ⊢
  norm_num at m1 m2 m3 ⊢
  refine ⟨?_, ?_, ?_⟩ <;> (rw [abs_le]; constructor <;> linarith)

/-- a bound `|rt − x| ≤ a·‖x‖₁ + b` per component with `‖x‖₁ ≤ 3.04` gives `Near ε` -/
theorem near_of_norm1 {a b ε : ℝ} {y x : Xyz ℝ} (ha : 0 ≤ a) (hn : Props.C02_curves.norm1 x ≤ 3.04)
    (hε : a * 3.04 + b ≤ ε)
    (h : |y.x - x.x| ≤ a * Props.C02_curves.norm1 x + b ∧ |y.y - x.y| ≤ a * Props.C02_curves.norm1 x + b ∧
      |y.z - x.z| ≤ a * Props.C02_curves.norm1 x + b) : Near ε y x := by
  have : a * Props.C02_curves.norm1 x ≤ a * 3.04 := mul_le_mul_of_nonneg_left hn ha
  exact ⟨by linarith [h.1], by linarith [h.2.1], by linarith [h.2.2]⟩

/-- **the Rec.2020 sliver is reached by 8-bit colours**: for the colour (0,125,0) the BT.2020 blue
linear component of its D65 XYZ lies in `[0.018, 0.0181)`, where the code's decoder (switch at 0.081)
does not invert its encoder (switch at L = 0.0181): the decoded value is strictly larger. -/
theorem rec2020_sliver_inhabited :
    let x : Xyz ℝ := Xyz.from_rgb ⟨0, 125, 0⟩ XyzKind.D65
    let L : ℝ := Props.C08.dot C.XB x.x x.y x.z
    (0.018 ≤ L ∧ L < 0.0181) ∧
    L < F64.compute_rec2020_gamma_expanded (F64.compute_rec2020_gamma_correction L) := by
  intro x L
  have e125 : (2.4 : ℝ) = ((12 : ℕ) : ℝ) / ((5 : ℕ) : ℝ) := by norm_num
  have lo : (0.2048 : ℝ) ≤ F64.compute_srgb_gamma_expanded (((125 : ℕ) : ℝ) / 255) := by
    rw [Curves.srgb_dec_pow (by norm_num), e125]
    exact Rpow.le_rpow_of_pow_le (by norm_num) (by norm_num) 12 5 (by norm_num) (by norm_num)
  have hi : F64.compute_srgb_gamma_expanded (((125 : ℕ) : ℝ) / 255) ≤ (0.2054 : ℝ) := by
    rw [Curves.srgb_dec_pow (by norm_num), e125]
    exact Rpow.rpow_le_of_le_pow (by norm_num) (by norm_num) 12 5 (by norm_num) (by norm_num)
  have hL : 0.018 ≤ L ∧ L < 0.0181 := by
    simp only [L, x, from_rgb_eq, lin, dec, toXyz, Nat.cast_zero, zero_div, Curves.srgb_dec_zero]
    generalize F64.compute_srgb_gamma_expanded (((125 : ℕ) : ℝ) / 255) = g at lo hi
    simp only [Props.C08.dot, C.XB, FltReal.lit_eq]
    unfold_consts
    norm_num
    constructor <;> linarith
  exact ⟨hL, (Rec2020F1a.rec2020_dec_enc_sliver_tight L hL.1 hL.2).2⟩

/-- **the tolerance of `requant_stable` cannot exceed `≈ 2.876e-5`**: the XYZ `(ε, -ε, -ε)` with
`ε = 2.88e-5` is within `ε` of the XYZ of black but converts to red level 1
(`5.2761241·ε·12.92·255 = 0.5006`, rounded half away from zero). -/
theorem requant_tolerance_sharp :
    ∃ x' : Xyz ℝ, Near 2.88e-5 x' (Xyz.from_rgb ⟨0, 0, 0⟩ XyzKind.D65) ∧
      (Xyz.as_rgb x' XyzKind.D65).r = 1 := by
  refine ⟨⟨2.88e-5, -2.88e-5, -2.88e-5⟩, ?_, ?_⟩
  · rw [from_rgb_black]
    unfold Near
    norm_num [abs_le]
  · rw [as_rgb_eq]
    have hv : (mulVec (rev .D65) (ofXyz (⟨2.88e-5, -2.88e-5, -2.88e-5⟩ : Xyz ℝ))).1
        = 5.2761241 * 2.88e-5 := by
      simp only [ofXyz]
      unfold_consts
      norm_num
    simp only [hv, enc, quant]
    rw [Curves.srgb_enc_lin (by norm_num)]
    exact Curves.quant_eq 1 (by norm_num) _ (by norm_num [abs_lt])

end Lemmas.RoundtripF1a
