import LymuiVerif.Lemmas.FpOverflowRev
import LymuiVerif.Lemmas.FpDefinedImage
import LymuiVerif.Lemmas.FpDefinedCounter
import LymuiVerif.Props.C08_fp_rec2100
/-!
# No overflow in the rounded model (C04 "no infinity"): the remaining conversions back to XYZ

`ho_*` versions of the bridging lemmas of `FpDefinedRev`, `FpDefinedLuv`, `FpDefinedPolar`, `FpDefinedImage`:
CIELAB, LCh(ab), CIELUV, LCh(uv), HCL, Hunter Lab, xyY, OkLab, OkLch, Rec.2100 → XYZ on `PRFo M`
(`X.from_Y (liftY p) = liftX (X.from_Y p)`: the `PRFo M` run never leaves the finite numbers).  General lemmas take
magnitude hypotheses (and quantitative lower bounds on computed divisors); `*_image` lemmas discharge them for the forward
image of an XYZ that is exactly black or on the sRGB cone (`Lemmas.FpDefined.Cone`).  Property file:
`Props/C04_fp_overflow_roundtrip.lean`.

Quantitative facts proved here, for every model: CIELUV `4·v' ≥ 0.1` (`vp_lower`) and `13·l ≥ 3e-3` on the cone; xyY
chromaticity `y ≥ 1/100` (`xyy_xyz_facts`); Hunter `ka, kb ≥ 1e-8` (`ka_kb_facts`); PQ inverse quotient in `[0, 2]` for every
`e ≥ 0` (`pq_inv_quot`), so `powf(·, m2) ≤ 1e39`; Rec.2100 forward channels in `[0, 10801]` (`rec2100_image_range`); sRGB
triple of the forward image `≤ 2` (`srgb_image_bd`).
-/
set_option linter.unusedSimpArgs false
set_option linter.unusedVariables false
namespace Lemmas.FpOverflow
open Gen Lemmas.FpDefined Props.C14
variable {M : FPModel}

/-! ## CIELAB → XYZ (cubes of values of magnitude `≤ 1e30`: `≤ 1e92`) -/

theorem reverse_f_bridge (x : RF M) (hx : |x.val| ≤ 10 ^ 30) :
    Lab.reverse_compute_f (RF.liftO x) = RF.liftO (Lab.reverse_compute_f x) := by
  unfold Lab.reverse_compute_f
  simp (disch := first | o_side | norm_num) only [C.EPSILON, C.KAPPA, ho_lit, ho_powi, ho_lt, ho_mul, ho_sub, ho_div, ho_ite]
  rfl

theorem reverse_f_bd (x : RF M) (hx : |x.val| ≤ 10 ^ 30) : |(Lab.reverse_compute_f x).val| ≤ 10 ^ 100 := by
  unfold Lab.reverse_compute_f
  simp only [C.EPSILON, C.KAPPA]
  nbound

theorem xyz_from_lab (p : Lab (RF M)) (hl : |p.l.val| ≤ 10 ^ 20) (ha : |p.a.val| ≤ 10 ^ 20) (hb : |p.b.val| ≤ 10 ^ 20) :
    Xyz.from_Lab (liftLab p) = liftXyz (Xyz.from_Lab p) := by
  unfold Xyz.from_Lab
  have e1 : |(((p.l + Flt.lit 0x4030000000000000 16 1) / Flt.lit 0x405D000000000000 116 1) + p.a / Flt.lit 0x407F400000000000 500 1 : RF M).val| ≤ 10 ^ 30 := by nbound
  have e2 : |(((p.l + Flt.lit 0x4030000000000000 16 1) / Flt.lit 0x405D000000000000 116 1) - p.b / Flt.lit 0x4069000000000000 200 1 : RF M).val| ≤ 10 ^ 30 := by nbound
  have f1 := reverse_f_bd _ e1
  have f2 := reverse_f_bd _ e2
  simp (disch := first | o_side | norm_num) only [liftLab_l, liftLab_a, liftLab_b, C.D65, C.EPSILON, C.KAPPA, ho_lit,
    ho_add, ho_sub, ho_div, ho_mul, reverse_f_bridge, ho_powi, ho_lt]
  refine ite_map liftXyz (fun _ => rfl) (fun _ => rfl)

/-! ## polar → rectangular -/
theorem liftLchlab_l (p : Lchlab (RF M)) : (liftLchlab p).l = RF.liftO p.l := rfl
theorem liftLchlab_c (p : Lchlab (RF M)) : (liftLchlab p).c = RF.liftO p.c := rfl
theorem liftLchlab_h (p : Lchlab (RF M)) : (liftLchlab p).h = RF.liftO p.h := rfl
theorem liftLchuv_l (p : Lchuv (RF M)) : (liftLchuv p).l = RF.liftO p.l := rfl
theorem liftLchuv_c (p : Lchuv (RF M)) : (liftLchuv p).c = RF.liftO p.c := rfl
theorem liftLchuv_h (p : Lchuv (RF M)) : (liftLchuv p).h = RF.liftO p.h := rfl
theorem liftHcl_h (p : Hcl (RF M)) : (liftHcl p).h = RF.liftO p.h := rfl
theorem liftHcl_c (p : Hcl (RF M)) : (liftHcl p).c = RF.liftO p.c := rfl
theorem liftHcl_l (p : Hcl (RF M)) : (liftHcl p).l = RF.liftO p.l := rfl
theorem liftHlab_l (p : Hlab (RF M)) : (liftHlab p).l = RF.liftO p.l := rfl
theorem liftHlab_a (p : Hlab (RF M)) : (liftHlab p).a = RF.liftO p.a := rfl
theorem liftHlab_b (p : Hlab (RF M)) : (liftHlab p).b = RF.liftO p.b := rfl
theorem liftXyy_x (p : Xyy (RF M)) : (liftXyy p).x = RF.liftO p.x := rfl
theorem liftXyy_y (p : Xyy (RF M)) : (liftXyy p).y = RF.liftO p.y := rfl
theorem liftXyy_Y (p : Xyy (RF M)) : (liftXyy p)._y = RF.liftO p._y := rfl
theorem liftOkLch_l (p : OkLch (RF M)) : (liftOkLch p).l = RF.liftO p.l := rfl
theorem liftOkLch_c (p : OkLch (RF M)) : (liftOkLch p).c = RF.liftO p.c := rfl
theorem liftOkLch_h (p : OkLch (RF M)) : (liftOkLch p).h = RF.liftO p.h := rfl
theorem liftRec2100_r (p : Rec2100 (RF M)) : (liftRec2100 p).r = RF.liftO p.r := rfl
theorem liftRec2100_g (p : Rec2100 (RF M)) : (liftRec2100 p).g = RF.liftO p.g := rfl
theorem liftRec2100_b (p : Rec2100 (RF M)) : (liftRec2100 p).b = RF.liftO p.b := rfl

theorem radian_bridge (x : RF M) (hx : |x.val| ≤ 10 ^ 110) :
    F64.get_radian_from_degree (RF.liftO x) = RF.liftO (F64.get_radian_from_degree x) := by
  unfold F64.get_radian_from_degree
  simp (disch := o_side) only [ho_lit, ho_pi, ho_mul, ho_div]

theorem lab_from_lchlab (p : Lchlab (RF M)) (hc : |p.c.val| ≤ 10 ^ 110) (hh : |p.h.val| ≤ 10 ^ 110) :
    Lab.from_Lchlab (liftLchlab p) = liftLab (Lab.from_Lchlab p) := by
  simp (disch := o_side) only [Lab.from_Lchlab, liftLchlab_l, liftLchlab_c, liftLchlab_h, radian_bridge, ho_cos, ho_sin,
    ho_mul, liftLab]

theorem luv_from_lchuv (p : Lchuv (RF M)) (hc : |p.c.val| ≤ 10 ^ 110) (hh : |p.h.val| ≤ 10 ^ 110) :
    Luv.from_Lchuv (liftLchuv p) = liftLuv (Luv.from_Lchuv p) := by
  simp (disch := o_side) only [Luv.from_Lchuv, liftLchuv_l, liftLchuv_c, liftLchuv_h, radian_bridge, ho_cos, ho_sin,
    ho_mul, liftLuv]

theorem luv_from_hcl (p : Hcl (RF M)) (hc : |p.c.val| ≤ 10 ^ 110) (hh : |p.h.val| ≤ 10 ^ 110) :
    Luv.from_Hcl (liftHcl p) = liftLuv (Luv.from_Hcl p) := by
  simp (disch := o_side) only [Luv.from_Hcl, liftHcl_l, liftHcl_c, liftHcl_h, radian_bridge, ho_cos, ho_sin,
    ho_mul, liftLuv]

theorem oklab_from_oklch (p : OkLch (RF M)) (hc : |p.c.val| ≤ 10 ^ 110) :
    OkLab.from_OkLch (liftOkLch p) = liftOkLab (OkLab.from_OkLch p) := by
  simp (disch := o_side) only [OkLab.from_OkLch, liftOkLch_l, liftOkLch_c, liftOkLch_h, ho_cos, ho_sin, ho_mul, liftOkLab]

/-- crude magnitudes of LCh(ab) of an XYZ of magnitude `≤ 4` -/
theorem lchlab_xyz_bd (p : Xyz (RF M)) (hx : |p.x.val| ≤ 4) (hy : |p.y.val| ≤ 4) (hz : |p.z.val| ≤ 4) :
    |(Lchlab.from_Xyz p).l.val| ≤ 10 ^ 7 ∧ |(Lchlab.from_Xyz p).c.val| ≤ 10 ^ 16 ∧ |(Lchlab.from_Xyz p).h.val| ≤ 10 ^ 5 := by
  obtain ⟨b1, b2, b3⟩ := lab_xyz_bd p hx hy hz
  unfold Lchlab.from_Xyz
  generalize Lab.from_Xyz p = q at b1 b2 b3
  have hd := degree_bd (M := M) (Flt.atan2 q.b q.a) (le_trans (bd_atan2 _ _) (by norm_num))
  simp only []
  split_ifs <;> refine ⟨?_, ?_, ?_⟩ <;> nbound

theorem xyz_from_lchlab (p : Lchlab (RF M)) (hl : |p.l.val| ≤ 10 ^ 7) (hc : |p.c.val| ≤ 10 ^ 16) (hh : |p.h.val| ≤ 10 ^ 5) :
    Xyz.from_Lchlab (liftLchlab p) = liftXyz (Xyz.from_Lchlab p) := by
  unfold Xyz.from_Lchlab
  rw [lab_from_lchlab p (le_trans hc (by norm_num)) (le_trans hh (by norm_num))]
  refine xyz_from_lab _ ?_ ?_ ?_ <;> simp only [Lab.from_Lchlab] <;> nbound

/-! ## CIELUV → XYZ -/

/-- sharper crude magnitudes of CIELUV than `luv_xyz_bd`: `l ≤ 1e5`, `u, v ≤ 1e21` -/
theorem luv_xyz_bd' (p : Xyz (RF M)) (hx : |p.x.val| ≤ 4) (hy : |p.y.val| ≤ 4) (hz : |p.z.val| ≤ 4) (h : XyzOK p) :
    |(Luv.from_Xyz p).l.val| ≤ 10 ^ 5 ∧ |(Luv.from_Xyz p).u.val| ≤ 10 ^ 21 ∧ |(Luv.from_Xyz p).v.val| ≤ 10 ^ 21 := by
  obtain ⟨w1, w2, w3⟩ := white_bd (M := M)
  obtain ⟨c1, c2⟩ := compounds_bd p.x p.y p.z hx hy hz h
  obtain ⟨d1, d2⟩ := compounds_bd _ _ _ w1 w2 w3 (white_ok (M := M))
  unfold Luv.from_Xyz
  generalize Luv.compute_compounds p.x p.y p.z = v10 at c1 c2
  generalize Luv.compute_compounds (C.D65 : RF M × RF M × RF M).1 (C.D65 : RF M × RF M × RF M).2.1
        (C.D65 : RF M × RF M × RF M).2.2 = v16 at d1 d2
  simp only [C.D65, C.EPSILON, C.KAPPA]
  have key : ∀ (cnd : Bool) (a b : Luv (RF M)),
      (cnd = true → |a.l.val| ≤ 10 ^ 5 ∧ |a.u.val| ≤ 10 ^ 21 ∧ |a.v.val| ≤ 10 ^ 21) →
      (|b.l.val| ≤ 10 ^ 5 ∧ |b.u.val| ≤ 10 ^ 21 ∧ |b.v.val| ≤ 10 ^ 21) →
      |(if cnd = true then a else b).l.val| ≤ 10 ^ 5 ∧ |(if cnd = true then a else b).u.val| ≤ 10 ^ 21 ∧
        |(if cnd = true then a else b).v.val| ≤ 10 ^ 21 := by
    intro cnd a b ha hb
    cases cnd
    · simpa using hb
    · simpa using ha rfl
  refine key _ _ _ (fun c => ?_) ?_
  · simp only [FltRF.lt_eq, decide_eq_true_eq] at c
    have hb : 0 < (p.y / Flt.lit 0x3FF0000000000000 1 1 : RF M).val := lt_of_le_of_lt (lit_nonneg _ _ _) c
    refine ⟨?_, ?_, ?_⟩ <;> (try dsimp only) <;> nbound
  · refine ⟨?_, ?_, ?_⟩ <;> (try dsimp only) <;> nbound

/-- quantitative form of `Lemmas.FpDefined.vp_pos`: the computed `4·(v''/t + v_r)` is `≥ 0.1` -/
theorem vp_lower {t d v vr v10 : ℝ} (ht : 1 / 10 ^ 4 ≤ t) (hd : |d - (v10 - vr)| ≤ 1 / 10 ^ 9)
    (hv : |v - t * d| ≤ t / 10 ^ 9) (h10 : 15 / 100 ≤ v10) (h10' : v10 ≤ 1) (hr0 : 0 ≤ vr) (hr1 : vr ≤ 1) :
    1 / 10 ≤ M.rnd (4 * M.rnd (M.rnd (v / t) + vr)) := by
  have ht0 : 0 < t := lt_of_lt_of_le (by norm_num) ht
  obtain ⟨d1, d2⟩ := abs_le.mp hd
  have hq : |v / t - d| ≤ 1 / 10 ^ 9 := by
    have e : v / t - d = (v - t * d) / t := by field_simp
    rw [e, abs_div, abs_of_pos ht0, div_le_iff₀ ht0]
    calc |v - t * d| ≤ t / 10 ^ 9 := hv
      _ = 1 / 10 ^ 9 * t := by ring
  obtain ⟨q1, q2⟩ := abs_le.mp hq
  have hb : |v / t| ≤ 2 := by rw [abs_le]; constructor <;> linarith
  have r := (abs_le.mp (FpErr.rnd_abs M hb (by norm_num))).1
  have e16 : FP.eps = 1.2e-16 := rfl
  rw [e16] at r
  have s : 14 / 100 ≤ M.rnd (v / t) + vr := by norm_num at *; linarith
  have s2 := rnd_half (M := M) (x := M.rnd (v / t) + vr) (le_trans (by norm_num) s)
  have s3 := rnd_half (M := M) (x := 4 * M.rnd (M.rnd (v / t) + vr)) (by norm_num at *; linarith)
  norm_num at *; linarith

/-- `Xyz::from(Luv)`: no NaN and no overflow when the two computed divisors `13·l` and `4·v'` are bounded away from
zero (`≥ 1e-3`, `≥ 0.1`) for a non-zero `l`, and `l = 0` implies `u = 0` (the guard) -/
theorem xyz_from_luv (q : Luv (RF M)) (hlB : |q.l.val| ≤ 10 ^ 5) (huB : |q.u.val| ≤ 10 ^ 50) (hvB : |q.v.val| ≤ 10 ^ 50)
    (h0 : q.l.val = 0 → q.u.val = 0)
    (ht : q.l.val ≠ 0 → 1 / 10 ^ 3 ≤ |(Flt.lit 0x402A000000000000 13 1 * q.l : RF M).val|)
    (hv : q.l.val ≠ 0 → 1 / 10 ≤ |(Flt.lit 0x4010000000000000 4 1 *
      (q.v / (Flt.lit 0x402A000000000000 13 1 * q.l) + (whiteC M).2) : RF M).val|) :
    Xyz.from_Luv (liftLuv q) = liftXyz (Xyz.from_Luv q) := by
  obtain ⟨w1, w2, w3⟩ := white_bd (M := M)
  obtain ⟨d1, d2⟩ := compounds_bd _ _ _ w1 w2 w3 (white_ok (M := M))
  unfold Xyz.from_Luv
  rw [compounds_white_bridge]
  unfold whiteC at hv
  generalize Luv.compute_compounds (C.D65 : RF M × RF M × RF M).1 (C.D65 : RF M × RF M × RF M).2.1
        (C.D65 : RF M × RF M × RF M).2.2 = w at d1 d2 hv ⊢
  simp (disch := o_side) only [liftLuv_l, liftLuv_u, liftLuv_v, liftPair_1, liftPair_2, C.KAPPA, C.EPSILON, ho_lit,
    ho_beq, ho_mul, ho_lt]
  refine ite_map liftXyz (fun c1 => ite_map liftXyz (fun _ => ?_) (fun c2 => ?_)) (fun c1 => ?_)
  · simp (disch := o_side) only [Xyz.default, ho_lit, liftXyz]
  all_goals
    have hl : q.l.val ≠ 0 := by
      first
        | (simp only [FltRF.beq_eq, decide_eq_false_iff_not, lit_zero] at c2; exact c2)
        | (simp only [FltRF.beq_eq, decide_eq_false_iff_not, lit_zero] at c1; exact fun h => c1 (h0 h))
    have h13L := ht hl
    have h4L := hv hl
    have h13 : (Flt.lit 0x402A000000000000 13 1 * q.l : RF M).val ≠ 0 := by
      intro h; rw [h, abs_zero] at h13L; norm_num at h13L
    have h4 : (Flt.lit 0x4010000000000000 4 1 * (q.v / (Flt.lit 0x402A000000000000 13 1 * q.l) + w.2) : RF M).val ≠ 0 := by
      intro h; rw [h, abs_zero] at h4L; norm_num at h4L
    refine ite_map liftXyz (fun _ => ?_) (fun _ => ?_) <;>
      simp (disch := first | assumption | o_side | norm_num) only [liftPair_1, liftPair_2, ho_add, ho_div, ho_powi,
        ho_mul, ho_sub, liftXyz]
/-! ## CIELUV → XYZ on what the three routes (direct, through LCh(uv), through HCL) feed into it -/

/-- as `Lemmas.FpDefined.xyz_from_luv_near`, with the magnitudes: on the cone `13·l ≥ 3e-3` and `4·v' ≥ 0.1` -/
theorem xyz_from_luv_near (p : Xyz (RF M)) (q : Luv (RF M)) (hl : q.l = (Luv.from_Xyz p).l)
    (hlB : |q.l.val| ≤ 10 ^ 5) (huB : |q.u.val| ≤ 10 ^ 50) (hvB : |q.v.val| ≤ 10 ^ 50)
    (hp : (p.x.val = 0 ∧ p.y.val = 0 ∧ p.z.val = 0) ∨ Cone p)
    (hb : (p.x.val = 0 ∧ p.y.val = 0 ∧ p.z.val = 0) → q.u.val = 0)
    (hc : Cone p → |q.v.val - (Luv.from_Xyz p).v.val| ≤
      (Flt.lit 0x402A000000000000 13 1 * (Luv.from_Xyz p).l : RF M).val / 10 ^ 10) :
    Xyz.from_Luv (liftLuv q) = liftXyz (Xyz.from_Luv q) := by
  rcases hp with hz | hcone
  · have l0 : q.l.val = 0 := by rw [hl]; exact luv_l_black p hz.2.1
    exact xyz_from_luv q hlB huB hvB (fun _ => hb hz) (fun h => absurd l0 h) (fun h => absurd l0 h)
  · have hL := luv_l_lower p hcone
    have hq := hc hcone
    rw [← hl] at hL hq
    have e16 : FP.eps = 1.2e-16 := rfl
    have ht : 3 / 10 ^ 3 ≤ (Flt.lit 0x402A000000000000 13 1 * q.l : RF M).val := by
      rw [FltRF.mul_val, lit_int_val _ 13 (by norm_num)]
      have := rnd_half (M := M) (x := ((13 : ℕ) : ℝ) * q.l.val) (by push_cast; norm_num at hL ⊢; linarith)
      push_cast at this ⊢; norm_num at hL ⊢; linarith
    refine xyz_from_luv q hlB huB hvB (fun h => ?_) (fun _ => ?_) (fun _ => ?_)
    · rw [h] at hL; norm_num at hL
    · exact le_trans (le_trans (by norm_num) ht) (le_abs_self _)
    · obtain ⟨-, ⟨c1, c2⟩⟩ := compounds_range p.x p.y p.z hcone.x0 (le_trans (by norm_num) hcone.y0) hcone.z0
        hcone.xy hcone.zy
      obtain ⟨-, ⟨w1, w2⟩⟩ := compounds_white_range (M := M)
      have ev := (luv_form p).2
      rw [← hl] at ev
      refine le_trans ?_ (le_abs_self _)
      rw [FltRF.mul_val, FltRF.add_val, FltRF.div_val, lit_int_val _ 4 (by norm_num)]
      have key := vp_lower (M := M) (t := (Flt.lit 0x402A000000000000 13 1 * q.l : RF M).val)
        (d := ((Luv.compute_compounds p.x p.y p.z).2 - (whiteC M).2 : RF M).val) (v := q.v.val)
        (vr := (whiteC M).2.val) (v10 := (Luv.compute_compounds p.x p.y p.z).2.val)
        (le_trans (by norm_num) ht) ?_ ?_ c1 c2 (le_trans (by norm_num) w1) w2
      · push_cast; exact key
      · rw [FltRF.sub_val]
        have hb1 : |(Luv.compute_compounds p.x p.y p.z).2.val - (whiteC M).2.val| ≤ 1 := by
          rw [abs_le]; constructor <;> linarith
        refine le_trans (FpErr.rnd_abs M hb1 (by norm_num)) ?_
        rw [e16]; norm_num
      · have hd2 : |((Luv.compute_compounds p.x p.y p.z).2 - (whiteC M).2 : RF M).val| ≤ 2 := by
          rw [FltRF.sub_val]
          have hb1 : |(Luv.compute_compounds p.x p.y p.z).2.val - (whiteC M).2.val| ≤ 1 := by
            rw [abs_le]; constructor <;> linarith
          have := abs_le.mp (FpErr.rnd_abs M hb1 (by norm_num))
          rw [e16] at this
          rw [abs_le]; obtain ⟨h1, h2⟩ := abs_le.mp hb1
          constructor <;> norm_num at * <;> linarith
        have hv0 : (Luv.from_Xyz p).v.val = M.rnd ((Flt.lit 0x402A000000000000 13 1 * q.l : RF M).val *
            ((Luv.compute_compounds p.x p.y p.z).2 - (whiteC M).2 : RF M).val) := by
          rw [ev, FltRF.mul_val]
        generalize (Flt.lit 0x402A000000000000 13 1 * q.l : RF M).val = t at *
        generalize ((Luv.compute_compounds p.x p.y p.z).2 - (whiteC M).2 : RF M).val = d at *
        have ht0 : 0 ≤ t := le_trans (by norm_num) ht
        have hprod : |t * d| ≤ 2 * t := by
          rw [abs_mul, abs_of_nonneg ht0]; nlinarith [abs_nonneg d]
        have r := FpErr.rnd_abs M hprod (by norm_num at ht ⊢; linarith)
        rw [← hv0, e16] at r
        have tri := abs_sub_le q.v.val (Luv.from_Xyz p).v.val (t * d)
        have : t / 10 ^ 10 + 1.2e-16 * (2 * t) ≤ t / 10 ^ 9 := by norm_num; linarith
        linarith

/-- **XYZ → CIELUV → XYZ** -/
theorem xyz_from_luv_image (p : Xyz (RF M)) (hx : |p.x.val| ≤ 4) (hy : |p.y.val| ≤ 4) (hz : |p.z.val| ≤ 4)
    (hp : (p.x.val = 0 ∧ p.y.val = 0 ∧ p.z.val = 0) ∨ Cone p) :
    Xyz.from_Luv (liftLuv (Luv.from_Xyz p)) = liftXyz (Xyz.from_Luv (Luv.from_Xyz p)) := by
  have ok : XyzOK p := by
    rcases hp with h | h
    · exact Or.inl h
    · exact h.ok
  obtain ⟨b1, b2, b3⟩ := luv_xyz_bd' p hx hy hz ok
  exact xyz_from_luv_near p _ rfl b1 (le_trans b2 (by norm_num)) (le_trans b3 (by norm_num)) hp
    (fun hz => (FpGrey.luv_black_fp M hz.2.1).1) (fun hcone => by
      rw [sub_self, abs_zero]
      exact div_nonneg (le_trans (by norm_num) (luv_uv_bound _ hcone).1) (by norm_num))

/-- what `Luv::from(LCh(uv))` of the LCh(uv) of `p` is: the facts `xyz_from_luv_near` needs (copied from the proof of
`Lemmas.FpDefined.xyz_from_lchuv_image`) -/
theorem lchuv_image_facts (p : Xyz (RF M)) :
    (Luv.from_Lchuv (Lchuv.from_Xyz p)).l = (Luv.from_Xyz p).l ∧
    ((p.x.val = 0 ∧ p.y.val = 0 ∧ p.z.val = 0) → (Luv.from_Lchuv (Lchuv.from_Xyz p)).u.val = 0) ∧
    (Cone p → |(Luv.from_Lchuv (Lchuv.from_Xyz p)).v.val - (Luv.from_Xyz p).v.val| ≤
      (Flt.lit 0x402A000000000000 13 1 * (Luv.from_Xyz p).l : RF M).val / 10 ^ 10) := by
  obtain ⟨el, hcs⟩ := lchuv_chroma_sharp_fp M p
  have hc0 : 0 ≤ (Lchuv.from_Xyz p).c.val := by
    rw [lchuv_c, FltRF.sqrt_val]; exact FpErr.rnd_nonneg M (Real.sqrt_nonneg _)
  obtain ⟨hh0, hh1⟩ := lchuv_hue_range_fp M p
  obtain ⟨rl, ru, rv⟩ := lchuv_reverse_sharp_fp M (Lchuv.from_Xyz p) hc0 hh0 hh1
  refine ⟨rl.trans el, fun hz => ?_, fun hcone => ?_⟩
  · obtain ⟨u0, v0⟩ := FpGrey.luv_black_fp M hz.2.1
    have c0 : (Lchuv.from_Xyz p).c.val = 0 := by rw [lchuv_c]; exact chroma_powi_zero _ _ u0 v0
    simp only [Luv.from_Lchuv, FltRF.mul_val, c0, zero_mul, FpErr.rnd_zero]
  · obtain ⟨ht, bu, bv⟩ := luv_uv_bound p hcone
    obtain ⟨k, -, hk⟩ := lchuv_hue_mod_fp M p
    have hk' : ∃ k' : ℤ, |(Lchuv.from_Xyz p).h.val -
        (hueDeg (Luv.from_Xyz p).u.val (Luv.from_Xyz p).v.val + 360 * k')| ≤ 1e-12 := by
      split_ifs at hk
      · exact ⟨k, hk⟩
      · refine ⟨k + 1, ?_⟩
        have e : hueDeg (Luv.from_Xyz p).u.val (Luv.from_Xyz p).v.val + 360 * ((k + 1 : ℤ) : ℝ) =
            hueDeg (Luv.from_Xyz p).u.val (Luv.from_Xyz p).v.val + 360 + 360 * (k : ℝ) := by push_cast; ring
        rw [e]; exact hk
    obtain ⟨k', hk'⟩ := hk'
    have pb := polar_back k' hc0 hcs hk' rv
    have cl := chroma_le (Luv.from_Xyz p).u.val (Luv.from_Xyz p).v.val
    generalize (Flt.lit 0x402A000000000000 13 1 * (Luv.from_Xyz p).l : RF M).val = t at *
    refine le_trans pb ?_
    norm_num at *; linarith

theorem hcl_image_facts (p : Xyz (RF M)) :
    (Luv.from_Hcl (Hcl.from_Xyz p)).l = (Luv.from_Xyz p).l ∧
    ((p.x.val = 0 ∧ p.y.val = 0 ∧ p.z.val = 0) → (Luv.from_Hcl (Hcl.from_Xyz p)).u.val = 0) ∧
    (Cone p → |(Luv.from_Hcl (Hcl.from_Xyz p)).v.val - (Luv.from_Xyz p).v.val| ≤
      (Flt.lit 0x402A000000000000 13 1 * (Luv.from_Xyz p).l : RF M).val / 10 ^ 10) := by
  have eH : Hcl.from_Xyz p = Hcl.from_Luv (Luv.from_Xyz p) := rfl
  obtain ⟨el, hcs⟩ := hcl_chroma_sharp_fp M (Luv.from_Xyz p)
  have hc0 : 0 ≤ (Hcl.from_Luv (Luv.from_Xyz p)).c.val := by
    simp only [Hcl.from_Luv, FltRF.sqrt_val]; exact FpErr.rnd_nonneg M (Real.sqrt_nonneg _)
  obtain ⟨hh0, hh1⟩ := hcl_hue_range_fp M (Luv.from_Xyz p)
  obtain ⟨rl, ru, rv⟩ := hcl_reverse_sharp_fp M (Hcl.from_Luv (Luv.from_Xyz p)) hc0 hh0 hh1
  rw [eH]
  refine ⟨rl.trans el, fun hz => ?_, fun hcone => ?_⟩
  · obtain ⟨u0, v0⟩ := FpGrey.luv_black_fp M hz.2.1
    have c0 : (Hcl.from_Luv (Luv.from_Xyz p)).c.val = 0 := by
      simp only [Hcl.from_Luv]; exact chroma_mul_zero _ _ u0 v0
    simp only [Luv.from_Hcl, FltRF.mul_val, c0, zero_mul, FpErr.rnd_zero]
  · obtain ⟨ht, bu, bv⟩ := luv_uv_bound p hcone
    obtain ⟨k, -, hk⟩ := hcl_hue_mod_fp M (Luv.from_Xyz p)
    have hk' : ∃ k' : ℤ, |(Hcl.from_Luv (Luv.from_Xyz p)).h.val -
        (hueDeg (Luv.from_Xyz p).u.val (Luv.from_Xyz p).v.val + 360 * k')| ≤ 1e-12 := by
      split_ifs at hk
      · refine ⟨k + 1, ?_⟩
        have e : hueDeg (Luv.from_Xyz p).u.val (Luv.from_Xyz p).v.val + 360 * ((k + 1 : ℤ) : ℝ) =
            hueDeg (Luv.from_Xyz p).u.val (Luv.from_Xyz p).v.val + 360 + 360 * (k : ℝ) := by push_cast; ring
        rw [e]; exact hk
      · exact ⟨k, hk⟩
    obtain ⟨k', hk'⟩ := hk'
    have pb := polar_back k' hc0 hcs hk' rv
    have cl := chroma_le (Luv.from_Xyz p).u.val (Luv.from_Xyz p).v.val
    generalize (Flt.lit 0x402A000000000000 13 1 * (Luv.from_Xyz p).l : RF M).val = t at *
    refine le_trans pb ?_
    norm_num at *; linarith

/-- crude magnitudes of LCh(uv) and HCL of an XYZ of magnitude `≤ 4` -/
theorem lchuv_xyz_bd (p : Xyz (RF M)) (hx : |p.x.val| ≤ 4) (hy : |p.y.val| ≤ 4) (hz : |p.z.val| ≤ 4) (h : XyzOK p) :
    |(Lchuv.from_Xyz p).l.val| ≤ 10 ^ 5 ∧ |(Lchuv.from_Xyz p).c.val| ≤ 10 ^ 45 ∧ |(Lchuv.from_Xyz p).h.val| ≤ 10 ^ 5 := by
  obtain ⟨b1, b2, b3⟩ := luv_xyz_bd' p hx hy hz h
  unfold Lchuv.from_Xyz
  generalize Luv.from_Xyz p = q at b1 b2 b3
  have hd := degree_bd (M := M) (Flt.atan2 q.v q.u) (le_trans (bd_atan2 _ _) (by norm_num))
  simp only []
  split_ifs <;> refine ⟨?_, ?_, ?_⟩ <;> nbound

theorem hcl_xyz_bd (p : Xyz (RF M)) (hx : |p.x.val| ≤ 4) (hy : |p.y.val| ≤ 4) (hz : |p.z.val| ≤ 4) (h : XyzOK p) :
    |(Hcl.from_Xyz p).l.val| ≤ 10 ^ 5 ∧ |(Hcl.from_Xyz p).c.val| ≤ 10 ^ 45 ∧ |(Hcl.from_Xyz p).h.val| ≤ 10 ^ 5 := by
  obtain ⟨b1, b2, b3⟩ := luv_xyz_bd' p hx hy hz h
  unfold Hcl.from_Xyz Hcl.from_Luv F64.from_Luv
  generalize Luv.from_Xyz p = q at b1 b2 b3
  have hd := degree_bd (M := M) (Flt.atan2 q.v q.u) (le_trans (bd_atan2 _ _) (by norm_num))
  simp only []
  refine ⟨?_, ?_, ?_⟩ <;> nbound

/-- **XYZ → LCh(uv) → XYZ** -/
theorem xyz_from_lchuv_image (p : Xyz (RF M)) (hx : |p.x.val| ≤ 4) (hy : |p.y.val| ≤ 4) (hz : |p.z.val| ≤ 4)
    (hp : (p.x.val = 0 ∧ p.y.val = 0 ∧ p.z.val = 0) ∨ Cone p) :
    Xyz.from_Lchuv (liftLchuv (Lchuv.from_Xyz p)) = liftXyz (Xyz.from_Lchuv (Lchuv.from_Xyz p)) := by
  have ok : XyzOK p := by
    rcases hp with h | h
    · exact Or.inl h
    · exact h.ok
  obtain ⟨b1, b2, b3⟩ := lchuv_xyz_bd p hx hy hz ok
  obtain ⟨f1, f2, f3⟩ := lchuv_image_facts p
  unfold Xyz.from_Lchuv
  rw [luv_from_lchuv _ (le_trans b2 (by norm_num)) (le_trans b3 (by norm_num))]
  refine xyz_from_luv_near p _ f1 ?_ ?_ ?_ hp f2 f3 <;> simp only [Luv.from_Lchuv] <;> nbound

/-- **XYZ → HCL → XYZ** -/
theorem xyz_from_hcl_image (p : Xyz (RF M)) (hx : |p.x.val| ≤ 4) (hy : |p.y.val| ≤ 4) (hz : |p.z.val| ≤ 4)
    (hp : (p.x.val = 0 ∧ p.y.val = 0 ∧ p.z.val = 0) ∨ Cone p) :
    Xyz.from_Hcl (liftHcl (Hcl.from_Xyz p)) = liftXyz (Xyz.from_Hcl (Hcl.from_Xyz p)) := by
  have ok : XyzOK p := by
    rcases hp with h | h
    · exact Or.inl h
    · exact h.ok
  obtain ⟨b1, b2, b3⟩ := hcl_xyz_bd p hx hy hz ok
  obtain ⟨f1, f2, f3⟩ := hcl_image_facts p
  unfold Xyz.from_Hcl
  rw [luv_from_hcl _ (le_trans b2 (by norm_num)) (le_trans b3 (by norm_num))]
  refine xyz_from_luv_near p _ f1 ?_ ?_ ?_ hp f2 f3 <;> simp only [Luv.from_Hcl] <;> nbound
/-! ## xyY → XYZ: the guard `y == 0` is on the divisor itself, but a tiny `y` could overflow the quotients; on the image
of a colour the chromaticity `y = Y/(X+Y+Z)` is `≥ 1/17` (cone) or the constant `0.329` (black) -/

theorem xyz_from_xyy (p : Xyy (RF M)) (hx : |p.x.val| ≤ 10 ^ 20) (hy : |p.y.val| ≤ 10 ^ 20) (hY : |p._y.val| ≤ 10 ^ 20)
    (h : p.y.val = 0 ∨ 1 / 100 ≤ |p.y.val|) :
    Xyz.from_Xyy (liftXyy p) = liftXyz (Xyz.from_Xyy p) := by
  unfold Xyz.from_Xyy
  simp (disch := o_side) only [liftXyy_x, liftXyy_y, liftXyy_Y, ho_lit, ho_beq]
  refine ite_map liftXyz (fun _ => ?_) (fun c => ?_)
  · simp (disch := o_side) only [Xyz.default, ho_lit, liftXyz]
  simp only [FltRF.beq_eq, decide_eq_false_iff_not, lit_zero] at c
  simp (disch := first | assumption | o_side) only [ho_mul, ho_sub, ho_div, liftXyz]

/-- xyY of an XYZ that is black or on the cone: magnitudes, and `y ≥ 1/100` -/
theorem xyy_xyz_facts (p : Xyz (RF M)) (hx : |p.x.val| ≤ 4) (hy : |p.y.val| ≤ 4) (hz : |p.z.val| ≤ 4)
    (hp : (p.x.val = 0 ∧ p.y.val = 0 ∧ p.z.val = 0) ∨ Cone p) :
    |(Xyy.from_Xyz p).x.val| ≤ 10 ^ 20 ∧ |(Xyy.from_Xyz p).y.val| ≤ 10 ^ 20 ∧ |(Xyy.from_Xyz p)._y.val| ≤ 10 ^ 20 ∧
    ((Xyy.from_Xyz p).y.val = 0 ∨ 1 / 100 ≤ |(Xyy.from_Xyz p).y.val|) := by
  unfold Xyy.from_Xyz Xyy.get_fields_from_xyz Xyy.compute_xyy
  by_cases hn : Xyz.is_null p = true
  · simp only [hn, if_true, Option.getD_none, C.CHROMA_X, C.CHROMA_Y]
    refine ⟨by nbound, by nbound, by nbound, Or.inr ?_⟩
    refine le_trans ?_ (lb_lit _ _ _ (by norm_num))
    norm_num
  · have hcone : Cone p := by
      rcases hp with ⟨h1, h2, h3⟩ | h
      · exfalso; apply hn
        simp only [Xyz.is_null, FltRF.beq_eq, lit_zero, h1, h2, h3, decide_true, if_true]
      · exact h
    have hy0 : 0 ≤ p.y.val := le_trans (by norm_num) hcone.y0
    have x0 := hcone.x0
    have y0 := hcone.y0
    have z0 := hcone.z0
    have hyL : 1e-200 ≤ p.y.val := le_trans (by norm_num) hcone.y0
    have s1 := rnd_lo3 (M := M) (x := p.x.val + p.y.val) (by linarith [hcone.x0])
    have s2 := rnd_hi3 (M := M) (x := p.x.val + p.y.val) (by linarith [hcone.x0])
    have s3 := rnd_lo3 (M := M) (x := M.rnd (p.x.val + p.y.val) + p.z.val) (by norm_num at *; linarith)
    have s4 := rnd_hi3 (M := M) (x := M.rnd (p.x.val + p.y.val) + p.z.val) (by norm_num at *; linarith)
    have hS1 : 0.99 * p.y.val ≤ ((p.x + p.y) + p.z : RF M).val := by
      simp only [FltRF.add_val]; nlinarith [hcone.x0, hcone.z0]
    have hS2 : ((p.x + p.y) + p.z : RF M).val ≤ 17 * p.y.val := by
      simp only [FltRF.add_val]; nlinarith [hcone.x0, hcone.z0, hcone.xy, hcone.zy]
    have hdenL : (1 / 10 ^ 6 : ℝ) ≤ |((p.x + p.y) + p.z : RF M).val| := by
      refine le_trans ?_ (le_abs_self _); norm_num at *; linarith
    simp only [hn, Bool.false_eq_true, if_false, Option.getD_some]
    refine ⟨by nbound, by nbound, by nbound, Or.inr ?_⟩
    refine le_trans ?_ (le_abs_self _)
    rw [FltRF.div_val]
    generalize ((p.x + p.y) + p.z : RF M).val = S at *
    have hSpos : 0 < S := by nlinarith [hcone.y0]
    have q : 1 / 17 ≤ p.y.val / S := by
      rw [div_le_div_iff₀ (by norm_num) hSpos]; linarith
    have := rnd_half (M := M) (x := p.y.val / S) (le_trans (by norm_num) q)
    norm_num at q this ⊢; linarith

/-- **XYZ → xyY → XYZ** -/
theorem xyz_from_xyy_image (p : Xyz (RF M)) (hx : |p.x.val| ≤ 4) (hy : |p.y.val| ≤ 4) (hz : |p.z.val| ≤ 4)
    (hp : (p.x.val = 0 ∧ p.y.val = 0 ∧ p.z.val = 0) ∨ Cone p) :
    Xyz.from_Xyy (liftXyy (Xyy.from_Xyz p)) = liftXyz (Xyz.from_Xyy (Xyy.from_Xyz p)) := by
  obtain ⟨b1, b2, b3, b4⟩ := xyy_xyz_facts p hx hy hz hp
  exact xyz_from_xyy _ b1 b2 b3 b4
/-! ## Hunter Lab → XYZ: the divisors are the constants `ka`, `kb` (computed `≥ 1e-8`; true values `172`, `67`) -/

theorem hlab_consts :
    (1 : ℝ) ≤ (C.YN : RF M).val ∧ (1 : ℝ) ≤ (C.XN : RF M).val ∧ (1 : ℝ) ≤ (C.ZN : RF M).val ∧
    |(C.YN : RF M).val| ≤ 1000 ∧ |(C.XN : RF M).val| ≤ 1000 ∧ |(C.ZN : RF M).val| ≤ 1000 ∧
    (C.YN : PRFo M) = RF.liftO (C.YN : RF M) ∧ (C.XN : PRFo M) = RF.liftO (C.XN : RF M) ∧
    (C.ZN : PRFo M) = RF.liftO (C.ZN : RF M) := by
  refine ⟨?_, ?_, ?_, ?_, ?_, ?_, ?_, ?_, ?_⟩
  · simp only [C.YN]; rw [lit_int_val _ 100 (by norm_num)]; norm_num
  · simp only [C.XN, FltRF.lit_val]
    have := rnd_half (M := M) (x := ((95047 : ℕ) : ℝ) / ((1000 : ℕ) : ℝ)) (by norm_num)
    norm_num at this ⊢; linarith
  · simp only [C.ZN, FltRF.lit_val]
    have := rnd_half (M := M) (x := ((108883 : ℕ) : ℝ) / ((1000 : ℕ) : ℝ)) (by norm_num)
    norm_num at this ⊢; linarith
  · simp only [C.YN]; nbound
  · simp only [C.XN]; nbound
  · simp only [C.ZN]; nbound
  · simp (disch := o_side) only [C.YN, ho_lit]
  · simp (disch := o_side) only [C.XN, ho_lit]
  · simp (disch := o_side) only [C.ZN, ho_lit]

/-- `ka`, `kb`: bridge, magnitudes `≤ 1e5`, and computed `≥ 1e-8` -/
theorem ka_kb_facts :
    (Hlab.get_ka_kb : PRFo M × PRFo M) = liftPair (Hlab.get_ka_kb : RF M × RF M) ∧
    |(Hlab.get_ka_kb : RF M × RF M).1.val| ≤ 10 ^ 5 ∧ |(Hlab.get_ka_kb : RF M × RF M).2.val| ≤ 10 ^ 5 ∧
    1 / 10 ^ 8 ≤ |(Hlab.get_ka_kb : RF M × RF M).1.val| ∧ 1 / 10 ^ 8 ≤ |(Hlab.get_ka_kb : RF M × RF M).2.val| := by
  obtain ⟨hynL, hxnL, hznL, hynB, hxnB, hznB, eyn, exn, ezn⟩ := hlab_consts (M := M)
  have hyn : (C.YN : RF M).val ≠ 0 := by simp only [C.YN]; lit_side
  have kpos : ∀ (a b c d : RF M), 1 / 10 ^ 3 ≤ a.val → 0 < b.val → b.val ≤ 1000 → 1 ≤ c.val → 0 ≤ d.val →
      1 / 10 ^ 8 ≤ |((a / b) * (c + d) : RF M).val| := by
    intro a b c d ha hb hb' hc hd
    refine le_trans ?_ (le_abs_self _)
    simp only [FltRF.mul_val, FltRF.div_val, FltRF.add_val]
    have h1 : 1 / 10 ^ 6 ≤ a.val / b.val := by
      rw [le_div_iff₀ hb]; norm_num at ha ⊢; nlinarith
    have h2 := rnd_half (M := M) (x := a.val / b.val) (le_trans (by norm_num) h1)
    have h3 : (1 : ℝ) ≤ M.rnd (c.val + d.val) := by
      have := FpErr.nat_le_rnd M 1 (by norm_num) (x := c.val + d.val) (by push_cast; linarith)
      exact_mod_cast this
    have : 1 / 10 ^ 7 ≤ M.rnd (a.val / b.val) * M.rnd (c.val + d.val) := by
      norm_num at h1 h2 ⊢; nlinarith
    have := rnd_half (M := M) (le_trans (by norm_num) this)
    norm_num at *; linarith
  have lit_le : ∀ (b : UInt64) (n d : ℕ) (N : ℕ), N ≤ 2 ^ 53 → (n : ℝ) / d ≤ N → (Flt.lit b n d : RF M).val ≤ N :=
    fun b n d N hN h => FpErr.rnd_le_nat M N hN h
  have lit_ge1 : ∀ (b : UInt64) (n d : ℕ), (1 : ℝ) ≤ (n : ℝ) / d → 1 ≤ (Flt.lit b n d : RF M).val := by
    intro b n d h
    have := FpErr.nat_le_rnd M 1 (by norm_num) (x := (n : ℝ) / d) (by push_cast; exact h)
    exact_mod_cast this
  refine ⟨?_, ?_, ?_, ?_, ?_⟩
  · simp (disch := o_side) only [Hlab.get_ka_kb, eyn, exn, ezn, ho_lit, ho_div, ho_add, ho_mul, liftPair]
  · simp only [Hlab.get_ka_kb]; nbound
  · simp only [Hlab.get_ka_kb]; nbound
  · simp only [Hlab.get_ka_kb, C.YN, C.XN]
    refine kpos _ _ _ _ ?_ (lit_pos _ _ _ (by norm_num)) ?_ (lit_ge1 _ _ _ (by norm_num)) (lit_nonneg _ _ _)
    · rw [lit_int_val _ 175 (by norm_num)]; norm_num
    · have := lit_le 0x4068C147AE147AE1 4951 25 1000 (by norm_num) (by norm_num); exact_mod_cast this
  · simp only [Hlab.get_ka_kb, C.YN, C.ZN]
    refine kpos _ _ _ _ ?_ (lit_pos _ _ _ (by norm_num)) ?_ (lit_ge1 _ _ _ (by norm_num)) (lit_nonneg _ _ _)
    · rw [lit_int_val _ 70 (by norm_num)]; norm_num
    · have := lit_le 0x406B43851EB851EC 21811 100 1000 (by norm_num) (by norm_num); exact_mod_cast this

theorem xyz_from_hlab (p : Hlab (RF M)) (hlB : |p.l.val| ≤ 10 ^ 5) (haB : |p.a.val| ≤ 10 ^ 30) (hbB : |p.b.val| ≤ 10 ^ 30)
    (hb0 : 0 ≤ (p.l / (C.YN : RF M)).val)
    (hpw : 0 ≤ (Flt.pow (p.l / (C.YN : RF M)) (Flt.lit 0x4000000000000000 2 1) : RF M).val) :
    Xyz.from_Hlab (liftHlab p) = liftXyz (Xyz.from_Hlab p) := by
  unfold Xyz.from_Hlab
  obtain ⟨hynL, hxnL, hznL, hynB, hxnB, hznB, eyn, exn, ezn⟩ := hlab_consts (M := M)
  obtain ⟨ek, k1, k2, k1L, k2L⟩ := ka_kb_facts (M := M)
  have hyn : (C.YN : RF M).val ≠ 0 := by simp only [C.YN]; lit_side
  have hyn0 : 0 ≤ (C.YN : RF M).val := by simp only [C.YN]; lit_side
  have hka : (Hlab.get_ka_kb : RF M × RF M).1.val ≠ 0 := by
    intro h; rw [h, abs_zero] at k1L; norm_num at k1L
  have hkb : (Hlab.get_ka_kb : RF M × RF M).2.val ≠ 0 := by
    intro h; rw [h, abs_zero] at k2L; norm_num at k2L
  have hy5 : 0 ≤ (Flt.pow (p.l / (C.YN : RF M)) (Flt.lit 0x4000000000000000 2 1) * Flt.lit 0x4059000000000000 100 1 : RF M).val := by
    rw [FltRF.mul_val]
    exact FpErr.rnd_nonneg M (mul_nonneg hpw (lit_nonneg _ _ _))
  have hs : 0 ≤ ((Flt.pow (p.l / (C.YN : RF M)) (Flt.lit 0x4000000000000000 2 1) * Flt.lit 0x4059000000000000 100 1) /
      (C.YN : RF M) : RF M).val := by
    rw [FltRF.div_val]; exact FpErr.rnd_nonneg M (div_nonneg hy5 hyn0)
  rw [ek]
  clear hyn0
  generalize (Hlab.get_ka_kb : RF M × RF M) = kk at *
  generalize (C.YN : RF M) = yn at *
  generalize (C.XN : RF M) = xn at *
  generalize (C.ZN : RF M) = zn at *
  simp (disch := o_side) only [liftHlab_l, liftHlab_a, liftHlab_b, eyn, exn, ezn, liftPair_1,
    liftPair_2, ho_lit, ho_div, ho_pow_nonneg, ho_mul, ho_sqrt, ho_add, ho_sub, liftXyz]
/-- crude magnitudes of Hunter Lab of an XYZ of magnitude `≤ 4` whose `y` is `0` or `≥ 1e-10` -/
theorem hlab_xyz_bd (p : Xyz (RF M)) (hx : |p.x.val| ≤ 4) (hy : |p.y.val| ≤ 4) (hz : |p.z.val| ≤ 4)
    (h : p.y.val = 0 ∨ 1 / 10 ^ 10 ≤ p.y.val) :
    |(Hlab.from_Xyz p).l.val| ≤ 10 ^ 5 ∧ |(Hlab.from_Xyz p).a.val| ≤ 10 ^ 30 ∧ |(Hlab.from_Xyz p).b.val| ≤ 10 ^ 30 := by
  unfold Hlab.from_Xyz
  split_ifs with c
  · refine ⟨?_, ?_, ?_⟩ <;> nbound
  · simp only [FltRF.beq_eq, decide_eq_true_eq, lit_zero] at c
    have hy1 : 1 / 10 ^ 10 ≤ p.y.val := h.resolve_left c
    have hq : 1 / 10 ^ 13 ≤ (p.y / (C.YN : RF M)).val := by
      simp only [C.YN, FltRF.div_val]
      rw [lit_int_val _ 100 (by norm_num)]
      have : 1 / 10 ^ 12 ≤ p.y.val / ((100 : ℕ) : ℝ) := by
        push_cast; rw [le_div_iff₀ (by norm_num)]; norm_num at hy1 ⊢; linarith
      have := rnd_half (M := M) (x := p.y.val / ((100 : ℕ) : ℝ)) (le_trans (by norm_num) this)
      norm_num at *; linarith
    have hsL : (1 / 10 ^ 8 : ℝ) ≤ (Flt.sqrt (p.y / (C.YN : RF M)) : RF M).val := by
      rw [FltRF.sqrt_val]
      have h1 : (1 / 10 ^ 7 : ℝ) ≤ Real.sqrt (p.y / (C.YN : RF M)).val := by
        rw [show (1 / 10 ^ 7 : ℝ) = Real.sqrt ((1 / 10 ^ 7) ^ 2) by rw [Real.sqrt_sq (by norm_num)]]
        exact Real.sqrt_le_sqrt (le_trans (by norm_num) hq)
      have := rnd_half (M := M) (le_trans (by norm_num) h1)
      norm_num at h1 this ⊢; linarith
    obtain ⟨hynL, hxnL, hznL, hynB, hxnB, hznB, -, -, -⟩ := hlab_consts (M := M)
    have k1 : |(Hlab.get_ka_kb : RF M × RF M).1.val| ≤ 10 ^ 5 := by simp only [Hlab.get_ka_kb]; nbound
    have k2 : |(Hlab.get_ka_kb : RF M × RF M).2.val| ≤ 10 ^ 5 := by simp only [Hlab.get_ka_kb]; nbound
    generalize (Hlab.get_ka_kb : RF M × RF M) = kk at k1 k2
    generalize (C.YN : RF M) = yn at *
    generalize (C.XN : RF M) = xn at *
    generalize (C.ZN : RF M) = zn at *
    refine ⟨?_, ?_, ?_⟩ <;> nbound
/-! ## PQ inverse, Rec.2100 → XYZ

`pq_inverse_eotf(x) = powf((c1 + c2·e)/(1 + c3·e), m2)`, `e = powf(x/10000, m1) ≥ 0` (`FPModel.pow_nonneg`).  The
quotient is `≤ max(c1, c2/c3)·(1 + small) ≤ 2` for EVERY `e ≥ 0`, so `powf(·, 78.84) ≤ 1.01·3^79 + 1 < 1e39`: the crude
bound on the argument plays no role beyond keeping `c2·e`, `c3·e` finite. -/

theorem rnd_lo0 {x : ℝ} (h : 0 ≤ x) : 0.999 * x - 1e-200 ≤ M.rnd x := by
  have e := (abs_le.mp (M.rnd_err x)).1
  rw [abs_of_nonneg h] at e
  have hu := FP.u_lt
  have he := FP.eta_lt
  have : (1 : ℝ) / 10 ^ 240 ≤ 1e-200 := by norm_num
  nlinarith

theorem pq_inv_quot (e : RF M) (he : 0 ≤ e.val) :
    1 ≤ (Flt.lit 0x3FF0000000000000 1 1 + Flt.lit 0x4032B00000000000 299 16 * e : RF M).val ∧
    0 ≤ ((Flt.lit 0x3FEAC00000000000 107 128 + Flt.lit 0x4032DA0000000000 2413 128 * e) /
      (Flt.lit 0x3FF0000000000000 1 1 + Flt.lit 0x4032B00000000000 299 16 * e) : RF M).val ∧
    ((Flt.lit 0x3FEAC00000000000 107 128 + Flt.lit 0x4032DA0000000000 2413 128 * e) /
      (Flt.lit 0x3FF0000000000000 1 1 + Flt.lit 0x4032B00000000000 299 16 * e) : RF M).val ≤ 2 := by
  have hC1 : (Flt.lit 0x3FEAC00000000000 107 128 : RF M).val ≤ 0.84 := by
    have := rnd_hi3 (M := M) (x := ((107 : ℕ) : ℝ) / ((128 : ℕ) : ℝ)) (by norm_num)
    simp only [FltRF.lit_val]; norm_num at this ⊢; linarith
  have hC1' : 0 ≤ (Flt.lit 0x3FEAC00000000000 107 128 : RF M).val := lit_nonneg _ _ _
  have hC2 : (Flt.lit 0x4032DA0000000000 2413 128 : RF M).val ≤ 18.9 := by
    have := rnd_hi3 (M := M) (x := ((2413 : ℕ) : ℝ) / ((128 : ℕ) : ℝ)) (by norm_num)
    simp only [FltRF.lit_val]; norm_num at this ⊢; linarith
  have hC2' : 0 ≤ (Flt.lit 0x4032DA0000000000 2413 128 : RF M).val := lit_nonneg _ _ _
  have hC3 : 18.6 ≤ (Flt.lit 0x4032B00000000000 299 16 : RF M).val := by
    have := rnd_lo3 (M := M) (x := ((299 : ℕ) : ℝ) / ((16 : ℕ) : ℝ)) (by norm_num)
    simp only [FltRF.lit_val]; norm_num at this ⊢; linarith
  have h1 : (Flt.lit 0x3FF0000000000000 1 1 : RF M).val = 1 := by rw [lit_int_val _ 1 (by norm_num)]; norm_num
  simp only [FltRF.div_val, FltRF.add_val, FltRF.mul_val, h1]
  generalize (Flt.lit 0x3FEAC00000000000 107 128 : RF M).val = C1 at *
  generalize (Flt.lit 0x4032DA0000000000 2413 128 : RF M).val = C2 at *
  generalize (Flt.lit 0x4032B00000000000 299 16 : RF M).val = C3 at *
  generalize e.val = E at *
  have p2 : C2 * E ≤ 18.9 * E := mul_le_mul_of_nonneg_right hC2 he
  have p2' : 0 ≤ C2 * E := mul_nonneg hC2' he
  have p3 : 18.6 * E ≤ C3 * E := mul_le_mul_of_nonneg_right hC3 he
  have p3' : 0 ≤ C3 * E := le_trans (by positivity) p3
  have a0 : 0 ≤ M.rnd (C2 * E) := FpErr.rnd_nonneg M p2'
  have a1 := rnd_hi0 (M := M) p2'
  have b0 : 0 ≤ M.rnd (C3 * E) := FpErr.rnd_nonneg M p3'
  have b1 := rnd_lo0 (M := M) p3'
  have n0 : 0 ≤ M.rnd (C1 + M.rnd (C2 * E)) := FpErr.rnd_nonneg M (by linarith)
  have n1 := rnd_hi0 (M := M) (x := C1 + M.rnd (C2 * E)) (by linarith)
  have d1 : (1 : ℝ) ≤ M.rnd (1 + M.rnd (C3 * E)) := by
    have := FpErr.nat_le_rnd M 1 (by norm_num) (x := 1 + M.rnd (C3 * E)) (by push_cast; linarith)
    exact_mod_cast this
  have d2 := rnd_lo0 (M := M) (x := 1 + M.rnd (C3 * E)) (by linarith)
  generalize M.rnd (C1 + M.rnd (C2 * E)) = N at *
  generalize M.rnd (1 + M.rnd (C3 * E)) = D at *
  have hD : 0 < D := by linarith
  have q0 : 0 ≤ N / D := div_nonneg n0 hD.le
  have q1 : N / D ≤ 1.5 := by
    rw [div_le_iff₀ hD]; norm_num at *; linarith
  refine ⟨d1, FpErr.rnd_nonneg M q0, ?_⟩
  have := rnd_hi0 (M := M) q0
  norm_num at *; linarith

theorem pq_m2_le : (Flt.lit 0x4053B60000000000 2523 32 : RF M).val ≤ 79 := by
  have := FpErr.rnd_le_nat M 79 (by norm_num) (x := ((2523 : ℕ) : ℝ) / ((32 : ℕ) : ℝ)) (by norm_num)
  exact_mod_cast this

theorem pq_inv_pow_bd (Q : RF M) (h0 : 0 ≤ Q.val) (h2 : Q.val ≤ 2) :
    |(Flt.pow Q (Flt.lit 0x4053B60000000000 2523 32) : RF M).val| ≤ 10 ^ 39 := by
  have hm0 : 0 ≤ (Flt.lit 0x4053B60000000000 2523 32 : RF M).val := lit_nonneg _ _ _
  have := bd_pow 79 (a := Q) (b := (Flt.lit 0x4053B60000000000 2523 32 : RF M)) (A := 2) (Y := 79) h0 hm0
    (by rw [abs_of_nonneg h0]; exact h2) (by rw [abs_of_nonneg hm0]; exact pq_m2_le) (by norm_num)
  refine le_trans this ?_
  norm_num

theorem pq_inv_nonneg (x : RF M) (hx : 0 ≤ x.val) (hxB : |x.val| ≤ 10 ^ 5) :
    F64.pq_inverse_eotf (RF.liftO x) = RF.liftO (F64.pq_inverse_eotf x) := by
  unfold F64.pq_inverse_eotf
  have hb : 0 ≤ (x / (Flt.lit 0x40C3880000000000 10000 1) : RF M).val := by fp_nonneg
  have e1 : Flt.pow (RF.liftO x / (Flt.lit 0x40C3880000000000 10000 1)) (Flt.lit 0x3FC4640000000000 1305 8192) =
      RF.liftO (Flt.pow (x / (Flt.lit 0x40C3880000000000 10000 1)) (Flt.lit 0x3FC4640000000000 1305 8192)) := by
    simp (disch := o_side) only [ho_lit, ho_div, ho_pow_nonneg]
  simp only [e1]
  have he : 0 ≤ (Flt.pow (x / (Flt.lit 0x40C3880000000000 10000 1)) (Flt.lit 0x3FC4640000000000 1305 8192) : RF M).val := by
    rw [FltRF.pow_val]; exact M.pow_nonneg _ _ hb
  have heB : |(Flt.pow (x / (Flt.lit 0x40C3880000000000 10000 1)) (Flt.lit 0x3FC4640000000000 1305 8192) : RF M).val| ≤
      10 ^ 3 := by nbound
  generalize (Flt.pow (x / (Flt.lit 0x40C3880000000000 10000 1)) (Flt.lit 0x3FC4640000000000 1305 8192) : RF M) = e
    at he heB
  obtain ⟨hd1, hq0, hq2⟩ := pq_inv_quot e he
  have hpB := pq_inv_pow_bd _ hq0 hq2
  have hd : (Flt.lit 0x3FF0000000000000 1 1 + Flt.lit 0x4032B00000000000 299 16 * e : RF M).val ≠ 0 := by
    intro h; rw [h] at hd1; norm_num at hd1
  have hdL : (1 : ℝ) ≤ |(Flt.lit 0x3FF0000000000000 1 1 + Flt.lit 0x4032B00000000000 299 16 * e : RF M).val| :=
    le_trans hd1 (le_abs_self _)
  simp (disch := o_side) only [ho_lit, ho_add, ho_mul, ho_beq]
  refine iteo_bridge (fun _ => rfl) (fun _ => ?_)
  simp (disch := o_side) only [ho_div, ho_pow_nonneg]

theorem pq_inv_bd (x : RF M) (hx : 0 ≤ x.val) : |(F64.pq_inverse_eotf x).val| ≤ 10 ^ 39 := by
  unfold F64.pq_inverse_eotf
  have hb : 0 ≤ (x / (Flt.lit 0x40C3880000000000 10000 1) : RF M).val := by fp_nonneg
  have he : 0 ≤ (Flt.pow (x / (Flt.lit 0x40C3880000000000 10000 1)) (Flt.lit 0x3FC4640000000000 1305 8192) : RF M).val := by
    rw [FltRF.pow_val]; exact M.pow_nonneg _ _ hb
  generalize (Flt.pow (x / (Flt.lit 0x40C3880000000000 10000 1)) (Flt.lit 0x3FC4640000000000 1305 8192) : RF M) = e
    at he
  obtain ⟨hd1, hq0, hq2⟩ := pq_inv_quot e he
  simp only []
  split_ifs
  · nbound
  · exact pq_inv_pow_bd _ hq0 hq2

theorem xyz_from_rec2100 (p : Rec2100 (RF M)) (hr : 0 ≤ p.r.val) (hg : 0 ≤ p.g.val) (hb : 0 ≤ p.b.val)
    (hrB : |p.r.val| ≤ 10 ^ 5) (hgB : |p.g.val| ≤ 10 ^ 5) (hbB : |p.b.val| ≤ 10 ^ 5) :
    Xyz.from_Rec2100 (liftRec2100 p) = liftXyz (Xyz.from_Rec2100 p) := by
  have b1 := pq_inv_bd p.r hr
  have b2 := pq_inv_bd p.g hg
  have b3 := pq_inv_bd p.b hb
  simp (disch := o_side) only [Xyz.from_Rec2100, liftRec2100_r, liftRec2100_g, liftRec2100_b, pq_inv_nonneg _ hr hrB,
    pq_inv_nonneg _ hg hgB, pq_inv_nonneg _ hb hbB, liftXyz, C.XX, C.XY, C.XZ, ho_lit, ho_mul, ho_add]
/-! ## the Rec.2100 image of an 8-bit colour: every channel is computed in `[0, 10801]` (the true forward range of the
code's PQ curve, `Props.C08_fp_rec2100.pq_forward_fp`; black: `[0, 1e-230]`) -/

theorem rec2100_image_range (c : Rgb) (hr : c.r ≤ 255) (hg : c.g ≤ 255) (hb : c.b ≤ 255) :
    (0 ≤ (Rec2100.from_Xyz (Xyz.from_rgb (α := RF M) c XyzKind.D65)).r.val ∧
      (Rec2100.from_Xyz (Xyz.from_rgb (α := RF M) c XyzKind.D65)).r.val ≤ 10801) ∧
    (0 ≤ (Rec2100.from_Xyz (Xyz.from_rgb (α := RF M) c XyzKind.D65)).g.val ∧
      (Rec2100.from_Xyz (Xyz.from_rgb (α := RF M) c XyzKind.D65)).g.val ≤ 10801) ∧
    (0 ≤ (Rec2100.from_Xyz (Xyz.from_rgb (α := RF M) c XyzKind.D65)).b.val ∧
      (Rec2100.from_Xyz (Xyz.from_rgb (α := RF M) c XyzKind.D65)).b.val ≤ 10801) := by
  obtain ⟨r0, g0, b0⟩ := rec2100_lin_nonneg_fp (M := M) c hr hg hb
  have nr : 0 ≤ (Rec2100.from_Xyz (Xyz.from_rgb (α := RF M) c XyzKind.D65)).r.val := pq_eotf_val_nonneg_of M.pow_nonneg _ r0
  have ng : 0 ≤ (Rec2100.from_Xyz (Xyz.from_rgb (α := RF M) c XyzKind.D65)).g.val := pq_eotf_val_nonneg_of M.pow_nonneg _ g0
  have nb : 0 ≤ (Rec2100.from_Xyz (Xyz.from_rgb (α := RF M) c XyzKind.D65)).b.val := pq_eotf_val_nonneg_of M.pow_nonneg _ b0
  by_cases hnb : c.r = 0 ∧ c.g = 0 ∧ c.b = 0
  · have e : c = ⟨0, 0, 0⟩ := by cases c; simp_all
    obtain ⟨⟨-, u1⟩, ⟨-, u2⟩, ⟨-, u3⟩, -⟩ := Props.C08_fp_rec2100.rec2100_forward_black_fp M
    rw [e] at nr ng nb ⊢
    exact ⟨⟨nr, le_trans u1 (by norm_num)⟩, ⟨ng, le_trans u2 (by norm_num)⟩, ⟨nb, le_trans u3 (by norm_num)⟩⟩
  · obtain ⟨⟨r0, r1⟩, ⟨g0, g1⟩, ⟨b0, b1⟩⟩ := rec2100_lin_range_fp (M := M) c hr hg hb hnb
    have up : ∀ e : RF M, 29 / 10 ^ 7 ≤ e.val → e.val ≤ 1002 / 1000 → (F64.pq_eotf e).val ≤ 10801 := by
      intro e h0 h1
      obtain ⟨k1, k2, k3⟩ := Props.C08_fp_rec2100.pq_forward_fp M e (by norm_num at h0 ⊢; linarith) (by norm_num at h1 ⊢; linarith)
      have := (abs_le.mp k1).2
      norm_num at *; nlinarith
    exact ⟨⟨nr, up _ r0 r1⟩, ⟨ng, up _ g0 g1⟩, ⟨nb, up _ b0 b1⟩⟩
/-! ## OkLab, OkLch → XYZ

Crude magnitudes only work here if the forward sRGB triple is bounded by its true range (`≤ 2`; `FpOkSharp.srgb_fwd_tight`):
then OkLab `≤ 1e6` (after the OkLch detour `a'', b'' ≤ 1e14`), its cubes `≤ 1e45`, the linear-light triple `≤ 1e47`,
`powf(max(·,0), 1/2.2)` (exponent `≤ 1`) `≤ 1e48`, the sRGB decoding `powf(·, 2.4)` (exponent `≤ 4`) `≤ 1e200`, all below
`10^250 ≤ 2^1023`.  (With the crude `1e5` of `srgb_xyz_bd` for the sRGB triple the composition exceeds `omega`.)
Two more cases of the bounding tactic `bd` (extensible: `syntax` + `macro_rules`): `powf` with exponent `≤ 1` and `≤ 4`. -/

macro_rules
  | `(tactic| bd) => `(tactic| first
    | (apply bd_pow 1; sgn; sgn; bd; bd; focus (norm_num; done))
    | (apply bd_pow 4; sgn; sgn; bd; bd; focus (norm_num; done)))

theorem srgb_expand_big (x : RF M) (hx : |x.val| ≤ 10 ^ 48) :
    F64.compute_srgb_gamma_expanded (RF.liftO x) = RF.liftO (F64.compute_srgb_gamma_expanded x) := by
  unfold F64.compute_srgb_gamma_expanded
  simp (disch := o_side) only [ho_lit, ho_le]
  refine iteo_bridge (fun h => ?_) (fun h => ?_)
  · simp (disch := o_side) only [ho_div]
  · simp only [FltRF.le_eq, decide_eq_false_iff_not, not_le] at h
    have hx0 : 0 < x.val := lt_of_le_of_lt (lit_nonneg _ _ _) h
    simp (disch := o_side) only [ho_add, ho_div, ho_pow_nonneg]

theorem srgb_expand_bd_big (x : RF M) (hx : |x.val| ≤ 10 ^ 48) : |(F64.compute_srgb_gamma_expanded x).val| ≤ 10 ^ 200 := by
  unfold F64.compute_srgb_gamma_expanded
  split_ifs with h
  · nbound
  · simp only [FltRF.le_eq, decide_eq_true_eq, not_le] at h
    have hx0 : 0 < x.val := lt_of_le_of_lt (lit_nonneg _ _ _) h
    nbound

theorem xyz_from_srgb_big (p : Srgb (RF M)) (hr : |p.r.val| ≤ 10 ^ 48) (hg : |p.g.val| ≤ 10 ^ 48) (hb : |p.b.val| ≤ 10 ^ 48) :
    Xyz.from_Srgb (liftSrgb p) = liftXyz (Xyz.from_Srgb p) := by
  have b1 := srgb_expand_bd_big _ hr
  have b2 := srgb_expand_bd_big _ hg
  have b3 := srgb_expand_bd_big _ hb
  simp (disch := o_side) only [Xyz.from_Srgb, liftSrgb_r, liftSrgb_g, liftSrgb_b, srgb_expand_big, liftXyz, C.X65, C.Y65,
    C.Z65, ho_lit, ho_mul, ho_add]

theorem as_non_linear_bridge (p : Srgb (RF M)) (hr : |p.r.val| ≤ 10 ^ 47) (hg : |p.g.val| ≤ 10 ^ 47) (hb : |p.b.val| ≤ 10 ^ 47) :
    Srgb.as_non_linear (liftSrgb p) = liftSrgb (Srgb.as_non_linear p) := by
  simp (disch := o_side) only [Srgb.as_non_linear, liftSrgb_r, liftSrgb_g, liftSrgb_b, liftSrgb, ho_lit, ho_max, ho_div,
    ho_pow_nonneg]

theorem as_non_linear_bd (p : Srgb (RF M)) (hr : |p.r.val| ≤ 10 ^ 47) (hg : |p.g.val| ≤ 10 ^ 47) (hb : |p.b.val| ≤ 10 ^ 47) :
    |(Srgb.as_non_linear p).r.val| ≤ 10 ^ 48 ∧ |(Srgb.as_non_linear p).g.val| ≤ 10 ^ 48 ∧
    |(Srgb.as_non_linear p).b.val| ≤ 10 ^ 48 := by
  simp only [Srgb.as_non_linear]
  refine ⟨?_, ?_, ?_⟩ <;> nbound
/-- the cubes of `Srgb::from(OkLab)` -/
theorem ok_cube_add (l a b k1 k2 : RF M) (hl : |l.val| ≤ 10 ^ 14) (ha : |a.val| ≤ 10 ^ 14) (hb : |b.val| ≤ 10 ^ 14)
    (h1 : |k1.val| ≤ 3) (h2 : |k2.val| ≤ 3) :
    Flt.powi ((RF.liftO l + RF.liftO k1 * RF.liftO a) + RF.liftO k2 * RF.liftO b) 3 =
      RF.liftO (Flt.powi ((l + k1 * a) + k2 * b) 3) ∧ |(Flt.powi ((l + k1 * a) + k2 * b) 3 : RF M).val| ≤ 10 ^ 45 := by
  refine ⟨?_, by nbound⟩
  simp (disch := first | o_side | norm_num) only [ho_mul, ho_add, ho_powi]
theorem ok_cube_sub (l a b k1 k2 : RF M) (hl : |l.val| ≤ 10 ^ 14) (ha : |a.val| ≤ 10 ^ 14) (hb : |b.val| ≤ 10 ^ 14)
    (h1 : |k1.val| ≤ 3) (h2 : |k2.val| ≤ 3) :
    Flt.powi ((RF.liftO l - RF.liftO k1 * RF.liftO a) - RF.liftO k2 * RF.liftO b) 3 =
      RF.liftO (Flt.powi ((l - k1 * a) - k2 * b) 3) ∧ |(Flt.powi ((l - k1 * a) - k2 * b) 3 : RF M).val| ≤ 10 ^ 45 := by
  refine ⟨?_, by nbound⟩
  simp (disch := first | o_side | norm_num) only [ho_mul, ho_sub, ho_powi]

def liftTriple (p : RF M × RF M × RF M) : PRFo M × PRFo M × PRFo M := (RF.liftO p.1, RF.liftO p.2.1, RF.liftO p.2.2)
theorem liftTriple_1 (p : RF M × RF M × RF M) : (liftTriple p).1 = RF.liftO p.1 := rfl
theorem liftTriple_2 (p : RF M × RF M × RF M) : (liftTriple p).2.1 = RF.liftO p.2.1 := rfl
theorem liftTriple_3 (p : RF M × RF M × RF M) : (liftTriple p).2.2 = RF.liftO p.2.2 := rfl

/-- the constants of `Srgb::from(OkLab)`: bridges and magnitudes -/
theorem ok_rev_consts :
    ((C.ROL : PRFo M × PRFo M) = liftPair C.ROL ∧ (C.ROM : PRFo M × PRFo M) = liftPair C.ROM ∧
      (C.ROS : PRFo M × PRFo M) = liftPair C.ROS) ∧
    ((C.ROR : PRFo M × PRFo M × PRFo M) = liftTriple C.ROR ∧ (C.ROG : PRFo M × PRFo M × PRFo M) = liftTriple C.ROG ∧
      (C.ROB : PRFo M × PRFo M × PRFo M) = liftTriple C.ROB) ∧
    ((|(C.ROL : RF M × RF M).1.val| ≤ 3 ∧ |(C.ROL : RF M × RF M).2.val| ≤ 3) ∧
      (|(C.ROM : RF M × RF M).1.val| ≤ 3 ∧ |(C.ROM : RF M × RF M).2.val| ≤ 3) ∧
      (|(C.ROS : RF M × RF M).1.val| ≤ 3 ∧ |(C.ROS : RF M × RF M).2.val| ≤ 3)) ∧
    ((|(C.ROR : RF M × RF M × RF M).1.val| ≤ 6 ∧ |(C.ROR : RF M × RF M × RF M).2.1.val| ≤ 6 ∧
        |(C.ROR : RF M × RF M × RF M).2.2.val| ≤ 6) ∧
      (|(C.ROG : RF M × RF M × RF M).1.val| ≤ 6 ∧ |(C.ROG : RF M × RF M × RF M).2.1.val| ≤ 6 ∧
        |(C.ROG : RF M × RF M × RF M).2.2.val| ≤ 6) ∧
      (|(C.ROB : RF M × RF M × RF M).1.val| ≤ 6 ∧ |(C.ROB : RF M × RF M × RF M).2.1.val| ≤ 6 ∧
        |(C.ROB : RF M × RF M × RF M).2.2.val| ≤ 6)) := by
  refine ⟨⟨?_, ?_, ?_⟩, ⟨?_, ?_, ?_⟩, ⟨⟨?_, ?_⟩, ⟨?_, ?_⟩, ⟨?_, ?_⟩⟩, ⟨⟨?_, ?_, ?_⟩, ⟨?_, ?_, ?_⟩, ⟨?_, ?_, ?_⟩⟩⟩
  · simp (disch := o_side) only [C.ROL, ho_lit, liftPair]
  · simp (disch := o_side) only [C.ROM, ho_lit, liftPair]
  · simp (disch := o_side) only [C.ROS, ho_lit, liftPair]
  · simp (disch := o_side) only [C.ROR, ho_lit, ho_neg, liftTriple]
  · simp (disch := o_side) only [C.ROG, ho_lit, ho_neg, liftTriple]
  · simp (disch := o_side) only [C.ROB, ho_lit, ho_neg, liftTriple]
  all_goals (simp only [C.ROL, C.ROM, C.ROS, C.ROR, C.ROG, C.ROB]; nbound)

theorem srgb_from_oklab_both (p : OkLab (RF M)) (hl : |p.l.val| ≤ 10 ^ 14) (ha : |p.a.val| ≤ 10 ^ 14) (hb : |p.b.val| ≤ 10 ^ 14) :
    Srgb.from_OkLab (liftOkLab p) = liftSrgb (Srgb.from_OkLab p) ∧
    (|(Srgb.from_OkLab p).r.val| ≤ 10 ^ 48 ∧ |(Srgb.from_OkLab p).g.val| ≤ 10 ^ 48 ∧ |(Srgb.from_OkLab p).b.val| ≤ 10 ^ 48) := by
  unfold Srgb.from_OkLab
  obtain ⟨⟨eL, eM, eS⟩, ⟨eR, eG, eB⟩, ⟨⟨l1, l2⟩, ⟨m1, m2⟩, ⟨s1, s2⟩⟩, ⟨⟨r1, r2, r3⟩, ⟨g1, g2, g3⟩, ⟨b1, b2, b3⟩⟩⟩ :=
    ok_rev_consts (M := M)
  rw [eL, eM, eS, eR, eG, eB]
  generalize (C.ROL : RF M × RF M) = kl at *
  generalize (C.ROM : RF M × RF M) = km at *
  generalize (C.ROS : RF M × RF M) = ks at *
  generalize (C.ROR : RF M × RF M × RF M) = kr at *
  generalize (C.ROG : RF M × RF M × RF M) = kg at *
  generalize (C.ROB : RF M × RF M × RF M) = kb at *
  obtain ⟨e1, c1⟩ := ok_cube_add p.l p.a p.b kl.1 kl.2 hl ha hb l1 l2
  obtain ⟨e2, c2⟩ := ok_cube_sub p.l p.a p.b km.1 km.2 hl ha hb m1 m2
  obtain ⟨e3, c3⟩ := ok_cube_sub p.l p.a p.b ks.1 ks.2 hl ha hb s1 s2
  simp only [liftOkLab_l, liftOkLab_a, liftOkLab_b, liftPair_1, liftPair_2, liftTriple_1, liftTriple_2, liftTriple_3, e1,
    e2, e3]
  generalize (Flt.powi ((p.l + kl.1 * p.a) + kl.2 * p.b) 3 : RF M) = L at c1
  generalize (Flt.powi ((p.l - km.1 * p.a) - km.2 * p.b) 3 : RF M) = Mm at c2
  generalize (Flt.powi ((p.l - ks.1 * p.a) - ks.2 * p.b) 3 : RF M) = S at c3
  have q1 : |((kr.1 * L - kr.2.1 * Mm) + kr.2.2 * S : RF M).val| ≤ 10 ^ 47 := by nbound
  have q2 : |((kg.1 * L + kg.2.1 * Mm) - kg.2.2 * S : RF M).val| ≤ 10 ^ 47 := by nbound
  have q3 : |((kb.1 * L - kb.2.1 * Mm) + kb.2.2 * S : RF M).val| ≤ 10 ^ 47 := by nbound
  constructor
  · simp (disch := o_side) only [ho_mul, ho_add, ho_sub]
    exact as_non_linear_bridge ⟨_, _, _⟩ q1 q2 q3
  · exact as_non_linear_bd ⟨_, _, _⟩ q1 q2 q3

theorem srgb_from_oklab (p : OkLab (RF M)) (hl : |p.l.val| ≤ 10 ^ 14) (ha : |p.a.val| ≤ 10 ^ 14) (hb : |p.b.val| ≤ 10 ^ 14) :
    Srgb.from_OkLab (liftOkLab p) = liftSrgb (Srgb.from_OkLab p) := (srgb_from_oklab_both p hl ha hb).1

theorem srgb_oklab_bd (p : OkLab (RF M)) (hl : |p.l.val| ≤ 10 ^ 14) (ha : |p.a.val| ≤ 10 ^ 14) (hb : |p.b.val| ≤ 10 ^ 14) :
    |(Srgb.from_OkLab p).r.val| ≤ 10 ^ 48 ∧ |(Srgb.from_OkLab p).g.val| ≤ 10 ^ 48 ∧ |(Srgb.from_OkLab p).b.val| ≤ 10 ^ 48 :=
  (srgb_from_oklab_both p hl ha hb).2

theorem xyz_from_oklab (p : OkLab (RF M)) (hl : |p.l.val| ≤ 10 ^ 14) (ha : |p.a.val| ≤ 10 ^ 14) (hb : |p.b.val| ≤ 10 ^ 14) :
    Xyz.from_OkLab (liftOkLab p) = liftXyz (Xyz.from_OkLab p) := by
  obtain ⟨b1, b2, b3⟩ := srgb_oklab_bd p hl ha hb
  unfold Xyz.from_OkLab; rw [srgb_from_oklab p hl ha hb, xyz_from_srgb_big _ b1 b2 b3]

theorem xyz_from_oklch (p : OkLch (RF M)) (hl : |p.l.val| ≤ 10 ^ 6) (hc : |p.c.val| ≤ 10 ^ 13) :
    Xyz.from_OkLch (liftOkLch p) = liftXyz (Xyz.from_OkLch p) := by
  unfold Xyz.from_OkLch
  rw [oklab_from_oklch p (le_trans hc (by norm_num))]
  refine xyz_from_oklab _ ?_ ?_ ?_ <;> simp only [OkLab.from_OkLch] <;> nbound

/-- the computed sRGB triple of the computed D65 XYZ of an 8-bit colour has magnitude `≤ 2` (true range `[0, 1]`) -/
theorem srgb_image_bd (c : Rgb) (hr : c.r ≤ 255) (hg : c.g ≤ 255) (hb : c.b ≤ 255) :
    |(Srgb.from_Xyz (Xyz.from_rgb (α := RF M) c XyzKind.D65)).r.val| ≤ 2 ∧
    |(Srgb.from_Xyz (Xyz.from_rgb (α := RF M) c XyzKind.D65)).g.val| ≤ 2 ∧
    |(Srgb.from_Xyz (Xyz.from_rgb (α := RF M) c XyzKind.D65)).b.val| ≤ 2 := by
  obtain ⟨f1, f2, f3⟩ := Lemmas.FpOkSharp.srgb_fwd_tight M c hr hg hb
  obtain ⟨t1, t2, t3⟩ := Props.C08.forward_srgb_tight c hr hg hb
  have key : ∀ (a x : ℝ) (n : ℕ), n ≤ 255 → |a - x| ≤ 6.4e-13 → |x - (n : ℝ) / 255| ≤ 3.6e-6 → |a| ≤ 2 := by
    intro a x n hn h1 h2
    have hn' : (n : ℝ) ≤ 255 := by exact_mod_cast hn
    have hn0 : (0 : ℝ) ≤ n := Nat.cast_nonneg n
    have q0 : 0 ≤ (n : ℝ) / 255 := by positivity
    have q1 : (n : ℝ) / 255 ≤ 1 := by rw [div_le_one (by norm_num)]; exact hn'
    obtain ⟨a1, a2⟩ := abs_le.mp h1
    obtain ⟨b1, b2⟩ := abs_le.mp h2
    rw [abs_le]; constructor <;> norm_num at * <;> linarith
  exact ⟨key _ _ _ hr f1 t1, key _ _ _ hg f2 t2, key _ _ _ hb f3 t3⟩

/-- crude magnitudes of OkLab of an sRGB triple of magnitude `≤ 2` -/
theorem oklab_srgb_bd2 (p : Srgb (RF M)) (hr : |p.r.val| ≤ 2) (hg : |p.g.val| ≤ 2) (hb : |p.b.val| ≤ 2) :
    |(OkLab.from_Srgb p).l.val| ≤ 10 ^ 6 ∧ |(OkLab.from_Srgb p).a.val| ≤ 10 ^ 6 ∧ |(OkLab.from_Srgb p).b.val| ≤ 10 ^ 6 := by
  have b : |(Srgb.as_linear p).r.val| ≤ 10 ^ 4 ∧ |(Srgb.as_linear p).g.val| ≤ 10 ^ 4 ∧ |(Srgb.as_linear p).b.val| ≤ 10 ^ 4 := by
    simp only [Srgb.as_linear]
    refine ⟨?_, ?_, ?_⟩ <;> nbound
  obtain ⟨b1, b2, b3⟩ := b
  unfold OkLab.from_Srgb
  generalize Srgb.as_linear p = q at b1 b2 b3
  simp only [C.OKSR, C.OKSG, C.OKSB, C.OKL, C.OKA, C.OKB]
  refine ⟨?_, ?_, ?_⟩ <;> nbound

/-- **XYZ → OkLab → XYZ** for an XYZ of magnitude `≤ 4` whose computed sRGB triple has magnitude `≤ 2` -/
theorem xyz_from_oklab_image (p : Xyz (RF M)) (hx : |p.x.val| ≤ 4) (hy : |p.y.val| ≤ 4) (hz : |p.z.val| ≤ 4)
    (s1 : |(Srgb.from_Xyz p).r.val| ≤ 2) (s2 : |(Srgb.from_Xyz p).g.val| ≤ 2) (s3 : |(Srgb.from_Xyz p).b.val| ≤ 2) :
    Xyz.from_OkLab (liftOkLab (OkLab.from_Xyz p)) = liftXyz (Xyz.from_OkLab (OkLab.from_Xyz p)) := by
  obtain ⟨b1, b2, b3⟩ := oklab_srgb_bd2 _ s1 s2 s3
  exact xyz_from_oklab _ (le_trans b1 (by norm_num)) (le_trans b2 (by norm_num)) (le_trans b3 (by norm_num))

/-- **XYZ → OkLch → XYZ** -/
theorem xyz_from_oklch_image (p : Xyz (RF M)) (hx : |p.x.val| ≤ 4) (hy : |p.y.val| ≤ 4) (hz : |p.z.val| ≤ 4)
    (s1 : |(Srgb.from_Xyz p).r.val| ≤ 2) (s2 : |(Srgb.from_Xyz p).g.val| ≤ 2) (s3 : |(Srgb.from_Xyz p).b.val| ≤ 2) :
    Xyz.from_OkLch (liftOkLch (OkLch.from_Xyz p)) = liftXyz (Xyz.from_OkLch (OkLch.from_Xyz p)) := by
  obtain ⟨b1, b2, b3⟩ := oklab_srgb_bd2 _ s1 s2 s3
  refine xyz_from_oklch _ ?_ ?_
  · exact b1
  · show |(OkLch.from_OkLab (OkLab.from_Srgb (Srgb.from_Xyz p))).c.val| ≤ 10 ^ 13
    generalize OkLab.from_Srgb (Srgb.from_Xyz p) = q at b1 b2 b3
    simp only [OkLch.from_OkLab]
    nbound
end Lemmas.FpOverflow
