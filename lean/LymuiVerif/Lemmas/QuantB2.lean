import LymuiVerif.Inst.Real
import Mathlib.Algebra.Order.Floor.Semifield
/-!
# Quantiser lemmas (`Real.roundHA`, `Real.toU8`) used by C17 and C18
-/
namespace Lemmas.QuantB2

/-- rounding a non-negative rational `p/q` half away from zero, on naturals -/
theorem roundHA_nat_div (p q : ℕ) (hq : 0 < q) :
    Real.roundHA ((p : ℝ) / (q : ℝ)) = (((2 * p + q) / (2 * q) : ℕ) : ℝ) := by
  have hq' : (0 : ℝ) < q := by exact_mod_cast hq
  have h0 : (0 : ℝ) ≤ (p : ℝ) / q := by positivity
  unfold Real.roundHA
  rw [if_pos h0]
  have e : (p : ℝ) / q + 1 / 2 = ((2 * p + q : ℕ) : ℝ) / ((2 * q : ℕ) : ℝ) := by
    push_cast; field_simp
  rw [e, ← natCast_floor_eq_intCast_floor (by positivity), Nat.floor_div_eq_div]

theorem roundHA_natCast (n : ℕ) : Real.roundHA (n : ℝ) = (n : ℝ) := by
  have := roundHA_nat_div n 1 Nat.one_pos
  simp only [Nat.cast_one, div_one] at this
  rw [this]; congr 1; omega

theorem roundHA_nonneg {x : ℝ} (h : 0 ≤ x) : Real.roundHA x = (⌊x + 1 / 2⌋ : ℝ) := by
  unfold Real.roundHA; rw [if_pos h]

theorem roundHA_mono {x y : ℝ} (h : x ≤ y) : Real.roundHA x ≤ Real.roundHA y := by
  unfold Real.roundHA
  split_ifs with hx hy hy
  · exact_mod_cast Int.floor_le_floor (by linarith)
  · exact absurd (le_trans hx h) hy
  · have h1 : (0 : ℤ) ≤ ⌊-x + 1 / 2⌋ := Int.floor_nonneg.mpr (by linarith)
    have h2 : (0 : ℤ) ≤ ⌊y + 1 / 2⌋ := Int.floor_nonneg.mpr (by linarith)
    have h1' : (0 : ℝ) ≤ (⌊-x + 1 / 2⌋ : ℝ) := by exact_mod_cast h1
    have h2' : (0 : ℝ) ≤ (⌊y + 1 / 2⌋ : ℝ) := by exact_mod_cast h2
    linarith
  · have : ⌊-y + 1 / 2⌋ ≤ ⌊-x + 1 / 2⌋ := Int.floor_le_floor (by linarith)
    have : (⌊-y + 1 / 2⌋ : ℝ) ≤ (⌊-x + 1 / 2⌋ : ℝ) := by exact_mod_cast this
    linarith

theorem toU8_natCast (n : ℕ) (h : n ≤ 255) : Real.toU8 (n : ℝ) = n := by
  unfold Real.toU8
  split_ifs with h0 h1
  · have : n = 0 := by exact_mod_cast (le_antisymm h0 (Nat.cast_nonneg n))
    exact this.symm
  · have : (255 : ℕ) ≤ n := by exact_mod_cast h1
    omega
  · exact Nat.floor_natCast n

theorem toU8_le_255 (x : ℝ) : Real.toU8 x ≤ 255 := by
  unfold Real.toU8
  split_ifs with h0 h1
  · omega
  · omega
  · push Not at h1
    have : ⌊x⌋₊ ≤ ⌊(255 : ℝ)⌋₊ := Nat.floor_le_floor h1.le
    simpa using this

theorem toU8_mono {x y : ℝ} (h : x ≤ y) : Real.toU8 x ≤ Real.toU8 y := by
  unfold Real.toU8
  split_ifs with hx0 hy0 hy1 hx1 hy0 hy1
  · exact le_rfl
  · exact Nat.zero_le _
  · exact Nat.zero_le _
  · linarith
  · exact le_rfl
  · linarith
  · linarith
  · push Not at hx1
    have : ⌊x⌋₊ ≤ ⌊(255 : ℝ)⌋₊ := Nat.floor_le_floor hx1.le
    simpa using this
  · exact Nat.floor_le_floor h


/-- `round(5v/255)` on naturals -/
theorem roundHA_scale5 (v : ℕ) : Real.roundHA ((v : ℝ) / 255 * 5) = (((10 * v + 255) / 510 : ℕ) : ℝ) := by
  have := roundHA_nat_div (5 * v) 255 (by norm_num)
  have e : (v : ℝ) / 255 * 5 = ((5 * v : ℕ) : ℝ) / ((255 : ℕ) : ℝ) := by push_cast; ring
  rw [e, this]; congr 1; omega

/-- `round(v/255)` on naturals -/
theorem roundHA_unit (v : ℕ) : Real.roundHA ((v : ℝ) / 255) = (((2 * v + 255) / 510 : ℕ) : ℝ) := by
  have := roundHA_nat_div v 255 (by norm_num)
  have e : (v : ℝ) / 255 = ((v : ℕ) : ℝ) / ((255 : ℕ) : ℝ) := by push_cast; ring
  rw [e, this]

/-- `round(m/255*100/50)` on naturals -/
theorem roundHA_value (m : ℕ) : Real.roundHA ((m : ℝ) / 255 * 100 / 50) = (((4 * m + 255) / 510 : ℕ) : ℝ) := by
  have := roundHA_nat_div (2 * m) 255 (by norm_num)
  have e : (m : ℝ) / 255 * 100 / 50 = ((2 * m : ℕ) : ℝ) / ((255 : ℕ) : ℝ) := by push_cast; ring
  rw [e, this]; congr 1; omega

/-- the grey ramp `round((v-8)/247*24 + 232)` on naturals (`8 ≤ v`) -/
theorem roundHA_ramp (v : ℕ) (h : 8 ≤ v) :
    Real.roundHA (((v : ℝ) - 8) / 247 * 24 + 232) = ((232 + (48 * (v - 8) + 247) / 494 : ℕ) : ℝ) := by
  have := roundHA_nat_div (24 * (v - 8) + 232 * 247) 247 (by norm_num)
  have e : ((v : ℝ) - 8) / 247 * 24 + 232 = ((24 * (v - 8) + 232 * 247 : ℕ) : ℝ) / ((247 : ℕ) : ℝ) := by
    push_cast [Nat.cast_sub h]; field_simp; norm_num
  rw [e, this]; congr 1; omega


/-! ## The pieces of `Ansi::from_rgb` -/

theorem cube_toU8 (r g b : ℕ) (hr : r ≤ 255) (hg : g ≤ 255) (hb : b ≤ 255) :
   Real.toU8 (16 + 36 * Real.roundHA ((r:ℝ) / 255 * 5) + 6 * Real.roundHA ((g:ℝ) / 255 * 5) + Real.roundHA ((b:ℝ) / 255 * 5))
    = 16 + 36 * ((10 * r + 255) / 510) + 6 * ((10 * g + 255) / 510) + (10 * b + 255) / 510 := by
  rw [roundHA_scale5, roundHA_scale5, roundHA_scale5]
  have e : ∀ x y z : ℕ, (16 + 36 * (x:ℝ) + 6 * (y:ℝ) + (z:ℝ)) = ((16 + 36 * x + 6 * y + z : ℕ) : ℝ) := by
    intro x y z; push_cast; ring
  rw [e, toU8_natCast]
  omega

theorem ramp_toU8 (v : ℕ) (h8 : 8 ≤ v) (h : v ≤ 248) :
   Real.toU8 (Real.roundHA (((v : ℝ) - 8) / 247 * 24 + 232)) = 232 + (48 * (v - 8) + 247) / 494 := by
  rw [roundHA_ramp v h8, toU8_natCast]
  omega

theorem bit_toU8 (v : ℕ) (h : v ≤ 255) :
    Real.toU8 (Real.roundHA ((v : ℝ) / 255)) = if 128 ≤ v then 1 else 0 := by
  rw [roundHA_unit, toU8_natCast _ (by omega)]
  split_ifs <;> omega

theorem value_eq (r g b : ℕ) :
    Real.roundHA (max (b : ℝ) (max (r : ℝ) (g : ℝ)) / 255 * 100 / 50) = (((4 * max b (max r g) + 255) / 510 : ℕ) : ℝ) := by
  rw [← Nat.cast_max, ← Nat.cast_max, roundHA_value]

theorem bits_pack (x y z : ℕ) (hx : x ≤ 1) (hy : y ≤ 1) (hz : z ≤ 1) :
    Chk.addOU 8 30 (Chk.shl 8 x (Int.toNat 2) ||| Chk.shl 8 y (Int.toNat 1) ||| z) = (30 + (z + 2 * y + 4 * x), false) := by
  interval_cases x <;> interval_cases y <;> interval_cases z <;> decide

theorem add60 (k : ℕ) (hk : k ≤ 7) : Chk.addOU 8 (30 + k) 60 = (30 + k + 60, false) := by
  interval_cases k <;> decide

end Lemmas.QuantB2
