import LymuiVerif.Lemmas.FpXyz
import LymuiVerif.Lemmas.FpLinear
import LymuiVerif.Lemmas.LightnessF2
import LymuiVerif.Lemmas.Quant
/-!
# Monotonicity in the rounded-arithmetic reading (`RF M`), for C12

`FPModel` gives monotonicity of `rnd` but none of `pow`.  Two kinds of arguments:

* **gap + error** (strict statements): the exact-real quantity rises by a quantitative gap when one
  8-bit channel rises by one step (`dec_level_gap`, `xyz_gap_*`), the computed value is within a tiny
  error of the exact one (`FpXyz.xyz_fp_close`), so strict order survives;
* **`rnd_mono` chains** (weak statements): expressions built from `max`, `min`, sums, products with
  non-negative rounded literals and roundings are monotone in every model.

Everything is for an arbitrary `M : FPModel`; the exact-real facts are cited from
`Lemmas/LightnessF2.lean`, `Lemmas/Curves.lean`, `Lemmas/Cie.lean`.
-/
namespace Lemmas.FpMono
open Gen FpErr Lemmas.Matrix Lemmas.XyzDispatch Lemmas.FpXyz Lemmas.Cie

/-! ## A. quantitative gap of the decode curves on the byte levels -/

/-- Adobe RGB decode curve: one or more 8-bit steps raise `(n/255)^(563/256)` by at least
`(1/255)^3 > 6e-8` (superadditivity of the convex power; the true minimum, at the step `0 → 1`, is
`(1/255)^(563/256) ≈ 5.1e-6`) -/
theorem argb_dec_level_gap {m n : ℕ} (h : m < n) :
    F64.compute_argb_gamma ((m : ℝ) / 255) + 6 / 10 ^ 8 ≤ F64.compute_argb_gamma ((n : ℝ) / 255) := by
  rw [Curves.argb_dec_nonneg (level_nonneg m), Curves.argb_dec_nonneg (level_nonneg n)]
  have h1 : (m : ℝ) + 1 ≤ n := by exact_mod_cast h
  have hm0 : (0 : ℝ) ≤ (m : ℝ) / 255 := level_nonneg m
  set d : ℝ := (n : ℝ) / 255 - (m : ℝ) / 255 with hd
  have hd1 : (1 : ℝ) / 255 ≤ d := by rw [hd]; linarith
  have hd0 : 0 ≤ d := le_trans (by norm_num) hd1
  have hs : (n : ℝ) / 255 = (m : ℝ) / 255 + d := by rw [hd]; ring
  have sup := Real.add_rpow_le_rpow_add hm0 hd0 (p := (563 : ℝ) / 256) (by norm_num)
  rw [← hs] at sup
  have g1 : ((1 : ℝ) / 255) ^ ((563 : ℝ) / 256) ≤ d ^ ((563 : ℝ) / 256) :=
    Real.rpow_le_rpow (by norm_num) hd1 (by norm_num)
  have g2 : ((1 : ℝ) / 255) ^ ((3 : ℕ) : ℝ) ≤ ((1 : ℝ) / 255) ^ ((563 : ℝ) / 256) :=
    Real.rpow_le_rpow_of_exponent_ge (by norm_num) (by norm_num) (by norm_num)
  rw [Real.rpow_natCast] at g2
  have g3 : (6 : ℝ) / 10 ^ 8 ≤ ((1 : ℝ) / 255) ^ 3 := by norm_num
  linarith

/-- every decode curve: one or more 8-bit steps raise the linear-light value by at least `6e-8`
(sRGB curve: `3.03e-4`, `LightnessF2.srgb_dec_level_gap`) -/
theorem dec_level_gap (k : XyzKind) {m n : ℕ} (h : m < n) :
    dec k ((m : ℝ) / 255) + 6 / 10 ^ 8 ≤ dec k ((n : ℝ) / 255) := by
  cases k
  · have := LightnessF2.srgb_dec_level_gap h; simp only [dec]; linarith
  · have := LightnessF2.srgb_dec_level_gap h; simp only [dec]; linarith
  · exact argb_dec_level_gap h

/-- every forward matrix entry is at least `0.01` (smallest: `0.0139322`, D50, Z row, R column) -/
theorem fwd_ge (k : XyzKind) (i j : Fin 3) : 1 / 100 ≤ M3.ent (fwd k) i j := by
  cases k <;> fin_cases i <;> fin_cases j <;> unfold_consts <;> norm_num

/-- the product of a coefficient `≥ 0.01` with a gap of `6e-8` -/
private theorem coef_gap {p a b : ℝ} (hp : 1 / 100 ≤ p) (hab : a + 6 / 10 ^ 8 ≤ b) :
    p * a + 6 / 10 ^ 10 ≤ p * b := by
  have h1 : p * (a + 6 / 10 ^ 8) ≤ p * b := mul_le_mul_of_nonneg_left hab (by linarith)
  have h2 : (1 / 100 : ℝ) * (6 / 10 ^ 8) ≤ p * (6 / 10 ^ 8) :=
    mul_le_mul_of_nonneg_right hp (by norm_num)
  nlinarith

/-- componentwise gap of two real XYZ triples -/
def Gap (d : ℝ) (a b : V3) : Prop := a.1 + d ≤ b.1 ∧ a.2.1 + d ≤ b.2.1 ∧ a.2.2 + d ≤ b.2.2

/-- raising R raises each of the exact X, Y, Z by at least `6e-10`, for every profile -/
theorem xyz_gap_r (k : XyzKind) (c : Rgb) (r' : ℕ) (h : c.r < r') :
    Gap (6 / 10 ^ 10) (mulVec (fwd k) (lin k c)) (mulVec (fwd k) (lin k { c with r := r' })) := by
  have hd := dec_level_gap k h
  have q0 := coef_gap (fwd_ge k 0 0) hd
  have q1 := coef_gap (fwd_ge k 1 0) hd
  have q2 := coef_gap (fwd_ge k 2 0) hd
  simp only [M3.ent, M3.row, V3.get] at q0 q1 q2
  refine ⟨?_, ?_, ?_⟩ <;> simp only [mulVec, dot, lin] <;> linarith

theorem xyz_gap_g (k : XyzKind) (c : Rgb) (g' : ℕ) (h : c.g < g') :
    Gap (6 / 10 ^ 10) (mulVec (fwd k) (lin k c)) (mulVec (fwd k) (lin k { c with g := g' })) := by
  have hd := dec_level_gap k h
  have q0 := coef_gap (fwd_ge k 0 1) hd
  have q1 := coef_gap (fwd_ge k 1 1) hd
  have q2 := coef_gap (fwd_ge k 2 1) hd
  simp only [M3.ent, M3.row, V3.get] at q0 q1 q2
  refine ⟨?_, ?_, ?_⟩ <;> simp only [mulVec, dot, lin] <;> linarith

theorem xyz_gap_b (k : XyzKind) (c : Rgb) (b' : ℕ) (h : c.b < b') :
    Gap (6 / 10 ^ 10) (mulVec (fwd k) (lin k c)) (mulVec (fwd k) (lin k { c with b := b' })) := by
  have hd := dec_level_gap k h
  have q0 := coef_gap (fwd_ge k 0 2) hd
  have q1 := coef_gap (fwd_ge k 1 2) hd
  have q2 := coef_gap (fwd_ge k 2 2) hd
  simp only [M3.ent, M3.row, V3.get] at q0 q1 q2
  refine ⟨?_, ?_, ?_⟩ <;> simp only [mulVec, dot, lin] <;> linarith

section fp
variable (M : FPModel)

/-- **gap transfer**: if the exact XYZ of two 8-bit colours differ by a gap `d` in every component,
the XYZ computed in `RF M` differ by at least `d - 4e-13` -/
theorem xyzF_gap (k : XyzKind) (c c' : Rgb) (hr : c.r ≤ 255) (hg : c.g ≤ 255) (hb : c.b ≤ 255)
    (hr' : c'.r ≤ 255) (hg' : c'.g ≤ 255) (hb' : c'.b ≤ 255) {d : ℝ}
    (h : Gap d (mulVec (fwd k) (lin k c)) (mulVec (fwd k) (lin k c'))) :
    (xyzF M k c).1.val + (d - 4e-13) ≤ (xyzF M k c').1.val ∧
    (xyzF M k c).2.1.val + (d - 4e-13) ≤ (xyzF M k c').2.1.val ∧
    (xyzF M k c).2.2.val + (d - 4e-13) ≤ (xyzF M k c').2.2.val := by
  obtain ⟨a1, a2, a3⟩ := xyz_fp_close M k c hr hg hb
  obtain ⟨b1, b2, b3⟩ := xyz_fp_close M k c' hr' hg' hb'
  obtain ⟨h1, h2, h3⟩ := h
  rw [abs_le] at a1 a2 a3 b1 b2 b3
  refine ⟨?_, ?_, ?_⟩ <;> linarith [a1.1, a1.2, a2.1, a2.2, a3.1, a3.2, b1.1, b1.2, b2.1, b2.2, b3.1, b3.2]

/-! ## B. `rnd_mono` chains -/

/-- `gcongr` rule: rounding is monotone in every model -/
@[gcongr] theorem rnd_le_rnd {a b : ℝ} (h : a ≤ b) : M.rnd a ≤ M.rnd b := M.rnd_mono h

/-- a rounded non-negative literal is non-negative -/
theorem lit_nonneg (n d : ℕ) : 0 ≤ M.rnd ((n : ℝ) / (d : ℝ)) := rnd_nonneg M (by positivity)

end fp


/-! ## C. real-analysis gaps of the CIE shapes with a perturbed threshold -/

/-- the cube root has slope at least `0.3` on `[0, 1.1]` -/
theorem cbrt_gap {a b : ℝ} (ha : 0 ≤ a) (hab : a ≤ b) (hb : b ≤ 11 / 10) :
    a ^ ((1 : ℝ) / 3) + 3 / 10 * (b - a) ≤ b ^ ((1 : ℝ) / 3) := by
  have hb0 : 0 ≤ b := ha.trans hab
  have s3 : (a ^ ((1 : ℝ) / 3)) ^ 3 = a := rpow_third_pow ha
  have r3 : (b ^ ((1 : ℝ) / 3)) ^ 3 = b := rpow_third_pow hb0
  have s0 : 0 ≤ a ^ ((1 : ℝ) / 3) := rpow_third_nonneg ha
  have sr : a ^ ((1 : ℝ) / 3) ≤ b ^ ((1 : ℝ) / 3) := Real.rpow_le_rpow ha hab (by norm_num)
  have r1 : b ^ ((1 : ℝ) / 3) ≤ 26 / 25 := rpow_third_le (by norm_num) hb0 (by norm_num; linarith)
  generalize a ^ ((1 : ℝ) / 3) = s at *
  generalize b ^ ((1 : ℝ) / 3) = r at *
  have h1 : r ^ 2 + r * s + s ^ 2 ≤ 3 * (26 / 25) ^ 2 := by nlinarith
  have h2 : r ^ 3 - s ^ 3 = (r - s) * (r ^ 2 + r * s + s ^ 2) := by ring
  have h3 : (r - s) * (r ^ 2 + r * s + s ^ 2) ≤ (r - s) * (3 * (26 / 25) ^ 2) :=
    mul_le_mul_of_nonneg_left h1 (by linarith)
  rw [← s3, ← r3]
  nlinarith

/-- shape of `Lab::compute_f` with the threshold as a parameter (in `RF M` the threshold literal
`0.008856` is rounded) -/
noncomputable def fTh (θ t : ℝ) : ℝ := if θ < t then Real.cbrt t else t * (7787 / 1000) + 16 / 116

/-- for a threshold within `1e-9` of `0.008856` the line is below the cube root at the threshold
(`0.20689271 < 0.2068929`) -/
theorem th_jump {θ : ℝ} (hθ : |θ - 1107 / 125000| ≤ 1 / 10 ^ 9) :
    θ * (7787 / 1000) + 16 / 116 ≤ 2068929 / 10 ^ 7 ∧ 2068929 / 10 ^ 7 ≤ θ ^ ((1 : ℝ) / 3) := by
  obtain ⟨h1, h2⟩ := abs_le.mp hθ
  refine ⟨by linarith, ?_⟩
  apply le_rpow_third (by linarith)
  have : ((2068929 : ℝ) / 10 ^ 7) ^ 3 ≤ 1107 / 125000 - 1 / 10 ^ 9 := by norm_num
  linarith

/-- `fTh θ` has slope at least `0.3` on `[0, 1.1]`, across its (upward) jump too -/
theorem fTh_gap {θ a b : ℝ} (hθ : |θ - 1107 / 125000| ≤ 1 / 10 ^ 9) (ha : 0 ≤ a) (hab : a ≤ b)
    (hb : b ≤ 11 / 10) : fTh θ a + 3 / 10 * (b - a) ≤ fTh θ b := by
  obtain ⟨j1, j2⟩ := th_jump hθ
  obtain ⟨t1, t2⟩ := abs_le.mp hθ
  have hθ0 : 0 ≤ θ := by linarith
  unfold fTh
  by_cases hb' : θ < b
  · rw [if_pos hb', cbrt_of_nonneg (ha.trans hab)]
    by_cases ha' : θ < a
    · rw [if_pos ha', cbrt_of_nonneg ha]
      exact cbrt_gap ha hab hb
    · rw [if_neg ha']
      rw [not_lt] at ha'
      have g := cbrt_gap hθ0 hb'.le hb
      linarith
  · rw [if_neg hb', if_neg (by linarith)]
    linarith

/-- shape of the lightness of `Luv::from(Xyz)` with the threshold as a parameter -/
noncomputable def lTh (θ t : ℝ) : ℝ := if θ < t then 116 * t ^ ((1 : ℝ) / 3) - 16 else 9033 / 10 * t

/-- `lTh θ` rises by at least `34·(b - a) - 5e-5` (its jump at the threshold is DOWNWARD, by `3.3e-5`) -/
theorem lTh_gap {θ a b : ℝ} (hθ : |θ - 1107 / 125000| ≤ 1 / 10 ^ 9) (ha : 0 ≤ a) (hab : a ≤ b)
    (hb : b ≤ 11 / 10) : lTh θ a + (34 * (b - a) - 5 / 10 ^ 5) ≤ lTh θ b := by
  obtain ⟨j1, j2⟩ := th_jump hθ
  obtain ⟨t1, t2⟩ := abs_le.mp hθ
  have hθ0 : 0 ≤ θ := by linarith
  unfold lTh
  by_cases hb' : θ < b
  · rw [if_pos hb']
    by_cases ha' : θ < a
    · rw [if_pos ha']
      have g := cbrt_gap ha hab hb
      linarith
    · rw [if_neg ha']
      rw [not_lt] at ha'
      have g := cbrt_gap hθ0 hb'.le hb
      linarith
  · rw [if_neg hb', if_neg (by linarith)]
    linarith

/-- the square root has slope at least `1/(2B)` below `B²` -/
theorem sqrt_gap {a b g B : ℝ} (ha : 0 ≤ a) (hg : 0 ≤ g) (hab : a + g ≤ b) (hB : 0 < B) (hb : b ≤ B ^ 2) :
    Real.sqrt a + g / (2 * B) ≤ Real.sqrt b := by
  have hb0 : 0 ≤ b := by linarith
  have s2 : Real.sqrt a ^ 2 = a := Real.sq_sqrt ha
  have r2 : Real.sqrt b ^ 2 = b := Real.sq_sqrt hb0
  have s0 : 0 ≤ Real.sqrt a := Real.sqrt_nonneg a
  have sr : Real.sqrt a ≤ Real.sqrt b := Real.sqrt_le_sqrt (by linarith)
  have r1 : Real.sqrt b ≤ B := by
    rw [← Real.sqrt_sq hB.le]; exact Real.sqrt_le_sqrt hb
  generalize Real.sqrt a = s at *
  generalize Real.sqrt b = r at *
  have h1 : g / (2 * B) ≤ r - s := by
    rw [div_le_iff₀ (by positivity)]
    have h2 : (r - s) * (r + s) ≤ (r - s) * (2 * B) := mul_le_mul_of_nonneg_left (by linarith) (by linarith)
    nlinarith
  linarith

/-! ## D. lightness functions computed in `RF M`: closed forms, error vs the real shape, strict increase -/
section fp2
open FpLin
variable (M : FPModel)

/-- rounding preserves a gap up to `2·eps·B` -/
theorem rnd_gap {a b d B : ℝ} (ha : |a| ≤ B) (hb : |b| ≤ B) (hB : 1e-200 ≤ B) (h : a + d ≤ b) :
    M.rnd a + (d - 2 * FP.eps * B) ≤ M.rnd b := by
  have h1 := abs_le.mp (rnd_abs M ha hB)
  have h2 := abs_le.mp (rnd_abs M hb hB)
  linarith [h1.2, h2.1]

/-! ### Hunter L -/

/-- the lightness of `Hlab::from(Xyz)` computed in `RF M`, as a function of the (real value of the) computed `Y` -/
noncomputable def hunterF (y : ℝ) : ℝ :=
  if y = 0 then 0 else M.rnd (1000 * M.rnd (Real.sqrt (M.rnd (y / 100))))

theorem hlab_l_eq_fp (x : Xyz (RF M)) : (Hlab.from_Xyz x).l.val = hunterF M x.y.val := by
  have z : M.rnd (((0:ℕ):ℝ) / ((1:ℕ):ℝ)) = 0 := by
    have := lit_int M 0 (by norm_num); simpa using this
  have e1 := lit_int M 1000 (by norm_num)
  have e2 := lit_int M 100 (by norm_num)
  simp only [Hlab.from_Xyz, C.YN, FltRF.beq_eq, FltRF.lit_val, z, decide_eq_true_eq, hunterF]
  split_ifs
  · simp only [FltRF.lit_val, z]
  · simp only [FltRF.lit_val, FltRF.mul_val, FltRF.sqrt_val, FltRF.div_val, e1, e2]; norm_num

/-- Hunter L computed in `RF M` is strictly increasing across every gap `≥ 1e-5` of the computed `Y ∈ [0, 1.01]` -/
theorem hunterF_lt {y y' : ℝ} (h0 : 0 ≤ y) (h : y + 1 / 10 ^ 5 ≤ y') (h1 : y' ≤ 101 / 100) :
    hunterF M y < hunterF M y' := by
  -- the unguarded formula agrees with the guard at `y = 0`
  have hG : ∀ v : ℝ, hunterF M v = M.rnd (1000 * M.rnd (Real.sqrt (M.rnd (v / 100)))) := by
    intro v
    unfold hunterF
    split_ifs with hv
    · subst hv; simp [rnd_zero]
    · rfl
  rw [hG, hG]
  have a1 : |y / 100| ≤ 0.0101 := by rw [abs_of_nonneg (by positivity)]; linarith
  have a2 : |y' / 100| ≤ 0.0101 := by rw [abs_of_nonneg (by linarith)]; linarith
  have g1 := rnd_gap M a1 a2 (by norm_num) (d := 1 / 10 ^ 7) (by linarith)
  have u0 : 0 ≤ M.rnd (y / 100) := rnd_nonneg M (by positivity)
  have u1 : M.rnd (y' / 100) ≤ 0.11 ^ 2 := by
    have := (abs_le.mp (rnd_abs M a2 (by norm_num))).2
    norm_num [FP.eps] at this ⊢; linarith
  have g2 := sqrt_gap u0 (g := 9 / 10 ^ 8) (by norm_num) (by norm_num [FP.eps] at g1 ⊢; linarith)
    (by norm_num : (0:ℝ) < 0.11) u1
  have s0 : 0 ≤ Real.sqrt (M.rnd (y / 100)) := Real.sqrt_nonneg _
  have s1 : Real.sqrt (M.rnd (y' / 100)) ≤ 0.11 := by
    rw [← Real.sqrt_sq (by norm_num : (0:ℝ) ≤ 0.11)]; exact Real.sqrt_le_sqrt u1
  have s01 : Real.sqrt (M.rnd (y / 100)) ≤ Real.sqrt (M.rnd (y' / 100)) := by
    have : (0:ℝ) ≤ 9 / 10 ^ 8 / (2 * 0.11) := by norm_num
    linarith
  have g3 := rnd_gap M (B := 0.11) (by rw [abs_of_nonneg s0]; linarith)
    (by rw [abs_of_nonneg (s0.trans s01)]; exact s1) (by norm_num) g2
  set p := M.rnd (Real.sqrt (M.rnd (y / 100))) with hp
  set p' := M.rnd (Real.sqrt (M.rnd (y' / 100))) with hp'
  have p0 : 0 ≤ p := rnd_nonneg M s0
  have p1 : p' ≤ 0.111 := by
    have := (abs_le.mp (rnd_abs M (B := 0.11) (by rw [abs_of_nonneg (s0.trans s01)]; exact s1) (by norm_num))).2
    norm_num [FP.eps] at this ⊢; linarith
  have pp : p + 4 / 10 ^ 7 ≤ p' := by norm_num [FP.eps] at g3 ⊢; linarith
  have g4 := rnd_gap M (a := 1000 * p) (b := 1000 * p') (B := 111) (d := 4 / 10 ^ 4)
    (by rw [abs_of_nonneg (by positivity)]; linarith)
    (by rw [abs_of_nonneg (by linarith)]; linarith) (by norm_num) (by linarith)
  norm_num [FP.eps] at g4
  linarith

/-! ### CIELAB L* -/

/-- the threshold literal `0.008856` of `Lab::compute_f` / `Luv::from(Xyz)` after its rounding -/
noncomputable abbrev thF : ℝ := M.rnd (((1107 : ℕ) : ℝ) / ((125000 : ℕ) : ℝ))

theorem thF_close : |thF M - 1107 / 125000| ≤ 1 / 10 ^ 9 := by
  have := lit_close M 1107 125000 (B := 1) (by norm_num) (by norm_num)
  show |M.rnd (((1107 : ℕ) : ℝ) / ((125000 : ℕ) : ℝ)) - 1107 / 125000| ≤ 1 / 10 ^ 9
  rw [show (1107 : ℝ) / 125000 = ((1107 : ℕ) : ℝ) / ((125000 : ℕ) : ℝ) by norm_num]
  exact this.trans (by norm_num [FP.eps])

/-- `Lab::compute_f` computed in `RF M` -/
noncomputable def fF (t : ℝ) : ℝ :=
  if M.rnd (((1107 : ℕ) : ℝ) / ((125000 : ℕ) : ℝ)) < t then M.rnd (Real.cbrt t)
  else M.rnd (M.rnd (t * M.rnd (((7787 : ℕ) : ℝ) / ((1000 : ℕ) : ℝ))) + M.rnd (((16 : ℕ) : ℝ) / ((116 : ℕ) : ℝ)))

/-- the lightness of `Lab::from(Xyz)` computed in `RF M`, as a function of the computed `Y` -/
noncomputable def labLF (y : ℝ) : ℝ :=
  M.rnd (M.rnd (((116 : ℕ) : ℝ) * fF M (M.rnd y)) - ((16 : ℕ) : ℝ))

theorem compute_f_eq_fp (t : RF M) : (Lab.compute_f t).val = fF M t.val := by
  have e1 := lit_int M 116 (by norm_num)
  have e2 := lit_int M 16 (by norm_num)
  simp only [Lab.compute_f, FltRF.lt_eq, decide_eq_true_eq, FltRF.lit_val, fF]
  split_ifs with h
  · simp only [FltRF.cbrt_val]
  · simp only [FltRF.add_val, FltRF.mul_val, FltRF.div_val, FltRF.lit_val, e1, e2]

theorem lab_l_eq_fp (x : Xyz (RF M)) : (Lab.from_Xyz x).l.val = labLF M x.y.val := by
  have e1 := lit_int M 116 (by norm_num)
  have e2 := lit_int M 16 (by norm_num)
  have e3 := lit_int M 1 (by norm_num)
  simp only [Lab.from_Xyz, C.D65, FltRF.sub_val, FltRF.mul_val, compute_f_eq_fp, FltRF.div_val, FltRF.lit_val,
    e1, e2, e3, labLF]
  simp only [Nat.cast_one, div_one]

/-- `fF` is within `4e-15` of the real shape `fTh` with the rounded threshold -/
theorem fF_near {t : ℝ} (h0 : 0 ≤ t) (h1 : t ≤ 11 / 10) : Near (fF M t) (fTh (thF M) t) (4 / 10 ^ 15) 2 := by
  unfold fF fTh
  split_ifs with hc
  · have hb : |Real.cbrt t| ≤ 2 := by
      rw [cbrt_of_nonneg h0, abs_of_nonneg (rpow_third_nonneg h0)]
      exact (rpow_third_le (by norm_num) h0 (by norm_num; linarith)).trans (by norm_num : (26:ℝ)/25 ≤ 2)
    exact ((Near.exact hb (by norm_num)).rnd M).mono (by norm_num [FP.eps]) le_rfl
  · have T : Near t t 0 (11 / 10) := Near.exact_nonneg h0 h1 (by norm_num)
    have h := (T.mul M (Near.lit M 7787 1000 (B := 8) (by norm_num) (by norm_num))).add M
      (Near.lit M 16 116 (B := 1) (by norm_num) le_rfl)
    have hm : |t * (7787 / 1000) + 16 / 116| ≤ 2 := by
      have : M.rnd (((1107 : ℕ) : ℝ) / ((125000 : ℕ) : ℝ)) - 1107 / 125000 ≤ 1 / 10 ^ 9 :=
        (abs_le.mp (thF_close M)).2
      rw [not_lt] at hc
      rw [abs_of_nonneg (by positivity)]; linarith
    refine ((h.retarget (by push_cast; ring)).remag hm (by norm_num)).mono ?_ le_rfl
    norm_num [FP.eps]

/-- `labLF` is within `1e-12` of `116·fTh − 16` -/
theorem labLF_close {y : ℝ} (h0 : 0 ≤ y) (h1 : y ≤ 101 / 100) :
    |labLF M y - (116 * fTh (thF M) (M.rnd y) - 16)| ≤ 1 / 10 ^ 12 := by
  have t0 : 0 ≤ M.rnd y := rnd_nonneg M h0
  have t1 : M.rnd y ≤ 11 / 10 := by
    have := (abs_le.mp (rnd_abs M (B := 101 / 100) (by rw [abs_of_nonneg h0]; exact h1) (by norm_num))).2
    norm_num [FP.eps] at this ⊢; linarith
  have hF := fF_near M t0 t1
  have c116 : Near (((116 : ℕ) : ℝ)) ((116 : ℕ) : ℝ) 0 116 := Near.nat (by norm_num) (by norm_num)
  have c16 : Near (((16 : ℕ) : ℝ)) ((16 : ℕ) : ℝ) 0 16 := Near.nat (by norm_num) (by norm_num)
  have h := (c116.mul M hF).sub M c16
  unfold labLF
  exact h.finish (by push_cast; ring) (by norm_num [FP.eps])

/-- **CIELAB L\* computed in `RF M` is strictly increasing across every gap `≥ 1e-5` of the computed `Y`** -/
theorem labLF_lt {y y' : ℝ} (h0 : 0 ≤ y) (h : y + 1 / 10 ^ 5 ≤ y') (h1 : y' ≤ 101 / 100) :
    labLF M y < labLF M y' := by
  have c1 := abs_le.mp (labLF_close M h0 (by linarith))
  have c2 := abs_le.mp (labLF_close M (y := y') (by linarith) h1)
  have a1 : |y| ≤ 101 / 100 := by rw [abs_of_nonneg h0]; linarith
  have a2 : |y'| ≤ 101 / 100 := by rw [abs_of_nonneg (by linarith)]; exact h1
  have g1 := rnd_gap M a1 a2 (by norm_num) h
  have t0 : 0 ≤ M.rnd y := rnd_nonneg M h0
  have t1 : M.rnd y' ≤ 11 / 10 := by
    have := (abs_le.mp (rnd_abs M a2 (by norm_num))).2
    norm_num [FP.eps] at this ⊢; linarith
  have tt : M.rnd y ≤ M.rnd y' := by norm_num [FP.eps] at g1; linarith
  have g2 := fTh_gap (thF_close M) t0 tt t1
  norm_num [FP.eps] at g1
  linarith [c1.2, c2.1]

/-! ### CIELUV L* -/

/-- the lightness of `Luv::from(Xyz)` computed in `RF M`, as a function of the computed `Y`
(`powf` with the rounded exponent `1/3`, not `cbrt`) -/
noncomputable def luvLF (y : ℝ) : ℝ :=
  if M.rnd (((1107 : ℕ) : ℝ) / ((125000 : ℕ) : ℝ)) < M.rnd y then
    M.rnd (M.rnd (((116 : ℕ) : ℝ) * M.pow (M.rnd y) (M.rnd (((1 : ℕ) : ℝ) / ((3 : ℕ) : ℝ)))) - ((16 : ℕ) : ℝ))
  else M.rnd (M.rnd (((9033 : ℕ) : ℝ) / ((10 : ℕ) : ℝ)) * M.rnd y)

theorem luv_l_eq_fp (x : Xyz (RF M)) : (Luv.from_Xyz x).l.val = luvLF M x.y.val := by
  have e1 := rnd_nat M 116 (by norm_num)
  have e2 := rnd_nat M 16 (by norm_num)
  have e3 := rnd_nat M 1 (by norm_num)
  have e4 := rnd_nat M 3 (by norm_num)
  have d1 : ∀ v : ℝ, v / ((1 : ℕ) : ℝ) = v := fun v => by simp
  simp only [Luv.from_Xyz, C.D65, C.EPSILON, C.KAPPA, FltRF.lt_eq, decide_eq_true_eq, FltRF.lit_val,
    FltRF.div_val, e3, d1, luvLF]
  split_ifs with h
  · simp only [FltRF.sub_val, FltRF.mul_val, FltRF.pow_val, FltRF.div_val, FltRF.lit_val, e1, e2, e3, e4, d1]
  · simp only [FltRF.mul_val, FltRF.div_val, FltRF.lit_val, e3, d1]

/-- `luvLF` is within `1e-12` of the real shape `lTh` with the rounded threshold -/
theorem luvLF_close {y : ℝ} (h0 : 0 ≤ y) (h1 : y ≤ 101 / 100) :
    |luvLF M y - lTh (thF M) (M.rnd y)| ≤ 1 / 10 ^ 12 := by
  have t0 : 0 ≤ M.rnd y := rnd_nonneg M h0
  have t1 : M.rnd y ≤ 11 / 10 := by
    have := (abs_le.mp (rnd_abs M (B := 101 / 100) (by rw [abs_of_nonneg h0]; exact h1) (by norm_num))).2
    norm_num [FP.eps] at this ⊢; linarith
  have hth1 : 1107 / 125000 - 1 / 10 ^ 9 ≤ M.rnd (((1107 : ℕ) : ℝ) / ((125000 : ℕ) : ℝ)) := by
    have : -(1 / 10 ^ 9) ≤ M.rnd (((1107 : ℕ) : ℝ) / ((125000 : ℕ) : ℝ)) - 1107 / 125000 :=
      (abs_le.mp (thF_close M)).1
    linarith
  have hth2 : M.rnd (((1107 : ℕ) : ℝ) / ((125000 : ℕ) : ℝ)) ≤ 1107 / 125000 + 1 / 10 ^ 9 := by
    have : M.rnd (((1107 : ℕ) : ℝ) / ((125000 : ℕ) : ℝ)) - 1107 / 125000 ≤ 1 / 10 ^ 9 :=
      (abs_le.mp (thF_close M)).2
    linarith
  unfold luvLF lTh thF
  generalize M.rnd y = t at *
  have c116 : Near (((116 : ℕ) : ℝ)) ((116 : ℕ) : ℝ) 0 116 := Near.nat (by norm_num) (by norm_num)
  have c16 : Near (((16 : ℕ) : ℝ)) ((16 : ℕ) : ℝ) 0 16 := Near.nat (by norm_num) (by norm_num)
  split_ifs with hc
  · have tpos : 0 < t := by linarith
    have hq := rnd_abs M (x := ((1 : ℕ) : ℝ) / ((3 : ℕ) : ℝ)) (B := 1)
      (by rw [abs_of_nonneg (by positivity)]; norm_num) (by norm_num)
    have e13 : ((1 : ℕ) : ℝ) / ((3 : ℕ) : ℝ) = (1 : ℝ) / 3 := by norm_num
    rw [e13] at hq ⊢
    generalize M.rnd ((1 : ℝ) / 3) = q at *
    obtain ⟨q1, q2⟩ := abs_le.mp hq
    have q0 : (0.3 : ℝ) ≤ q := by norm_num [FP.eps] at q1 ⊢; linarith
    have q4 : q ≤ 1 := by norm_num [FP.eps] at q2 ⊢; linarith
    have hB : t ^ q ≤ 2 := by
      calc t ^ q ≤ (11 / 10 : ℝ) ^ q := Real.rpow_le_rpow t0 t1 (by linarith)
        _ ≤ (11 / 10 : ℝ) ^ (1 : ℝ) := Real.rpow_le_rpow_of_exponent_le (by norm_num) q4
        _ ≤ 2 := by rw [Real.rpow_one]; norm_num
    have p1 := pow_close M t0 hB (by norm_num)
    have p2 := rpow_exp_close (x := t) (q := q) (q' := (1 : ℝ) / 3) (p := 0.3) tpos (by linarith)
      (by norm_num) q0 (by norm_num) (by linarith) (by norm_num) (hq.trans (by norm_num [FP.eps]))
    have p2' : |t ^ q - t ^ ((1 : ℝ) / 3)| ≤ FP.eps * 1 * (1 / 0.3 + 8) :=
      p2.trans (mul_le_mul_of_nonneg_right hq (by norm_num))
    have hm : |t ^ ((1 : ℝ) / 3)| ≤ 2 := by
      rw [abs_of_nonneg (rpow_third_nonneg t0)]
      exact (rpow_third_le (by norm_num) t0 (by norm_num; linarith)).trans (by norm_num : (26:ℝ)/25 ≤ 2)
    have hP : Near (M.pow t q) (t ^ ((1 : ℝ) / 3)) (2 / 10 ^ 15) 2 := by
      refine ⟨?_, hm, by norm_num⟩
      have := abs_sub_le (M.pow t q) (t ^ q) (t ^ ((1 : ℝ) / 3))
      norm_num [FP.eps] at p1 p2' this ⊢
      linarith
    have h := (c116.mul M hP).sub M c16
    exact h.finish (by push_cast; ring) (by norm_num [FP.eps])
  · rw [not_lt] at hc
    have T : Near t t 0 1 := Near.exact_nonneg t0 (by linarith) le_rfl
    have h := (Near.lit M 9033 10 (B := 904) (by norm_num) (by norm_num)).mul M T
    exact h.finish (by push_cast; ring) (by norm_num [FP.eps])

/-- **CIELUV L\* computed in `RF M` is strictly increasing across every gap `≥ 1e-5` of the computed `Y`**
(the downward jump of `3.3e-5` at the threshold is dominated: the rise is at least `34·1e-5 − 5e-5`) -/
theorem luvLF_lt {y y' : ℝ} (h0 : 0 ≤ y) (h : y + 1 / 10 ^ 5 ≤ y') (h1 : y' ≤ 101 / 100) :
    luvLF M y < luvLF M y' := by
  have c1 := abs_le.mp (luvLF_close M h0 (by linarith))
  have c2 := abs_le.mp (luvLF_close M (y := y') (by linarith) h1)
  have a1 : |y| ≤ 101 / 100 := by rw [abs_of_nonneg h0]; linarith
  have a2 : |y'| ≤ 101 / 100 := by rw [abs_of_nonneg (by linarith)]; exact h1
  have g1 := rnd_gap M a1 a2 (by norm_num) h
  have t0 : 0 ≤ M.rnd y := rnd_nonneg M h0
  have t1 : M.rnd y' ≤ 11 / 10 := by
    have := (abs_le.mp (rnd_abs M a2 (by norm_num))).2
    norm_num [FP.eps] at this ⊢; linarith
  have tt : M.rnd y ≤ M.rnd y' := by norm_num [FP.eps] at g1; linarith
  have g2 := lTh_gap (thF_close M) t0 tt t1
  norm_num [FP.eps] at g1
  linarith [c1.2, c2.1]

end fp2

section fp5
variable (M : FPModel)

/-! ## E. the computed luminance `Y` of the D65 profile -/

/-- the computed `Y` (D65) is within `2e-13` of the exact-real one -/
theorem yF_close (c : Rgb) (hr : c.r ≤ 255) (hg : c.g ≤ 255) (hb : c.b ≤ 255) :
    |(Xyz.from_rgb (α := RF M) c XyzKind.D65).y.val - (Xyz.from_rgb (α := ℝ) c XyzKind.D65).y| ≤ 2e-13 := by
  rw [from_rgb_eq_fp', from_rgb_eq]
  exact (xyz_fp_close M .D65 c hr hg hb).2.1

/-- a colour other than black has exact luminance at least `2e-5` -/
theorem y_d65_pos (c : Rgb) (h : c.r ≠ 0 ∨ c.g ≠ 0 ∨ c.b ≠ 0) :
    2 / 10 ^ 5 ≤ (Xyz.from_rgb (α := ℝ) c XyzKind.D65).y := by
  rcases h with h | h | h
  · have := LightnessF2.y_raise_r { c with r := 0 } c.r (Nat.pos_of_ne_zero h)
    have n := LightnessF2.y_d65_nonneg { c with r := 0 }
    have e : ({ ({ c with r := 0 } : Rgb) with r := c.r } : Rgb) = c := by cases c; rfl
    rw [e] at this; linarith
  · have := LightnessF2.y_raise_g { c with g := 0 } c.g (Nat.pos_of_ne_zero h)
    have n := LightnessF2.y_d65_nonneg { c with g := 0 }
    have e : ({ ({ c with g := 0 } : Rgb) with g := c.g } : Rgb) = c := by cases c; rfl
    rw [e] at this; linarith
  · have := LightnessF2.y_raise_b { c with b := 0 } c.b (Nat.pos_of_ne_zero h)
    have n := LightnessF2.y_d65_nonneg { c with b := 0 }
    have e : ({ ({ c with b := 0 } : Rgb) with b := c.b } : Rgb) = c := by cases c; rfl
    rw [e] at this; linarith

/-- the computed `Y` (D65) of an 8-bit colour is non-negative in every model: exactly `0` for black,
at least `1.9e-5` otherwise (no appeal to the sign of `M.pow`) -/
theorem yF_nonneg (c : Rgb) (hr : c.r ≤ 255) (hg : c.g ≤ 255) (hb : c.b ≤ 255) :
    0 ≤ (Xyz.from_rgb (α := RF M) c XyzKind.D65).y.val := by
  by_cases h : c.r ≠ 0 ∨ c.g ≠ 0 ∨ c.b ≠ 0
  · have h1 := y_d65_pos c h
    have h2 := (abs_le.mp (yF_close M c hr hg hb)).1
    norm_num at h1 h2 ⊢; linarith
  · push Not at h
    obtain ⟨h1, h2, h3⟩ := h
    have e : c = ⟨0, 0, 0⟩ := by cases c; simp_all
    rw [e, from_rgb_eq_fp']
    exact (xyz_black_fp M .D65).2.1.ge

/-- the computed `Y` (D65) of an 8-bit colour is at most `1.01` -/
theorem yF_le (c : Rgb) (hr : c.r ≤ 255) (hg : c.g ≤ 255) (hb : c.b ≤ 255) :
    (Xyz.from_rgb (α := RF M) c XyzKind.D65).y.val ≤ 101 / 100 := by
  have h1 := LightnessF2.y_d65_le c hr hg hb
  have h2 := (abs_le.mp (yF_close M c hr hg hb)).2
  norm_num at h1 h2 ⊢; linarith

/-- if the exact luminances differ by at least `2e-5`, the computed ones differ by at least `1e-5` -/
theorem yF_gap (c c' : Rgb) (hr : c.r ≤ 255) (hg : c.g ≤ 255) (hb : c.b ≤ 255)
    (hr' : c'.r ≤ 255) (hg' : c'.g ≤ 255) (hb' : c'.b ≤ 255)
    (h : (Xyz.from_rgb (α := ℝ) c XyzKind.D65).y + 2 / 10 ^ 5 ≤ (Xyz.from_rgb (α := ℝ) c' XyzKind.D65).y) :
    (Xyz.from_rgb (α := RF M) c XyzKind.D65).y.val + 1 / 10 ^ 5 ≤
      (Xyz.from_rgb (α := RF M) c' XyzKind.D65).y.val := by
  have h1 := (abs_le.mp (yF_close M c hr hg hb)).2
  have h2 := (abs_le.mp (yF_close M c' hr' hg' hb')).1
  norm_num at h1 h2 h ⊢; linarith
end fp5

end Lemmas.FpMono
