import LymuiVerif.Lemmas.FpLuv
import LymuiVerif.Props.C06
/-!
# Rounded-arithmetic lemmas for the REVERSE conversions of the CIE family on arbitrary in-range inputs
(C06 in `RF M`, every `M : FPModel`)

The round trips on forward images exist already (`FpCie.lab_roundtrip_fp`, `FpLuv.luv_roundtrip_fp`,
`FpCieXyz.xyy_roundtrip_fp`).  Here the input of the reverse conversion is ANY value of the carrier in the
stated range, and the computed result is compared with the SAME generated function evaluated on exact reals.

* real analysis: `cross` (the two branch formulas of `Lab::reverse_compute_f` / of the luminance recovery differ
  by at most `4e-8` on the sliver `[0.206893, 6/29]`, the only place where the computed and the real evaluation
  can take different branches), `revOK_pair`, `revOK_revCode`, `revOK_yRevCode`.
* `revF`, `rev_f_val`, `rev_f_at`: `Lab::reverse_compute_f` in `RF M` at a computed argument within `1e-15` of a
  real one in `[-0.6, 1.7]` (negative arguments occur: `L = 0`, `b = 128`).
* `revY_at`: the luminance recovery of `Xyz::from(Lab)` / `Xyz::from(Luv)` for `L ∈ [0, 105]`.
* `from_lab_fp` (structure of the generated `Xyz::from(Lab)` in `RF M`), `from_lab_real`, `lab_arg_x`, `lab_arg_z`.
* `scale_white`, `white_near`: the final multiplication by the rounded white-point literal.
* xyY: `from_xyy_fp`, `from_xyy_real`, `xyy_quot` (the two quotients by the chromaticity `y ≥ 1e-3`).
* Hunter Lab: `hY5`, `hT`, `hS`, `hKa`, `hKb`, `from_hlab_fp`, `from_hlab_real`; `hunter_pow`, `hunter_T`, `hunter_lum` (the
  luminance part `powf(L/100, 2)·100`, `/100`, `sqrt` in RELATIVE error — the square root is not Lipschitz at 0),
  `hunter_coef`, `hunter_chan`.
* CIELUV: `from_luv_real`, `upR_close` (`u/(13·L) + u'n` with the quotient in relative error), `luv_assemble`
  (`x = y·9u'/(4v')`, `z = y·(12 − 3u' − 20v')/(4v')` for a luminance known within a symbolic `ey`).
(The OkLab reverse lemmas are in `Lemmas/FpRevOk.lean`.)
-/
namespace FpRev
open Gen FpErr FpLin FpCie Lemmas.Cie

/-! ## real analysis: the two branch formulas near the threshold -/

/-- on the sliver `[0.206893, 6/29]` the cubic branch `c³` and the linear branch `(116c − 16)/903.3` differ by at
most `4e-8` (they would agree at `6/29` with the exact `κ = 24389/27`; the rounded `903.3` costs `3.63e-8`) -/
theorem cross {c : ℝ} (h1 : 206893 / 1000000 ≤ c) (h2 : c ≤ 6 / 29) :
    |c ^ 3 - (116 * c - 16) / (9033 / 10)| ≤ 4 / 10 ^ 8 := by
  obtain ⟨k1, k2⟩ := sliver h1 h2
  have e1 : |c ^ 3 - (116 * c - 16) / (24389 / 27)| ≤ 2 / 10 ^ 11 := by
    have : c ^ 3 - (116 * c - 16) / (24389 / 27) = (24389 / 27 * c ^ 3 - 116 * c + 16) / (24389 / 27) := by
      field_simp; ring
    rw [this, abs_le]
    constructor
    · have : 0 ≤ (24389 / 27 * c ^ 3 - 116 * c + 16) / (24389 / 27) := by positivity
      linarith
    · rw [div_le_iff₀ (by norm_num)]; linarith
  have e2 : |(116 * c - 16) / (24389 / 27) - (116 * c - 16) / (9033 / 10)| ≤ 37 / 10 ^ 9 := by
    have : (116 * c - 16) / (24389 / 27) - (116 * c - 16) / (9033 / 10)
        = (116 * c - 16) * (1 / (9033 * 24389)) := by field_simp; ring
    rw [this, abs_mul, abs_of_pos (by norm_num : (0 : ℝ) < 1 / (9033 * 24389))]
    have : |116 * c - 16| ≤ 8 + 1 / 1000 := by rw [abs_le]; constructor <;> linarith
    nlinarith
  have := abs_sub_le (c ^ 3) ((116 * c - 16) / (24389 / 27)) ((116 * c - 16) / (9033 / 10))
  linarith

/-- two values that both follow a branch formula at the same `c` (possibly different branches) are within
`4e-8 + e1 + e2` of each other -/
theorem revOK_pair {c o1 o2 e1 e2 : ℝ} (h1 : RevOK c o1 e1) (h2 : RevOK c o2 e2) :
    |o1 - o2| ≤ 4 / 10 ^ 8 + e1 + e2 := by
  have tri : ∀ f g : ℝ, |o1 - f| ≤ e1 → |o2 - g| ≤ e2 → |o1 - o2| ≤ e1 + e2 + |f - g| := by
    intro f g a b
    have t1 := abs_sub_le o1 f o2
    have t2 := abs_sub_le f g o2
    rw [abs_sub_comm g o2] at t2
    linarith
  rcases h1 with ⟨a1, a2⟩ | ⟨a1, a2⟩ <;> rcases h2 with ⟨b1, b2⟩ | ⟨b1, b2⟩
  · have := tri _ _ a2 b2; simp only [sub_self, abs_zero] at this; linarith
  · have := tri _ _ a2 b2; have := cross a1 b1; linarith
  · have := tri _ _ a2 b2; have := cross b1 a1; rw [abs_sub_comm] at this; linarith
  · have := tri _ _ a2 b2; simp only [sub_self, abs_zero] at this; linarith

/-- a number whose cube is at least `0.008855999` is at least `0.206893` -/
theorem lower_of_cube' {c : ℝ} (h : 8855999 / 10 ^ 9 ≤ c ^ 3) : 206893 / 1000000 ≤ c := by
  by_contra hlt
  push Not at hlt
  rcases le_or_gt 0 c with h0 | h0
  · have := pow_le_pow_left₀ h0 hlt.le 3
    norm_num at this h; linarith
  · have : c ^ 3 < 0 := by
      have : c ^ 3 = c * c ^ 2 := by ring
      rw [this]; exact mul_neg_of_neg_of_pos h0 (by nlinarith)
    norm_num at h; linarith

/-- a number whose cube is at most `0.008856001` is at most `6/29` -/
theorem upper_of_cube {c : ℝ} (h : c ^ 3 ≤ 8856001 / 10 ^ 9) : c ≤ 6 / 29 := by
  by_contra hlt
  push Not at hlt
  have := pow_lt_pow_left₀ hlt (by norm_num : (0 : ℝ) ≤ 6 / 29) (n := 3) (by norm_num)
  norm_num at this h; linarith

/-- the real model's `Lab::reverse_compute_f` follows a branch formula exactly -/
theorem revOK_revCode (c : ℝ) : RevOK c (revCode c) 0 := by
  unfold revCode
  split_ifs with h
  · left; exact ⟨lower_of_cube h, by simp⟩
  · right; rw [not_lt] at h; exact ⟨upper_of_cube (by norm_num at h ⊢; linarith), by simp⟩

/-- the real model's luminance recovery follows a branch formula at `(L+16)/116` exactly -/
theorem revOK_yRevCode (L : ℝ) : RevOK ((L + 16) / 116) (yRevCode L) 0 := by
  unfold yRevCode
  split_ifs with h
  · left; refine ⟨?_, by simp⟩
    rw [le_div_iff₀ (by norm_num)]; norm_num at h ⊢; linarith
  · right; rw [not_lt] at h
    refine ⟨?_, ?_⟩
    · rw [div_le_iff₀ (by norm_num)]; norm_num at h ⊢; linarith
    · have : (116 * ((L + 16) / 116) - 16) / (9033 / 10) = L / (9033 / 10) := by ring
      rw [this]; simp

/-- the branch the computed `reverse_compute_f` takes, in terms of the REAL argument `c`: the cubic formula only if
`c³ ≥ ε − 1e-13`, the linear one only if `c³ ≤ ε + 1e-13` -/
def RevAt (c out e : ℝ) : Prop :=
  (1107 / 125000 - 1 / 10 ^ 13 ≤ c ^ 3 ∧ |out - c ^ 3| ≤ e) ∨
  (c ^ 3 ≤ 1107 / 125000 + 1 / 10 ^ 13 ∧ |out - (116 * c - 16) / (9033 / 10)| ≤ e)

theorem RevAt.revOK {c out e : ℝ} (h : RevAt c out e) : RevOK c out e := by
  rcases h with ⟨a, b⟩ | ⟨a, b⟩
  · left; exact ⟨lower_of_cube' (by norm_num at a ⊢; linarith), b⟩
  · right; exact ⟨upper_of_cube (by norm_num at a ⊢; linarith), b⟩

/-- away (`1e-12`) from the threshold the computed value follows the branch of the real model -/
theorem RevAt.clear {c out e : ℝ} (h : RevAt c out e) (hs : 1 / 10 ^ 12 ≤ |c ^ 3 - 1107 / 125000|) :
    |out - revCode c| ≤ e := by
  unfold revCode
  rcases h with ⟨a, b⟩ | ⟨a, b⟩
  · rw [if_pos]; exact b
    by_contra hn; rw [not_lt] at hn
    rw [abs_of_nonpos (by linarith)] at hs
    norm_num at a hs hn; linarith
  · rw [if_neg]; exact b
    intro hn
    rw [abs_of_nonneg (by linarith)] at hs
    norm_num at a hs hn; linarith

/-- the same for the luminance recovery, in terms of `L`: cubic only if `L ≥ κε − 1e-11`, linear only if `L ≤ κε + 1e-11` -/
def YRevAt (L out e : ℝ) : Prop :=
  (79996248 / 10000000 - 1 / 10 ^ 11 ≤ L ∧ |out - ((L + 16) / 116) ^ 3| ≤ e) ∨
  (L ≤ 79996248 / 10000000 + 1 / 10 ^ 11 ∧ |out - L / (9033 / 10)| ≤ e)

theorem YRevAt.revOK {L out e : ℝ} (h : YRevAt L out e) : RevOK ((L + 16) / 116) out e := by
  rcases h with ⟨a, b⟩ | ⟨a, b⟩
  · left; refine ⟨?_, b⟩
    rw [le_div_iff₀ (by norm_num)]; norm_num at a ⊢; linarith
  · right; refine ⟨?_, ?_⟩
    · rw [div_le_iff₀ (by norm_num)]; norm_num at a ⊢; linarith
    · have : (116 * ((L + 16) / 116) - 16) / (9033 / 10) = L / (9033 / 10) := by ring
      rw [this]; exact b

theorem YRevAt.clear {L out e : ℝ} (h : YRevAt L out e) (hs : 1 / 10 ^ 9 ≤ |L - 79996248 / 10000000|) :
    |out - yRevCode L| ≤ e := by
  unfold yRevCode
  rcases h with ⟨a, b⟩ | ⟨a, b⟩
  · rw [if_pos]; exact b
    by_contra hn; rw [not_lt] at hn
    rw [abs_of_nonpos (by linarith)] at hs
    norm_num at a hs hn; linarith
  · rw [if_neg]; exact b
    intro hn
    rw [abs_of_nonneg (by linarith)] at hs
    norm_num at a hs hn; linarith

/-- unconditional comparison with the real model: `4e-8 + e` -/
theorem RevAt.any {c out e : ℝ} (h : RevAt c out e) : |out - revCode c| ≤ 4 / 10 ^ 8 + e := by
  have := revOK_pair h.revOK (revOK_revCode c); linarith

theorem YRevAt.any {L out e : ℝ} (h : YRevAt L out e) : |out - yRevCode L| ≤ 4 / 10 ^ 8 + e := by
  have := revOK_pair h.revOK (revOK_yRevCode L); linarith

/-- magnitude of the real model's `reverse_compute_f` on `[-0.6, 1.7]` -/
theorem revCode_bound {c : ℝ} (h0 : -(6 / 10) ≤ c) (h1 : c ≤ 17 / 10) : |revCode c| ≤ 5 := by
  unfold revCode
  split_ifs with h
  · have hc := lower_of_cube h
    have : c ^ 3 ≤ (17 / 10) ^ 3 := pow_le_pow_left₀ (by linarith) h1 3
    rw [abs_of_nonneg (by positivity)]; norm_num at this ⊢; linarith
  · rw [abs_div, abs_of_pos (by norm_num : (0 : ℝ) < 9033 / 10), div_le_iff₀ (by norm_num), abs_le]
    constructor <;> linarith

theorem yRevCode_bound {L : ℝ} (h0 : 0 ≤ L) (h1 : L ≤ 105) : 0 ≤ yRevCode L ∧ yRevCode L ≤ 12 / 10 := by
  unfold yRevCode
  split_ifs with h
  · have h2 : (L + 16) / 116 ≤ 105 / 100 := by rw [div_le_iff₀ (by norm_num)]; linarith
    have h3 : 0 ≤ (L + 16) / 116 := by positivity
    have : ((L + 16) / 116) ^ 3 ≤ (105 / 100) ^ 3 := pow_le_pow_left₀ h3 h2 3
    exact ⟨by positivity, by norm_num at this ⊢; linarith⟩
  · rw [not_lt] at h
    exact ⟨by positivity, by rw [div_le_iff₀ (by norm_num)]; linarith⟩

/-! ## `Lab::reverse_compute_f` and the luminance recovery in `RF M` -/
section fp
variable (M : FPModel)

/-- `Lab::reverse_compute_f` in `RF M`, on values -/
noncomputable def revF (c : ℝ) : ℝ :=
  if M.rnd (1107 / 125000) < RF.powi M c 3 then RF.powi M c 3
  else M.rnd (M.rnd (M.rnd (116 * c) - 16) / M.rnd (9033 / 10))

theorem rev_f_val (c : RF M) : (Lab.reverse_compute_f c).val = revF M c.val := by
  unfold Lab.reverse_compute_f revF
  simp only [FltRF.lt_eq, decide_eq_true_eq, FpLuv.eps_val, FltRF.powi_val]
  split_ifs
  · rfl
  · simp only [FltRF.div_val, FltRF.sub_val, FltRF.mul_val, FpLuv.kappa_val, FpLuv.litv M _ 116 (by norm_num),
      FpLuv.litv M _ 16 (by norm_num), Nat.cast_ofNat]

/-- **`Lab::reverse_compute_f` in `RF M`** at a computed argument `c` within `1e-15` of a real `cr ∈ [-0.6, 1.7]`:
one of the two branch formulas AT `cr` within `3e-14`, the branch consistent with `cr³` up to `1e-13` -/
theorem rev_f_at {c cr : ℝ} (hc : |c - cr| ≤ 1 / 10 ^ 15) (h0 : -(6 / 10) ≤ cr) (h1 : cr ≤ 17 / 10) :
    RevAt cr (revF M c) (3 / 10 ^ 14) := by
  obtain ⟨k1, k2⟩ := abs_le.mp (FpLuv.thr_close' M)
  have nc : Near c cr (1 / 10 ^ 15) (17 / 10) := ⟨hc, by rw [abs_le]; constructor <;> linarith, by norm_num⟩
  have hp : |RF.powi M c 3 - cr ^ 3| ≤ 2 / 10 ^ 14 :=
    (Near.powi3 M nc).finish rfl (by norm_num [eMul, eRnd, FP.eps])
  obtain ⟨p1, p2⟩ := abs_le.mp hp
  unfold revF
  split_ifs with hb
  · left
    exact ⟨by norm_num at k1 k2 p1 p2 hb ⊢; linarith, hp.trans (by norm_num)⟩
  · right
    rw [not_lt] at hb
    refine ⟨by norm_num at k1 k2 p1 p2 hb ⊢; linarith, ?_⟩
    have n116 : Near (116 : ℝ) 116 0 116 := Near.exact (by norm_num) (by norm_num)
    have n16 : Near (16 : ℝ) 16 0 16 := Near.exact (by norm_num) (by norm_num)
    have hq : |(116 * cr - 16) / (9033 / 10)| ≤ 1 := by
      rw [abs_div, abs_of_pos (by norm_num : (0 : ℝ) < 9033 / 10), div_le_iff₀ (by norm_num), abs_le]
      constructor <;> linarith
    have n := ((n116.mul M nc).sub M n16).div M (FpLuv.kappa_near M) (m := 903)
      (by rw [abs_of_pos (by norm_num)]; norm_num) (by norm_num [FP.eps]) hq le_rfl
    exact n.finish rfl (by norm_num [FP.eps])

/-- **the luminance recovery** (`FpLuv.revY`: the `y` of `Xyz::from(Lab)` and of `Xyz::from(Luv)`) for `L ∈ [0, 105]`:
one of the two branch formulas within `2e-14`, the branch consistent with `L` up to `1e-11` -/
theorem revY_at {L : ℝ} (h0 : 0 ≤ L) (h1 : L ≤ 105) : YRevAt L (FpLuv.revY M L) (2 / 10 ^ 14) := by
  obtain ⟨k1, k2⟩ := abs_le.mp (FpLuv.thr2_close' M)
  have n16 : Near (16 : ℝ) 16 0 16 := Near.exact (by norm_num) (by norm_num)
  unfold FpLuv.revY
  split_ifs with hc
  · left
    refine ⟨by norm_num at k1 k2 hc ⊢; linarith, ?_⟩
    have nL : Near L L 0 105 := Near.exact (by rw [abs_of_nonneg h0]; exact h1) (by norm_num)
    have nl2 := (nL.add M n16).div_const M (c := 116) (B' := 105 / 100) (by norm_num) (by norm_num) (by norm_num)
    exact (Near.powi3 M nl2).finish rfl (by norm_num [eMul, eRnd, FP.eps])
  · right
    rw [not_lt] at hc
    have hL8 : L ≤ 8 := by norm_num at k1 k2 hc ⊢; linarith
    refine ⟨by norm_num at k1 k2 hc ⊢; linarith, ?_⟩
    have nL : Near L L 0 8 := Near.exact (by rw [abs_of_nonneg h0]; exact hL8) (by norm_num)
    have hq : |L / (9033 / 10)| ≤ 1 := by
      rw [abs_div, abs_of_pos (by norm_num : (0 : ℝ) < 9033 / 10), div_le_iff₀ (by norm_num), abs_of_nonneg h0]
      linarith
    have n := nL.div M (FpLuv.kappa_near M) (m := 903) (by rw [abs_of_pos (by norm_num)]; norm_num)
      (by norm_num [FP.eps]) hq le_rfl
    exact n.finish rfl (by norm_num [FP.eps])

/-! ## CIELAB reverse -/

/-- computed argument of the X channel: `(L + 16)/116 + a/500` -/
noncomputable def cX (L a : ℝ) : ℝ := M.rnd (M.rnd (M.rnd (L + 16) / 116) + M.rnd (a / 500))
/-- computed argument of the Z channel: `(L + 16)/116 − b/200` -/
noncomputable def cZ (L b : ℝ) : ℝ := M.rnd (M.rnd (M.rnd (L + 16) / 116) - M.rnd (b / 200))

/-- **structure of the generated `Xyz::from(Lab)` in `RF M`** (proved by unfolding the generated definition) -/
theorem from_lab_fp (l : Lab (RF M)) :
    (Xyz.from_Lab l).x.val = M.rnd (FpLuv.wX M * revF M (cX M l.l.val l.a.val)) ∧
    (Xyz.from_Lab l).y.val = M.rnd (1 * FpLuv.revY M l.l.val) ∧
    (Xyz.from_Lab l).z.val = M.rnd (FpLuv.wZ M * revF M (cZ M l.l.val l.b.val)) := by
  obtain ⟨w1, w2, w3⟩ := FpLuv.white_val M
  refine ⟨?_, ?_, ?_⟩
  · rw [from_lab_x, FltRF.mul_val, rev_f_val, w1]
    simp only [FltRF.add_val, FltRF.div_val, FpLuv.litv M _ 116 (by norm_num), FpLuv.litv M _ 16 (by norm_num),
      FpLuv.litv M _ 500 (by norm_num), Nat.cast_ofNat, cX]
  · rw [from_lab_y]
    simp only [FltRF.lt_eq, decide_eq_true_eq, FltRF.mul_val, FpLuv.eps_val, FpLuv.kappa_val]
    unfold FpLuv.revY
    rw [mul_comm (M.rnd (9033 / 10)) (M.rnd (1107 / 125000))]
    split_ifs
    all_goals
      simp only [FltRF.mul_val, FltRF.div_val, FltRF.add_val, FltRF.powi_val, w2, FpLuv.kappa_val,
        FpLuv.litv M _ 116 (by norm_num), FpLuv.litv M _ 16 (by norm_num), Nat.cast_ofNat]
  · rw [from_lab_z, FltRF.mul_val, rev_f_val, w3]
    simp only [FltRF.add_val, FltRF.sub_val, FltRF.div_val, FpLuv.litv M _ 116 (by norm_num),
      FpLuv.litv M _ 16 (by norm_num), FpLuv.litv M _ 200 (by norm_num), Nat.cast_ofNat, cZ]

/-- the real model of `Xyz::from(Lab)` in terms of the shapes `revCode`, `yRevCode` of `Lemmas/Cie.lean` -/
theorem from_lab_real (L a b : ℝ) :
    Xyz.from_Lab (⟨L, a, b⟩ : Lab ℝ) =
      ⟨95047 / 100000 * revCode ((L + 16) / 116 + a / 500), 1 * yRevCode L,
       108883 / 100000 * revCode ((L + 16) / 116 - b / 200)⟩ := by
  have hr : ∀ c : ℝ, Lab.reverse_compute_f c = revCode c := by
    intro c; simp [Lab.reverse_compute_f, revCode, C.EPSILON, C.KAPPA]
  have ht : (1107 / 125000 * (9033 / 10) : ℝ) = 79996248 / 10000000 := by norm_num
  simp only [Xyz.from_Lab, hr, C.D65, C.EPSILON, C.KAPPA, FltReal.lit_eq, FltReal.lt_eq, FltReal.powi_eq,
    decide_eq_true_eq, Nat.cast_ofNat, div_one, Nat.cast_one, yRevCode, ht]
  split_ifs <;> rfl

/-- the computed X argument against the real one, `L ∈ [0, 100]`, `|a| ≤ 128` -/
theorem lab_arg_x {L a : ℝ} (hL0 : 0 ≤ L) (hL1 : L ≤ 100) (ha : |a| ≤ 128) :
    |cX M L a - ((L + 16) / 116 + a / 500)| ≤ 1 / 10 ^ 15 ∧
    -(6 / 10) ≤ (L + 16) / 116 + a / 500 ∧ (L + 16) / 116 + a / 500 ≤ 17 / 10 := by
  obtain ⟨a1, a2⟩ := abs_le.mp ha
  have nL : Near L L 0 100 := Near.exact (by rw [abs_of_nonneg hL0]; exact hL1) (by norm_num)
  have n16 : Near (16 : ℝ) 16 0 16 := Near.exact (by norm_num) (by norm_num)
  have na : Near a a 0 128 := Near.exact ha (by norm_num)
  have nl2 := (nL.add M n16).div_const M (c := 116) (B' := 1) (by norm_num) (by norm_num) le_rfl
  have nq := na.div_const M (c := 500) (B' := 1) (by norm_num) (by norm_num) le_rfl
  refine ⟨(nl2.add M nq).finish rfl (by norm_num [FP.eps]), ?_, ?_⟩
  · have : 0 ≤ (L + 16) / 116 := by positivity
    linarith
  · have : (L + 16) / 116 ≤ 1 := by rw [div_le_one (by norm_num)]; linarith
    linarith

theorem lab_arg_z {L b : ℝ} (hL0 : 0 ≤ L) (hL1 : L ≤ 100) (hb : |b| ≤ 128) :
    |cZ M L b - ((L + 16) / 116 - b / 200)| ≤ 1 / 10 ^ 15 ∧
    -(6 / 10) ≤ (L + 16) / 116 - b / 200 ∧ (L + 16) / 116 - b / 200 ≤ 17 / 10 := by
  obtain ⟨a1, a2⟩ := abs_le.mp hb
  have nL : Near L L 0 100 := Near.exact (by rw [abs_of_nonneg hL0]; exact hL1) (by norm_num)
  have n16 : Near (16 : ℝ) 16 0 16 := Near.exact (by norm_num) (by norm_num)
  have nb : Near b b 0 128 := Near.exact hb (by norm_num)
  have nl2 := (nL.add M n16).div_const M (c := 116) (B' := 1) (by norm_num) (by norm_num) le_rfl
  have nq := nb.div_const M (c := 200) (B' := 1) (by norm_num) (by norm_num) le_rfl
  refine ⟨(nl2.sub M nq).finish rfl (by norm_num [FP.eps]), ?_, ?_⟩
  · have : 0 ≤ (L + 16) / 116 := by positivity
    linarith
  · have : (L + 16) / 116 ≤ 1 := by rw [div_le_one (by norm_num)]; linarith
    linarith

/-- scaling by a rounded white-point literal `W ≈ w ∈ (0, 1.09]`: `rnd (W · out)` against `w · v`, `|v| ≤ 5` -/
theorem scale_white {W w out v e : ℝ} (hW : Near W w (FP.eps * 2) (109 / 100)) (ho : |out - v| ≤ e) (hv : |v| ≤ 5)
    (he : e ≤ 1 / 10 ^ 6) : |M.rnd (W * out) - w * v| ≤ 109 / 100 * e + 3 / 10 ^ 15 := by
  have he0 : 0 ≤ e := le_trans (abs_nonneg _) ho
  have no : Near out v e 5 := ⟨ho, hv, by norm_num⟩
  have n := (hW.mul M no).err
  refine n.trans ?_
  norm_num [FP.eps] at he ⊢
  nlinarith

/-- the three white-point factors of `Xyz::from(Lab)` as the code has them (`0.95047`, `1.0`, `1.08883`, each a
rounded literal) -/
theorem white_near : Near (FpLuv.wX M) (95047 / 100000) (FP.eps * 2) (109 / 100) ∧
    Near (FpLuv.wZ M) (108883 / 100000) (FP.eps * 2) (109 / 100) ∧ Near (1 : ℝ) 1 (FP.eps * 2) (109 / 100) :=
  ⟨(FpLuv.wX_near M).mono (by norm_num [FP.eps]) (by norm_num),
    (FpLuv.wZ_near M).remag (by rw [abs_of_pos (by norm_num)]; norm_num) (by norm_num),
    ⟨by simp; norm_num [FP.eps], by simp; norm_num, by norm_num⟩⟩

/-! ## xyY reverse -/

/-- **structure of the generated `Xyz::from(Xyy)` in `RF M`**, chromaticity `y ≠ 0` (the guard `y == 0` is an exact
comparison) -/
theorem from_xyy_fp (p : Xyy (RF M)) (h : p.y.val ≠ 0) :
    (Xyz.from_Xyy p).x.val = M.rnd (M.rnd (p.x.val * p._y.val) / p.y.val) ∧
    (Xyz.from_Xyy p).y.val = p._y.val ∧
    (Xyz.from_Xyy p).z.val = M.rnd (M.rnd (M.rnd (M.rnd (1 - p.x.val) - p.y.val) * p._y.val) / p.y.val) := by
  unfold Xyz.from_Xyy
  simp only [FltRF.beq_eq, FpLuv.litv M _ 0 (by norm_num), Nat.cast_zero, decide_eq_true_eq, if_neg h, FltRF.div_val,
    FltRF.mul_val, FltRF.sub_val, FpLuv.litv M _ 1 (by norm_num), Nat.cast_one, and_self]

theorem from_xyy_real (x y Y : ℝ) (h : y ≠ 0) :
    Xyz.from_Xyy (⟨x, y, Y⟩ : Xyy ℝ) = ⟨x * Y / y, Y, (1 - x - y) * Y / y⟩ := by
  simp only [Xyz.from_Xyy, FltReal.beq_eq, FltReal.lit_eq, decide_eq_true_eq, div_one, Nat.cast_one,
    Nat.cast_zero, if_neg h]

/-- the two quotients of `Xyz::from(Xyy)`: chromaticities `x, y ∈ [0, 1]`, `y ≥ 1e-3`, luminance `Y ∈ [0, 1.1]`
(outputs up to `1100`): within `2e-12` -/
theorem xyy_quot {x y Y : ℝ} (hx0 : 0 ≤ x) (hx1 : x ≤ 1) (hy0 : 1 / 1000 ≤ y) (hy1 : y ≤ 1) (hY0 : 0 ≤ Y)
    (hY1 : Y ≤ 11 / 10) :
    |M.rnd (M.rnd (x * Y) / y) - x * Y / y| ≤ 2 / 10 ^ 12 ∧
    |M.rnd (M.rnd (M.rnd (M.rnd (1 - x) - y) * Y) / y) - (1 - x - y) * Y / y| ≤ 2 / 10 ^ 12 := by
  have hyp : 0 < y := by linarith
  have nx : Near x x 0 1 := Near.exact (by rw [abs_of_nonneg hx0]; exact hx1) le_rfl
  have ny : Near y y 0 1 := Near.exact (by rw [abs_of_pos hyp]; exact hy1) le_rfl
  have nY : Near Y Y 0 (11 / 10) := Near.exact (by rw [abs_of_nonneg hY0]; exact hY1) (by norm_num)
  have n1 : Near (1 : ℝ) 1 0 1 := Near.exact (by norm_num) le_rfl
  have hm : (1 / 1000 : ℝ) ≤ |y| := by rw [abs_of_pos hyp]; exact hy0
  constructor
  · have hq : |x * Y / y| ≤ 1100 := by
      rw [abs_of_nonneg (by positivity), div_le_iff₀ hyp]; nlinarith
    exact ((nx.mul M nY).div M ny (m := 1 / 1000) (Bq := 1100) hm (by norm_num) hq (by norm_num)).finish rfl
      (by norm_num [FP.eps])
  · have hd : |1 - x - y| ≤ 1 := by rw [abs_le]; constructor <;> linarith
    have nd := ((n1.sub M nx).sub M ny).remag hd le_rfl
    have hq : |(1 - x - y) * Y / y| ≤ 1100 := by
      rw [abs_div, abs_mul, abs_of_pos hyp, abs_of_nonneg hY0, div_le_iff₀ hyp]; nlinarith [abs_nonneg (1 - x - y)]
    exact ((nd.mul M nY).div M ny (m := 1 / 1000) (Bq := 1100) hm (by norm_num) hq (by norm_num)).finish rfl
      (by norm_num [FP.eps])

/-! ## Hunter Lab reverse -/

/-- computed `Y·100 = powf(L/100, 2)·100` -/
noncomputable def hY5 (L : ℝ) : ℝ := M.rnd (M.pow (M.rnd (L / 100)) 2 * 100)
/-- computed `Y5/100` -/
noncomputable def hT (L : ℝ) : ℝ := M.rnd (hY5 M L / 100)
/-- computed `√(Y5/100)` -/
noncomputable def hS (L : ℝ) : ℝ := M.rnd (√(hT M L))
noncomputable def hKa : ℝ := M.rnd (M.rnd (175 / M.rnd (4951 / 25)) * M.rnd (100 + M.rnd (95047 / 1000)))
noncomputable def hKb : ℝ := M.rnd (M.rnd (70 / M.rnd (21811 / 100)) * M.rnd (100 + M.rnd (108883 / 1000)))

/-- **structure of the generated `Xyz::from(Hlab)` in `RF M`** -/
theorem from_hlab_fp (p : Hlab (RF M)) :
    (Xyz.from_Hlab p).x.val = M.rnd (M.rnd (M.rnd (M.rnd (M.rnd (p.a.val / hKa M) * hS M p.l.val) + hT M p.l.val)
      * M.rnd (95047 / 1000)) * M.rnd (1 / 100)) ∧
    (Xyz.from_Hlab p).y.val = M.rnd (hY5 M p.l.val * M.rnd (1 / 100)) ∧
    (Xyz.from_Hlab p).z.val = M.rnd (M.rnd (M.rnd (M.rnd (M.rnd (p.b.val / hKb M) * hS M p.l.val) - hT M p.l.val)
      * M.rnd (108883 / 1000)) * M.rnd (1 / 100)) := by
  simp only [Xyz.from_Hlab, Hlab.get_ka_kb, C.XN, C.YN, C.ZN, FltRF.mul_val, FltRF.div_val, FltRF.add_val,
    FltRF.sub_val, FltRF.sqrt_val, FltRF.pow_val, FpLuv.litv M _ 100 (by norm_num), FpLuv.litv M _ 2 (by norm_num),
    FpLuv.litv M _ 175 (by norm_num), FpLuv.litv M _ 70 (by norm_num), FltRF.lit_val, Nat.cast_ofNat, Nat.cast_one,
    hY5, hT, hS, hKa, hKb, and_self]

theorem from_hlab_real (L a b : ℝ) :
    Xyz.from_Hlab (⟨L, a, b⟩ : Hlab ℝ) =
      ⟨(a / (175 / (4951 / 25) * (100 + 95047 / 1000)) * √((L / 100) ^ 2 * 100 / 100) + (L / 100) ^ 2 * 100 / 100)
          * (95047 / 1000) * (1 / 100),
       (L / 100) ^ 2 * 100 * (1 / 100),
       (b / (70 / (21811 / 100) * (100 + 108883 / 1000)) * √((L / 100) ^ 2 * 100 / 100) - (L / 100) ^ 2 * 100 / 100)
          * (108883 / 1000) * (1 / 100)⟩ := by
  simp only [Xyz.from_Hlab, Hlab.get_ka_kb, C.XN, C.YN, C.ZN, FltReal.lit_eq, FltReal.sqrt_eq, FltReal.pow_eq,
    Nat.cast_ofNat, div_one, Nat.cast_one, Real.rpow_two]

/-- `powf(rnd X, 2)` against `X²`, `X ∈ [0, 1.05]`, in relative error -/
theorem hunter_pow {X : ℝ} (X0 : 0 ≤ X) (X1 : X ≤ 105 / 100) :
    |M.pow (M.rnd X) 2 - X ^ 2| ≤ 5e-16 * X ^ 2 + 5 * FP.eta := by
  have hη := FP.eta_pos
  have hη' := FpPolar.eta_lt'
  have hq := FpPolar.rnd_rel M X
  rw [abs_of_nonneg X0] at hq
  have q0 : 0 ≤ M.rnd X := rnd_nonneg M X0
  have hp := M.pow_err (M.rnd X) 2 q0
  rw [Real.rpow_two] at hp
  rw [abs_of_nonneg (sq_nonneg (M.rnd X))] at hp
  generalize M.pow (M.rnd X) 2 = p at hp ⊢
  generalize M.rnd X = q at hq q0 hp
  obtain ⟨q1, q2⟩ := abs_le.mp hq
  have hX2 := sq_nonneg X
  have hqq : |q ^ 2 - X ^ 2| ≤ 2.5e-16 * X ^ 2 + 3 * FP.eta := by
    have e : q ^ 2 - X ^ 2 = (q - X) * (q + X) := by ring
    rw [e, abs_mul, abs_of_nonneg (by positivity : 0 ≤ q + X)]
    have hs : q + X ≤ 2.0000001 * X + FP.eta := by linarith
    calc |q - X| * (q + X) ≤ (1.2e-16 * X + FP.eta) * (2.0000001 * X + FP.eta) :=
          mul_le_mul hq hs (by positivity) (by positivity)
      _ ≤ _ := by nlinarith [mul_nonneg X0 hη.le]
  obtain ⟨qq1, qq2⟩ := abs_le.mp hqq
  have hu := FP.u_lt
  have t := abs_sub_le p (q ^ 2) (X ^ 2)
  have hq2 : q ^ 2 ≤ 1.0000001 * X ^ 2 + 3 * FP.eta := by linarith
  have hq0 := sq_nonneg q
  have : 2 * FP.u * q ^ 2 ≤ 2.4e-16 * (1.0000001 * X ^ 2 + 3 * FP.eta) := by
    have h1 : 2 * FP.u * q ^ 2 ≤ 2.4e-16 * q ^ 2 := by
      apply mul_le_mul_of_nonneg_right _ hq0; linarith
    have h2 : (2.4e-16 : ℝ) * q ^ 2 ≤ 2.4e-16 * (1.0000001 * X ^ 2 + 3 * FP.eta) :=
      mul_le_mul_of_nonneg_left hq2 (by norm_num)
    linarith
  linarith

/-- relative error through `·100`, rounding, `/100`, rounding -/
theorem hunter_T {p Z : ℝ} (Z0 : 0 ≤ Z) (hp : |p - Z| ≤ 5e-16 * Z + 5 * FP.eta) :
    |M.rnd (p * 100) - Z * 100| ≤ 6.3e-16 * (Z * 100) + 1001 * FP.eta ∧
    |M.rnd (M.rnd (p * 100) / 100) - Z * 100 / 100| ≤ 7.6e-16 * (Z * 100 / 100) + 23 * FP.eta := by
  have hη := FP.eta_pos
  have h100 : |p * 100 - Z * 100| ≤ 5e-16 * (Z * 100) + 500 * FP.eta := by
    have e : p * 100 - Z * 100 = (p - Z) * 100 := by ring
    rw [e, abs_mul, abs_of_pos (by norm_num : (0 : ℝ) < 100)]
    linarith
  have hy5 := FpPolar.rnd_rel_close M (by positivity : (0 : ℝ) ≤ Z * 100) (by norm_num) (by positivity) h100
  have hy5' : |M.rnd (p * 100) - Z * 100| ≤ 6.3e-16 * (Z * 100) + 1001 * FP.eta := by
    refine hy5.trans ?_
    norm_num; linarith
  generalize M.rnd (p * 100) = y at hy5' ⊢
  have hd : |y / 100 - Z * 100 / 100| ≤ 6.3e-16 * (Z * 100 / 100) + 11 * FP.eta := by
    have e : y / 100 - Z * 100 / 100 = (y - Z * 100) / 100 := by ring
    rw [e, abs_div, abs_of_pos (by norm_num : (0 : ℝ) < 100), div_le_iff₀ (by norm_num)]
    linarith
  have ht := FpPolar.rnd_rel_close M (by positivity : (0 : ℝ) ≤ Z * 100 / 100) (by norm_num) (by positivity) hd
  refine ⟨hy5', ht.trans ?_⟩
  norm_num; linarith

/-- **the luminance part of `Xyz::from(Hlab)`**, `L ∈ [0, 105]`, in RELATIVE error (the square root that follows is
not Lipschitz at 0, but it halves relative errors): `Y5`, `T = Y5/100`, `S = √T` -/
theorem hunter_lum {L : ℝ} (h0 : 0 ≤ L) (h1 : L ≤ 105) :
    |hY5 M L - (L / 100) ^ 2 * 100| ≤ 2 / 10 ^ 13 ∧ |hT M L - (L / 100) ^ 2 * 100 / 100| ≤ 2 / 10 ^ 15 ∧
    |hS M L - √((L / 100) ^ 2 * 100 / 100)| ≤ 2 / 10 ^ 15 := by
  have hη := FP.eta_pos
  have hη' := FpPolar.eta_lt'
  have X0 : 0 ≤ L / 100 := by positivity
  have X1 : L / 100 ≤ 105 / 100 := by rw [div_le_iff₀ (by norm_num)]; linarith
  have hpw := hunter_pow M X0 X1
  obtain ⟨hy5, ht⟩ := hunter_T M (sq_nonneg (L / 100)) hpw
  have hsq : √((L / 100) ^ 2 * 100 / 100) = L / 100 := by
    rw [show (L / 100) ^ 2 * 100 / 100 = (L / 100) ^ 2 by ring, Real.sqrt_sq X0]
  have X2 : (L / 100) ^ 2 ≤ (105 / 100) ^ 2 := pow_le_pow_left₀ X0 X1 2
  have hZ0 := sq_nonneg (L / 100)
  unfold hS hT hY5
  generalize L / 100 = X at *
  generalize X ^ 2 = Z at *
  have hs := FpPolar.sqrt_rel (by positivity : (0 : ℝ) ≤ Z * 100 / 100) (by norm_num) (by positivity) ht
  have he : √(23 * FP.eta) ≤ 1e-119 := by
    rw [Real.sqrt_le_left (by norm_num)]; norm_num at hη' ⊢; linarith
  have he0 : 0 ≤ √(23 * FP.eta) := Real.sqrt_nonneg _
  generalize √(23 * FP.eta) = w at *
  generalize M.rnd (M.pow (M.rnd X) 2 * 100) = y5 at *
  generalize M.rnd (y5 / 100) = t at *
  have hr := FpPolar.rnd_rel M (√t)
  rw [abs_of_nonneg (Real.sqrt_nonneg _)] at hr
  rw [hsq] at hs ⊢
  obtain ⟨s1, s2⟩ := abs_le.mp hs
  have tt := abs_sub_le (M.rnd (√t)) (√t) X
  refine ⟨?_, ?_, ?_⟩
  · refine hy5.trans ?_; norm_num at X2 hη' ⊢; linarith
  · refine ht.trans ?_; norm_num at X2 hη' ⊢; linarith
  · have hst : √t ≤ 106 / 100 := by norm_num at he X1 s2 ⊢; linarith
    norm_num at hη' he X1 hr hs ⊢
    linarith

/-- the Hunter coefficients as the code computes them -/
theorem hunter_coef :
    Near (hKa M) (175 / (4951 / 25) * (100 + 95047 / 1000)) (1 / 10 ^ 12) 200 ∧
    Near (hKb M) (70 / (21811 / 100) * (100 + 108883 / 1000)) (1 / 10 ^ 12) 200 := by
  have n100 : Near (100 : ℝ) 100 0 100 := Near.exact (by norm_num) (by norm_num)
  have n175 : Near (175 : ℝ) 175 0 175 := Near.exact (by norm_num) (by norm_num)
  have n70 : Near (70 : ℝ) 70 0 70 := Near.exact (by norm_num) (by norm_num)
  have l1 : Near (M.rnd (4951 / 25)) (4951 / 25) (FP.eps * 199) 199 := by
    have := Near.lit M 4951 25 (B := 199) (by norm_num) (by norm_num); push_cast at this; exact this
  have l2 : Near (M.rnd (21811 / 100)) (21811 / 100) (FP.eps * 219) 219 := by
    have := Near.lit M 21811 100 (B := 219) (by norm_num) (by norm_num); push_cast at this; exact this
  have l3 : Near (M.rnd (95047 / 1000)) (95047 / 1000) (FP.eps * 96) 96 := by
    have := Near.lit M 95047 1000 (B := 96) (by norm_num) (by norm_num); push_cast at this; exact this
  have l4 : Near (M.rnd (108883 / 1000)) (108883 / 1000) (FP.eps * 109) 109 := by
    have := Near.lit M 108883 1000 (B := 109) (by norm_num) (by norm_num); push_cast at this; exact this
  have nka := (n175.div M l1 (m := 198) (Bq := 1)
    (by rw [abs_of_pos (by norm_num)]; norm_num) (by norm_num [FP.eps])
    (by rw [abs_of_pos (by norm_num)]; norm_num) le_rfl).mul M (n100.add M l3)
  have nkb := (n70.div M l2 (m := 218) (Bq := 1)
    (by rw [abs_of_pos (by norm_num)]; norm_num) (by norm_num [FP.eps])
    (by rw [abs_of_pos (by norm_num)]; norm_num) le_rfl).mul M (n100.add M l4)
  unfold hKa hKb
  exact ⟨⟨nka.err.trans (by norm_num [FP.eps]), by rw [abs_of_pos (by norm_num)]; norm_num, by norm_num⟩,
    ⟨nkb.err.trans (by norm_num [FP.eps]), by rw [abs_of_pos (by norm_num)]; norm_num, by norm_num⟩⟩

/-- one chromatic channel of `Xyz::from(Hlab)`: `((c/K)·S ± T)·W·0.01` -/
theorem hunter_chan {c K k S s T t W w : ℝ} (hc : |c| ≤ 200) (hK : Near K k (1 / 10 ^ 12) 200) (hk : 67 ≤ k)
    (hS : Near S s (2 / 10 ^ 15) 2) (hT : Near T t (2 / 10 ^ 15) 2) (hW : Near W w (FP.eps * 109) 109) :
    |M.rnd (M.rnd (M.rnd (M.rnd (M.rnd (c / K) * S) + T) * W) * M.rnd (1 / 100)) - (c / k * s + t) * w * (1 / 100)|
      ≤ 1 / 10 ^ 12 ∧
    |M.rnd (M.rnd (M.rnd (M.rnd (M.rnd (c / K) * S) - T) * W) * M.rnd (1 / 100)) - (c / k * s - t) * w * (1 / 100)|
      ≤ 1 / 10 ^ 12 := by
  have nc : Near c c 0 200 := Near.exact hc (by norm_num)
  have hkp : 0 < k := by linarith
  have hq : |c / k| ≤ 3 := by
    rw [abs_div, abs_of_pos hkp, div_le_iff₀ hkp]; linarith
  have nq := nc.div M hK (m := 67) (Bq := 3) (by rw [abs_of_pos hkp]; exact hk) (by norm_num) hq (by norm_num)
  have l01 : |M.rnd (1 / 100) - 1 / 100| ≤ FP.eps * (1 / 100) := by
    have := lit_close M 1 100 (B := 1 / 100) (by norm_num) (by norm_num); push_cast at this; exact this
  have h01 : |(1 / 100 : ℝ)| ≤ 1 / 100 := by rw [abs_of_pos (by norm_num)]
  have na := ((nq.mul M hS).add M hT).mul M hW
  have ns := ((nq.mul M hS).sub M hT).mul M hW
  exact ⟨(mul_close M na.err l01 na.mag h01 (by norm_num)).trans (by norm_num [FP.eps]),
    (mul_close M ns.err l01 ns.mag h01 (by norm_num)).trans (by norm_num [FP.eps])⟩

/-! ## CIELUV reverse -/

open Props.C06 in
/-- the real model of `Xyz::from(Luv)` for `L ≠ 0`, in terms of `yRevCode` and the recovered chromaticities
`u/(13L) + u'n`, `v/(13L) + v'n` -/
theorem from_luv_real (L u v : ℝ) (hL : L ≠ 0) :
    Xyz.from_Luv (⟨L, u, v⟩ : Luv ℝ) =
      ⟨yRevCode L * (9 * (u / (13 * L) + uPrime Xn Yn Zn)) / (4 * (v / (13 * L) + vPrime Xn Yn Zn)),
       yRevCode L,
       yRevCode L * (12 - 3 * (u / (13 * L) + uPrime Xn Yn Zn) - 20 * (v / (13 * L) + vPrime Xn Yn Zn)) /
         (4 * (v / (13 * L) + vPrime Xn Yn Zn))⟩ := by
  have ht : (9033 / 10 * (1107 / 125000) : ℝ) = 79996248 / 10000000 := by norm_num
  simp only [Xyz.from_Luv, luv_compounds_white, C.EPSILON, C.KAPPA, FltReal.lit_eq, FltReal.lt_eq, FltReal.beq_eq,
    FltReal.powi_eq, decide_eq_true_eq, Nat.cast_ofNat, div_one, Nat.cast_one, Nat.cast_zero, if_neg hL, ite_self, ht]
  unfold yRevCode
  split_ifs <;> rfl

/-- **a recovered chromaticity** `u/(13·L) + u'n` in `RF M`: the quotient by the computed `13·L` is taken in RELATIVE
error, so the bound does not depend on how small `L` is (`L ≥ 1e-3` only keeps the underflow term away); needs the
real value `|u/(13L) + u'n| ≤ 1` -/
theorem upR_close {L U un unr : ℝ} (hL0 : 1 / 1000 ≤ L) (hun : |un - unr| ≤ 1 / 10 ^ 15)
    (hunr : |unr| ≤ 1) (hup : |U / (13 * L) + unr| ≤ 1) :
    |FpLuv.upR M U (M.rnd (13 * L)) un - (U / (13 * L) + unr)| ≤ 3 / 10 ^ 15 := by
  have hy : (0 : ℝ) < 13 * L := by linarith
  have rK := rnd_abs M (x := 13 * L) (B := 13 * L) (by rw [abs_of_pos hy]) (by linarith)
  have hq : |U / (13 * L)| ≤ 2 := by
    have := abs_sub_abs_le_abs_sub (U / (13 * L) + unr) unr
    have e : U / (13 * L) + unr - unr = U / (13 * L) := by ring
    rw [e] at this
    have := abs_sub (U / (13 * L) + unr) unr
    rw [e] at this; linarith
  have hU : |U| ≤ 2 * (13 * L) := by
    rwa [abs_div, abs_of_pos hy, div_le_iff₀ hy] at hq
  have d := div_rel_exact (a := U) (b := M.rnd (13 * L)) (x := U) (y := 13 * L) (ka := 0) (kb := FP.eps) (kx := 2)
    hy (by simp) rK hU (by norm_num [FP.eps])
  have r := rnd_close M d hq (by norm_num)
  have a := add_close M r hun hup (by norm_num)
  unfold FpLuv.upR
  exact a.trans (by norm_num [FP.eps])

/-- **assembly of `Xyz::from(Luv)`** for a recovered luminance within `ey` of `yr ∈ [0, 1.2]` and recovered
chromaticities within `3e-15` of `upr ∈ [-1, 1]`, `vpr ∈ [0.1, 1]`: the error of the luminance is amplified by
`9·|u'|/(4·v') ≤ 22.5` resp. `|12 − 3u' − 20v'|/(4·v') ≤ 32.5` -/
theorem luv_assemble {y yr up upr vp vpr ey : ℝ} (hy : |y - yr| ≤ ey) (hyr0 : 0 ≤ yr)
    (hyr : yr ≤ 12 / 10) (hup : |up - upr| ≤ 3 / 10 ^ 15) (hupr : |upr| ≤ 1) (hvp : |vp - vpr| ≤ 3 / 10 ^ 15)
    (hv0 : 1 / 10 ≤ vpr) (hv1 : vpr ≤ 1) :
    |FpLuv.xR M y up vp - yr * (9 * upr) / (4 * vpr)| ≤ 23 * ey + 1 / 10 ^ 12 ∧
    |FpLuv.zR M y up vp - yr * (12 - 3 * upr - 20 * vpr) / (4 * vpr)| ≤ 33 * ey + 3 / 10 ^ 12 := by
  have hey0 : 0 ≤ ey := le_trans (abs_nonneg _) hy
  obtain ⟨u1, u2⟩ := abs_le.mp hupr
  have nup : Near up upr (3 / 10 ^ 15) 1 := ⟨hup, hupr, le_rfl⟩
  have nvp : Near vp vpr (3 / 10 ^ 15) 1 := ⟨hvp, by rw [abs_of_nonneg (by linarith)]; exact hv1, le_rfl⟩
  have ny : Near y yr ey (12 / 10) := ⟨hy, by rw [abs_of_nonneg hyr0]; exact hyr, by norm_num⟩
  have n9 : Near (9 : ℝ) 9 0 9 := Near.exact (by norm_num) (by norm_num)
  have n4 : Near (4 : ℝ) 4 0 4 := Near.exact (by norm_num) (by norm_num)
  have n3 : Near (3 : ℝ) 3 0 3 := Near.exact (by norm_num) (by norm_num)
  have n12 : Near (12 : ℝ) 12 0 12 := Near.exact (by norm_num) (by norm_num)
  have n20 : Near (20 : ℝ) 20 0 20 := Near.exact (by norm_num) (by norm_num)
  have hm : (4 / 10 : ℝ) ≤ |4 * vpr| := by rw [abs_of_nonneg (by linarith)]; linarith
  have hs : |12 - 3 * upr - 20 * vpr| ≤ 13 := by rw [abs_le]; constructor <;> linarith
  have n12s := ((n12.sub M (n3.mul M nup)).sub M (n20.mul M nvp)).remag hs (by norm_num)
  have hvp0 : (0 : ℝ) < 4 * vpr := by linarith
  have hqx : |yr * (9 * upr) / (4 * vpr)| ≤ 27 := by
    rw [abs_div, abs_of_pos hvp0, div_le_iff₀ hvp0, abs_mul, abs_of_nonneg hyr0, abs_mul,
      abs_of_pos (by norm_num : (0 : ℝ) < 9)]
    nlinarith [abs_nonneg upr]
  have hqz : |yr * (12 - 3 * upr - 20 * vpr) / (4 * vpr)| ≤ 39 := by
    rw [abs_div, abs_of_pos hvp0, div_le_iff₀ hvp0, abs_mul, abs_of_nonneg hyr0]
    nlinarith [abs_nonneg (12 - 3 * upr - 20 * vpr)]
  unfold FpLuv.xR FpLuv.zR
  constructor
  · have n := (ny.mul M (n9.mul M nup)).div M (n4.mul M nvp) (m := 4 / 10) (Bq := 27) hm (by norm_num [FP.eps])
      hqx (by norm_num)
    refine n.err.trans ?_
    norm_num [FP.eps]
    linarith
  · have n := (ny.mul M n12s).div M (n4.mul M nvp) (m := 4 / 10) (Bq := 39) hm (by norm_num [FP.eps])
      hqz (by norm_num)
    refine n.err.trans ?_
    norm_num [FP.eps]
    linarith

open Props.C06 in
/-- the exact-real bound of `Props.C06.luv_reverse` with its actual size (`4.7e-6`; that theorem states `1e-5`) -/
theorem luv_reverse_real_tight (X Y Z : ℝ) (hx : 0 ≤ X) (hx1 : X ≤ 1.1) (hy : 0 < Y) (hz : 0 ≤ Z) (hz1 : Z ≤ 1.1) :
    |(Xyz.from_Luv (cieluv X Y Z)).x - X| ≤ 47 / 10 ^ 7 ∧ |(Xyz.from_Luv (cieluv X Y Z)).y - Y| ≤ 4 / 10 ^ 8 ∧
    |(Xyz.from_Luv (cieluv X Y Z)).z - Z| ≤ 47 / 10 ^ 7 := by
  rw [luv_reverse_exact X Y Z hx hy hz]
  simp only [lstar_eq, cieF_eq_fSpec, Yn, div_one]
  obtain ⟨h1, h2⟩ := yRev_close hy.le
  set y := yRevCode (116 * fSpec Y - 16) with hydef
  have kx : X * (y / Y) - X = X * ((y - Y) / Y) := by field_simp
  have kz : Z * (y / Y) - Z = Z * ((y - Y) / Y) := by field_simp
  have hq : |(y - Y) / Y| ≤ 42 / 10 ^ 7 := by
    rw [abs_div, abs_of_pos hy, div_le_iff₀ hy]; exact h2
  refine ⟨?_, h1, ?_⟩
  · rw [kx, abs_mul, abs_of_nonneg hx]; nlinarith [abs_nonneg ((y - Y) / Y)]
  · rw [kz, abs_mul, abs_of_nonneg hz]; nlinarith [abs_nonneg ((y - Y) / Y)]

end fp
end FpRev
