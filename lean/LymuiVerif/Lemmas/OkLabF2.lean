import LymuiVerif.Lemmas.LightnessF2
import LymuiVerif.Props.C08
/-!
# Lemmas on the OkLab lightness (used by C12_lightness, C13_derived, C11_derived)

`OkLab.from_Srgb s` has lightness `okL (p22 s.r) (p22 s.g) (p22 s.b)` with `p22 x = max(x,0)^2.2` and
`okL R G B = k₁·∛l + k₂·∛m − k₃·∛s`, `(l, m, s) = M1·(R, G, B)` (generated constants `C.OKSR…`, `C.OKL`).

* `okcore`: pure real analysis — the negative `∛s` term is dominated by the `∛m` term as soon as
  `m ≤ 2.5 s` and `Δs ≤ 10 Δm` (then `Δ∛s ≤ 18.5 Δ∛m`, and `18.5·k₃ < k₂`);
* `okL_mono`: `okL` is non-decreasing in each linear component (on the nonnegative octant);
* `okL_strict_*`: it strictly increases when one component rises and the others move by at most 1/25
  of that rise;
* the concrete residues of `Srgb.from_Xyz (Xyz.from_rgb c D65)` for one 8-bit step.
-/
namespace Lemmas.OkLabF2
open Gen Lemmas.CurvesD2

/-! ## cube roots -/

theorem cbrt_nonneg {x : ℝ} (hx : 0 ≤ x) : 0 ≤ Real.cbrt x := by
  rw [cbrt_of_nonneg hx]; exact Real.rpow_nonneg hx _

theorem cbrt_mono {x y : ℝ} (hx : 0 ≤ x) (hxy : x ≤ y) : Real.cbrt x ≤ Real.cbrt y := by
  rw [cbrt_of_nonneg hx, cbrt_of_nonneg (hx.trans hxy)]
  exact Real.rpow_le_rpow hx hxy (by norm_num)

theorem cbrt_strictMono {x y : ℝ} (hx : 0 ≤ x) (hxy : x < y) : Real.cbrt x < Real.cbrt y := by
  rw [cbrt_of_nonneg hx, cbrt_of_nonneg (hx.trans hxy.le)]
  exact Real.rpow_lt_rpow hx hxy (by norm_num)

/-- if `p³ ≤ 2.5 q³` (nonnegative) then `p ≤ 1.36 q` -/
theorem le_of_cube_le {p q : ℝ} (_hp : 0 ≤ p) (hq : 0 ≤ q) (h : p ^ 3 ≤ 5 / 2 * q ^ 3) :
    p ≤ 34 / 25 * q := by
  by_contra hlt
  push Not at hlt
  have h1 : (34 / 25 * q) ^ 3 < p ^ 3 := pow_lt_pow_left₀ hlt (by positivity) (by norm_num)
  have h2 : (34 / 25 * q) ^ 3 = (34 / 25) ^ 3 * q ^ 3 := by ring
  have h3 : 0 ≤ q ^ 3 := by positivity
  nlinarith

/-- **core inequality**: with weights `k₁ ≥ 0`, `0 ≤ 18.5·k₃ < k₂`, nonnegative `l ≤ l'`, `m ≤ m'`,
`m ≤ 2.5 s`, `m' ≤ 2.5 s'` and `s' − s ≤ 10 (m' − m)`:
`k₁∛l + k₂∛m − k₃∛s ≤ k₁∛l' + k₂∛m' − k₃∛s'`, strictly if `m < m'`. -/
theorem okcore {k1 k2 k3 l m s l' m' s' : ℝ} (hk1 : 0 ≤ k1) (hk3 : 0 ≤ k3) (hk : 37 / 2 * k3 < k2)
    (hl : 0 ≤ l) (hm : 0 ≤ m) (hs : 0 ≤ s) (hs' : 0 ≤ s') (hll : l ≤ l') (hmm : m ≤ m')
    (hms : m ≤ 5 / 2 * s) (hms' : m' ≤ 5 / 2 * s') (hd : s' - s ≤ 10 * (m' - m)) :
    k1 * Real.cbrt l + k2 * Real.cbrt m - k3 * Real.cbrt s
        ≤ k1 * Real.cbrt l' + k2 * Real.cbrt m' - k3 * Real.cbrt s' ∧
    (m < m' → k1 * Real.cbrt l + k2 * Real.cbrt m - k3 * Real.cbrt s
        < k1 * Real.cbrt l' + k2 * Real.cbrt m' - k3 * Real.cbrt s') := by
  have hm' : 0 ≤ m' := hm.trans hmm
  have hk2 : 0 < k2 := by linarith
  set p := Real.cbrt m with hp
  set p' := Real.cbrt m' with hp'
  set q := Real.cbrt s with hq
  set q' := Real.cbrt s' with hq'
  have p0 : 0 ≤ p := cbrt_nonneg hm
  have p0' : 0 ≤ p' := cbrt_nonneg hm'
  have q0 : 0 ≤ q := cbrt_nonneg hs
  have q0' : 0 ≤ q' := cbrt_nonneg hs'
  have p3 : p ^ 3 = m := cube_cbrt m
  have p3' : p' ^ 3 = m' := cube_cbrt m'
  have q3 : q ^ 3 = s := cube_cbrt s
  have q3' : q' ^ 3 = s' := cube_cbrt s'
  have hpp : p ≤ p' := cbrt_mono hm hmm
  have hL : k1 * Real.cbrt l ≤ k1 * Real.cbrt l' := mul_le_mul_of_nonneg_left (cbrt_mono hl hll) hk1
  -- the key comparison of the two cube-root increments
  have key : k3 * (q' - q) ≤ k2 * (p' - p) ∧ (m < m' → k3 * (q' - q) < k2 * (p' - p)) := by
    rcases le_or_gt q' q with hqq | hqq
    · constructor
      · have : k3 * (q' - q) ≤ 0 := mul_nonpos_of_nonneg_of_nonpos hk3 (by linarith)
        have : 0 ≤ k2 * (p' - p) := mul_nonneg hk2.le (by linarith)
        linarith
      · intro hlt
        have : p < p' := cbrt_strictMono hm hlt
        have : k3 * (q' - q) ≤ 0 := mul_nonpos_of_nonneg_of_nonpos hk3 (by linarith)
        have : 0 < k2 * (p' - p) := mul_pos hk2 (by linarith)
        linarith
    · have hpq : p ≤ 34 / 25 * q := le_of_cube_le p0 q0 (by rw [p3, q3]; exact hms)
      have hpq' : p' ≤ 34 / 25 * q' := le_of_cube_le p0' q0' (by rw [p3', q3']; exact hms')
      set Qs := q' ^ 2 + q' * q + q ^ 2 with hQs
      set Qm := p' ^ 2 + p' * p + p ^ 2 with hQm
      have hQs0 : 0 < Qs := by rw [hQs]; nlinarith
      have e1 : (q' - q) * Qs = s' - s := by rw [hQs, ← q3, ← q3']; ring
      have e2 : (p' - p) * Qm = m' - m := by rw [hQm, ← p3, ← p3']; ring
      have hQ : Qm ≤ (34 / 25) ^ 2 * Qs := by
        rw [hQs, hQm]
        have a1 : p' ^ 2 ≤ (34 / 25 * q') ^ 2 := pow_le_pow_left₀ p0' hpq' 2
        have a2 : p ^ 2 ≤ (34 / 25 * q) ^ 2 := pow_le_pow_left₀ p0 hpq 2
        have a3 : p' * p ≤ (34 / 25 * q') * (34 / 25 * q) := mul_le_mul hpq' hpq p0 (by positivity)
        nlinarith
      have hstep : (q' - q) * Qs ≤ 10 * (34 / 25) ^ 2 * (p' - p) * Qs := by
        rw [e1]
        calc s' - s ≤ 10 * (m' - m) := hd
          _ = 10 * ((p' - p) * Qm) := by rw [e2]
          _ ≤ 10 * ((p' - p) * ((34 / 25) ^ 2 * Qs)) := by
              apply mul_le_mul_of_nonneg_left _ (by norm_num)
              exact mul_le_mul_of_nonneg_left hQ (by linarith)
          _ = 10 * (34 / 25) ^ 2 * (p' - p) * Qs := by ring
      have hdq : q' - q ≤ 10 * (34 / 25) ^ 2 * (p' - p) := le_of_mul_le_mul_right hstep hQs0
      have hpos : 0 < p' - p := by
        by_contra hn
        push Not at hn
        have : 10 * (34 / 25) ^ 2 * (p' - p) ≤ 0 := mul_nonpos_of_nonneg_of_nonpos (by norm_num) hn
        linarith
      have hfin : k3 * (q' - q) < k2 * (p' - p) := by
        have h1 : k3 * (q' - q) ≤ k3 * (10 * (34 / 25) ^ 2 * (p' - p)) :=
          mul_le_mul_of_nonneg_left hdq hk3
        have h2 : k3 * (10 * (34 / 25) ^ 2 * (p' - p)) ≤ 37 / 2 * k3 * (p' - p) := by
          have : k3 * (10 * (34 / 25) ^ 2 * (p' - p)) = (10 * (34 / 25) ^ 2) * (k3 * (p' - p)) := by ring
          rw [this]
          have : 37 / 2 * k3 * (p' - p) = 37 / 2 * (k3 * (p' - p)) := by ring
          rw [this]
          exact mul_le_mul_of_nonneg_right (by norm_num) (mul_nonneg hk3 hpos.le)
        have h3 : 37 / 2 * k3 * (p' - p) < k2 * (p' - p) := mul_lt_mul_of_pos_right hk hpos
        linarith
      exact ⟨hfin.le, fun _ => hfin⟩
  constructor
  · linarith [key.1]
  · intro hlt
    linarith [key.2 hlt]

/-! ## the OkLab lightness in closed form (generated constants) -/

/-- the linearisation of `Srgb.as_linear`: `max(x, 0)^2.2` -/
noncomputable def p22 (x : ℝ) : ℝ := (max x 0) ^ ((11 : ℝ) / 5)

theorem p22_nonneg (x : ℝ) : 0 ≤ p22 x := Real.rpow_nonneg (le_max_right _ _) _

/-- first stage: rows of M1 -/
noncomputable def lmsL (R G B : ℝ) : ℝ :=
  (C.OKSR : ℝ × ℝ × ℝ).1 * R + (C.OKSR : ℝ × ℝ × ℝ).2.1 * G + (C.OKSR : ℝ × ℝ × ℝ).2.2 * B
noncomputable def lmsM (R G B : ℝ) : ℝ :=
  (C.OKSG : ℝ × ℝ × ℝ).1 * R + (C.OKSG : ℝ × ℝ × ℝ).2.1 * G + (C.OKSG : ℝ × ℝ × ℝ).2.2 * B
noncomputable def lmsS (R G B : ℝ) : ℝ :=
  (C.OKSB : ℝ × ℝ × ℝ).1 * R + (C.OKSB : ℝ × ℝ × ℝ).2.1 * G + (C.OKSB : ℝ × ℝ × ℝ).2.2 * B

/-- OkLab lightness of linear components -/
noncomputable def okL (R G B : ℝ) : ℝ :=
  (C.OKL : ℝ × ℝ × ℝ).1 * Real.cbrt (lmsL R G B) + (C.OKL : ℝ × ℝ × ℝ).2.1 * Real.cbrt (lmsM R G B)
    - (C.OKL : ℝ × ℝ × ℝ).2.2 * Real.cbrt (lmsS R G B)

theorem oklab_l_eq (s : Srgb ℝ) : (OkLab.from_Srgb s).l = okL (p22 s.r) (p22 s.g) (p22 s.b) := by
  simp only [OkLab.from_Srgb, Srgb.as_linear, okL, lmsL, lmsM, lmsS, p22, FltReal.lit_eq, FltReal.max_eq,
    FltReal.pow_eq, FltReal.cbrt_eq]
  norm_num

/-- unfolding set for the OkLab literals -/
macro "unfold_ok" : tactic =>
  `(tactic| simp only [lmsL, lmsM, lmsS, C.OKSR, C.OKSG, C.OKSB, C.OKL, C.OKA, C.OKB, FltReal.lit_eq])

/-- **`okL` is non-decreasing in each linear component** (nonnegative octant) -/
theorem okL_mono {R G B R' G' B' : ℝ} (hR : 0 ≤ R) (hG : 0 ≤ G) (hB : 0 ≤ B)
    (hRR : R ≤ R') (hGG : G ≤ G') (hBB : B ≤ B') : okL R G B ≤ okL R' G' B' := by
  unfold okL
  refine (okcore (k1 := (C.OKL : ℝ × ℝ × ℝ).1) (k2 := (C.OKL : ℝ × ℝ × ℝ).2.1) (k3 := (C.OKL : ℝ × ℝ × ℝ).2.2)
    ?_ ?_ ?_ ?_ ?_ ?_ ?_ ?_ ?_ ?_ ?_ ?_).1
  all_goals unfold_ok
  all_goals norm_num
  all_goals first | positivity | linarith

/-- strict increase when `R` rises and `G`, `B` move by at most 1/25 of that rise -/
theorem okL_strict_r {R G B R' G' B' : ℝ} (hR : 0 ≤ R) (hG : 0 ≤ G) (hB : 0 ≤ B) (hG' : 0 ≤ G')
    (hB' : 0 ≤ B') (hRR : R < R') (hGG : |G' - G| ≤ (R' - R) / 25) (hBB : |B' - B| ≤ (R' - R) / 25) :
    okL R G B < okL R' G' B' := by
  obtain ⟨g1, g2⟩ := abs_le.mp hGG
  obtain ⟨b1, b2⟩ := abs_le.mp hBB
  unfold okL
  refine (okcore (k1 := (C.OKL : ℝ × ℝ × ℝ).1) (k2 := (C.OKL : ℝ × ℝ × ℝ).2.1) (k3 := (C.OKL : ℝ × ℝ × ℝ).2.2)
    ?_ ?_ ?_ ?_ ?_ ?_ ?_ ?_ ?_ ?_ ?_ ?_).2 ?_
  all_goals unfold_ok
  all_goals norm_num
  all_goals first | positivity | linarith

theorem okL_strict_g {R G B R' G' B' : ℝ} (hR : 0 ≤ R) (hG : 0 ≤ G) (hB : 0 ≤ B) (hR' : 0 ≤ R')
    (hB' : 0 ≤ B') (hGG : G < G') (hRR : |R' - R| ≤ (G' - G) / 25) (hBB : |B' - B| ≤ (G' - G) / 25) :
    okL R G B < okL R' G' B' := by
  obtain ⟨r1, r2⟩ := abs_le.mp hRR
  obtain ⟨b1, b2⟩ := abs_le.mp hBB
  unfold okL
  refine (okcore (k1 := (C.OKL : ℝ × ℝ × ℝ).1) (k2 := (C.OKL : ℝ × ℝ × ℝ).2.1) (k3 := (C.OKL : ℝ × ℝ × ℝ).2.2)
    ?_ ?_ ?_ ?_ ?_ ?_ ?_ ?_ ?_ ?_ ?_ ?_).2 ?_
  all_goals unfold_ok
  all_goals norm_num
  all_goals first | positivity | linarith

theorem okL_strict_b {R G B R' G' B' : ℝ} (hR : 0 ≤ R) (hG : 0 ≤ G) (hB : 0 ≤ B) (hR' : 0 ≤ R')
    (hG' : 0 ≤ G') (hBB : B < B') (hRR : |R' - R| ≤ (B' - B) / 25) (hGG : |G' - G| ≤ (B' - B) / 25) :
    okL R G B < okL R' G' B' := by
  obtain ⟨r1, r2⟩ := abs_le.mp hRR
  obtain ⟨g1, g2⟩ := abs_le.mp hGG
  unfold okL
  refine (okcore (k1 := (C.OKL : ℝ × ℝ × ℝ).1) (k2 := (C.OKL : ℝ × ℝ × ℝ).2.1) (k3 := (C.OKL : ℝ × ℝ × ℝ).2.2)
    ?_ ?_ ?_ ?_ ?_ ?_ ?_ ?_ ?_ ?_ ?_ ?_).2 ?_
  all_goals unfold_ok
  all_goals norm_num
  all_goals first | positivity | linarith

/-! ## the OkLab `a`, `b` coordinates in closed form -/

noncomputable def okA (R G B : ℝ) : ℝ :=
  (C.OKA : ℝ × ℝ × ℝ).1 * Real.cbrt (lmsL R G B) - (C.OKA : ℝ × ℝ × ℝ).2.1 * Real.cbrt (lmsM R G B)
    + (C.OKA : ℝ × ℝ × ℝ).2.2 * Real.cbrt (lmsS R G B)
noncomputable def okB (R G B : ℝ) : ℝ :=
  (C.OKB : ℝ × ℝ × ℝ).1 * Real.cbrt (lmsL R G B) + (C.OKB : ℝ × ℝ × ℝ).2.1 * Real.cbrt (lmsM R G B)
    - (C.OKB : ℝ × ℝ × ℝ).2.2 * Real.cbrt (lmsS R G B)

theorem oklab_ab_eq (s : Srgb ℝ) :
    (OkLab.from_Srgb s).a = okA (p22 s.r) (p22 s.g) (p22 s.b) ∧
    (OkLab.from_Srgb s).b = okB (p22 s.r) (p22 s.g) (p22 s.b) := by
  simp only [OkLab.from_Srgb, Srgb.as_linear, okA, okB, lmsL, lmsM, lmsS, p22, FltReal.lit_eq, FltReal.max_eq,
    FltReal.pow_eq, FltReal.cbrt_eq]
  norm_num

/-- relative enclosure of a cube root: `lo³·m ≤ x ≤ hi³·m` gives `lo·∛m ≤ ∛x ≤ hi·∛m` -/
theorem cbrt_enclose {x m lo hi : ℝ} (hm : 0 ≤ m) (hlo : 0 ≤ lo) (hhi : 0 ≤ hi) (h1 : lo ^ 3 * m ≤ x)
    (h2 : x ≤ hi ^ 3 * m) : lo * Real.cbrt m ≤ Real.cbrt x ∧ Real.cbrt x ≤ hi * Real.cbrt m := by
  have q3 := cube_cbrt m
  have q0 := cbrt_nonneg hm
  apply cbrt_bounds (mul_nonneg hlo q0) (mul_nonneg hhi q0)
  · rw [mul_pow, q3]; exact h1
  · rw [mul_pow, q3]; exact h2

/-- `p22` is monotone -/
theorem p22_mono {x y : ℝ} (h : x ≤ y) : p22 x ≤ p22 y :=
  Real.rpow_le_rpow (le_max_right _ _) (max_le_max h le_rfl) (by norm_num)

/-- `p22` of a relative perturbation `(1 + 7.2e-7)`: at most `(1 + 1.6e-6)` -/
theorem p22_rel {x y : ℝ} (hx : 0 ≤ x) (h : y ≤ (1 + 72 / 10 ^ 8) * x) :
    p22 y ≤ (1 + 16 / 10 ^ 7) * p22 x := by
  have h1 := p22_mono h
  have e : p22 ((1 + 72 / 10 ^ 8) * x) = (1 + 72 / 10 ^ 8 : ℝ) ^ ((11 : ℝ) / 5) * p22 x := by
    unfold p22
    rw [max_eq_left (by positivity), max_eq_left hx, Real.mul_rpow (by norm_num) hx]
  have c : (1 + 72 / 10 ^ 8 : ℝ) ^ ((11 : ℝ) / 5) ≤ 1 + 16 / 10 ^ 7 := by
    have e' : ((11 : ℝ) / 5) = ((11 : ℕ) : ℝ) / ((5 : ℕ) : ℝ) := by norm_num
    rw [e']
    exact rpow_div_le 11 5 (by norm_num) (by norm_num) (by norm_num) (by norm_num)
  rw [e] at h1
  exact h1.trans (mul_le_mul_of_nonneg_right c (p22_nonneg x))

/-- **OkLab `a`, `b` of nearly equal linear components** `0 ≤ R ≤ B ≤ G ≤ (1 + 1.6e-6)·R ≤ 1.000013`:
`|a| ≤ 4e-7`, `|b| ≤ 3e-7`.  Uses that the `a` row of M2 sums to 0 exactly and the `b` row to 3.73e-8,
and that the rows of M1 sum to 1 within 1e-10. -/
theorem ok_ab_grey {R G B : ℝ} (hR : 0 ≤ R) (hRB : R ≤ B) (hBG : B ≤ G) (hGR : G ≤ (1 + 16 / 10 ^ 7) * R)
    (hR1 : R ≤ 1000011 / 1000000) : |okA R G B| ≤ 4e-7 ∧ |okB R G B| ≤ 3e-7 := by
  have hB : 0 ≤ B := hR.trans hRB
  have hG : 0 ≤ G := hB.trans hBG
  have hm : 0 ≤ lmsM R G B := by unfold_ok; norm_num; positivity
  obtain ⟨l1, l2⟩ := cbrt_enclose (x := lmsL R G B) (m := lmsM R G B) (lo := 1 - 12 / 10 ^ 8)
    (hi := 1 + 11 / 10 ^ 8) hm (by norm_num) (by norm_num)
    (by unfold_ok; norm_num; linarith) (by unfold_ok; norm_num; linarith)
  obtain ⟨s1, s2⟩ := cbrt_enclose (x := lmsS R G B) (m := lmsM R G B) (lo := 1 - 23 / 10 ^ 8)
    (hi := 1 + 22 / 10 ^ 8) hm (by norm_num) (by norm_num)
    (by unfold_ok; norm_num; linarith) (by unfold_ok; norm_num; linarith)
  obtain ⟨m0, m1⟩ := cbrt_bounds (x := lmsM R G B) (a := 0) (b := 100001 / 100000) le_rfl (by norm_num)
    (by simpa using hm) (by unfold_ok; norm_num; linarith)
  unfold okA okB
  simp only [C.OKA, C.OKB, FltReal.lit_eq]
  norm_num
  constructor <;> (rw [abs_le]; constructor <;> linarith)

/-! ## one 8-bit step: residues of `Srgb.from_Xyz (Xyz.from_rgb c D65)` -/
open Props.C08 Lemmas.Rpow

/-- tangent from above (convexity of `x^p`, `p ≥ 1`): `y^p − x^p ≤ p·y^(p−1)·(y − x)` for `0 ≤ x`, `0 < y` -/
theorem rpow_sub_le_tangent {x y p : ℝ} (hx : 0 ≤ x) (hy : 0 < y) (hp : 1 ≤ p) :
    y ^ p - x ^ p ≤ p * (y ^ p / y) * (y - x) := by
  have hs : -1 ≤ x / y - 1 := by
    have : 0 ≤ x / y := div_nonneg hx hy.le
    linarith
  have hB := one_add_mul_self_le_rpow_one_add hs hp
  have e1 : 1 + (x / y - 1) = x / y := by ring
  rw [e1, Real.div_rpow hx hy.le] at hB
  have hyp : 0 < y ^ p := Real.rpow_pos_of_pos hy p
  rw [le_div_iff₀ hyp] at hB
  have : (1 + p * (x / y - 1)) * y ^ p = y ^ p - p * (y ^ p / y) * (y - x) := by field_simp; ring
  linarith

/-- the power branch of the sRGB decode at its start: `A(0.04045)^2.4 ≤ 0.0031309` -/
theorem srgb_pow_start_le : (((0.04045 : ℝ) + 0.055) / 1.055) ^ (2.4 : ℝ) ≤ 0.0031309 := by
  have e : (2.4 : ℝ) = ((12 : ℕ) : ℝ) / ((5 : ℕ) : ℝ) := by norm_num
  rw [e]
  exact rpow_div_le 12 5 (by norm_num) (by norm_num) (by norm_num) (by norm_num)

/-- on the power branch, inside `[0, 1]`, the decode increment is at most `2.4/1.055·(b − a)` -/
theorem srgb_pow_step_ub {a b : ℝ} (ha : 0 ≤ a) (hab : a ≤ b) (hb : b ≤ 1) :
    ((b + 0.055) / 1.055) ^ (2.4 : ℝ) - ((a + 0.055) / 1.055) ^ (2.4 : ℝ) ≤ 2.4 / 1.055 * (b - a) := by
  have hA : (0 : ℝ) ≤ (a + 0.055) / 1.055 := by positivity
  have hB : (0 : ℝ) < (b + 0.055) / 1.055 := by have : 0 ≤ b := ha.trans hab; positivity
  have hB1 : (b + 0.055) / 1.055 ≤ 1 := by rw [div_le_one (by norm_num)]; linarith
  have t := rpow_sub_le_tangent (p := 2.4) hA hB (by norm_num)
  have e : (b + 0.055) / 1.055 - (a + 0.055) / 1.055 = (b - a) / 1.055 := by ring
  rw [e] at t
  have hslope : ((b + 0.055) / 1.055) ^ (2.4 : ℝ) / ((b + 0.055) / 1.055) ≤ 1 := by
    rw [← Real.rpow_sub_one hB.ne']
    exact Real.rpow_le_one hB.le hB1 (by norm_num)
  have hba : 0 ≤ (b - a) / 1.055 := div_nonneg (by linarith) (by norm_num)
  have : 2.4 * (((b + 0.055) / 1.055) ^ (2.4 : ℝ) / ((b + 0.055) / 1.055)) * ((b - a) / 1.055)
      ≤ 2.4 * 1 * ((b - a) / 1.055) := by
    apply mul_le_mul_of_nonneg_right _ hba
    exact mul_le_mul_of_nonneg_left hslope (by norm_num)
  have e2 : 2.4 * 1 * ((b - a) / 1.055) = 2.4 / 1.055 * (b - a) := by ring
  linarith

/-- the sRGB decode has slope at most `2.4/1.055 = 2.275` on `[0,1]` (up to its upward jump `≤ 1e-7`) -/
theorem srgb_dec_step_ub {a b : ℝ} (ha : 0 ≤ a) (hab : a ≤ b) (hb : b ≤ 1) :
    decSrgb b - decSrgb a ≤ 2.4 / 1.055 * (b - a) + 1e-7 := by
  unfold decSrgb
  by_cases hb' : b ≤ 0.04045
  · rw [if_pos hb', if_pos (by linarith)]
    have : b / 12.92 - a / 12.92 = (b - a) / 12.92 := by ring
    rw [this, div_eq_mul_inv]
    have : (b - a) * (12.92 : ℝ)⁻¹ ≤ (b - a) * (2.4 / 1.055) :=
      mul_le_mul_of_nonneg_left (by norm_num) (by linarith)
    linarith
  · rw [not_le] at hb'
    rw [if_neg (by linarith)]
    by_cases ha' : a ≤ 0.04045
    · rw [if_pos ha']
      have s1 := srgb_pow_step_ub (a := 0.04045) (b := b) (by norm_num) hb'.le hb
      have s2 := srgb_pow_start_le
      have s3 : (0.04045 - a) / 12.92 ≤ 2.4 / 1.055 * (0.04045 - a) := by
        rw [div_eq_mul_inv, mul_comm (2.4 / 1.055 : ℝ)]
        exact mul_le_mul_of_nonneg_left (by norm_num) (by linarith)
      have e : a / 12.92 = 0.04045 / 12.92 - (0.04045 - a) / 12.92 := by ring
      rw [e]
      norm_num at s1 s2 s3 ⊢
      linarith
    · rw [not_le] at ha'
      rw [if_neg (by linarith)]
      have := srgb_pow_step_ub ha hab hb
      linarith

/-- one 8-bit step raises the decoded value by at most `0.009` -/
theorem dec_level_step_ub (n : ℕ) (hn : n < 255) :
    decSrgb (((n + 1 : ℕ) : ℝ) / 255) - decSrgb ((n : ℝ) / 255) ≤ 0.009 := by
  have hn' : (n : ℝ) + 1 ≤ 255 := by exact_mod_cast hn
  have h := srgb_dec_step_ub (a := (n : ℝ) / 255) (b := ((n + 1 : ℕ) : ℝ) / 255) (by positivity)
    (by push_cast; gcongr; linarith) (by push_cast; rw [div_le_one (by norm_num)]; exact hn')
  have e : ((n + 1 : ℕ) : ℝ) / 255 - (n : ℝ) / 255 = 1 / 255 := by push_cast; ring
  rw [e] at h
  norm_num at h ⊢
  linarith

theorem dec_level_step_pos (n : ℕ) : decSrgb ((n : ℝ) / 255) ≤ decSrgb (((n + 1 : ℕ) : ℝ) / 255) := by
  have := Lemmas.LightnessF2.srgb_dec_level_gap (Nat.lt_succ_self n)
  rw [srgb_decode_is_iec, srgb_decode_is_iec] at this
  linarith

/-- linear components handed to the sRGB encoder: `R65·(M65·(a, b, c))` -/
noncomputable def rho (a b c : ℝ) : ℝ × ℝ × ℝ :=
  (dot C.RX65 (dot C.X65 a b c) (dot C.Y65 a b c) (dot C.Z65 a b c),
   dot C.RY65 (dot C.X65 a b c) (dot C.Y65 a b c) (dot C.Z65 a b c),
   dot C.RZ65 (dot C.X65 a b c) (dot C.Y65 a b c) (dot C.Z65 a b c))

/-- the off-diagonal entries of `R65·M65` are at most `2e-7` in absolute value: changing one linear
component by `Δ ≥ 0` moves the other two outputs by at most `2e-7·Δ` -/
theorem rho_step (a b c a' b' c' : ℝ) :
    (a ≤ a' → |(rho a' b c).2.1 - (rho a b c).2.1| ≤ 2e-7 * (a' - a) ∧
      |(rho a' b c).2.2 - (rho a b c).2.2| ≤ 2e-7 * (a' - a)) ∧
    (b ≤ b' → |(rho a b' c).1 - (rho a b c).1| ≤ 2e-7 * (b' - b) ∧
      |(rho a b' c).2.2 - (rho a b c).2.2| ≤ 2e-7 * (b' - b)) ∧
    (c ≤ c' → |(rho a b c').1 - (rho a b c).1| ≤ 2e-7 * (c' - c) ∧
      |(rho a b c').2.1 - (rho a b c).2.1| ≤ 2e-7 * (c' - c)) := by
  simp only [rho, dot, C.X65, C.Y65, C.Z65, C.RX65, C.RY65, C.RZ65, FltReal.lit_eq]
  norm_num
  refine ⟨fun h => ⟨?_, ?_⟩, fun h => ⟨?_, ?_⟩, fun h => ⟨?_, ?_⟩⟩ <;>
    (rw [abs_le]; constructor <;> linarith)

theorem srgb_of_rgb (c : Rgb) :
    Srgb.from_Xyz (Xyz.from_rgb c XyzKind.D65 : Xyz ℝ) =
      ⟨encSrgb (rho (decSrgb (c.r / 255)) (decSrgb (c.g / 255)) (decSrgb (c.b / 255))).1,
       encSrgb (rho (decSrgb (c.r / 255)) (decSrgb (c.g / 255)) (decSrgb (c.b / 255))).2.1,
       encSrgb (rho (decSrgb (c.r / 255)) (decSrgb (c.g / 255)) (decSrgb (c.b / 255))).2.2⟩ := by
  rw [srgb_from_xyz_def, xyz_from_rgb_d65_def]
  rfl

/-- an encoder argument that moves by at most `2e-7·Δ`, `0 ≤ Δ ≤ 0.009`, moves the encoded value by at most `5.4e-8` -/
theorem enc_perturb {x y Δ : ℝ} (h : |y - x| ≤ 2e-7 * Δ) (hΔ : Δ ≤ 0.009) :
    |encSrgb y - encSrgb x| ≤ 54 / 10 ^ 9 := by
  have := srgb_encode_quasi_lipschitz x y
  norm_num at h hΔ this ⊢
  linarith

/-- `p22` is 2.3-Lipschitz below `1.01` -/
theorem p22_lipschitz {x y : ℝ} (hx : x ≤ 1.01) (hy : y ≤ 1.01) : |p22 y - p22 x| ≤ 2.3 * |y - x| := by
  have main : ∀ u w : ℝ, 0 ≤ u → u ≤ w → w ≤ 1.01 →
      w ^ ((11 : ℝ) / 5) - u ^ ((11 : ℝ) / 5) ≤ 2.3 * (w - u) := by
    intro u w hu huw hw
    rcases huw.eq_or_lt with rfl | hlt
    · simp
    have hw0 : 0 < w := lt_of_le_of_lt hu hlt
    have t := rpow_sub_le_tangent (p := (11 : ℝ) / 5) hu hw0 (by norm_num)
    have hs : w ^ ((11 : ℝ) / 5) / w ≤ 1.02 := by
      rw [← Real.rpow_sub_one hw0.ne']
      have e : ((11 : ℝ) / 5 - 1) = ((6 : ℕ) : ℝ) / ((5 : ℕ) : ℝ) := by norm_num
      calc w ^ ((11 : ℝ) / 5 - 1) ≤ (1.01 : ℝ) ^ ((11 : ℝ) / 5 - 1) :=
            Real.rpow_le_rpow hw0.le hw (by norm_num)
        _ ≤ 1.02 := by
            rw [e]; exact rpow_div_le 6 5 (by norm_num) (by norm_num) (by norm_num) (by norm_num)
    have : (11 : ℝ) / 5 * (w ^ ((11 : ℝ) / 5) / w) * (w - u) ≤ (11 : ℝ) / 5 * 1.02 * (w - u) := by
      apply mul_le_mul_of_nonneg_right _ (by linarith)
      exact mul_le_mul_of_nonneg_left hs (by norm_num)
    have : (11 : ℝ) / 5 * 1.02 * (w - u) ≤ 2.3 * (w - u) :=
      mul_le_mul_of_nonneg_right (by norm_num) (by linarith)
    linarith
  have hm : |max y 0 - max x 0| ≤ |y - x| := abs_max_sub_max_le_abs y x 0
  unfold p22
  rcases le_total (max x 0) (max y 0) with h | h
  · have h1 := main _ _ (le_max_right x 0) h (max_le hy (by norm_num))
    have h0 : 0 ≤ (max y 0) ^ ((11 : ℝ) / 5) - (max x 0) ^ ((11 : ℝ) / 5) :=
      sub_nonneg.mpr (Real.rpow_le_rpow (le_max_right _ _) h (by norm_num))
    rw [abs_of_nonneg h0]
    rw [abs_of_nonneg (sub_nonneg.mpr h)] at hm
    linarith
  · have h1 := main _ _ (le_max_right y 0) h (max_le hx (by norm_num))
    have h0 : (max y 0) ^ ((11 : ℝ) / 5) - (max x 0) ^ ((11 : ℝ) / 5) ≤ 0 :=
      sub_nonpos.mpr (Real.rpow_le_rpow (le_max_right _ _) h (by norm_num))
    rw [abs_of_nonpos h0]
    rw [abs_sub_comm, abs_of_nonneg (sub_nonneg.mpr h)] at hm
    linarith

/-- `p22` gains at least `5e-6` when its argument rises from at most `k/255 + 3.6e-6` to at least
`(k+1)/255 − 3.6e-6` (superadditivity of `x^2.2`; the minimum is the first step away from 0) -/
theorem p22_gain {x y κ : ℝ} (hκ : 0 ≤ κ) (hx : x ≤ κ + 36 / 10 ^ 7) (hy : κ + 1 / 255 - 36 / 10 ^ 7 ≤ y) :
    p22 x + 5 / 10 ^ 6 ≤ p22 y := by
  unfold p22
  have hu : max x 0 ≤ κ + 36 / 10 ^ 7 := max_le hx (by linarith)
  have hw : κ + 1 / 255 - 36 / 10 ^ 7 ≤ max y 0 := le_trans hy (le_max_left _ _)
  have hc : (391 / 100000 : ℝ) ≤ 1 / 255 - 36 / 10 ^ 7 - 36 / 10 ^ 7 := by norm_num
  have hd : (391 / 100000 : ℝ) ≤ max y 0 - max x 0 := by linarith
  have sup := Real.add_rpow_le_rpow_add (p := (11 : ℝ) / 5) (le_max_right x 0)
    (by linarith : (0 : ℝ) ≤ max y 0 - max x 0) (by norm_num)
  rw [add_sub_cancel] at sup
  have c : (5 / 10 ^ 6 : ℝ) ≤ (391 / 100000 : ℝ) ^ ((11 : ℝ) / 5) := by
    have e : ((11 : ℝ) / 5) = ((11 : ℕ) : ℝ) / ((5 : ℕ) : ℝ) := by norm_num
    rw [e]; exact le_rpow_div 11 5 (by norm_num) (by norm_num) (by norm_num) (by norm_num)
  have m : (391 / 100000 : ℝ) ^ ((11 : ℝ) / 5) ≤ (max y 0 - max x 0) ^ ((11 : ℝ) / 5) :=
    Real.rpow_le_rpow (by norm_num) hd (by norm_num)
  linarith

/-! ## one 8-bit step strictly raises the OkLab lightness -/

theorem oklab_l_of_xyz (x : Xyz ℝ) : (OkLab.from_Xyz x).l =
    okL (p22 (Srgb.from_Xyz x).r) (p22 (Srgb.from_Xyz x).g) (p22 (Srgb.from_Xyz x).b) :=
  oklab_l_eq (Srgb.from_Xyz x)

/-- an off channel: its encoder argument moves by at most `2e-7·Δ`, so its linear value moves by at
most `1.25e-7`, which is below 1/25 of the gain `≥ 5e-6` of the raised channel -/
theorem off_channel {x y Δ gain : ℝ} (h : |y - x| ≤ 2e-7 * Δ) (hΔ : Δ ≤ 0.009)
    (hx : encSrgb x ≤ 1.01) (hy : encSrgb y ≤ 1.01) (hgain : 5 / 10 ^ 6 ≤ gain) :
    |p22 (encSrgb y) - p22 (encSrgb x)| ≤ gain / 25 := by
  have h1 := enc_perturb h hΔ
  have h2 := p22_lipschitz hx hy
  have : (2.3 : ℝ) * (54 / 10 ^ 9) ≤ (5 / 10 ^ 6) / 25 := by norm_num
  have h3 : 2.3 * |encSrgb y - encSrgb x| ≤ 2.3 * (54 / 10 ^ 9) :=
    mul_le_mul_of_nonneg_left h1 (by norm_num)
  linarith

theorem level_le_one {n : ℕ} (h : n ≤ 255) : (n : ℝ) / 255 ≤ 1 := by
  have : (n : ℝ) ≤ 255 := by exact_mod_cast h
  rw [div_le_one (by norm_num)]; exact this

theorem okl_raise_r (c : Rgb) (h : c.r < 255) (hg : c.g ≤ 255) (hb : c.b ≤ 255) :
    (OkLab.from_Xyz (Xyz.from_rgb c XyzKind.D65 : Xyz ℝ)).l <
      (OkLab.from_Xyz (Xyz.from_rgb { c with r := c.r + 1 } XyzKind.D65 : Xyz ℝ)).l := by
  obtain ⟨t1, t2, t3⟩ := forward_srgb_tight c h.le hg hb
  obtain ⟨u1, u2, u3⟩ := forward_srgb_tight { c with r := c.r + 1 } h hg hb
  have lg := level_le_one hg
  have lb := level_le_one hb
  rw [abs_le] at t1 t2 t3 u1 u2 u3
  dsimp only at u1 u2 u3
  have ecast : ((c.r + 1 : ℕ) : ℝ) / 255 = (c.r : ℝ) / 255 + 1 / 255 := by push_cast; ring
  rw [ecast] at u1
  have hx : (Srgb.from_Xyz (Xyz.from_rgb c XyzKind.D65 : Xyz ℝ)).r ≤ (c.r : ℝ) / 255 + 36 / 10 ^ 7 := by
    have := t1.2; norm_num at this ⊢; linarith
  have hy : (c.r : ℝ) / 255 + 1 / 255 - 36 / 10 ^ 7
      ≤ (Srgb.from_Xyz (Xyz.from_rgb { c with r := c.r + 1 } XyzKind.D65 : Xyz ℝ)).r := by
    have := u1.1; norm_num at this ⊢; linarith
  have gain := p22_gain (by positivity) hx hy
  have step0 := dec_level_step_pos c.r
  have step1 := dec_level_step_ub c.r h
  obtain ⟨sg, sb⟩ := (rho_step (decSrgb (c.r / 255)) (decSrgb (c.g / 255)) (decSrgb (c.b / 255))
    (decSrgb (((c.r + 1 : ℕ) : ℝ) / 255)) 0 0).1 step0
  rw [oklab_l_of_xyz, oklab_l_of_xyz]
  have e0 := srgb_of_rgb c
  have e1 := srgb_of_rgb { c with r := c.r + 1 }
  dsimp only at e1
  rw [e0] at t2 t3 gain ⊢
  rw [e1] at u2 u3 gain ⊢
  dsimp only at t2 t3 u2 u3 gain ⊢
  refine okL_strict_r (p22_nonneg _) (p22_nonneg _) (p22_nonneg _) (p22_nonneg _) (p22_nonneg _)
    (by linarith) ?_ ?_
  · exact off_channel sg step1 (by norm_num at t2 ⊢; linarith [t2.2]) (by norm_num at u2 ⊢; linarith [u2.2])
      (by linarith)
  · exact off_channel sb step1 (by norm_num at t3 ⊢; linarith [t3.2]) (by norm_num at u3 ⊢; linarith [u3.2])
      (by linarith)

theorem okl_raise_g (c : Rgb) (hr : c.r ≤ 255) (h : c.g < 255) (hb : c.b ≤ 255) :
    (OkLab.from_Xyz (Xyz.from_rgb c XyzKind.D65 : Xyz ℝ)).l <
      (OkLab.from_Xyz (Xyz.from_rgb { c with g := c.g + 1 } XyzKind.D65 : Xyz ℝ)).l := by
  obtain ⟨t1, t2, t3⟩ := forward_srgb_tight c hr h.le hb
  obtain ⟨u1, u2, u3⟩ := forward_srgb_tight { c with g := c.g + 1 } hr h hb
  have lr := level_le_one hr
  have lb := level_le_one hb
  rw [abs_le] at t1 t2 t3 u1 u2 u3
  dsimp only at u1 u2 u3
  have ecast : ((c.g + 1 : ℕ) : ℝ) / 255 = (c.g : ℝ) / 255 + 1 / 255 := by push_cast; ring
  rw [ecast] at u2
  have hx : (Srgb.from_Xyz (Xyz.from_rgb c XyzKind.D65 : Xyz ℝ)).g ≤ (c.g : ℝ) / 255 + 36 / 10 ^ 7 := by
    have := t2.2; norm_num at this ⊢; linarith
  have hy : (c.g : ℝ) / 255 + 1 / 255 - 36 / 10 ^ 7
      ≤ (Srgb.from_Xyz (Xyz.from_rgb { c with g := c.g + 1 } XyzKind.D65 : Xyz ℝ)).g := by
    have := u2.1; norm_num at this ⊢; linarith
  have gain := p22_gain (by positivity) hx hy
  have step0 := dec_level_step_pos c.g
  have step1 := dec_level_step_ub c.g h
  obtain ⟨sr, sb⟩ := (rho_step (decSrgb (c.r / 255)) (decSrgb (c.g / 255)) (decSrgb (c.b / 255))
    0 (decSrgb (((c.g + 1 : ℕ) : ℝ) / 255)) 0).2.1 step0
  rw [oklab_l_of_xyz, oklab_l_of_xyz]
  have e0 := srgb_of_rgb c
  have e1 := srgb_of_rgb { c with g := c.g + 1 }
  dsimp only at e1
  rw [e0] at t1 t3 gain ⊢
  rw [e1] at u1 u3 gain ⊢
  dsimp only at t1 t3 u1 u3 gain ⊢
  refine okL_strict_g (p22_nonneg _) (p22_nonneg _) (p22_nonneg _) (p22_nonneg _) (p22_nonneg _)
    (by linarith) ?_ ?_
  · exact off_channel sr step1 (by norm_num at t1 ⊢; linarith [t1.2]) (by norm_num at u1 ⊢; linarith [u1.2])
      (by linarith)
  · exact off_channel sb step1 (by norm_num at t3 ⊢; linarith [t3.2]) (by norm_num at u3 ⊢; linarith [u3.2])
      (by linarith)

theorem okl_raise_b (c : Rgb) (hr : c.r ≤ 255) (hg : c.g ≤ 255) (h : c.b < 255) :
    (OkLab.from_Xyz (Xyz.from_rgb c XyzKind.D65 : Xyz ℝ)).l <
      (OkLab.from_Xyz (Xyz.from_rgb { c with b := c.b + 1 } XyzKind.D65 : Xyz ℝ)).l := by
  obtain ⟨t1, t2, t3⟩ := forward_srgb_tight c hr hg h.le
  obtain ⟨u1, u2, u3⟩ := forward_srgb_tight { c with b := c.b + 1 } hr hg h
  have lr := level_le_one hr
  have lg := level_le_one hg
  rw [abs_le] at t1 t2 t3 u1 u2 u3
  dsimp only at u1 u2 u3
  have ecast : ((c.b + 1 : ℕ) : ℝ) / 255 = (c.b : ℝ) / 255 + 1 / 255 := by push_cast; ring
  rw [ecast] at u3
  have hx : (Srgb.from_Xyz (Xyz.from_rgb c XyzKind.D65 : Xyz ℝ)).b ≤ (c.b : ℝ) / 255 + 36 / 10 ^ 7 := by
    have := t3.2; norm_num at this ⊢; linarith
  have hy : (c.b : ℝ) / 255 + 1 / 255 - 36 / 10 ^ 7
      ≤ (Srgb.from_Xyz (Xyz.from_rgb { c with b := c.b + 1 } XyzKind.D65 : Xyz ℝ)).b := by
    have := u3.1; norm_num at this ⊢; linarith
  have gain := p22_gain (by positivity) hx hy
  have step0 := dec_level_step_pos c.b
  have step1 := dec_level_step_ub c.b h
  obtain ⟨sr, sg⟩ := (rho_step (decSrgb (c.r / 255)) (decSrgb (c.g / 255)) (decSrgb (c.b / 255))
    0 0 (decSrgb (((c.b + 1 : ℕ) : ℝ) / 255))).2.2 step0
  rw [oklab_l_of_xyz, oklab_l_of_xyz]
  have e0 := srgb_of_rgb c
  have e1 := srgb_of_rgb { c with b := c.b + 1 }
  dsimp only at e1
  rw [e0] at t1 t2 gain ⊢
  rw [e1] at u1 u2 gain ⊢
  dsimp only at t1 t2 u1 u2 gain ⊢
  refine okL_strict_b (p22_nonneg _) (p22_nonneg _) (p22_nonneg _) (p22_nonneg _) (p22_nonneg _)
    (by linarith) ?_ ?_
  · exact off_channel sr step1 (by norm_num at t1 ⊢; linarith [t1.2]) (by norm_num at u1 ⊢; linarith [u1.2])
      (by linarith)
  · exact off_channel sg step1 (by norm_num at t2 ⊢; linarith [t2.2]) (by norm_num at u2 ⊢; linarith [u2.2])
      (by linarith)

end Lemmas.OkLabF2
