import LymuiVerif.Lemmas.CurvesD2
/-!
# Lemmas for the BT.2020 forward clause of C08

* `bt2020_oetf_lipschitz`: the BT.2020 OETF with the 12-bit constants `α = 1.0993`, `β = 0.0181` is
  4.52-Lipschitz on each side of its threshold;
* `bt2020_oetf_jump`: with these rounded constants the OETF is DISCONTINUOUS at `β`: the linear branch ends
  at `4.5·β = 0.08145`, the power branch starts at `1.0993·β^0.45 − 0.0993 = 0.0814472035`, a
  downward jump of `2.7965e-6` (the exact constants `α = 1.09929682…`, `β = 0.018053968…` make it
  continuous);
* generic 3×3 determinant / adjugate inverse.
-/
namespace Lemmas.Rec2020F2
open Lemmas.CurvesD2

/-- slope of the power branch of the BT.2020 OETF at its threshold -/
theorem bt2020_slope : (0.45 : ℝ) * (0.0181 : ℝ) ^ ((0.45 : ℝ) - 1) ≤ 4.11 := by
  have e : (0.45 : ℝ) - 1 = -(((11 : ℕ) : ℝ) / ((20 : ℕ) : ℝ)) := by norm_num
  rw [e, Real.rpow_neg (by norm_num)]
  have lo : (0.1097 : ℝ) ≤ (0.0181 : ℝ) ^ (((11 : ℕ) : ℝ) / ((20 : ℕ) : ℝ)) :=
    le_rpow_div 11 20 (by norm_num) (by norm_num) (by norm_num) (by norm_num)
  have : ((0.0181 : ℝ) ^ (((11 : ℕ) : ℝ) / ((20 : ℕ) : ℝ)))⁻¹ ≤ (0.1097 : ℝ)⁻¹ :=
    inv_anti₀ (by norm_num) lo
  calc (0.45 : ℝ) * ((0.0181 : ℝ) ^ (((11 : ℕ) : ℝ) / ((20 : ℕ) : ℝ)))⁻¹
      ≤ (0.45 : ℝ) * (0.1097 : ℝ)⁻¹ := by gcongr
    _ ≤ 4.11 := by norm_num

/-- the BT.2020 OETF (12-bit constants) is 4.52-Lipschitz on each side of its threshold -/
theorem bt2020_oetf_lipschitz (f : ℝ → ℝ)
    (hf : ∀ L, f L = if L < 0.0181 then 4.5 * L else 1.0993 * L ^ (0.45 : ℝ) - (1.0993 - 1))
    {a b : ℝ} (h : (a < 0.0181 ∧ b < 0.0181) ∨ (0.0181 ≤ a ∧ 0.0181 ≤ b)) :
    |f b - f a| ≤ 4.52 * |b - a| := by
  have main : ∀ a b : ℝ, a ≤ b → ((a < 0.0181 ∧ b < 0.0181) ∨ (0.0181 ≤ a ∧ 0.0181 ≤ b)) →
      |f b - f a| ≤ 4.52 * (b - a) := by
    intro a b hab h
    rw [hf a, hf b]
    rcases h with ⟨ha, hb⟩ | ⟨ha, hb⟩
    · rw [if_pos ha, if_pos hb, abs_le]; constructor <;> linarith
    · rw [if_neg (not_lt.mpr ha), if_neg (not_lt.mpr hb)]
      obtain ⟨h1, h2⟩ := rpow_sub_le (p := 0.45) (by norm_num) (by norm_num)
        (by norm_num : (0:ℝ) < 0.0181) ha hab
      have h3 := mul_le_mul_of_nonneg_right bt2020_slope (by linarith : (0:ℝ) ≤ b - a)
      rw [abs_le]; constructor <;> nlinarith
  rcases le_total a b with hab | hab
  · rw [abs_of_nonneg (sub_nonneg.mpr hab)]; exact main a b hab h
  · rw [abs_sub_comm, abs_sub_comm b a, abs_of_nonneg (sub_nonneg.mpr hab)]
    exact main b a hab (by tauto)

/-- enclosure of the start of the power branch: `0.0181^0.45 ∈ [0.16442027, 0.16442028]` -/
theorem beta_pow : (0.16442027 : ℝ) ≤ (0.0181 : ℝ) ^ (0.45 : ℝ) ∧ (0.0181 : ℝ) ^ (0.45 : ℝ) ≤ 0.16442028 := by
  rw [e045]
  exact ⟨le_rpow_div 9 20 (by norm_num) (by norm_num) (by norm_num) (by norm_num),
    rpow_div_le 9 20 (by norm_num) (by norm_num) (by norm_num) (by norm_num)⟩

/-- across the threshold the OETF is 4.52-Lipschitz up to its jump, which is at most `2.8e-6` -/
theorem bt2020_oetf_quasi_lipschitz (f : ℝ → ℝ)
    (hf : ∀ L, f L = if L < 0.0181 then 4.5 * L else 1.0993 * L ^ (0.45 : ℝ) - (1.0993 - 1))
    (a b : ℝ) : |f b - f a| ≤ 4.52 * |b - a| + 2.8e-6 := by
  have hβ : f 0.0181 = 1.0993 * (0.0181 : ℝ) ^ (0.45 : ℝ) - (1.0993 - 1) := by
    rw [hf, if_neg (by norm_num)]
  obtain ⟨p1, p2⟩ := beta_pow
  have main : ∀ a b : ℝ, a < 0.0181 → 0.0181 ≤ b → |f b - f a| ≤ 4.52 * (b - a) + 2.8e-6 := by
    intro a b ha hb
    have h1 := bt2020_oetf_lipschitz f hf (a := 0.0181) (b := b) (Or.inr ⟨le_rfl, hb⟩)
    rw [abs_of_nonneg (by linarith : (0:ℝ) ≤ b - 0.0181)] at h1
    have h2 : f a = 4.5 * a := by rw [hf, if_pos ha]
    obtain ⟨h1a, h1b⟩ := abs_le.mp h1
    rw [abs_le, h2]
    constructor <;> linarith
  rcases lt_or_ge a 0.0181 with ha | ha <;> rcases lt_or_ge b 0.0181 with hb | hb
  · have := bt2020_oetf_lipschitz f hf (a := a) (b := b) (Or.inl ⟨ha, hb⟩); linarith
  · have := main a b ha hb
    rw [abs_of_nonneg (by linarith : (0:ℝ) ≤ b - a)]; exact this
  · have := main b a hb ha
    rw [abs_sub_comm, abs_sub_comm b a, abs_of_nonneg (by linarith : (0:ℝ) ≤ a - b)]; exact this
  · have := bt2020_oetf_lipschitz f hf (a := a) (b := b) (Or.inr ⟨ha, hb⟩); linarith

/-- the jump is real: more than `2.78e-6` (it is `2.7965e-6`) -/
theorem bt2020_oetf_jump :
    (1.0993 : ℝ) * (0.0181 : ℝ) ^ (0.45 : ℝ) - (1.0993 - 1) + 2.78e-6 < 4.5 * 0.0181 := by
  obtain ⟨_, p2⟩ := beta_pow
  linarith

/-! ## 3×3 matrices as triples of rows -/

abbrev V3 := ℝ × ℝ × ℝ
abbrev M3 := V3 × V3 × V3

def dot3 (a b : V3) : ℝ := a.1 * b.1 + a.2.1 * b.2.1 + a.2.2 * b.2.2
def mulVec3 (m : M3) (v : V3) : V3 := (dot3 m.1 v, dot3 m.2.1 v, dot3 m.2.2 v)
def col3 (m : M3) : Fin 3 → V3
  | 0 => (m.1.1, m.2.1.1, m.2.2.1)
  | 1 => (m.1.2.1, m.2.1.2.1, m.2.2.2.1)
  | 2 => (m.1.2.2, m.2.1.2.2, m.2.2.2.2)
/-- matrix product, rows of `a` against columns of `b` -/
def mulMat3 (a b : M3) : M3 :=
  ((dot3 a.1 (col3 b 0), dot3 a.1 (col3 b 1), dot3 a.1 (col3 b 2)),
   (dot3 a.2.1 (col3 b 0), dot3 a.2.1 (col3 b 1), dot3 a.2.1 (col3 b 2)),
   (dot3 a.2.2 (col3 b 0), dot3 a.2.2 (col3 b 1), dot3 a.2.2 (col3 b 2)))
def one3 : M3 := ((1, 0, 0), (0, 1, 0), (0, 0, 1))
/-- determinant -/
def det3 (m : M3) : ℝ :=
  m.1.1 * (m.2.1.2.1 * m.2.2.2.2 - m.2.1.2.2 * m.2.2.2.1)
  - m.1.2.1 * (m.2.1.1 * m.2.2.2.2 - m.2.1.2.2 * m.2.2.1)
  + m.1.2.2 * (m.2.1.1 * m.2.2.2.1 - m.2.1.2.1 * m.2.2.1)
/-- inverse by the adjugate -/
noncomputable def inv3 (m : M3) : M3 :=
  (((m.2.1.2.1 * m.2.2.2.2 - m.2.1.2.2 * m.2.2.2.1) / det3 m,
    (m.1.2.2 * m.2.2.2.1 - m.1.2.1 * m.2.2.2.2) / det3 m,
    (m.1.2.1 * m.2.1.2.2 - m.1.2.2 * m.2.1.2.1) / det3 m),
   ((m.2.1.2.2 * m.2.2.1 - m.2.1.1 * m.2.2.2.2) / det3 m,
    (m.1.1 * m.2.2.2.2 - m.1.2.2 * m.2.2.1) / det3 m,
    (m.1.2.2 * m.2.1.1 - m.1.1 * m.2.1.2.2) / det3 m),
   ((m.2.1.1 * m.2.2.2.1 - m.2.1.2.1 * m.2.2.1) / det3 m,
    (m.1.2.1 * m.2.2.1 - m.1.1 * m.2.2.2.1) / det3 m,
    (m.1.1 * m.2.1.2.1 - m.1.2.1 * m.2.1.1) / det3 m))

/-- the adjugate formula is the inverse whenever the determinant is non-zero -/
theorem inv3_mul (m : M3) (h : det3 m ≠ 0) : mulMat3 (inv3 m) m = one3 := by
  obtain ⟨⟨a, b, c⟩, ⟨d, e, f⟩, ⟨g, h', i⟩⟩ := m
  simp only [det3] at h
  simp only [mulMat3, inv3, det3, dot3, col3, one3, Prod.mk.injEq]
  set D := a * (e * i - f * h') - b * (d * i - f * g) + c * (d * h' - e * g) with hD
  have key : ∀ x y z u v w : ℝ, x / D * u + y / D * v + z / D * w = (x * u + y * v + z * w) / D := by
    intros; ring
  simp only [key]
  refine ⟨⟨?_, ?_, ?_⟩, ⟨?_, ?_, ?_⟩, ⟨?_, ?_, ?_⟩⟩ <;>
    first
      | (rw [div_eq_one_iff_eq h, hD]; ring)
      | (rw [div_eq_zero_iff]; left; ring)

theorem mulVec3_mulMat3 (a b : M3) (v : V3) : mulVec3 (mulMat3 a b) v = mulVec3 a (mulVec3 b v) := by
  simp only [mulVec3, mulMat3, dot3, col3, Prod.mk.injEq]
  refine ⟨?_, ?_, ?_⟩ <;> ring

theorem mulVec3_one (v : V3) : mulVec3 one3 v = v := by
  simp [mulVec3, one3, dot3]

end Lemmas.Rec2020F2
