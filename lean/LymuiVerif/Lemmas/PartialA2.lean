import LymuiVerif.Inst.Partial
/-!
# `none`-propagation lemmas for the definedness instance `PR = Option ℝ`
-/
namespace PartialA2

theorem div_some_ite (a b : ℝ) : (some a : PR) / some b = if b = 0 then none else some (a / b) := by
  show PR.div (some a) (some b) = _; simp [PR.div]
theorem none_mul (x : PR) : (none : PR) * x = none := by
  show PR.bin _ none x = none; cases x <;> rfl
theorem mul_none (x : PR) : x * (none : PR) = none := by
  show PR.bin _ x none = none; cases x <;> rfl
theorem sub_none (x : PR) : x - (none : PR) = none := by
  show PR.bin _ x none = none; cases x <;> rfl
theorem none_div (x : PR) : (none : PR) / x = none := by
  show PR.div none x = none; cases x <;> rfl
theorem beq_none (x : PR) : Flt.beq (none : PR) x = false := by
  show PR.cmp _ none x = false; cases x <;> rfl

end PartialA2
