import LymuiVerif.Lemmas.OkLabF1b
import LymuiVerif.Lemmas.Curves
import LymuiVerif.Lemmas.Rpow
import LymuiVerif.Props.C02_curves
import LymuiVerif.Lemmas.RequantF1a
/-!
# OkLab: from the linear-light bound to the encoded domain and through the sRGB decoder

`a` is the (clamped) linear-light value the OkLab reverse recovers, `b` the value the forward started
from, `|a − b| ≤ η = 5.82e-7`; the code then takes `a^(1/2.2)` and (in `Xyz::from(Srgb)`) the IEC decoder
`D`.  `x^(1/2.2)` is only Hölder at 0, but there the decoder has slope `1/12.92`:

* `b < 8e-4`: both `a^(1/2.2)`, `b^(1/2.2)` are on the linear segment of `D`, error `η^(1/2.2)/12.92 ≤ 1.14e-4`
  (and `≤ 1.72e-5` once `b ≥ 5e-6`, i.e. from 8-bit level 1 on);
* `b ≥ 8e-4`: `x^(1/2.2)` is `22.3`-Lipschitz, `D` is `2.28`-Lipschitz up to its `1e-8` jump: error `≤ 3e-5`.
-/
noncomputable section
namespace Lemmas.OkLabXyzF1b
open Gen Lemmas.CurvesD2

/-- the exponent of `Srgb::as_non_linear` -/
theorem e_inv22 : (1 : ℝ) / 2.2 = ((5 : ℕ) : ℝ) / ((11 : ℕ) : ℝ) := by norm_num
theorem e_inv22' : (1 : ℝ) / 2.2 - 1 = -(((6 : ℕ) : ℝ) / ((11 : ℕ) : ℝ)) := by norm_num
theorem e_22 : (2.2 : ℝ) = ((11 : ℕ) : ℝ) / ((5 : ℕ) : ℝ) := by norm_num

/-- Hölder: a linear-light error of `5.82e-7` is at most `1.47e-3` after `x^(1/2.2)` -/
theorem holder22 {a b : ℝ} (ha : 0 ≤ a) (hb : 0 ≤ b) (h : |a - b| ≤ 582 / 10 ^ 9) :
    |a ^ ((1 : ℝ) / 2.2) - b ^ ((1 : ℝ) / 2.2)| ≤ 147 / 10 ^ 5 := by
  have h1 := rpow_holder (p := (1 : ℝ) / 2.2) (by norm_num) (by norm_num) ha hb
  have h2 : |a - b| ^ ((1 : ℝ) / 2.2) ≤ (582 / 10 ^ 9 : ℝ) ^ ((1 : ℝ) / 2.2) :=
    Real.rpow_le_rpow (abs_nonneg _) h (by norm_num)
  have h3 : (582 / 10 ^ 9 : ℝ) ^ ((1 : ℝ) / 2.2) ≤ 147 / 10 ^ 5 := by
    rw [e_inv22]; exact rpow_div_le 5 11 (by norm_num) (by norm_num) (by norm_num) (by norm_num)
  linarith

/-- `x^(1/2.2)` is Lipschitz on `[x0, ∞)` with constant `(5/11)·K` when `x0^(6/11) ≥ 1/K` -/
theorem lipschitz22 {x0 K a b : ℝ} (hx0 : 0 < x0) (hK : 0 < K) (hx : 1 / K ≤ x0 ^ (((6 : ℕ) : ℝ) / ((11 : ℕ) : ℝ)))
    (ha : x0 ≤ a) (hb : x0 ≤ b) :
    |a ^ ((1 : ℝ) / 2.2) - b ^ ((1 : ℝ) / 2.2)| ≤ 5 / 11 * K * |a - b| := by
  have hs : (1 : ℝ) / 2.2 * x0 ^ ((1 : ℝ) / 2.2 - 1) ≤ 5 / 11 * K := by
    rw [e_inv22', Real.rpow_neg hx0.le]
    have hpos : 0 < x0 ^ (((6 : ℕ) : ℝ) / ((11 : ℕ) : ℝ)) := Real.rpow_pos_of_pos hx0 _
    have : (x0 ^ (((6 : ℕ) : ℝ) / ((11 : ℕ) : ℝ)))⁻¹ ≤ K := by
      rw [inv_le_comm₀ hpos hK]; rwa [one_div] at hx
    have e : (1 : ℝ) / 2.2 = 5 / 11 := by norm_num
    rw [e]; exact mul_le_mul_of_nonneg_left this (by norm_num)
  have main : ∀ u v : ℝ, x0 ≤ u → u ≤ v →
      |v ^ ((1 : ℝ) / 2.2) - u ^ ((1 : ℝ) / 2.2)| ≤ 5 / 11 * K * (v - u) := by
    intro u v hu huv
    obtain ⟨k1, k2⟩ := rpow_sub_le (p := (1 : ℝ) / 2.2) (by norm_num) (by norm_num) hx0 hu huv
    rw [abs_of_nonneg k1]
    exact k2.trans (mul_le_mul_of_nonneg_right hs (by linarith))
  rcases le_total a b with h | h
  · rw [abs_sub_comm, abs_sub_comm a b, abs_of_nonneg (sub_nonneg.mpr h)]; exact main a b ha h
  · rw [abs_of_nonneg (sub_nonneg.mpr h)]; exact main b a hb h

/-- tangent-line lower bound of the convex `x^p`, `p ≥ 1`, at any `a > 0` -/
theorem rpow_tangent_ge {a b p : ℝ} (ha : 0 < a) (hb : 0 ≤ b) (hp : 1 ≤ p) :
    a ^ p + p * (b - a) * (a ^ p / a) ≤ b ^ p := by
  have hs : -1 ≤ (b - a) / a := by
    have : (b - a) / a = b / a - 1 := by field_simp
    rw [this]; have : 0 ≤ b / a := div_nonneg hb ha.le
    linarith
  have hB := one_add_mul_self_le_rpow_one_add hs hp
  have hb' : b = a * (1 + (b - a) / a) := by field_simp; ring
  have hap : 0 ≤ a ^ p := Real.rpow_nonneg ha.le p
  calc a ^ p + p * (b - a) * (a ^ p / a) = a ^ p * (1 + p * ((b - a) / a)) := by field_simp
    _ ≤ a ^ p * (1 + (b - a) / a) ^ p := mul_le_mul_of_nonneg_left hB hap
    _ = (a * (1 + (b - a) / a)) ^ p := by
        rw [Real.mul_rpow ha.le (by linarith)]
    _ = b ^ p := by rw [← hb']

/-- the power branch of the decoder is `2.28`-Lipschitz below `1.0001` -/
theorem dec_pow_lipschitz {u v : ℝ} (hu : 0.04045 ≤ u) (huv : u ≤ v) (hv : v ≤ 1.0001) :
    ((v + 0.055) / 1.055) ^ (2.4 : ℝ) - ((u + 0.055) / 1.055) ^ (2.4 : ℝ) ≤ 2.28 * (v - u) := by
  set A := (v + 0.055) / 1.055 with hA
  set B := (u + 0.055) / 1.055 with hB
  have hA0 : 0 < A := by rw [hA]; apply div_pos (by linarith) (by norm_num)
  have hB0 : 0 ≤ B := by rw [hB]; apply div_nonneg (by linarith) (by norm_num)
  have hA1 : A ≤ 1.0001 := by rw [hA, div_le_iff₀ (by norm_num)]; norm_num at hv ⊢; linarith
  have h := rpow_tangent_ge (p := 2.4) hA0 hB0 (by norm_num)
  have e : A ^ (2.4 : ℝ) / A = A ^ ((2.4 : ℝ) - 1) := (Real.rpow_sub_one hA0.ne' _).symm
  rw [e] at h
  have hs : A ^ ((2.4 : ℝ) - 1) ≤ 1.00021 := by
    have h1 : A ^ ((2.4 : ℝ) - 1) ≤ (1.0001 : ℝ) ^ ((2.4 : ℝ) - 1) :=
      Real.rpow_le_rpow hA0.le hA1 (by norm_num)
    have h2 : (1.0001 : ℝ) ^ ((2.4 : ℝ) - 1) ≤ (1.0001 : ℝ) ^ (2 : ℝ) :=
      Real.rpow_le_rpow_of_exponent_le (by norm_num) (by norm_num)
    have h3 : (1.0001 : ℝ) ^ (2 : ℝ) ≤ 1.00021 := by rw [Real.rpow_two]; norm_num
    linarith
  have hAB : A - B = (v - u) / 1.055 := by rw [hA, hB]; ring
  have hAB0 : 0 ≤ A - B := by rw [hAB]; apply div_nonneg <;> norm_num; linarith
  have : 2.4 * (A - B) * A ^ ((2.4 : ℝ) - 1) ≤ 2.4 * (A - B) * 1.00021 :=
    mul_le_mul_of_nonneg_left hs (by positivity)
  have h4 : A ^ (2.4 : ℝ) - B ^ (2.4 : ℝ) ≤ 2.4 * (A - B) * 1.00021 := by nlinarith
  rw [hAB] at h4
  have : 2.4 * ((v - u) / 1.055) * 1.00021 ≤ 2.28 * (v - u) := by
    have : 0 ≤ v - u := by linarith
    rw [show (2.4 : ℝ) * ((v - u) / 1.055) * 1.00021 = (2.4 * 1.00021 / 1.055) * (v - u) by ring]
    apply mul_le_mul_of_nonneg_right _ this
    norm_num
  linarith

/-- the jump of the decoder at its threshold is below `1e-8` -/
theorem dec_jump : ((0.04045 + 0.055) / 1.055 : ℝ) ^ (2.4 : ℝ) ≤ 0.04045 / 12.92 + 1e-8 := by
  have e24 : (2.4 : ℝ) = ((12 : ℕ) : ℝ) / ((5 : ℕ) : ℝ) := by norm_num
  rw [e24]
  exact rpow_div_le 12 5 (by norm_num) (by norm_num) (by norm_num) (by norm_num)

/-- **the sRGB decoder is `2.28`-Lipschitz up to its `1e-8` jump**, for arguments below `1.0001` -/
theorem dec_quasi_lipschitz {u v : ℝ} (huv : u ≤ v) (hv : v ≤ 1.0001) :
    0 ≤ (F64.compute_srgb_gamma_expanded v : ℝ) - F64.compute_srgb_gamma_expanded u ∧
    (F64.compute_srgb_gamma_expanded v : ℝ) - F64.compute_srgb_gamma_expanded u ≤ 2.28 * (v - u) + 1e-8 := by
  constructor
  · have := Curves.srgb_dec_strictMono.monotone huv; linarith
  · by_cases h1 : v ≤ 0.04045
    · rw [Curves.srgb_dec_lin h1, Curves.srgb_dec_lin (huv.trans h1)]
      have : v / 12.92 - u / 12.92 = (v - u) / 12.92 := by ring
      rw [this]
      have : (v - u) / 12.92 ≤ v - u := by
        rw [div_le_iff₀ (by norm_num)]; nlinarith
      nlinarith
    · rw [not_le] at h1
      rw [Curves.srgb_dec_pow h1]
      by_cases h2 : u ≤ 0.04045
      · rw [Curves.srgb_dec_lin h2]
        have k := dec_pow_lipschitz (u := 0.04045) (v := v) le_rfl h1.le hv
        have j := dec_jump
        have : (0.04045 : ℝ) / 12.92 - u / 12.92 ≤ 2.28 * (0.04045 - u) := by
          have : (0.04045 : ℝ) / 12.92 - u / 12.92 = (0.04045 - u) / 12.92 := by ring
          rw [this, div_le_iff₀ (by norm_num)]; nlinarith
        linarith
      · rw [not_le] at h2
        rw [Curves.srgb_dec_pow h2]
        have k := dec_pow_lipschitz h2.le huv hv
        linarith

theorem dec_quasi_lipschitz_abs {u v : ℝ} (hu : u ≤ 1.0001) (hv : v ≤ 1.0001) :
    |(F64.compute_srgb_gamma_expanded v : ℝ) - F64.compute_srgb_gamma_expanded u| ≤ 2.28 * |v - u| + 1e-8 := by
  rcases le_total u v with h | h
  · obtain ⟨k1, k2⟩ := dec_quasi_lipschitz h hv
    rw [abs_of_nonneg k1, abs_of_nonneg (sub_nonneg.mpr h)]; exact k2
  · obtain ⟨k1, k2⟩ := dec_quasi_lipschitz h hu
    rw [abs_sub_comm, abs_of_nonneg k1, abs_sub_comm, abs_of_nonneg (sub_nonneg.mpr h)]; exact k2

/-- values below `8.006e-4` stay on the linear segment of the decoder after `x^(1/2.2)` -/
theorem small_zone {a : ℝ} (ha : 0 ≤ a) (h : a ≤ 8006 / 10 ^ 7) : a ^ ((1 : ℝ) / 2.2) ≤ 0.04045 := by
  have h1 : a ^ ((1 : ℝ) / 2.2) ≤ (8006 / 10 ^ 7 : ℝ) ^ ((1 : ℝ) / 2.2) := Real.rpow_le_rpow ha h (by norm_num)
  have h2 : (8006 / 10 ^ 7 : ℝ) ^ ((1 : ℝ) / 2.2) ≤ 0.04045 := by
    rw [e_inv22]; exact rpow_div_le 5 11 (by norm_num) (by norm_num) (by norm_num) (by norm_num)
  linarith

/-- `x^(1/2.2) ≤ 1.0001` for `x ≤ 1.0001` -/
theorem rpow22_le {a : ℝ} (ha : 0 ≤ a) (h : a ≤ 1.0001) : a ^ ((1 : ℝ) / 2.2) ≤ 1.0001 := by
  rcases le_total a 1 with h1 | h1
  · have := Real.rpow_le_one ha h1 (by norm_num : (0 : ℝ) ≤ 1 / 2.2); linarith
  · have : a ^ ((1 : ℝ) / 2.2) ≤ a ^ (1 : ℝ) := Real.rpow_le_rpow_of_exponent_le h1 (by norm_num)
    rw [Real.rpow_one] at this; linarith

/-- **core estimate**: decoder after `x^(1/2.2)`, linear-light perturbation `≤ 5.82e-7`:
`1.14e-4` in general, `3e-5` once `b ≥ 5e-6` -/
theorem dec_rpow_perturb {a b : ℝ} (ha : 0 ≤ a) (hb : 0 ≤ b) (hb1 : b ≤ 1.00001) (h : |a - b| ≤ 582 / 10 ^ 9) :
    |(F64.compute_srgb_gamma_expanded (a ^ ((1 : ℝ) / 2.2)) : ℝ) - F64.compute_srgb_gamma_expanded (b ^ ((1 : ℝ) / 2.2))|
      ≤ 114 / 10 ^ 6 ∧
    (5 / 10 ^ 6 ≤ b →
      |(F64.compute_srgb_gamma_expanded (a ^ ((1 : ℝ) / 2.2)) : ℝ) - F64.compute_srgb_gamma_expanded (b ^ ((1 : ℝ) / 2.2))|
        ≤ 3 / 10 ^ 5) := by
  obtain ⟨h1, h2⟩ := abs_le.mp h
  rcases lt_or_ge b (8 / 10 ^ 4) with hlt | hge
  · have za := small_zone ha (by linarith)
    have zb := small_zone hb (by linarith)
    rw [Curves.srgb_dec_lin za, Curves.srgb_dec_lin zb]
    have e : a ^ ((1 : ℝ) / 2.2) / 12.92 - b ^ ((1 : ℝ) / 2.2) / 12.92 =
        (a ^ ((1 : ℝ) / 2.2) - b ^ ((1 : ℝ) / 2.2)) / 12.92 := by ring
    rw [e, abs_div, abs_of_pos (by norm_num : (0 : ℝ) < 12.92)]
    constructor
    · have := holder22 ha hb h
      rw [div_le_iff₀ (by norm_num)]; norm_num at this ⊢; linarith
    · intro h5
      have hx : (1 : ℝ) / 840 ≤ (44 / 10 ^ 7 : ℝ) ^ (((6 : ℕ) : ℝ) / ((11 : ℕ) : ℝ)) :=
        le_rpow_div 6 11 (by norm_num) (by norm_num) (by norm_num) (by norm_num)
      have := lipschitz22 (x0 := 44 / 10 ^ 7) (K := 840) (by norm_num) (by norm_num) hx
        (by linarith : (44 / 10 ^ 7 : ℝ) ≤ a) (by linarith : (44 / 10 ^ 7 : ℝ) ≤ b)
      rw [div_le_iff₀ (by norm_num)]
      have : (5 : ℝ) / 11 * 840 * |a - b| ≤ 5 / 11 * 840 * (582 / 10 ^ 9) :=
        mul_le_mul_of_nonneg_left h (by norm_num)
      norm_num at *; linarith
  · have hx : (1 : ℝ) / 49 ≤ (799 / 10 ^ 6 : ℝ) ^ (((6 : ℕ) : ℝ) / ((11 : ℕ) : ℝ)) :=
      le_rpow_div 6 11 (by norm_num) (by norm_num) (by norm_num) (by norm_num)
    have hl := lipschitz22 (x0 := 799 / 10 ^ 6) (K := 49) (by norm_num) (by norm_num) hx
      (by linarith : (799 / 10 ^ 6 : ℝ) ≤ a) (by linarith : (799 / 10 ^ 6 : ℝ) ≤ b)
    have hl' : (5 : ℝ) / 11 * 49 * |a - b| ≤ 5 / 11 * 49 * (582 / 10 ^ 9) :=
      mul_le_mul_of_nonneg_left h (by norm_num)
    have ua := rpow22_le ha (by norm_num at hb1 ⊢; linarith)
    have ub := rpow22_le hb (by norm_num at hb1 ⊢; linarith)
    have hd := dec_quasi_lipschitz_abs (u := b ^ ((1 : ℝ) / 2.2)) (v := a ^ ((1 : ℝ) / 2.2)) ub ua
    have : |(F64.compute_srgb_gamma_expanded (a ^ ((1 : ℝ) / 2.2)) : ℝ) -
        F64.compute_srgb_gamma_expanded (b ^ ((1 : ℝ) / 2.2))| ≤ 3 / 10 ^ 5 := by
      norm_num at *; linarith
    exact ⟨this.trans (by norm_num), fun _ => this⟩

/-! ## one channel of an 8-bit colour through `Srgb::from(Xyz)` and `Srgb::as_linear` -/

open Props.C07 (pow22 pow22Inv pow22_inverse ottosson ottossonInv)

/-- the encoder is non-negative on non-negative arguments and at most `1 + 3.2e-7` below `1 + 3e-7` -/
theorem enc_range {t : ℝ} (h1 : t ≤ 1 + 3e-7) :
    (0 ≤ t → 0 ≤ (F64.apply_srgb_gamma_correction t : ℝ)) ∧ (t < 0 → (F64.apply_srgb_gamma_correction t : ℝ) < 0) ∧
    (F64.apply_srgb_gamma_correction t : ℝ) ≤ 1 + 3.2e-7 := by
  have lo : (0.0904738459 : ℝ) ≤ (0.0031308 : ℝ) ^ ((1 : ℝ) / 2.4) := by
    rw [e24]; exact le_rpow_div 5 12 (by norm_num) (by norm_num) (by norm_num) (by norm_num)
  by_cases h : t ≤ 0.0031308
  · rw [Curves.srgb_enc_lin h]
    refine ⟨fun h0 => by positivity, fun h0 => by nlinarith, by nlinarith⟩
  · rw [not_le] at h
    rw [Curves.srgb_enc_pow h]
    have m : (0.0031308 : ℝ) ^ ((1 : ℝ) / 2.4) ≤ t ^ ((1 : ℝ) / 2.4) :=
      Real.rpow_le_rpow (by norm_num) h.le (by norm_num)
    have u : t ^ ((1 : ℝ) / 2.4) ≤ 1 + 3e-7 := by
      rcases le_total t 1 with h2 | h2
      · have := Real.rpow_le_one (by linarith) h2 (by norm_num : (0 : ℝ) ≤ 1 / 2.4); linarith
      · have : t ^ ((1 : ℝ) / 2.4) ≤ t ^ (1 : ℝ) := Real.rpow_le_rpow_of_exponent_le h2 (by norm_num)
        rw [Real.rpow_one] at this; linarith
    refine ⟨fun _ => by nlinarith, fun h0 => by linarith, by nlinarith⟩

/-- the encoder of an argument at least `t0 ≤ 0.003` is at least `12.92·t0` (not up to the threshold
`0.0031308` itself: the encoder jumps DOWN by 2.9e-8 there) -/
theorem enc_ge {t0 t : ℝ} (h0 : t0 ≤ 0.003) (h : t0 ≤ t) :
    t0 * 12.92 ≤ (F64.apply_srgb_gamma_correction t : ℝ) := by
  have lo : (0.0904738459 : ℝ) ≤ (0.0031308 : ℝ) ^ ((1 : ℝ) / 2.4) := by
    rw [e24]; exact le_rpow_div 5 12 (by norm_num) (by norm_num) (by norm_num) (by norm_num)
  by_cases h' : t ≤ 0.0031308
  · rw [Curves.srgb_enc_lin h']; nlinarith
  · rw [not_le] at h'
    rw [Curves.srgb_enc_pow h']
    have m : (0.0031308 : ℝ) ^ ((1 : ℝ) / 2.4) ≤ t ^ ((1 : ℝ) / 2.4) :=
      Real.rpow_le_rpow (by norm_num) h'.le (by norm_num)
    have k := lo.trans m
    generalize t ^ ((1 : ℝ) / 2.4) = y at k ⊢
    norm_num at h0 k ⊢; linarith

/-- decode ∘ encode on the generated functions: within `1.4e-8` on all reals -/
theorem dec_enc_close (t : ℝ) :
    |(F64.compute_srgb_gamma_expanded (F64.apply_srgb_gamma_correction t) : ℝ) - t| ≤ 1.4e-8 := by
  rw [Props.C08.srgb_encode_is_iec, Props.C08.srgb_decode_is_iec]
  exact Props.C02_curves.srgb_dec_enc_all t

/-- **one channel**: level `n`, linear-light `t = D(n/255) + e` with `|e| ≤ 3e-7` (what `R·M·lin` gives),
`b = pow22 (enc t)` the value the OkLab forward starts from. -/
theorem channel (n : ℕ) (hn : n ≤ 255) (e : ℝ) (he : |e| ≤ 3e-7) :
    let t : ℝ := F64.compute_srgb_gamma_expanded ((n : ℝ) / 255) + e
    let b : ℝ := pow22 (F64.apply_srgb_gamma_correction t)
    (0 ≤ b ∧ b ≤ 1.000001) ∧
    |(F64.compute_srgb_gamma_expanded (b ^ ((1 : ℝ) / 2.2)) : ℝ) - F64.compute_srgb_gamma_expanded ((n : ℝ) / 255)|
      ≤ 3.2e-7 ∧
    (n = 0 → b ≤ 2e-12) ∧ (1 ≤ n → 5e-6 ≤ b) := by
  intro t b
  obtain ⟨he1, he2⟩ := abs_le.mp he
  have hl0 := XyzDispatch.dec_level_nonneg .D65 n
  have hl1 := XyzDispatch.dec_level_le_one .D65 hn
  simp only [XyzDispatch.dec] at hl0 hl1
  have ht1 : t ≤ 1 + 3e-7 := by simp only [t]; linarith
  obtain ⟨r1, r2, r3⟩ := enc_range ht1
  set s : ℝ := F64.apply_srgb_gamma_correction t with hs
  have hm0 : 0 ≤ max s 0 := le_max_right _ _
  have hb : b = (max s 0) ^ (2.2 : ℝ) := rfl
  have hbinv : b ^ ((1 : ℝ) / 2.2) = max s 0 := by
    have := pow22_inverse s
    simp only [pow22Inv, pow22] at this
    rw [max_eq_left (Real.rpow_nonneg hm0 _)] at this
    rw [hb]; exact this
  have hb0 : 0 ≤ b := by rw [hb]; exact Real.rpow_nonneg hm0 _
  refine ⟨⟨hb0, ?_⟩, ?_, ?_, ?_⟩
  · -- b ≤ 1.000001
    have hm1 : max s 0 ≤ 1 + 3.2e-7 := max_le r3 (by norm_num)
    rw [hb]
    rcases le_total (max s 0) 1 with h | h
    · have := Real.rpow_le_one hm0 h (by norm_num : (0 : ℝ) ≤ 2.2); linarith
    · have h1 : (max s 0) ^ (2.2 : ℝ) ≤ (max s 0) ^ (3 : ℝ) := Real.rpow_le_rpow_of_exponent_le h (by norm_num)
      have h2 : (max s 0) ^ (3 : ℝ) ≤ (1 + 3.2e-7 : ℝ) ^ (3 : ℝ) := Real.rpow_le_rpow hm0 hm1 (by norm_num)
      have h3 : (1 + 3.2e-7 : ℝ) ^ (3 : ℝ) ≤ 1.000001 := by
        rw [show (3 : ℝ) = ((3 : ℕ) : ℝ) by norm_num, Real.rpow_natCast]; norm_num
      linarith
  · rw [hbinv]
    rcases le_or_gt 0 t with h | h
    · rw [max_eq_left (r1 h), hs]
      have := abs_le.mp (dec_enc_close t)
      rw [abs_le]; simp only [t] at this ⊢; constructor <;> linarith [this.1, this.2]
    · rw [max_eq_right (r2 h).le, Curves.srgb_dec_zero, abs_le]
      simp only [t] at h
      constructor <;> linarith
  · intro h0
    have e0 : (F64.compute_srgb_gamma_expanded (((n : ℕ) : ℝ) / 255) : ℝ) = 0 := by
      rw [h0]; simp [Curves.srgb_dec_zero]
    have ht : t = e := by simp only [t]; rw [e0, zero_add]
    have hs' : s = e * 12.92 := by rw [hs, ht, Curves.srgb_enc_lin (by linarith)]
    have hm : max s 0 ≤ 3.876e-6 := max_le (by rw [hs']; nlinarith) (by norm_num)
    rw [hb]
    have h1 : (max s 0) ^ (2.2 : ℝ) ≤ (3.876e-6 : ℝ) ^ (2.2 : ℝ) := Real.rpow_le_rpow hm0 hm (by norm_num)
    have h2 : (3.876e-6 : ℝ) ^ (2.2 : ℝ) ≤ 2e-12 := by
      rw [e_22]; exact rpow_div_le 11 5 (by norm_num) (by norm_num) (by norm_num) (by norm_num)
    linarith
  · intro h1
    have hlev : (1 : ℝ) / 255 / 12.92 ≤ F64.compute_srgb_gamma_expanded ((n : ℝ) / 255) := by
      have hmono := Curves.srgb_dec_strictMono.monotone
        (show (1 : ℝ) / 255 ≤ (n : ℝ) / 255 by
          apply div_le_div_of_nonneg_right _ (by norm_num); exact_mod_cast h1)
      rwa [Curves.srgb_dec_lin (by norm_num)] at hmono
    have hs0 : (1 / 255 / 12.92 - 3e-7 : ℝ) * 12.92 ≤ s :=
      enc_ge (by norm_num) (by simp only [t]; linarith)
    have hs1 : (0.0039176 : ℝ) ≤ s := by norm_num at hs0 ⊢; linarith
    rw [hb, max_eq_left (by linarith)]
    have h2 : (0.0039176 : ℝ) ^ (2.2 : ℝ) ≤ s ^ (2.2 : ℝ) := Real.rpow_le_rpow (by norm_num) hs1 (by norm_num)
    have h3 : (5e-6 : ℝ) ≤ (0.0039176 : ℝ) ^ (2.2 : ℝ) := by
      rw [e_22]; exact le_rpow_div 11 5 (by norm_num) (by norm_num) (by norm_num) (by norm_num)
    linarith

/-- **one channel, back**: `v` is what Ottosson's inverse returns for this channel, within `5.82e-7` of the
`b` the forward started from; `d = D(pow22Inv v)` is the linear-light sRGB value `Xyz::from(Srgb)` uses. -/
theorem channel_back (n : ℕ) (hn : n ≤ 255) (e : ℝ) (he : |e| ≤ 3e-7) (v : ℝ)
    (hv : |v - pow22 (F64.apply_srgb_gamma_correction (F64.compute_srgb_gamma_expanded ((n : ℝ) / 255) + e))|
      ≤ 582 / 10 ^ 9) :
    0 ≤ (F64.compute_srgb_gamma_expanded (pow22Inv v) : ℝ) ∧
    (F64.compute_srgb_gamma_expanded (pow22Inv v) : ℝ) ≤ 1.001 ∧
    |(F64.compute_srgb_gamma_expanded (pow22Inv v) : ℝ) - F64.compute_srgb_gamma_expanded ((n : ℝ) / 255)|
      ≤ 1.147e-4 ∧
    (1 ≤ n → |(F64.compute_srgb_gamma_expanded (pow22Inv v) : ℝ) - F64.compute_srgb_gamma_expanded ((n : ℝ) / 255)|
      ≤ 3.04e-5) := by
  obtain ⟨⟨b0, b1⟩, c2, _, c4⟩ := channel n hn e he
  set b : ℝ := pow22 (F64.apply_srgb_gamma_correction (F64.compute_srgb_gamma_expanded ((n : ℝ) / 255) + e)) with hb
  have ha0 : 0 ≤ max v 0 := le_max_right _ _
  have hab : |max v 0 - b| ≤ 582 / 10 ^ 9 := by
    obtain ⟨h1, h2⟩ := abs_le.mp hv
    rw [abs_le]
    constructor
    · have := le_max_left v 0; linarith
    · exact sub_le_iff_le_add.mpr (max_le (by linarith) (by linarith))
  obtain ⟨p1, p2⟩ := dec_rpow_perturb ha0 b0 (by norm_num at b1 ⊢; linarith) hab
  have hl1 := XyzDispatch.dec_level_le_one .D65 hn
  simp only [XyzDispatch.dec] at hl1
  have e0 : pow22Inv v = (max v 0) ^ ((1 : ℝ) / 2.2) := rfl
  rw [e0]
  have hd0 : 0 ≤ (F64.compute_srgb_gamma_expanded ((max v 0) ^ ((1 : ℝ) / 2.2)) : ℝ) := by
    have := Curves.srgb_dec_strictMono.monotone (Real.rpow_nonneg ha0 ((1 : ℝ) / 2.2))
    rwa [Curves.srgb_dec_zero] at this
  have q1 := abs_le.mp p1
  have q2 := abs_le.mp c2
  refine ⟨hd0, ?_, ?_, ?_⟩
  · norm_num at q1 q2 hl1 ⊢; linarith [q1.2, q2.2]
  · rw [abs_le]; norm_num at q1 q2 ⊢; constructor <;> linarith [q1.1, q1.2, q2.1, q2.2]
  · intro h1
    have q3 := abs_le.mp (p2 (by have := c4 h1; norm_num at this ⊢; linarith))
    rw [abs_le]; norm_num at q3 q2 ⊢; constructor <;> linarith [q3.1, q3.2, q2.1, q2.2]

/-- **one channel, re-quantised**: `d` as delivered by `channel_back`, `e'` the residual of `R·M − I` -/
theorem channel_requant (n : ℕ) (hn : n ≤ 255) (d e' : ℝ) (he : |e'| ≤ 3e-7) (hd0 : 0 ≤ d)
    (h0 : |d - F64.compute_srgb_gamma_expanded ((n : ℝ) / 255)| ≤ 1.147e-4)
    (h1 : 1 ≤ n → |d - F64.compute_srgb_gamma_expanded ((n : ℝ) / 255)| ≤ 3.04e-5) :
    |(F64.apply_srgb_gamma_correction (d + e') : ℝ) * 255 - n| < 1 / 2 := by
  obtain ⟨e1, e2⟩ := abs_le.mp he
  rcases Nat.eq_zero_or_pos n with hz | hp
  · subst hz
    simp only [Nat.cast_zero, zero_div, Curves.srgb_dec_zero, sub_zero] at h0 ⊢
    obtain ⟨k1, k2⟩ := abs_le.mp h0
    rw [Curves.srgb_enc_lin (by norm_num at k2 e2 ⊢; linarith), abs_lt]
    norm_num at k2 e1 e2 ⊢
    constructor <;> linarith
  · have h := h1 hp
    have hδ : |d + e' - F64.compute_srgb_gamma_expanded ((n : ℝ) / 255)| ≤ 9e-5 := by
      obtain ⟨k1, k2⟩ := abs_le.mp h
      rw [abs_le]; norm_num at k1 k2 e1 e2 ⊢; constructor <;> linarith
    have := CurvesF1a.srgb_stable_wide n hn (d + e' - F64.compute_srgb_gamma_expanded ((n : ℝ) / 255)) hδ
    rw [add_sub_cancel] at this
    exact lt_of_le_of_lt this (by norm_num)

/-! ## vectors: the D65 matrices -/

open Lemmas.Matrix Lemmas.XyzDispatch

/-- `R·(M·l)` returns `l` up to `3e-7` per component on the slightly larger cube `[0, 1.001]³` -/
theorem roundtrip_lin_wide (l : V3) (i : Fin 3)
    (h0 : 0 ≤ l.1) (h0' : l.1 ≤ 1.001) (h1 : 0 ≤ l.2.1) (h1' : l.2.1 ≤ 1.001)
    (h2 : 0 ≤ l.2.2) (h2' : l.2.2 ≤ 1.001) :
    |V3.get (mulVec (rev .D65) (mulVec (fwd .D65) l)) i - V3.get l i| ≤ 3e-7 := by
  obtain ⟨l0, l1, l2⟩ := l
  simp only at h0 h0' h1 h1' h2 h2'
  fin_cases i <;> unfold_consts <;> rw [abs_le] <;> constructor <;> norm_num <;> norm_num at h0' h1' h2' <;> linarith

/-- the forward rows are `1.0891`-Lipschitz from the sup norm to each component -/
theorem fwd_perturb (d l : V3) (ε : ℝ) (h1 : |d.1 - l.1| ≤ ε) (h2 : |d.2.1 - l.2.1| ≤ ε)
    (h3 : |d.2.2 - l.2.2| ≤ ε) (i : Fin 3) :
    |V3.get (mulVec (fwd .D65) d) i - V3.get (mulVec (fwd .D65) l) i| ≤ 1.0891 * ε := by
  obtain ⟨d0, d1, d2⟩ := d
  obtain ⟨l0, l1, l2⟩ := l
  simp only at h1 h2 h3
  rw [abs_le] at h1 h2 h3
  obtain ⟨a1, b1⟩ := h1
  obtain ⟨a2, b2⟩ := h2
  obtain ⟨a3, b3⟩ := h3
  fin_cases i <;> unfold_consts <;> rw [abs_le] <;> constructor <;> norm_num <;> linarith

/-- `Srgb::from(Xyz)` is the encoder applied to the reverse rows -/
theorem srgb_from_xyz_eq (x : Xyz ℝ) :
    Srgb.from_Xyz x =
      ⟨F64.apply_srgb_gamma_correction (mulVec (rev .D65) (ofXyz x)).1,
       F64.apply_srgb_gamma_correction (mulVec (rev .D65) (ofXyz x)).2.1,
       F64.apply_srgb_gamma_correction (mulVec (rev .D65) (ofXyz x)).2.2⟩ := by
  simp [Srgb.from_Xyz, ofXyz, mulVec, dot, rev, mul_comm]

/-- `Xyz::from(OkLab::from(xyz))` unfolded to Ottosson's transforms, the two power laws, the sRGB curve pair
and the D65 rows -/
theorem xyz_oklab_roundtrip_eq (x : Xyz ℝ) :
    Xyz.from_OkLab (OkLab.from_Xyz x) =
      toXyz (mulVec (fwd .D65)
        (F64.compute_srgb_gamma_expanded (pow22Inv (ottossonInv (ottosson
            (pow22 (Srgb.from_Xyz x).r, pow22 (Srgb.from_Xyz x).g, pow22 (Srgb.from_Xyz x).b))).1),
         F64.compute_srgb_gamma_expanded (pow22Inv (ottossonInv (ottosson
            (pow22 (Srgb.from_Xyz x).r, pow22 (Srgb.from_Xyz x).g, pow22 (Srgb.from_Xyz x).b))).2.1),
         F64.compute_srgb_gamma_expanded (pow22Inv (ottossonInv (ottosson
            (pow22 (Srgb.from_Xyz x).r, pow22 (Srgb.from_Xyz x).g, pow22 (Srgb.from_Xyz x).b))).2.2))) := by
  show Xyz.from_Srgb (Srgb.from_OkLab (OkLab.from_Srgb (Srgb.from_Xyz x))) = _
  rw [Props.C07.oklab_is_ottosson_of_pow22, Props.C07.oklab_reverse_def]
  simp [Xyz.from_Srgb, toXyz, mulVec, dot, fwd, mul_comm]

/-- **the chain for an 8-bit colour**: the OkLab round trip of its XYZ is `M·d` with `d` non-negative, within
`1.147e-4` of the colour's linear-light channels, and within `3.04e-5` on every channel whose level is ≥ 1. -/
theorem oklab_chain (c : Rgb) (hr : c.r ≤ 255) (hg : c.g ≤ 255) (hb : c.b ≤ 255) :
    ∃ d : V3, Xyz.from_OkLab (OkLab.from_Xyz (Xyz.from_rgb c XyzKind.D65)) = toXyz (mulVec (fwd .D65) d) ∧
      ∀ i : Fin 3, 0 ≤ V3.get d i ∧ V3.get d i ≤ 1.001 ∧
        |V3.get d i - V3.get (lin .D65 c) i| ≤ 1.147e-4 ∧
        (1 ≤ chan c i → |V3.get d i - V3.get (lin .D65 c) i| ≤ 3.04e-5) := by
  have hl := fun j => roundtrip_lin .D65 (lin .D65 c) j (dec_level_nonneg .D65 c.r) (dec_level_le_one .D65 hr)
    (dec_level_nonneg .D65 c.g) (dec_level_le_one .D65 hg) (dec_level_nonneg .D65 c.b) (dec_level_le_one .D65 hb)
  have h1 := hl 0; have h2 := hl 1; have h3 := hl 2
  simp only [V3.get] at h1 h2 h3
  refine ⟨_, xyz_oklab_roundtrip_eq _, ?_⟩
  rw [srgb_from_xyz_eq, from_rgb_eq]
  have eo : ∀ w : V3, ofXyz (toXyz w) = w := fun _ => rfl
  simp only [eo]
  -- the three linear-light values delivered by R·M·lin
  set t := mulVec (rev .D65) (mulVec (fwd .D65) (lin .D65 c)) with ht
  have w1 : t.1 = F64.compute_srgb_gamma_expanded ((c.r : ℝ) / 255) + (t.1 - (lin .D65 c).1) := by
    simp only [lin, dec]; ring
  have w2 : t.2.1 = F64.compute_srgb_gamma_expanded ((c.g : ℝ) / 255) + (t.2.1 - (lin .D65 c).2.1) := by
    simp only [lin, dec]; ring
  have w3 : t.2.2 = F64.compute_srgb_gamma_expanded ((c.b : ℝ) / 255) + (t.2.2 - (lin .D65 c).2.2) := by
    simp only [lin, dec]; ring
  obtain ⟨⟨r0, r1⟩, _, _, _⟩ := channel c.r hr _ h1
  obtain ⟨⟨g0, g1⟩, _, _, _⟩ := channel c.g hg _ h2
  obtain ⟨⟨b0, b1⟩, _, _, _⟩ := channel c.b hb _ h3
  rw [← w1] at r0 r1; rw [← w2] at g0 g1; rw [← w3] at b0 b1
  obtain ⟨⟨o1, o2⟩, ⟨o3, o4⟩, ⟨o5, o6⟩⟩ := Lemmas.OkLabF1b.ottosson_roundtrip (B := 1.000001)
    ⟨r0, r1⟩ ⟨g0, g1⟩ ⟨b0, b1⟩
  have v1 : |(ottossonInv (ottosson (pow22 (F64.apply_srgb_gamma_correction t.1),
      pow22 (F64.apply_srgb_gamma_correction t.2.1), pow22 (F64.apply_srgb_gamma_correction t.2.2)))).1 -
      pow22 (F64.apply_srgb_gamma_correction t.1)| ≤ 582 / 10 ^ 9 := by
    rw [abs_le]; norm_num at o1 o2 ⊢; constructor <;> linarith
  have v2 : |(ottossonInv (ottosson (pow22 (F64.apply_srgb_gamma_correction t.1),
      pow22 (F64.apply_srgb_gamma_correction t.2.1), pow22 (F64.apply_srgb_gamma_correction t.2.2)))).2.1 -
      pow22 (F64.apply_srgb_gamma_correction t.2.1)| ≤ 582 / 10 ^ 9 := by
    rw [abs_le]; norm_num at o3 o4 ⊢; constructor <;> linarith
  have v3 : |(ottossonInv (ottosson (pow22 (F64.apply_srgb_gamma_correction t.1),
      pow22 (F64.apply_srgb_gamma_correction t.2.1), pow22 (F64.apply_srgb_gamma_correction t.2.2)))).2.2 -
      pow22 (F64.apply_srgb_gamma_correction t.2.2)| ≤ 582 / 10 ^ 9 := by
    rw [abs_le]; norm_num at o5 o6 ⊢; constructor <;> linarith
  have k1 := channel_back c.r hr _ h1 _ (by rw [← w1]; exact v1)
  have k2 := channel_back c.g hg _ h2 _ (by rw [← w2]; exact v2)
  have k3 := channel_back c.b hb _ h3 _ (by rw [← w3]; exact v3)
  intro i
  fin_cases i
  · simpa only [V3.get, chan, lin, dec] using k1
  · simpa only [V3.get, chan, lin, dec] using k2
  · simpa only [V3.get, chan, lin, dec] using k3

/-- **pre-quantisation values of the OkLab round trip**: every channel is within `1/2` of its level -/
theorem oklab_pre_close (c : Rgb) (hr : c.r ≤ 255) (hg : c.g ≤ 255) (hb : c.b ≤ 255) (i : Fin 3) :
    |V3.get (pre .D65 (Xyz.from_OkLab (OkLab.from_Xyz (Xyz.from_rgb c XyzKind.D65)))) i - (chan c i : ℝ)| < 1 / 2 := by
  obtain ⟨d, hd, hch⟩ := oklab_chain c hr hg hb
  rw [hd]
  have hw := fun j => roundtrip_lin_wide d j (hch 0).1 (hch 0).2.1 (hch 1).1 (hch 1).2.1 (hch 2).1 (hch 2).2.1
  have eo : ofXyz (toXyz (mulVec (fwd .D65) d)) = mulVec (fwd .D65) d := rfl
  have key : ∀ j : Fin 3, |(F64.apply_srgb_gamma_correction (V3.get (mulVec (rev .D65) (mulVec (fwd .D65) d)) j) : ℝ) * 255
      - (chan c j : ℝ)| < 1 / 2 := by
    intro j
    have hn : chan c j ≤ 255 := by fin_cases j <;> simpa [chan]
    have hlin : V3.get (lin .D65 c) j = F64.compute_srgb_gamma_expanded ((chan c j : ℝ) / 255) := by
      fin_cases j <;> rfl
    obtain ⟨q0, _, q1, q2⟩ := hch j
    rw [hlin] at q1 q2
    have := channel_requant (chan c j) hn (V3.get d j)
      (V3.get (mulVec (rev .D65) (mulVec (fwd .D65) d)) j - V3.get d j) (hw j) q0 q1 q2
    rwa [add_sub_cancel] at this
  fin_cases i
  · simpa only [pre, eo, V3.get, enc, chan] using key 0
  · simpa only [pre, eo, V3.get, enc, chan] using key 1
  · simpa only [pre, eo, V3.get, enc, chan] using key 2

/-! ## encoded-domain consequences for one channel of `Srgb::from(OkLab::from(srgb))` -/

/-- `s ∈ [0,1]` encoded, `v` within `5.8e-7` of `pow22 s` in linear light: after `pow22Inv` the encoded value
is within `1.47e-3` of `s` (Hölder, attained order of magnitude only next to black), within `1.2e-5` when
`pow22 s ≥ 1e-3` (Lipschitz), and back in linear light the error is unchanged. -/
theorem encoded_channel {s v : ℝ} (h0 : 0 ≤ s) (hv : |v - pow22 s| ≤ 58 / 10 ^ 8) :
    |pow22Inv v - s| ≤ 147 / 10 ^ 5 ∧ (1 / 10 ^ 3 ≤ pow22 s → |pow22Inv v - s| ≤ 12 / 10 ^ 6) ∧
    |pow22 (pow22Inv v) - pow22 s| ≤ 58 / 10 ^ 8 := by
  have hb0 : 0 ≤ pow22 s := Real.rpow_nonneg (le_max_right _ _) _
  have ha0 : 0 ≤ max v 0 := le_max_right _ _
  have hab : |max v 0 - pow22 s| ≤ 58 / 10 ^ 8 := by
    obtain ⟨h1, h2⟩ := abs_le.mp hv
    rw [abs_le]
    constructor
    · have := le_max_left v 0; linarith
    · exact sub_le_iff_le_add.mpr (max_le (by linarith) (by linarith))
  have es : s = (pow22 s) ^ ((1 : ℝ) / 2.2) := by
    have := pow22_inverse s
    simp only [pow22Inv] at this
    rw [max_eq_left hb0, max_eq_left h0] at this
    exact this.symm
  have ev : pow22Inv v = (max v 0) ^ ((1 : ℝ) / 2.2) := rfl
  refine ⟨?_, ?_, ?_⟩
  · rw [ev]
    have := holder22 ha0 hb0 (hab.trans (by norm_num))
    rwa [← es] at this
  · intro h3
    rw [ev]
    have hx : (1 : ℝ) / 44 ≤ (999 / 10 ^ 6 : ℝ) ^ (((6 : ℕ) : ℝ) / ((11 : ℕ) : ℝ)) :=
      le_rpow_div 6 11 (by norm_num) (by norm_num) (by norm_num) (by norm_num)
    obtain ⟨h1, h2⟩ := abs_le.mp hab
    have := lipschitz22 (x0 := 999 / 10 ^ 6) (K := 44) (by norm_num) (by norm_num) hx
      (by linarith : (999 / 10 ^ 6 : ℝ) ≤ max v 0) (by linarith : (999 / 10 ^ 6 : ℝ) ≤ pow22 s)
    have h4 : (5 : ℝ) / 11 * 44 * |max v 0 - pow22 s| ≤ 5 / 11 * 44 * (58 / 10 ^ 8) :=
      mul_le_mul_of_nonneg_left hab (by norm_num)
    rw [← es] at this
    norm_num at h4 this ⊢; linarith
  · rw [Props.C07.pow22_inverse']; exact hab

end Lemmas.OkLabXyzF1b
