import LymuiVerif.Lemmas.FpEnc
/-!
# Sharper ABSOLUTE error bounds for the D65 path  8-bit colour → linear → XYZ → (reverse rows / BT.2020 rows)  in `RF M`

`FpXyz.xyz_fp_close` (`2e-13`), `FpXyz.rlin_fp_close` (`3e-12`), `FpEnc.srgb_fwd_close` (`4e-11`) are proved with uniform
magnitude bounds (every coefficient `≤ 4`, every value `≤ 3`).  Here the same chain is redone with the actual magnitudes
(per-coefficient weights `|kᵢ|`, values `≤ 1.09`): decoder `7.2e-15`, XYZ `8.5e-15`, reverse rows `4.8e-14`, encoded sRGB
`6.4e-13`; this is what brings `OkLab.from_Xyz` under `1e-9` through the existing `FpEnc.oklab_core`.
-/
namespace Lemmas.FpOkSharp
open Gen FpErr Lemmas.Matrix Lemmas.XyzDispatch Lemmas.FpXyz

section dec
variable (M : FPModel)

/-- `FpXyz.srgb_dec_fp` with the constant its proof actually yields (`2.6·1.2e-15 + 4e-15`) -/
theorem srgb_dec_fp_tight (n : ℕ) (hn : n ≤ 255) (t : RF M) (ht : t.val = M.rnd ((n:ℝ)/255)) :
    |(F64.compute_srgb_gamma_expanded t).val - F64.compute_srgb_gamma_expanded ((n:ℝ)/255)| ≤ 7.2e-15 := by
  have hn' : (n:ℝ) ≤ 255 := by exact_mod_cast hn
  have hn0 : (0:ℝ) ≤ n := Nat.cast_nonneg n
  have bx : |(n:ℝ)/255| ≤ 1 := by rw [abs_of_nonneg (by positivity)]; linarith
  have et := rnd_abs M bx (by norm_num)
  rw [← ht] at et
  by_cases h10 : n ≤ 10
  · have h10' : (n:ℝ) ≤ 10 := by exact_mod_cast h10
    have hc : t.val ≤ M.rnd (((809:ℕ):ℝ) / ((20000:ℕ):ℝ)) := by
      rw [ht]; apply M.rnd_mono; push_cast; linarith
    rw [Lemmas.Curves.srgb_dec_lin (by linarith)]
    simp only [F64.compute_srgb_gamma_expanded, FltRF.le_eq, FltRF.lit_val, hc, decide_true, if_true, FltRF.div_val]
    have l1 := lit_close M 323 25 (B := 13) (by norm_num) (by norm_num)
    have d1 := div_close M et l1 bx (m := 12) (Bq := 1) (by norm_num) (by norm_num [FP.eps])
      (by rw [abs_div, abs_of_nonneg (by positivity : (0:ℝ) ≤ ((323:ℕ):ℝ)/((25:ℕ):ℝ))]
          rw [div_le_one (by positivity)]; push_cast; linarith [bx]) (by norm_num)
    have e : (n:ℝ) / 255 / 12.92 = (n:ℝ) / 255 / (((323:ℕ):ℝ) / ((25:ℕ):ℝ)) := by norm_num
    rw [e]
    refine le_trans d1 ?_
    norm_num [FP.eps]
  · rw [not_le] at h10
    have h11 : (11:ℝ) ≤ n := by exact_mod_cast h10
    have hlv : (11:ℝ)/255 ≤ (n:ℝ)/255 := by apply div_le_div_of_nonneg_right h11 (by norm_num)
    have l0 := lit_close M 809 20000 (B := 1) (by norm_num) (by norm_num)
    have hc : ¬ t.val ≤ M.rnd (((809:ℕ):ℝ) / ((20000:ℕ):ℝ)) := by
      rw [not_le]
      rw [abs_le] at l0 et
      unfold FP.eps at *
      push_cast at *
      linarith [l0.2, et.1]
    rw [Lemmas.Curves.srgb_dec_pow (by linarith)]
    simp only [F64.compute_srgb_gamma_expanded, FltRF.le_eq, FltRF.lit_val, hc, decide_false, if_false, FltRF.div_val, FltRF.add_val, FltRF.pow_val, Bool.false_eq_true]
    have l1 := lit_close M 11 200 (B := 1) (by norm_num) (by norm_num)
    have l2 := lit_close M 211 200 (B := 2) (by norm_num) (by norm_num)
    have l3 := lit_close M 12 5 (B := 3) (by norm_num) (by norm_num)
    have bs : |(n:ℝ)/255 + ((11:ℕ):ℝ)/((200:ℕ):ℝ)| ≤ 2 := by
      rw [abs_of_nonneg (by positivity)]; push_cast; linarith [abs_le.mp bx]
    have a1 := add_close M et l1 bs (by norm_num)
    have d1 := div_close M a1 l2 bs (m := 1) (Bq := 1) (by rw [abs_of_nonneg (by positivity)]; norm_num)
      (by norm_num [FP.eps])
      (by rw [abs_div, abs_of_nonneg (by positivity : (0:ℝ) ≤ (n:ℝ)/255 + ((11:ℕ):ℝ)/((200:ℕ):ℝ)),
            abs_of_nonneg (by positivity : (0:ℝ) ≤ ((211:ℕ):ℝ)/((200:ℕ):ℝ)), div_le_one (by positivity)]
          push_cast; linarith [abs_le.mp bx]) (by norm_num)
    have ex : ((n:ℝ)/255 + 55e-3) / 1.055 = ((n:ℝ)/255 + ((11:ℕ):ℝ)/((200:ℕ):ℝ)) / (((211:ℕ):ℝ)/((200:ℕ):ℝ)) := by
      norm_num
    have ey : (2.4:ℝ) = ((12:ℕ):ℝ)/((5:ℕ):ℝ) := by norm_num
    rw [ex, ey]
    set X : ℝ := ((n:ℝ)/255 + ((11:ℕ):ℝ)/((200:ℕ):ℝ)) / (((211:ℕ):ℝ)/((200:ℕ):ℝ)) with hX
    have hXlo : 0.09 ≤ X := by
      rw [hX, le_div_iff₀ (by positivity)]; push_cast; linarith
    have hXhi : X ≤ 1 := by
      rw [hX, div_le_one (by positivity)]; push_cast; linarith [abs_le.mp bx]
    set e1 : ℝ := (FP.eps * 1 + FP.eps * 1 + FP.eps * (2 + (FP.eps * 1 + FP.eps * 1))) with he1
    set e2 : ℝ := (e1 * 1 + FP.eps * 2 * 2) / (1 * (1 - FP.eps * 2)) + FP.eps * (1 + (e1 * 1 + FP.eps * 2 * 2) / (1 * (1 - FP.eps * 2))) with he2
    have he2b : e2 ≤ 1.2e-15 := by
      rw [he2, he1]; norm_num [FP.eps]
    have hb0 : 0 < M.rnd (M.rnd (t.val + M.rnd (((11:ℕ):ℝ) / ((200:ℕ):ℝ))) / M.rnd (((211:ℕ):ℝ) / ((200:ℕ):ℝ))) := by
      have := (abs_le.mp d1).1; linarith
    have := pow_dec_close M hb0 (by linarith) hXhi d1 (by linarith) (y := ((12:ℕ):ℝ)/((5:ℕ):ℝ)) (by norm_num) (by norm_num) l3
    refine this.trans ?_
    linarith

end dec

section dot
variable (M : FPModel)

/-- error of one rounded product `c·a`, `|c − k| ≤ eps·K`, `|k| ≤ K`, `|a − x| ≤ e`, `|x| ≤ X` -/
noncomputable def mulE (K e X : ℝ) : ℝ :=
  (FP.eps * K * X + e * K + FP.eps * K * e) + FP.eps * (K * X + (FP.eps * K * X + e * K + FP.eps * K * e))

/-- error of the three-term rounded dot product with per-coefficient weights `Kᵢ ≥ |kᵢ|` -/
noncomputable def dot3E (K1 K2 K3 e X : ℝ) : ℝ :=
  ((mulE K1 e X + mulE K2 e X) + FP.eps * ((K1 + K2) * X + (mulE K1 e X + mulE K2 e X)) + mulE K3 e X) +
    FP.eps * ((K1 + K2 + K3) * X +
      ((mulE K1 e X + mulE K2 e X) + FP.eps * ((K1 + K2) * X + (mulE K1 e X + mulE K2 e X)) + mulE K3 e X))

/-- a coefficient with its own weight: computed within `eps·K` of the real one, whose magnitude is at most `K` -/
def CoefW (a : RF M) (x K : ℝ) : Prop := |a.val - x| ≤ FP.eps * K ∧ |x| ≤ K ∧ 1e-100 ≤ K

theorem coefw_lit (b : UInt64) (n d : ℕ) (K : ℝ) (h : (n : ℝ) / (d : ℝ) ≤ K) (hK : 1e-100 ≤ K) :
    CoefW M (Flt.lit b n d) (Flt.lit b n d : ℝ) K := by
  refine ⟨?_, ?_, hK⟩
  · simp only [FltRF.lit_val, FltReal.lit_eq]
    exact lit_close M n d h (le_trans (by norm_num) hK)
  · simp only [FltReal.lit_eq]; rwa [abs_of_nonneg (by positivity)]

theorem coefw_neg {a : RF M} {x K : ℝ} (h : CoefW M a x K) : CoefW M (-a) (-x) K := by
  refine ⟨?_, ?_, h.2.2⟩
  · have : (-a).val - -x = -(a.val - x) := by simp only [FltRF.neg_val]; ring
    rw [this, abs_neg]; exact h.1
  · rw [abs_neg]; exact h.2.1

/-- **weighted three-term dot product** (coefficient on the left, five roundings) -/
theorem dot3w {m v : RF M × RF M × RF M} {c x : ℝ × ℝ × ℝ} {K1 K2 K3 e X : ℝ}
    (h1 : CoefW M m.1 c.1 K1) (h2 : CoefW M m.2.1 c.2.1 K2) (h3 : CoefW M m.2.2 c.2.2 K3)
    (a1 : |v.1.val - x.1| ≤ e) (a2 : |v.2.1.val - x.2.1| ≤ e) (a3 : |v.2.2.val - x.2.2| ≤ e)
    (b1 : |x.1| ≤ X) (b2 : |x.2.1| ≤ X) (b3 : |x.2.2| ≤ X) (hX : 1e-100 ≤ X) :
    |(dotF M m v).val - dot c x| ≤ dot3E K1 K2 K3 e X := by
  obtain ⟨m1, c1, k1⟩ := h1
  obtain ⟨m2, c2, k2⟩ := h2
  obtain ⟨m3, c3, k3⟩ := h3
  have hX0 : 0 ≤ X := le_trans (by norm_num) hX
  have pos : ∀ K : ℝ, 1e-100 ≤ K → (1e-200 : ℝ) ≤ K * X := fun K hK => by
    calc (1e-200 : ℝ) = 1e-100 * 1e-100 := by norm_num
      _ ≤ K * X := mul_le_mul hK hX (by norm_num) (le_trans (by norm_num) hK)
  simp only [dotF, dot, FltRF.add_val, FltRF.mul_val]
  have p1 := mul_close M m1 a1 c1 b1 (pos _ k1)
  have p2 := mul_close M m2 a2 c2 b2 (pos _ k2)
  have p3 := mul_close M m3 a3 c3 b3 (pos _ k3)
  have ab : ∀ k y K : ℝ, |k| ≤ K → |y| ≤ X → |k * y| ≤ K * X := fun k y K hk hy => by
    rw [abs_mul]; exact mul_le_mul hk hy (abs_nonneg _) (le_trans (abs_nonneg _) hk)
  have r1 : |c.1 * x.1 + c.2.1 * x.2.1| ≤ (K1 + K2) * X :=
    (abs_add_le _ _).trans (by have := ab _ _ _ c1 b1; have := ab _ _ _ c2 b2; linarith)
  have r2 : |c.1 * x.1 + c.2.1 * x.2.1 + c.2.2 * x.2.2| ≤ (K1 + K2 + K3) * X :=
    (abs_add_le _ _).trans (by have := ab _ _ _ c3 b3; linarith)
  have s1 := add_close M p1 p2 r1 (by have := pos _ k1; have := pos _ k2; linarith)
  have s2 := add_close M s1 p3 r2 (by have := pos _ k1; have := pos _ k2; have := pos _ k3; linarith)
  exact s2

theorem dot3w' {m v : RF M × RF M × RF M} {c x : ℝ × ℝ × ℝ} {K1 K2 K3 e X : ℝ}
    (h1 : CoefW M m.1 c.1 K1) (h2 : CoefW M m.2.1 c.2.1 K2) (h3 : CoefW M m.2.2 c.2.2 K3)
    (a1 : |v.1.val - x.1| ≤ e) (a2 : |v.2.1.val - x.2.1| ≤ e) (a3 : |v.2.2.val - x.2.2| ≤ e)
    (b1 : |x.1| ≤ X) (b2 : |x.2.1| ≤ X) (b3 : |x.2.2| ≤ X) (hX : 1e-100 ≤ X) :
    |(dotF' M v m).val - dot c x| ≤ dot3E K1 K2 K3 e X := by
  rw [dotF'_val]; exact dot3w M h1 h2 h3 a1 a2 a3 b1 b2 b3 hX

/-- three weighted coefficients of a row -/
def RowW (r : RF M × RF M × RF M) (c : ℝ × ℝ × ℝ) (K1 K2 K3 : ℝ) : Prop :=
  CoefW M r.1 c.1 K1 ∧ CoefW M r.2.1 c.2.1 K2 ∧ CoefW M r.2.2 c.2.2 K3

theorem fwd65_rows : RowW M (C.X65) (C.X65) 0.4125 0.3576 0.1805 ∧ RowW M (C.Y65) (C.Y65) 0.2127 0.7152 0.0722 ∧
    RowW M (C.Z65) (C.Z65) 0.0194 0.1192 0.9504 := by
  simp only [RowW, C.X65, C.Y65, C.Z65]
  refine ⟨⟨?_, ?_, ?_⟩, ⟨?_, ?_, ?_⟩, ⟨?_, ?_, ?_⟩⟩ <;> (apply coefw_lit <;> norm_num)

theorem rev65_rows : RowW M (C.RX65) (C.RX65) 3.2405 1.5372 0.4986 ∧ RowW M (C.RY65) (C.RY65) 0.9693 1.8761 0.0416 ∧
    RowW M (C.RZ65) (C.RZ65) 0.0557 0.2041 1.0573 := by
  simp only [RowW, C.RX65, C.RY65, C.RZ65]
  refine ⟨⟨?_, ?_, ?_⟩, ⟨?_, ?_, ?_⟩, ⟨?_, ?_, ?_⟩⟩ <;>
  first
    | (apply coefw_lit <;> norm_num)
    | (apply coefw_neg; apply coefw_lit <;> norm_num)

theorem rec2020_rows_w : RowW M (C.rec2020_XR) (C.rec2020_XR) 1.7167 0.3557 0.2534 ∧ RowW M (C.XG) (C.XG) 0.6667 1.6165 0.0158 ∧
    RowW M (C.XB) (C.XB) 0.0177 0.0428 0.9422 := by
  simp only [RowW, C.rec2020_XR, C.XG, C.XB]
  refine ⟨⟨?_, ?_, ?_⟩, ⟨?_, ?_, ?_⟩, ⟨?_, ?_, ?_⟩⟩ <;>
  first
    | (apply coefw_lit <;> norm_num)
    | (apply coefw_neg; apply coefw_lit <;> norm_num)

end dot

section chain
variable (M : FPModel)

/-- the real D65 XYZ of a linear triple of the unit cube has components in `[0, 1.09]` -/
theorem fwd65_range (l : V3) (h0 : 0 ≤ l.1) (h0' : l.1 ≤ 1) (h1 : 0 ≤ l.2.1) (h1' : l.2.1 ≤ 1)
    (h2 : 0 ≤ l.2.2) (h2' : l.2.2 ≤ 1) :
    |(mulVec (fwd .D65) l).1| ≤ 1.09 ∧ |(mulVec (fwd .D65) l).2.1| ≤ 1.09 ∧ |(mulVec (fwd .D65) l).2.2| ≤ 1.09 := by
  obtain ⟨l0, l1, l2⟩ := l
  simp only at h0 h0' h1 h1' h2 h2'
  simp only [Lemmas.Matrix.dot, Lemmas.Matrix.mulVec, fwd, C.X65, C.Y65, C.Z65, FltReal.lit_eq]
  refine ⟨?_, ?_, ?_⟩ <;> rw [abs_le] <;> constructor <;> norm_num <;> linarith

/-- decoder on a byte level, D65 (sRGB curve): `7.2e-15` -/
theorem dec65_tight (n : ℕ) (hn : n ≤ 255) : |(decF M .D65 (lvlF M n)).val - dec .D65 ((n:ℝ)/255)| ≤ 7.2e-15 :=
  srgb_dec_fp_tight M n hn _ (lvlF_val M n)

/-- **forward error, D65, tight**: every component of the computed XYZ within `8.5e-15` of the exact-real model's -/
theorem xyz65_tight (c : Rgb) (hr : c.r ≤ 255) (hg : c.g ≤ 255) (hb : c.b ≤ 255) :
    |(xyzF M .D65 c).1.val - (mulVec (fwd .D65) (lin .D65 c)).1| ≤ 8.5e-15 ∧
    |(xyzF M .D65 c).2.1.val - (mulVec (fwd .D65) (lin .D65 c)).2.1| ≤ 8.5e-15 ∧
    |(xyzF M .D65 c).2.2.val - (mulVec (fwd .D65) (lin .D65 c)).2.2| ≤ 8.5e-15 := by
  have d1 := dec65_tight M c.r hr
  have d2 := dec65_tight M c.g hg
  have d3 := dec65_tight M c.b hb
  have bb : ∀ n : ℕ, n ≤ 255 → |dec .D65 ((n:ℝ)/255)| ≤ 1 := fun n hn => by
    rw [abs_of_nonneg (dec_level_nonneg .D65 n)]; exact dec_level_le_one .D65 hn
  obtain ⟨r1, r2, r3⟩ := fwd65_rows M
  have q1 := dot3w M r1.1 r1.2.1 r1.2.2 (v := linF M .D65 c) (x := lin .D65 c) d1 d2 d3 (bb _ hr) (bb _ hg) (bb _ hb) (by norm_num)
  have q2 := dot3w M r2.1 r2.2.1 r2.2.2 (v := linF M .D65 c) (x := lin .D65 c) d1 d2 d3 (bb _ hr) (bb _ hg) (bb _ hb) (by norm_num)
  have q3 := dot3w M r3.1 r3.2.1 r3.2.2 (v := linF M .D65 c) (x := lin .D65 c) d1 d2 d3 (bb _ hr) (bb _ hg) (bb _ hb) (by norm_num)
  have e16 : FP.eps = 1.2e-16 := rfl
  refine ⟨q1.trans ?_, q2.trans ?_, q3.trans ?_⟩ <;> (simp only [dot3E, mulE, e16]; norm_num)

/-- a row with weights `Kᵢ` applied to the computed D65 XYZ of an 8-bit colour -/
theorem row_on_xyz65 (c : Rgb) (hr : c.r ≤ 255) (hg : c.g ≤ 255) (hb : c.b ≤ 255)
    {m : RF M × RF M × RF M} {k : ℝ × ℝ × ℝ} {K1 K2 K3 : ℝ} (h : RowW M m k K1 K2 K3) :
    |(dotF' M (xyzF M .D65 c) m).val - dot k (mulVec (fwd .D65) (lin .D65 c))| ≤ dot3E K1 K2 K3 8.5e-15 1.09 := by
  obtain ⟨f1, f2, f3⟩ := xyz65_tight M c hr hg hb
  obtain ⟨b1, b2, b3⟩ := fwd65_range (lin .D65 c) (dec_level_nonneg .D65 c.r) (dec_level_le_one .D65 hr)
    (dec_level_nonneg .D65 c.g) (dec_level_le_one .D65 hg) (dec_level_nonneg .D65 c.b) (dec_level_le_one .D65 hb)
  exact dot3w' M h.1 h.2.1 h.2.2 f1 f2 f3 b1 b2 b3 (by norm_num)

/-- **reverse rows on the round trip, D65, tight**: the computed linear-light values of `Srgb.from_Xyz (from_rgb c)` within
`4.8e-14` of the exact-real model's -/
theorem rlin65_tight (c : Rgb) (hr : c.r ≤ 255) (hg : c.g ≤ 255) (hb : c.b ≤ 255) :
    |(rlinF M .D65 (xyzF M .D65 c)).1.val - (mulVec (rev .D65) (mulVec (fwd .D65) (lin .D65 c))).1| ≤ 4.8e-14 ∧
    |(rlinF M .D65 (xyzF M .D65 c)).2.1.val - (mulVec (rev .D65) (mulVec (fwd .D65) (lin .D65 c))).2.1| ≤ 4.8e-14 ∧
    |(rlinF M .D65 (xyzF M .D65 c)).2.2.val - (mulVec (rev .D65) (mulVec (fwd .D65) (lin .D65 c))).2.2| ≤ 4.8e-14 := by
  obtain ⟨r1, r2, r3⟩ := rev65_rows M
  have q1 := row_on_xyz65 M c hr hg hb r1
  have q2 := row_on_xyz65 M c hr hg hb r2
  have q3 := row_on_xyz65 M c hr hg hb r3
  have e16 : FP.eps = 1.2e-16 := rfl
  refine ⟨q1.trans ?_, q2.trans ?_, q3.trans ?_⟩ <;> (simp only [dot3E, mulE, e16]; norm_num)

/-- **BT.2020 linear components, tight**: within `2.2e-14` of the exact ones -/
theorem lin2020_tight (c : Rgb) (hr : c.r ≤ 255) (hg : c.g ≤ 255) (hb : c.b ≤ 255) :
    |(dotF' M (xyzF M .D65 c) C.rec2020_XR).val - dot C.rec2020_XR (mulVec (fwd .D65) (lin .D65 c))| ≤ 2.2e-14 ∧
    |(dotF' M (xyzF M .D65 c) C.XG).val - dot C.XG (mulVec (fwd .D65) (lin .D65 c))| ≤ 2.2e-14 ∧
    |(dotF' M (xyzF M .D65 c) C.XB).val - dot C.XB (mulVec (fwd .D65) (lin .D65 c))| ≤ 2.2e-14 := by
  obtain ⟨r1, r2, r3⟩ := rec2020_rows_w M
  have q1 := row_on_xyz65 M c hr hg hb r1
  have q2 := row_on_xyz65 M c hr hg hb r2
  have q3 := row_on_xyz65 M c hr hg hb r3
  have e16 : FP.eps = 1.2e-16 := rfl
  refine ⟨q1.trans ?_, q2.trans ?_, q3.trans ?_⟩ <;> (simp only [dot3E, mulE, e16]; norm_num)

open Lemmas.FpEnc in
/-- **sRGB forward in `RF M` against the exact-real model, tight**: each channel within `6.4e-13` -/
theorem srgb_fwd_tight (c : Rgb) (hr : c.r ≤ 255) (hg : c.g ≤ 255) (hb : c.b ≤ 255) :
    |(Srgb.from_Xyz (Xyz.from_rgb (α := RF M) c .D65)).r.val - (Srgb.from_Xyz (Xyz.from_rgb (α := ℝ) c .D65)).r| ≤ 6.4e-13 ∧
    |(Srgb.from_Xyz (Xyz.from_rgb (α := RF M) c .D65)).g.val - (Srgb.from_Xyz (Xyz.from_rgb (α := ℝ) c .D65)).g| ≤ 6.4e-13 ∧
    |(Srgb.from_Xyz (Xyz.from_rgb (α := RF M) c .D65)).b.val - (Srgb.from_Xyz (Xyz.from_rgb (α := ℝ) c .D65)).b| ≤ 6.4e-13 := by
  obtain ⟨q1, q2, q3⟩ := rlin65_tight M c hr hg hb
  have hl := fun j => roundtrip_lin .D65 (lin .D65 c) j (dec_level_nonneg .D65 c.r) (dec_level_le_one .D65 hr)
    (dec_level_nonneg .D65 c.g) (dec_level_le_one .D65 hg) (dec_level_nonneg .D65 c.b) (dec_level_le_one .D65 hb)
  have l1 := hl 0
  have l2 := hl 1
  have l3 := hl 2
  simp only [V3.get] at l1 l2 l3
  rw [from_rgb_eq, srgb_from_xyz_real, from_rgb_eq_fp', srgb_from_xyz_fp]
  dsimp only
  obtain ⟨g1, g2, g3⟩ := srgb_lin_gap c.r hr _ l1
  obtain ⟨g1', g2', g3'⟩ := srgb_lin_gap c.g hg _ l2
  obtain ⟨g1'', g2'', g3''⟩ := srgb_lin_gap c.b hb _ l3
  exact ⟨(srgb_enc_tight M _ _ _ q1 (by norm_num) g1 g2 g3).trans (by norm_num),
    (srgb_enc_tight M _ _ _ q2 (by norm_num) g1' g2' g3').trans (by norm_num),
    (srgb_enc_tight M _ _ _ q3 (by norm_num) g1'' g2'' g3'').trans (by norm_num)⟩

open Lemmas.FpEnc in
/-- channel condition of `FpEnc.oklab_core` from a forward sRGB bound `e` -/
theorem chan_of_fwd' {b x e : ℝ} {n : ℕ} (hn : n ≤ 255) (hbx : |b - x| ≤ e) (hx : |x - (n:ℝ)/255| ≤ 3.6e-6) :
    Chan b x e ∧ (1 ≤ n → 0.0039 ≤ x) := by
  obtain ⟨h1, h2⟩ := abs_le.mp hx
  have hn' : (n:ℝ) ≤ 255 := by exact_mod_cast hn
  have hle : (n:ℝ)/255 ≤ 1 := by rw [div_le_one (by norm_num)]; exact hn'
  rcases Nat.eq_zero_or_pos n with h0 | h0
  · subst h0
    simp only [Nat.cast_zero, zero_div] at h1 h2
    refine ⟨⟨hbx, Or.inr (by rw [abs_le]; constructor <;> linarith)⟩, fun h => absurd h (by norm_num)⟩
  · have h1n : (1:ℝ) ≤ n := by exact_mod_cast h0
    have : (1:ℝ)/255 ≤ (n:ℝ)/255 := div_le_div_of_nonneg_right h1n (by norm_num)
    have hb : 0.0039 ≤ x := by norm_num at this ⊢; linarith
    exact ⟨⟨hbx, Or.inl ⟨hb, by linarith⟩⟩, fun _ => hb⟩

open Lemmas.FpEnc in
/-- **OkLab of EVERY 8-bit colour via XYZ(D65), `RF M` against the exact-real model**: `8.1e-10` -/
theorem oklab_xyz_sharp (c : Rgb) (hr : c.r ≤ 255) (hg : c.g ≤ 255) (hb : c.b ≤ 255) :
    |(OkLab.from_Xyz (Xyz.from_rgb (α := RF M) c .D65)).l.val - (OkLab.from_Xyz (Xyz.from_rgb (α := ℝ) c .D65)).l| ≤ 8.1e-10 ∧
    |(OkLab.from_Xyz (Xyz.from_rgb (α := RF M) c .D65)).a.val - (OkLab.from_Xyz (Xyz.from_rgb (α := ℝ) c .D65)).a| ≤ 8.1e-10 ∧
    |(OkLab.from_Xyz (Xyz.from_rgb (α := RF M) c .D65)).b.val - (OkLab.from_Xyz (Xyz.from_rgb (α := ℝ) c .D65)).b| ≤ 8.1e-10 := by
  by_cases hnb : 1 ≤ c.r ∨ 1 ≤ c.g ∨ 1 ≤ c.b
  · obtain ⟨f1, f2, f3⟩ := srgb_fwd_tight M c hr hg hb
    obtain ⟨t1, t2, t3⟩ := Props.C08.forward_srgb_tight c hr hg hb
    obtain ⟨c1, d1⟩ := chan_of_fwd' hr f1 t1
    obtain ⟨c2, d2⟩ := chan_of_fwd' hg f2 t2
    obtain ⟨c3, d3⟩ := chan_of_fwd' hb f3 t3
    have hbright : 0.0039 ≤ (Srgb.from_Xyz (Xyz.from_rgb (α := ℝ) c .D65)).r ∨
        0.0039 ≤ (Srgb.from_Xyz (Xyz.from_rgb (α := ℝ) c .D65)).g ∨
        0.0039 ≤ (Srgb.from_Xyz (Xyz.from_rgb (α := ℝ) c .D65)).b := by
      rcases hnb with h | h | h
      · exact Or.inl (d1 h)
      · exact Or.inr (Or.inl (d2 h))
      · exact Or.inr (Or.inr (d3 h))
    obtain ⟨k1, k2, k3⟩ := oklab_core M (Srgb.from_Xyz (Xyz.from_rgb (α := RF M) c .D65))
      (Srgb.from_Xyz (Xyz.from_rgb (α := ℝ) c .D65)) 6.4e-13 (by norm_num) (by norm_num) c1 c2 c3 hbright
    exact ⟨k1.trans (by norm_num), k2.trans (by norm_num), k3.trans (by norm_num)⟩
  · have h0 : c = ⟨0, 0, 0⟩ := by
      obtain ⟨r, g, b⟩ := c
      simp only [not_or, not_le, Nat.lt_one_iff] at hnb
      simp only [Rgb.mk.injEq]; exact hnb
    subst h0
    obtain ⟨z1, z2, z3⟩ := srgb_black_fp M
    obtain ⟨k1, k2, k3⟩ := oklab_black M _ z1 z2 z3
    obtain ⟨r1, r2, r3⟩ := oklab_black_real
    rw [r1, r2, r3]
    simp only [sub_zero]
    exact ⟨k1.trans (by norm_num), k2.trans (by norm_num), k3.trans (by norm_num)⟩

end chain
end Lemmas.FpOkSharp
