import LymuiVerif.Lemmas.FpDefinedRev
import LymuiVerif.Lemmas.FpMono
/-!
# Definedness in the rounded model (C04 in floating point): CIELUV → XYZ on the image of a colour

`Xyz::from(Luv)` divides by `13·l` and by `4·v'`, `v' = v/(13·l) + v_r`.  The code guards `u == 0 && l == 0` only.
For the CIELUV of a non-black 8-bit colour we show, in every model: `l ≥ 5e-4` (so `13·l` is a normal positive number)
and `v' ≥ 0.14` (the computed `v/(13·l)` reproduces the computed `v₁₀ - v_r` up to a few ulps and `v₁₀ = 9Y/(X+15Y+3Z)
≥ 0.15` on the sRGB cone).  `vp_pos` allows a perturbation `|v'' - v| ≤ 1e-9·13·l` of `v`, which is what the detours
through LCh(uv) and HCL need.
-/
set_option linter.unusedSimpArgs false
set_option linter.unusedVariables false
namespace Lemmas.FpDefined
open Gen
variable {M : FPModel}

/-! ## three-digit rounding bounds -/
theorem rnd_lo3 {x : ℝ} (h : 1e-200 ≤ x) : 0.999 * x ≤ M.rnd x := by
  have h0 : 0 ≤ x := le_trans (by norm_num) h
  have := rnd_ge (M := M) h
  have e : FP.eps = 1.2e-16 := rfl
  rw [e] at this; nlinarith
theorem rnd_hi3 {x : ℝ} (h : 1e-200 ≤ x) : M.rnd x ≤ 1.001 * x := by
  have h0 : 0 ≤ x := le_trans (by norm_num) h
  have := rnd_le (M := M) h
  have e : FP.eps = 1.2e-16 := rfl
  rw [e] at this; nlinarith
theorem rnd_hi0 {x : ℝ} (h : 0 ≤ x) : M.rnd x ≤ 1.001 * x + 1e-200 := by
  have e := (abs_le.mp (M.rnd_err x)).2
  rw [abs_of_nonneg h] at e
  have hu := FP.u_lt
  have he := FP.eta_lt
  have : (1 : ℝ) / 10 ^ 240 ≤ 1e-200 := by norm_num
  nlinarith

/-- the computed XYZ of a non-black colour of the sRGB cone (also satisfied by the white point constants) -/
structure Cone (p : Xyz (RF M)) : Prop where
  x0 : 0 ≤ p.x.val
  y0 : 19 / 10 ^ 6 ≤ p.y.val
  y1 : p.y.val ≤ 101 / 100
  z0 : 0 ≤ p.z.val
  xy : p.x.val ≤ 26 / 10 * p.y.val
  zy : p.z.val ≤ 133 / 10 * p.y.val

theorem Cone.ok {p : Xyz (RF M)} (h : Cone p) : XyzOK p :=
  Or.inr ⟨h.x0, le_trans (by norm_num) h.y0, h.z0⟩

/-- the chromaticity compounds on the cone: `0 ≤ u' ≤ 1`, `0.15 ≤ v' ≤ 1` -/
theorem compounds_range (x y z : RF M) (hx : 0 ≤ x.val) (hy0 : 1 / 10 ^ 6 ≤ y.val) (hz : 0 ≤ z.val)
    (hxy : x.val ≤ 26 / 10 * y.val) (hzy : z.val ≤ 133 / 10 * y.val) :
    (0 ≤ (Luv.compute_compounds x y z).1.val ∧ (Luv.compute_compounds x y z).1.val ≤ 1) ∧
    (15 / 100 ≤ (Luv.compute_compounds x y z).2.val ∧ (Luv.compute_compounds x y z).2.val ≤ 1) := by
  have hyne : y.val ≠ 0 := by intro h; rw [h] at hy0; norm_num at hy0
  have e : Luv.compute_compounds x y z =
      (Flt.lit 0x4010000000000000 4 1 * x / ((x + Flt.lit 0x402E000000000000 15 1 * y) + Flt.lit 0x4008000000000000 3 1 * z),
        Flt.lit 0x4022000000000000 9 1 * y / ((x + Flt.lit 0x402E000000000000 15 1 * y) + Flt.lit 0x4008000000000000 3 1 * z)) := by
    unfold Luv.compute_compounds
    have hb : Flt.beq y (Flt.lit 0x0000000000000000 0 1 : RF M) = false := by
      simp only [FltRF.beq_eq, lit_zero, decide_eq_false_iff_not]; exact hyne
    simp only [hb, Bool.false_eq_true, if_false, ite_self]
  rw [e]
  simp only [FltRF.div_val, FltRF.mul_val, FltRF.add_val]
  rw [lit_int_val _ 4 (by norm_num), lit_int_val _ 15 (by norm_num), lit_int_val _ 3 (by norm_num),
    lit_int_val _ 9 (by norm_num)]
  generalize x.val = X at *
  generalize y.val = Y at *
  generalize z.val = Z at *
  push_cast
  have hY : (0 : ℝ) < Y := lt_of_lt_of_le (by norm_num) hy0
  have a1 := rnd_lo3 (M := M) (x := 15 * Y) (by norm_num at hy0 ⊢; linarith)
  have a2 := rnd_hi3 (M := M) (x := 15 * Y) (by norm_num at hy0 ⊢; linarith)
  have b1 := rnd_lo3 (M := M) (x := X + M.rnd (15 * Y)) (by norm_num at hy0 ⊢; linarith)
  have b2 := rnd_hi3 (M := M) (x := X + M.rnd (15 * Y)) (by norm_num at hy0 ⊢; linarith)
  have c0 : 0 ≤ M.rnd (3 * Z) := FpErr.rnd_nonneg M (by linarith)
  have c2 := rnd_hi0 (M := M) (x := 3 * Z) (by linarith)
  have d1 := rnd_lo3 (M := M) (x := M.rnd (X + M.rnd (15 * Y)) + M.rnd (3 * Z)) (by norm_num at hy0 ⊢; linarith)
  have d2 := rnd_hi3 (M := M) (x := M.rnd (X + M.rnd (15 * Y)) + M.rnd (3 * Z)) (by norm_num at hy0 ⊢; linarith)
  generalize M.rnd (M.rnd (X + M.rnd (15 * Y)) + M.rnd (3 * Z)) = D at *
  have hD1 : 14.9 * Y ≤ D := by norm_num at *; linarith
  have hD2 : D ≤ 57.7 * Y := by norm_num at *; linarith
  have hD : 0 < D := by nlinarith
  have n9a := rnd_lo3 (M := M) (x := 9 * Y) (by norm_num at hy0 ⊢; linarith)
  have n9b := rnd_hi3 (M := M) (x := 9 * Y) (by norm_num at hy0 ⊢; linarith)
  have n40 : 0 ≤ M.rnd (4 * X) := FpErr.rnd_nonneg M (by linarith)
  have n4b := rnd_hi0 (M := M) (x := 4 * X) (by linarith)
  refine ⟨⟨FpErr.rnd_nonneg M (div_nonneg n40 hD.le), FpErr.rnd_le_one M ?_⟩, ?_, FpErr.rnd_le_one M ?_⟩
  · rw [div_le_one hD]; norm_num at *; linarith
  · have q : 155 / 1000 ≤ M.rnd (9 * Y) / D := by
      rw [le_div_iff₀ hD]; norm_num at *; linarith
    have := rnd_lo3 (M := M) (x := M.rnd (9 * Y) / D) (le_trans (by norm_num) q)
    norm_num at *; linarith
  · rw [div_le_one hD]; norm_num at *; linarith

/-- the white point satisfies the same bounds -/
theorem compounds_white_range :
    let w := Luv.compute_compounds (C.D65 : RF M × RF M × RF M).1 (C.D65 : RF M × RF M × RF M).2.1
      (C.D65 : RF M × RF M × RF M).2.2
    (0 ≤ w.1.val ∧ w.1.val ≤ 1) ∧ (15 / 100 ≤ w.2.val ∧ w.2.val ≤ 1) := by
  intro w
  have hy : (C.D65 : RF M × RF M × RF M).2.1.val = 1 := by
    simp only [C.D65]; rw [lit_int_val _ 1 (by norm_num)]; norm_num
  have hx1 : (C.D65 : RF M × RF M × RF M).1.val ≤ 1 := by
    simp only [C.D65, FltRF.lit_val]; exact FpErr.rnd_le_one M (by norm_num)
  have hz1 : (C.D65 : RF M × RF M × RF M).2.2.val ≤ 2 := by
    simp only [C.D65, FltRF.lit_val]
    have := FpErr.rnd_le_nat M 2 (by norm_num) (x := ((108883 : ℕ) : ℝ) / ((100000 : ℕ) : ℝ)) (by norm_num)
    exact_mod_cast this
  apply compounds_range
  · simp only [C.D65]; exact lit_nonneg _ _ _
  · rw [hy]; norm_num
  · simp only [C.D65]; exact lit_nonneg _ _ _
  · rw [hy]; linarith
  · rw [hy]; linarith

/-- **no division by zero in `Xyz::from(Luv)`**: the computed `4·(v''/t + v_r)` is positive when `v''` is within
`t·1e-9` of the product `t·d`, `d` within `1e-9` of `v₁₀ - v_r`, `v₁₀ ≥ 0.15` -/
theorem vp_pos {t d v vr v10 : ℝ} (ht : 1 / 10 ^ 4 ≤ t) (hd : |d - (v10 - vr)| ≤ 1 / 10 ^ 9)
    (hv : |v - t * d| ≤ t / 10 ^ 9) (h10 : 15 / 100 ≤ v10) (h10' : v10 ≤ 1) (hr0 : 0 ≤ vr) (hr1 : vr ≤ 1) :
    0 < M.rnd (4 * M.rnd (M.rnd (v / t) + vr)) := by
  have ht0 : 0 < t := lt_of_lt_of_le (by norm_num) ht
  obtain ⟨d1, d2⟩ := abs_le.mp hd
  have hq : |v / t - d| ≤ 1 / 10 ^ 9 := by
    have e : v / t - d = (v - t * d) / t := by field_simp
    rw [e, abs_div, abs_of_pos ht0, div_le_iff₀ ht0]
    calc |v - t * d| ≤ t / 10 ^ 9 := hv
      _ = 1 / 10 ^ 9 * t := by ring
  obtain ⟨q1, q2⟩ := abs_le.mp hq
  have hb : |v / t| ≤ 2 := by rw [abs_le]; constructor <;> linarith
  have r := (abs_le.mp (FpErr.rnd_abs M hb (by norm_num))).1
  have e16 : FP.eps = 1.2e-16 := rfl
  rw [e16] at r
  have s : 14 / 100 ≤ M.rnd (v / t) + vr := by norm_num at *; linarith
  have s2 := rnd_half (M := M) (x := M.rnd (v / t) + vr) (le_trans (by norm_num) s)
  exact rnd_pos (by norm_num at *; linarith)

/-- the lightness of CIELUV of a non-black colour is a normal positive number, in every model -/
theorem luv_l_lower (p : Xyz (RF M)) (h : Cone p) : 5 / 10 ^ 4 ≤ (Luv.from_Xyz p).l.val := by
  rw [Lemmas.FpMono.luv_l_eq_fp]
  have hy0 : 0 ≤ p.y.val := le_trans (by norm_num) h.y0
  have c := (abs_le.mp (Lemmas.FpMono.luvLF_close M hy0 h.y1)).1
  have t0 := rnd_lo3 (M := M) (x := p.y.val) (le_trans (by norm_num) h.y0)
  have t1 : M.rnd p.y.val ≤ 11 / 10 := by
    have := rnd_hi3 (M := M) (x := p.y.val) (le_trans (by norm_num) h.y0)
    have := h.y1; norm_num at *; linarith
  have g := Lemmas.FpMono.lTh_gap (θ := Lemmas.FpMono.thF M) (a := 0) (b := M.rnd p.y.val)
    (Lemmas.FpMono.thF_close M) le_rfl (FpErr.rnd_nonneg M hy0) t1
  have th0 : 0 ≤ Lemmas.FpMono.thF M := FpErr.rnd_nonneg M (by positivity)
  have l0 : Lemmas.FpMono.lTh (Lemmas.FpMono.thF M) 0 = 0 := by
    unfold Lemmas.FpMono.lTh; rw [if_neg (not_lt.mpr th0)]; ring
  rw [l0] at g
  have := h.y0
  norm_num at *; linarith

/-! ## the bridging lemma for `Xyz::from(Luv)` -/

/-- the white-point compounds in `RF M` -/
noncomputable abbrev whiteC (M : FPModel) : RF M × RF M :=
  Luv.compute_compounds (C.D65 : RF M × RF M × RF M).1 (C.D65 : RF M × RF M × RF M).2.1 (C.D65 : RF M × RF M × RF M).2.2

theorem xyz_from_luv (q : Luv (RF M)) (h0 : q.l.val = 0 → q.u.val = 0)
    (ht : q.l.val ≠ 0 → (Flt.lit 0x402A000000000000 13 1 * q.l : RF M).val ≠ 0)
    (hv : q.l.val ≠ 0 → (Flt.lit 0x4010000000000000 4 1 *
      (q.v / (Flt.lit 0x402A000000000000 13 1 * q.l) + (whiteC M).2) : RF M).val ≠ 0) :
    Xyz.from_Luv (liftLuv q) = liftXyz (Xyz.from_Luv q) := by
  unfold Xyz.from_Luv
  rw [compounds_white_bridge]
  simp only [liftLuv_l, liftLuv_u, liftLuv_v, liftPair_1, liftPair_2, C.KAPPA, C.EPSILON, h_lit, h_beq, h_mul, h_lt]
  have B : q.l.val ≠ 0 → ∀ (X : Xyz (PRF M)) (Y : Xyz (RF M)),
      X = (let v8 : PRF M × PRF M := liftPair (whiteC M)
        if Flt.lt (Flt.lit 0x408C3A6666666666 9033 10 * Flt.lit 0x3F82231832FCAC8E 1107 125000) q.l = true then
          let y_21 : PRF M := Flt.powi ((RF.lift q.l + RF.lift (Flt.lit 0x4030000000000000 16 1)) / RF.lift (Flt.lit 0x405D000000000000 116 1)) 3
          let up_29 : PRF M := RF.lift q.u / RF.lift (Flt.lit 0x402A000000000000 13 1 * q.l) + v8.1
          let vp_34 : PRF M := RF.lift q.v / RF.lift (Flt.lit 0x402A000000000000 13 1 * q.l) + v8.2
          ({ x := y_21 * (RF.lift (Flt.lit 0x4022000000000000 9 1) * up_29) / (RF.lift (Flt.lit 0x4010000000000000 4 1) * vp_34),
             y := y_21,
             z := y_21 * (RF.lift (Flt.lit 0x4028000000000000 12 1) - RF.lift (Flt.lit 0x4008000000000000 3 1) * up_29 -
                  RF.lift (Flt.lit 0x4034000000000000 20 1) * vp_34) / (RF.lift (Flt.lit 0x4010000000000000 4 1) * vp_34) } : Xyz (PRF M))
        else
          let y_21 : PRF M := RF.lift q.l / RF.lift (Flt.lit 0x408C3A6666666666 9033 10)
          let up_29 : PRF M := RF.lift q.u / RF.lift (Flt.lit 0x402A000000000000 13 1 * q.l) + v8.1
          let vp_34 : PRF M := RF.lift q.v / RF.lift (Flt.lit 0x402A000000000000 13 1 * q.l) + v8.2
          { x := y_21 * (RF.lift (Flt.lit 0x4022000000000000 9 1) * up_29) / (RF.lift (Flt.lit 0x4010000000000000 4 1) * vp_34),
            y := y_21,
            z := y_21 * (RF.lift (Flt.lit 0x4028000000000000 12 1) - RF.lift (Flt.lit 0x4008000000000000 3 1) * up_29 -
                  RF.lift (Flt.lit 0x4034000000000000 20 1) * vp_34) / (RF.lift (Flt.lit 0x4010000000000000 4 1) * vp_34) }) →
      Y = (let v8 : RF M × RF M := whiteC M
        if Flt.lt (Flt.lit 0x408C3A6666666666 9033 10 * Flt.lit 0x3F82231832FCAC8E 1107 125000) q.l = true then
          let y_21 : RF M := Flt.powi ((q.l + Flt.lit 0x4030000000000000 16 1) / Flt.lit 0x405D000000000000 116 1) 3
          let up_29 : RF M := q.u / (Flt.lit 0x402A000000000000 13 1 * q.l) + v8.1
          let vp_34 : RF M := q.v / (Flt.lit 0x402A000000000000 13 1 * q.l) + v8.2
          ({ x := y_21 * (Flt.lit 0x4022000000000000 9 1 * up_29) / (Flt.lit 0x4010000000000000 4 1 * vp_34),
             y := y_21,
             z := y_21 * (Flt.lit 0x4028000000000000 12 1 - Flt.lit 0x4008000000000000 3 1 * up_29 -
                  Flt.lit 0x4034000000000000 20 1 * vp_34) / (Flt.lit 0x4010000000000000 4 1 * vp_34) } : Xyz (RF M))
        else
          let y_21 : RF M := q.l / Flt.lit 0x408C3A6666666666 9033 10
          let up_29 : RF M := q.u / (Flt.lit 0x402A000000000000 13 1 * q.l) + v8.1
          let vp_34 : RF M := q.v / (Flt.lit 0x402A000000000000 13 1 * q.l) + v8.2
          { x := y_21 * (Flt.lit 0x4022000000000000 9 1 * up_29) / (Flt.lit 0x4010000000000000 4 1 * vp_34),
            y := y_21,
            z := y_21 * (Flt.lit 0x4028000000000000 12 1 - Flt.lit 0x4008000000000000 3 1 * up_29 -
                  Flt.lit 0x4034000000000000 20 1 * vp_34) / (Flt.lit 0x4010000000000000 4 1 * vp_34) }) →
      X = liftXyz Y := by
    intro hl X Y hX hY
    have h13 := ht hl
    have h4 := hv hl
    rw [hX, hY]
    simp only [liftPair_1, liftPair_2]
    refine ite_map liftXyz (fun _ => ?_) (fun _ => ?_)
    · simp (disch := first | assumption | lit_side | norm_num) only [h_add, h_div, h_powi, h_mul, h_sub, liftXyz]
    · simp (disch := first | assumption | lit_side | norm_num) only [h_add, h_div, h_powi, h_mul, h_sub, liftXyz]
  refine ite_map liftXyz (fun c1 => ite_map liftXyz (fun _ => rfl) (fun c2 => ?_)) (fun c1 => ?_)
  · simp only [FltRF.beq_eq, decide_eq_false_iff_not, lit_zero] at c2
    exact B c2 _ _ rfl rfl
  · simp only [FltRF.beq_eq, decide_eq_false_iff_not, lit_zero] at c1
    exact B (fun h => c1 (h0 h)) _ _ rfl rfl

/-! ## the image of a colour -/

theorem luv_form (p : Xyz (RF M)) :
    (Luv.from_Xyz p).u = (Flt.lit 0x402A000000000000 13 1 * (Luv.from_Xyz p).l) *
      ((Luv.compute_compounds p.x p.y p.z).1 - (whiteC M).1) ∧
    (Luv.from_Xyz p).v = (Flt.lit 0x402A000000000000 13 1 * (Luv.from_Xyz p).l) *
      ((Luv.compute_compounds p.x p.y p.z).2 - (whiteC M).2) := by
  unfold Luv.from_Xyz
  dsimp only
  split_ifs <;> exact ⟨rfl, rfl⟩

theorem luv_l_black (p : Xyz (RF M)) (hy : p.y.val = 0) : (Luv.from_Xyz p).l.val = 0 := by
  rw [Lemmas.FpMono.luv_l_eq_fp, hy]
  unfold Lemmas.FpMono.luvLF
  have th0 : 0 ≤ M.rnd (((1107 : ℕ) : ℝ) / ((125000 : ℕ) : ℝ)) := FpErr.rnd_nonneg M (by positivity)
  rw [FpErr.rnd_zero, if_neg (not_lt.mpr th0), mul_zero, FpErr.rnd_zero]

/-- **`Xyz::from(Luv)` on what the three routes (direct, through LCh(uv), through HCL) feed into it**: the lightness of
the CIELUV of `p`, a `u` that is `0` for black, a `v` within `13·l·1e-10` of the CIELUV `v` otherwise -/
theorem xyz_from_luv_near (p : Xyz (RF M)) (q : Luv (RF M)) (hl : q.l = (Luv.from_Xyz p).l)
    (hp : (p.x.val = 0 ∧ p.y.val = 0 ∧ p.z.val = 0) ∨ Cone p)
    (hb : (p.x.val = 0 ∧ p.y.val = 0 ∧ p.z.val = 0) → q.u.val = 0)
    (hc : Cone p → |q.v.val - (Luv.from_Xyz p).v.val| ≤
      (Flt.lit 0x402A000000000000 13 1 * (Luv.from_Xyz p).l : RF M).val / 10 ^ 10) :
    Xyz.from_Luv (liftLuv q) = liftXyz (Xyz.from_Luv q) := by
  rcases hp with hz | hcone
  · have l0 : q.l.val = 0 := by rw [hl]; exact luv_l_black p hz.2.1
    exact xyz_from_luv q (fun _ => hb hz) (fun h => absurd l0 h) (fun h => absurd l0 h)
  · have hL := luv_l_lower p hcone
    have hq := hc hcone
    rw [← hl] at hL hq
    have e16 : FP.eps = 1.2e-16 := rfl
    -- t = rnd (13 l)
    have ht : 3 / 10 ^ 3 ≤ (Flt.lit 0x402A000000000000 13 1 * q.l : RF M).val := by
      rw [FltRF.mul_val, lit_int_val _ 13 (by norm_num)]
      have := rnd_half (M := M) (x := ((13 : ℕ) : ℝ) * q.l.val) (by push_cast; norm_num at hL ⊢; linarith)
      push_cast at this ⊢; norm_num at hL ⊢; linarith
    refine xyz_from_luv q (fun h => ?_) (fun _ => ?_) (fun _ => ?_)
    · rw [h] at hL; norm_num at hL
    · intro h; rw [h] at ht; norm_num at ht
    · obtain ⟨-, ⟨c1, c2⟩⟩ := compounds_range p.x p.y p.z hcone.x0 (le_trans (by norm_num) hcone.y0) hcone.z0
        hcone.xy hcone.zy
      obtain ⟨-, ⟨w1, w2⟩⟩ := compounds_white_range (M := M)
      have ev := (luv_form p).2
      rw [← hl] at ev
      rw [FltRF.mul_val, FltRF.add_val, FltRF.div_val, lit_int_val _ 4 (by norm_num)]
      have key := vp_pos (M := M) (t := (Flt.lit 0x402A000000000000 13 1 * q.l : RF M).val)
        (d := ((Luv.compute_compounds p.x p.y p.z).2 - (whiteC M).2 : RF M).val) (v := q.v.val)
        (vr := (whiteC M).2.val) (v10 := (Luv.compute_compounds p.x p.y p.z).2.val)
        (le_trans (by norm_num) ht) ?_ ?_ c1 c2 (le_trans (by norm_num) w1) w2
      · push_cast; exact key.ne'
      · rw [FltRF.sub_val]
        have hb1 : |(Luv.compute_compounds p.x p.y p.z).2.val - (whiteC M).2.val| ≤ 1 := by
          rw [abs_le]; constructor <;> linarith
        refine le_trans (FpErr.rnd_abs M hb1 (by norm_num)) ?_
        rw [e16]; norm_num
      · -- |q.v - t d| ≤ |q.v - v| + |v - t d|
        have hd2 : |((Luv.compute_compounds p.x p.y p.z).2 - (whiteC M).2 : RF M).val| ≤ 2 := by
          rw [FltRF.sub_val]
          have hb1 : |(Luv.compute_compounds p.x p.y p.z).2.val - (whiteC M).2.val| ≤ 1 := by
            rw [abs_le]; constructor <;> linarith
          have := abs_le.mp (FpErr.rnd_abs M hb1 (by norm_num))
          rw [e16] at this
          rw [abs_le]; obtain ⟨h1, h2⟩ := abs_le.mp hb1
          constructor <;> norm_num at * <;> linarith
        have hv0 : (Luv.from_Xyz p).v.val = M.rnd ((Flt.lit 0x402A000000000000 13 1 * q.l : RF M).val *
            ((Luv.compute_compounds p.x p.y p.z).2 - (whiteC M).2 : RF M).val) := by
          rw [ev, FltRF.mul_val]
        generalize (Flt.lit 0x402A000000000000 13 1 * q.l : RF M).val = t at *
        generalize ((Luv.compute_compounds p.x p.y p.z).2 - (whiteC M).2 : RF M).val = d at *
        have ht0 : 0 ≤ t := le_trans (by norm_num) ht
        have hprod : |t * d| ≤ 2 * t := by
          rw [abs_mul, abs_of_nonneg ht0]; nlinarith [abs_nonneg d]
        have r := FpErr.rnd_abs M hprod (by norm_num at ht ⊢; linarith)
        rw [← hv0, e16] at r
        have tri := abs_sub_le q.v.val (Luv.from_Xyz p).v.val (t * d)
        have : t / 10 ^ 10 + 1.2e-16 * (2 * t) ≤ t / 10 ^ 9 := by norm_num; linarith
        linarith

end Lemmas.FpDefined
