import LymuiVerif.Lemmas.FpDefinedImage
/-!
# `powf` of a non-negative base is non-negative: consequences for the PQ curve

History: before the field `FPModel.pow_nonneg` existed, `FPModel.pow_err` alone allowed `pow 0 y = -η` (binary64: `-2^-1075`),
and a counter-model (exact arithmetic with exactly this change) made the Hunter Lab and Rec.2100 round trips of BLACK compute
`sqrt(-η)` resp. `powf(-η, m1)` = NaN.  Every libm returns `+0` there, so the field was added to the structure (it is proved for
`FPModel.exact` and carried by `LibM`), and the round trips are now theorems of every model.
-/
set_option linter.unusedSimpArgs false
set_option linter.unusedVariables false
namespace Lemmas.FpDefined
open Gen

variable {M : FPModel}
theorem mul_nan (a : PRF M) : a * PRF.nan = PRF.nan := by
  obtain ⟨v⟩ := a; cases v <;> rfl
theorem nan_mul (a : PRF M) : PRF.nan * a = PRF.nan := by
  obtain ⟨v⟩ := a; cases v <;> rfl
theorem nan_add (a : PRF M) : PRF.nan + a = PRF.nan := by
  obtain ⟨v⟩ := a; cases v <;> rfl

/-! ## what the missing field would give -/

/-- with `powf ≥ 0` on non-negative bases, the code's PQ value of every non-negative argument is `≥ 0` -/
theorem pq_eotf_val_nonneg_of (hpow : ∀ x y : ℝ, 0 ≤ x → 0 ≤ M.pow x y) (x : RF M) (hx : 0 ≤ x.val) :
    0 ≤ (F64.pq_eotf x).val := by
  unfold F64.pq_eotf
  simp only []
  have he : 0 ≤ (Flt.pow x (Flt.lit 0x3FF0000000000000 1 1 / Flt.lit 0x4053B60000000000 2523 32) : RF M).val := by
    rw [FltRF.pow_val]; exact hpow _ _ hx
  generalize (Flt.pow x (Flt.lit 0x3FF0000000000000 1 1 / Flt.lit 0x4053B60000000000 2523 32) : RF M) = e at he
  split_ifs
  · exact lit_nonneg _ _ _
  · rw [FltRF.mul_val, FltRF.pow_val]
    apply FpErr.rnd_nonneg
    apply mul_nonneg (lit_nonneg _ _ _)
    apply hpow
    rw [FltRF.div_val]
    apply FpErr.rnd_nonneg
    apply div_nonneg
    · rw [FltRF.max_val, lit_zero]; exact le_max_right _ _
    · rw [FltRF.mul_val]
      apply FpErr.rnd_nonneg
      apply mul_nonneg _ he
      rw [FltRF.sub_val, FltRF.lit_val, FltRF.lit_val]
      apply FpErr.rnd_nonneg
      have : M.rnd (((299 : ℕ) : ℝ) / ((16 : ℕ) : ℝ)) ≤ M.rnd (((2413 : ℕ) : ℝ) / ((128 : ℕ) : ℝ)) :=
        M.rnd_mono (by norm_num)
      linarith

theorem hlab_l_nonneg (p : Xyz (RF M)) (hy : 0 ≤ p.y.val) : 0 ≤ ((Hlab.from_Xyz p).l / (C.YN : RF M)).val := by
  rw [FltRF.div_val]
  apply FpErr.rnd_nonneg
  apply div_nonneg _ (by simp only [C.YN]; exact lit_nonneg _ _ _)
  unfold Hlab.from_Xyz
  split_ifs
  · exact lit_nonneg _ _ _
  · simp only [FltRF.mul_val, FltRF.sqrt_val]
    exact FpErr.rnd_nonneg M (mul_nonneg (lit_nonneg _ _ _) (FpErr.rnd_nonneg M (Real.sqrt_nonneg _)))

end Lemmas.FpDefined
