import LymuiVerif.Core.Hex
/-!
# Lemmas about the hand model of `hex.rs` (core Lean only)

The parser `Gen.HexHand.Rgb.try_from_Hex` is characterised, for ALL strings (lists of arbitrary code points),
by two pure readers parameterised by the digit-value function: `read6 dv t` reads the first six
characters of `t` two by two, `read3 dv t` reads the first three, each doubled.
-/
namespace Lemmas.Hex
open Gen

/-- two digits `a b` read as `16·a + b` -/
def pair (dv : Nat → Option Nat) (a b : Nat) : Option Nat :=
  match dv a, dv b with
  | some x, some y => some (16 * x + y)
  | _, _ => none

/-- the next two characters read as one channel, and the remaining text -/
def take2 (dv : Nat → Option Nat) : Str → Option (Nat × Str)
  | a :: b :: rest => (match pair dv a b with | some v => some (v, rest) | none => none)
  | _ => none

/-- the first six characters, read two by two -/
def read6 (dv : Nat → Option Nat) (t : Str) : Option (Nat × Nat × Nat) :=
  match take2 dv t with
  | none => none
  | some (r, t1) =>
    match take2 dv t1 with
    | none => none
    | some (g, t2) =>
      match take2 dv t2 with
      | none => none
      | some (b, _) => some (r, g, b)

/-- the first three characters, each doubled -/
def read3 (dv : Nat → Option Nat) : Str → Option (Nat × Nat × Nat)
  | d0 :: d1 :: d2 :: _ =>
    (match dv d0, dv d1, dv d2 with
     | some x, some y, some z => some (17 * x, 17 * y, 17 * z)
     | _, _, _ => none)
  | _ => none

/-! ## digits -/

theorem hexDigitVal_lt {c v : Nat} (h : HexHand.hexDigitVal c = some v) : v < 16 := by
  unfold HexHand.hexDigitVal at h
  split at h
  · cases h; omega
  · split at h
    · cases h; omega
    · split at h
      · cases h; omega
      · cases h

theorem hexDigitVal_ascii {c v : Nat} (h : HexHand.hexDigitVal c = some v) : c < 128 := by
  unfold HexHand.hexDigitVal at h
  split at h
  · omega
  · split at h
    · omega
    · split at h
      · omega
      · cases h

theorem utf8Len_hex {c v : Nat} (h : HexHand.hexDigitVal c = some v) : utf8Len c = 1 := by
  have := hexDigitVal_ascii h
  simp [utf8Len, this]

theorem hexDigitVal_hash : HexHand.hexDigitVal 35 = none := by decide

/-! ## byte offsets -/

theorem isBoundary_self (k : Nat) (s : Str) : Str.isBoundary k k s = true := by
  cases s <;> simp [Str.isBoundary]

theorem isBoundary_gt (k : Nat) : ∀ (s : Str) (off : Nat), k < off → Str.isBoundary k off s = false := by
  intro s off h
  cases s with
  | nil => simp [Str.isBoundary]; omega
  | cons c cs =>
    simp [Str.isBoundary]
    constructor
    · omega
    · intro h'; omega

theorem beq_shift (a b d : Nat) : (a + d == b + d) = (a == b) := by
  rw [Bool.eq_iff_iff]; simp

theorem isBoundary_shift (d k : Nat) : ∀ (s : Str) (off : Nat),
    Str.isBoundary (k + d) (off + d) s = Str.isBoundary k off s := by
  intro s
  induction s with
  | nil => intro off; simp [Str.isBoundary, beq_shift]
  | cons c cs ih =>
    intro off
    simp only [Str.isBoundary]
    have : off + d + utf8Len c = off + utf8Len c + d := by omega
    rw [this, ih]
    simp [beq_shift]

theorem charsIn_shift (d a b : Nat) : ∀ (s : Str) (off : Nat),
    Str.charsIn (a + d) (b + d) (off + d) s = Str.charsIn a b off s := by
  intro s
  induction s with
  | nil => intro off; simp [Str.charsIn]
  | cons c cs ih =>
    intro off
    simp only [Str.charsIn]
    have : off + d + utf8Len c = off + utf8Len c + d := by omega
    rw [this, ih]
    simp

theorem charsIn_ge (a b : Nat) : ∀ (s : Str) (off : Nat), b ≤ off → Str.charsIn a b off s = [] := by
  intro s
  induction s with
  | nil => intro off _; simp [Str.charsIn]
  | cons c cs ih =>
    intro off h
    simp only [Str.charsIn]
    have h1 : ¬ (a ≤ off ∧ off < b) := by omega
    rw [if_neg h1]
    exact ih _ (by omega)

/-- a one-byte first character shifts every range by one -/
theorem getRange_shift1 (c : Nat) (rest : Str) (a b : Nat) (hc : utf8Len c = 1) :
    Str.getRange (c :: rest) (a + 1) (b + 1) = Str.getRange rest a b := by
  have h1 : ∀ k, Str.isBoundary (k + 1) 0 (c :: rest) = Str.isBoundary k 0 rest := by
    intro k
    simp only [Str.isBoundary, hc]
    have := isBoundary_shift 1 k rest 0
    simp at this
    simp [this]
  have h2 : Str.charsIn (a + 1) (b + 1) 0 (c :: rest) = Str.charsIn a b 0 rest := by
    simp only [Str.charsIn, hc]
    have := charsIn_shift 1 a b rest 0
    simp at this
    simp [this]
  simp only [Str.getRange, h1, h2]
  simp

theorem getRange_shift2 (c0 c1 : Nat) (rest : Str) (a b : Nat) (h0 : utf8Len c0 = 1) (h1 : utf8Len c1 = 1) :
    Str.getRange (c0 :: c1 :: rest) (a + 2) (b + 2) = Str.getRange rest a b := by
  rw [show a + 2 = (a + 1) + 1 from rfl, show b + 2 = (b + 1) + 1 from rfl,
    getRange_shift1 _ _ _ _ h0, getRange_shift1 _ _ _ _ h1]

/-! ## one channel -/

/-- the channel at byte offset `k`: `get(k..k+2)` then the closure `parse` -/
def part (t : Str) (k : Nat) : Option Nat := (Str.getRange t k (k + 2)).bind HexHand.Hex.parsePart

theorem parsePart_cons_none {a : Nat} (l : Str) (h : HexHand.hexDigitVal a = none) : HexHand.Hex.parsePart (a :: l) = none := by
  simp [HexHand.Hex.parsePart, h]

theorem parsePart_cons_cons_none {a b : Nat} (l : Str) (h : HexHand.hexDigitVal b = none) :
    HexHand.Hex.parsePart (a :: b :: l) = none := by
  simp [HexHand.Hex.parsePart, h]

theorem parsePart_two {a b va vb : Nat} (ha : HexHand.hexDigitVal a = some va) (hb : HexHand.hexDigitVal b = some vb) :
    HexHand.Hex.parsePart [a, b] = some (16 * va + vb) := by
  have := hexDigitVal_lt ha
  have := hexDigitVal_lt hb
  have h1 : va ≤ 255 := by omega
  have h2 : va * 16 + vb ≤ 255 := by omega
  have h3 : va * 16 + vb = 16 * va + vb := by omega
  have h4 : 16 * va + vb ≤ 255 := by omega
  simp [HexHand.Hex.parsePart, HexHand.parseHexDigits, ha, hb, h1, h3, h4]

/-- the first channel is the first two characters, both hexadecimal digits -/
theorem part_zero : ∀ t : Str, part t 0 =
    (match t with
     | a :: b :: _ => pair HexHand.hexDigitVal a b
     | _ => none) := by
  intro t
  match t with
  | [] => simp [part, Str.getRange, Str.isBoundary]
  | a :: t1 =>
    cases ha : HexHand.hexDigitVal a with
    | none =>
      have : part (a :: t1) 0 = none := by
        simp only [part, Str.getRange, Str.charsIn]
        split
        · simp [parsePart_cons_none _ ha]
        · rfl
      rw [this]
      cases t1 <;> simp [pair, ha]
    | some va =>
      have hl := utf8Len_hex ha
      match t1 with
      | [] => simp [part, Str.getRange, Str.isBoundary, hl]
      | b :: t2 =>
        cases hb : HexHand.hexDigitVal b with
        | none =>
          have : part (a :: b :: t2) 0 = none := by
            simp only [part, Str.getRange, Str.charsIn, hl]
            split
            · simp [parsePart_cons_cons_none _ hb]
            · rfl
          rw [this]
          simp [pair, ha, hb]
        | some vb =>
          have hl' := utf8Len_hex hb
          have hb2 : Str.isBoundary 2 0 (a :: b :: t2) = true := by
            simp [Str.isBoundary, hl, hl', isBoundary_self]
          have hc : Str.charsIn 0 2 0 (a :: b :: t2) = [a, b] := by
            simp [Str.charsIn, hl, hl', charsIn_ge]
          simp [part, Str.getRange, hb2, hc, isBoundary_self, parsePart_two ha hb, pair, ha, hb]


theorem take2_some {dv : Nat → Option Nat} {t t1 : Str} {r : Nat} (h : take2 dv t = some (r, t1)) :
    ∃ a b va vb, t = a :: b :: t1 ∧ dv a = some va ∧ dv b = some vb ∧ r = 16 * va + vb := by
  match t with
  | [] => simp [take2] at h
  | [_] => simp [take2] at h
  | a :: b :: rest =>
    simp only [take2, pair] at h
    cases ha : dv a with
    | none => simp [ha] at h
    | some va =>
      cases hb : dv b with
      | none => simp [ha, hb] at h
      | some vb =>
        simp [ha, hb] at h
        exact ⟨a, b, va, vb, by rw [h.2], ha, hb, h.1.symm⟩

theorem part_zero_take2 (t : Str) : part t 0 = (take2 HexHand.hexDigitVal t).map Prod.fst := by
  rw [part_zero]
  match t with
  | [] => rfl
  | [_] => rfl
  | a :: b :: rest =>
    simp only [take2]
    cases pair HexHand.hexDigitVal a b <;> rfl

theorem part_shift2 {a b va vb : Nat} (rest : Str) (k : Nat)
    (ha : HexHand.hexDigitVal a = some va) (hb : HexHand.hexDigitVal b = some vb) :
    part (a :: b :: rest) (k + 2) = part rest k := by
  simp only [part]
  rw [getRange_shift2 _ _ _ _ _ (utf8Len_hex ha) (utf8Len_hex hb)]

/-- the three channels of `get_u8_parts` (after `strip`) are the first six characters -/
theorem parts_eq_read6 (t : Str) :
    (match part t 0, part t 2, part t 4 with
     | some r, some g, some b => some (r, g, b)
     | _, _, _ => none) = read6 HexHand.hexDigitVal t := by
  rw [part_zero_take2]
  unfold read6
  cases h : take2 HexHand.hexDigitVal t with
  | none => simp
  | some p =>
    obtain ⟨r, t1⟩ := p
    obtain ⟨a, b, va, vb, rfl, ha, hb, rfl⟩ := take2_some h
    rw [show (4 : Nat) = 2 + 2 from rfl, part_shift2 _ 2 ha hb,
      show (2 : Nat) = 0 + 2 from rfl, part_shift2 _ 0 ha hb, part_zero_take2]
    cases h1 : take2 HexHand.hexDigitVal t1 with
    | none => simp [h1]
    | some p1 =>
      obtain ⟨g, t2⟩ := p1
      obtain ⟨c, d, vc, vd, rfl, hc, hd, rfl⟩ := take2_some h1
      rw [part_shift2 _ 0 hc hd, part_zero_take2]
      cases h2 : take2 HexHand.hexDigitVal t2 with
      | none => simp [h1, h2]
      | some p2 => obtain ⟨b', t3⟩ := p2; simp [h1, h2]

/-! ## `get_u8_parts` and `try_from` -/

theorem get_u8_parts_eq (s0 : Str) :
    (∃ c, HexHand.Hex.get_u8_parts s0 = .ok c ∧ read6 HexHand.hexDigitVal (HexHand.Hex.strip s0) = some c) ∨
    (∃ e, HexHand.Hex.get_u8_parts s0 = .error e ∧ read6 HexHand.hexDigitVal (HexHand.Hex.strip s0) = none) := by
  rw [← parts_eq_read6]
  simp only [HexHand.Hex.get_u8_parts, part]
  cases Str.getRange (HexHand.Hex.strip s0) 0 2 <;> cases Str.getRange (HexHand.Hex.strip s0) 2 4 <;>
    cases Str.getRange (HexHand.Hex.strip s0) 4 6 <;> simp
  rename_i r g b
  cases HexHand.Hex.parsePart r <;> cases HexHand.Hex.parsePart g <;> cases HexHand.Hex.parsePart b <;> simp

theorem strip_nil : HexHand.Hex.strip [] = [] := rfl
theorem strip_hash (l : Str) : HexHand.Hex.strip (35 :: l) = l := rfl
theorem strip_cons_ne {x : Nat} (l : Str) (h : x ≠ 35) : HexHand.Hex.strip (x :: l) = x :: l := by
  unfold HexHand.Hex.strip
  split
  · rename_i heq; cases heq; exact absurd rfl h
  · rfl

/-- the double `strip` of the short form is harmless: a '#' that survives the first `strip` is
doubled, survives the second one and is rejected as a non-digit -/
theorem read6_unshorten {dv : Nat → Option Nat} (h35 : dv 35 = none) (u : Str) :
    read6 dv (HexHand.Hex.strip (u.flatMap fun c => [c, c])) = read3 dv u := by
  match u with
  | [] => rfl
  | x :: u1 =>
    by_cases hx : x = 35
    · subst hx
      have : read3 dv (35 :: u1) = none := by
        match u1 with
        | [] => rfl
        | [_] => rfl
        | _ :: _ :: _ => simp [read3, h35]
      rw [this]
      simp only [List.flatMap_cons, List.cons_append, List.nil_append, strip_hash]
      match u1 with
      | [] => rfl
      | y :: u2 => simp [read6, take2, pair, h35]
    · simp only [List.flatMap_cons, List.cons_append, List.nil_append, strip_cons_ne _ hx]
      match u1 with
      | [] => cases h1 : dv x <;> simp [read6, take2, read3, pair, h1]
      | [y] => cases h1 : dv x <;> cases h2 : dv y <;> simp [read6, take2, read3, pair, h1, h2]
      | y :: z :: u3 =>
        cases h1 : dv x <;> cases h2 : dv y <;> cases h3 : dv z <;>
          simp [read6, take2, read3, pair, h1, h2, h3] <;> omega

/-- **Characterisation of the parser on every string.** -/
theorem try_from_Hex_eq (s : Str) :
    let spelled := if Str.byteLen s ≤ 4 then read3 HexHand.hexDigitVal (HexHand.Hex.strip s) else read6 HexHand.hexDigitVal (HexHand.Hex.strip s)
    (∃ r g b, HexHand.Rgb.try_from_Hex ⟨s⟩ = .ok ⟨r, g, b⟩ ∧ spelled = some (r, g, b)) ∨
    (∃ e, HexHand.Rgb.try_from_Hex ⟨s⟩ = .error e ∧ spelled = none) := by
  intro spelled
  simp only [HexHand.Rgb.try_from_Hex]
  by_cases hlen : Str.byteLen s ≤ 4
  · have hsp : spelled = read6 HexHand.hexDigitVal (HexHand.Hex.strip (HexHand.Hex.unshorten s)) := by
      simp only [spelled, if_pos hlen, HexHand.Hex.unshorten]
      rw [read6_unshorten hexDigitVal_hash]
    rw [hsp, if_pos hlen]
    rcases get_u8_parts_eq (HexHand.Hex.unshorten s) with ⟨⟨r, g, b⟩, h1, h2⟩ | ⟨e, h1, h2⟩
    · left; exact ⟨r, g, b, by rw [h1], h2⟩
    · right; exact ⟨e, by rw [h1], h2⟩
  · have hsp : spelled = read6 HexHand.hexDigitVal (HexHand.Hex.strip s) := by simp only [spelled, if_neg hlen]
    rw [hsp, if_neg hlen]
    rcases get_u8_parts_eq s with ⟨⟨r, g, b⟩, h1, h2⟩ | ⟨e, h1, h2⟩
    · left; exact ⟨r, g, b, by rw [h1], h2⟩
    · right; exact ⟨e, by rw [h1], h2⟩

end Lemmas.Hex
