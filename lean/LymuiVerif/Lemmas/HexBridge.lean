import LymuiVerif.Gen.Model
import LymuiVerif.Core.Hex
import LymuiVerif.Lemmas.HexParse
/-!
# Lemmas relating the GENERATED `hex.rs` functions (`Gen.Hex.*`, `Gen.Rgb.try_from_Hex`, from MIR) to the
hand-written reference model (`Gen.HexHand.*`).  Core Lean only.
-/
namespace Lemmas.HexBridge
open Gen

/-! ## `Except` seen as `Option` (error payloads forgotten) -/

theorem toOption_eq_some {ε τ : Type} (e : Except ε τ) (v : τ) : e.toOption = some v ↔ e = .ok v := by
  cases e <;> simp [Except.toOption]

theorem toOption_eq_none {ε τ : Type} (e : Except ε τ) : e.toOption = none ↔ ∃ x, e = .error x := by
  cases e <;> simp [Except.toOption]

/-! ## digits -/

/-- `char::to_digit(16)` as used by `u8::from_str_radix(_, 16)` is the hand model's digit value -/
theorem digitValRadix16 (c : Nat) : digitValRadix 16 c = HexHand.hexDigitVal c := by
  unfold digitValRadix HexHand.hexDigitVal
  by_cases h1 : 48 ≤ c ∧ c ≤ 57
  · have : c - 48 < 16 := by omega
    simp [h1, this]
  · by_cases h2 : 97 ≤ c ∧ c ≤ 102
    · have a : 97 ≤ c ∧ c ≤ 122 := by omega
      have : c - 87 < 16 := by omega
      simp [h1, h2, a, this]
    · by_cases h2' : 97 ≤ c ∧ c ≤ 122
      · have : ¬ c - 87 < 16 := by omega
        have h3 : ¬ (65 ≤ c ∧ c ≤ 70) := by omega
        simp [h1, h2', this, h3]
        omega
      · by_cases h3 : 65 ≤ c ∧ c ≤ 70
        · have a : 65 ≤ c ∧ c ≤ 90 := by omega
          have : c - 55 < 16 := by omega
          simp [h1, h2, h2', h3, a, this]
        · by_cases h3' : 65 ≤ c ∧ c ≤ 90
          · have : ¬ c - 55 < 16 := by omega
            simp [h1, h2, h2', h3', this]
            omega
          · simp [h1, h2, h2', h3, h3']

/-- `char::is_ascii_hexdigit` is "the hand model's digit value exists" -/
theorem isAsciiHexDigit_eq (c : Nat) : Char.isAsciiHexDigit c = (HexHand.hexDigitVal c).isSome := by
  unfold Char.isAsciiHexDigit HexHand.hexDigitVal
  by_cases h1 : 48 ≤ c ∧ c ≤ 57
  · simp [h1]
  · by_cases h2 : 97 ≤ c ∧ c ≤ 102
    · simp [h1, h2]
    · by_cases h3 : 65 ≤ c ∧ c ≤ 70
      · simp [h1, h2, h3]
      · have a1 : ¬ (48 ≤ c ∧ c ≤ 57) := h1
        simp only [if_neg h1, if_neg h2, if_neg h3, Option.isSome_none]
        simp only [not_and, Nat.not_le] at h1 h2 h3
        simp only [Bool.or_eq_false_iff, Bool.and_eq_false_iff, decide_eq_false_iff_not, Nat.not_le]
        omega

theorem parseDigitsRadix16 : ∀ (s : Str) (acc : Nat),
    (parseDigitsRadix 16 s acc).toOption = HexHand.parseHexDigits s acc := by
  intro s
  induction s with
  | nil => intro acc; rfl
  | cons c cs ih =>
    intro acc
    simp only [parseDigitsRadix, HexHand.parseHexDigits, digitValRadix16]
    cases HexHand.hexDigitVal c with
    | none => rfl
    | some d =>
      simp only
      by_cases h : acc * 16 + d ≤ 255
      · simp only [if_pos h]; exact ih _
      · simp only [if_neg h]; rfl

/-- on a non-empty text whose first character is neither '+' nor '-', `u8::from_str_radix` just reads digits -/
theorem fromStrRadix_cons (c : Nat) (cs : Str) (r : Nat) (h43 : c ≠ 43) (h45 : c ≠ 45) :
    U8.fromStrRadix (c :: cs) r = parseDigitsRadix r (c :: cs) 0 := by
  unfold U8.fromStrRadix
  split
  · rename_i heq; cases heq
  · rename_i heq; cases heq; exact absurd rfl h43
  · rename_i heq; cases heq; exact absurd rfl h45
  · rename_i heq; cases heq; exact absurd rfl h43
  · rfl

/-! ## the closure `parse` of `get_u8_parts` -/

theorem parse_part_eq (s : Str) :
    (Hex.get_u8_parts.closure0 () s).toOption = HexHand.Hex.parsePart s := by
  unfold Hex.get_u8_parts.closure0 HexHand.Hex.parsePart
  have hall : (List.all s fun x => Hex.get_u8_parts.closure0.closure0 () x)
      = s.all (fun c => (HexHand.hexDigitVal c).isSome) := by
    congr 1; funext x; exact isAsciiHexDigit_eq x
  rw [hall]
  by_cases h : (s.all fun c => (HexHand.hexDigitVal c).isSome) = true
  · rw [if_pos h, if_pos h]
    match s, h with
    | [], _ => rfl
    | c :: cs, h =>
      have hc : (HexHand.hexDigitVal c).isSome = true := by
        simp only [List.all_cons, Bool.and_eq_true] at h; exact h.1
      have h43 : c ≠ 43 := by rintro rfl; revert hc; decide
      have h45 : c ≠ 45 := by rintro rfl; revert hc; decide
      rw [fromStrRadix_cons c cs 16 h43 h45, ← parseDigitsRadix16]
      cases parseDigitsRadix 16 (c :: cs) 0 <;> rfl
  · rw [if_neg h, if_neg h]; rfl

/-- both closures succeed with the same value, or both fail -/
theorem parse_part_cases (s : Str) :
    (∃ v, Hex.get_u8_parts.closure0 () s = .ok v ∧ HexHand.Hex.parsePart s = some v) ∨
    (∃ e, Hex.get_u8_parts.closure0 () s = .error e ∧ HexHand.Hex.parsePart s = none) := by
  have h := parse_part_eq s
  cases h' : Hex.get_u8_parts.closure0 () s with
  | ok v => left; rw [h'] at h; exact ⟨v, rfl, h.symm⟩
  | error e => right; rw [h'] at h; exact ⟨e, rfl, h.symm⟩

/-! ## `strip`, `unshorten` -/

theorem strip_eq (h : Hex) : (Hex.strip h)._0 = HexHand.Hex.strip h._0 := by
  obtain ⟨s⟩ := h
  match s with
  | [] => rfl
  | x :: l =>
    by_cases hx : x = 35
    · subst hx; rfl
    · rw [Lemmas.Hex.strip_cons_ne _ hx]
      simp [Hex.strip, Str.stripPrefixChar, hx]

theorem unshorten_fold (l : Str) : ∀ acc : Str,
    List.foldl (fun acc x => Hex.unshorten.closure1 () acc x) acc
      (List.map (fun x => Hex.unshorten.closure0 () x) l) = acc ++ l.flatMap fun c => [c, c] := by
  induction l with
  | nil => intro acc; simp
  | cons c cs ih =>
    intro acc
    simp only [List.map_cons, List.foldl_cons, ih, List.flatMap_cons]
    simp [Hex.unshorten.closure1, Hex.unshorten.closure0, Str.push]

theorem unshorten_eq (h : Hex) : (Hex.unshorten h)._0 = HexHand.Hex.unshorten h._0 := by
  simp only [Hex.unshorten, HexHand.Hex.unshorten, unshorten_fold, strip_eq, List.nil_append]

/-! ## `get_u8_parts`, `try_from` -/

theorem get_u8_parts_eq (h : Hex) :
    (Hex.get_u8_parts h).1.toOption = (HexHand.Hex.get_u8_parts h._0).toOption := by
  simp only [Hex.get_u8_parts, HexHand.Hex.get_u8_parts, Str.getRangeR, strip_eq]
  cases Str.getRange (HexHand.Hex.strip h._0) 0 2 <;> cases Str.getRange (HexHand.Hex.strip h._0) 2 4 <;>
    cases Str.getRange (HexHand.Hex.strip h._0) 4 6 <;> try rfl
  rename_i r g b
  simp only
  rcases parse_part_cases r with ⟨vr, hr1, hr2⟩ | ⟨er, hr1, hr2⟩ <;>
  rcases parse_part_cases g with ⟨vg, hg1, hg2⟩ | ⟨eg, hg1, hg2⟩ <;>
  rcases parse_part_cases b with ⟨vb, hb1, hb2⟩ | ⟨eb, hb1, hb2⟩ <;>
  simp only [hr1, hr2, hg1, hg2, hb1, hb2, Try.branch, Try.from_residual, Except.toOption]

/-- the `self` that `get_u8_parts` hands back is the stripped text -/
theorem get_u8_parts_self (h : Hex) : (Hex.get_u8_parts h).2 = Hex.strip h := by
  unfold Hex.get_u8_parts
  simp only
  repeat' split
  all_goals rfl

theorem try_from_eq (h : Hex) :
    (Rgb.try_from_Hex h).toOption = (HexHand.Rgb.try_from_Hex h).toOption := by
  unfold Rgb.try_from_Hex HexHand.Rgb.try_from_Hex
  by_cases hlen : Str.byteLen h._0 ≤ 4
  · simp only [hlen, decide_true, if_true]
    have := get_u8_parts_eq (Hex.unshorten h)
    rw [unshorten_eq] at this
    revert this
    cases (Hex.get_u8_parts (Hex.unshorten h)).1 <;>
      cases HexHand.Hex.get_u8_parts (HexHand.Hex.unshorten h._0) <;>
      simp [Try.branch, Try.from_residual, Except.toOption]
    rintro rfl; exact ⟨rfl, rfl, rfl⟩
  · simp only [hlen, decide_false, if_false]
    have := get_u8_parts_eq h
    revert this
    cases (Hex.get_u8_parts h).1 <;> cases HexHand.Hex.get_u8_parts h._0 <;>
      simp [Try.branch, Try.from_residual, Except.toOption]
    rintro rfl; exact ⟨rfl, rfl, rfl⟩

/-- the generated parser succeeds with `c` exactly when the hand model does -/
theorem try_from_ok_iff (h : Hex) (c : Rgb) :
    Rgb.try_from_Hex h = .ok c ↔ HexHand.Rgb.try_from_Hex h = .ok c := by
  rw [← toOption_eq_some, ← toOption_eq_some, try_from_eq]

/-- the generated parser fails exactly when the hand model does (the messages may differ) -/
theorem try_from_error_iff (h : Hex) :
    (∃ e, Rgb.try_from_Hex h = .error e) ↔ (∃ e, HexHand.Rgb.try_from_Hex h = .error e) := by
  rw [← toOption_eq_none, ← toOption_eq_none, try_from_eq]

/-! ## formatting -/

/-- the text of one channel: `format!("{:x}", v)`, then the zero-padding closure -/
def chan (v : Nat) : Str := Hex.from_Rgb.closure0 () (Fmt.format [192, 0] [FmtArg.lowerHex v])

theorem chan_eq_hex2 : ∀ v, v < 256 → chan v = HexHand.hex2 v := by decide +kernel

theorem fmt_hash (a : Str) : Fmt.format [1, 35, 192, 0] [FmtArg.display a] = 35 :: a := by
  simp [Fmt.format, Fmt.render, FmtArg.display]

theorem from_rgb_eq (c : Rgb) (hr : c.r ≤ 255) (hg : c.g ≤ 255) (hb : c.b ≤ 255) :
    Hex.from_Rgb c = HexHand.Hex.from_Rgb c := by
  have e : Hex.from_Rgb c = ⟨Fmt.format [1, 35, 192, 0] [FmtArg.display (Str.join [chan c.r, chan c.g, chan c.b] [])]⟩ := rfl
  rw [e, fmt_hash, chan_eq_hex2 _ (by omega), chan_eq_hex2 _ (by omega), chan_eq_hex2 _ (by omega)]
  simp [Str.join, HexHand.Hex.from_Rgb]

end Lemmas.HexBridge
