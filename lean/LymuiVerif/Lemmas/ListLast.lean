/-!
# `Vec::last` of a vector written `c :: (mid ++ [l])` (core Lean only)
-/
namespace Lemmas

theorem getLast?_cons_snoc {τ : Type} (c : τ) (mid : List τ) (l : τ) :
    (c :: (mid ++ [l])).getLast? = some l := by
  rw [← List.cons_append, List.getLast?_concat]

end Lemmas
